/-
C13 — every attribute name is governed by the right trait and its access policy.

Only property theorems and non-vacuity examples live here; the model is
Model/Resolve.lean, helper lemmas are Lemmas/Resolve*.lean.

Vocabulary (Lemmas/):
  `Governs c o name isSet r`   the property's resolution order, declaratively
  `Dispatch c o name isSet r`  the trait the model's lookup dispatches to
  `Inv w`                      no delegate traits + every class dictionary is
                               "declared traits + coherent cache"
                                 (`NoDeleg w`, which also says that no object has
                               a `trait_added` listener that adds traits)
  `SafeHist E w ops`           every class definition in `ops` derives from
                               classes whose cache is still empty at that moment
  `GovAt P w oi name`          every trait the lookup of `name` on object `oi`
                               can be dispatched to (now or after any cache
                               fill) satisfies `P`
  `DictAt w oi name r`         `obj.__dict__.get(name) = r`

Where the code deviates from the universally quantified statement the full
statement is kept as a `def … : Prop`, the proved part is `…_partial`-style
(here: the theorem with its explicit hypothesis) and a negation witness is
proved; the oracle of harness/props/c13.py replays the same witnesses on the
real code (known findings F50-F54).
-/
import TraitsVerif.Lemmas.ResolveSource5
import TraitsVerif.Lemmas.ResolveSource6
import TraitsVerif.Generated.PrefixTable
namespace TraitsVerif.Props.C13
open TraitsVerif TraitsVerif.Model.Resolve

/-! ## The tie to the source: how the wildcard table of a class is built -/

open TraitsVerif.Model.PrefixTable in
/-- `harness/translate/prefixtable.py` reads every statement of
`update_traits_class_dict` that touches `prefix_list` / stores into
`prefix_traits`, **in source order**, as steps (`Generated/PrefixTable.lean`:
start empty; declaration loop — a name ending in `_` is a wildcard for
`name[:-1]`; merge of the bases' tables, a prefix only if not yet present;
`''` ↦ `Python()` when absent; `prefix_traits["*"] = prefix_list`;
`prefix_list.sort(key=len, reverse=True)`).  For **all** bases and declarations
the model's table `(mkClass bases decls).prefixes` is the interpretation of
those steps — so their order (e.g. sorting before the bases are merged), the
wildcard test, the stem, the guard of the merge, the default key and the sort
key / direction are the source's.  (Replaces the string-constant tie
`C13_sort_is_modelled` of `translate/prefix.py`, which renaming a local broke.) -/
theorem C13_prefix_table_is_source (bases : List Cls) (decls : List (Name × Trait)) :
    tableOf bases decls Generated.PrefixTable.steps = some (mkClass bases decls).prefixes := by
  simp only [tableOf, Generated.PrefixTable.steps, List.foldl, stepT]
  simp only [mkClass, ensureDefault, ownPrefixes, endsUnderscore, stem, bne, Bool.not_not]
  rfl

/-! ## The tie to the source: the lookup code itself

`harness/translate/resolve_c.py` and `resolve_py.py` turn the source text of
`get_prefix_trait`, `has_traits_setattro`, `has_traits_getattro`, `get_trait`,
`setattr_python / _disallow / _readonly / _constant`, `getattr_event /
_disallow / _constant` and the error helpers (ctraits.c) and of
`HasTraits.__prefix_trait__`, `add_trait`, `remove_trait`, `trait`,
`base_trait` (has_traits.py) into programs of the deep-embedded language
`Model/ResL.lean` (Generated/ResolveC.lean, Generated/ResolvePy.lean).  The
theorems below say that the hand-written functions of `Model/Resolve.lean` are
**equal to the interpretation of those programs, for all inputs**.

`ResL.user7 E` is the function environment in which every translated function
is bound to (the interpretation of) its generated program; `St.init w oi o c nI
nO` is the start state, `nI` / `nO` saying that the C pointers
`obj->itrait_dict` / `obj->obj_dict` are NULL (only possible while the
dictionary is empty): the theorems hold for both values, i.e. the code treats a
NULL and an empty dictionary alike.  `NoStar c`: no wildcard prefix of the class
is literally `*` (the key under which the code stores the prefix list itself).
The `as…` functions read an interpreter result back into the model's result
type; they return `none` when the interpreter was stuck (unknown statement,
unknown callee, ill-typed primitive call), so every equality below also says
that the interpretation is never stuck. -/

open TraitsVerif.Model.ResL in
/-- `trait->setattr` / `trait->getattr` (the model's `setattrKind` /
`getattrKind`) for the kinds whose handlers are translated: row `kind` of
`setattr_handlers[]` / `getattr_handlers[]` is the named C function, and the
model's arm for that kind equals the interpretation of that function's source
(`setattr_python`, `setattr_disallow`, `setattr_readonly` — including the calls
of `setattr_python` it makes —, `setattr_constant`, `getattr_event`,
`getattr_disallow`, `getattr_constant`; which exception each of them raises is
read from `set_disallow_error`, `set_readonly_error`, `delete_readonly_error`,
`unknown_attribute_error`, whose sources are interpreted as well). -/
theorem C13_policy_is_source (E : Env) (st : St) (t t' : Trait) (k : Name) (value : Option Val)
    (hO : st.nullO = true → st.o.dict = []) :
    (Generated.ResolveC.setattrHandlers[1]? = some .setattr_python ∧
     Generated.ResolveC.setattrHandlers[5]? = some .setattr_disallow ∧
     Generated.ResolveC.setattrHandlers[6]? = some .setattr_readonly ∧
     Generated.ResolveC.setattrHandlers[7]? = some .setattr_constant ∧
     Generated.ResolveC.getattrHandlers[2]? = some .getattr_event ∧
     Generated.ResolveC.getattrHandlers[4]? = some .getattr_event ∧
     Generated.ResolveC.getattrHandlers[5]? = some .getattr_disallow ∧
     Generated.ResolveC.getattrHandlers[7]? = some .getattr_constant) ∧
    (t.kind = .python → asDict (user7 E .setattr_python [.trait t', .trait t, .obj, .name k, vOpt value] st)
        = some (setattrKind E t st.o.dict k value)) ∧
    (t.kind = .disallow → asDict (user7 E .setattr_disallow [.trait t', .trait t, .obj, .name k, vOpt value] st)
        = some (setattrKind E t st.o.dict k value)) ∧
    (t.kind = .readonly → asDict (user7 E .setattr_readonly [.trait t', .trait t, .obj, .name k, vOpt value] st)
        = some (setattrKind E t st.o.dict k value)) ∧
    (t.kind = .constant → asDict (user7 E .setattr_constant [.trait t', .trait t, .obj, .name k, vOpt value] st)
        = some (setattrKind E t st.o.dict k value)) ∧
    (t.kind = .event → asValDict (user7 E .getattr_event [.trait t, .obj, .name k] st)
        = some (getattrKind E t st.o.dict k)) ∧
    (t.kind = .disallow → asValDict (user7 E .getattr_disallow [.trait t, .obj, .name k] st)
        = some (getattrKind E t st.o.dict k)) ∧
    (t.kind = .constant → asValDict (user7 E .getattr_constant [.trait t, .obj, .name k] st)
        = some (getattrKind E t st.o.dict k)) := by
  refine ⟨by decide, ?_, ?_, ?_, ?_, ?_, ?_, ?_⟩
  · intro hk
    rw [show user7 E .setattr_python [.trait t', .trait t, .obj, .name k, vOpt value] st
      = user2 E .setattr_python [.trait t', .trait t, .obj, .name k, vOpt value] st from rfl,
      setattr_python_src E st t' t k value hO]
    simp [setattrKind, hk]
  · intro hk
    rw [show user7 E .setattr_disallow [.trait t', .trait t, .obj, .name k, vOpt value] st
      = user2 E .setattr_disallow [.trait t', .trait t, .obj, .name k, vOpt value] st from rfl,
      setattr_disallow_src]
    simp [setattrKind, hk]
  · intro hk
    rw [show user7 E .setattr_readonly [.trait t', .trait t, .obj, .name k, vOpt value] st
      = user3 E .setattr_readonly [.trait t', .trait t, .obj, .name k, vOpt value] st from rfl,
      setattr_readonly_src E st t' t k value hk hO]
  · intro hk
    rw [show user7 E .setattr_constant [.trait t', .trait t, .obj, .name k, vOpt value] st
      = user2 E .setattr_constant [.trait t', .trait t, .obj, .name k, vOpt value] st from rfl,
      setattr_constant_src]
    simp [setattrKind, hk]
  · intro hk
    rw [show user7 E .getattr_event [.trait t, .obj, .name k] st
      = user2 E .getattr_event [.trait t, .obj, .name k] st from rfl, getattr_event_src]
    simp [getattrKind, hk]
  · intro hk
    rw [show user7 E .getattr_disallow [.trait t, .obj, .name k] st
      = user2 E .getattr_disallow [.trait t, .obj, .name k] st from rfl, getattr_disallow_src]
    simp [getattrKind, hk]
  · intro hk
    rw [show user7 E .getattr_constant [.trait t, .obj, .name k] st
      = user2 E .getattr_constant [.trait t, .obj, .name k] st from rfl, getattr_constant_src]
    simp [getattrKind, hk]

open TraitsVerif.Model.ResL in
/-- `HasTraits.__prefix_trait__(name, is_set)`: the model's `prefixTrait` (the
`__xxx__` rules, the `name_` delegate shadow through `self._trait(name[:-1],
0)`, the first match in `prefix_traits["*"]`, SystemError when nothing matches)
is the interpretation of the method's source.  The loop is interpreted for
lists of **any** length (induction in `Lemmas/ResolveSource2.prefix_loop_aux`). -/
theorem C13_prefix_trait_is_source (E : Env) (w : World) (oi : Nat) (o : Obj) (c : Cls) (name : Name) (isSet : Bool)
    (nI nO : Bool) (hI : nI = true → o.itraits = []) (hstar : NoStar c) :
    asTrait (user7 E .m_prefix_trait [.obj, .name name, .int (if isSet then 1 else 0)] (St.init w oi o c nI nO))
      = some (prefixTrait c o name isSet) := by
  rw [show user7 E .m_prefix_trait [.obj, .name name, .int (if isSet then 1 else 0)] (St.init w oi o c nI nO)
    = user5 E .m_prefix_trait [.obj, .name name, .int (if isSet then 1 else 0)] (St.init w oi o c nI nO) from rfl,
    prefix_trait_src E _ name isSet hI hstar]
  unfold prefixTraitV
  simp only [St.init]
  cases h : prefixTrait c o name isSet <;> simp [asTrait]

open TraitsVerif.Model.ResL in
/-- `get_prefix_trait(obj, name, is_set)`: call `__prefix_trait__`, **store the
result in the class dictionary**, fire `trait_added`, resolve the name again
with `get_trait(obj, name, 0)` — the model's `getPrefixTrait` is the
interpretation of the C source (and of the sources it calls). -/
theorem C13_get_prefix_trait_is_source (E : Env) (w : World) (oi : Nat) (o : Obj) (c : Cls) (name : Name)
    (isSet : Bool) (nI nO : Bool) (hI : nI = true → o.itraits = []) (hstar : NoStar c) :
    asWorldTrait (user7 E .get_prefix_trait [.obj, .name name, .int (if isSet then 1 else 0)]
        (St.init w oi o c nI nO))
      = some (getPrefixTrait w oi o c name isSet) := by
  rw [user7_get_prefix_trait, get_prefix_trait_src E _ name isSet hI hstar]
  unfold getPrefixTraitV getPrefixTrait
  simp only [St.init]
  cases prefixTrait c o name isSet with
  | error e => simp [asWorldTrait]
  | ok t =>
    cases hfi : (fireTraitAdded o name).itraits.get name <;>
      simp [asWorldTrait, St.fire, St.putCTraits, St.putObj, hfi]

open TraitsVerif.Model.ResL in
/-- **The lookup is the source.**  `setattr` / `delattr` (`value = none`) and
`getattr` of the model are the interpretation of `has_traits_setattro` and
`has_traits_getattro`: the `__dict__` short cut of reads, instance-trait
dictionary before class-trait dictionary, `PyObject_GenericGetAttr` before the
prefix fallback on reads, `get_prefix_trait` (with its caching into the class
dictionary) last, then the dispatch through `trait->setattr` / `trait->getattr`,
and `-1` / `NULL` with the pending exception on every failure path. -/
theorem C13_lookup_is_source (E : Env) (w : World) (oi : Nat) (o : Obj) (c : Cls) (name : Name)
    (nI nO : Bool) (hI : nI = true → o.itraits = []) (hO : nO = true → o.dict = []) (hstar : NoStar c) :
    (∀ value : Option Val,
      asSet (user7 E .has_traits_setattro [.obj, .name name, vOpt value] (St.init w oi o c nI nO))
        = some (setattro E w oi o c name value)) ∧
    asGet (user7 E .has_traits_getattro [.obj, .name name] (St.init w oi o c nI nO))
      = some (getattro E w oi o c name) :=
  ⟨fun value => setattro_src E w oi o c name value nI nO hI hstar, getattro_src E w oi o c name nI nO hI hO hstar⟩

open TraitsVerif.Model.ResL in
/-- … and so is what `step` does for `get` / `set` / `del` on an existing object. -/
theorem C13_step_is_source (E : Env) {w : World} {oi : Nat} {o : Obj} {c : Cls}
    (ho : w.objs[oi]? = some o) (hc : w.classes[o.cls]? = some c) (name : Name)
    (nI nO : Bool) (hI : nI = true → o.itraits = []) (hO : nO = true → o.dict = []) (hstar : NoStar c) :
    (∀ v, some (step E w (.set oi name v)) =
      asSet (user7 E .has_traits_setattro [.obj, .name name, .val v] (St.init w oi o c nI nO))) ∧
    some (step E w (.del oi name)) =
      asSet (user7 E .has_traits_setattro [.obj, .name name, .null] (St.init w oi o c nI nO)) ∧
    some (step E w (.get oi name)) =
      asGet (user7 E .has_traits_getattro [.obj, .name name] (St.init w oi o c nI nO)) := by
  refine ⟨fun v => ?_, ?_, ?_⟩
  · rw [step_set_eq E ho hc]; exact (setattro_src E w oi o c name (some v) nI nO hI hstar).symm
  · rw [step_del_eq E ho hc]; exact (setattro_src E w oi o c name none nI nO hI hstar).symm
  · rw [step_get_eq E ho hc]; exact (getattro_src E w oi o c name nI nO hI hO hstar).symm

open TraitsVerif.Model.ResL in
/-- The full-strength statement for `get_trait(obj, name, instance)`: **every**
`instance` (`1`: existing instance trait or None; `0`: existing instance or
class trait or None; negative: force the prefix resolution; `≥ 2`: clone the
resolved trait into the instance-trait dictionary, creating the dictionary when
`obj->itrait_dict` is still NULL), no condition on `trait_added` listeners. -/
def C13_get_trait_is_source_full : Prop :=
  ∀ (E : Env) (w : World) (oi : Nat) (o : Obj) (c : Cls) (name : Name) (inst : Int) (nI nO : Bool),
    (nI = true → o.itraits = []) → NoStar c → w.objs[oi]? = some o →
    asGetTrait (user7 E .get_trait [.obj, .name name, .int inst] (St.init w oi o c nI nO))
      = some (getTrait w oi o c name inst)

open TraitsVerif.Model.ResL in
/-- The model's `getTrait` is the interpretation of the C source of `get_trait`,
at full strength.  (On the tree before repair 80abfdf this was refuted —
finding F106: the function tested the NULL `obj->itrait_dict` it had read
*before* calling `get_prefix_trait` and overwrote the dictionary a
`trait_added` handler had created meanwhile; the repaired function re-reads the
pointer, and the case `nI = true` with a firing listener below goes through.) -/
theorem C13_get_trait_is_source : C13_get_trait_is_source_full := by
  intro E w oi o c name inst nI nO hI hstar ho
  by_cases h : inst ≤ 1
  · exact (get_trait_src E w oi o c name inst nI nO hI hstar (by omega)).1
  · exact get_trait_clone_src E w oi o c name inst nI nO hI hstar ho (by omega)

open TraitsVerif.Model.ResL in
/-- The Python method `_trait(name, instance)`: `has_traits_methods[]` binds it to
`_has_traits_trait`, whose source (read with `PyArg_ParseTuple(args, "Oi",
&name, &instance)` as the binding of its two parameters) returns exactly what
`get_trait(obj, name, instance)` returns for every `instance ≥ -1` — which is
why the interpreter runs the program of `get_trait` for `self._trait(...)`
(`Fn.m_trait`).  The delegate chain of `instance = -2` (`base_trait`) is not
interpreted. -/
theorem C13_trait_call_is_source (E : Env) (st : St) (name : Name) (inst : Int) (hinst : -1 ≤ inst) :
    Generated.ResolveC.traitMethodRow = ("_has_traits_trait", "METH_VARARGS") ∧
    asGetTrait (user8 E .has_traits_trait [.obj, .name name, .int inst] st) =
      asGetTrait (user7 E .get_trait [.obj, .name name, .int inst] st) ∧
    user7 E .m_trait [.obj, .name name, .int inst] st = user7 E .get_trait [.obj, .name name, .int inst] st :=
  ⟨rfl, has_traits_trait_src E st name inst hinst, rfl⟩

/-- An object without instance-trait dictionary whose `trait_added` listener adds
an instance trait for every new name. -/
def staleObj : Obj := { cls := 0, hooks := [([], { kind := .trait, dflt := .int 7, tag := 9 })] }
def staleCls : Cls := { ctraits := [], prefixes := [([], pythonDefault)], decl := [] }
def staleWorld : World := { classes := [staleCls], objs := [staleObj] }

open TraitsVerif.Model.ResL in
/-- Regression for F106, on the interpretation of the repaired source: after
`_trait('a', 2)` on that object (NULL dictionary, listener fires during the
resolution) the instance trait the listener added is still there and governs. -/
example :
    (asGetTrait (user7 Env.sample .get_trait [.obj, .name ['a'], .int 2]
        (St.init staleWorld 0 staleObj staleCls true false))).map
      (fun r => (r.1.objs.map (fun o => (o.itraits.get ['a']).map (·.tag)), r.2)) =
    some ([some 9], .ok (.trait (some { kind := .trait, dflt := .int 7, tag := 9 }))) := by
  decide +kernel

open TraitsVerif.Model.ResL in
/-- `add_trait(name, trait)` and `remove_trait(name)` of the model are the
interpretation of the Python methods (statements about companion `_items` /
mapped traits and about static notifiers are `ghost`: their text is pinned by
the translator, anything else in their place makes the interpreter stuck). -/
theorem C13_add_remove_is_source (E : Env) (w : World) (oi : Nat) (o : Obj) (c : Cls) (name : Name)
    (nI nO : Bool) (hI : nI = true → o.itraits = []) (ho : w.objs[oi]? = some o) :
    (∀ t : Trait, asPy (user7 E .m_add_trait [.obj, .name name, .trait t] (St.init w oi o c nI nO))
        = some (addTrait w oi o c name t)) ∧
    asPy (user7 E .m_remove_trait [.obj, .name name] (St.init w oi o c nI nO))
      = some (removeTrait w oi o c name) :=
  ⟨fun t => add_trait_src E w oi o c name t nI nO hI, remove_trait_src E w oi o c name nI nO hI ho⟩

open TraitsVerif.Model.ResL in
/-- `trait(name, force, copy)` is `_trait(name, -1 if force else 0)` (cloned when
`copy`), `base_trait(name)` is `_trait(name, -2)`: the translated bodies are
the ones `Op.getTrait` was written for (a rigid tie: any edit breaks it). -/
theorem C13_trait_methods_are_modelled :
    Generated.ResolvePy.trait_method.body =
      [.expr (.asg .l0 (.lit (.int 0))),
       .ite (.var .p2) [.expr (.asg .l0 (.lit (.int (-1))))] [],
       .expr (.asg .l1 (.call .m_trait [.var .p0, .var .p1, .var .l0])),
       .ite (.or (.not (.var .p3)) (.call .eq [.var .l1, .lit .none])) [.ret (.var .l1)] [],
       .ret (.call .clone_trait [.var .l1])] ∧
    Generated.ResolvePy.trait_method.params = [.p0, .p1, .p2, .p3] ∧
    Generated.ResolvePy.trait_method_defaults = ["False", "False"] ∧
    Generated.ResolvePy.base_trait.body = [.ret (.call .m_trait [.var .p0, .var .p1, .lit (.int (-2))])] ∧
    Generated.ResolvePy.base_trait.params = [.p0, .p1] :=
  ⟨rfl, rfl, rfl, rfl, rfl⟩

/-! ## Longest prefix -/

/-- For **all** wildcard lists and **all** names: the first entry, in the list
sorted by descending length, whose prefix equals `name[:len(prefix)]`
(i) is an entry of the list and a prefix of the name, (ii) has maximal length
among all matching entries, (iii) is the only matching prefix of that length;
(iv) the '' wildcard makes the search total; (v) no match found means none
exists; (vi) the sort is a stable permutation sorted longest first. -/
theorem C13_longest_prefix (ps : List (Name × Trait)) (name : Name) :
    (∀ e, firstMatch (sortPrefixes ps) name = some e →
        e ∈ ps ∧ e.1 <+: name ∧
        (∀ e' ∈ ps, e'.1 <+: name → e'.1.length ≤ e.1.length) ∧
        (∀ e' ∈ ps, e'.1 <+: name → e'.1.length = e.1.length → e'.1 = e.1)) ∧
    ((∃ t, ([], t) ∈ ps) → ∃ e, firstMatch (sortPrefixes ps) name = some e) ∧
    (firstMatch (sortPrefixes ps) name = none → ∀ e ∈ ps, ¬ e.1 <+: name) ∧
    ((sortPrefixes ps).Perm ps ∧ Sorted (sortPrefixes ps) ∧
      ∀ n, (sortPrefixes ps).filter (fun x => x.1.length = n) = ps.filter (fun x => x.1.length = n)) := by
  refine ⟨?_, ?_, ?_, sortPrefixes_perm ps, sortPrefixes_sorted ps, sortPrefixes_stable ps⟩
  · intro e h
    obtain ⟨hm, hp⟩ := firstMatch_some h
    have hmax := firstMatch_longest (sortPrefixes_sorted ps) h
    refine ⟨mem_sortPrefixes.mp hm, hp, fun e' he' => hmax e' (mem_sortPrefixes.mpr he'), ?_⟩
    intro e' _ hp' hlen
    exact prefix_eq_of_length_eq hp' hp hlen
  · intro ⟨t, ht⟩
    exact firstMatch_total ⟨t, mem_sortPrefixes.mpr ht⟩ name
  · intro h e he
    exact firstMatch_none h e (mem_sortPrefixes.mpr he)

/-- With distinct wildcard prefixes (keys of a `dict`) the result is determined
by the *set* of wildcards: whichever entry is a longest match is the one found. -/
theorem C13_longest_prefix_unique (ps : List (Name × Trait)) (hn : NodupKeys ps) (name : Name)
    (e e' : Name × Trait) (h : firstMatch (sortPrefixes ps) name = some e) (he' : e' ∈ ps)
    (hp' : e'.1 <+: name) (hmax : ∀ x ∈ ps, x.1 <+: name → x.1.length ≤ e'.1.length) : e' = e :=
  firstMatch_unique (sortPrefixes_sorted ps) (hn.perm (sortPrefixes_perm ps).symm) h
    (mem_sortPrefixes.mpr he') hp' (fun x hx => hmax x (mem_sortPrefixes.mp hx))

example : firstMatch (sortPrefixes [(['x'], anyTrait), ([], pythonDefault), (['x', 'y'], genericTrait)])
    ['x', 'y', 'z'] = some (['x', 'y'], genericTrait) := by decide

/-! ## Resolution order -/

/-- In every coherent world, for every object, every name: a write (set / del)
is dispatched to the trait the property names — instance trait, else declared
class trait (own or inherited), else the longest matching wildcard ('' = class
default) — and so is every read that reaches the trait lookup, for every name
that is not of the form `__xxx__`. -/
theorem C13_order {w : World} (hw : Inv w) {oi : Nat} {o : Obj} {c : Cls}
    (ho : w.objs[oi]? = some o) (hc : w.classes[o.cls]? = some c) (name : Name) :
    Governs c o name true (resolveSet w oi o c name).2 ∧
    (isDunder name = false → Governs c o name false (resolveGet w oi o c name).2) := by
  have hci := hw.cls c (List.mem_of_getElem? hc)
  have hcp := hw.nd.cls c (List.mem_of_getElem? hc)
  have hop := hw.nd.obj o (List.mem_of_getElem? ho)
  have hh := hw.nd.hooks o (List.mem_of_getElem? ho)
  exact ⟨(resolveSet_spec w c name hh ho).2.governs hci hcp hop (Or.inl rfl),
    fun hdu => (resolveGet_spec w c name hh ho).2.governs hci hcp hop (Or.inr hdu)⟩

/-- `resolveGet` is the lookup `getattr` performs (after the `__dict__` and
type-attribute short cuts), `resolveSet` the one `setattr` / `delattr` perform. -/
theorem C13_order_is_about_step (E : Env) {w : World} {oi : Nat} {o : Obj} {c : Cls}
    (ho : w.objs[oi]? = some o) (hc : w.classes[o.cls]? = some c) (name : Name) :
    (∀ v, step E w (.set oi name v) =
      match resolveSet w oi o c name with
      | (w', .error e) => (w', .error e)
      | (w', .ok t) =>
        match setattrKind E t o.dict name (some v) with
        | .error e => (w', .error e)
        | .ok d => (setDict w' oi d, .ok .done)) ∧
    (o.dict.get name = none → E.classAttr name = none →
      step E w (.get oi name) =
        match resolveGet w oi o c name with
        | (w', .error e) => (w', .error e)
        | (w', .ok t) =>
          match getattrKind E t o.dict name with
          | .error e => (w', .error e)
          | .ok (v, d) => (setDict w' oi d, .ok (.val v))) := by
  refine ⟨fun v => ?_, fun hd hca => ?_⟩
  · rw [step_set_eq E ho hc]; rfl
  · rw [step_get_eq E ho hc]; exact getattro_eq_resolveGet E w oi o c name hd hca

/-- Hierarchies: the tables of a class built from **any** list of bases.
Declared class traits: own exact declaration, else the first base that has one
(bases are themselves merged classes, so this is "own or inherited");
wildcards: own, else the first base's, else `Python()` for ''; the table is
sorted longest first and contains ''. -/
theorem C13_order_hierarchy (bases : List Cls) (decls : List (Name × Trait))
    (hnd : NodupKeys (ownPrefixes decls)) :
    (∀ n, (mkClass bases decls).decl.get n = match (ownTraits decls).get n with
        | some t => some t
        | none => firstSome (bases.map (fun b => b.decl.get n))) ∧
    (∀ p, Map.get (mkClass bases decls).prefixes p = match Map.get (ownPrefixes decls) p with
        | some t => some t
        | none => match firstSome (bases.map (fun b => Map.get b.prefixes p)) with
          | some t => some t
          | none => if p = [] then some pythonDefault else none) ∧
    Sorted (mkClass bases decls).prefixes ∧ Total (mkClass bases decls) ∧
    NodupKeys (mkClass bases decls).prefixes :=
  ⟨mkClass_decl_get bases decls, mkClass_prefix_get hnd, mkClass_sorted _ _, mkClass_hasDefault _ _,
   mkClass_nodup hnd⟩

/-- Lifted to histories: after **any** history of class definitions, object
creations, get / set / del, add_trait, remove_trait, `_trait` — in which classes
are not derived from an already-used class — the order holds for every object
and every name. -/
theorem C13_order_history (E : Env) (ops : List Op) (hplain : ∀ op ∈ ops, op.Plain)
    (hsafe : SafeHist E World.init ops) {oi : Nat} {o : Obj} {c : Cls}
    (ho : (run E World.init ops).1.objs[oi]? = some o)
    (hc : (run E World.init ops).1.classes[o.cls]? = some c) (name : Name) :
    Governs c o name true (resolveSet (run E World.init ops).1 oi o c name).2 ∧
    (isDunder name = false → Governs c o name false (resolveGet (run E World.init ops).1 oi o c name).2) :=
  C13_order (Inv_run E inv_init hplain hsafe) ho hc name

/-- The full-strength statement (every name, reads included). -/
def C13_order_full : Prop :=
  ∀ (w : World), Inv w → ∀ (o : Obj) (c : Cls), o ∈ w.objs → w.classes[o.cls]? = some c →
    ∀ (name : Name) (b : Bool) (r : Except Exc Trait), Dispatch c o name b r → Governs c o name b r

/-- A class whose dictionary holds the `Any` trait an earlier *write* to
`__f__` cached (this is the state reached by `a.__f__ = 1`, see the example). -/
def dunderCls : Cls :=
  { ctraits := [(['_', '_', 'f', '_', '_'], anyTrait)], prefixes := [([], pythonDefault)], decl := [] }

def dunderWorld : World := { classes := [dunderCls], objs := [{ cls := 0 }] }

/-- Negation witness (known finding F54): once any instance of the class has *written* a `__xxx__`
name, reads of that name on every instance are dispatched to the cached `Any`
trait (value `None`) instead of raising AttributeError. -/
theorem C13_order_fails_dunder_read_after_write : ¬ C13_order_full := by
  intro h
  have hinv : Inv dunderWorld := by
    refine ⟨⟨?_, ?_, ?_⟩, ?_⟩
    · intro c hc; simp [dunderWorld] at hc; subst hc
      exact ⟨by decide, by decide⟩
    · intro o ho; simp [dunderWorld] at ho; subst ho; intro e he; simp at he
    · intro o ho; simp [dunderWorld] at ho; subst ho; rfl
    · intro c hc; simp [dunderWorld] at hc; subst hc
      refine ⟨by unfold Sorted; decide, ⟨pythonDefault, by decide⟩, ?_, ?_⟩
      · intro n t hn; simp [dunderCls] at hn
      · intro n t hn _
        simp only [dunderCls, Map.get_cons, Map.get_nil] at hn
        split at hn
        · rename_i heq; cases hn; subst heq; exact ⟨true, by decide⟩
        · cases hn
  have := h dunderWorld hinv { cls := 0 } dunderCls (by simp [dunderWorld]) (by simp [dunderWorld])
    ['_', '_', 'f', '_', '_'] false (.ok anyTrait) (.cls (by decide) (by decide))
  generalize hr : (Except.ok anyTrait : Except Exc Trait) = r at this
  cases this with
  | inst h' => simp at h'
  | declared _ h' => simp [dunderCls] at h'
  | dunderClass _ _ h' => revert h'; decide
  | dunderSet _ _ _ _ hs => cases hs
  | dunderGet _ _ _ _ _ => cases hr
  | wildcard _ _ hdu _ _ _ => revert hdu; decide

/-- The same on a real history: `b.__f__` raises AttributeError, but after
`a.__f__ = 1` on *another* instance it returns `None`. -/
example :
    (run Env.sample World.init
      [.mkClass [1] [], .new 3, .new 3, .get 1 "__f__".toList]).2.getLast? = some (.error .attributeError) ∧
    (run Env.sample World.init
      [.mkClass [1] [], .new 3, .new 3, .set 0 "__f__".toList (.int 1), .get 1 "__f__".toList]).2.getLast?
      = some (.ok (.val .none)) := by decide

/-! ## Cache coherence -/

/-- After **any** history (from any coherent world) in which no class is
derived from a class whose cache is already populated, every entry of every
class dictionary is either a declared class trait or exactly what an uncached
resolution of that name by any object of the class returns now (for names that
are not `__xxx__`: for reads and writes alike). -/
theorem C13_cache_coherent (E : Env) {w₀ : World} (h₀ : Inv w₀) (ops : List Op)
    (hplain : ∀ op ∈ ops, op.Plain) (hsafe : SafeHist E w₀ ops) :
    ∀ o ∈ (run E w₀ ops).1.objs, ∀ c, (run E w₀ ops).1.classes[o.cls]? = some c →
      ∀ n t, c.ctraits.get n = some t →
        c.decl.get n = some t ∨
        (c.decl.get n = none ∧ (∃ b, prefixTrait c o n b = .ok t) ∧
          (isDunder n = false → ∀ b, prefixTrait c o n b = .ok t)) := by
  intro o ho c hc n t hct
  have hw := Inv_run E h₀ hplain hsafe
  have hcm := List.mem_of_getElem? hc
  have hci := hw.cls c hcm
  cases hd : c.decl.get n with
  | some t' =>
    left
    have := hci.declSub n t' hd
    rw [hct] at this; cases this; rfl
  | none =>
    right
    obtain ⟨b, hb⟩ := hci.coherent n t hct hd
    have heq := fun b' => prefixTrait_plain_eq (hw.nd.cls c hcm) (hw.nd.obj o ho) n b'
    refine ⟨rfl, ⟨b, by rw [heq]; exact hb⟩, ?_⟩
    intro hdu b'
    rw [heq, resolve₀_not_dunder hdu b' b]; exact hb

/-- `op.Plain` (no delegate trait is declared or added) is a real restriction
(known finding F56): the `name_` shadow of a delegate that only *one instance*
has is cached in the *class* dictionary, so afterwards `w_` is a delegate on an
instance that never had `w` (first history: `b.w_ = 1` is a plain attribute
write; second: the same write fails in the delegate setter). -/
example :
    (run Env.sample World.init [.new 0, .new 0, .set 1 ['w', '_'] (.int 1)]).2.getLast? = some (.ok .done) ∧
    (run Env.sample World.init
      [.new 0, .new 0, .addTrait 0 ['w'] { kind := .delegate, tag := 5 }, .get 0 ['w', '_'],
       .set 1 ['w', '_'] (.int 1)]).2.getLast? = some (.error .traitError) := by decide

/-- The usual shape of a program — all classes defined, then used — satisfies
the hypothesis. -/
theorem C13_cache_coherent_defs_first (E : Env) (defs uses : List Op)
    (hd : ∀ op ∈ defs, op.isDef = true) (hu : ∀ op ∈ uses, op.isMkClass = false)
    (hplain : ∀ op ∈ defs ++ uses, op.Plain) :
    ∀ o ∈ (run E World.init (defs ++ uses)).1.objs, ∀ c,
      (run E World.init (defs ++ uses)).1.classes[o.cls]? = some c →
      ∀ n t, c.ctraits.get n = some t →
        c.decl.get n = some t ∨
        (c.decl.get n = none ∧ (∃ b, prefixTrait c o n b = .ok t) ∧
          (isDunder n = false → ∀ b, prefixTrait c o n b = .ok t)) :=
  C13_cache_coherent E inv_init (defs ++ uses) hplain (SafeHist_defs_then_use E allClean_init defs uses hd hu)

/-- The full-strength statement: coherence after every history. -/
def C13_cache_coherent_full : Prop :=
  ∀ (E : Env) (ops : List Op), (∀ op ∈ ops, op.Plain) → Inv (run E World.init ops).1

def intTrait : Trait := { kind := .trait, dflt := .int 0, validator := some 0, tag := 1 }
def strTrait : Trait := { kind := .trait, dflt := .str "", validator := some 1, tag := 2 }

/-- Non-vacuity of the start-state hypotheses, and the interpretation running on
a concrete world: `a.xy = 1` on a fresh instance of `class A(HasTraits): x_ =
Int` (NULL dictionaries) goes through the prefix fallback and caches `xy` in
the class dictionary — the same world the model's `step` produces. -/
example :
    ∃ o c, (run Env.sample World.init [.mkClass [0] [(['x', '_'], intTrait)], .new 3]).1.objs[0]? = some o ∧
      (run Env.sample World.init [.mkClass [0] [(['x', '_'], intTrait)], .new 3]).1.classes[o.cls]? = some c ∧
      o.itraits = [] ∧ o.dict = [] ∧ TraitsVerif.Model.ResL.NoStar c ∧
      (step Env.sample (run Env.sample World.init [.mkClass [0] [(['x', '_'], intTrait)], .new 3]).1
        (.set 0 ['x', 'y'] (.int 1))).2 = .ok .done := by
  refine ⟨{ cls := 3 }, mkClass [clsHasTraits] [(['x', '_'], intTrait)], by decide, by decide, rfl, rfl, ?_, by decide⟩
  intro e he
  have : (mkClass [clsHasTraits] [(['x', '_'], intTrait)]).prefixes.map (·.1) =
      ["_traits_cache_".toList, ['x'], []] := by decide
  have hm := List.mem_map_of_mem (f := (·.1)) he
  rw [this] at hm
  simp only [List.mem_cons, List.mem_nil_iff, or_false] at hm
  rcases hm with h | h | h <;> rw [h] <;> decide

/-- `class A(HasTraits): x_ = Int`; `A().xy`; `class B(A): xy_ = Str`; `B()`. -/
def lateSubclass : List Op :=
  [.mkClass [0] [(['x', '_'], intTrait)], .new 3, .get 0 ['x', 'y'],
   .mkClass [3] [(['x', 'y', '_'], strTrait)], .new 4]

/-- Negation witness (known finding F50): a class defined after its base was
used inherits the base's *resolved* entry `xy ↦ Int` as if it were a declared
class trait, although its own longest matching wildcard `xy_` says `Str`. -/
theorem C13_cache_fails_late_subclass : ¬ C13_cache_coherent_full := by
  intro h
  have hinv := h Env.sample lateSubclass (by decide)
  have hc : (run Env.sample World.init lateSubclass).1.classes[4]? = some
      (run Env.sample World.init lateSubclass).1.classes[4]! := by decide
  have hci := hinv.cls _ (List.mem_of_getElem? hc)
  obtain ⟨b, hb⟩ := hci.coherent ['x', 'y'] intTrait (by decide) (by decide)
  cases b <;> revert hb <;> decide

/-- … and what the object sees: `B().xy` is governed by `Int`, not by `Str`. -/
example : (run Env.sample World.init
    (lateSubclass ++ [.set 1 ['x', 'y'] (.str "a"), .get 1 ['x', 'y']])).2.drop 5 =
    [.error .traitError, .ok (.val (.int 0))] := by decide

/-- Non-vacuity of `SafeHist`/`Inv`: a three-level hierarchy used by two objects. -/
example : SafeHist Env.sample World.init
    [.mkClass [0] [(['x', '_'], intTrait)], .mkClass [3] [(['x', 'y', '_'], strTrait)], .new 4, .new 3,
     .set 0 ['x', 'y', 'z'] (.str "a"), .get 1 ['x', 'y', 'z']] := by
  refine SafeHist_defs_then_use Env.sample allClean_init
    [.mkClass [0] [(['x', '_'], intTrait)], .mkClass [3] [(['x', 'y', '_'], strTrait)], .new 4, .new 3]
    [.set 0 ['x', 'y', 'z'] (.str "a"), .get 1 ['x', 'y', 'z']] (by decide) (by decide)

/-! ## Strict classes -/

def IsDisallow (t : Trait) : Prop := t.kind = .disallow

/-- Wherever every trait the lookup of `name` on `oi` can reach is `Disallow`
(undeclared name on a strict class): reading raises AttributeError, writing and
deleting raise TraitError, nothing is stored — and this stays so along **every**
history that does not `add_trait` a non-Disallow trait of that name to that
very object. -/
theorem C13_strict (E : Env) {w : World} (hw : NoDeleg w) {oi : Nat} {name : Name}
    (hg : GovAt IsDisallow w oi name) (hd : DictAt w oi name none) (hca : E.classAttr name = none) :
    (step E w (.get oi name)).2 = .error .attributeError ∧
    (∀ v, (step E w (.set oi name v)).2 = .error .traitError) ∧
    (step E w (.del oi name)).2 = .error .traitError ∧
    ∀ ops : List Op, (∀ op ∈ ops, op.Plain) →
      (∀ op ∈ ops, ∀ t, op = .addTrait oi name t → IsDisallow t) →
      NoDeleg (run E w ops).1 ∧ GovAt IsDisallow (run E w ops).1 oi name ∧
        DictAt (run E w ops).1 oi name none := by
  refine ⟨?_, ?_, ?_, ?_⟩
  · obtain ⟨o, c, ho, hc, h⟩ := getattro_outcome E hw hg hd hca
    rw [step_get_eq E ho hc]
    rcases h with ⟨h, _⟩ | ⟨t, ht, h⟩
    · exact h
    · rw [h, getattrKind_disallow ht]; rfl
  · intro v
    obtain ⟨o, c, t, ho, hc, ht, h⟩ := setattro_outcome E hw hg (some v)
    rw [step_set_eq E ho hc, h, setattrKind_disallow ht]; rfl
  · obtain ⟨o, c, t, ho, hc, ht, h⟩ := setattro_outcome E hw hg none
    rw [step_del_eq E ho hc, h, setattrKind_disallow ht]; rfl
  · intro ops hplain hadd
    refine GovDict_run E hw hg hd ?_ ?_ hplain hadd (fun _ _ _ => rfl)
    · intro t d value d' ht _ hk; rw [setattrKind_disallow ht] at hk; cases hk
    · intro t d v d' ht _ _ hk; rw [getattrKind_disallow ht] at hk; cases hk

def traitAdded : Name := "trait_added".toList
def traitModified : Name := "trait_modified".toList
def traitsCache : Name := "_traits_cache_".toList

/-- `HasStrictTraits` and every linear hierarchy below it: for **every** name
that is not `__xxx__`, not one of the three names `HasTraits` itself declares,
not declared exactly and not matched by a wildcard declared in the hierarchy,
the class-level rule is `Disallow`. -/
theorem C13_strict_HasStrictTraits (levels : List (List (Name × Trait))) (name : Name)
    (hdu : isDunder name = false)
    (hlib : name ≠ traitAdded ∧ name ≠ traitModified ∧ ¬ traitsCache <+: name)
    (hown : ∀ l ∈ levels, (ownTraits l).get name = none)
    (hwild : ∀ l ∈ levels, ∀ e ∈ ownPrefixes l, ¬ e.1 <+: name) :
    ClassGov IsDisallow (chain clsHasStrictTraits levels) name ∧ Total (chain clsHasStrictTraits levels) := by
  have htot : Total clsHasStrictTraits := Total_mkClass _ _
  have hs : Sorted clsHasStrictTraits.prefixes := mkClass_sorted _ _
  refine ⟨chain_classGov htot hdu ?_ ?_ hs hown hwild, chain_total htot levels⟩
  · have : clsHasStrictTraits.ctraits = [(traitModified, { kind := .event, tag := 908 }),
        (traitAdded, { kind := .event, validator := some 1, tag := 907 })] := by decide
    rw [this]
    simp only [Map.get_cons, Map.get_nil]
    rw [if_neg (Ne.symm hlib.2.1), if_neg (Ne.symm hlib.1)]
  · have : clsHasStrictTraits.prefixes = [(traitsCache, { kind := .trait, dflt := .none, tag := 901 }),
        ([], { kind := .disallow, dflt := .undef, tag := 902 })] := by decide
    rw [this]
    intro e he hp _
    simp only [List.mem_cons, List.mem_nil_iff, or_false] at he
    rcases he with he | he
    · subst he; exact absurd hp hlib.2.2
    · subst he; rfl

def IsPrivateAny (t : Trait) : Prop := t = { kind := .trait, dflt := .none, validator := none, tag := 903 }

/-- `HasPrivateTraits` and every linear hierarchy below it: an undeclared name
that does not start with `_` is `Disallow`ed; an undeclared name with a leading
underscore (not `__xxx__`, not `_traits_cache_…`) is the untyped `Any`. -/
theorem C13_strict_HasPrivateTraits (levels : List (List (Name × Trait))) (name : Name)
    (hdu : isDunder name = false)
    (hlib : name ≠ traitAdded ∧ name ≠ traitModified ∧ ¬ traitsCache <+: name)
    (hown : ∀ l ∈ levels, (ownTraits l).get name = none)
    (hwild : ∀ l ∈ levels, ∀ e ∈ ownPrefixes l, ¬ e.1 <+: name) :
    (¬ ['_'] <+: name → ClassGov IsDisallow (chain clsHasPrivateTraits levels) name) ∧
    (['_'] <+: name → ClassGov IsPrivateAny (chain clsHasPrivateTraits levels) name) ∧
    Total (chain clsHasPrivateTraits levels) := by
  have hct : clsHasPrivateTraits.ctraits.get name = none := by
    have : clsHasPrivateTraits.ctraits = [(traitModified, { kind := .event, tag := 908 }),
        (traitAdded, { kind := .event, validator := some 1, tag := 907 })] := by decide
    rw [this]
    simp only [Map.get_cons, Map.get_nil]
    rw [if_neg (Ne.symm hlib.2.1), if_neg (Ne.symm hlib.1)]
  have hpf : clsHasPrivateTraits.prefixes = [(traitsCache, { kind := .trait, dflt := .none, tag := 901 }),
      (['_'], { kind := .trait, dflt := .none, tag := 903 }),
      ([], { kind := .disallow, dflt := .undef, tag := 902 })] := by decide
  have htot : Total clsHasPrivateTraits := Total_mkClass _ _
  have hs : Sorted clsHasPrivateTraits.prefixes := mkClass_sorted _ _
  refine ⟨fun hpub => ?_, fun hpriv => ?_, chain_total htot levels⟩
  · refine chain_classGov htot hdu hct ?_ hs hown hwild
    rw [hpf]
    intro e he hp _
    simp only [List.mem_cons, List.mem_nil_iff, or_false] at he
    rcases he with he | he | he
    · subst he; exact absurd hp hlib.2.2
    · subst he; exact absurd hp hpub
    · subst he; rfl
  · refine chain_classGov htot hdu hct ?_ hs hown hwild
    rw [hpf]
    intro e he hp hmax
    simp only [List.mem_cons, List.mem_nil_iff, or_false] at he
    rcases he with he | he | he
    · subst he; exact absurd hp hlib.2.2
    · subst he; rfl
    · subst he
      have := hmax (['_'], { kind := .trait, dflt := .none, tag := 903 }) (by simp) hpriv
      simp at this

/-- The full-strength strictness clause: *every* undeclared name. -/
def C13_strict_full : Prop :=
  ∀ (name : Name) (v : Val), name ≠ traitAdded → name ≠ traitModified → ¬ traitsCache <+: name →
    (run Env.sample World.init [.new 1, .set 0 name v]).2.getLast? = some (.error .traitError)

/-- Negation witness (known finding F52): `HasStrictTraits().__f__ = 1` succeeds —
writes to `__xxx__` names are mapped to `Any` before the wildcard table (and
with it `_ = Disallow`) is consulted. -/
theorem C13_strict_fails_dunder_write : ¬ C13_strict_full := by
  intro h
  have := h "__f__".toList (.int 1) (by decide) (by decide) (by decide)
  revert this
  decide

/-- The full-strength wildcard clause for reads: with `_ = Int` declared, *every*
name `HasTraits` does not declare itself reads as the wildcard's default. -/
def C13_wildcard_read_full : Prop :=
  ∀ (name : Name), name ≠ traitAdded → name ≠ traitModified → ¬ traitsCache <+: name →
    (run Env.sample World.init [.mkClass [0] [(['_'], intTrait)], .new 3, .get 0 name]).2.getLast?
      = some (.ok (.val (.int 0)))

/-- Negation witness (known finding F53): reading an unset `__f__` raises
AttributeError before the wildcard table is consulted.  (`Governs` above has the
two `__xxx__` rules of the code as explicit constructors; the property text has
no such clause — `C13_order` is therefore the *partial* form of the text's
resolution order, exact for every name that is not `__xxx__`.) -/
theorem C13_wildcard_read_fails_dunder : ¬ C13_wildcard_read_full := by
  intro h
  have := h "__f__".toList (by decide) (by decide) (by decide)
  revert this
  decide

/-- Non-vacuity: a fresh `HasStrictTraits` subclass instance and an undeclared name. -/
example : GovAt IsDisallow (run Env.sample World.init [.mkClass [1] [(['x'], intTrait)], .new 3]).1 0 ['f', 'o', 'o'] ∧
    DictAt (run Env.sample World.init [.mkClass [1] [(['x'], intTrait)], .new 3]).1 0 ['f', 'o', 'o'] none := by
  have h := C13_strict_HasStrictTraits [[(['x'], intTrait)]] ['f', 'o', 'o'] (by decide)
    (by decide) (by decide) (by decide)
  refine ⟨⟨{ cls := 3 }, chain clsHasStrictTraits [[(['x'], intTrait)]], by decide, by decide, ?_, h.1, h.2⟩,
    ⟨{ cls := 3 }, by decide, by decide⟩⟩
  intro t ht; simp at ht

/-! ## ReadOnly -/

def IsReadOnly (t : Trait) : Prop := t.kind = .readonly ∧ t.dflt = .undef

/-- A name governed by `ReadOnly` accepts exactly one defining assignment:
(1) while the slot is empty or holds `Undefined`, any assignment is accepted and
stores the value; (2) once a value other than `Undefined` is stored, it is read
back, every further assignment and every deletion raise TraitError, and this
stays so along **every** history without `add_trait` / `remove_trait` of that
name on that object. -/
theorem C13_readonly_once (E : Env) {w : World} (hw : NoDeleg w) {oi : Nat} {name : Name}
    (hg : GovAt IsReadOnly w oi name) :
    (∀ v, (DictAt w oi name none ∨ DictAt w oi name (some .undef)) →
        (step E w (.set oi name v)).2 = .ok .done ∧ DictAt (step E w (.set oi name v)).1 oi name (some v)) ∧
    (∀ v, v ≠ .undef → DictAt w oi name (some v) →
        (step E w (.get oi name)).2 = .ok (.val v) ∧
        (∀ v', (step E w (.set oi name v')).2 = .error .traitError) ∧
        (step E w (.del oi name)).2 = .error .traitError ∧
        ∀ ops : List Op, (∀ op ∈ ops, op.Plain) →
          (∀ op ∈ ops, (∀ t, op ≠ .addTrait oi name t) ∧ op ≠ .removeTrait oi name) →
          NoDeleg (run E w ops).1 ∧ GovAt IsReadOnly (run E w ops).1 oi name ∧
            DictAt (run E w ops).1 oi name (some v)) := by
  refine ⟨?_, ?_⟩
  · intro v hd
    obtain ⟨o, c, ho, hc, hig, hcg, htot⟩ := hg
    have hdo : o.dict.get name = none ∨ o.dict.get name = some .undef := by
      rcases hd with ⟨o', ho', h⟩ | ⟨o', ho', h⟩ <;> (rw [ho] at ho'; cases ho')
      · exact Or.inl h
      · exact Or.inr h
    obtain ⟨w', t, hrs, hpt, hres⟩ := resolveSet_ok (w := w) (hw.cls c (List.mem_of_getElem? hc))
      (hw.obj o (List.mem_of_getElem? ho)) hig hcg htot (hw.hooks o (List.mem_of_getElem? ho)) ho
    rw [step_set_eq E ho hc]
    unfold setattro
    rw [hrs]
    simp only
    rw [setattrKind_readonly_set hpt.1 hpt.2, if_pos hdo]
    refine ⟨rfl, ⟨{ o with dict := o.dict.set name v }, ?_, Map.get_set_same _ _ _⟩⟩
    simp only
    rw [setDict_eq _ (by rw [hres.objs]; exact ho)]
    simp only
    rw [hres.objs]
    exact getElem?_set_self' ho
  · intro v hv hd
    have hset : ∀ (t : Trait) (d : Map Val) (value : Option Val) (d' : Map Val), IsReadOnly t →
        d.get name = some v → setattrKind E t d name value = .ok d' → d'.get name = some v := by
      intro t d value d' ht hdv hk
      cases value with
      | none => rw [setattrKind_readonly_del ht.1] at hk; cases hk
      | some v' =>
        rw [setattrKind_readonly_set ht.1 ht.2, if_neg (by rw [hdv]; simp [hv])] at hk
        cases hk
    refine ⟨?_, ?_, ?_, ?_⟩
    · obtain ⟨o, c, ho, hc, _⟩ := hg
      obtain ⟨o', ho', hdv⟩ := hd
      rw [ho] at ho'; cases ho'
      rw [step_get_eq E ho hc]
      unfold getattro; rw [hdv]
    · intro v'
      obtain ⟨o, c, t, ho, hc, ht, h⟩ := setattro_outcome E hw hg (some v')
      obtain ⟨o', ho', hdv⟩ := hd
      rw [ho] at ho'; cases ho'
      rw [step_set_eq E ho hc, h, setattrKind_readonly_set ht.1 ht.2, if_neg (by rw [hdv]; simp [hv])]; rfl
    · obtain ⟨o, c, t, ho, hc, ht, h⟩ := setattro_outcome E hw hg none
      rw [step_del_eq E ho hc, h, setattrKind_readonly_del ht.1]; rfl
    · intro ops hplain hno
      refine GovDict_run E hw hg hd hset ?_ hplain ?_ ?_
      · intro t d v' d' _ hdv hnone _; rw [hdv] at hnone; cases hnone
      · intro op hop t heq; exact absurd heq ((hno op hop).1 t)
      · intro op hop heq; exact absurd heq (hno op hop).2

/-- `ReadOnly(value)` (a default other than `Undefined`): never assignable. -/
theorem C13_readonly_with_default (E : Env) {w : World} (hw : NoDeleg w) {oi : Nat} {name : Name}
    (hg : GovAt (fun t => t.kind = .readonly ∧ t.dflt ≠ .undef) w oi name) :
    (∀ v, (step E w (.set oi name v)).2 = .error .traitError) ∧
    (step E w (.del oi name)).2 = .error .traitError := by
  refine ⟨fun v => ?_, ?_⟩
  · obtain ⟨o, c, t, ho, hc, ht, h⟩ := setattro_outcome E hw hg (some v)
    rw [step_set_eq E ho hc, h, setattrKind_readonly_default ht.1 ht.2]; rfl
  · obtain ⟨o, c, t, ho, hc, ht, h⟩ := setattro_outcome E hw hg none
    rw [step_del_eq E ho hc, h, setattrKind_readonly_default ht.1 ht.2]; rfl

def roTrait : Trait := { kind := .readonly, dflt := .undef, tag := 3 }

/-- Non-vacuity of the hypotheses: `r = ReadOnly` declared in a subclass of `HasTraits`. -/
example : GovAt IsReadOnly (run Env.sample World.init [.mkClass [0] [(['r'], roTrait)], .new 3]).1 0 ['r'] ∧
    DictAt (run Env.sample World.init [.mkClass [0] [(['r'], roTrait)], .new 3]).1 0 ['r'] none ∧
    NoDeleg (run Env.sample World.init [.mkClass [0] [(['r'], roTrait)], .new 3]).1 :=
  ⟨GovAt.of_class_trait (o := { cls := 3 }) (c := mkClass [clsHasTraits] [(['r'], roTrait)]) (t := roTrait)
      (by decide) (by decide) (by decide) (by decide) ⟨rfl, rfl⟩ (Total_mkClass _ _),
   ⟨{ cls := 3 }, by decide, by decide⟩, NoDeleg_run _ noDeleg_init (by decide)⟩

/-- Non-vacuity, on a wildcard (`r_ = ReadOnly`), reading before the assignment. -/
example : (run Env.sample World.init
    [.mkClass [0] [(['r', '_'], roTrait)], .new 3, .get 0 ['r', 'q'], .set 0 ['r', 'q'] (.int 1),
     .set 0 ['r', 'q'] (.int 2), .get 0 ['r', 'q'], .del 0 ['r', 'q']]).2.drop 2 =
    [.ok (.val .undef), .ok .done, .error .traitError, .ok (.val (.int 1)), .error .traitError] := by decide

/-! ## Constant -/

def IsConstant (k : Val) (t : Trait) : Prop := t.kind = .constant ∧ t.dflt = k

/-- A name governed by `Constant(k)` reads `k`, refuses every assignment and
deletion with TraitError, stores nothing — along **every** history that does not
`add_trait` another trait of that name to that object. -/
theorem C13_constant (E : Env) {w : World} (hw : NoDeleg w) {oi : Nat} {name : Name} {k : Val}
    (hg : GovAt (IsConstant k) w oi name) (hd : DictAt w oi name none) (hca : E.classAttr name = none) :
    (step E w (.get oi name)).2 = .ok (.val k) ∧
    (∀ v, (step E w (.set oi name v)).2 = .error .traitError) ∧
    (step E w (.del oi name)).2 = .error .traitError ∧
    ∀ ops : List Op, (∀ op ∈ ops, op.Plain) →
      (∀ op ∈ ops, ∀ t, op = .addTrait oi name t → IsConstant k t) →
      NoDeleg (run E w ops).1 ∧ GovAt (IsConstant k) (run E w ops).1 oi name ∧
        DictAt (run E w ops).1 oi name none := by
  refine ⟨?_, ?_, ?_, ?_⟩
  · obtain ⟨o, c, ho, hc, h⟩ := getattro_outcome E hw hg hd hca
    rw [step_get_eq E ho hc]
    rcases h with ⟨_, hP | hP⟩ | ⟨t, ht, h⟩
    · exact absurd hP.1 (by decide)
    · exact absurd hP.1 (by decide)
    · rw [h, getattrKind_constant ht.1, ht.2]; rfl
  · intro v
    obtain ⟨o, c, t, ho, hc, ht, h⟩ := setattro_outcome E hw hg (some v)
    rw [step_set_eq E ho hc, h, setattrKind_constant ht.1]; rfl
  · obtain ⟨o, c, t, ho, hc, ht, h⟩ := setattro_outcome E hw hg none
    rw [step_del_eq E ho hc, h, setattrKind_constant ht.1]; rfl
  · intro ops hplain hadd
    refine GovDict_run E hw hg hd ?_ ?_ hplain hadd (fun _ _ _ => rfl)
    · intro t d value d' ht _ hk; rw [setattrKind_constant ht.1] at hk; cases hk
    · intro t d v d' ht hdn _ hk; rw [getattrKind_constant ht.1] at hk; cases hk; exact hdn

def constTrait : Trait := { kind := .constant, dflt := .int 9, tag := 7 }

/-- Non-vacuity of the hypotheses: `k = Constant(9)` inherited by a subclass. -/
example : GovAt (IsConstant (.int 9))
      (run Env.sample World.init [.mkClass [0] [(['k'], constTrait)], .mkClass [3] [], .new 4]).1 0 ['k'] ∧
    DictAt (run Env.sample World.init [.mkClass [0] [(['k'], constTrait)], .mkClass [3] [], .new 4]).1 0 ['k'] none :=
  ⟨GovAt.of_class_trait (o := { cls := 4 }) (c := mkClass [mkClass [clsHasTraits] [(['k'], constTrait)]] [])
      (t := constTrait) (by decide) (by decide) (by decide) (by decide) ⟨rfl, rfl⟩ (Total_mkClass _ _),
   ⟨{ cls := 4 }, by decide, by decide⟩⟩

/-- Non-vacuity: `k = Constant(9)` declared two levels up, read through a subclass. -/
example : (run Env.sample World.init
    [.mkClass [0] [(['k'], constTrait)], .mkClass [3] [], .new 4, .get 0 ['k'], .set 0 ['k'] (.int 9),
     .del 0 ['k'], .get 0 ['k']]).2.drop 3 =
    [.ok (.val (.int 9)), .error .traitError, .error .traitError, .ok (.val (.int 9))] := by decide

/-! ## Event -/

def IsEvent (vd : Option Nat) (t : Trait) : Prop := t.kind = .event ∧ t.validator = vd

/-- A name governed by an `Event` can be written but not read: reading raises
AttributeError; writing succeeds exactly when the event's validator (if any)
accepts the value, and raises the validator's error otherwise; deleting is a
no-op; nothing is ever stored — along **every** history that does not `add_trait`
another trait of that name to that object. -/
theorem C13_event_write_only (E : Env) {w : World} (hw : NoDeleg w) {oi : Nat} {name : Name} {vd : Option Nat}
    (hg : GovAt (IsEvent vd) w oi name) (hd : DictAt w oi name none) (hca : E.classAttr name = none) :
    (step E w (.get oi name)).2 = .error .attributeError ∧
    (∀ v, (step E w (.set oi name v)).2 = match vd with
        | none => .ok .done
        | some i => (E.validate i 0 v).map (fun _ => Out.done)) ∧
    (step E w (.del oi name)).2 = .ok .done ∧
    ∀ ops : List Op, (∀ op ∈ ops, op.Plain) →
      (∀ op ∈ ops, ∀ t, op = .addTrait oi name t → IsEvent vd t) →
      NoDeleg (run E w ops).1 ∧ GovAt (IsEvent vd) (run E w ops).1 oi name ∧
        DictAt (run E w ops).1 oi name none := by
  refine ⟨?_, ?_, ?_, ?_⟩
  · obtain ⟨o, c, ho, hc, h⟩ := getattro_outcome E hw hg hd hca
    rw [step_get_eq E ho hc]
    rcases h with ⟨h, _⟩ | ⟨t, ht, h⟩
    · exact h
    · rw [h, getattrKind_event ht.1]; rfl
  · intro v
    obtain ⟨o, c, t, ho, hc, ht, h⟩ := setattro_outcome E hw hg (some v)
    rw [step_set_eq E ho hc, h, setattrKind_event ht.1, ht.2]
    cases vd with
    | none => rfl
    | some i => simp only; cases E.validate i 0 v <;> rfl
  · obtain ⟨o, c, t, ho, hc, ht, h⟩ := setattro_outcome E hw hg none
    rw [step_del_eq E ho hc, h, setattrKind_event ht.1]; rfl
  · intro ops hplain hadd
    refine GovDict_run E hw hg hd ?_ ?_ hplain hadd (fun _ _ _ => rfl)
    · intro t d value d' ht hdn hk; rw [setattrKind_event_dict ht.1 hk]; exact hdn
    · intro t d v d' ht _ _ hk; rw [getattrKind_event ht.1] at hk; cases hk

def evIntTrait : Trait := { kind := .event, dflt := .undef, validator := some 0, tag := 8 }

/-- Non-vacuity of the hypotheses: `e = Event(Int)` declared on a `HasStrictTraits` subclass. -/
example : GovAt (IsEvent (some 0))
      (run Env.sample World.init [.mkClass [1] [(['e'], evIntTrait)], .new 3]).1 0 ['e'] ∧
    DictAt (run Env.sample World.init [.mkClass [1] [(['e'], evIntTrait)], .new 3]).1 0 ['e'] none :=
  ⟨GovAt.of_class_trait (o := { cls := 3 }) (c := mkClass [clsHasStrictTraits] [(['e'], evIntTrait)])
      (t := evIntTrait) (by decide) (by decide) (by decide) (by decide) ⟨rfl, rfl⟩ (Total_mkClass _ _),
   ⟨{ cls := 3 }, by decide, by decide⟩⟩

/-- Non-vacuity: `e_ = Event(Int)` as a wildcard. -/
example : (run Env.sample World.init
    [.mkClass [0] [(['e', '_'], evIntTrait)], .new 3, .set 0 ['e', 'x'] (.int 1), .get 0 ['e', 'x'],
     .set 0 ['e', 'x'] (.str "a"), .del 0 ['e', 'x']]).2.drop 2 =
    [.ok .done, .error .attributeError, .error .traitError, .ok .done] := by decide

/-! ## HasPrivateTraits: private names -/

/-- A name governed by the untyped private `Any` of `HasPrivateTraits` (see
`C13_strict_HasPrivateTraits`): initial value `None`, any value accepted. -/
theorem C13_private_untyped (E : Env) {w : World} (hw : NoDeleg w) {oi : Nat} {name : Name}
    (hg : GovAt IsPrivateAny w oi name) (hd : DictAt w oi name none) (hca : E.classAttr name = none) :
    (step E w (.get oi name)).2 = .ok (.val .none) ∧
    (∀ v, (step E w (.set oi name v)).2 = .ok .done) := by
  refine ⟨?_, ?_⟩
  · obtain ⟨o, c, ho, hc, h⟩ := getattro_outcome E hw hg hd hca
    rw [step_get_eq E ho hc]
    rcases h with ⟨_, hP | hP⟩ | ⟨t, ht, h⟩
    · exact absurd hP (by unfold IsPrivateAny; decide)
    · exact absurd hP (by unfold IsPrivateAny; decide)
    · rw [h, ht, getattrKind_trait rfl]; rfl
  · intro v
    obtain ⟨o, c, t, ho, hc, ht, h⟩ := setattro_outcome E hw hg (some v)
    rw [step_set_eq E ho hc, h, ht, setattrKind_trait_untyped rfl rfl]; rfl

/-! ## remove_trait restores the class-level rule -/

/-- Whatever happens in between — in particular `add_trait` of arbitrary
instance traits for that name — after `remove_trait(name)` the name has no
instance trait and every get / set / del of it is dispatched to a trait
satisfying the class-level rule `P` that held before (instantiate `P` with
`IsDisallow`, `IsReadOnly`, `IsConstant k`, `IsEvent vd`, … to get the policy
theorems above back). `remove_trait` returns whether an instance trait existed. -/
theorem C13_remove_restores (E : Env) {P : Trait → Prop} {w : World} (hw : NoDeleg w) {oi : Nat} {name : Name}
    (hc : ClassGovAt P w oi name) (ops : List Op) (hplain : ∀ op ∈ ops, op.Plain) :
    GovAt P (run E w (ops ++ [.removeTrait oi name])).1 oi name ∧
    NoDeleg (run E w (ops ++ [.removeTrait oi name])).1 ∧
    ∃ o o', (run E w ops).1.objs[oi]? = some o ∧
      (run E w (ops ++ [.removeTrait oi name])).1.objs[oi]? = some o' ∧
      o'.itraits.get name = none ∧
      (step E (run E w ops).1 (.removeTrait oi name)).2 = .ok (.bool (o.itraits.get name).isSome) := by
  have hw1 := NoDeleg_run E hw hplain
  have hc1 := ClassGovAt_run E hw hc hplain
  rw [run_snoc]
  obtain ⟨o, c, ho, hcc, _, _⟩ := hc1
  obtain ⟨o', ho', hi', _, _, hret, _⟩ := step_removeTrait_spec E ho hcc name
  obtain ⟨o2, c2, ho2, hc2, hcg2, htot2⟩ := ClassGovAt_step E hw1 ⟨o, c, ho, hcc, ‹_›, ‹_›⟩ (.removeTrait oi name)
  rw [ho'] at ho2; cases ho2
  refine ⟨⟨o', c2, ho', hc2, ?_, hcg2, htot2⟩, NoDeleg_step E hw1 trivial, o, o', ho, ho', hi', hret⟩
  intro t ht; rw [hi'] at ht; cases ht

def disTrait : Trait := { kind := .disallow, dflt := .undef, tag := 9 }

/-- Non-vacuity: a strict class; an instance trait makes `u` usable; after
`remove_trait` the class-level `Disallow` governs again (and the value is gone). -/
example : (run Env.sample World.init
    [.mkClass [1] [], .new 3, .set 0 ['u'] (.int 1), .addTrait 0 ['u'] intTrait, .set 0 ['u'] (.int 3),
     .get 0 ['u'], .removeTrait 0 ['u'], .get 0 ['u'], .set 0 ['u'] (.int 1), .removeTrait 0 ['u']]).2.drop 2 =
    [.error .traitError, .ok .done, .ok .done, .ok (.val (.int 3)), .ok (.bool true),
     .error .attributeError, .error .traitError, .ok (.bool false)] := by decide

/-- Known finding F51, in the model as in the code: a value assigned *before*
`add_trait` stays readable through the `__dict__` short cut of
`has_traits_getattro`, whatever the new instance trait says (here an `Event`
and a `Disallow`); this is why the read clauses above carry `DictAt … none`. -/
example : (run Env.sample World.init
    [.new 0, .set 0 ['x'] (.int 5), .addTrait 0 ['x'] evIntTrait, .get 0 ['x'],
     .addTrait 0 ['x'] disTrait, .get 0 ['x']]).2.drop 3 =
    [.ok (.val (.int 5)), .ok .done, .ok (.val (.int 5))] := by decide

/-! ## Re-entrancy: an instance trait added *during* the resolution governs -/

/-- `get_prefix_trait` fires `trait_added` after caching the wildcard trait and
then resolves the name **again** (ctraits.c:633-637).  So when a `trait_added`
listener of the object adds an instance trait for the very name that is being
resolved for the first time (`hooks = … ++ [(p, t')] ++ rest`, `p` a prefix of
the name, no later listener matching), that first write is dispatched to the
new instance trait `t'` — not to the wildcard trait `t` that was just cached —
the object ends up with `t'` as instance trait of the name, the class
dictionary with `t`; and `step` hands the value to the setter of `t'`. -/
theorem C13_reentrant_add_governs (E : Env) {w : World} {oi : Nat} {o : Obj} {c : Cls} {name : Name}
    {t t' : Trait} {p : Name} {before rest : List (Name × Trait)}
    (ho : w.objs[oi]? = some o) (hc : w.classes[o.cls]? = some c)
    (hi : o.itraits.get name = none) (hct : c.ctraits.get name = none)
    (hp : prefixTrait c o name true = .ok t)
    (hhooks : o.hooks = before ++ [(p, t')] ++ rest) (hmatch : p <+: name)
    (hrest : ∀ h ∈ rest, ¬ h.1 <+: name) :
    (resolveSet w oi o c name).2 = .ok t' ∧
    (∃ o', (resolveSet w oi o c name).1.objs[oi]? = some o' ∧ o'.itraits.get name = some t' ∧
        o'.dict = o.dict ∧ o'.cls = o.cls) ∧
    (∃ c', (resolveSet w oi o c name).1.classes[o.cls]? = some c' ∧ c'.ctraits.get name = some t) ∧
    ∀ v, (step E w (.set oi name v)).2 = (setattrKind E t' o.dict name (some v)).map (fun _ => Out.done) := by
  have hfold : ∀ (l : List (Name × Trait)) (x : Obj), (∀ h ∈ l, ¬ h.1 <+: name) →
      l.foldl (fun o h => if prefixMatches h.1 name then { o with itraits := o.itraits.set name h.2 } else o) x
        = x := by
    intro l
    induction l with
    | nil => intro x _; rfl
    | cons h l ih =>
      intro x hl
      simp only [List.foldl_cons]
      have : prefixMatches h.1 name = false := by
        cases hm : prefixMatches h.1 name with
        | false => rfl
        | true => exact absurd (prefixMatches_iff.mp hm) (hl h List.mem_cons_self)
      simp only [this]
      exact ih x (fun h' hh' => hl h' (List.mem_cons_of_mem _ hh'))
  have hinv : ∀ (l : List (Name × Trait)) (x : Obj), x.dict = o.dict → x.cls = o.cls →
      (l.foldl (fun o h => if prefixMatches h.1 name then { o with itraits := o.itraits.set name h.2 } else o) x).dict
        = o.dict ∧
      (l.foldl (fun o h => if prefixMatches h.1 name then { o with itraits := o.itraits.set name h.2 } else o) x).cls
        = o.cls := by
    intro l
    induction l with
    | nil => intro x hd hcl; exact ⟨hd, hcl⟩
    | cons h l ih =>
      intro x hd hcl
      simp only [List.foldl_cons]
      split
      · exact ih _ hd hcl
      · exact ih _ hd hcl
  have hfire : (fireTraitAdded o name).itraits.get name = some t' ∧
      (fireTraitAdded o name).dict = o.dict ∧ (fireTraitAdded o name).cls = o.cls := by
    unfold fireTraitAdded
    refine ⟨?_, hinv _ _ rfl rfl⟩
    rw [hhooks, List.foldl_append, List.foldl_append]
    simp only [List.foldl_cons, List.foldl_nil, prefixMatches_iff.mpr hmatch, ↓reduceIte]
    rw [hfold rest _ hrest]
    exact Map.get_set_same _ _ _
  have hlen : oi < w.objs.length := by
    rcases Nat.lt_or_ge oi w.objs.length with h | h
    · exact h
    · rw [List.getElem?_eq_none h] at ho; cases ho
  have hrs : resolveSet w oi o c name =
      ({ classes := w.classes.set o.cls { c with ctraits := c.ctraits.set name t },
         objs := w.objs.set oi (fireTraitAdded o name) }, .ok t') := by
    unfold resolveSet
    rw [hi, hct]
    simp only [getPrefixTrait, hp, hfire.1]
  refine ⟨by rw [hrs], ⟨fireTraitAdded o name, ?_, hfire.1, hfire.2.1, hfire.2.2⟩,
    ⟨{ c with ctraits := c.ctraits.set name t }, ?_, Map.get_set_same _ _ _⟩, ?_⟩
  · rw [hrs]; simp [hlen]
  · rw [hrs]; exact getElem?_set_self' hc
  · intro v
    rw [step_set_eq E ho hc]
    unfold setattro
    rw [hrs]
    simp only
    cases setattrKind E t' o.dict name (some v) <;> rfl

/-- The coordinator's demo in the model: `f_ = Int` on a strict class, a listener
that gives names starting with `f_s` their own `Str` trait.  The first read
returns `''` (not `0`), the first write of a string is accepted and an int is
then refused; a name the listener does not touch follows the wildcard; after
`remove_trait` the wildcard governs again; a name first resolved by *another*
instance is cached in the class and the listener never hears of it. -/
example : (run Env.sample World.init
    [.mkClass [1] [(['f', '_', '_'], intTrait)], .new 3, .new 3, .hook 0 ['f', '_', 's'] strTrait,
     .get 0 ['f', '_', 's', '1'], .get 0 ['f', '_', 'n', '1'],
     .set 0 ['f', '_', 's', '2'] (.str "text"), .set 0 ['f', '_', 's', '2'] (.int 3),
     .removeTrait 0 ['f', '_', 's', '2'], .get 0 ['f', '_', 's', '2'],
     .get 1 ['f', '_', 's', '3'], .get 0 ['f', '_', 's', '3']]).2.drop 4 =
    [.ok (.val (.str "")), .ok (.val (.int 0)), .ok .done, .error .traitError, .ok (.bool true),
     .ok (.val (.int 0)), .ok (.val (.int 0)), .ok (.val (.int 0))] := by decide

end TraitsVerif.Props.C13
