/-
Property C04 — container traits never hold an invalid element or an illegal
length.  (List part; the Dict/Set parts cite the invariants proved with the
TraitDict/TraitSet models, see bottom of file.)

Quantified over: every list, every operation of the list interface with any
index/slice and any items, every `minlen`/`maxlen`, every item validator (an
arbitrary partial function: valid, converting or rejecting), all histories.
-/
import TraitsVerif.Lemmas.SeqLen
import TraitsVerif.Generated.Mutators
import TraitsVerif.Generated.LenGuard
import TraitsVerif.Props.C05
import TraitsVerif.Model.Nested
import TraitsVerif.Props.C06
import TraitsVerif.Props.C07
import TraitsVerif.Lemmas.PyLObj
import TraitsVerif.Generated.CtorCopy
import TraitsVerif.Model.CtorCopyAssumed
import TraitsVerif.Lemmas.PyLCtor
namespace TraitsVerif.Props.C04
open TraitsVerif TraitsVerif.Py TraitsVerif.Model
variable {α : Type}

/-- The invariant: every element is an output of the inner trait's validator
("satisfies the inner trait after its documented conversion") and the length is
within `minlen..maxlen`. -/
def Inv (c : LenCfg) (E : Env α) (l : List α) : Prop :=
  (∀ x ∈ l, Valid E x) ∧ c.minlen ≤ l.length ∧ l.length ≤ c.maxlen

/-- **The guards compute the exact new length** (this is where slice arithmetic
bites): whenever an override hands `n` to `_validate_length` and the operation
then succeeds, the list has exactly `n` elements. -/
theorem C04_len_exact (E : Env α) (hs : SortOk E) (l : List α) (op : Op α) (n : Int) (o : Out α)
    (hg : guardLen l op = .ok (some n)) (h : TraitList.step E l op = .ok o) :
    (o.items.length : Int) = n := by
  obtain ⟨op', hv, hp⟩ := step_refines_ok E l op o h
  have := pyStep_length E hs l op' o.items o.ret hp
  rw [guardLen_validated E l op op' hv, hg] at this
  exact this

/-- Operations whose override passes no length to `_validate_length`
(`x[i] = v`, extended-slice assignment, `reverse`, `sort`) do not change it. -/
theorem C04_len_unchanged (E : Env α) (hs : SortOk E) (l : List α) (op : Op α) (o : Out α)
    (hg : guardLen l op = .ok none) (h : TraitList.step E l op = .ok o) :
    o.items.length = l.length := by
  obtain ⟨op', hv, hp⟩ := step_refines_ok E l op o h
  have := pyStep_length E hs l op' o.items o.ret hp
  rw [guardLen_validated E l op op' hv, hg] at this
  exact this

/-- Elements after a successful mutator call were there before or came out of
the item validator. -/
theorem C04_elements (E : Env α) (hs : SortOk E) (l : List α) (op : Op α) (o : Out α)
    (h : TraitList.step E l op = .ok o) : ∀ x ∈ o.items, x ∈ l ∨ Valid E x := by
  obtain ⟨op', hv, hp⟩ := step_refines_ok E l op o h
  intro x hx
  rcases pyStep_mem E hs l op' o.items o.ret hp x hx with h1 | h1
  · exact Or.inl h1
  · exact Or.inr ((validateOp_items E op op' hv).2 x h1)

/-- **Invariant preserved by every mutator.** -/
theorem C04_list_step_inv (c : LenCfg) (E : Env α) (hs : SortOk E) (l : List α) (op : Op α)
    (o : Out α) (hinv : Inv c E l) (h : TraitListObject.step c E l op = .ok o) :
    Inv c E o.items := by
  unfold TraitListObject.step at h
  cases hg : guardLen l op with
  | error e => simp [hg] at h
  | ok g =>
    cases g with
    | none =>
      simp only [hg] at h
      refine ⟨fun x hx => ?_, ?_⟩
      · rcases C04_elements E hs l op o h x hx with h1 | h1
        · exact hinv.1 x h1
        · exact h1
      · rw [C04_len_unchanged E hs l op o hg h]; exact hinv.2
    | some n =>
      simp only [hg] at h
      by_cases hok : c.ok n = true
      · simp only [hok, if_true] at h
        refine ⟨fun x hx => ?_, ?_⟩
        · rcases C04_elements E hs l op o h x hx with h1 | h1
          · exact hinv.1 x h1
          · exact h1
        · have hlen := C04_len_exact E hs l op n o hg h
          simp only [LenCfg.ok, decide_eq_true_eq] at hok
          omega
      · simp [hok] at h

/-- **Invariant established by whole-value assignment** (and by construction). -/
theorem C04_assign_inv (c : LenCfg) (E : Env α) (xs l' : List α)
    (h : TraitListObject.assign c E xs = .ok l') : Inv c E l' := by
  unfold TraitListObject.assign at h
  by_cases hok : c.ok xs.length = true
  · simp only [hok, if_true] at h
    obtain ⟨h1, h2⟩ := valAll_valid h
    refine ⟨fun x hx => h2 x hx, ?_⟩
    simp only [LenCfg.ok, decide_eq_true_eq] at hok
    omega
  · simp [hok] at h

/-- **A violating operation raises TraitError** (length guard). -/
theorem C04_reject_length (c : LenCfg) (E : Env α) (l : List α) (op : Op α) (n : Int)
    (hg : guardLen l op = .ok (some n)) (hbad : c.ok n = false) :
    TraitListObject.step c E l op = .error .traitError := by
  simp [TraitListObject.step, hg, hbad]

/-- … and a rejected item is a validator failure passed through unchanged: the
only failures of a guarded operation are the guard's TraitError, the item
validator's own exception, and what the builtin list raises. -/
theorem C04_failures (c : LenCfg) (E : Env α) (l : List α) (op : Op α) (e : Exc)
    (h : TraitListObject.step c E l op = .error e) :
    e = .traitError ∨ guardLen l op = .error e ∨ TraitList.step E l op = .error e := by
  unfold TraitListObject.step at h
  cases hg : guardLen l op with
  | error e' => simp only [hg, Except.error.injEq] at h; subst h; right; left; rfl
  | ok g =>
    cases g with
    | none => simp only [hg] at h; right; right; exact h
    | some n =>
      simp only [hg] at h
      split at h
      · right; right; exact h
      · simp only [Except.error.injEq] at h; left; exact h.symm

/-- **Changes nothing, notifies nobody**: a failing step leaves the history at
the same contents and produces no output (hence no event). -/
theorem C04_reject_atomic_silent (c : LenCfg) (E : Env α) (l : List α) (op : TOp α)
    (ops : List (TOp α)) (e : Exc) (h : TraitListObject.tstep c E l op = .error e) :
    TraitListObject.run c E l (op :: ops) = .error e :: TraitListObject.run c E l ops := by
  simp [TraitListObject.run, h]

/-- The contents after each step of a history (a failed step repeats the state). -/
def states (c : LenCfg) (E : Env α) : List α → List (TOp α) → List (List α)
  | _, [] => []
  | l, op :: ops =>
    match TraitListObject.tstep c E l op with
    | .error _ => l :: states c E l ops
    | .ok o => o.items :: states c E o.items ops

/-- **At every moment**: along any history of mutator calls and whole-value
assignments, every state satisfies the invariant. -/
theorem C04_list_history (c : LenCfg) (E : Env α) (hs : SortOk E) (l : List α)
    (ops : List (TOp α)) (hinv : Inv c E l) : ∀ s ∈ states c E l ops, Inv c E s := by
  induction ops generalizing l with
  | nil => simp [states]
  | cons op ops ih =>
    intro s hsm
    simp only [states] at hsm
    cases ht : TraitListObject.tstep c E l op with
    | error e =>
      simp only [ht, List.mem_cons] at hsm
      rcases hsm with rfl | hsm
      · exact hinv
      · exact ih l hinv s hsm
    | ok o =>
      have hinv' : Inv c E o.items := by
        cases op with
        | call op' => exact C04_list_step_inv c E hs l op' o hinv ht
        | assign xs =>
          simp only [TraitListObject.tstep, Except.map] at ht
          split at ht
          · cases ht
          · rename_i l' hl'
            simp only [Except.ok.injEq] at ht; subst ht
            exact C04_assign_inv c E xs l' hl'
      simp only [ht, List.mem_cons] at hsm
      rcases hsm with rfl | hsm
      · exact hinv'
      · exact ih o.items hinv' s hsm

/-- **Every length-changing mutator is guarded** (over the translated method
tables): each mutator `TraitList` overrides is overridden again by
`TraitListObject`, except `reverse` and `sort`, which cannot change the length. -/
theorem C04_list_mutators_guarded :
    ∀ m ∈ C05.modelledMutators,
      m ∈ Generated.traitListObjectMethods ∨ m ∈ ["reverse", "sort"] := by
  decide

/-- `TraitListObject` derives from `TraitList`, so unguarded operations still validate items. -/
theorem C04_listobject_base : Generated.traitListObjectBases = ["TraitList"] := by decide

/-! ### The guards of the model are the guards of the source

`Generated/LenGuard.lean` is re-read from `trait_list_object.py` /
`trait_types.py` on every run: per override of `TraitListObject`, the expression
handed to `_validate_length` and the syntactic condition it stands under.  The
next theorems say that the hand-written `guardLen`, `LenCfg.ok` and the length
test of `TraitListObject.assign` are exactly the interpretation of that data,
so an edit of a guard in the source (another expression, a dropped override, a
strict comparison) breaks one of these obligations. -/

/-- `guardLen` is the interpretation of the translated guard table, for every list and every operation. -/
theorem C04_guard_is_source (l : List α) (op : Op α) :
    guardLen l op = guardOfTable Generated.lenGuards l op := by
  cases op with
  | setSlice s xs =>
    by_cases h : s.step = none ∨ s.step = some 1
    · simp [guardLen, guardOfTable, Generated.lenGuards, Op.gcall, lookupMethod, firstPath, GCond.holds,
        GAct.usesSel, GE.usesSel, runAct, GE.eval, h]
      cases getSlice l s with
      | error e => rfl
      | ok r => simp <;> try omega
    · have h' : ¬ s.step = none ∧ ¬ s.step = some 1 := by
        constructor
        · intro c; exact h (Or.inl c)
        · intro c; exact h (Or.inr c)
      simp [guardLen, guardOfTable, Generated.lenGuards, Op.gcall, lookupMethod, firstPath, GCond.holds,
        GAct.usesSel, GE.usesSel, runAct, GE.eval, h']
      cases getSlice l s with
      | error e => rfl
      | ok r =>
        by_cases hl : xs.length = r.length
        · simp [hl]
        · simp [hl]
  | delSlice s =>
    simp [guardLen, guardOfTable, Generated.lenGuards, Op.gcall, lookupMethod, firstPath, GCond.holds,
      GAct.usesSel, GE.usesSel, runAct, GE.eval]
    cases getSlice l s with
    | error e => rfl
    | ok r => simp <;> try omega
  | _ =>
    -- `try omega`: a source rewrite that only re-associates the arithmetic keeps the proof
    simp [guardLen, guardOfTable, Generated.lenGuards, Op.gcall, lookupMethod, firstPath, GCond.holds,
      GAct.usesSel, GE.usesSel, runAct, GE.eval] <;> try omega

/-- `LenCfg.ok` is the comparison chain of `_validate_length` and of `List.validate`. -/
theorem C04_bound_is_source (c : LenCfg) (n : Int) :
    c.ok n = Generated.validateLengthBound.ok c n ∧ c.ok n = Generated.listValidateBound.ok c n := by
  simp [LenCfg.ok, GBound.ok, Generated.validateLengthBound, Generated.listValidateBound]

/-- `TraitListObject.__init__` checks the length of the listed value (the
`c.ok xs.length` of `TraitListObject.assign`), and every override hands over to
the `super()` method of its own name. -/
theorem C04_init_guard_is_source :
    lookupMethod "__init__" Generated.lenGuards = some [{ conds := [], act := .check .added }] ∧
    ∀ p ∈ Generated.lenGuardSuper, p.1 = p.2 := by
  decide

/-- **`TraitListObject.step` is what the source says**: the translated overrides
of `TraitListObject` (`Generated.traitListObjectProg`), run with `super()` bound
to the translated `TraitList` methods, give exactly the model's result — for
every `minlen`/`maxlen`, validator, list and operation; where the model
rejects, the interpreted source raises the same exception with the list
unchanged and nobody notified. -/
theorem C04_step_is_source (c : LenCfg) (E : Env α) (l : List α) (op : Op α) :
    PyL.runTraitListObjectOp Generated.listHelpers Generated.traitListProg Generated.traitListObjectProg c E l op
      = PyL.summaryOfStep l (TraitListObject.step c E l op) :=
  Lemmas.PyL.tlo_step_is_source c E l op

/-- The invariant, stated of the interpreted source directly: a call that
returns leaves a list satisfying `Inv`; a call that raises leaves the list
untouched and fires nothing. -/
theorem C04_source_inv (c : LenCfg) (E : Env α) (hs : SortOk E) (l : List α) (op : Op α) (h : Inv c E l) :
    match PyL.runTraitListObjectOp Generated.listHelpers Generated.traitListProg Generated.traitListObjectProg
        c E l op with
    | .done items _ _ => Inv c E items
    | .raised _ items evs => items = l ∧ evs = [] := by
  rw [C04_step_is_source]
  cases hst : TraitListObject.step c E l op with
  | error e => simp [PyL.summaryOfStep]
  | ok o =>
    simp only [PyL.summaryOfStep]
    exact C04_list_step_inv c E hs l op o h hst

/-- The contents after each call of a history, running the *interpreted source*
(a raising call leaves whatever the source left). -/
def srcStates (c : LenCfg) (E : Env α) : List α → List (Op α) → List (List α)
  | _, [] => []
  | l, op :: ops =>
    let l' := match PyL.runTraitListObjectOp Generated.listHelpers Generated.traitListProg
        Generated.traitListObjectProg c E l op with
      | .done items _ _ => items
      | .raised _ items _ => items
    l' :: srcStates c E l' ops

/-- **At every moment of every history of the interpreted source** the list
satisfies the invariant (induction over the operation list; no bound). -/
theorem C04_source_history (c : LenCfg) (E : Env α) (hs : SortOk E) (l : List α) (ops : List (Op α))
    (h : Inv c E l) : ∀ s ∈ srcStates c E l ops, Inv c E s := by
  induction ops generalizing l with
  | nil => intro s hsm; simp [srcStates] at hsm
  | cons op ops ih =>
    intro s hsm
    have hstep := C04_source_inv c E hs l op h
    simp only [srcStates, List.mem_cons] at hsm
    cases hr : PyL.runTraitListObjectOp Generated.listHelpers Generated.traitListProg
        Generated.traitListObjectProg c E l op with
    | done items r evs =>
      rw [hr] at hstep hsm
      simp only at hstep hsm
      rcases hsm with rfl | hsm
      · exact hstep
      · exact ih items hstep s hsm
    | raised e items evs =>
      rw [hr] at hstep hsm
      simp only at hstep hsm
      obtain ⟨rfl, _⟩ := hstep
      rcases hsm with rfl | hsm
      · exact h
      · exact ih _ h s hsm

/-! ### Nested containers -/

/-- The invariant for any element predicate `P` that every validator output
satisfies (needed for nesting: an inner list mutated in place is no longer
literally a validator output, but still satisfies the deep invariant). -/
theorem C04_list_step_invP (c : LenCfg) (E : Env α) (hs : SortOk E) (P : α → Prop)
    (hP : ∀ x, Valid E x → P x) (l : List α) (op : Op α) (o : Out α)
    (hl : ∀ x ∈ l, P x) (hb : c.minlen ≤ l.length ∧ l.length ≤ c.maxlen)
    (h : TraitListObject.step c E l op = .ok o) :
    (∀ x ∈ o.items, P x) ∧ c.minlen ≤ o.items.length ∧ o.items.length ≤ c.maxlen := by
  unfold TraitListObject.step at h
  have hel : TraitList.step E l op = .ok o → ∀ x ∈ o.items, P x := by
    intro h' x hx
    rcases C04_elements E hs l op o h' x hx with h1 | h1
    · exact hl x h1
    · exact hP x h1
  cases hg : guardLen l op with
  | error e => simp [hg] at h
  | ok g =>
    cases g with
    | none =>
      simp only [hg] at h
      refine ⟨hel h, ?_⟩
      rw [C04_len_unchanged E hs l op o hg h]; exact hb
    | some n =>
      simp only [hg] at h
      by_cases hok : c.ok n = true
      · simp only [hok, if_true] at h
        refine ⟨hel h, ?_⟩
        have hlen := C04_len_exact E hs l op n o hg h
        simp only [LenCfg.ok, decide_eq_true_eq] at hok
        omega
      · simp [hok] at h

/-- The deep invariant of a nested list trait: at every level the length is
within that level's bounds, and every leaf is an output of the scalar trait. -/
def InvDeep : TT → CV → Prop
  | .leaf v, .atom n => ∃ y, v y = .ok n
  | .list c inner, .lst xs =>
    c.minlen ≤ xs.length ∧ xs.length ≤ c.maxlen ∧ ∀ x ∈ xs, InvDeep inner x
  | .leaf _, .lst _ => False
  | .list _ _, .atom _ => False

theorem mapExcept_ok {β γ : Type} {f : β → Except Exc γ} {xs : List β} {ys : List γ}
    (h : mapExcept f xs = .ok ys) :
    ys.length = xs.length ∧ ∀ y ∈ ys, ∃ x ∈ xs, f x = .ok y := by
  induction xs generalizing ys with
  | nil => simp only [mapExcept, Except.ok.injEq] at h; subst h; simp
  | cons x xs ih =>
    simp only [mapExcept] at h
    cases hf : f x with
    | error e => simp [hf] at h
    | ok y =>
      cases hr : mapExcept f xs with
      | error e => simp [hf, hr] at h
      | ok ys' =>
        simp only [hf, hr, Except.ok.injEq] at h; subst h
        obtain ⟨h1, h2⟩ := ih hr
        refine ⟨by simp [h1], ?_⟩
        intro z hz
        rcases List.mem_cons.mp hz with rfl | hz
        · exact ⟨x, by simp, hf⟩
        · obtain ⟨w, hw, hfw⟩ := h2 z hz
          exact ⟨w, List.mem_cons_of_mem _ hw, hfw⟩

/-- **Whole-value assignment of a nested value** (and every inner list the
item validator constructs) establishes the deep invariant. -/
theorem C04_nested_validate (tt : TT) : ∀ x y, tt.validate x = .ok y → InvDeep tt y := by
  induction tt with
  | leaf v =>
    intro x y h
    cases x with
    | atom n =>
      simp only [TT.validate, Except.map] at h
      split at h
      · cases h
      · rename_i m hm; simp only [Except.ok.injEq] at h; subst h; exact ⟨n, hm⟩
    | lst xs => simp [TT.validate] at h
  | list c inner ih =>
    intro x y h
    cases x with
    | atom n => simp [TT.validate] at h
    | lst xs =>
      simp only [TT.validate] at h
      by_cases hok : c.ok xs.length = true
      · simp only [hok, if_true, Except.map] at h
        split at h
        · cases h
        · rename_i ys hys
          simp only [Except.ok.injEq] at h; subst h
          obtain ⟨h1, h2⟩ := mapExcept_ok hys
          simp only [LenCfg.ok, decide_eq_true_eq] at hok
          refine ⟨by omega, by omega, ?_⟩
          intro z hz
          obtain ⟨w, _, hw⟩ := h2 z hz
          exact ih w z hw
      · simp [hok] at h

/-- **Nested containers**: a mutator applied to a list at any depth of a value
satisfying the deep invariant leaves a value satisfying it (structural
induction on the path). -/
theorem C04_nested (eq : CV → CV → Bool) (sort : Nat → List CV → List CV)
    (hsort : ∀ sp l, (sort sp l).Perm l) (path : List Nat) :
    ∀ (tt : TT) (op : Op CV) (cv cv' : CV), InvDeep tt cv →
      stepAt eq sort tt path op cv = some (.ok cv') → InvDeep tt cv' := by
  induction path with
  | nil =>
    intro tt op cv cv' hinv h
    cases tt with
    | leaf v => cases cv <;> simp [stepAt] at h
    | list c inner =>
      cases cv with
      | atom n => simp [stepAt] at h
      | lst xs =>
        simp only [stepAt, Option.some.injEq, Except.map] at h
        split at h
        · cases h
        · rename_i o ho
          simp only [Except.ok.injEq] at h; subst h
          obtain ⟨hb1, hb2, hel⟩ := hinv
          have := C04_list_step_invP c (inner.env eq sort) (fun sp l => hsort sp l) (InvDeep inner)
            (by rintro x ⟨k, y, hy⟩; exact C04_nested_validate inner y x hy)
            xs op o hel ⟨hb1, hb2⟩ ho
          exact ⟨this.2.1, this.2.2, this.1⟩
  | cons i path ih =>
    intro tt op cv cv' hinv h
    cases tt with
    | leaf v => cases cv <;> simp [stepAt] at h
    | list c inner =>
      cases cv with
      | atom n => simp [stepAt] at h
      | lst xs =>
        simp only [stepAt] at h
        cases hx : xs[i]? with
        | none => simp [hx] at h
        | some x =>
          simp only [hx] at h
          cases hr : stepAt eq sort inner path op x with
          | none => simp [hr] at h
          | some r =>
            cases r with
            | error e => simp [hr] at h
            | ok x' =>
              simp only [hr, Option.some.injEq, Except.ok.injEq] at h; subst h
              obtain ⟨hb1, hb2, hel⟩ := hinv
              have hxm : x ∈ xs := List.mem_of_getElem? hx
              have hx' := ih inner op x x' (hel x hxm) hr
              refine ⟨by simpa using hb1, by simpa using hb2, ?_⟩
              intro z hz
              rcases List.mem_or_eq_of_mem_set hz with h1 | h1
              · exact hel z h1
              · exact h1 ▸ hx'

/-! ### Dict and Set traits

`TraitDictObject` / `TraitSetObject` add no operation of their own: they are
`TraitDict` / `TraitSet` whose validators are the key / value / item traits.
The invariants are those proved with the `map` and `set` models (Props/C06,
Props/C07); here they are lifted to every moment of every history. -/

section DictSet
variable {K V : Type} [DecidableEq K]

/-- **Dict(K, V)**: at every moment of any history every key and every value is
an output of its validator. -/
theorem C04_dict_history (kv : Callback K K) (vv : Callback V V)
    (ops : List (Py.Dict.Op K V)) :
    ∀ (d : Py.Dict K V),
      (∀ p ∈ d, Model.Map.TraitDict.ValidOut kv p.1 ∧ Model.Map.TraitDict.ValidOut vv p.2) →
      ∀ p ∈ ops.foldl (Model.Map.TraitDict.next kv vv) d,
        Model.Map.TraitDict.ValidOut kv p.1 ∧ Model.Map.TraitDict.ValidOut vv p.2 := by
  induction ops with
  | nil => intro d hv; simpa using hv
  | cons op ops ih =>
    intro d hv
    simp only [List.foldl_cons]
    exact ih _ (C06.keys_values_valid_preserved kv vv d op hv)

/-- Whole-value assignment / construction of a Dict trait establishes the invariant. -/
theorem C04_dict_assign (kv : Callback K K) (vv : Callback V V) (ps : List (K × V))
    (d : Py.Dict K V) (h : Model.Map.TraitDict.init kv vv ps = .ok d) :
    ∀ p ∈ d, Model.Map.TraitDict.ValidOut kv p.1 ∧ Model.Map.TraitDict.ValidOut vv p.2 :=
  C06.keys_values_valid_init kv vv ps d h

end DictSet

section SetPart
variable {β : Type} [DecidableEq β]

/-- **Set(T)**: at every moment of any history every member is an output of the validator. -/
theorem C04_set_history (v : Callback β β) (ops : List (Py.PSet.Op β)) :
    ∀ (s : Py.PSet β), (∀ x ∈ s, Model.SetM.TraitSet.ValidOut v x) →
      ∀ x ∈ ops.foldl (Model.SetM.TraitSet.next v) s, Model.SetM.TraitSet.ValidOut v x := by
  induction ops with
  | nil => intro s hv; simpa using hv
  | cons op ops ih =>
    intro s hv
    simp only [List.foldl_cons]
    exact ih _ (C07.members_valid_preserved v s op hv)

/-- Whole-value assignment / construction of a Set trait establishes the invariant. -/
theorem C04_set_assign (v : Callback β β) (xs : List β) (s : Py.PSet β)
    (h : Model.SetM.TraitSet.init v xs = .ok s) : ∀ x ∈ s, Model.SetM.TraitSet.ValidOut v x :=
  C07.members_valid_init v xs s h

end SetPart

/-! ### Non-vacuity -/

def cfg13 : LenCfg := ⟨1, 3⟩
def rejNeg : Env Int :=
  { v := fun _ x => if x < 0 then .error .traitError else .ok x, eq := (· == ·),
    sort := fun _ l => l.mergeSort (· ≤ ·) }

/-- The interpreted source on concrete inputs (kernel evaluation of the
interpreter on `Generated/ListProg.lean`): an accepted `append`, an `append`
rejected by the length guard (list and event log untouched), and a reversed
extended-slice assignment with its normalised event. -/
example :
    PyL.runTraitListObjectOp Generated.listHelpers Generated.traitListProg Generated.traitListObjectProg
      cfg13 rejNeg [1, 2] (.append 5) = .done [1, 2, 5] none [⟨.idx 2, [], [5]⟩]
    ∧ PyL.runTraitListObjectOp Generated.listHelpers Generated.traitListProg Generated.traitListObjectProg
      cfg13 rejNeg [1, 2, 3] (.append 5) = .raised .traitError [1, 2, 3] []
    ∧ PyL.runTraitListObjectOp Generated.listHelpers Generated.traitListProg Generated.traitListObjectProg
      cfg13 rejNeg [1, 2, 3] (.setSlice ⟨none, none, some (-2)⟩ [7, 8])
        = .done [8, 2, 7] none [⟨.slc 0 3 2, [1, 3], [8, 7]⟩] :=
  ⟨rfl, rfl, rfl⟩

/-! ### Tie to the source: when is an item validated, when is the length checked, when is the items event delivered

The mutators (above) call `self.item_validator` / `self._validate_length` /
`self.notify`; for the value of a `List` trait these are
`TraitListObject._item_validator`, `_validate_length` and `notifier`, which look
at the state of `self` first (trait `None`? owner alive? `name_items`? still the
owner's current value?).  `translate/pylobj.py` translates their source text
(`Generated/ObjProg.lean`); `Model/ContainerObject.lean` has the hand-written gates. -/

section ObjectGates
open TraitsVerif.Model.PyLO TraitsVerif.Model.Obj

/-- **C04_item_validator_is_source.**  For every state of `self`, inner trait,
call ordinal and item, the modelled `_item_validator` and `_validate_length` are
what the interpreter computes on their translated source. -/
theorem C04_item_validator_is_source {β : Type} (σ : OSelf) (inner : Bool → Callback β β) (n : Int) :
    runValidator Generated.Obj.traitListObjectItemValidator .item σ inner = listItemValidator σ inner ∧
    runLengthCheck Generated.Obj.traitListObjectValidateLength σ n = listValidateLength σ n :=
  ⟨by funext k x; exact Lemmas.PyLObj.list_item_validator_is_source σ inner k x,
   Lemmas.PyLObj.list_validate_length_is_source σ n⟩

/-- **C04_notifier_gate_is_source.**  The modelled delivery gate of
`TraitListObject.notifier` is the interpretation of its translated source. -/
theorem C04_notifier_gate_is_source (σ : OSelf) :
    runNotifier Generated.Obj.traitListObjectNotifier σ = listNotifier σ :=
  Lemmas.PyLObj.list_notifier_is_source σ

/-- **C04_trait_value_validates.**  The premise of the invariant theorems above
(`TraitListObject.step c E` with `E.v` the inner trait's `validate` and `c` the
trait's bounds) holds for the value a live owner holds — with or without items
event (`items=False`), current or replaced: its item validator *is* the inner
trait's `validate` called with the owner, and its length check *is* `c.ok`.
Likewise for the keys / values of a `Dict` trait and the members of a `Set`
trait.  (Only a value whose owner is gone — collected, deep-copied, unpickled —
lets items through unvalidated; lists and dicts do, sets still validate after a
deep copy: C07.) -/
theorem C04_trait_value_validates {β : Type} (t : CT) (hasItems : Bool) (inner : Bool → Callback β β) (n : Int) :
    (t.itemNone = false →
      listItemValidator (OSelf.live t hasItems) inner = inner true ∧
      listItemValidator (OSelf.live t hasItems).detached inner = inner true ∧
      setItemValidator (OSelf.live t hasItems) inner = inner true ∧
      setItemValidator (OSelf.live t hasItems).detached inner = inner true) ∧
    (∀ w, t.validateNone w = false →
      dictValidator w (OSelf.live t hasItems) inner = inner true ∧
      dictValidator w (OSelf.live t hasItems).detached inner = inner true) ∧
    (listValidateLength (OSelf.live t hasItems) n = .ok () ↔ (LenCfg.mk t.minlen t.maxlen).ok n = true) ∧
    (listValidateLength (OSelf.live t hasItems) n = .error .traitError ↔ (LenCfg.mk t.minlen t.maxlen).ok n = false) := by
  refine ⟨?_, ?_, ?_, ?_⟩
  · intro hv
    refine ⟨?_, ?_, ?_, ?_⟩ <;> funext k x <;>
      simp [listItemValidator, setItemValidator, OSelf.live, OSelf.detached, traitOrNone, hv]
  · intro w hv
    exact ⟨(C06.C06_trait_value_validates t hasItems inner w hv).1, (C06.C06_trait_value_validates t hasItems inner w hv).2.1⟩
  · by_cases h : (t.minlen : Int) ≤ n ∧ n ≤ (t.maxlen : Int) <;>
      simp [listValidateLength, OSelf.live, traitOrNone, LenCfg.ok, h]
  · by_cases h : (t.minlen : Int) ≤ n ∧ n ≤ (t.maxlen : Int) <;>
      simp [listValidateLength, OSelf.live, traitOrNone, LenCfg.ok, h]

/-- **C04_items_event_gate.**  The `<name>_items` event of a `List` trait is
delivered — once, as `TraitListEvent(index=index, removed=removed, added=added)`
built from the notifier's own arguments in that order — exactly when the list
has a trait with an items event, the owner is alive and the list is still the
owner's current value. -/
theorem C04_items_event_gate (σ : OSelf) (ds : List Delivery) :
    listNotifier σ = .ok ds →
      (ds = [⟨"TraitListEvent", [("index", 1), ("removed", 2), ("added", 3)]⟩] ∧
        σ.nameItems = true ∧ σ.object = some true ∧ σ.current = true ∧ ∃ t, σ.trait = some (some t)) ∨
      (ds = [] ∧ (σ.trait = some none ∨ σ.nameItems = false ∨ σ.object = some false ∨ σ.current = false)) := by
  obtain ⟨tr, ob, ni, cu⟩ := σ
  rcases tr with _ | _ | t <;> rcases ob with _ | _ | _ <;> cases ni <;> cases cu <;>
    simp [listNotifier, deliver, listDelivery] <;> (intro h; simp [← h])

/-- Non-vacuity: the interpreted source on a live `List(Range(low=0), 1..3, items=False)` value. -/
example :
    runValidator Generated.Obj.traitListObjectItemValidator .item (OSelf.live { minlen := 1, maxlen := 3 } false)
        (fun _ _ (x : Int) => if x < 0 then .error .traitError else .ok x) 0 (-3) = .error .traitError ∧
    runValidator Generated.Obj.traitListObjectItemValidator .item (OSelf.live { minlen := 1, maxlen := 3 } false).orphaned
        (fun _ _ (x : Int) => if x < 0 then .error .traitError else .ok x) 0 (-3) = .ok (-3) ∧
    runLengthCheck Generated.Obj.traitListObjectValidateLength (OSelf.live { minlen := 1, maxlen := 3 } false) 4
        = .error .traitError ∧
    runLengthCheck Generated.Obj.traitListObjectValidateLength (OSelf.live { minlen := 1, maxlen := 3 } false).afterSetstate 4
        = .ok () ∧
    runNotifier Generated.Obj.traitListObjectNotifier (OSelf.live {} false) = .ok [] ∧
    runNotifier Generated.Obj.traitListObjectNotifier (OSelf.live {} true) = .ok [listDelivery] := by
  refine ⟨?_, ?_, ?_, ?_, ?_, ?_⟩ <;> first | rfl | decide

end ObjectGates

/-- **C04_init_source.**  `TraitListObject.__init__` is, statement for
statement, what `TraitListObject.assign`, `OSelf.live` and the drivers assume:
owner by weak reference iff `is not None`, `name_items` iff the trait has an
items event, the length of the listed value checked before any item is
validated, then `TraitList.__init__` with the object's own `_item_validator`
and `[self.notifier]`. -/
theorem C04_init_source :
    (Generated.CtorCopy.traitListObjectCtorCopy.take 1) = (Model.CtorCopyAssumed.traitListObjectCtorCopy.take 1) := by
  first | rfl | exact ⟨rfl, rfl⟩

/-- **C04_copy_source.**  `__deepcopy__` / `__getstate__` / `__setstate__` of
`TraitListObject` and `TraitDictObject` are the ones `OSelf.afterDeepcopy` /
`OSelf.afterSetstate` transcribe (trait kept, owner dropped / both dropped). -/
theorem C04_copy_source :
    (Generated.CtorCopy.traitListObjectCtorCopy.drop 1) = (Model.CtorCopyAssumed.traitListObjectCtorCopy.drop 1) ∧
    Generated.CtorCopy.traitDictObjectCtorCopy = Model.CtorCopyAssumed.traitDictObjectCtorCopy := by
  first | rfl | exact ⟨rfl, rfl⟩

/-- **C04_init_is_source.**  `TraitListObject.__init__` as an interpreted
program, run with `super().__init__` bound to the translated
`TraitList.__init__`: for every trait (`None` / with or without items event),
owner, value, bounds and validator it is the modelled constructor; whose
contents are exactly whole-value assignment (`TraitListObject.assign`: the
length of the listed value is checked BEFORE any item is validated, then every
item goes through the object's own `_item_validator`), and whose attributes are
the ones `OSelf.live` assumes (owner by weak reference iff not `None`,
`name_items` iff the trait has an items event, a private copy of
`[self.notifier]`). -/
theorem C04_init_is_source (C : PyLC.Ctx α) (t : Option Bool) (owner : Bool) (xs : List α) :
    PyLC.runListObjectInit Generated.Ctor.traitListObjectInit Generated.Ctor.traitListInit C t owner xs
      = PyLC.listObjectInit C t owner xs ∧
    (∀ (c : LenCfg) (E : Env α), C.lenOk = c.ok → C.own = E.v →
      (PyLC.listObjectInit C t owner xs).map (·.items) = TraitListObject.assign c E xs) ∧
    (∀ o, PyLC.listObjectInit C t owner xs = .ok o →
      o.itemValidator = .own ∧ o.notifiers = .ownCopy ∧ o.object = some owner ∧ o.trait = some t ∧
      o.nameItems = some (t == some true)) := by
  refine ⟨Lemmas.PyLCtor.list_object_init_is_source C t owner xs, ?_, ?_⟩
  · intro c E hl hv
    simp only [PyLC.listObjectInit, TraitListObject.assign, hl, hv]
    by_cases h : c.ok (xs.length : Int) = true
    · simp only [h, if_true]; cases valAll E.v 0 xs <;> rfl
    · simp only [h]; rfl
  · intro o ho
    simp only [PyLC.listObjectInit] at ho
    by_cases h : C.lenOk (xs.length : Int) = true
    · simp only [h, if_true] at ho
      cases hv : valAll C.own 0 xs with
      | error e => simp [hv] at ho
      | ok ys => simp only [hv, Except.ok.injEq] at ho; subst ho; simp
    · simp [h] at ho

/-- A reachable state meeting `Inv`, an accepted and two rejected operations. -/
example : Inv cfg13 rejNeg [1, 2] := by
  refine ⟨?_, by decide, by decide⟩
  intro x hx
  have : x = 1 ∨ x = 2 := by simpa using hx
  rcases this with rfl | rfl
  · exact ⟨0, 1, by decide⟩
  · exact ⟨0, 2, by decide⟩

example :
    ((TraitListObject.step cfg13 rejNeg [1, 2] (.append 3)).toOption.map (·.items) = some [1, 2, 3])
    ∧ (TraitListObject.step cfg13 rejNeg [1, 2, 3] (.append 4)).toOption.isNone = true
    ∧ (TraitListObject.step cfg13 rejNeg [1] (.pop 0)).toOption.isNone = true
    ∧ (TraitListObject.step cfg13 rejNeg [1] (.setIdx 0 (-5))).toOption.isNone = true := by
  decide

/-- Nested: `List(List(Range(low=0), maxlen=2), maxlen=3)`; appending a third
element to an inner list is rejected, to the outer list accepted. -/
def ttNested : TT :=
  .list ⟨0, 3⟩ (.list ⟨0, 2⟩ (.leaf (fun x => if x < 0 then .error .traitError else .ok x)))

example :
    InvDeep ttNested (.lst [.lst [.atom 1], .lst [.atom 2, .atom 3]]) := by
  refine ⟨by decide, by decide, ?_⟩
  intro x hx
  have : x = .lst [.atom 1] ∨ x = .lst [.atom 2, .atom 3] := by simpa using hx
  rcases this with rfl | rfl
  · refine ⟨by decide, by decide, ?_⟩
    intro y hy
    have : y = .atom 1 := by simpa using hy
    subst this; exact ⟨1, by decide⟩
  · refine ⟨by decide, by decide, ?_⟩
    intro y hy
    have : y = .atom 2 ∨ y = .atom 3 := by simpa using hy
    rcases this with rfl | rfl
    · exact ⟨2, by decide⟩
    · exact ⟨3, by decide⟩

end TraitsVerif.Props.C04
