/-
Property C04 — container traits never hold an invalid element or an illegal
length.  (List part; the Dict/Set parts cite the invariants proved with the
TraitDict/TraitSet models, see bottom of file.)

Quantified over: every list, every operation of the list interface with any
index/slice and any items, every `minlen`/`maxlen`, every item validator (an
arbitrary partial function: valid, converting or rejecting), all histories.
-/
import TraitsVerif.Lemmas.SeqLen
import TraitsVerif.Generated.Mutators
import TraitsVerif.Props.C05
namespace TraitsVerif.Props.C04
open TraitsVerif TraitsVerif.Py TraitsVerif.Model
variable {α : Type}

/-- The invariant: every element is an output of the inner trait's validator
("satisfies the inner trait after its documented conversion") and the length is
within `minlen..maxlen`. -/
def Inv (c : LenCfg) (E : Env α) (l : List α) : Prop :=
  (∀ x ∈ l, Valid E x) ∧ c.minlen ≤ l.length ∧ l.length ≤ c.maxlen

/-- **The guards compute the exact new length** (this is where slice arithmetic
bites): whenever an override hands `n` to `_validate_length` and the operation
then succeeds, the list has exactly `n` elements. -/
theorem C04_len_exact (E : Env α) (hs : SortOk E) (l : List α) (op : Op α) (n : Int) (o : Out α)
    (hg : guardLen l op = .ok (some n)) (h : TraitList.step E l op = .ok o) :
    (o.items.length : Int) = n := by
  obtain ⟨op', hv, hp⟩ := step_refines_ok E l op o h
  have := pyStep_length E hs l op' o.items o.ret hp
  rw [guardLen_validated E l op op' hv, hg] at this
  exact this

/-- Operations whose override passes no length to `_validate_length`
(`x[i] = v`, extended-slice assignment, `reverse`, `sort`) do not change it. -/
theorem C04_len_unchanged (E : Env α) (hs : SortOk E) (l : List α) (op : Op α) (o : Out α)
    (hg : guardLen l op = .ok none) (h : TraitList.step E l op = .ok o) :
    o.items.length = l.length := by
  obtain ⟨op', hv, hp⟩ := step_refines_ok E l op o h
  have := pyStep_length E hs l op' o.items o.ret hp
  rw [guardLen_validated E l op op' hv, hg] at this
  exact this

/-- Elements after a successful mutator call were there before or came out of
the item validator. -/
theorem C04_elements (E : Env α) (hs : SortOk E) (l : List α) (op : Op α) (o : Out α)
    (h : TraitList.step E l op = .ok o) : ∀ x ∈ o.items, x ∈ l ∨ Valid E x := by
  obtain ⟨op', hv, hp⟩ := step_refines_ok E l op o h
  intro x hx
  rcases pyStep_mem E hs l op' o.items o.ret hp x hx with h1 | h1
  · exact Or.inl h1
  · exact Or.inr ((validateOp_items E op op' hv).2 x h1)

/-- **Invariant preserved by every mutator.** -/
theorem C04_list_step_inv (c : LenCfg) (E : Env α) (hs : SortOk E) (l : List α) (op : Op α)
    (o : Out α) (hinv : Inv c E l) (h : TraitListObject.step c E l op = .ok o) :
    Inv c E o.items := by
  unfold TraitListObject.step at h
  cases hg : guardLen l op with
  | error e => simp [hg] at h
  | ok g =>
    cases g with
    | none =>
      simp only [hg] at h
      refine ⟨fun x hx => ?_, ?_⟩
      · rcases C04_elements E hs l op o h x hx with h1 | h1
        · exact hinv.1 x h1
        · exact h1
      · rw [C04_len_unchanged E hs l op o hg h]; exact hinv.2
    | some n =>
      simp only [hg] at h
      by_cases hok : c.ok n = true
      · simp only [hok, if_true] at h
        refine ⟨fun x hx => ?_, ?_⟩
        · rcases C04_elements E hs l op o h x hx with h1 | h1
          · exact hinv.1 x h1
          · exact h1
        · have hlen := C04_len_exact E hs l op n o hg h
          simp only [LenCfg.ok, decide_eq_true_eq] at hok
          omega
      · simp [hok] at h

/-- **Invariant established by whole-value assignment** (and by construction). -/
theorem C04_assign_inv (c : LenCfg) (E : Env α) (xs l' : List α)
    (h : TraitListObject.assign c E xs = .ok l') : Inv c E l' := by
  unfold TraitListObject.assign at h
  by_cases hok : c.ok xs.length = true
  · simp only [hok, if_true] at h
    obtain ⟨h1, h2⟩ := valAll_valid h
    refine ⟨fun x hx => h2 x hx, ?_⟩
    simp only [LenCfg.ok, decide_eq_true_eq] at hok
    omega
  · simp [hok] at h

/-- **A violating operation raises TraitError** (length guard). -/
theorem C04_reject_length (c : LenCfg) (E : Env α) (l : List α) (op : Op α) (n : Int)
    (hg : guardLen l op = .ok (some n)) (hbad : c.ok n = false) :
    TraitListObject.step c E l op = .error .traitError := by
  simp [TraitListObject.step, hg, hbad]

/-- … and a rejected item is a validator failure passed through unchanged: the
only failures of a guarded operation are the guard's TraitError, the item
validator's own exception, and what the builtin list raises. -/
theorem C04_failures (c : LenCfg) (E : Env α) (l : List α) (op : Op α) (e : Exc)
    (h : TraitListObject.step c E l op = .error e) :
    e = .traitError ∨ guardLen l op = .error e ∨ TraitList.step E l op = .error e := by
  unfold TraitListObject.step at h
  cases hg : guardLen l op with
  | error e' => simp only [hg, Except.error.injEq] at h; subst h; right; left; rfl
  | ok g =>
    cases g with
    | none => simp only [hg] at h; right; right; exact h
    | some n =>
      simp only [hg] at h
      split at h
      · right; right; exact h
      · simp only [Except.error.injEq] at h; left; exact h.symm

/-- **Changes nothing, notifies nobody**: a failing step leaves the history at
the same contents and produces no output (hence no event). -/
theorem C04_reject_atomic_silent (c : LenCfg) (E : Env α) (l : List α) (op : TOp α)
    (ops : List (TOp α)) (e : Exc) (h : TraitListObject.tstep c E l op = .error e) :
    TraitListObject.run c E l (op :: ops) = .error e :: TraitListObject.run c E l ops := by
  simp [TraitListObject.run, h]

/-- The contents after each step of a history (a failed step repeats the state). -/
def states (c : LenCfg) (E : Env α) : List α → List (TOp α) → List (List α)
  | _, [] => []
  | l, op :: ops =>
    match TraitListObject.tstep c E l op with
    | .error _ => l :: states c E l ops
    | .ok o => o.items :: states c E o.items ops

/-- **At every moment**: along any history of mutator calls and whole-value
assignments, every state satisfies the invariant. -/
theorem C04_list_history (c : LenCfg) (E : Env α) (hs : SortOk E) (l : List α)
    (ops : List (TOp α)) (hinv : Inv c E l) : ∀ s ∈ states c E l ops, Inv c E s := by
  induction ops generalizing l with
  | nil => simp [states]
  | cons op ops ih =>
    intro s hsm
    simp only [states] at hsm
    cases ht : TraitListObject.tstep c E l op with
    | error e =>
      simp only [ht, List.mem_cons] at hsm
      rcases hsm with rfl | hsm
      · exact hinv
      · exact ih l hinv s hsm
    | ok o =>
      have hinv' : Inv c E o.items := by
        cases op with
        | call op' => exact C04_list_step_inv c E hs l op' o hinv ht
        | assign xs =>
          simp only [TraitListObject.tstep, Except.map] at ht
          split at ht
          · cases ht
          · rename_i l' hl'
            simp only [Except.ok.injEq] at ht; subst ht
            exact C04_assign_inv c E xs l' hl'
      simp only [ht, List.mem_cons] at hsm
      rcases hsm with rfl | hsm
      · exact hinv'
      · exact ih o.items hinv' s hsm

/-- **Every length-changing mutator is guarded** (over the translated method
tables): each mutator `TraitList` overrides is overridden again by
`TraitListObject`, except `reverse` and `sort`, which cannot change the length. -/
theorem C04_list_mutators_guarded :
    ∀ m ∈ C05.modelledMutators,
      m ∈ Generated.traitListObjectMethods ∨ m ∈ ["reverse", "sort"] := by
  decide

/-- `TraitListObject` derives from `TraitList`, so unguarded operations still validate items. -/
theorem C04_listobject_base : Generated.traitListObjectBases = ["TraitList"] := by decide

/-! ### Non-vacuity -/

def cfg13 : LenCfg := ⟨1, 3⟩
def rejNeg : Env Int :=
  { v := fun _ x => if x < 0 then .error .traitError else .ok x, eq := (· == ·),
    sort := fun l => l.mergeSort (· ≤ ·) }

/-- A reachable state meeting `Inv`, an accepted and two rejected operations. -/
example : Inv cfg13 rejNeg [1, 2] := by
  refine ⟨?_, by decide, by decide⟩
  intro x hx
  have : x = 1 ∨ x = 2 := by simpa using hx
  rcases this with rfl | rfl
  · exact ⟨0, 1, by decide⟩
  · exact ⟨0, 2, by decide⟩

example :
    ((TraitListObject.step cfg13 rejNeg [1, 2] (.append 3)).toOption.map (·.items) = some [1, 2, 3])
    ∧ (TraitListObject.step cfg13 rejNeg [1, 2, 3] (.append 4)).toOption.isNone = true
    ∧ (TraitListObject.step cfg13 rejNeg [1] (.pop 0)).toOption.isNone = true
    ∧ (TraitListObject.step cfg13 rejNeg [1] (.setIdx 0 (-5))).toOption.isNone = true := by
  decide

end TraitsVerif.Props.C04
