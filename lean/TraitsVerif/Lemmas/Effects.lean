import TraitsVerif.Model.Effects
namespace TraitsVerif.Model.Effects

/-- State invariant per phase. -/
def PhaseInv (ph : Nat) (s : St) : Prop :=
  (ph = 0 → s.mutated = false ∧ s.notified = 0) ∧ (ph ≤ 1 → s.notified = 0) ∧ s.notified ≤ 1

/-- Main lemma: running an ordered suffix from a state in the phase invariant. -/
theorem exec_ordered (fails : Nat → Bool) :
    ∀ (es : List Eff) (ph i : Nat) (s : St), ordered ph es = true → PhaseInv ph s →
      match exec fails i es s with
      | (s', none) => s'.notified ≤ 1
      | (s', some j) =>
        ∃ e, es[j - i]? = some e ∧ i ≤ j ∧
          ((e = .V ∨ e = .G) → (∀ k, k < j - i → (es[k]? = some .V ∨ es[k]? = some .G)) →
              s'.mutated = s.mutated ∧ s'.notified = s.notified) ∧
          ((e = .V ∨ e = .G ∨ e = .M) → s'.notified = 0) := by
  intro es
  induction es with
  | nil => intro ph i s _ hinv; simp only [exec]; exact hinv.2.2
  | cons e es ih =>
    intro ph i s hord hinv
    simp only [exec]
    by_cases hf : fails i = true
    · simp only [hf, if_true]
      refine ⟨e, by simp, Nat.le_refl _, fun _ _ => by simp, ?_⟩
      intro he
      cases e with
      | V => simp only [ordered, Bool.and_eq_true, beq_iff_eq] at hord; exact (hinv.1 hord.1).2
      | G => simp only [ordered, Bool.and_eq_true, beq_iff_eq] at hord; exact (hinv.1 hord.1).2
      | M => simp only [ordered, Bool.and_eq_true, decide_eq_true_eq] at hord; exact hinv.2.1 hord.1
      | N => simp at he
      | D => simp at he
    · simp only [hf, Bool.false_eq_true, if_false]
      -- one step, then the induction hypothesis
      have step : ∃ ph', ordered ph' es = true ∧ PhaseInv ph' (apply e s) ∧
          ((e = .V ∨ e = .G) → apply e s = s) := by
        cases e with
        | V =>
          simp only [ordered, Bool.and_eq_true, beq_iff_eq] at hord
          exact ⟨0, hord.2, by rw [hord.1] at hinv; exact hinv, fun _ => rfl⟩
        | G =>
          simp only [ordered, Bool.and_eq_true, beq_iff_eq] at hord
          exact ⟨0, hord.2, by rw [hord.1] at hinv; exact hinv, fun _ => rfl⟩
        | M =>
          simp only [ordered, Bool.and_eq_true, decide_eq_true_eq] at hord
          refine ⟨1, hord.2, ?_, fun h => by simp at h⟩
          have h0 := hinv.2.1 hord.1
          exact ⟨fun h => by omega, fun _ => by simp [apply, h0], by simp [apply, h0]⟩
        | N =>
          simp only [ordered, Bool.and_eq_true, beq_iff_eq] at hord
          refine ⟨2, hord.2, ?_, fun h => by simp at h⟩
          have h0 := hinv.2.1 (by omega : ph ≤ 1)
          exact ⟨fun h => by omega, fun h => by omega, by simp [apply, h0]⟩
        | D => simp [ordered] at hord
      obtain ⟨ph', hord', hinv', hsame⟩ := step
      have := ih ph' (i + 1) (apply e s) hord' hinv'
      cases hex : exec fails (i + 1) es (apply e s) with
      | mk s' r =>
        rw [hex] at this
        cases r with
        | none => exact this
        | some j =>
          obtain ⟨e', he', hij, h1, h2⟩ := this
          have hji : j - i = (j - (i + 1)) + 1 := by omega
          refine ⟨e', by rw [hji]; simpa using he', by omega, ?_, h2⟩
          intro hev hall
          have h0 := hall 0 (by omega)
          simp only [List.getElem?_cons_zero, Option.some.injEq] at h0
          have hs := hsame h0
          have := h1 hev (fun k hk => by
            have := hall (k + 1) (by omega)
            simpa using this)
          rw [hs] at this
          exact this

end TraitsVerif.Model.Effects

namespace TraitsVerif.Model.Effects

/-- In an ordered path a validator call or guard can only be preceded by
validator calls and guards. -/
theorem ordered_prefix : ∀ (es : List Eff) (ph j : Nat), ordered ph es = true →
    (es[j]? = some .V ∨ es[j]? = some .G) →
    ph = 0 ∧ ∀ k, k < j → (es[k]? = some .V ∨ es[k]? = some .G) := by
  intro es
  induction es with
  | nil => intro ph j _ h; simp at h
  | cons e es ih =>
    intro ph j hord hj
    cases j with
    | zero =>
      simp only [List.getElem?_cons_zero, Option.some.injEq] at hj
      refine ⟨?_, fun k hk => by omega⟩
      rcases hj with rfl | rfl <;>
        (simp only [ordered, Bool.and_eq_true, beq_iff_eq] at hord; exact hord.1)
    | succ j =>
      simp only [List.getElem?_cons_succ] at hj
      cases e with
      | V =>
        simp only [ordered, Bool.and_eq_true, beq_iff_eq] at hord
        obtain ⟨_, h2⟩ := ih 0 j hord.2 hj
        refine ⟨hord.1, fun k hk => ?_⟩
        cases k with
        | zero => simp
        | succ k => simpa using h2 k (by omega)
      | G =>
        simp only [ordered, Bool.and_eq_true, beq_iff_eq] at hord
        obtain ⟨_, h2⟩ := ih 0 j hord.2 hj
        refine ⟨hord.1, fun k hk => ?_⟩
        cases k with
        | zero => simp
        | succ k => simpa using h2 k (by omega)
      | M =>
        simp only [ordered, Bool.and_eq_true, decide_eq_true_eq] at hord
        have := (ih 1 j hord.2 hj).1
        omega
      | N =>
        simp only [ordered, Bool.and_eq_true, beq_iff_eq] at hord
        have := (ih 2 j hord.2 hj).1
        omega
      | D => simp [ordered] at hord

end TraitsVerif.Model.Effects
