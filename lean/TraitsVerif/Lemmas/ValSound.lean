/-
Soundness of validation with respect to the declared domain (C01_sound): what a
validator accepts lies in `inDomain` and is the documented conversion `Conv`.
-/
import TraitsVerif.Lemmas.ValOrder
import TraitsVerif.Model.Domain
namespace TraitsVerif.Model.Val
open TraitsVerif TraitsVerif.Py.Value

/-- What the proofs assume about the environment (all facts about CPython /
the adaptation registry / the user functions, checked on every cast-table entry
by the correspondence run). -/
structure EnvOK (E : Env) : Prop where
  castIdem : CastIdem E
  /-- `T(v)` returns an exact `T`. -/
  castTyped : ∀ t v w, E.cast t v = .ok w → Val.exactTy t w = true
  /-- what `adapt` returns offers the protocol. -/
  adaptProvides : ∀ v c r, E.adapt v c = .ok (some r) → Val.isInst c r = true ∨ E.provides r c = true
  /-- `some r` encodes "adapt returned something other than None". -/
  adaptNotNone : ∀ v c r, E.adapt v c = .ok (some r) → r.isNone = false
  fnRange : ∀ f v w, E.fn f v = .ok w → E.fnRange f w = true
  /-- `asarray(value, dtype)` has dtype `dtype`. -/
  asarrayTyped : ∀ v t d s, E.asarray v (some t) = .ok (d, s) → d = t

/-- Accepted ⇒ in the domain and the documented conversion. -/
def Good (E : Env) (t : TraitType) (v w : Val) : Prop := inDomain E t w = true ∧ Conv E t v w

theorem ite_ok {c : Prop} [Decidable c] {x w : Val}
    (h : (if c then Res.ok x else Res.traitError) = Res.ok w) : c ∧ x = w := by
  split at h <;> simp_all

theorem seqContains_yes_isMember (vals : List Val) (v : Val) (h : seqContains vals v = .yes) :
    isMember vals v = true := by
  induction vals with
  | nil => simp [seqContains] at h
  | cons m ms ih =>
    simp only [seqContains] at h
    cases hm : Val.pyEq m v with
    | yes => simp [isMember, hm]
    | no => simp [hm] at h; simp [isMember, hm]; simpa [isMember] using ih h
    | raises e => simp [hm] at h

theorem dictFind_some_isKey (keys : List Val) (v : Val) (i : Nat) (h : dictFind keys v = .ok (some i)) :
    isKey keys v = true := by
  unfold dictFind at h
  by_cases hh : v.hashable = true
  · simp [hh] at h
    have := List.findIdx?_eq_some_iff_getElem.mp h
    obtain ⟨hi, hp, _⟩ := this
    simp only [isKey, hh, Bool.true_and, List.any_eq_true]
    exact ⟨keys[i], List.getElem_mem hi, hp⟩
  · simp [hh] at h

theorem pyInRangeF_eq (lo hi : Option F) (a b : Bool) (x : F) :
    pyInRangeF lo hi a b x = inRangeF lo hi a b x := by
  cases a <;> cases b <;> cases lo <;> cases hi <;> simp [pyInRangeF, inRangeF, F.gt, F.ge]

theorem pyInRangeI_eq (lo hi : Option Int) (a b : Bool) (x : Int) :
    pyInRangeI lo hi a b x = inRangeI lo hi a b x := by
  cases a <;> cases b <;> cases lo <;> cases hi <;> simp [pyInRangeI, inRangeI]

theorem asInteger_ok (v w : Val) (h : asInteger v = .ok w) :
    Val.exactTy .int w = true ∧ ∃ n, index v = .ok n ∧ w = Val.ofInt n := by
  unfold asInteger at h
  split at h
  · cases h; exact ⟨rfl, _, rfl, rfl⟩
  · cases hi : index v with
    | error e => simp [hi] at h
    | ok n => simp [hi] at h; subst h; exact ⟨rfl, n, rfl, rfl⟩

theorem validateFloat_ok (v w : Val) (h : validateFloat v = .ok w) :
    Val.exactTy .float w = true ∧ ConvFloat v w ∧ w = Val.ofFloat (floatOf w) := by
  unfold validateFloat at h
  split at h
  · cases h; exact ⟨rfl, Or.inl ⟨rfl, rfl⟩, rfl⟩
  · cases hi : asDouble v with
    | error e => simp [hi] at h
    | ok f => simp [hi] at h; subst h; exact ⟨rfl, Or.inr ⟨f, hi, rfl⟩, rfl⟩

theorem validateComplex_ok (v w : Val) (h : validateComplexNumber v = .ok w) :
    Val.exactTy .complex w = true ∧
    ((Val.exactTy .complex v = true ∧ w = v) ∨ ∃ re im, asComplex v = .ok (re, im) ∧ w = Val.ofComplex re im) := by
  unfold validateComplexNumber at h
  split at h
  · cases h; exact ⟨rfl, Or.inl ⟨rfl, rfl⟩⟩
  · cases hi : asComplex v with
    | error e => simp [hi] at h
    | ok z => obtain ⟨re, im⟩ := z; simp [hi] at h; subst h; exact ⟨rfl, Or.inr ⟨re, im, rfl, rfl⟩⟩


/-- Leaves on which the compiled path is known to store values outside the
declared domain: TraitCoerceType(float / complex) (finding F42). -/
def TraitType.soundLeaf : TraitType → Bool
  | .coerceH ty => (coerceRest ty).isEmpty
  | _ => true

variable (E : Env)

theorem fast_int_ok (v w : Val) (h : fastAlone E .int v = .ok w) : asInteger v = .ok w := by
  simp only [fastAlone] at h
  cases hr : asInteger v with
  | ok x => simp [hr] at h; simp [h]
  | error e => cases e <;> simp [hr] at h

theorem fast_float_ok (v w : Val) (h : fastAlone E .float v = .ok w) : validateFloat v = .ok w := by
  simp only [fastAlone] at h
  cases hr : validateFloat v with
  | ok x => simp [hr] at h; simp [h]
  | error e => cases e <;> simp [hr] at h

theorem fast_complex_ok (v w : Val) (h : fastAlone E .complexNumber v = .ok w) :
    validateComplexNumber v = .ok w := by
  simp only [fastAlone] at h
  cases hr : validateComplexNumber v with
  | ok x => simp [hr] at h; simp [h]
  | error e => cases e <;> simp [hr] at h

theorem fast_range_ok (lo hi : Option F) (m : Nat) (v w : Val) (h : fastAlone E (.floatRange lo hi m) v = .ok w) :
    validateFloat v = .ok w ∧ inFloatRange (floatOf w) lo hi m = true := by
  simp only [fastAlone] at h
  cases hr : validateFloat v with
  | error e => cases e <;> simp [hr] at h
  | ok x =>
    simp only [hr] at h
    by_cases hi' : inFloatRange (floatOf x) lo hi m = true
    · simp [hi'] at h; subst h; exact ⟨rfl, hi'⟩
    · simp [hi'] at h

theorem fast_coerce_nil_ok (ty : Ty) (v w : Val) (h : fastAlone E (.coerce ty []) v = .ok w) :
    Val.isInst ty v = true ∧ w = v := by
  simp only [fastAlone, coerceScan, coerceAny] at h
  by_cases hi : Val.isInst ty v = true
  · simp [hi] at h; exact ⟨hi, h.symm⟩
  · simp [hi] at h

theorem fast_cast_ok (ty : Ty) (v w : Val) (h : fastAlone E (.cast ty) v = .ok w) :
    (Val.exactTy ty v = true ∧ w = v) ∨ E.cast ty v = .ok w := by
  simp only [fastAlone] at h
  by_cases hx : Val.exactTy ty v = true
  · simp [hx] at h; exact Or.inl ⟨hx, h.symm⟩
  · simp [hx] at h
    cases hc : E.cast ty v with
    | ok x => simp [hc] at h; exact Or.inr (by simp [h])
    | error e => simp [hc] at h

theorem fast_enum_ok (vals : List Val) (v w : Val) (h : fastAlone E (.enum vals) v = .ok w) :
    seqContains vals v = .yes ∧ w = v := by
  simp only [fastAlone] at h
  cases hs : seqContains vals v <;> simp [hs] at h
  exact ⟨rfl, h.symm⟩

theorem fast_map_ok (keys : List Val) (v w : Val) (h : fastAlone E (.map keys) v = .ok w) :
    (∃ i, dictFind keys v = .ok (some i)) ∧ w = v := by
  simp only [fastAlone] at h
  cases hs : dictFind keys v with
  | error e => simp [hs] at h
  | ok o =>
    cases o with
    | none => simp [hs] at h
    | some i => simp [hs] at h; exact ⟨⟨i, rfl⟩, h.symm⟩

theorem fast_check_ok (an : Bool) (ty : Ty) (v w : Val)
    (h : (ty.isTypeType = true ∧ fastAlone E (.typeChk an ty) v = .ok w) ∨
         fastAlone E (.instChk an ty) v = .ok w) :
    ((an = true ∧ v.isNone = true) ∨ (v.isNone = false ∧ Val.isInst ty v = true)) ∧ w = v := by
  rcases h with ⟨ht, h⟩ | h
  · simp only [fastAlone] at h
    split at h
    · rename_i hc; cases h
      refine ⟨?_, rfl⟩
      by_cases hn : v.isNone = true
      · have := Val.eq_none_of_isNone v hn; subst this
        have := isInst_typeType_none ty ht
        simp_all
      · simp_all
    · cases h
  · simp only [fastAlone] at h
    split at h <;> simp_all

theorem isInst_bool_exact (v : Val) (h : Val.isInst .bool v = true) : Val.exactTy .bool v = true := by
  rcases v with a | ⟨sub, vs⟩ | vs
  · cases a <;> simp_all [Val.exactTy, Val.isInst]
  · simp_all [Val.isInst]
  · simp_all [Val.isInst]

theorem exactTy_str (w : Val) (h : Val.exactTy .str w = true) : ∃ s, w = .atom (.str false s) := by
  rcases w with a | ⟨sub, vs⟩ | vs
  · cases a <;> simp_all [Val.exactTy]
    case str sub s => cases sub <;> simp_all [Val.exactTy]
  · simp_all [Val.exactTy]
  · simp_all [Val.exactTy]

/-! ### Python-only leaves -/

theorem py_rangeI_ok (lo hi : Option Int) (a b : Bool) (v w : Val)
    (h : pyValidate E (.rangeI lo hi a b) v = .ok w) : Good E (.rangeI lo hi a b) v w := by
  simp only [pyValidate, ← asInteger_eq_py] at h
  cases hr : asInteger v with
  | error e => cases e <;> simp [hr] at h
  | ok x =>
    simp only [hr] at h
    by_cases hi' : pyInRangeI lo hi a b (intOf x) = true
    · simp [hi'] at h; subst h
      obtain ⟨h1, n, h2, rfl⟩ := asInteger_ok v x hr
      refine ⟨?_, n, h2, rfl⟩
      simp only [inDomain, Val.ofInt]
      rw [← pyInRangeI_eq]; simpa [intOf, Val.ofInt] using hi'
    · simp [hi'] at h

theorem py_tupleAny_ok (v w : Val) (h : pyValidate E .tupleAny v = .ok w) : Good E .tupleAny v w := by
  simp only [pyValidate] at h
  rcases v with a | ⟨sub, vs⟩ | vs
  · simp at h
  · simp at h; subst h; exact ⟨by simp [inDomain, Val.isInst], Or.inl rfl⟩
  · simp at h; subst h; exact ⟨by simp [inDomain, Val.isInst], Or.inr ⟨vs, rfl, rfl⟩⟩

theorem py_type_ok (cls : Ty) (an : Bool) (v w : Val) (h : pyValidate E (.type_ cls an) v = .ok w) :
    Good E (.type_ cls an) v w := by
  simp only [pyValidate] at h
  cases hs : isSubclass v cls with
  | none =>
    simp only [hs] at h
    by_cases hn : (v.isNone && an) = true
    · simp [hn] at h; subst h
      simp only [Bool.and_eq_true] at hn
      exact ⟨by simp [inDomain, hn.1, hn.2], rfl⟩
    · simp [hn] at h
  | some b =>
    cases b with
    | true => simp [hs] at h; subst h; exact ⟨by simp [inDomain, hs], rfl⟩
    | false => simp [hs] at h

theorem py_none_ok (v w : Val) (h : pyValidate E .noneTrait v = .ok w) : Good E .noneTrait v w := by
  simp only [pyValidate] at h
  by_cases hn : v.isNone = true
  · simp [hn] at h; subst h; exact ⟨by simp [inDomain, hn], rfl⟩
  · simp [hn] at h

theorem stringRun_ok (mn : Nat) (mx re : Option Nat) (w x : Val) (s : String)
    (h : stringRun E mn mx re w s (stringInit mn mx re) = .ok x) :
    x = w ∧ strLenOk mn mx s = true ∧ strReOk E re s = true := by
  cases re with
  | none =>
    by_cases hc : (mn == 0 && mx.isNone) = true
    · simp only [stringInit, hc, if_true, stringRun] at h
      cases h
      simp only [Bool.and_eq_true, beq_iff_eq, Option.isNone_iff_eq_none] at hc
      simp [strLenOk, strReOk, hc.1, hc.2]
    · simp only [stringInit, hc, stringRun] at h
      have := ite_ok h
      simp [strReOk, this.1, this.2]
  | some k =>
    by_cases hc : (mn == 0 && mx.isNone) = true
    · simp only [stringInit, hc, if_true, stringRun] at h
      have := ite_ok h
      simp only [Bool.and_eq_true, beq_iff_eq, Option.isNone_iff_eq_none] at hc
      simp [strLenOk, hc.1, hc.2, this.1, this.2]
    · simp only [stringInit, hc, stringRun] at h
      have := ite_ok h
      simp only [Bool.and_eq_true] at this
      simp [this.1.1, this.1.2, this.2]

theorem py_string_ok (hE : EnvOK E) (mn : Nat) (mx re : Option Nat) (v w : Val)
    (h : pyValidate E (.string mn mx re) v = .ok w) : Good E (.string mn mx re) v w := by
  simp only [pyValidate, stringValidate] at h
  split at h
  · cases hcast : E.cast .str v with
    | error e => simp [hcast] at h
    | ok x =>
      simp only [hcast] at h
      obtain ⟨s, rfl⟩ := exactTy_str x (hE.castTyped _ _ _ hcast)
      simp only [strOf] at h
      obtain ⟨rfl, h1, h2⟩ := stringRun_ok E mn mx re _ w s h
      refine ⟨?_, hcast⟩
      simp only [strLenOk, strReOk] at h1 h2
      simp only [inDomain]
      rw [Bool.and_eq_true]; exact ⟨h1, h2⟩
  · simp at h

theorem completeValue_ok (keys : List String) (v w : Val) (s : String) (hs : strOf v = some s)
    (h : completeValue keys v s = .ok w) :
    (∃ s', strOf w = some s' ∧ keys.contains s' = true) ∧
    (w = v ∨ ∃ s k, strOf v = some s ∧ keys.filter (fun k => s.isPrefixOf k) = [k] ∧ w = Val.ofStr k) := by
  unfold completeValue at h
  split at h
  · rename_i hc
    cases h
    exact ⟨⟨s, hs, hc⟩, Or.inl rfl⟩
  · split at h
    · rename_i k hk
      cases h
      have hmem : k ∈ keys.filter (fun k => s.isPrefixOf k) := by simp [hk]
      refine ⟨⟨k, rfl, ?_⟩, Or.inr ⟨s, k, hs, hk, rfl⟩⟩
      simpa using (List.mem_filter.mp hmem).1
    · cases h

theorem py_prefixList_ok (vals : List String) (v w : Val) (h : pyValidate E (.prefixList vals) v = .ok w) :
    Good E (.prefixList vals) v w := by
  simp only [pyValidate] at h
  cases hs : strOf v with
  | none => simp [hs] at h
  | some s =>
    simp only [hs] at h
    obtain ⟨⟨s', h1, h2⟩, h3⟩ := completeValue_ok vals v w s hs h
    exact ⟨by simp only [inDomain, h1, h2], h3⟩

theorem py_prefixMap_ok (keys : List String) (vals : List Val) (v w : Val)
    (h : pyValidate E (.prefixMap keys vals) v = .ok w) : Good E (.prefixMap keys vals) v w := by
  simp only [pyValidate] at h
  cases hs : strOf v with
  | none => simp [hs] at h
  | some s =>
    simp only [hs] at h
    obtain ⟨⟨s', h1, h2⟩, h3⟩ := completeValue_ok keys v w s hs h
    exact ⟨by simp only [inDomain, h1, h2], h3⟩

/-- What `asarray(value, dtype)` returns has that dtype (numpy fact; `EnvOK` does
not cover it, so it is a hypothesis of the Array lemmas). -/
def AsarrayTyped (E : Env) : Prop := ∀ v t d s, E.asarray v (some t) = .ok (d, s) → d = t

theorem arrayStage1_ok (hA : AsarrayTyped E) (dt : Option Nat) (c : Nat) (v x : Val) (s' : List Nat)
    (h : arrayStage1 E dt c v = some (x, s')) :
    (∃ d', x = .atom (.ndarray d' s') ∧ (∀ t, dt = some t → d' = t)) ∧
    Conv E (.array dt none c) v x := by
  have hseq : ∀ v' d s, E.asarray v' dt = .ok (d, s) → some (Val.atom (.ndarray d s), s) = some (x, s') →
      (∃ d', x = .atom (.ndarray d' s') ∧ (∀ t, dt = some t → d' = t)) ∧
      (∃ d s, E.asarray v' dt = .ok (d, s) ∧ x = .atom (.ndarray d s)) := by
    intro v' d s has heq
    simp only [Option.some.injEq, Prod.mk.injEq] at heq
    obtain ⟨rfl, rfl⟩ := heq
    refine ⟨⟨d, rfl, ?_⟩, ⟨d, s, has, rfl⟩⟩
    intro t ht; subst ht; exact hA _ t d s has
  rcases v with a | ⟨sub, vs⟩ | vs
  · cases a
    case ndarray d s =>
      simp only [arrayStage1] at h
      cases dt with
      | none =>
        simp only [Option.some.injEq, Prod.mk.injEq] at h
        obtain ⟨rfl, rfl⟩ := h
        exact ⟨⟨d, rfl, by intro t ht; cases ht⟩, Or.inl rfl⟩
      | some t =>
        simp only at h
        by_cases hdt : d = t
        · subst hdt
          simp only [beq_self_eq_true, if_true, Option.some.injEq, Prod.mk.injEq] at h
          obtain ⟨rfl, rfl⟩ := h
          exact ⟨⟨d, rfl, by intro t ht; cases ht; rfl⟩, Or.inl rfl⟩
        · have hne : (d == t) = false := by simpa using hdt
          simp only [hne, Bool.false_eq_true, if_false] at h
          by_cases hcc : E.canCast d t c = true
          · simp only [hcc, if_true, Option.some.injEq, Prod.mk.injEq] at h
            obtain ⟨rfl, rfl⟩ := h
            exact ⟨⟨t, rfl, by intro t' ht; cases ht; rfl⟩, Or.inr (Or.inl ⟨d, s, t, rfl, rfl, hcc, rfl⟩)⟩
          · simp [hcc] at h
    all_goals simp [arrayStage1] at h
  · simp only [arrayStage1] at h
    cases has : E.asarray (.tuple sub vs) dt with
    | error e => simp [has] at h
    | ok q =>
      obtain ⟨d, s⟩ := q
      simp only [has] at h
      obtain ⟨h1, h2⟩ := hseq _ d s has h
      exact ⟨h1, Or.inr (Or.inr h2)⟩
  · simp only [arrayStage1] at h
    cases has : E.asarray (.list vs) dt with
    | error e => simp [has] at h
    | ok q =>
      obtain ⟨d, s⟩ := q
      simp only [has] at h
      obtain ⟨h1, h2⟩ := hseq _ d s has h
      exact ⟨h1, Or.inr (Or.inr h2)⟩

theorem py_array_ok (hA : AsarrayTyped E) (dt : Option Nat) (sh : Option (List DimSpec)) (c : Nat) (v w : Val)
    (h : pyValidate E (.array dt sh c) v = .ok w) : Good E (.array dt sh c) v w := by
  simp only [pyValidate, arrayValidate] at h
  cases hst : arrayStage1 E dt c v with
  | none => simp [hst] at h
  | some p =>
    obtain ⟨x, s'⟩ := p
    obtain ⟨⟨d', rfl, hd'⟩, hconv⟩ := arrayStage1_ok E hA dt c v x s' hst
    simp only [hst] at h
    have hconv' : Conv E (.array dt sh c) v (.atom (.ndarray d' s')) := by simpa [Conv] using hconv
    cases sh with
    | none =>
      simp at h; subst h
      refine ⟨?_, hconv'⟩
      cases dt with
      | none => simp [inDomain]
      | some t => simp [inDomain, hd' t rfl]
    | some sp =>
      simp only at h
      obtain ⟨hs, rfl⟩ := ite_ok h
      refine ⟨?_, hconv'⟩
      cases dt with
      | none => simp [inDomain, hs]
      | some t => simp [inDomain, hd' t rfl, hs]

theorem sound_atomic_ctrait (hE : EnvOK E) (t : TraitType) (hs : t.subs = none) (hn : t.isNoFast = false)
    (hc : t.soundLeaf = true) (v w : Val) (h : ctraitValidate E t v = .ok w) : Good E t v w := by
  cases t <;> simp [TraitType.subs, TraitType.isNoFast] at hs hn <;>
    simp [ctraitValidate, ctraitValidateWith, descOf, hasPy] at h
  case any => subst h; exact ⟨rfl, rfl⟩
  case int =>
    obtain ⟨h1, h2⟩ := asInteger_ok v w (fast_int_ok E v w h)
    exact ⟨h1, h2⟩
  case float =>
    obtain ⟨h1, h2, _⟩ := validateFloat_ok v w (fast_float_ok E v w h)
    exact ⟨h1, h2⟩
  case complex =>
    obtain ⟨h1, h2⟩ := validateComplex_ok v w (fast_complex_ok E v w h)
    exact ⟨h1, h2⟩
  case str => obtain ⟨h1, rfl⟩ := fast_coerce_nil_ok E _ v w h; exact ⟨h1, rfl⟩
  case bytes => obtain ⟨h1, rfl⟩ := fast_coerce_nil_ok E _ v w h; exact ⟨h1, rfl⟩
  case module => obtain ⟨h1, rfl⟩ := fast_coerce_nil_ok E _ v w h; exact ⟨h1, rfl⟩
  case bool =>
    simp only [fastAlone, coerceScan, coerceAny] at h
    by_cases hi : Val.isInst .bool v = true
    · simp [hi] at h; subst h
      exact ⟨isInst_bool_exact v hi, Or.inl ⟨isInst_bool_exact v hi, rfl⟩⟩
    · simp [hi] at h
      by_cases hn : Val.isInst .npBool v = true
      · simp [hn] at h
        cases hcast : E.cast .bool v with
        | ok x => simp [hcast] at h; subst h; exact ⟨hE.castTyped _ _ _ hcast, Or.inr hcast⟩
        | error e => simp [hcast] at h
      · simp [hn] at h
  case cint =>
    rcases fast_cast_ok E _ v w h with ⟨hx, rfl⟩ | hcast
    · exact ⟨hx, Or.inl ⟨hx, rfl⟩⟩
    · exact ⟨hE.castTyped _ _ _ hcast, Or.inr hcast⟩
  case cfloat =>
    rcases fast_cast_ok E _ v w h with ⟨hx, rfl⟩ | hcast
    · exact ⟨hx, Or.inl ⟨hx, rfl⟩⟩
    · exact ⟨hE.castTyped _ _ _ hcast, Or.inr hcast⟩
  case ccomplex =>
    rcases fast_cast_ok E _ v w h with ⟨hx, rfl⟩ | hcast
    · exact ⟨hx, Or.inl ⟨hx, rfl⟩⟩
    · exact ⟨hE.castTyped _ _ _ hcast, Or.inr hcast⟩
  case cstr =>
    rcases fast_cast_ok E _ v w h with ⟨hx, rfl⟩ | hcast
    · exact ⟨hx, Or.inl ⟨hx, rfl⟩⟩
    · exact ⟨hE.castTyped _ _ _ hcast, Or.inr hcast⟩
  case cbytes =>
    rcases fast_cast_ok E _ v w h with ⟨hx, rfl⟩ | hcast
    · exact ⟨hx, Or.inl ⟨hx, rfl⟩⟩
    · exact ⟨hE.castTyped _ _ _ hcast, Or.inr hcast⟩
  case cbool =>
    rcases fast_cast_ok E _ v w h with ⟨hx, rfl⟩ | hcast
    · exact ⟨hx, Or.inl ⟨hx, rfl⟩⟩
    · exact ⟨hE.castTyped _ _ _ hcast, Or.inr hcast⟩
  case castH ty =>
    rcases fast_cast_ok E _ v w h with ⟨hx, rfl⟩ | hcast
    · exact ⟨hx, Or.inl ⟨hx, rfl⟩⟩
    · exact ⟨hE.castTyped _ _ _ hcast, Or.inr hcast⟩
  case rangeF lo hi a b =>
    obtain ⟨h1, h2⟩ := fast_range_ok E _ _ _ v w h
    obtain ⟨h3, h4, h5⟩ := validateFloat_ok v w h1
    refine ⟨?_, h4⟩
    rw [h5]
    simp only [inDomain, Val.ofFloat]
    rw [← pyInRangeF_eq, ← inFloatRange_eq_py]; exact h2
  case enum vals =>
    obtain ⟨h1, rfl⟩ := fast_enum_ok E _ v w h
    exact ⟨seqContains_yes_isMember _ _ h1, rfl⟩
  case enumH vals =>
    obtain ⟨h1, rfl⟩ := fast_enum_ok E _ v w h
    exact ⟨seqContains_yes_isMember _ _ h1, rfl⟩
  case map keys vals =>
    obtain ⟨⟨i, h1⟩, rfl⟩ := fast_map_ok E _ v w h
    exact ⟨dictFind_some_isKey _ _ i h1, rfl⟩
  case mapH keys vals =>
    obtain ⟨⟨i, h1⟩, rfl⟩ := fast_map_ok E _ v w h
    exact ⟨dictFind_some_isKey _ _ i h1, rfl⟩
  case rangeI lo hi a b => exact py_rangeI_ok E lo hi a b v w h
  case tupleAny => exact py_tupleAny_ok E v w h
  case type_ cls an => exact py_type_ok E cls an v w h
  case noneTrait => exact py_none_ok E v w h
  case string mn mx re => exact py_string_ok E hE mn mx re v w h
  case prefixList vals => exact py_prefixList_ok E vals v w h
  case prefixMap keys vals => exact py_prefixMap_ok E keys vals v w h
  case array dt sh c => exact py_array_ok E hE.asarrayTyped dt sh c v w h
  case this an =>
    simp only [fastAlone] at h
    split at h
    · rename_i hc'; cases h; exact ⟨by simpa [inDomain] using hc', rfl⟩
    · cases h
  case callable an =>
    simp only [fastAlone] at h
    obtain ⟨hc', rfl⟩ := ite_ok h
    refine ⟨?_, rfl⟩
    simp only [validateCallable] at hc'
    by_cases hn : v.isNone = true <;> simp_all [inDomain]
  case functionH f =>
    simp only [fastAlone] at h
    cases hf : E.fn f v with
    | ok x => simp [hf] at h; subst h; exact ⟨hE.fnRange _ _ _ hf, hf⟩
    | error e => simp [hf] at h
  case coerceH ty =>
    have hr : coerceRest ty = [] := by simpa [TraitType.soundLeaf] using hc
    rw [hr] at h
    obtain ⟨h1, rfl⟩ := fast_coerce_nil_ok E _ v w h
    exact ⟨h1, Or.inl ⟨h1, rfl⟩⟩
  case instanceH cls an =>
    have h' : (cls.isTypeType = true ∧ fastAlone E (.typeChk an cls) v = .ok w) ∨ fastAlone E (.instChk an cls) v = .ok w := by
      by_cases ht : cls.isTypeType = true <;> simp [ht] at h
      · exact Or.inl ⟨ht, h⟩
      · exact Or.inr h
    obtain ⟨h1, rfl⟩ := fast_check_ok E an cls v w h'
    refine ⟨?_, rfl⟩
    rcases h1 with ⟨ha, hn⟩ | hi <;> simp_all [inDomain]
  case «instance» cls an mode dflt =>
    by_cases hm : mode = 0
    · subst hm
      have h' : (cls.isTypeType = true ∧ fastAlone E (.typeChk an cls) v = .ok w) ∨ fastAlone E (.instChk an cls) v = .ok w := by
        by_cases ht : cls.isTypeType = true <;> simp [ht] at h
        · exact Or.inl ⟨ht, h⟩
        · exact Or.inr h
      obtain ⟨h1, rfl⟩ := fast_check_ok E an cls v w h'
      refine ⟨?_, Or.inl rfl⟩
      rcases h1 with ⟨ha, hn⟩ | hi <;> simp_all [inDomain]
    · simp [hm] at h
      simp only [fastAlone, hm, if_false] at h
      by_cases hn : v.isNone = true
      · simp only [hn, if_true] at h
        have := ite_ok h
        obtain ⟨ha, rfl⟩ := this
        exact ⟨by simp [inDomain, ha, hn], Or.inl rfl⟩
      · simp only [hn] at h
        cases had : E.adapt v cls with
        | error e => simp [had] at h
        | ok o =>
          cases o with
          | some r =>
            simp [had] at h; subst h
            have hm1 : mode ≥ 1 := by omega
            refine ⟨?_, Or.inr (Or.inl ⟨hm1, had⟩)⟩
            have hnn := hE.adaptNotNone _ _ _ had
            rcases hE.adaptProvides _ _ _ had with hi | hp <;> simp_all [inDomain]
          | none =>
            simp only [had] at h
            by_cases hi : Val.isInst cls v = true
            · simp [hi] at h; subst h; exact ⟨by simp [inDomain, hi, hn], Or.inl rfl⟩
            · simp only [hi] at h
              by_cases hm1 : mode = 1
              · simp [hm1] at h
              · simp [hm1] at h; subst h
                have hm2 : mode ≥ 2 := by omega
                exact ⟨by simp [inDomain, hm2], Or.inr (Or.inr ⟨hm2, rfl⟩)⟩


theorem hasPy_false_atomic (t : TraitType) (v : Val) (hs : t.subs = none) (hn : t.isNoFast = false)
    (hp : hasPy t = false) : pyValidate E t v = .raised .typeError := by
  cases t <;> simp [TraitType.subs, TraitType.isNoFast] at hs hn <;> simp [hasPy] at hp <;> simp [pyValidate]

/-- The Python validate of a leaf is sound too (through agreement with the
compiled validator where there is one). -/
theorem sound_atomic_py (hE : EnvOK E) (t : TraitType) (hs : t.subs = none) (hn : t.isNoFast = false)
    (hc : t.soundLeaf = true) (hlc : t.leafClean = true) (v w : Val) (h : pyValidate E t v = .ok w) :
    Good E t v w := by
  apply sound_atomic_ctrait E hE t hs hn hc v w
  by_cases hp : hasPy t = true
  · cases hd : descOf E t with
    | none => simp [ctraitValidate, ctraitValidateWith, hd, hp, h]
    | some d =>
      have hl : t.isLeaf = true := by cases t <;> simp [TraitType.subs] at hs <;> rfl
      have hnt : (∃ items, t = .tuple items) → v.notTupleSub = true := by
        rintro ⟨items, rfl⟩; simp [TraitType.subs] at hs
      have := agree_leaf E hE.castIdem t d v hl hlc hd hp hnt
      rw [h] at this
      simp [ctraitValidate, ctraitValidateWith, hd]
      exact this
  · have := hasPy_false_atomic E t v hs hn (by simpa using hp)
    rw [this] at h; cases h

/-! ## Through tuples, unions and compounds -/

mutual
/-- Nothing, at any depth, stores values outside the declared domain:
no TraitCoerceType(float / complex) (F42), and a Base* class only of a trait
whose Python validate is itself clean. -/
def TraitType.soundClean : TraitType → Bool
  | .tuple items => soundCleanL items
  | .baseTuple items => soundCleanL items
  | .validatedTuple items _ => soundCleanL items
  | .either alts _ => soundCleanL alts
  | .union alts => soundCleanL alts
  | .compoundH hs => soundCleanL hs
  | .noFast t => t.soundClean && t.pyClean && hasPy t
  | t => t.soundLeaf
def soundCleanL : List TraitType → Bool
  | [] => true
  | t :: ts => t.soundClean && soundCleanL ts
/-- The Python validate methods involved are clean (no Callable(allow_none=False),
F40; none of the leaves whose Python method differs from the C validator). -/
def TraitType.pyClean : TraitType → Bool
  | .tuple _ => true
  | .baseTuple _ => true
  | .validatedTuple .. => true
  | .either alts _ => pyCleanL alts
  | .union _ => true
  | .compoundH hs => pyCleanL hs
  | .noFast t => t.pyClean
  | t => t.leafClean
def pyCleanL : List TraitType → Bool
  | [] => true
  | t :: ts => t.pyClean && pyCleanL ts
end

/-- The entries a descriptor contributes to an enclosing compound. -/
def Desc.entries : Desc → List Desc
  | .complex ds => ds
  | d => [d]

theorem good_any_of_mem (ts : List TraitType) (t : TraitType) (v w : Val) (hm : t ∈ ts)
    (hg : Good E t v w) : inDomainAny E ts w = true ∧ ConvAny E ts v w := by
  induction ts with
  | nil => simp at hm
  | cons a as ih =>
    rcases List.mem_cons.mp hm with rfl | h
    · exact ⟨by simp [inDomainAny, hg.1], Or.inl hg.2⟩
    · obtain ⟨h1, h2⟩ := ih h
      exact ⟨by simp [inDomainAny, h1], Or.inr h2⟩

def SoundP (t : TraitType) : Prop :=
  (t.soundClean = true → ∀ d v w x, descOf E t = some d → x ∈ d.entries → altAlone E x v = .ok w → Good E t v w) ∧
  (t.soundClean = true → ∀ v w, ctraitValidate E t v = .ok w → Good E t v w) ∧
  (t.soundClean = true → t.pyClean = true → ∀ v w, pyValidate E t v = .ok w → Good E t v w)

def SoundQ (ts : List TraitType) : Prop :=
  (soundCleanL ts = true → ∀ v w x, x ∈ flatFast E ts → altAlone E x v = .ok w → ∃ t ∈ ts, Good E t v w) ∧
  (soundCleanL ts = true → ∀ v w, pySel E false ts v = .ok w → ∃ t ∈ ts, Good E t v w) ∧
  (soundCleanL ts = true → pyCleanL ts = true → ∀ v w, pySel E true ts v = .ok w → ∃ t ∈ ts, Good E t v w) ∧
  (soundCleanL ts = true → ∀ v w, unionFirst E ts v = .ok w → ∃ t ∈ ts, Good E t v w) ∧
  (soundCleanL ts = true → ∀ vs ws, ctraitValidateL E ts vs = .ok ws → ts.length = vs.length →
      inDomainL E ts ws = true ∧ ConvL E ts vs ws)

theorem soundQ_nil : SoundQ E [] := by
  refine ⟨?_, ?_, ?_, ?_, ?_⟩
  · intro _ v w x hx; simp [flatFast] at hx
  · intro _ v w h; simp [pySel] at h
  · intro _ _ v w h; simp [pySel] at h
  · intro _ v w h; simp [unionFirst] at h
  · intro _ vs ws h hl
    cases vs with
    | nil => simp [ctraitValidateL] at h; subst h; exact ⟨rfl, trivial⟩
    | cons b bs => simp at hl


theorem hasPy_false_raises : ∀ (t : TraitType) (v : Val), hasPy t = false → pyValidate E t v = .raised .typeError :=
  TraitType.induct' (P := fun t => ∀ v, hasPy t = false → pyValidate E t v = .raised .typeError)
    (Q := fun _ => True)
    (fun t hs hn v hp => hasPy_false_atomic E t v hs hn hp)
    (fun t ih v hp => by simpa [pyValidate] using ih v (by simpa [hasPy] using hp))
    (fun t ts hs _ v hp => by cases t <;> simp [TraitType.subs] at hs <;> simp [hasPy] at hp)
    trivial (fun _ _ _ _ => trivial)

theorem flatFast_cons (t : TraitType) (ts : List TraitType) :
    flatFast E (t :: ts) = (match descOf E t with | some d => d.entries | none => []) ++ flatFast E ts := by
  cases hd : descOf E t with
  | none => simp [flatFast, hd]
  | some d => cases d <;> simp [flatFast, hd, Desc.entries]

theorem ctraitValidate_of_none (t : TraitType) (v : Val) (hd : descOf E t = none) (hp : hasPy t = true) :
    ctraitValidate E t v = pyValidate E t v := by
  simp [ctraitValidate, ctraitValidateWith, hd, hp]

theorem soundQ_cons (t : TraitType) (ts : List TraitType) (hP : SoundP E t) (hQ : SoundQ E ts) :
    SoundQ E (t :: ts) := by
  obtain ⟨p1, p2, p3⟩ := hP
  obtain ⟨q1, q2, q3, q4, q5⟩ := hQ
  refine ⟨?_, ?_, ?_, ?_, ?_⟩
  · intro hc v w x hx hok
    simp only [soundCleanL, Bool.and_eq_true] at hc
    rw [flatFast_cons, List.mem_append] at hx
    rcases hx with hx | hx
    · cases hd : descOf E t with
      | none => simp [hd] at hx
      | some d =>
        simp only [hd] at hx
        exact ⟨t, by simp, p1 hc.1 d v w x hd hx hok⟩
    · obtain ⟨t', hm, hg⟩ := q1 hc.2 v w x hx hok
      exact ⟨t', by simp [hm], hg⟩
  · intro hc v w h
    simp only [soundCleanL, Bool.and_eq_true] at hc
    simp only [pySel] at h
    cases hd : descOf E t with
    | some d =>
      simp [hd] at h
      obtain ⟨t', hm, hg⟩ := q2 hc.2 v w h
      exact ⟨t', by simp [hm], hg⟩
    | none =>
      have hct : (if (false || hasPy t) = true then pyValidate E t v else Res.ok v) = ctraitValidate E t v := by
        simp [ctraitValidate, ctraitValidateWith, hd]
      simp only [hd, Option.isSome_none, beq_self_eq_true, if_true, hct] at h
      cases hr : ctraitValidate E t v with
      | traitError =>
        simp only [hr] at h
        obtain ⟨t', hm, hg⟩ := q2 hc.2 v w h
        exact ⟨t', by simp [hm], hg⟩
      | raised e => simp [hr] at h
      | ok x =>
        simp [hr] at h; subst h
        exact ⟨t, by simp, p2 hc.1 v x hr⟩
  · intro hc hpc v w h
    simp only [soundCleanL, pyCleanL, Bool.and_eq_true] at hc hpc
    simp only [pySel] at h
    cases hd : descOf E t with
    | none =>
      simp [hd] at h
      obtain ⟨t', hm, hg⟩ := q3 hc.2 hpc.2 v w h
      exact ⟨t', by simp [hm], hg⟩
    | some d =>
      simp only [hd, Option.isSome_some, beq_self_eq_true, if_true] at h
      cases hpy : pyValidate E t v with
      | traitError =>
        simp only [hpy] at h
        obtain ⟨t', hm, hg⟩ := q3 hc.2 hpc.2 v w h
        exact ⟨t', by simp [hm], hg⟩
      | raised e => simp [hpy] at h
      | ok x =>
        simp [hpy] at h; subst h
        exact ⟨t, by simp, p3 hc.1 hpc.1 v x hpy⟩
  · intro hc v w h
    simp only [soundCleanL, Bool.and_eq_true] at hc
    simp only [unionFirst] at h
    have hct : ctraitValidateWith E (descOf E t) (hasPy t) (fun x => pyValidate E t x) v = ctraitValidate E t v := rfl
    rw [hct] at h
    cases hr : ctraitValidate E t v with
    | traitError =>
      simp only [hr] at h
      obtain ⟨t', hm, hg⟩ := q4 hc.2 v w h
      exact ⟨t', by simp [hm], hg⟩
    | raised e => simp [hr] at h
    | ok x =>
      simp [hr] at h; subst h
      exact ⟨t, by simp, p2 hc.1 v x hr⟩
  · intro hc vs ws h hl
    simp only [soundCleanL, Bool.and_eq_true] at hc
    cases vs with
    | nil => simp at hl
    | cons b bs =>
      simp only [ctraitValidateL] at h
      have hct : ctraitValidateWith E (descOf E t) (hasPy t) (fun x => pyValidate E t x) b = ctraitValidate E t b := rfl
      rw [hct] at h
      cases hr : ctraitValidate E t b with
      | traitError => simp [hr] at h
      | raised e => simp [hr] at h
      | ok a =>
        simp only [hr] at h
        cases hrest : ctraitValidateL E ts bs with
        | error x => simp [hrest] at h
        | ok as =>
          simp [hrest] at h; subst h
          have hg := p2 hc.1 b a hr
          obtain ⟨h1, h2⟩ := q5 hc.2 bs as hrest (by simpa using hl)
          exact ⟨by simp [inDomainL, hg.1, h1], ⟨hg.2, h2⟩⟩


theorem soundP_atomic (hE : EnvOK E) (t : TraitType) (hs : t.subs = none) (hn : t.isNoFast = false) :
    SoundP E t := by
  have hsc : t.soundClean = t.soundLeaf := by
    cases t <;> simp [TraitType.subs, TraitType.isNoFast] at hs hn <;> rfl
  have hpc : t.pyClean = t.leafClean := by
    cases t <;> simp [TraitType.subs, TraitType.isNoFast] at hs hn <;> rfl
  refine ⟨?_, ?_, ?_⟩
  · intro hc d v w x hd hx hok
    have ha := descOf_leaf_shape E t d hs hd
    have hx' : x = d := by
      cases d <;> simp [Desc.isAlt] at ha <;> simpa [Desc.entries] using hx
    subst hx'
    rw [altAlone_of_isAlt E x v ha] at hok
    exact sound_atomic_ctrait E hE t hs hn (hsc ▸ hc) v w
      (by simp [ctraitValidate, ctraitValidateWith, hd, hok])
  · intro hc v w h
    exact sound_atomic_ctrait E hE t hs hn (hsc ▸ hc) v w h
  · intro hc hp v w h
    exact sound_atomic_py E hE t hs hn (hsc ▸ hc) (hpc ▸ hp) v w h

theorem soundP_noFast (t : TraitType) (hP : SoundP E t) : SoundP E (.noFast t) := by
  obtain ⟨_, _, p3⟩ := hP
  have hgood : ∀ v w, Good E t v w → Good E (.noFast t) v w := by
    intro v w hg; exact ⟨by simpa [inDomain] using hg.1, by simpa [Conv] using hg.2⟩
  refine ⟨?_, ?_, ?_⟩
  · intro _ d v w x hd; simp [descOf] at hd
  · intro hc v w h
    simp only [TraitType.soundClean, Bool.and_eq_true] at hc
    have : ctraitValidate E (.noFast t) v = pyValidate E t v := by
      simp [ctraitValidate, ctraitValidateWith, descOf, hasPy, hc.2, pyValidate]
    rw [this] at h
    exact hgood v w (p3 hc.1.1 hc.1.2 v w h)
  · intro hc hp v w h
    simp only [TraitType.soundClean, Bool.and_eq_true] at hc
    simp only [pyValidate] at h
    exact hgood v w (p3 hc.1.1 (by simpa [TraitType.pyClean] using hp) v w h)

theorem tuple_fast_ok (items : List TraitType) (v w : Val)
    (h : fastAlone E (.tuple (ctraitDescL E items)) v = .ok w) :
    ∃ sub vs sub' ws, v = .tuple sub vs ∧ w = .tuple sub' ws ∧ items.length = vs.length ∧
      ctraitValidateL E items vs = .ok ws := by
  simp only [fastAlone] at h
  rcases v with a | ⟨sub, vs⟩ | vs
  · simp [tupleCheckWith] at h
  · simp only [tupleCheckWith, ctraitDescL_length, tupleItems_ctrait] at h
    by_cases hl : items.length = vs.length
    · simp only [hl, if_true] at h
      cases hr : ctraitValidateL E items vs with
      | error x => cases x <;> simp [hr] at h
      | ok ws =>
        simp only [hr] at h
        by_cases hb : Val.beqL ws vs = true
        · simp [hb] at h; subst h
          have := (Val.beqL_iff ws vs).mp hb
          exact ⟨sub, vs, sub, vs, rfl, rfl, hl, this ▸ hr⟩
        · simp [hb] at h; subst h
          exact ⟨sub, vs, false, ws, rfl, rfl, hl, hr⟩
    · simp [hl] at h
  · simp [tupleCheckWith] at h

theorem soundP_tuple (items : List TraitType) (hQ : SoundQ E items) : SoundP E (.tuple items) := by
  obtain ⟨_, _, _, _, q5⟩ := hQ
  have hd0 : descOf E (.tuple items) = some (.tuple (ctraitDescL E items)) := by simp [descOf]
  have hfast : ∀ v w, soundCleanL items = true → fastAlone E (.tuple (ctraitDescL E items)) v = .ok w →
      Good E (.tuple items) v w := by
    intro v w hc h
    obtain ⟨sub, vs, sub', ws, rfl, rfl, hl, hr⟩ := tuple_fast_ok E items _ _ h
    obtain ⟨h1, h2⟩ := q5 hc vs ws hr hl
    exact ⟨by simpa [inDomain] using h1, by simpa [Conv] using h2⟩
  refine ⟨?_, ?_, ?_⟩
  · intro hc d v w x hd hx hok
    rw [hd0] at hd; cases hd
    simp [Desc.entries] at hx; subst hx
    exact hfast v w (by simpa [TraitType.soundClean] using hc) (by simpa [altAlone] using hok)
  · intro hc v w h
    exact hfast v w (by simpa [TraitType.soundClean] using hc)
      (by simpa [ctraitValidate, ctraitValidateWith, hd0] using h)
  · intro hc _ v w h
    simp only [pyValidate] at h
    rcases v with a | ⟨sub, vs⟩ | vs
    · simp at h
    · simp only at h
      by_cases hl : vs.length = items.length
      · simp only [hl, if_true] at h
        cases hr : ctraitValidateL E items vs with
        | error x => cases x <;> simp [hr] at h
        | ok ws =>
          simp [hr] at h; subst h
          obtain ⟨h1, h2⟩ := q5 (by simpa [TraitType.soundClean] using hc) vs ws hr hl.symm
          exact ⟨by simpa [inDomain] using h1, by simpa [Conv] using h2⟩
      · simp [hl] at h
    · simp at h

theorem soundP_baseTuple (items : List TraitType) (hQ : SoundQ E items) : SoundP E (.baseTuple items) := by
  obtain ⟨_, _, _, _, q5⟩ := hQ
  have hpy : ∀ v w, soundCleanL items = true → pyValidate E (.baseTuple items) v = .ok w →
      Good E (.baseTuple items) v w := by
    intro v w hc h
    simp only [pyValidate] at h
    rcases v with a | ⟨sub, vs⟩ | vs
    · simp at h
    · simp only at h
      by_cases hl : vs.length = items.length
      · simp only [hl, if_true] at h
        cases hr : ctraitValidateL E items vs with
        | error x => simp [hr] at h
        | ok ws =>
          simp [hr] at h; subst h
          obtain ⟨h1, h2⟩ := q5 hc vs ws hr hl.symm
          exact ⟨by simpa [inDomain] using h1, by simpa [Conv] using h2⟩
      · simp [hl] at h
    · simp only at h
      by_cases hl : vs.length = items.length
      · simp only [hl, if_true] at h
        cases hr : ctraitValidateL E items vs with
        | error x => simp [hr] at h
        | ok ws =>
          simp [hr] at h; subst h
          obtain ⟨h1, h2⟩ := q5 hc vs ws hr hl.symm
          exact ⟨by simpa [inDomain] using h1, by simpa [Conv] using h2⟩
      · simp [hl] at h
  refine ⟨?_, ?_, ?_⟩
  · intro _ d v w x hd; simp [descOf] at hd
  · intro hc v w h
    exact hpy v w (by simpa [TraitType.soundClean] using hc)
      (by simpa [ctraitValidate, ctraitValidateWith, descOf, hasPy] using h)
  · intro hc _ v w h
    exact hpy v w (by simpa [TraitType.soundClean] using hc) h

theorem soundP_validatedTuple (items : List TraitType) (fv : Option Nat) (hQ : SoundQ E items) :
    SoundP E (.validatedTuple items fv) := by
  obtain ⟨_, _, _, _, q5⟩ := hQ
  have hpy : ∀ v w, soundCleanL items = true → pyValidate E (.validatedTuple items fv) v = .ok w →
      Good E (.validatedTuple items fv) v w := by
    intro v w hc h
    simp only [pyValidate] at h
    -- both the tuple and the list input go through the same element loop
    have key : ∀ vs, (vs.length = items.length) → ∀ ws, ctraitValidateL E items vs = .ok ws →
        (match fv with
          | none => Res.ok (.tuple false ws)
          | some f =>
            match E.pred f (.tuple false ws) with
            | .ok true => Res.ok (.tuple false ws)
            | .ok false => Res.traitError
            | .error e => Res.raised e) = .ok w →
        inDomain E (.validatedTuple items fv) w = true ∧ ConvL E items vs ws ∧ w = .tuple false ws := by
      intro vs hl ws hr hres
      obtain ⟨h1, h2⟩ := q5 hc vs ws hr hl.symm
      cases fv with
      | none => simp at hres; subst hres; exact ⟨by simp [inDomain, h1], h2, rfl⟩
      | some f =>
        simp only at hres
        cases hp : E.pred f (.tuple false ws) with
        | error e => simp [hp] at hres
        | ok b =>
          cases b with
          | false => simp [hp] at hres
          | true => simp [hp] at hres; subst hres; exact ⟨by simp [inDomain, h1, hp], h2, rfl⟩
    rcases v with a | ⟨sub, vs⟩ | vs
    · simp at h
    · simp only at h
      by_cases hl : vs.length = items.length
      · simp only [hl, if_true] at h
        cases hr : ctraitValidateL E items vs with
        | error x => simp [hr] at h
        | ok ws =>
          simp only [hr] at h
          obtain ⟨h1, h2, rfl⟩ := key vs hl ws hr h
          exact ⟨h1, by simpa [Conv] using h2⟩
      · simp [hl] at h
    · simp only at h
      by_cases hl : vs.length = items.length
      · simp only [hl, if_true] at h
        cases hr : ctraitValidateL E items vs with
        | error x => simp [hr] at h
        | ok ws =>
          simp only [hr] at h
          obtain ⟨h1, h2, rfl⟩ := key vs hl ws hr h
          exact ⟨h1, by simpa [Conv] using h2⟩
      · simp [hl] at h
  refine ⟨?_, ?_, ?_⟩
  · intro _ d v w x hd; simp [descOf] at hd
  · intro hc v w h
    exact hpy v w (by simpa [TraitType.soundClean] using hc)
      (by simpa [ctraitValidate, ctraitValidateWith, descOf, hasPy] using h)
  · intro hc _ v w h
    exact hpy v w (by simpa [TraitType.soundClean] using hc) h

theorem soundP_union (alts : List TraitType) (hQ : SoundQ E alts) : SoundP E (.union alts) := by
  obtain ⟨_, _, _, q4, _⟩ := hQ
  have hpy : ∀ v w, soundCleanL alts = true → pyValidate E (.union alts) v = .ok w →
      Good E (.union alts) v w := by
    intro v w hc h
    simp only [pyValidate] at h
    obtain ⟨t, hm, hg⟩ := q4 hc v w h
    obtain ⟨h1, h2⟩ := good_any_of_mem E alts t v w hm hg
    exact ⟨by simpa [inDomain] using h1, by simpa [Conv] using h2⟩
  refine ⟨?_, ?_, ?_⟩
  · intro _ d v w x hd; simp [descOf] at hd
  · intro hc v w h
    exact hpy v w (by simpa [TraitType.soundClean] using hc)
      (by simpa [ctraitValidate, ctraitValidateWith, descOf, hasPy] using h)
  · intro hc _ v w h
    exact hpy v w (by simpa [TraitType.soundClean] using hc) h


theorem pyEq_none_yes (v : Val) (h : Val.pyEq Val.none v = .yes) : v = Val.none := by
  rcases v with a | ⟨sub, vs⟩ | vs
  · cases a <;> simp_all [Val.pyEq, Atom.pyEq, Atom.isNp, Atom.num, Atom.exactInt, Atom.asNpDouble, Atom.npBoolVsBigInt, Atom.ndVsBigInt]
  · simp [Val.pyEq, Atom.isNp] at h
  · simp [Val.pyEq, Atom.isNp] at h

theorem seqContains_none_yes (v : Val) (h : seqContains [Val.none] v = .yes) : v = Val.none := by
  simp only [seqContains] at h
  cases hp : Val.pyEq Val.none v with
  | yes => exact pyEq_none_yes v hp
  | no => simp [hp] at h
  | raises e => simp [hp] at h

theorem pySel_true_all_none (ts : List TraitType) (v : Val) (h : ∀ t ∈ ts, descOf E t = none) :
    pySel E true ts v = .traitError := by
  induction ts with
  | nil => simp [pySel]
  | cons t ts ih =>
    have := h t (by simp)
    simp [pySel, this, ih (fun t' ht' => h t' (by simp [ht']))]

theorem flatFast_nil_all_none (hE : CastIdem E) (ts : List TraitType) (h : flatFast E ts = []) :
    ∀ t ∈ ts, descOf E t = none := by
  induction ts with
  | nil => simp
  | cons t ts ih =>
    rw [flatFast_cons, List.append_eq_nil_iff] at h
    intro t' ht'
    rcases List.mem_cons.mp ht' with rfl | hm
    · cases hd : descOf E t' with
      | none => rfl
      | some d =>
        simp only [hd] at h
        rcases (agreeP_all E hE t').1 d hd with ha | ⟨ds, rfl, _, hne⟩
        · cases d <;> simp [Desc.isAlt] at ha <;> simp [Desc.entries] at h
        · simp [Desc.entries] at h; exact absurd h.1 hne
    · exact ih h.2 t' hm

/-- Either / TraitCompound, given the list facts.  `none` is the `None` member of
Either(…, None) (`wn`); TraitCompound has none. -/
theorem soundP_compound (hE : EnvOK E) (alts : List TraitType) (wn : Bool) (t : TraitType)
    (hQ : SoundQ E alts)
    (hsc : t.soundClean = soundCleanL alts) (hpc : t.pyClean = pyCleanL alts)
    (hpy : ∀ v, pyValidate E t v =
      match pySel E true alts v with
      | .traitError =>
        match (if wn then pyEnumValidate [Val.none] v else Res.traitError) with
        | .traitError => pySel E false alts v
        | r => r
      | r => r)
    (hdesc : ∀ d, descOf E t = some d →
      d = .complex (flatFast E alts ++ ((if wn then [Desc.enum [Val.none]] else []) ++
        (if anySlow E alts then [Desc.slow (fun v => pySel E false alts v)] else []))))
    (hnone : descOf E t = none → wn = false ∧ flatFast E alts = [])
    (hhp : hasPy t = true)
    (hdom : ∀ w, inDomain E t w = (inDomainAny E alts w || (wn && w.isNone)))
    (hconv : ∀ v w, Conv E t v w ↔ (ConvAny E alts v w ∨ (wn = true ∧ w = v))) :
    SoundP E t := by
  obtain ⟨q1, q2, q3, _, _⟩ := hQ
  have lift : ∀ v w, (∃ t' ∈ alts, Good E t' v w) → Good E t v w := by
    rintro v w ⟨t', hm, hg⟩
    obtain ⟨h1, h2⟩ := good_any_of_mem E alts t' v w hm hg
    exact ⟨by simp [hdom, h1], (hconv v w).mpr (Or.inl h2)⟩
  have hnoneGood : ∀ v w, wn = true → seqContains [Val.none] v = .yes → w = v → Good E t v w := by
    intro v w hw hs hwv
    have := seqContains_none_yes v hs
    subst hwv; subst this
    exact ⟨by simp [hdom, hw, Val.isNone], (hconv _ _).mpr (Or.inr ⟨hw, rfl⟩)⟩
  have p1 : t.soundClean = true → ∀ d v w x, descOf E t = some d → x ∈ d.entries →
      altAlone E x v = .ok w → Good E t v w := by
    intro hc d v w x hd hx hok
    rw [hsc] at hc
    rw [hdesc d hd] at hx
    simp only [Desc.entries, List.mem_append] at hx
    rcases hx with hx | hx | hx
    · exact lift v w (q1 hc v w x hx hok)
    · cases wn with
      | false => simp at hx
      | true =>
        simp at hx; subst hx
        simp only [altAlone] at hok
        obtain ⟨h1, h2⟩ := fast_enum_ok E _ v w hok
        exact hnoneGood v w rfl h1 h2
    · by_cases ha : anySlow E alts = true
      · simp [ha] at hx; subst hx
        simp only [altAlone] at hok
        exact lift v w (q2 hc v w hok)
      · simp [ha] at hx
  have p3' : t.soundClean = true → ∀ v w, pySel E true alts v = .traitError →
      pyValidate E t v = .ok w → Good E t v w := by
    intro hc v w hsel h
    rw [hsc] at hc
    rw [hpy v, hsel] at h
    simp only at h
    cases wn with
    | false => simp at h; exact lift v w (q2 hc v w h)
    | true =>
      simp only [if_true, pyEnumValidate] at h
      cases hs : seqContains [Val.none] v with
      | yes => simp [hs] at h; exact hnoneGood v w rfl hs h.symm
      | no => simp [hs] at h; exact lift v w (q2 hc v w h)
      | raises e => simp [hs] at h
  refine ⟨p1, ?_, ?_⟩
  · intro hc v w h
    cases hd : descOf E t with
    | none =>
      obtain ⟨hw, hf⟩ := hnone hd
      rw [ctraitValidate_of_none E t v hd hhp] at h
      exact p3' hc v w (pySel_true_all_none E alts v (flatFast_nil_all_none E hE.castIdem alts hf)) h
    | some d =>
      have hshape := (agreeP_all E hE.castIdem t).1 d hd
      have hd' := hdesc d hd
      have hfa : ctraitValidate E t v = fastAlone E d v := by
        simp [ctraitValidate, ctraitValidateWith, hd]
      rw [hfa] at h
      rcases hshape with ha | ⟨ds, hds, hent, _⟩
      · rw [hd'] at ha; simp [Desc.isAlt] at ha
      · subst hds
        simp only [fastAlone] at h
        rw [fastComplex_first E ds v hent] at h
        obtain ⟨pre, post, heq, _⟩ := (firstAccept_ok_iff _ w).mp h
        have hmem : Res.ok w ∈ ds.map (altAlone E · v) := by rw [heq]; simp
        obtain ⟨x, hx, hxw⟩ := List.mem_map.mp hmem
        exact p1 hc _ v w x hd (by simpa [Desc.entries] using hx) hxw
  · intro hc hp v w h
    cases hsel : pySel E true alts v with
    | traitError => exact p3' hc v w hsel h
    | raised e => rw [hpy v, hsel] at h; simp at h
    | ok x =>
      rw [hpy v, hsel] at h
      simp at h; subst h
      exact lift v x (q3 (hsc ▸ hc) (hpc ▸ hp) v x hsel)


theorem descOf_either_none (alts : List TraitType) (wn : Bool) (h : descOf E (.either alts wn) = none) :
    wn = false ∧ flatFast E alts = [] := by
  simp only [descOf] at h
  cases hf : flatFast E alts ++ (if wn then [Desc.enum [Val.none]] else []) with
  | nil =>
    have := List.append_eq_nil_iff.mp hf
    cases wn <;> simp_all
  | cons x xs => simp [hf] at h

theorem soundP_either (hE : EnvOK E) (alts : List TraitType) (wn : Bool) (hQ : SoundQ E alts) :
    SoundP E (.either alts wn) :=
  soundP_compound E hE alts wn (.either alts wn) hQ rfl rfl
    (fun v => by
      simp only [pyValidate]
      cases pySel E true alts v <;> try rfl
      all_goals (cases wn <;> simp)
      all_goals (try (cases pyEnumValidate [Val.none] v <;> simp))
      all_goals (try (cases pySel E false alts v <;> rfl)))
    (fun d hd => descOf_either_eq E alts wn d hd)
    (descOf_either_none E alts wn) rfl
    (fun w => by simp [inDomain])
    (fun v w => by simp [Conv])

theorem soundP_compoundH (hE : EnvOK E) (hs : List TraitType) (hQ : SoundQ E hs) :
    SoundP E (.compoundH hs) :=
  soundP_compound E hE hs false (.compoundH hs) hQ rfl rfl
    (fun v => by
      simp only [pyValidate]
      cases pySel E true hs v <;> try rfl
      all_goals (try simp)
      all_goals (try (cases pySel E false hs v <;> rfl)))
    (fun d hd => by
      simp only [descOf] at hd
      cases hf : flatFast E hs with
      | nil => simp [hf] at hd
      | cons x xs =>
        simp only [hf] at hd
        simp only [Option.some.injEq] at hd
        simp [← hd])
    (fun h => by
      simp only [descOf] at h
      cases hf : flatFast E hs with
      | nil => exact ⟨rfl, rfl⟩
      | cons x xs => simp [hf] at h)
    rfl
    (fun w => by simp [inDomain])
    (fun v w => by simp [Conv])

/-- Soundness of validation for every trait type of the model. -/
theorem soundP_all (hE : EnvOK E) : ∀ t, SoundP E t :=
  TraitType.induct' (P := SoundP E) (Q := SoundQ E)
    (fun t hs hn => soundP_atomic E hE t hs hn)
    (fun t ih => soundP_noFast E t ih)
    (fun t ts hs hQ => by
      cases t <;> simp [TraitType.subs] at hs
      case tuple items => subst hs; exact soundP_tuple E items hQ
      case baseTuple items => subst hs; exact soundP_baseTuple E items hQ
      case validatedTuple items fv => subst hs; exact soundP_validatedTuple E items fv hQ
      case either alts wn => subst hs; exact soundP_either E hE alts wn hQ
      case union alts => subst hs; exact soundP_union E alts hQ
      case compoundH hs' => subst hs; exact soundP_compoundH E hE hs' hQ)
    (soundQ_nil E) (soundQ_cons E)

end TraitsVerif.Model.Val
