/-
Soundness of validation with respect to the declared domain (C01_sound): what a
validator accepts lies in `inDomain` and is the documented conversion `Conv`.
-/
import TraitsVerif.Lemmas.ValOrder
import TraitsVerif.Model.Domain
namespace TraitsVerif.Model.Val
open TraitsVerif TraitsVerif.Py.Value

/-- What the proofs assume about the environment (all facts about CPython /
the adaptation registry / the user functions, checked on every cast-table entry
by the correspondence run). -/
structure EnvOK (E : Env) : Prop where
  castIdem : CastIdem E
  /-- `T(v)` returns an exact `T`. -/
  castTyped : ∀ t v w, E.cast t v = .ok w → Val.exactTy t w = true
  /-- what `adapt` returns offers the protocol. -/
  adaptProvides : ∀ v c r, E.adapt v c = .ok (some r) → Val.isInst c r = true ∨ E.provides r c = true
  fnRange : ∀ f v w, E.fn f v = .ok w → E.fnRange f w = true

/-- Accepted ⇒ in the domain and the documented conversion. -/
def Good (E : Env) (t : TraitType) (v w : Val) : Prop := inDomain E t w = true ∧ Conv E t v w

theorem seqContains_yes_isMember (vals : List Val) (v : Val) (h : seqContains vals v = .yes) :
    isMember vals v = true := by
  induction vals with
  | nil => simp [seqContains] at h
  | cons m ms ih =>
    simp only [seqContains] at h
    cases hm : Val.pyEq m v with
    | yes => simp [isMember, hm]
    | no => simp [hm] at h; simp [isMember, hm]; simpa [isMember] using ih h
    | raises e => simp [hm] at h

theorem dictFind_some_isKey (keys : List Val) (v : Val) (i : Nat) (h : dictFind keys v = .ok (some i)) :
    isKey keys v = true := by
  unfold dictFind at h
  by_cases hh : v.hashable = true
  · simp [hh] at h
    have := List.findIdx?_eq_some_iff_getElem.mp h
    obtain ⟨hi, hp, _⟩ := this
    simp only [isKey, hh, Bool.true_and, List.any_eq_true]
    exact ⟨keys[i], List.getElem_mem hi, hp⟩
  · simp [hh] at h

theorem pyInRangeF_eq (lo hi : Option F) (a b : Bool) (x : F) :
    pyInRangeF lo hi a b x = inRangeF lo hi a b x := by
  cases a <;> cases b <;> cases lo <;> cases hi <;> simp [pyInRangeF, inRangeF, F.gt, F.ge]

theorem pyInRangeI_eq (lo hi : Option Int) (a b : Bool) (x : Int) :
    pyInRangeI lo hi a b x = inRangeI lo hi a b x := by
  cases a <;> cases b <;> cases lo <;> cases hi <;> simp [pyInRangeI, inRangeI]

theorem asInteger_ok (v w : Val) (h : asInteger v = .ok w) :
    Val.exactTy .int w = true ∧ ∃ n, index v = .ok n ∧ w = Val.ofInt n := by
  unfold asInteger at h
  split at h
  · cases h; exact ⟨rfl, _, rfl, rfl⟩
  · cases hi : index v with
    | error e => simp [hi] at h
    | ok n => simp [hi] at h; subst h; exact ⟨rfl, n, rfl, rfl⟩

theorem validateFloat_ok (v w : Val) (h : validateFloat v = .ok w) :
    Val.exactTy .float w = true ∧ ConvFloat v w ∧ w = Val.ofFloat (floatOf w) := by
  unfold validateFloat at h
  split at h
  · cases h; exact ⟨rfl, Or.inl ⟨rfl, rfl⟩, rfl⟩
  · cases hi : asDouble v with
    | error e => simp [hi] at h
    | ok f => simp [hi] at h; subst h; exact ⟨rfl, Or.inr ⟨f, hi, rfl⟩, rfl⟩

theorem validateComplex_ok (v w : Val) (h : validateComplexNumber v = .ok w) :
    Val.exactTy .complex w = true ∧
    ((Val.exactTy .complex v = true ∧ w = v) ∨ ∃ re im, asComplex v = .ok (re, im) ∧ w = Val.ofComplex re im) := by
  unfold validateComplexNumber at h
  split at h
  · cases h; exact ⟨rfl, Or.inl ⟨rfl, rfl⟩⟩
  · cases hi : asComplex v with
    | error e => simp [hi] at h
    | ok z => obtain ⟨re, im⟩ := z; simp [hi] at h; subst h; exact ⟨rfl, Or.inr ⟨re, im, rfl, rfl⟩⟩


/-- Leaves on which the compiled path is known to store values outside the
declared domain: TraitCoerceType(float / complex) (finding F42). -/
def TraitType.soundLeaf : TraitType → Bool
  | .coerceH ty => (coerceRest ty).isEmpty
  | _ => true

variable (E : Env)

theorem fast_int_ok (v w : Val) (h : fastAlone E .int v = .ok w) : asInteger v = .ok w := by
  simp only [fastAlone] at h
  cases hr : asInteger v with
  | ok x => simp [hr] at h; simp [h]
  | error e => cases e <;> simp [hr] at h

theorem fast_float_ok (v w : Val) (h : fastAlone E .float v = .ok w) : validateFloat v = .ok w := by
  simp only [fastAlone] at h
  cases hr : validateFloat v with
  | ok x => simp [hr] at h; simp [h]
  | error e => cases e <;> simp [hr] at h

theorem fast_complex_ok (v w : Val) (h : fastAlone E .complexNumber v = .ok w) :
    validateComplexNumber v = .ok w := by
  simp only [fastAlone] at h
  cases hr : validateComplexNumber v with
  | ok x => simp [hr] at h; simp [h]
  | error e => cases e <;> simp [hr] at h

theorem fast_range_ok (lo hi : Option F) (m : Nat) (v w : Val) (h : fastAlone E (.floatRange lo hi m) v = .ok w) :
    validateFloat v = .ok w ∧ inFloatRange (floatOf w) lo hi m = true := by
  simp only [fastAlone] at h
  cases hr : validateFloat v with
  | error e => cases e <;> simp [hr] at h
  | ok x =>
    simp only [hr] at h
    by_cases hi' : inFloatRange (floatOf x) lo hi m = true
    · simp [hi'] at h; subst h; exact ⟨rfl, hi'⟩
    · simp [hi'] at h

theorem fast_coerce_nil_ok (ty : Ty) (v w : Val) (h : fastAlone E (.coerce ty []) v = .ok w) :
    Val.isInst ty v = true ∧ w = v := by
  simp only [fastAlone, coerceScan, coerceAny] at h
  by_cases hi : Val.isInst ty v = true
  · simp [hi] at h; exact ⟨hi, h.symm⟩
  · simp [hi] at h

theorem fast_cast_ok (ty : Ty) (v w : Val) (h : fastAlone E (.cast ty) v = .ok w) :
    (Val.exactTy ty v = true ∧ w = v) ∨ E.cast ty v = .ok w := by
  simp only [fastAlone] at h
  by_cases hx : Val.exactTy ty v = true
  · simp [hx] at h; exact Or.inl ⟨hx, h.symm⟩
  · simp [hx] at h
    cases hc : E.cast ty v with
    | ok x => simp [hc] at h; exact Or.inr (by simp [h])
    | error e => simp [hc] at h

theorem fast_enum_ok (vals : List Val) (v w : Val) (h : fastAlone E (.enum vals) v = .ok w) :
    seqContains vals v = .yes ∧ w = v := by
  simp only [fastAlone] at h
  cases hs : seqContains vals v <;> simp [hs] at h
  exact ⟨rfl, h.symm⟩

theorem fast_map_ok (keys : List Val) (v w : Val) (h : fastAlone E (.map keys) v = .ok w) :
    (∃ i, dictFind keys v = .ok (some i)) ∧ w = v := by
  simp only [fastAlone] at h
  cases hs : dictFind keys v with
  | error e => simp [hs] at h
  | ok o =>
    cases o with
    | none => simp [hs] at h
    | some i => simp [hs] at h; exact ⟨⟨i, rfl⟩, h.symm⟩

theorem fast_check_ok (an : Bool) (ty : Ty) (v w : Val)
    (h : fastAlone E (.typeChk an ty) v = .ok w ∨ fastAlone E (.instChk an ty) v = .ok w) :
    ((an = true ∧ v.isNone = true) ∨ Val.isInst ty v = true) ∧ w = v := by
  rcases h with h | h <;> simp only [fastAlone] at h <;> split at h <;> simp_all

theorem isInst_bool_exact (v : Val) (h : Val.isInst .bool v = true) : Val.exactTy .bool v = true := by
  rcases v with a | ⟨sub, vs⟩ | vs
  · cases a <;> simp_all [Val.exactTy, Val.isInst]
  · simp_all [Val.isInst]
  · simp_all [Val.isInst]

theorem exactTy_str (w : Val) (h : Val.exactTy .str w = true) : ∃ s, w = .atom (.str false s) := by
  rcases w with a | ⟨sub, vs⟩ | vs
  · cases a <;> simp_all [Val.exactTy]
    case str sub s => cases sub <;> simp_all [Val.exactTy]
  · simp_all [Val.exactTy]
  · simp_all [Val.exactTy]

/-! ### Python-only leaves -/

theorem py_rangeI_ok (lo hi : Option Int) (a b : Bool) (v w : Val)
    (h : pyValidate E (.rangeI lo hi a b) v = .ok w) : Good E (.rangeI lo hi a b) v w := by
  simp only [pyValidate, ← asInteger_eq_py] at h
  cases hr : asInteger v with
  | error e => cases e <;> simp [hr] at h
  | ok x =>
    simp only [hr] at h
    by_cases hi' : pyInRangeI lo hi a b (intOf x) = true
    · simp [hi'] at h; subst h
      obtain ⟨h1, n, h2, rfl⟩ := asInteger_ok v x hr
      refine ⟨?_, n, h2, rfl⟩
      simp only [inDomain, Val.ofInt]
      rw [← pyInRangeI_eq]; simpa [intOf, Val.ofInt] using hi'
    · simp [hi'] at h

theorem py_tupleAny_ok (v w : Val) (h : pyValidate E .tupleAny v = .ok w) : Good E .tupleAny v w := by
  simp only [pyValidate] at h
  rcases v with a | ⟨sub, vs⟩ | vs
  · simp at h
  · simp at h; subst h; exact ⟨by simp [inDomain, Val.isInst], Or.inl rfl⟩
  · simp at h; subst h; exact ⟨by simp [inDomain, Val.isInst], Or.inr ⟨vs, rfl, rfl⟩⟩

theorem py_type_ok (cls : Ty) (an : Bool) (v w : Val) (h : pyValidate E (.type_ cls an) v = .ok w) :
    Good E (.type_ cls an) v w := by
  simp only [pyValidate] at h
  cases hs : isSubclass v cls with
  | none =>
    simp only [hs] at h
    by_cases hn : (v.isNone && an) = true
    · simp [hn] at h; subst h
      simp only [Bool.and_eq_true] at hn
      exact ⟨by simp [inDomain, hn.1, hn.2], rfl⟩
    · simp [hn] at h
  | some b =>
    cases b with
    | true => simp [hs] at h; subst h; exact ⟨by simp [inDomain, hs], rfl⟩
    | false => simp [hs] at h

theorem py_none_ok (v w : Val) (h : pyValidate E .noneTrait v = .ok w) : Good E .noneTrait v w := by
  simp only [pyValidate] at h
  by_cases hn : v.isNone = true
  · simp [hn] at h; subst h; exact ⟨by simp [inDomain, hn], rfl⟩
  · simp [hn] at h

theorem py_string_ok (hE : EnvOK E) (mn : Nat) (mx re : Option Nat) (v w : Val)
    (h : pyValidate E (.string mn mx re) v = .ok w) : Good E (.string mn mx re) v w := by
  simp only [pyValidate, stringValidate] at h
  split at h
  · cases hcast : E.cast .str v with
    | error e => simp [hcast] at h
    | ok x =>
      simp only [hcast] at h
      obtain ⟨s, rfl⟩ := exactTy_str x (hE.castTyped _ _ _ hcast)
      simp only [strOf] at h
      cases re with
      | none =>
        cases mx with
        | none =>
          by_cases hm : mn = 0
          · subst hm; simp at h; subst h
            exact ⟨by simp [inDomain], hcast⟩
          · have : (mn == 0) = false := by simpa using hm
            simp [this] at h
            obtain ⟨h1, rfl⟩ := h
            exact ⟨by simp [inDomain, h1], hcast⟩
        | some m =>
          simp at h
          obtain ⟨h1, rfl⟩ := h
          exact ⟨by simp [inDomain, h1.1, h1.2], hcast⟩
      | some k =>
        cases mx with
        | none =>
          by_cases hm : mn = 0
          · subst hm; simp at h
            obtain ⟨h1, rfl⟩ := h
            exact ⟨by simp [inDomain, h1], hcast⟩
          · have : (mn == 0) = false := by simpa using hm
            simp [this] at h
            obtain ⟨h1, rfl⟩ := h
            exact ⟨by simp [inDomain, h1.1, h1.2], hcast⟩
        | some m =>
          simp at h
          obtain ⟨h1, rfl⟩ := h
          exact ⟨by simp [inDomain, h1.1.1, h1.1.2, h1.2], hcast⟩
  · simp at h

theorem completeValue_ok (keys : List String) (v w : Val) (s : String) (hs : strOf v = some s)
    (h : completeValue keys v s = .ok w) :
    (∃ s', strOf w = some s' ∧ keys.contains s' = true) ∧
    (w = v ∨ ∃ s k, strOf v = some s ∧ keys.filter (fun k => s.isPrefixOf k) = [k] ∧ w = Val.ofStr k) := by
  unfold completeValue at h
  by_cases hc : keys.contains s = true
  · simp [hc] at h; subst h
    exact ⟨⟨s, hs, hc⟩, Or.inl rfl⟩
  · simp only [hc] at h
    split at h
    · rename_i k hk
      simp at h; subst h
      have hmem : k ∈ keys.filter (fun k => s.isPrefixOf k) := by simp [hk]
      refine ⟨⟨k, rfl, ?_⟩, Or.inr ⟨s, k, hs, hk, rfl⟩⟩
      simpa using (List.mem_filter.mp hmem).1
    · simp at h

theorem py_prefixList_ok (vals : List String) (v w : Val) (h : pyValidate E (.prefixList vals) v = .ok w) :
    Good E (.prefixList vals) v w := by
  simp only [pyValidate] at h
  cases hs : strOf v with
  | none => simp [hs] at h
  | some s =>
    simp only [hs] at h
    obtain ⟨⟨s', h1, h2⟩, h3⟩ := completeValue_ok vals v w s hs h
    exact ⟨by simp [inDomain, h1, h2], h3⟩

theorem py_prefixMap_ok (keys : List String) (vals : List Val) (v w : Val)
    (h : pyValidate E (.prefixMap keys vals) v = .ok w) : Good E (.prefixMap keys vals) v w := by
  simp only [pyValidate] at h
  cases hs : strOf v with
  | none => simp [hs] at h
  | some s =>
    simp only [hs] at h
    obtain ⟨⟨s', h1, h2⟩, h3⟩ := completeValue_ok keys v w s hs h
    exact ⟨by simp [inDomain, h1, h2], h3⟩

theorem sound_atomic_ctrait (hE : EnvOK E) (t : TraitType) (hs : t.subs = none) (hn : t.isNoFast = false)
    (hc : t.soundLeaf = true) (v w : Val) (h : ctraitValidate E t v = .ok w) : Good E t v w := by
  cases t <;> simp [TraitType.subs, TraitType.isNoFast] at hs hn <;>
    simp [ctraitValidate, ctraitValidateWith, descOf, hasPy] at h
  case any => subst h; exact ⟨rfl, rfl⟩
  case int =>
    obtain ⟨h1, h2⟩ := asInteger_ok v w (fast_int_ok E v w h)
    exact ⟨h1, h2⟩
  case float =>
    obtain ⟨h1, h2, _⟩ := validateFloat_ok v w (fast_float_ok E v w h)
    exact ⟨h1, h2⟩
  case complex =>
    obtain ⟨h1, h2⟩ := validateComplex_ok v w (fast_complex_ok E v w h)
    exact ⟨h1, h2⟩
  case str => obtain ⟨h1, rfl⟩ := fast_coerce_nil_ok E _ v w h; exact ⟨h1, rfl⟩
  case bytes => obtain ⟨h1, rfl⟩ := fast_coerce_nil_ok E _ v w h; exact ⟨h1, rfl⟩
  case module => obtain ⟨h1, rfl⟩ := fast_coerce_nil_ok E _ v w h; exact ⟨h1, rfl⟩
  case bool =>
    simp only [fastAlone, coerceScan, coerceAny] at h
    by_cases hi : Val.isInst .bool v = true
    · simp [hi] at h; subst h
      exact ⟨isInst_bool_exact v hi, Or.inl ⟨isInst_bool_exact v hi, rfl⟩⟩
    · simp [hi] at h
      by_cases hn : Val.isInst .npBool v = true
      · simp [hn] at h
        cases hcast : E.cast .bool v with
        | ok x => simp [hcast] at h; subst h; exact ⟨hE.castTyped _ _ _ hcast, Or.inr hcast⟩
        | error e => simp [hcast] at h
      · simp [hn] at h
  case cint =>
    rcases fast_cast_ok E _ v w h with ⟨hx, rfl⟩ | hcast
    · exact ⟨hx, Or.inl ⟨hx, rfl⟩⟩
    · exact ⟨hE.castTyped _ _ _ hcast, Or.inr hcast⟩
  case cfloat =>
    rcases fast_cast_ok E _ v w h with ⟨hx, rfl⟩ | hcast
    · exact ⟨hx, Or.inl ⟨hx, rfl⟩⟩
    · exact ⟨hE.castTyped _ _ _ hcast, Or.inr hcast⟩
  case ccomplex =>
    rcases fast_cast_ok E _ v w h with ⟨hx, rfl⟩ | hcast
    · exact ⟨hx, Or.inl ⟨hx, rfl⟩⟩
    · exact ⟨hE.castTyped _ _ _ hcast, Or.inr hcast⟩
  case cstr =>
    rcases fast_cast_ok E _ v w h with ⟨hx, rfl⟩ | hcast
    · exact ⟨hx, Or.inl ⟨hx, rfl⟩⟩
    · exact ⟨hE.castTyped _ _ _ hcast, Or.inr hcast⟩
  case cbytes =>
    rcases fast_cast_ok E _ v w h with ⟨hx, rfl⟩ | hcast
    · exact ⟨hx, Or.inl ⟨hx, rfl⟩⟩
    · exact ⟨hE.castTyped _ _ _ hcast, Or.inr hcast⟩
  case cbool =>
    rcases fast_cast_ok E _ v w h with ⟨hx, rfl⟩ | hcast
    · exact ⟨hx, Or.inl ⟨hx, rfl⟩⟩
    · exact ⟨hE.castTyped _ _ _ hcast, Or.inr hcast⟩
  case castH ty =>
    rcases fast_cast_ok E _ v w h with ⟨hx, rfl⟩ | hcast
    · exact ⟨hx, Or.inl ⟨hx, rfl⟩⟩
    · exact ⟨hE.castTyped _ _ _ hcast, Or.inr hcast⟩
  case rangeF lo hi a b =>
    obtain ⟨h1, h2⟩ := fast_range_ok E _ _ _ v w h
    obtain ⟨h3, h4, h5⟩ := validateFloat_ok v w h1
    refine ⟨?_, h4⟩
    rw [h5]
    simp only [inDomain, Val.ofFloat]
    rw [← pyInRangeF_eq, ← inFloatRange_eq_py]; exact h2
  case enum vals =>
    obtain ⟨h1, rfl⟩ := fast_enum_ok E _ v w h
    exact ⟨seqContains_yes_isMember _ _ h1, rfl⟩
  case enumH vals =>
    obtain ⟨h1, rfl⟩ := fast_enum_ok E _ v w h
    exact ⟨seqContains_yes_isMember _ _ h1, rfl⟩
  case map keys vals =>
    obtain ⟨⟨i, h1⟩, rfl⟩ := fast_map_ok E _ v w h
    exact ⟨dictFind_some_isKey _ _ i h1, rfl⟩
  case mapH keys vals =>
    obtain ⟨⟨i, h1⟩, rfl⟩ := fast_map_ok E _ v w h
    exact ⟨dictFind_some_isKey _ _ i h1, rfl⟩
  all_goals trace_state
  all_goals sorry

end TraitsVerif.Model.Val
