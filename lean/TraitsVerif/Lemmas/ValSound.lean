/-
Soundness of validation with respect to the declared domain (C01_sound): what a
validator accepts lies in `inDomain` and is the documented conversion `Conv`.
-/
import TraitsVerif.Lemmas.ValOrder
import TraitsVerif.Model.Domain
namespace TraitsVerif.Model.Val
open TraitsVerif TraitsVerif.Py.Value

/-- What the proofs assume about the environment (all facts about CPython /
the adaptation registry / the user functions, checked on every cast-table entry
by the correspondence run). -/
structure EnvOK (E : Env) : Prop where
  castIdem : CastIdem E
  /-- `T(v)` returns an exact `T`. -/
  castTyped : ∀ t v w, E.cast t v = .ok w → Val.exactTy t w = true
  /-- what `adapt` returns offers the protocol. -/
  adaptProvides : ∀ v c r, E.adapt v c = .ok (some r) → Val.isInst c r = true ∨ E.provides r c = true
  fnRange : ∀ f v w, E.fn f v = .ok w → E.fnRange f w = true

/-- Accepted ⇒ in the domain and the documented conversion. -/
def Good (E : Env) (t : TraitType) (v w : Val) : Prop := inDomain E t w = true ∧ Conv E t v w

theorem seqContains_yes_isMember (vals : List Val) (v : Val) (h : seqContains vals v = .yes) :
    isMember vals v = true := by
  induction vals with
  | nil => simp [seqContains] at h
  | cons m ms ih =>
    simp only [seqContains] at h
    cases hm : Val.pyEq m v with
    | yes => simp [isMember, hm]
    | no => simp [hm] at h; simp [isMember, hm]; simpa [isMember] using ih h
    | raises e => simp [hm] at h

theorem dictFind_some_isKey (keys : List Val) (v : Val) (i : Nat) (h : dictFind keys v = .ok (some i)) :
    isKey keys v = true := by
  unfold dictFind at h
  by_cases hh : v.hashable = true
  · simp [hh] at h
    have := List.findIdx?_eq_some_iff_getElem.mp h
    obtain ⟨hi, hp, _⟩ := this
    simp only [isKey, hh, Bool.true_and, List.any_eq_true]
    exact ⟨keys[i], List.getElem_mem hi, hp⟩
  · simp [hh] at h

theorem pyInRangeF_eq (lo hi : Option F) (a b : Bool) (x : F) :
    pyInRangeF lo hi a b x = inRangeF lo hi a b x := by
  cases a <;> cases b <;> cases lo <;> cases hi <;> simp [pyInRangeF, inRangeF, F.gt, F.ge]

theorem pyInRangeI_eq (lo hi : Option Int) (a b : Bool) (x : Int) :
    pyInRangeI lo hi a b x = inRangeI lo hi a b x := by
  cases a <;> cases b <;> cases lo <;> cases hi <;> simp [pyInRangeI, inRangeI]

theorem asInteger_ok (v w : Val) (h : asInteger v = .ok w) :
    Val.exactTy .int w = true ∧ ∃ n, index v = .ok n ∧ w = Val.ofInt n := by
  unfold asInteger at h
  split at h
  · cases h; exact ⟨rfl, _, rfl, rfl⟩
  · cases hi : index v with
    | error e => simp [hi] at h
    | ok n => simp [hi] at h; subst h; exact ⟨rfl, n, rfl, rfl⟩

theorem validateFloat_ok (v w : Val) (h : validateFloat v = .ok w) :
    Val.exactTy .float w = true ∧ ConvFloat v w ∧ w = Val.ofFloat (floatOf w) := by
  unfold validateFloat at h
  split at h
  · cases h; exact ⟨rfl, Or.inl ⟨rfl, rfl⟩, rfl⟩
  · cases hi : asDouble v with
    | error e => simp [hi] at h
    | ok f => simp [hi] at h; subst h; exact ⟨rfl, Or.inr ⟨f, hi, rfl⟩, rfl⟩

theorem validateComplex_ok (v w : Val) (h : validateComplexNumber v = .ok w) :
    Val.exactTy .complex w = true ∧
    ((Val.exactTy .complex v = true ∧ w = v) ∨ ∃ re im, asComplex v = .ok (re, im) ∧ w = Val.ofComplex re im) := by
  unfold validateComplexNumber at h
  split at h
  · cases h; exact ⟨rfl, Or.inl ⟨rfl, rfl⟩⟩
  · cases hi : asComplex v with
    | error e => simp [hi] at h
    | ok z => obtain ⟨re, im⟩ := z; simp [hi] at h; subst h; exact ⟨rfl, Or.inr ⟨re, im, rfl, rfl⟩⟩


/-- Leaves on which the compiled path is known to store values outside the
declared domain: TraitCoerceType(float / complex) (finding F42). -/
def TraitType.soundLeaf : TraitType → Bool
  | .coerceH ty => (coerceRest ty).isEmpty
  | _ => true

variable (E : Env)

theorem sound_atomic_ctrait (hE : EnvOK E) (t : TraitType) (hs : t.subs = none) (hn : t.isNoFast = false)
    (hc : t.soundLeaf = true) (v w : Val) (h : ctraitValidate E t v = .ok w) : Good E t v w := by
  cases t <;> simp [TraitType.subs, TraitType.isNoFast] at hs hn <;>
    simp [ctraitValidate, ctraitValidateWith, descOf, hasPy] at h
  all_goals trace_state
  all_goals sorry

end TraitsVerif.Model.Val
