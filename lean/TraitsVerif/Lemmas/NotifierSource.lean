/-
Cluster `obs`: `userAdd` / `userRemove` / `maintAdd` / `maintRemove` / `NKey.equals` of
Model/Hooks.lean and Model/ObsGraph.lean ARE the interpretation (Model/NotL.lean) of the programs
and comparison tables translated from the source text of the two notifier classes
(Generated/NotifierProg.lean).
-/
import TraitsVerif.Generated.NotifierProg
import TraitsVerif.Lemmas.ObsBasic
set_option linter.unusedSimpArgs false
namespace TraitsVerif.Model.NotL
open TraitsVerif TraitsVerif.Model.Obs TraitsVerif.Generated

theorem ofI_toI (n : Notifier) : ofI (toI n) = n := by
  cases n <;> simp [toI, ofI]

@[simp] theorem map_ofI_toI (ns : List Notifier) : (ns.map toI).map ofI = ns := by
  induction ns with
  | nil => rfl
  | cons n ns ih => simp only [List.map_cons, ofI_toI, ih]

@[simp] theorem map_ofI_comp (ns : List Notifier) : List.map (ofI ∘ toI) ns = ns := by
  rw [← List.map_map]; exact map_ofI_toI ns

@[simp] theorem ofI_toI' (n : Notifier) : ofI (toI n) = n := ofI_toI n

theorem erase_at_len {α} (pre : List α) (o : α) (rest : List α) :
    (pre ++ o :: rest).eraseIdx pre.length = pre ++ rest := by
  induction pre with
  | nil => rfl
  | cons p pre ih => simp [List.eraseIdx, ih]

theorem set_at_len {α} (pre : List α) (o x : α) (rest : List α) :
    (pre ++ o :: rest).set pre.length x = pre ++ x :: rest := by
  induction pre with
  | nil => rfl
  | cons p pre ih => simp [List.set, ih]

/-! ### TraitEventNotifier.add_to -/

/-- the first notifier equal to `self` bumped, if there is one -/
def addScan (q : NKey) : List INot → Option (List INot)
  | [] => none
  | o :: rest => if NKey.equals q o.key then some ({ o with rc := o.rc + 1 } :: rest) else (addScan q rest).map (o :: ·)

theorem loop_userAdd (q : NKey) : ∀ (rest pre : List INot) (st : NSto), st.ns = pre ++ rest → st.self.key = q →
    let r := loop NKey.equals (.ifS .equalsOther (.seq (.addRcOther 1) .brk) .skip) rest pre.length st
    r.1.self = st.self ∧ r.1.selfAt = st.selfAt ∧
    (match addScan q rest with
     | some l => r.1.ns = pre ++ l ∧ r.2 = .brk
     | none => r.1.ns = st.ns ∧ r.2 = .next) := by
  intro rest
  induction rest with
  | nil => intro pre st _ _; simp [loop, addScan]
  | cons o rest ih =>
    intro pre st hns hk
    simp only [loop, execB, evalN, Option.map, hk]
    cases he : NKey.equals q o.key with
    | true =>
      simp [addScan, he, hns, set_at_len]
    | false =>
      simp only [addScan, he, Bool.false_eq_true, if_false, if_true]
      have := ih (pre ++ [o]) { st with other := some (some pre.length, o) } (by simp [hns]) hk
      simp only [List.length_append, List.length_cons, List.length_nil, Nat.zero_add] at this
      obtain ⟨h1, h2, h3⟩ := this
      refine ⟨h1, h2, ?_⟩
      cases hs : addScan q rest with
      | some l => rw [hs] at h3; simpa using h3
      | none => rw [hs] at h3; simpa using h3

theorem userAdd_eq_scan (k : HKey) (ns : List Notifier) :
    userAdd k ns = (match addScan (.user k) (ns.map toI) with
      | some l => l.map ofI
      | none => ns ++ [.user k 1]) := by
  induction ns with
  | nil => rfl
  | cons n ns ih =>
    cases n with
    | user k' rc =>
      simp only [userAdd, List.map_cons, toI, addScan, NKey.equals]
      by_cases hk : (k == k') = true
      · simp [hk, ofI]
      · simp only [hk, if_false, ih]
        cases addScan (.user k) (ns.map toI) <;> simp [ofI]
    | maint mk g k' =>
      simp only [userAdd, List.map_cons, toI, addScan, NKey.equals, Bool.false_eq_true, if_false, ih]
      cases addScan (.user k) (ns.map toI) <;> simp [ofI]

/-- SOURCE TIE: `userAdd` is the interpreted `TraitEventNotifier.add_to`. -/
theorem userAdd_is_source (k : HKey) (ns : List Notifier) :
    runMethod NKey.equals userAddProg (.user k) ns = some (userAdd k ns, none) := by
  unfold runMethod userAddProg
  simp only [execT]
  have := loop_userAdd (.user k) (ns.map toI) [] ⟨ns.map toI, ⟨.user k, 0⟩, none, none⟩ rfl rfl
  simp only [List.length_nil, List.nil_append] at this
  generalize loop _ _ _ _ _ = r at this
  obtain ⟨st', fl⟩ := r
  obtain ⟨h1, h2, h3⟩ := this
  simp only at h1 h2 h3
  rw [userAdd_eq_scan]
  cases hs : addScan (.user k) (ns.map toI) with
  | some l =>
    rw [hs] at h3
    obtain ⟨h3, rfl⟩ := h3
    simp [h3]
  | none =>
    rw [hs] at h3
    obtain ⟨h3, rfl⟩ := h3
    simp [execB, evalN, h1, h2, h3, map_ofI_comp, ofI]

/-! ### TraitEventNotifier.remove_from -/

/-- what the loop of `remove_from` does at the first notifier equal to `self` -/
def rmScan (q : NKey) : List INot → Option (List INot × Option Exc)
  | [] => none
  | o :: rest =>
    if NKey.equals q o.key then
      (if o.rc = 1 then some (rest, none)
       else if o.rc - 1 < 0 then some ({ o with rc := o.rc - 1 } :: rest, some .runtimeError)
       else some ({ o with rc := o.rc - 1 } :: rest, none))
    else (rmScan q rest).map (fun r => (o :: r.1, r.2))

theorem loop_userRemove (q : NKey) : ∀ (rest pre : List INot) (st : NSto), st.ns = pre ++ rest →
    st.self.key = q →
    let r := loop NKey.equals (.ifS .equalsOther (.seq (.ifS (.eq .rcOther (.int 1)) .removeOther .skip)
      (.seq (.addRcOther (-1)) (.seq (.ifS (.lt .rcOther (.int 0)) (.raise .runtimeError) .skip) .brk))) .skip)
      rest pre.length st
    (match rmScan q rest with
     | some (l, none) => r.1.ns = pre ++ l ∧ r.2 = .brk
     | some (l, some e) => r.1.ns = pre ++ l ∧ r.2 = .raised e
     | none => r.1.ns = st.ns ∧ r.2 = .next) := by
  intro rest
  induction rest with
  | nil => intro pre st _ _; simp [loop, rmScan]
  | cons o rest ih =>
    intro pre st hns hk
    simp only [loop, execB, evalN, Option.map, hk]
    cases he : NKey.equals q o.key with
    | true =>
      simp only [rmScan, he, if_true]
      by_cases h1 : o.rc = 1
      · simp [h1, hns, erase_at_len]
      · have hb1 : (o.rc == 1) = false := by simpa using h1
        by_cases h2 : o.rc - 1 < 0
        · have h2' : o.rc + -1 < 0 := by omega
          simp [h1, hb1, h2, h2', hns, Int.sub_eq_add_neg, set_at_len]
        · have h2' : ¬ o.rc + -1 < 0 := by omega
          simp [h1, hb1, h2, h2', hns, Int.sub_eq_add_neg, set_at_len]
    | false =>
      simp only [rmScan, he, Bool.false_eq_true, if_false, if_true]
      have := ih (pre ++ [o]) { st with other := some (some pre.length, o) } (by simp [hns]) hk
      simp only [List.length_append, List.length_cons, List.length_nil, Nat.zero_add] at this
      cases hs : rmScan q rest with
      | none => rw [hs] at this; simpa using this
      | some p =>
        obtain ⟨l, e⟩ := p
        rw [hs] at this
        cases e <;> simpa using this

theorem userRemove_eq_scan (k : HKey) (ns : List Notifier) :
    (match rmScan (.user k) (ns.map toI) with
      | some (l, none) => userRemove k ns = .ok (l.map ofI)
      | some (l, some e) => userRemove k ns = .error e ∧ l.map ofI = ns ∧ e = .runtimeError
      | none => userRemove k ns = .error .notifierNotFound) := by
  induction ns with
  | nil => rfl
  | cons n ns ih =>
    cases n with
    | user k' rc =>
      simp only [userRemove, List.map_cons, toI, rmScan, NKey.equals]
      cases hk : k == k' with
      | true =>
        simp only [if_true]
        by_cases h1 : rc = 1
        · simp [h1, map_ofI_toI]
        · by_cases h0 : rc = 0
          · simp [h0, ofI, map_ofI_toI]
          · have : ¬ ((rc : Int) - 1 < 0) := by omega
            have h1' : ¬ ((rc : Int) = 1) := by omega
            simp [h1, h0, this, h1', ofI, map_ofI_toI]
      | false =>
        simp only [Bool.false_eq_true, if_false]
        cases hs : rmScan (.user k) (ns.map toI) with
        | none => rw [hs] at ih; simp [ih, Except.map]
        | some p =>
          obtain ⟨l, e⟩ := p
          rw [hs] at ih
          cases e with
          | none => simp only at ih; simp [ih, Except.map, ofI]
          | some e => simp only at ih; simp [ih.1, ih.2.1, ih.2.2, Except.map, ofI]
    | maint mk g k' =>
      simp only [userRemove, List.map_cons, toI, rmScan, NKey.equals, Bool.false_eq_true, if_false]
      cases hs : rmScan (.user k) (ns.map toI) with
      | none => rw [hs] at ih; simp [ih, Except.map]
      | some p =>
        obtain ⟨l, e⟩ := p
        rw [hs] at ih
        cases e with
        | none => simp only at ih; simp [ih, Except.map, ofI]
        | some e => simp only at ih; simp [ih.1, ih.2.1, ih.2.2, Except.map, ofI]

/-- SOURCE TIE: `userRemove` is the interpreted `TraitEventNotifier.remove_from` (a call that raises
leaves the list, read with natural reference counts, as it was). -/
theorem userRemove_is_source (k : HKey) (ns : List Notifier) :
    runMethod NKey.equals userRemoveProg (.user k) ns =
      some (match userRemove k ns with
        | .ok l => (l, none)
        | .error e => (ns, some e)) := by
  unfold runMethod userRemoveProg
  simp only [execT]
  have := loop_userRemove (.user k) (ns.map toI) [] ⟨ns.map toI, ⟨.user k, 0⟩, none, none⟩ rfl rfl
  simp only [List.length_nil, List.nil_append] at this
  generalize loop _ _ _ _ _ = r at this
  obtain ⟨st', fl⟩ := r
  have hm := userRemove_eq_scan k ns
  cases hs : rmScan (.user k) (ns.map toI) with
  | none =>
    rw [hs] at this hm
    obtain ⟨h3, rfl⟩ := this
    simp only at h3 hm
    simp [execB, hm, h3, map_ofI_toI]
  | some p =>
    obtain ⟨l, e⟩ := p
    rw [hs] at this hm
    cases e with
    | none =>
      obtain ⟨h3, rfl⟩ := this
      simp only at h3 hm
      simp [hm, h3]
    | some e =>
      obtain ⟨h3, rfl⟩ := this
      simp only at h3 hm
      simp [hm.1, h3, hm.2.1]

/-! ### ObserverChangeNotifier.add_to / remove_from -/

/-- SOURCE TIE: `maintAdd` is the interpreted `ObserverChangeNotifier.add_to`. -/
theorem maintAdd_is_source (mk : MKind) (g : Graph) (k : HKey) (ns : List Notifier) :
    runMethod NKey.equals maintAddProg (.maint mk g k) ns = some (maintAdd mk g k ns, none) := by
  simp [runMethod, maintAddProg, execT, execB, maintAdd, map_ofI_toI, ofI]

def mrScan (q : NKey) : List INot → Option (List INot)
  | [] => none
  | o :: rest => if NKey.equals q o.key then some rest else (mrScan q rest).map (o :: ·)

theorem loop_maintRemove (q : NKey) : ∀ (rest pre : List INot) (st : NSto), st.ns = pre ++ rest →
    st.self.key = q →
    let r := loop NKey.equals (.ifS .equalsOther (.seq .removeOther .brk) .skip) rest pre.length st
    (match mrScan q rest with
     | some l => r.1.ns = pre ++ l ∧ r.2 = .brk
     | none => r.1.ns = st.ns ∧ r.2 = .next) := by
  intro rest
  induction rest with
  | nil => intro pre st _ _; simp [loop, mrScan]
  | cons o rest ih =>
    intro pre st hns hk
    simp only [loop, execB, evalN, Option.map, hk]
    cases he : NKey.equals q o.key with
    | true => simp [mrScan, he, hns, erase_at_len]
    | false =>
      simp only [mrScan, he, Bool.false_eq_true, if_false, if_true]
      have := ih (pre ++ [o]) { st with other := some (some pre.length, o) } (by simp [hns]) hk
      simp only [List.length_append, List.length_cons, List.length_nil, Nat.zero_add] at this
      cases hs : mrScan q rest with
      | some l => rw [hs] at this; simpa using this
      | none => rw [hs] at this; simpa using this

theorem toI_key (n : Notifier) : (toI n).key = n.key := by cases n <;> rfl

theorem maintRemove_eq_scan (mk : MKind) (g : Graph) (k : HKey) (ns : List Notifier) :
    (match mrScan (.maint mk g k) (ns.map toI) with
      | some l => maintRemove mk g k ns = .ok (l.map ofI)
      | none => maintRemove mk g k ns = .error .notifierNotFound) := by
  induction ns with
  | nil => rfl
  | cons n ns ih =>
    simp only [maintRemove, List.map_cons, mrScan, toI_key]
    -- the model asks `other.equals(self)`, the source `self.equals(other)`: `equals` is symmetric
    have hsym : NKey.equals (.maint mk g k) n.key = n.key.equals (.maint mk g k) := by
      cases h1 : NKey.equals (.maint mk g k) n.key with
      | true => exact (NKey.equals_symm h1).symm
      | false =>
        cases h2 : n.key.equals (.maint mk g k) with
        | false => rfl
        | true => rw [NKey.equals_symm h2] at h1; cases h1
    rw [hsym]
    cases n.key.equals (.maint mk g k) with
    | true => simp [map_ofI_toI]
    | false =>
      simp only [Bool.false_eq_true, if_false]
      cases hs : mrScan (.maint mk g k) (ns.map toI) with
      | none => rw [hs] at ih; simp [ih, Except.map]
      | some l => rw [hs] at ih; simp only at ih; simp [ih, Except.map, ofI_toI]

/-- SOURCE TIE: `maintRemove` is the interpreted `ObserverChangeNotifier.remove_from`. -/
theorem maintRemove_is_source (mk : MKind) (g : Graph) (k : HKey) (ns : List Notifier) :
    runMethod NKey.equals maintRemoveProg (.maint mk g k) ns =
      some (match maintRemove mk g k ns with
        | .ok l => (l, none)
        | .error e => (ns, some e)) := by
  unfold runMethod maintRemoveProg
  simp only [execT]
  have := loop_maintRemove (.maint mk g k) (ns.map toI) [] ⟨ns.map toI, ⟨.maint mk g k, 0⟩, none, none⟩ rfl rfl
  simp only [List.length_nil, List.nil_append] at this
  generalize loop _ _ _ _ _ = r at this
  obtain ⟨st', fl⟩ := r
  have hm := maintRemove_eq_scan mk g k ns
  cases hs : mrScan (.maint mk g k) (ns.map toI) with
  | none =>
    rw [hs] at this hm
    obtain ⟨h3, rfl⟩ := this
    simp only at h3 hm
    simp [execB, hm, h3, map_ofI_toI]
  | some l =>
    rw [hs] at this hm
    obtain ⟨h3, rfl⟩ := this
    simp only at h3 hm
    simp [hm, h3]

/-! ### `equals` -/

/-- the `equals` method `self.equals(other)` dispatches on the class of `self` -/
def equalsRows : NKey → List EqRow
  | .user _ => userEqualsRows
  | .maint .. => maintEqualsRows

/-- SOURCE TIE: `NKey.equals` is the conjunction the two `equals` methods spell out — for EVERY reading
`eqo` of `==` on two distinct targets (so it holds only as long as targets are compared with `is`). -/
theorem hkey_beq (h1 h2 : Nat) (t1 t2 : Id) :
    ((⟨h1, t1⟩ : HKey) == ⟨h2, t2⟩) = (h1 == h2 && t1 == t2) := by
  rw [Bool.eq_iff_iff]
  simp [HKey.mk.injEq]

theorem equals_is_source (eqo : Id → Id → Bool) (a b : NKey) :
    rowsHold eqo (equalsRows a) a b = some (NKey.equals a b) := by
  cases a with
  | user k =>
    cases b with
    | user k' =>
      obtain ⟨h1, t1⟩ := k
      obtain ⟨h2, t2⟩ := k'
      simp [equalsRows, userEqualsRows, rowsHold, rowHolds, NKey.equals, hkey_beq]
    | maint mk g k' => simp [equalsRows, userEqualsRows, rowsHold, rowHolds, NKey.equals]
  | maint mk g k =>
    cases b with
    | user k' => simp [equalsRows, maintEqualsRows, rowsHold, rowHolds, NKey.equals]
    | maint mk' g' k' =>
      obtain ⟨h1, t1⟩ := k
      obtain ⟨h2, t2⟩ := k'
      simp only [equalsRows, maintEqualsRows, rowsHold, rowHolds, NKey.equals, hkey_beq]
      simp
      cases (mk == mk') <;> cases (h1 == h2) <;> cases (t1 == t2) <;> cases Graph.beq g g' <;> rfl


/-! ### `ObserverGraph.__eq__` -/

theorem graphRows_decode : decodeGraphRows graphEqRows = some ⟨true, .asSets⟩ := by decide

mutual
theorem geq_eq_beq : ∀ g g' : Graph, geq ⟨true, .asSets⟩ g g' = Graph.beq g g'
  | .node o cs, .node o' cs' => by
    have h1 := geqAllAny_eq cs cs'
    have h2 : ∀ c', geqAnyL ⟨true, .asSets⟩ cs c' = Graph.anyL cs c' := fun c' => geqAnyL_eq cs c'
    simp only [geq, Graph.beq, Bool.not_true, Bool.false_or, h1, h2, Bool.and_assoc]
theorem geqAllAny_eq : ∀ cs cs' : List Graph, geqAllAny ⟨true, .asSets⟩ cs cs' = Graph.allAny cs cs'
  | [], _ => by simp only [geqAllAny, Graph.allAny]
  | c :: cs, cs' => by
    have h1 : ∀ c', geq ⟨true, .asSets⟩ c c' = Graph.beq c c' := fun c' => geq_eq_beq c c'
    simp only [geqAllAny, Graph.allAny, h1, geqAllAny_eq cs cs']
theorem geqAnyL_eq : ∀ (cs : List Graph) (c' : Graph), geqAnyL ⟨true, .asSets⟩ cs c' = Graph.anyL cs c'
  | [], _ => by simp only [geqAnyL, Graph.anyL]
  | c :: cs, c' => by
    simp only [geqAnyL, Graph.anyL, geq_eq_beq c c', geqAnyL_eq cs c']
end

/-- SOURCE TIE: `Graph.beq` is `ObserverGraph.__eq__` as its rows (type `is`, node `==`, children compared as
sets) say. -/
theorem graph_beq_is_source (g g' : Graph) :
    (decodeGraphRows graphEqRows).map (fun m => geq m g g') = some (Graph.beq g g') := by
  rw [graphRows_decode]
  simp [geq_eq_beq]

end TraitsVerif.Model.NotL
