/-
Cluster `obs`: the refinement invariant is preserved by `o.add_trait(n, …)` for a NEW
trait name (fragment `AddCore`).

The new field is absent from `__dict__` (`.unset`), so nothing below it is reachable
yet: in the new heap the from-scratch hooks grow, per path that reaches `o` at a
`named n` node, by exactly the OWN items of that node on `o.n` (`add_dec`).  On the
hooks side every such path has left a `trait_added` maintainer on `o.trait_added`
(`added_at`), and that maintainer, called with `new = n`, walks the restricted graph
from `o`, i.e. adds exactly those own items (`callTrait_added`, `addG_named`).
-/
import TraitsVerif.Lemmas.ObsInvSetItems
namespace TraitsVerif.Model.Obs
open TraitsVerif

/-! ### the heap after `add_trait` -/

def addH (h : Heap) (o : Id) (fs : List Field) (n : Name) (tagged : Bool) (d : Dflt) : Heap :=
  h.upd o (.inst (fs ++ [⟨n, tagged, d, .unset, .equality⟩]))

def isNamed (n : Name) : Observer → Bool
  | .named m _ _ => m == n
  | _ => false

def isNamedAny : Observer → Bool
  | .named .. => true
  | _ => false

theorem isNamedAny_of_isNamed {n : Name} {ob : Observer} (h : isNamed n ob = true) : isNamedAny ob = true := by
  cases ob <;> simp_all [isNamed, isNamedAny]

theorem findField_append (fs : List Field) (nf : Field) (m : Name) :
    findField (fs ++ [nf]) m = (findField fs m).or (if nf.name == m then some nf else none) := by
  simp only [findField, List.find?_append, List.find?_cons, List.find?_nil]
  cases hb : (nf.name == m) <;> simp

section heap
variable {h : Heap} {o : Id} {fs : List Field} {n : Name} (tagged : Bool) (d : Dflt)

theorem addH_at_ne (x : W) (hx : x ≠ some o) : (addH h o fs n tagged d).at x = h.at x :=
  upd_at_ne_obj _ x hx

theorem addH_get_o : (addH h o fs n tagged d).get o = .inst (fs ++ [⟨n, tagged, d, .unset, .equality⟩]) := by
  simp [addH, Heap.get_upd]

theorem addH_hasTrait (ho : h.get o = .inst fs) (x : W) (m : Name) (hne : ¬(m = n ∧ x = some o)) :
    hasTrait (addH h o fs n tagged d) x m = hasTrait h x m := by
  by_cases hx : x = some o
  · subst hx
    have hm : (n == m) = false := by
      have : n ≠ m := fun e => hne ⟨e.symm, rfl⟩
      simpa using this
    simp [hasTrait, Heap.at, addH_get_o, ho, findField_append, hm]
  · simp [hasTrait, addH_at_ne tagged d x hx]

theorem addH_hasTrait_new : hasTrait (addH h o fs n tagged d) (some o) n = true := by
  simp [hasTrait, Heap.at, addH_get_o, findField_append]

theorem addH_fieldVal (ho : h.get o = .inst fs) (x : W) (m : Name) :
    fieldVal (addH h o fs n tagged d) x m = fieldVal h x m := by
  by_cases hx : x = some o
  · subst hx
    simp only [fieldVal, Heap.at, addH_get_o, ho, findField_append]
    cases hf : findField fs m with
    | some f => simp
    | none =>
      by_cases hm : (n == m) = true
      · simp [hm]
      · simp [hm]
  · simp [fieldVal, addH_at_ne tagged d x hx]

theorem hasTrait_old (ho : h.get o = .inst fs) (hn : findField fs n = none) : hasTrait h (some o) n = false := by
  simp [hasTrait, Heap.at, ho, hn]

theorem fieldVal_old (ho : h.get o = .inst fs) (hn : findField fs n = none) : fieldVal h (some o) n = .unset := by
  simp [fieldVal, Heap.at, ho, hn]

end heap

/-- how the two heaps are related, as the walks see them -/
structure AddRel (h h' : Heap) (o : Id) (n : Name) : Prop where
  obs : ∀ ob x, ob.isFiltered = false → (isNamed n ob && x == some o) = false →
    observables h' ob x = observables h ob x
  obsOld : ∀ ob, isNamed n ob = true → (okOr [] (observables h ob (some o)) : List Observable) = []
  objs : ∀ ob x, ob.isFiltered = false → (okOr [] (objects h' ob x) : List W) = okOr [] (objects h ob x)
  ext : ∀ ob x, ob.isFiltered = false → extraObservables h' ob x = extraObservables h ob x
  newObs : ∀ nt opt, observables h' (.named n nt opt) (some o) = .ok [.trait o n]
  newObjs : ∀ nt opt, objects h' (.named n nt opt) (some o) = .ok []

theorem AddRel.mk' {h : Heap} {o : Id} {fs : List Field} {n : Name} (tagged : Bool) (d : Dflt)
    (ho : h.get o = .inst fs) (hn : findField fs n = none) : AddRel h (addH h o fs n tagged d) o n where
  obs := by
    intro ob x hf hc
    cases ob with
    | filtered fl nt => simp [Observer.isFiltered] at hf
    | named m nt opt =>
      have hne : ¬(m = n ∧ x = some o) := by
        intro ⟨e1, e2⟩
        simp [isNamed, e1, e2] at hc
      simp only [observables, addH_hasTrait tagged d ho x m hne]
    | listItems nt opt =>
      by_cases hx : x = some o
      · subst hx; simp [observables, Heap.at, addH_get_o, ho]
      · simp [observables, addH_at_ne tagged d x hx]
    | dictItems nt opt =>
      by_cases hx : x = some o
      · subst hx; simp [observables, Heap.at, addH_get_o, ho]
      · simp [observables, addH_at_ne tagged d x hx]
    | setItems nt opt =>
      by_cases hx : x = some o
      · subst hx; simp [observables, Heap.at, addH_get_o, ho]
      · simp [observables, addH_at_ne tagged d x hx]
  obsOld := by
    intro ob hnm
    cases ob with
    | named m nt opt =>
      simp only [isNamed, beq_iff_eq] at hnm
      subst hnm
      simp only [observables, hasTrait_old ho hn]
      cases opt <;> simp [okOr]
    | _ => simp [isNamed] at hnm
  objs := by
    intro ob x hf
    cases ob with
    | filtered fl nt => simp [Observer.isFiltered] at hf
    | named m nt opt =>
      by_cases hne : m = n ∧ x = some o
      · obtain ⟨rfl, rfl⟩ := hne
        simp only [objects, addH_hasTrait_new, addH_fieldVal tagged d ho, fieldVal_old ho hn, hasTrait_old ho hn]
        cases opt <;> simp [okOr, valObjects]
      · simp only [objects, addH_hasTrait tagged d ho x m hne, addH_fieldVal tagged d ho]
    | listItems nt opt =>
      by_cases hx : x = some o
      · subst hx; simp [objects, Heap.at, addH_get_o, ho]
      · simp [objects, addH_at_ne tagged d x hx]
    | dictItems nt opt =>
      by_cases hx : x = some o
      · subst hx; simp [objects, Heap.at, addH_get_o, ho]
      · simp [objects, addH_at_ne tagged d x hx]
    | setItems nt opt =>
      by_cases hx : x = some o
      · subst hx; simp [objects, Heap.at, addH_get_o, ho]
      · simp [objects, addH_at_ne tagged d x hx]
  ext := by
    intro ob x hf
    cases ob with
    | filtered fl nt => simp [Observer.isFiltered] at hf
    | named m nt opt =>
      by_cases hx : x = some o
      · subst hx; simp [extraObservables, Heap.at, addH_get_o, ho]
      · simp [extraObservables, addH_at_ne tagged d x hx]
    | listItems nt opt => rfl
    | dictItems nt opt => rfl
    | setItems nt opt => rfl
  newObs := by intro nt opt; simp [observables, addH_hasTrait_new]
  newObjs := by
    intro nt opt
    simp [objects, addH_hasTrait_new, addH_fieldVal tagged d ho, fieldVal_old ho hn, valObjects]

/-! ### the `named` nodes a walk reaches standing on `o` -/

mutual
def nodesAt (h : Heap) (o : Id) : Graph → W → List Graph
  | .node ob cs, x => (if x == some o && isNamedAny ob then [.node ob cs] else []) ++ nodesAtCs h o ob x cs
def nodesAtCs (h : Heap) (o : Id) (ob : Observer) (x : W) : List Graph → List Graph
  | [] => []
  | c :: cs => (okOr [] (objects h ob x)).flatMap (fun y => nodesAt h o c y) ++ nodesAtCs h o ob x cs
end

/-- what a `named n` node standing on `o` owes in the new heap (nothing if it is not one) -/
def newOwn (h' : Heap) (o : Id) (n : Name) (k : HKey) (o' : Observable) (q : NKey) : Graph → Nat
  | .node ob cs => if isNamed n ob then cntItems (ownItems h' k ob cs (some o)) o' q else 0

def delta (h' : Heap) (o : Id) (n : Name) (k : HKey) (vs : List Graph) (o' : Observable) (q : NKey) : Nat :=
  (vs.map (newOwn h' o n k o' q)).sum

theorem delta_append (h' : Heap) (o : Id) (n : Name) (k : HKey) (a b : List Graph) (o' : Observable) (q : NKey) :
    delta h' o n k (a ++ b) o' q = delta h' o n k a o' q + delta h' o n k b o' q := by
  simp [delta, List.map_append, List.sum_append]

theorem delta_nil (h' : Heap) (o : Id) (n : Name) (k : HKey) (o' : Observable) (q : NKey) :
    delta h' o n k [] o' q = 0 := rfl

theorem delta_flatMap {α} (h' : Heap) (o : Id) (n : Name) (k : HKey) (l : List α) (f : α → List Graph)
    (o' : Observable) (q : NKey) :
    delta h' o n k (l.flatMap f) o' q = (l.map (fun a => delta h' o n k (f a) o' q)).sum := by
  induction l with
  | nil => rfl
  | cons a l ih => simp [List.flatMap_cons, delta_append, ih]

/-- (1) the from-scratch hooks of the new heap = those of the old one + the own items of the
`named n` nodes reached on `o` -/
theorem add_dec {h h' : Heap} {o : Id} {n : Name} (R : AddRel h h' o n) (k : HKey) :
    ∀ g : Graph, g.noFiltered = true → ∀ (e : Bool) (x : W) (o' : Observable) (q : NKey),
      cntItems (hookList h' k e g x) o' q =
        cntItems (hookList h k e g x) o' q + delta h' o n k (nodesAt h o g x) o' q := by
  apply Graph.ind (P := fun g => g.noFiltered = true → ∀ (e : Bool) (x : W) (o' : Observable) (q : NKey),
      cntItems (hookList h' k e g x) o' q =
        cntItems (hookList h k e g x) o' q + delta h' o n k (nodesAt h o g x) o' q)
  intro ob cs ih hnf e x o' q
  obtain ⟨hf, hcs⟩ := (Graph.noFiltered_node ob cs).1 hnf
  have hC : ∀ cs' : List Graph, (∀ c ∈ cs', c ∈ cs) →
      cntItems (hookListCs h' k ob x cs') o' q =
        cntItems (hookListCs h k ob x cs') o' q + delta h' o n k (nodesAtCs h o ob x cs') o' q := by
    intro cs'
    induction cs' with
    | nil => intro _; simp [hookListCs, nodesAtCs, cntItems_nil, delta_nil]
    | cons c cs' ihc =>
      intro hsub
      have hc := hsub c (List.mem_cons_self ..)
      have ihc' := ihc (fun c' hc' => hsub c' (List.mem_cons_of_mem _ hc'))
      rw [hookListCs_cons, hookListCs_cons, cntItems_append, cntItems_append, ihc', R.objs ob x hf]
      simp only [nodesAtCs, delta_append]
      rw [cntItems_flatMap, cntItems_flatMap, delta_flatMap]
      have : ∀ y, cntItems (hookList h' k true c y) o' q =
          cntItems (hookList h k true c y) o' q + delta h' o n k (nodesAt h o c y) o' q :=
        fun y => ih c hc (hcs c hc) true y o' q
      simp only [this, sum_map_add]
      omega
  have hown : cntItems (ownItems h' k ob cs x) o' q = cntItems (ownItems h k ob cs x) o' q +
      delta h' o n k (if x == some o && isNamedAny ob then [.node ob cs] else []) o' q := by
    by_cases hc : (isNamed n ob && x == some o) = true
    · simp only [Bool.and_eq_true, beq_iff_eq] at hc
      obtain ⟨h1, rfl⟩ := hc
      have h0 : ownItems h k ob cs (some o) = [] := by simp [ownItems, R.obsOld ob h1]
      simp [h0, cntItems_nil, isNamedAny_of_isNamed h1, delta, newOwn, h1]
    · have hc' : (isNamed n ob && x == some o) = false := by simpa using hc
      have h0 : ownItems h' k ob cs x = ownItems h k ob cs x := by simp [ownItems, R.obs ob x hf hc']
      rw [h0]
      by_cases hx : (x == some o && isNamedAny ob) = true
      · have hnn : isNamed n ob = false := by
          simp only [Bool.and_eq_true] at hx
          cases hi : isNamed n ob with
          | false => rfl
          | true => simp [hi, hx.1] at hc'
        simp [hx, delta, newOwn, hnn]
      · simp [hx, delta_nil]
  rw [hookList_node, hookList_node, cntItems_append, cntItems_append, cntItems_append, cntItems_append,
    hC cs (fun c hc => hc), R.ext ob x hf, hown]
  simp only [nodesAt, delta_append]
  omega


/-! ### (2) the `trait_added` maintainers on `o.trait_added` are those nodes -/

def addedHits (k : HKey) (vs : List Graph) (q : NKey) : Nat :=
  (vs.map (fun g' => hit (NKey.maint .added g' k) q)).sum

theorem addedHits_append (k : HKey) (a b : List Graph) (q : NKey) :
    addedHits k (a ++ b) q = addedHits k a q + addedHits k b q := by
  simp [addedHits, List.map_append, List.sum_append]

theorem addedHits_flatMap {α} (k : HKey) (l : List α) (f : α → List Graph) (q : NKey) :
    addedHits k (l.flatMap f) q = (l.map (fun a => addedHits k (f a) q)).sum := by
  induction l with
  | nil => rfl
  | cons a l ih => simp [List.flatMap_cons, addedHits_append, ih]

theorem ownItems_added_zero (h : Heap) (k : HKey) (ob : Observer) (cs : List Graph) (x : W) (o' : Observable)
    (g0 : Graph) (k0 : HKey) : cntItems (ownItems h k ob cs x) o' (.maint .added g0 k0) = 0 := by
  unfold ownItems
  rw [cntItems_append]
  have h1 : cntItems (if ob.notify then (okOr [] (observables h ob x)).map (fun o => (o, NKey.user k)) else [])
      o' (.maint .added g0 k0) = 0 := by
    split
    · exact cntItems_map_user k _ _ _ _ _
    · rfl
  rw [h1, cntItems_flatMap, Nat.zero_add]
  apply sum_map_zero
  intro ob' _
  rw [cntItems_maint_at]
  split
  · apply sum_map_zero
    intro c _
    cases ob <;> simp [hit, NKey.equals, Observer.mkind]
  · rfl

theorem extra_at (h : Heap) (o : Id) (fs : List Field) (ho : h.get o = .inst fs) (k : HKey) (ob : Observer)
    (cs : List Graph) (x : W) (hf : ob.isFiltered = false) (q : NKey) :
    cntItems (extraItems (.node ob cs) k (okOr [] (extraObservables h ob x))) (.trait o nTraitAdded) q =
      addedHits k (if x == some o && isNamedAny ob then [.node ob cs] else []) q := by
  cases ob with
  | filtered fl nt => simp [Observer.isFiltered] at hf
  | listItems nt opt => simp [extraObservables, okOr, extraItems, cntItems_nil, isNamedAny, addedHits]
  | dictItems nt opt => simp [extraObservables, okOr, extraItems, cntItems_nil, isNamedAny, addedHits]
  | setItems nt opt => simp [extraObservables, okOr, extraItems, cntItems_nil, isNamedAny, addedHits]
  | named m nt opt =>
    cases x with
    | none =>
      cases opt <;> simp [extraObservables, okOr, extraItems, cntItems_nil, isNamedAny, addedHits]
    | some i =>
      by_cases hi : i = o
      · subst hi
        simp [extraObservables, Heap.at, ho, okOr, extraItems, cntItems_cons, cntItems_nil, wt, isNamedAny, addedHits]
      · have hx : (some i == some o) = false := by simpa using hi
        rw [hx, Bool.false_and]
        simp only [Bool.false_eq_true, if_false, addedHits, List.map_nil, List.sum_nil]
        apply cntItems_zero_of_ne
        intro it hit
        simp only [extraItems, List.mem_map] at hit
        obtain ⟨ob', hob', rfl⟩ := hit
        simp only [extraObservables, Heap.at] at hob'
        split at hob'
        · rename_i i' _ heq _
          simp only [okOr, List.mem_singleton] at hob'
          subst hob'
          cases heq
          simpa using hi
        · split at hob' <;> simp [okOr] at hob'

theorem added_at (h : Heap) (o : Id) (fs : List Field) (ho : h.get o = .inst fs) (k : HKey) :
    ∀ g : Graph, g.noFiltered = true → ∀ (x : W) (g0 : Graph) (k0 : HKey),
      cntItems (hookList h k true g x) (.trait o nTraitAdded) (.maint .added g0 k0) =
        addedHits k (nodesAt h o g x) (.maint .added g0 k0) := by
  apply Graph.ind (P := fun g => g.noFiltered = true → ∀ (x : W) (g0 : Graph) (k0 : HKey),
      cntItems (hookList h k true g x) (.trait o nTraitAdded) (.maint .added g0 k0) =
        addedHits k (nodesAt h o g x) (.maint .added g0 k0))
  intro ob cs ih hnf x g0 k0
  obtain ⟨hf, hcs⟩ := (Graph.noFiltered_node ob cs).1 hnf
  have hC : ∀ cs' : List Graph, (∀ c ∈ cs', c ∈ cs) →
      cntItems (hookListCs h k ob x cs') (.trait o nTraitAdded) (.maint .added g0 k0) =
        addedHits k (nodesAtCs h o ob x cs') (.maint .added g0 k0) := by
    intro cs'
    induction cs' with
    | nil => intro _; rfl
    | cons c cs' ihc =>
      intro hsub
      have hc := hsub c (List.mem_cons_self ..)
      rw [hookListCs_cons, cntItems_append, ihc (fun c' hc' => hsub c' (List.mem_cons_of_mem _ hc'))]
      simp only [nodesAtCs, addedHits_append]
      rw [cntItems_flatMap, addedHits_flatMap]
      have : ∀ y, cntItems (hookList h k true c y) (.trait o nTraitAdded) (.maint .added g0 k0) =
          addedHits k (nodesAt h o c y) (.maint .added g0 k0) := fun y => ih c hc (hcs c hc) y g0 k0
      simp only [this]
  rw [hookList_node, cntItems_append, cntItems_append, hC cs (fun c hc => hc), ownItems_added_zero]
  simp only [if_true, extra_at h o fs ho k ob cs x hf, nodesAt, addedHits_append]
  omega

theorem nodesAt_named (h : Heap) (o : Id) :
    ∀ g : Graph, ∀ x, ∀ g' ∈ nodesAt h o g x, isNamedAny g'.ob = true := by
  apply Graph.ind (P := fun g => ∀ x, ∀ g' ∈ nodesAt h o g x, isNamedAny g'.ob = true)
  intro ob cs ih x g' hg'
  have hC : ∀ cs' : List Graph, (∀ c ∈ cs', c ∈ cs) → ∀ g' ∈ nodesAtCs h o ob x cs', isNamedAny g'.ob = true := by
    intro cs'
    induction cs' with
    | nil => intro _ g' hg'; simp [nodesAtCs] at hg'
    | cons c cs' ihc =>
      intro hsub g' hg'
      simp only [nodesAtCs, List.mem_append, List.mem_flatMap] at hg'
      rcases hg' with ⟨y, _, hy⟩ | h1
      · exact ih c (hsub c (List.mem_cons_self ..)) y g' hy
      · exact ihc (fun c' h' => hsub c' (List.mem_cons_of_mem _ h')) g' h1
  simp only [nodesAt, List.mem_append] at hg'
  rcases hg' with h1 | h1
  · split at h1
    · rename_i hc
      simp only [List.mem_singleton] at h1
      subst h1
      simp only [Bool.and_eq_true] at hc
      exact hc.2
    · cases h1
  · exact hC cs (fun c hc => hc) g' h1

/-! ### key lists -/

def maKey : Notifier → Option NKey
  | .maint .added g k => some (.maint .added g k)
  | _ => none

@[simp] theorem maKey_user (k : HKey) (rc : Nat) : maKey (.user k rc) = none := rfl
@[simp] theorem maKey_trait (c : Graph) (k : HKey) : maKey (.maint .trait c k) = none := rfl
@[simp] theorem maKey_list (c : Graph) (k : HKey) : maKey (.maint .list c k) = none := rfl
@[simp] theorem maKey_dict (c : Graph) (k : HKey) : maKey (.maint .dict c k) = none := rfl
@[simp] theorem maKey_set (c : Graph) (k : HKey) : maKey (.maint .set c k) = none := rfl
@[simp] theorem maKey_added (c : Graph) (k : HKey) : maKey (.maint .added c k) = some (.maint .added c k) := rfl

def maKeys (ns : List Notifier) : List NKey := ns.filterMap maKey

def keyFA (G : Graph → HKey → Nat) : NKey → Nat
  | .maint .added g k => G g k
  | _ => 0

def effA (G : Graph → HKey → Nat) : Notifier → Nat
  | .maint .added g k => G g k
  | _ => 0

def effSumA (G : Graph → HKey → Nat) (ns : List Notifier) : Nat := (ns.map (effA G)).sum

theorem effSumA_eq_keys (G : Graph → HKey → Nat) (ns : List Notifier) :
    effSumA G ns = ((maKeys ns).map (keyFA G)).sum := by
  induction ns with
  | nil => rfl
  | cons nt ns ih =>
    have : effSumA G (nt :: ns) = effA G nt + effSumA G ns := by simp [effSumA]
    rw [this, ih]
    cases nt with
    | user k rc => simp [maKeys, effA, List.filterMap_cons]
    | maint mk g k => cases mk <;> simp [maKeys, effA, keyFA, List.filterMap_cons]

theorem cntList_eq_countP_a (c0 : Graph) (k0 : HKey) (ns : List Notifier) :
    cntList (.maint .added c0 k0) ns = (maKeys ns).countP (fun a => a.equals (.maint .added c0 k0)) := by
  induction ns with
  | nil => rfl
  | cons nt ns ih =>
    cases nt with
    | user k rc => simp only [cntList, maKeys, List.filterMap_cons, maKey_user, NKey.equals] at ih ⊢; simpa using ih
    | maint mk g k =>
      cases mk with
      | added =>
        simp only [cntList, maKeys, List.filterMap_cons, maKey_added, List.countP_cons] at ih ⊢
        rw [ih]; omega
      | list => simp only [cntList, maKeys, List.filterMap_cons, maKey_list, NKey.equals] at ih ⊢; simpa using ih
      | dict => simp only [cntList, maKeys, List.filterMap_cons, maKey_dict, NKey.equals] at ih ⊢; simpa using ih
      | set => simp only [cntList, maKeys, List.filterMap_cons, maKey_set, NKey.equals] at ih ⊢; simpa using ih
      | trait => simp only [cntList, maKeys, List.filterMap_cons, maKey_trait, NKey.equals] at ih ⊢; simpa using ih

theorem maKeys_shape (ns : List Notifier) :
    ∀ a ∈ maKeys ns, ∃ g k, a = .maint .added g k ∧ Notifier.maint .added g k ∈ ns := by
  intro a ha
  simp only [maKeys, List.mem_filterMap] at ha
  obtain ⟨nt, hnt, hk⟩ := ha
  cases nt with
  | user k rc => simp at hk
  | maint mk g k =>
    cases mk <;> simp at hk
    exact ⟨g, k, hk.symm, hnt⟩

def addedKeys (h : Heap) (o : Id) (regs : List Reg) : List NKey :=
  regs.flatMap (fun r => (nodesAt h o r.g (some r.x)).map (fun g => NKey.maint .added g r.k))

theorem addedKeys_shape (h : Heap) (o : Id) (regs : List Reg) :
    ∀ a ∈ addedKeys h o regs, ∃ r ∈ regs, ∃ g ∈ nodesAt h o r.g (some r.x), a = .maint .added g r.k := by
  intro a ha
  simp only [addedKeys, List.mem_flatMap, List.mem_map] at ha
  obtain ⟨r, hr, g, hg, rfl⟩ := ha
  exact ⟨r, hr, g, hg, rfl⟩

theorem addedKeys_countP (h : Heap) (o : Id) (regs : List Reg) (q : NKey) :
    (addedKeys h o regs).countP (fun a => a.equals q) =
      (regs.map (fun r => addedHits r.k (nodesAt h o r.g (some r.x)) q)).sum := by
  induction regs with
  | nil => rfl
  | cons r regs ih =>
    simp only [addedKeys, List.flatMap_cons, List.countP_append, List.map_cons, List.sum_cons] at ih ⊢
    rw [ih]
    congr 1
    generalize nodesAt h o r.g (some r.x) = vs
    induction vs with
    | nil => rfl
    | cons g vs ihv =>
      simp only [List.map_cons, List.countP_cons, addedHits, List.sum_cons, hit] at ihv ⊢
      rw [ihv]; split <;> omega

theorem countP_zero_of_shape_a (L : List NKey) (q : NKey) (hL : ∀ a ∈ L, ∃ c k, a = .maint .added c k)
    (hq : ∀ c k, q ≠ .maint .added c k) : L.countP (fun a => a.equals q) = 0 := by
  rw [List.countP_eq_zero]
  intro a ha
  obtain ⟨c, k, rfl⟩ := hL a ha
  cases q with
  | user k' => simp [NKey.equals]
  | maint mk' g' k' =>
    cases mk' with
    | added => exact absurd rfl (hq g' k')
    | _ => simp [NKey.equals]

/-! ### (3) what the copied notifier list of `o.trait_added` does -/

/-- what a `trait_added` maintainer for graph `g` adds when told that `n` was added to `o` -/
def addG (h' : Heap) (o : Id) (n : Name) (o' : Observable) (q : NKey) (g : Graph) (k : HKey) : Nat :=
  if addedMatches h' g o (.name n) then cntItems (hookList h' k false (restrict g n) (some o)) o' q else 0

theorem hookListCs_nil_of_objects (h : Heap) (k : HKey) (ob : Observer) (x : W)
    (hobj : (okOr [] (objects h ob x) : List W) = []) : ∀ cs, hookListCs h k ob x cs = [] := by
  intro cs
  induction cs with
  | nil => rfl
  | cons c cs ih => rw [hookListCs_cons, hobj, ih]; rfl

theorem walkOkCs_of_objects_nil (h : Heap) (ob : Observer) (x : W) (hobj : objects h ob x = .ok []) :
    ∀ cs, walkOkCs h ob x cs = true := by
  intro cs
  induction cs with
  | nil => rfl
  | cons c cs ih => simp [walkOkCs, hobj, ih]

/-- the restricted graph hooks exactly the own items of the `named n` node -/
theorem addG_named {h h' : Heap} {o : Id} {n : Name} (R : AddRel h h' o n) (k : HKey) (o' : Observable) (q : NKey)
    (g' : Graph) (hg' : isNamedAny g'.ob = true) : addG h' o n o' q g' k = newOwn h' o n k o' q g' := by
  cases g' with
  | node ob cs =>
    cases ob with
    | named m nt opt =>
      by_cases hm : m = n
      · subst hm
        have hobj : (okOr [] (objects h' (.named m nt false) (some o)) : List W) = [] := by
          rw [R.newObjs nt false]; rfl
        simp only [addG, addedMatches, Graph.ob, BEq.rfl, if_true, restrict, Graph.children, Observer.notify,
          newOwn, isNamed, hookList_node, hookListCs_nil_of_objects h' k _ _ hobj cs, Bool.false_eq_true, if_false,
          List.append_nil]
        simp [ownItems, R.newObs nt false, R.newObs nt opt, Observer.notify, Observer.mkind]
      · have h1 : (n == m) = false := by simpa using (fun e : n = m => hm e.symm)
        have h2 : (m == n) = false := by simpa using hm
        simp [addG, addedMatches, Graph.ob, h1, newOwn, isNamed, h2]
    | _ => simp [isNamedAny, Graph.ob] at hg'

theorem sum_delta_eq_keys {h h' : Heap} {o : Id} {n : Name} (R : AddRel h h' o n) (o' : Observable) (q : NKey)
    (regs : List Reg) :
    (regs.map (fun r => delta h' o n r.k (nodesAt h o r.g (some r.x)) o' q)).sum =
      ((addedKeys h o regs).map (keyFA (addG h' o n o' q))).sum := by
  induction regs with
  | nil => rfl
  | cons r regs ih =>
    simp only [List.map_cons, List.sum_cons, addedKeys, List.flatMap_cons, List.map_append, List.sum_append]
    simp only [addedKeys] at ih
    rw [ih]
    congr 1
    simp only [delta, List.map_map]
    apply sum_map_congr
    intro g' hg'
    simp only [Function.comp, keyFA]
    exact (addG_named R r.k o' q g' (nodesAt_named h o r.g (some r.x) g' hg')).symm

/-- a walk from a non-object meets nothing -/
theorem hookList_none (h : Heap) (k : HKey) : ∀ g : Graph, ∀ e : Bool, hookList h k e g none = [] := by
  apply Graph.ind (P := fun g => ∀ e : Bool, hookList h k e g none = [])
  intro ob cs _ e
  have hobs : (okOr [] (observables h ob none) : List Observable) = [] := by
    cases ob with
    | named m nt opt => cases opt <;> simp [observables, okOr]
    | filtered fl nt => simp [observables, okOr]
    | listItems nt opt => cases opt <;> simp [observables, okOr]
    | dictItems nt opt => cases opt <;> simp [observables, okOr]
    | setItems nt opt => cases opt <;> simp [observables, okOr]
  have hobj : (okOr [] (objects h ob none) : List W) = [] := by
    cases ob with
    | named m nt opt => cases opt <;> simp [objects, hasTrait, Heap.at, okOr]
    | filtered fl nt => simp [objects, Heap.at, okOr]
    | listItems nt opt => cases opt <;> simp [objects, Heap.at, okOr]
    | dictItems nt opt => cases opt <;> simp [objects, Heap.at, okOr]
    | setItems nt opt => cases opt <;> simp [objects, Heap.at, okOr]
  have hext : (okOr [] (extraObservables h ob none) : List Observable) = [] := by
    cases ob with
    | named m nt opt => cases opt <;> simp [extraObservables, okOr]
    | filtered fl nt => simp [extraObservables, okOr]
    | listItems nt opt => simp [extraObservables, okOr]
    | dictItems nt opt => simp [extraObservables, okOr]
    | setItems nt opt => simp [extraObservables, okOr]
  rw [hookList_node, hookListCs_nil_of_objects h k ob none hobj cs, hext]
  simp [ownItems, hobs, extraItems]

structure LoopOkA (E : Env) (h' : Heap) (o : Id) (n : Name) (ns : List Notifier) : Prop where
  alive : ∀ k, E.dead k = false
  kinds : ∀ nt ∈ ns, ∀ mk g k, nt = .maint mk g k → mk = .trait ∨ mk = .added
  okNone : ∀ c k, Notifier.maint .trait c k ∈ ns → walkOk h' true c none = true
  okAdded : ∀ g k, Notifier.maint .added g k ∈ ns → addedMatches h' g o (.name n) = true →
    walkOk h' false (restrict g n) (some o) = true

theorem callTrait_added (E : Env) (h' : Heap) (o : Id) (n : Name) :
    ∀ (ns : List Notifier) (H : Hooks) (ds : List Delivered), LoopOkA E h' o n ns → WF H →
      (callTrait E h' o nTraitAdded .undef (.name n) ns H ds).2.2 = none ∧
      WF (callTrait E h' o nTraitAdded .undef (.name n) ns H ds).1 ∧
      ∀ o' q, cnt (callTrait E h' o nTraitAdded .undef (.name n) ns H ds).1 o' q =
        cnt H o' q + effSumA (addG h' o n o' q) ns := by
  intro ns
  induction ns with
  | nil => intro H ds _ hw; exact ⟨rfl, hw, by simp [callTrait, effSumA]⟩
  | cons nt ns ih =>
    intro H ds hl hw
    have hl' : LoopOkA E h' o n ns :=
      { alive := hl.alive
        kinds := fun nt' hn' => hl.kinds nt' (List.mem_cons_of_mem _ hn')
        okNone := fun c k hm => hl.okNone c k (List.mem_cons_of_mem _ hm)
        okAdded := fun g k hm => hl.okAdded g k (List.mem_cons_of_mem _ hm) }
    have hsplit : ∀ G, effSumA G (nt :: ns) = effA G nt + effSumA G ns := by
      intro G; simp [effSumA]
    cases nt with
    | user k rc =>
      simp only [callTrait]
      split
      · obtain ⟨a, b, c⟩ := ih H ds hl' hw
        exact ⟨a, b, by intro o' q; rw [hsplit]; simpa [effA] using c o' q⟩
      · obtain ⟨a, b, c⟩ := ih H (ds ++ [.trait k o nTraitAdded .undef (.name n)]) hl' hw
        exact ⟨a, b, by intro o' q; rw [hsplit]; simpa [effA] using c o' q⟩
    | maint mk g k =>
      simp only [callTrait, hl.alive k, Bool.false_eq_true, if_false]
      rcases hl.kinds _ (List.mem_cons_self ..) mk g k rfl with rfl | rfl
      · -- a trait maintainer (someone observes `trait_added` itself): walks from the non-object `n`
        obtain ⟨e1, w1, c1⟩ := maintTrait_step h' g k o .undef (.name n) H hw
          (by intro w hw'; simp [valObjects] at hw')
          (by intro w hw'; simp [valObjects] at hw'; subst hw'; exact hl.okNone g k (List.mem_cons_self ..))
          (by intro o' q; simp [blockAt, valObjects, cntItems_nil])
        simp only [e1]
        obtain ⟨a, b, c⟩ := ih _ ds hl' w1
        refine ⟨a, b, ?_⟩
        intro o' q
        rw [hsplit, c o' q]
        have := c1 o' q
        simp [blockAt, valObjects, cntItems_nil, hookList_none] at this
        simp only [effA]
        omega
      · by_cases hm : addedMatches h' g o (.name n) = true
        · have hok := addRemove_add_ok h' k (restrict g n) false (some o) H
            (hl.okAdded g k (List.mem_cons_self ..) hm)
          obtain ⟨_, c1, w1⟩ := addRemove_add h' k (restrict g n) false (some o) H hok
          simp only [maintTrait, hm, if_true, hok]
          obtain ⟨a, b, c⟩ := ih _ ds hl' (w1 hw)
          refine ⟨a, b, ?_⟩
          intro o' q
          rw [hsplit, c o' q, c1 o' q]
          simp only [effA, addG, hm, if_true]
          omega
        · have hm' : addedMatches h' g o (.name n) = false := by simpa using hm
          simp only [maintTrait, hm', Bool.false_eq_true, if_false]
          obtain ⟨a, b, c⟩ := ih H ds hl' hw
          refine ⟨a, b, ?_⟩
          intro o' q
          rw [hsplit, c o' q]
          simp [effA, addG, hm']


/-! ### the fragment and the theorem -/

/-- Hypotheses under which `o.add_trait(n, …)` (new name `n`) preserves the invariant. -/
structure AddCore (E : Env) (st : St) (regs : List Reg) (o : Id) (n : Name) (tagged : Bool) (d : Dflt)
    (fs : List Field) : Prop where
  ho : st.h.get o = .inst fs
  /-- no `filtered` (`*`, `+metadata`) node in any active registration -/
  noFiltered : ∀ r ∈ regs, r.g.noFiltered = true
  alive : ∀ k, E.dead k = false
  /-- a trait maintainer sitting on `o.trait_added` itself (someone observes `trait_added.xyz`) walks
  its sub-graph from the trait-name string, a non-object: that walk meets no failing `iter_*`
  (i.e. the sub-graph is all-optional); vacuous when nobody observes below `trait_added` -/
  okNone : ∀ c k, Notifier.maint .trait c k ∈ st.H.get (.trait o nTraitAdded) →
    walkOk (addH st.h o fs n tagged d) true c none = true
  /-- graph equality is structural on the graphs involved -/
  eqStruct : ∀ g k, Notifier.maint .added g k ∈ st.H.get (.trait o nTraitAdded) → ∀ r ∈ regs,
    ∀ g' ∈ nodesAt st.h o r.g (some r.x),
    (NKey.maint .added g k).equals (.maint .added g' r.k) = true → g = g' ∧ k = r.k

theorem addTrait_preserves (E : Env) (st : St) (regs : List Reg) (o : Id) (n : Name) (tagged : Bool) (d : Dflt)
    (fs : List Field) (hinv : HooksEqReach st.h st.H regs) (core : AddCore E st regs o n tagged d fs)
    (hn : findField fs n = none) :
    HooksEqReach (mutate E st (.addTrait o n tagged d)).st.h (mutate E st (.addTrait o n tagged d)).st.H regs ∧
    (mutate E st (.addTrait o n tagged d)).err = none := by
  obtain ⟨hwf, hcnt⟩ := hinv
  have R := AddRel.mk' tagged d core.ho hn
  have hkinds : ∀ nt ∈ st.H.get (.trait o nTraitAdded), ∀ mk g k, nt = .maint mk g k → mk = .trait ∨ mk = .added := by
    intro nt hnt mk g k e
    subst e
    cases mk with
    | trait => exact Or.inl rfl
    | added => exact Or.inr rfl
    | list =>
      exfalso
      have h1 : 0 < cnt st.H (.trait o nTraitAdded) (.maint .list g k) := by
        unfold cnt
        exact cntList_pos_of_mem _ _ _ _ hnt
      rw [hcnt, specCnt_kind_trait st.h regs o nTraitAdded (.maint .list g k) ⟨.list, g, k, rfl, by simp, by simp⟩] at h1
      omega
    | dict =>
      exfalso
      have h1 : 0 < cnt st.H (.trait o nTraitAdded) (.maint .dict g k) := by
        unfold cnt
        exact cntList_pos_of_mem _ _ _ _ hnt
      rw [hcnt, specCnt_kind_trait st.h regs o nTraitAdded (.maint .dict g k) ⟨.dict, g, k, rfl, by simp, by simp⟩] at h1
      omega
    | set =>
      exfalso
      have h1 : 0 < cnt st.H (.trait o nTraitAdded) (.maint .set g k) := by
        unfold cnt
        exact cntList_pos_of_mem _ _ _ _ hnt
      rw [hcnt, specCnt_kind_trait st.h regs o nTraitAdded (.maint .set g k) ⟨.set, g, k, rfl, by simp, by simp⟩] at h1
      omega
  -- the restricted walk from `o` always succeeds: the new trait exists and nothing is below it
  have hokA : ∀ g k, Notifier.maint .added g k ∈ st.H.get (.trait o nTraitAdded) →
      addedMatches (addH st.h o fs n tagged d) g o (.name n) = true →
      walkOk (addH st.h o fs n tagged d) false (restrict g n) (some o) = true := by
    intro g k _ _
    cases g with
    | node ob cs =>
      simp [restrict, walkOk, Graph.ob, Graph.children, R.newObs, isOk,
        walkOkCs_of_objects_nil _ _ _ (R.newObjs ob.notify false)]
  have hl : LoopOkA E (addH st.h o fs n tagged d) o n (st.H.get (.trait o nTraitAdded)) :=
    { alive := core.alive, kinds := hkinds, okNone := core.okNone, okAdded := hokA }
  obtain ⟨e, w, c⟩ := callTrait_added E (addH st.h o fs n tagged d) o n _ st.H [] hl hwf
  -- the `trait_added` maintainers on `o.trait_added` are the `named` nodes reached on `o`
  have hcounts : ∀ q, (maKeys (st.H.get (.trait o nTraitAdded))).countP (fun a => a.equals q) =
      (addedKeys st.h o regs).countP (fun a => a.equals q) := by
    intro q
    by_cases hq : ∃ c0 k0, q = .maint .added c0 k0
    · obtain ⟨c0, k0, rfl⟩ := hq
      rw [← cntList_eq_countP_a, addedKeys_countP]
      have := hcnt (.trait o nTraitAdded) (.maint .added c0 k0)
      unfold cnt at this
      rw [this]
      unfold specCnt
      exact sum_map_congr _ _ _ (fun r hr =>
        added_at st.h o fs core.ho r.k r.g (core.noFiltered r hr) (some r.x) c0 k0)
    · have hq' : ∀ c k, q ≠ .maint .added c k := fun c k e => hq ⟨c, k, e⟩
      rw [countP_zero_of_shape_a _ q (fun a ha => by obtain ⟨c, k, e, _⟩ := maKeys_shape _ a ha; exact ⟨c, k, e⟩) hq',
        countP_zero_of_shape_a _ q
          (fun a ha => by obtain ⟨r, _, c, _, e⟩ := addedKeys_shape _ _ _ a ha; exact ⟨c, r.k, e⟩) hq']
  have hmatch : ∀ o' q, effSumA (addG (addH st.h o fs n tagged d) o n o' q) (st.H.get (.trait o nTraitAdded)) =
      (regs.map (fun r => delta (addH st.h o fs n tagged d) o n r.k (nodesAt st.h o r.g (some r.x)) o' q)).sum := by
    intro o' q
    rw [effSumA_eq_keys, sum_delta_eq_keys R]
    apply sum_eq_of_equiv_counts _ _ _ hcounts
    intro a ha b hb hab
    obtain ⟨g, k, rfl, hm⟩ := maKeys_shape _ a ha
    obtain ⟨r, hr, g', hg', rfl⟩ := addedKeys_shape _ _ _ b hb
    obtain ⟨rfl, rfl⟩ := core.eqStruct g k hm r hr g' hg' hab
    rfl
  have hm : mutate E st (.addTrait o n tagged d) =
      fire E st.H (addH st.h o fs n tagged d) o nTraitAdded .undef (.name n) := by
    simp only [mutate, core.ho, hn, addH]
  rw [hm]
  simp only [fire]
  refine ⟨⟨w, ?_⟩, e⟩
  intro o' q
  rw [c o' q, hmatch, hcnt]
  unfold specCnt
  rw [← sum_map_add]
  exact (sum_map_congr _ _ _ (fun r hr =>
    add_dec R r.k r.g (core.noFiltered r hr) true (some r.x) o' q)).symm

/-- `add_trait` of an EXISTING name replaces the trait in place: no hook changes, nothing is
delivered, nothing raises (has_traits.py copies the notifiers over, no `trait_added` event). -/
theorem addTrait_existing (E : Env) (st : St) (o : Id) (n : Name) (tagged : Bool) (d : Dflt)
    (fs : List Field) (f : Field) (ho : st.h.get o = .inst fs) (hf : findField fs n = some f) :
    (mutate E st (.addTrait o n tagged d)).st.H = st.H ∧ (mutate E st (.addTrait o n tagged d)).delivered = [] ∧
    (mutate E st (.addTrait o n tagged d)).err = none := by
  simp [mutate, ho, hf]

/-! ### non-vacuity witness

`a.child = b`; `b` has no `value` trait; `a.observe(handler, …)` with the graph `child` →
OPTIONAL `value` → optional `child`; then `b.add_trait("value", …)`. -/
namespace AddWitness

def fld (n : Name) (v : Val) : Field := ⟨n, false, .val (if n == nValue then .int 0 else .none), v, .equality⟩

def aKey : HKey := ⟨0, 0⟩

def aHeap : Heap :=
  [(0, .inst [fld nChild (.ref 1), fld nTraitAdded .unset]),
   (1, .inst [fld nChild .none, fld nTraitAdded .unset])]
def aFs : List Field := [fld nChild .none, fld nTraitAdded .unset]
/-- `child.value` with `value` optional, a further link `.child` below it (so that a maintainer is owed too) -/
def aGraph : Graph :=
  .node (.named nChild true false) [.node (.named nValue true true) [.node (.named nChild true true) []]]
def aSt : St := ⟨aHeap, (addRemove aHeap aKey false true aGraph (some 0) Hooks.empty).H⟩
def aRegs : List Reg := [⟨aKey, aGraph, 0⟩]

theorem aInv : HooksEqReach aSt.h aSt.H aRegs := by
  have hok : (addRemove aHeap aKey false true aGraph (some 0) Hooks.empty).err = none := by decide
  obtain ⟨_, hc, hw⟩ := addRemove_add aHeap aKey aGraph true (some 0) Hooks.empty hok
  refine ⟨hw WF_empty, ?_⟩
  intro o q
  show cnt (addRemove aHeap aKey false true aGraph (some 0) Hooks.empty).H o q = _
  rw [hc]
  simp [specCnt, cnt, Hooks.empty, cntList, aRegs, aSt]

theorem aHooks : aSt.H.get (.trait 1 nTraitAdded) =
    [.maint .added (.node (.named nValue true true) [.node (.named nChild true true) []]) aKey] := rfl
theorem aNodes : nodesAt aSt.h 1 aGraph (some 0) =
    [.node (.named nValue true true) [.node (.named nChild true true) []]] := rfl

/-- The hypotheses of `addTrait_preserves` hold for `b.add_trait("value", …)`. -/
theorem aCore : AddCore {} aSt aRegs 1 nValue false (.val (.int 0)) aFs where
  ho := rfl
  noFiltered := by intro r hr; simp [aRegs] at hr; subst hr; decide
  alive := fun _ => rfl
  okNone := by intro c k hm; rw [aHooks] at hm; simp at hm
  eqStruct := by
    intro g k hm r hr g' hg' he
    rw [aHooks] at hm
    simp at hm
    obtain ⟨rfl, rfl⟩ := hm
    simp [aRegs] at hr; subst hr
    rw [aNodes] at hg'
    simp at hg'; subst hg'
    exact ⟨rfl, rfl⟩

/-- … the theorem applies: after `b.add_trait("value")` the hooks are the from-scratch hooks of
the new heap -/
example : HooksEqReach (mutate {} aSt (.addTrait 1 nValue false (.val (.int 0)))).st.h
    (mutate {} aSt (.addTrait 1 nValue false (.val (.int 0)))).st.H aRegs :=
  (addTrait_preserves {} aSt aRegs 1 nValue false (.val (.int 0)) aFs aInv aCore rfl).1

/-- `b.value` gets the user notifier and the maintainer for the link below it; nothing was there before -/
example : cnt aSt.H (.trait 1 nValue) (.user aKey) = 0 ∧
    cnt (mutate {} aSt (.addTrait 1 nValue false (.val (.int 0)))).st.H (.trait 1 nValue) (.user aKey) = 1 ∧
    cnt (mutate {} aSt (.addTrait 1 nValue false (.val (.int 0)))).st.H (.trait 1 nValue)
      (.maint .trait (.node (.named nChild true true) []) aKey) = 1 ∧
    (mutate {} aSt (.addTrait 1 nValue false (.val (.int 0)))).err = none := by decide

end AddWitness

end TraitsVerif.Model.Obs
