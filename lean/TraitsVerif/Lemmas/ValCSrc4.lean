/-
Source tie of the compiled validators, part 4: one iteration of the loop of
`validate_trait_complex` (the `switch` on the entry's kind) for every kind whose `case`
has no inner loop is the arm of `complexCase` for that kind, followed by the rest of the loop.
-/
import TraitsVerif.Lemmas.ValCSrc3
namespace TraitsVerif.Model.CSrc
open TraitsVerif TraitsVerif.Py.Value TraitsVerif.Model.Val TraitsVerif.Generated.CValidators

macro "csrc_evalw" "[" ls:Lean.Parser.Tactic.simpLemma,* "]" : tactic => `(tactic|
  simp [runFn, exec, evalE, evalArgs, execCases, runTails, Tails.from, St.get, St.set, evalField,
    prim_GET_SIZE, prim_GET_ITEM, prim_TypeCheck, prim_IsInstance, prim_TYPE, prim_TYPE_obj, prim_LongExact,
    prim_FloatExact, prim_ComplexExact, prim_TupleCheck, prim_Callable, prim_Index, prim_Long, prim_AsDouble,
    prim_FromDouble, prim_AS_DOUBLE, prim_AsCComplex, prim_FromCComplex, prim_AsLong, prim_IsTrue, prim_Contains,
    prim_DictGet, prim_ExcMatches, prim_Occurred, prim_Clear, prim_Pack, prim_Call, prim_CallMethod, prim_New,
    prim_INCREF, prim_DECREF, prim_XDECREF, prim_raise, prim_default_adapt, prim_default_complex, prim_helper,
    pyCall_ty, pyCall_fn, pyCall_handler, pyCall_adapt,
    cvEq, cvLt, cvLe, cvBitAnd, cvAdd, cvSub, cvNeg, pyValidateOf, layout, getItem, getSize, kindItem, noneSlot, optF,
    $ls,*])

set_option maxRecDepth 16384
set_option maxHeartbeats 1000000
variable (E : Env) (inner : Desc → Val → Res) (cdflt : Val) (fuel : Nat)

/-- The (last) `for` loop of a function body. -/
def getLoop : Stmt → Stmt × Expr × Expr × Stmt
  | .seq _ b => getLoop b
  | .forLoop i c inc b => (i, c, inc, b)
  | _ => (.skip, .null, .null, .skip)

/-- The continuation `runFn` gives the body of `f`. -/
def fnK (C : Ctx) (f : Fn) : Out → St → Option (CV × Err) := fun o s =>
  match o with
  | .ret v => some (v, s.err)
  | .norm => runTails C fuel f.tails s
  | .goto l => runTails C fuel (f.tails.from l) s
  | _ => none

theorem resToC_norm (r : Res) : toRes (some (resToC r)) = some (norm r) := by
  cases r with
  | ok w => rfl
  | traitError => rfl
  | raised e => cases e <;> rfl

/-- Members of a compound for which the C code takes the compound's default (F49). -/
def dfltOk (cdflt : Val) : Desc → Prop
  | .adapt _ mode _ dflt => mode = 0 ∨ mode = 1 ∨ dflt = cdflt
  | _ => True

/-- One iteration of a `for` loop, the remaining iterations being `rec`. -/
def iterStep {R : Type} (cond incr : St → (CV → St → R) → R) (body : St → (Out → St → R) → R)
    (k : Out → St → R) (rec : St → R) (s : St) : R :=
  cond s fun c s1 =>
    if c.truthy then
      body s1 fun o s2 =>
        match o with
        | .norm => incr s2 fun _ s3 => rec s3
        | .brk => k .norm s2
        | o => k o s2
    else k .norm s1

theorem iter_succ {R : Type} (cond incr : St → (CV → St → R) → R) (body : St → (Out → St → R) → R)
    (k : Out → St → R) (n : Nat) (s : St) :
    iter cond incr body k (n + 1) s = iterStep cond incr body k (iter cond incr body k n) s := rfl

/-- The local variables of `validate_trait_complex` inside its loop: the four
parameters, `list_type_info`, `n`, the loop counter `i`, and whatever the other locals hold. -/
def cxS (ds : List Desc) (v : Val) (i : Int) (a4 a5 a6 a7 a8 a9 a10 a11 a15 a16 a17 a18 a19 : CV) : St :=
  ⟨[.trait (.complex ds), .hobj, .name, .obj v, a4, a5, a6, a7, a8, a9, a10, a11,
    .infos ds, .int ds.length, .int i, a15, a16, a17, a18, a19], none⟩

/-- The rest of the loop does what `fastComplex` does on the remaining entries. -/
def CxIH (R : St → Option (CV × Err)) (ds : List Desc) (v : Val) (i : Int) (rest : List Desc) : Prop :=
  ∀ (b4 b5 b6 b7 b8 b9 b10 b11 b15 b16 b17 b18 b19 : CV), R (cxS ds v i b4 b5 b6 b7 b8 b9 b10 b11 b15 b16 b17 b18 b19) = some (resToC (fastComplex E rest v))

/-- One iteration of the loop of `validate_trait_complex` on entry `d` at position `pre.length`. -/
def CxStep (R : St → Option (CV × Err)) (ds : List Desc) (v : Val) (n : Nat) (d : Desc) (rest : List Desc)
    (a4 a5 a6 a7 a8 a9 a10 a11 a15 a16 a17 a18 a19 : CV) : Prop :=
  iterStep (fun s k' => evalE (C1 E inner cdflt fuel) (getLoop fn_validate_trait_complex.body).2.1 s k')
    (fun s k' => evalE (C1 E inner cdflt fuel) (getLoop fn_validate_trait_complex.body).2.2.1 s k')
    (fun s k' => exec (C1 E inner cdflt fuel) fuel (getLoop fn_validate_trait_complex.body).2.2.2 s k')
    (fnK fuel (C1 E inner cdflt fuel) fn_validate_trait_complex) R (cxS ds v n a4 a5 a6 a7 a8 a9 a10 a11 a15 a16 a17 a18 a19) =
  some (resToC (fastComplex E (d :: rest) v))

section step
variable (R : St → Option (CV × Err)) (ds : List Desc) (v : Val) (n : Nat) (rest : List Desc) (a4 a5 a6 a7 a8 a9 a10 a11 a15 a16 a17 a18 a19 : CV)
variable (hlt : n < ds.length) (ih' : CxIH E R ds v (↑n + 1) rest)

macro "cx_start" : tactic => `(tactic|
  simp only [CxStep, iterStep, cxS, fn_validate_trait_complex, getLoop, fnK, C1])

include hlt ih' in
theorem cx_int (hget : ds[n]'hlt = .int) :
    CxStep E inner cdflt fuel R ds v n (.int) rest a4 a5 a6 a7 a8 a9 a10 a11 a15 a16 a17 a18 a19 := by
  cx_start
  simp only [CxIH, cxS] at ih'
  csrc_evalw [hget, hlt]
  simp only [helpers_as_integer, fastComplex, complexCase]
  cases h : asInteger v with
  | ok w => simp [exceptToC, resToC]
  | error e => cases e <;> simp [exceptToC, resToC, ih']

include hlt ih' in
theorem cx_float (hget : ds[n]'hlt = .float) :
    CxStep E inner cdflt fuel R ds v n (.float) rest a4 a5 a6 a7 a8 a9 a10 a11 a15 a16 a17 a18 a19 := by
  cx_start
  simp only [CxIH, cxS] at ih'
  csrc_evalw [hget, hlt]
  simp only [helpers_validate_float, fastComplex, complexCase]
  cases h : validateFloat v with
  | ok w => simp [exceptToC, resToC]
  | error e => cases e <;> simp [exceptToC, resToC, ih']

include hlt ih' in
theorem cx_complexNumber (hget : ds[n]'hlt = .complexNumber) :
    CxStep E inner cdflt fuel R ds v n (.complexNumber) rest a4 a5 a6 a7 a8 a9 a10 a11 a15 a16 a17 a18 a19 := by
  cx_start
  simp only [CxIH, cxS] at ih'
  csrc_evalw [hget, hlt]
  simp only [helpers_validate_complex_number, fastComplex, complexCase]
  cases h : validateComplexNumber v with
  | ok w => simp [exceptToC, resToC]
  | error e => cases e <;> simp [exceptToC, resToC, ih']

include hlt ih' in
theorem cx_typeChk (an : Bool) (ty : Ty) (hget : ds[n]'hlt = .typeChk an ty) :
    CxStep E inner cdflt fuel R ds v n (.typeChk an ty) rest a4 a5 a6 a7 a8 a9 a10 a11 a15 a16 a17 a18 a19 := by
  cx_start
  simp only [CxIH, cxS] at ih'
  cases an <;> csrc_evalw [hget, hlt] <;> simp only [fastComplex, complexCase, isNone_iff] <;>
    cases v.isNone <;> cases Val.isInst ty v <;> simp [ih', resToC]

include hlt ih' in
theorem cx_instChk (an : Bool) (ty : Ty) (hget : ds[n]'hlt = .instChk an ty) :
    CxStep E inner cdflt fuel R ds v n (.instChk an ty) rest a4 a5 a6 a7 a8 a9 a10 a11 a15 a16 a17 a18 a19 := by
  cx_start
  simp only [CxIH, cxS] at ih'
  cases an <;> csrc_evalw [hget, hlt] <;> simp only [fastComplex, complexCase, isNone_iff] <;>
    cases v.isNone <;> cases Val.isInst ty v <;> simp [ih', resToC, ofBool]

include hlt ih' in
theorem cx_selfType (an : Bool) (hget : ds[n]'hlt = .selfType an) :
    CxStep E inner cdflt fuel R ds v n (.selfType an) rest a4 a5 a6 a7 a8 a9 a10 a11 a15 a16 a17 a18 a19 := by
  cx_start
  simp only [CxIH, cxS] at ih'
  cases an <;> csrc_evalw [hget, hlt] <;> simp only [fastComplex, complexCase, isNone_iff] <;>
    cases v.isNone <;> cases Val.isInst (.user E.selfCls) v <;> simp [ih', resToC]

include hlt ih' in
theorem cx_floatRange (lo hi : Option F) (mask : Nat) (hget : ds[n]'hlt = .floatRange lo hi mask) :
    CxStep E inner cdflt fuel R ds v n (.floatRange lo hi mask) rest a4 a5 a6 a7 a8 a9 a10 a11 a15 a16 a17 a18 a19 := by
  cx_start
  simp only [CxIH, cxS] at ih'
  csrc_evalw [hget, hlt]
  simp only [helpers_validate_float, fastComplex, complexCase]
  cases h : validateFloat v with
  | ok w =>
    simp [exceptToC, helpers_in_float_range]
    cases inFloatRange (floatOf w) lo hi mask <;> simp [ofBool, ih', resToC]
  | error e => cases e <;> simp [exceptToC, resToC, ih']

include hlt ih' in
theorem cx_enum (vals : List Val) (hget : ds[n]'hlt = .enum vals) :
    CxStep E inner cdflt fuel R ds v n (.enum vals) rest a4 a5 a6 a7 a8 a9 a10 a11 a15 a16 a17 a18 a19 := by
  cx_start
  simp only [CxIH, cxS] at ih'
  csrc_evalw [hget, hlt]
  simp only [fastComplex, complexCase]
  cases seqContains vals v <;> simp [ih', resToC]

include hlt ih' in
theorem cx_map (keys : List Val) (hget : ds[n]'hlt = .map keys) :
    CxStep E inner cdflt fuel R ds v n (.map keys) rest a4 a5 a6 a7 a8 a9 a10 a11 a15 a16 a17 a18 a19 := by
  cx_start
  simp only [CxIH, cxS] at ih'
  csrc_evalw [hget, hlt]
  simp only [fastComplex, complexCase]
  cases h : dictFind keys v with
  | ok o => cases o <;> simp [ih', resToC]
  | error e => simp [ih', resToC]

include hlt ih' in
theorem cx_slow (h : Val → Res) (hh : ∀ x, h x ≠ .raised .traitError) (hget : ds[n]'hlt = .slow h) :
    CxStep E inner cdflt fuel R ds v n (.slow h) rest a4 a5 a6 a7 a8 a9 a10 a11 a15 a16 a17 a18 a19 := by
  cx_start
  simp only [CxIH, cxS] at ih'
  csrc_evalw [hget, hlt]
  simp only [fastComplex, complexCase]
  cases hv : h v with
  | ok w => simp [resToC]
  | traitError => simp [ih', resToC]
  | raised e =>
    have := hh v
    cases e <;> simp_all [resToC]

include hlt ih' in
theorem cx_cast (ty : Ty) (hget : ds[n]'hlt = .cast ty) :
    CxStep E inner cdflt fuel R ds v n (.cast ty) rest a4 a5 a6 a7 a8 a9 a10 a11 a15 a16 a17 a18 a19 := by
  cx_start
  simp only [CxIH, cxS] at ih'
  csrc_evalw [hget, hlt]
  simp only [fastComplex, complexCase, helpers_type_converter]
  cases Val.exactTy ty v <;> simp [resToC]
  cases E.cast ty v <;> simp [exceptToC, ih', resToC]

include hlt ih' in
theorem cx_function (f : Nat) (hget : ds[n]'hlt = .function f) :
    CxStep E inner cdflt fuel R ds v n (.function f) rest a4 a5 a6 a7 a8 a9 a10 a11 a15 a16 a17 a18 a19 := by
  cx_start
  simp only [CxIH, cxS] at ih'
  csrc_evalw [hget, hlt]
  simp only [fastComplex, complexCase, helpers_call_validator]
  cases E.fn f v <;> simp [exceptToC, ih', resToC]

include hlt ih' in
theorem cx_callable (an : Option Bool) (hget : ds[n]'hlt = .callable an) :
    CxStep E inner cdflt fuel R ds v n (.callable an) rest a4 a5 a6 a7 a8 a9 a10 a11 a15 a16 a17 a18 a19 := by
  cx_start
  simp only [CxIH, cxS] at ih'
  csrc_evalw [hget, hlt]
  simp only [fastComplex, complexCase, helpers_callable]
  cases validateCallable an v <;> simp [ofBool, ih', resToC]

include hlt ih' in
theorem cx_complex (ds' : List Desc) (hget : ds[n]'hlt = .complex ds') :
    CxStep E inner cdflt fuel R ds v n (.complex ds') rest a4 a5 a6 a7 a8 a9 a10 a11 a15 a16 a17 a18 a19 := by
  cx_start
  simp only [CxIH, cxS] at ih'
  csrc_evalw [hget, hlt]
  simp [fastComplex, complexCase, resToC]

include hlt ih' in
theorem cx_adapt (hA : AdaptSome E) (cls : Ty) (mode : Nat) (an : Bool) (dflt : Val) (hdf : mode = 0 ∨ mode = 1 ∨ dflt = cdflt) (hget : ds[n]'hlt = .adapt cls mode an dflt) :
    CxStep E inner cdflt fuel R ds v n (.adapt cls mode an dflt) rest a4 a5 a6 a7 a8 a9 a10 a11 a15 a16 a17 a18 a19 := by
  cx_start
  simp only [CxIH, cxS] at ih'
  have hm : ((mode : Int) = 1) ↔ (mode = 1) := by omega
  cases an <;> csrc_evalw [hget, hlt] <;> simp only [fastComplex, complexCase, isNone_iff, hm] <;>
    cases v.isNone <;> simp [ofBool, ih', resToC] <;>
    (by_cases h0 : mode = 0 <;> simp [h0]) <;>
    (try (cases Val.isInst cls v <;> simp [ih', resToC]))
  all_goals
    cases ha : E.adapt v cls with
    | error e => cases e <;> simp [resToC]
    | ok o =>
      cases o with
      | none =>
        by_cases h1 : mode = 1
        · simp [h1, ih', resToC]
        · have : dflt = cdflt := by
            rcases hdf with h | h | h
            · exact absurd h h0
            · exact absurd h h1
            · exact h
          simp [h1, this, resToC]
      | some r =>
        have := hA v cls r ha
        simp [(isNone_iff r).symm, this, resToC]

end step
end TraitsVerif.Model.CSrc
