/-
Link graphs on which the propagation of `sync_trait` visits no trait twice:
a trait whose partners point back at it only (one mutual or one-way link, or a
hub with several partners).  Also: what `unlink` and `kill` leave in the tables.
-/
import TraitsVerif.Lemmas.SyncFoot
namespace TraitsVerif.Model.Sync
open TraitsVerif TraitsVerif.Py TraitsVerif.Model
variable {α : Type}

theorem flatMap_eq_nil_of_forall {β γ : Type} (f : β → List γ) (l : List β) (h : ∀ x ∈ l, f x = []) :
    l.flatMap f = [] := by
  induction l with
  | nil => rfl
  | cons x xs ih =>
    rw [List.flatMap_cons, h x (by simp), ih (fun y hy => h y (by simp [hy]))]; rfl

theorem flatMap_singleton' {β : Type} (f : β → List β) (l : List β) (h : ∀ x ∈ l, f x = [x]) :
    l.flatMap f = l := by
  induction l with
  | nil => rfl
  | cons x xs ih =>
    rw [List.flatMap_cons, h x (by simp), ih (fun y hy => h y (by simp [hy]))]; rfl

/-- **Hub.** If the partners of `p` are pairwise distinct, are not `p`, and
have no partner other than `p`, a propagation started on `p` visits `p` and then
its partners, each once — depth two. -/
theorem visit_hub (es : List Edge) (p : Pair) (d : Nat)
    (hnd : ((es.filter (fun e => e.src = p)).map (·.dst)).Nodup)
    (hp : p ∉ (es.filter (fun e => e.src = p)).map (·.dst))
    (hback : ∀ q ∈ (es.filter (fun e => e.src = p)).map (·.dst),
      ∀ t ∈ (es.filter (fun e => e.src = q)).map (·.dst), t = p) :
    visit es (d + 2) [] p = p :: (es.filter (fun e => e.src = p)).map (·.dst) := by
  rw [visit_succ]
  congr 1
  apply flatMap_singleton'
  intro q hq
  have hqp : q ≠ p := by rintro rfl; exact hp hq
  rw [if_neg (by simpa using hqp), visit_succ]
  congr 1
  apply flatMap_eq_nil_of_forall
  intro t ht
  rw [hback q hq t ht]
  simp

theorem visit_hub_nodup (es : List Edge) (p : Pair) (d : Nat)
    (hnd : ((es.filter (fun e => e.src = p)).map (·.dst)).Nodup)
    (hp : p ∉ (es.filter (fun e => e.src = p)).map (·.dst))
    (hback : ∀ q ∈ (es.filter (fun e => e.src = p)).map (·.dst),
      ∀ t ∈ (es.filter (fun e => e.src = q)).map (·.dst), t = p) :
    (visit es (d + 2) [] p).Nodup := by
  rw [visit_hub es p d hnd hp hback]
  exact List.nodup_cons.mpr ⟨hp, hnd⟩

/-! ### Tables after `unlink` and `kill` -/

theorem mem_unlinkOne_edges (E : Env α) (w : World α) (p q : Pair) (e : Edge) :
    e ∈ (w.unlinkOne E p q).edges ↔ e ∈ w.edges ∧ e ≠ ⟨p, q⟩ := by
  unfold World.unlinkOne
  split
  · simp [List.mem_filter]
  · rename_i h
    constructor
    · intro he; exact ⟨he, fun h' => h (h' ▸ he)⟩
    · intro he; exact he.1

theorem mem_unlink_edges (E : Env α) (w : World α) (p q : Pair) (e : Edge) :
    e ∈ (w.unlink E p q true).edges ↔ e ∈ w.edges ∧ e ≠ ⟨p, q⟩ ∧ e ≠ ⟨q, p⟩ := by
  simp only [World.unlink, if_true, mem_unlinkOne_edges]
  constructor
  · rintro ⟨⟨h1, h2⟩, h3⟩; exact ⟨h1, h2, h3⟩
  · rintro ⟨h1, h2, h3⟩; exact ⟨⟨h1, h2⟩, h3⟩

theorem unlinkOne_val (E : Env α) (w : World α) (p q : Pair) :
    (w.unlinkOne E p q).val = w.val ∧ (w.unlinkOne E p q).nChg = w.nChg ∧
      (w.unlinkOne E p q).nItems = w.nItems := by
  unfold World.unlinkOne; split <;> exact ⟨rfl, rfl, rfl⟩

theorem mem_kill_edges (w : World α) (o : Nat) (e : Edge) :
    e ∈ (w.kill o).edges ↔ e ∈ w.edges ∧ e.src.1 ≠ o ∧ e.dst.1 ≠ o := by
  simp [World.kill, List.mem_filter]

end TraitsVerif.Model.Sync
