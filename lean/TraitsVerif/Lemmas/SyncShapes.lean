/-
Link graphs on which the propagation of `sync_trait` visits no trait twice:
a trait whose partners point back at it only (one mutual or one-way link, or a
hub with several partners).  Also: what `unlink` and `kill` leave in the tables.
-/
import TraitsVerif.Lemmas.SyncFoot
namespace TraitsVerif.Model.Sync
open TraitsVerif TraitsVerif.Py TraitsVerif.Model
variable {α : Type}

theorem flatMap_eq_nil_of_forall {β γ : Type} (f : β → List γ) (l : List β) (h : ∀ x ∈ l, f x = []) :
    l.flatMap f = [] := by
  induction l with
  | nil => rfl
  | cons x xs ih =>
    rw [List.flatMap_cons, h x (by simp), ih (fun y hy => h y (by simp [hy]))]; rfl

theorem flatMap_singleton' {β : Type} (f : β → List β) (l : List β) (h : ∀ x ∈ l, f x = [x]) :
    l.flatMap f = l := by
  induction l with
  | nil => rfl
  | cons x xs ih =>
    rw [List.flatMap_cons, h x (by simp), ih (fun y hy => h y (by simp [hy]))]; rfl

/-- **Hub.** If the partners of `p` are pairwise distinct, are not `p`, and
have no partner other than `p`, a propagation started on `p` visits `p` and then
its partners, each once — depth two. -/
theorem visit_hub (es : List Edge) (p : Pair) (d : Nat)
    (hnd : ((es.filter (fun e => e.src = p)).map (·.dst)).Nodup)
    (hp : p ∉ (es.filter (fun e => e.src = p)).map (·.dst))
    (hback : ∀ q ∈ (es.filter (fun e => e.src = p)).map (·.dst),
      ∀ t ∈ (es.filter (fun e => e.src = q)).map (·.dst), t = p) :
    visit es (d + 2) [] p = p :: (es.filter (fun e => e.src = p)).map (·.dst) := by
  rw [visit_succ]
  congr 1
  apply flatMap_singleton'
  intro q hq
  have hqp : q ≠ p := by rintro rfl; exact hp hq
  rw [if_neg (by simpa using hqp), visit_succ]
  congr 1
  apply flatMap_eq_nil_of_forall
  intro t ht
  rw [hback q hq t ht]
  simp

theorem visit_hub_nodup (es : List Edge) (p : Pair) (d : Nat)
    (hnd : ((es.filter (fun e => e.src = p)).map (·.dst)).Nodup)
    (hp : p ∉ (es.filter (fun e => e.src = p)).map (·.dst))
    (hback : ∀ q ∈ (es.filter (fun e => e.src = p)).map (·.dst),
      ∀ t ∈ (es.filter (fun e => e.src = q)).map (·.dst), t = p) :
    (visit es (d + 2) [] p).Nodup := by
  rw [visit_hub es p d hnd hp hback]
  exact List.nodup_cons.mpr ⟨hp, hnd⟩

/-! ### Tables after `unlink` and `kill` -/

theorem mem_unlinkOne_edges (E : Env α) (w : World α) (p q : Pair) (e : Edge) :
    e ∈ (w.unlinkOne E p q).edges ↔ e ∈ w.edges ∧ e ≠ ⟨p, q⟩ := by
  unfold World.unlinkOne
  split
  · simp [List.mem_filter]
  · rename_i h
    constructor
    · intro he; exact ⟨he, fun h' => h (h' ▸ he)⟩
    · intro he; exact he.1

theorem mem_unlink_edges (E : Env α) (w : World α) (p q : Pair) (e : Edge) :
    e ∈ (w.unlink E p q true).edges ↔ e ∈ w.edges ∧ e ≠ ⟨p, q⟩ ∧ e ≠ ⟨q, p⟩ := by
  simp only [World.unlink, if_true, mem_unlinkOne_edges]
  constructor
  · rintro ⟨⟨h1, h2⟩, h3⟩; exact ⟨h1, h2, h3⟩
  · rintro ⟨h1, h2, h3⟩; exact ⟨⟨h1, h2⟩, h3⟩

theorem unlinkOne_val (E : Env α) (w : World α) (p q : Pair) :
    (w.unlinkOne E p q).val = w.val ∧ (w.unlinkOne E p q).nChg = w.nChg ∧
      (w.unlinkOne E p q).nItems = w.nItems := by
  unfold World.unlinkOne; split <;> exact ⟨rfl, rfl, rfl⟩

theorem mem_kill_edges (w : World α) (o : Nat) (e : Edge) :
    e ∈ (w.kill o).edges ↔ e ∈ w.edges ∧ e.src.1 ≠ o ∧ e.dst.1 ≠ o := by
  simp [World.kill, List.mem_filter]

/-! ### Depth two, for the recursion itself -/

variable {π : Type}

/-- A loop all of whose partners are locked does nothing, whatever the nested call is. -/
theorem foldl_all_locked {rec : World α → Pair → π → Except Exc (World α × Option α)} {y : π}
    (ps : List Pair) (acc : World α) (h : ∀ t ∈ ps, t ∈ acc.locked) :
    ps.foldl (visitPartner rec y) acc = acc := by
  induction ps with
  | nil => rfl
  | cons t ts ih =>
    simp only [List.foldl_cons]
    have : visitPartner rec y acc t = acc := by
      unfold visitPartner; rw [if_pos (h t (by simp))]
    rw [this]
    exact ih (fun t' ht' => h t' (by simp [ht']))

/-- Two loops agree if their nested calls agree on every state the loop can be in. -/
theorem foldl_congr_inv {rec rec' : World α → Pair → π → Except Exc (World α × Option α)} {y : π}
    (Inv : World α → Prop) (ps : List Pair)
    (hrec : ∀ acc q, Inv acc → q ∈ ps → q ∉ acc.locked → rec acc q y = rec' acc q y)
    (hinv : ∀ acc q acc' r, Inv acc → q ∈ ps → q ∉ acc.locked → rec acc q y = .ok (acc', r) → Inv acc')
    (acc : World α) (hacc : Inv acc) :
    ps.foldl (visitPartner rec y) acc = ps.foldl (visitPartner rec' y) acc := by
  induction ps generalizing acc with
  | nil => rfl
  | cons q qs ih =>
    simp only [List.foldl_cons]
    have hstep : visitPartner rec y acc q = visitPartner rec' y acc q := by
      unfold visitPartner
      split
      · rfl
      · rename_i hq; rw [hrec acc q hacc (by simp) hq]
    rw [← hstep]
    apply ih (fun acc q' hi hm hl => hrec acc q' hi (by simp [hm]) hl)
      (fun acc q' acc' r hi hm hl h => hinv acc q' acc' r hi (by simp [hm]) hl h)
    unfold visitPartner
    split
    · exact hacc
    · rename_i hq
      split
      · rename_i acc' r h; exact hinv acc q acc' r hacc (by simp) hq h
      · exact hacc

/-- **Depth ≤ 2.** For a trait whose partners have no partner but itself, a
propagation started from empty lock tables never nests deeper than two calls:
every budget ≥ 2 gives the result of budget 2. -/
theorem cascade_hub_depth {apply : World α → Pair → π → Except Exc (World α × Option α × Option π)}
    (hl : Local apply) (w : World α) (p : Pair) (x : π) (d : Nat) (hL : w.locked = [])
    (hback : ∀ q ∈ w.partners p, ∀ t ∈ w.partners q, t = p) :
    cascade apply (d + 2) w p x = cascade apply 2 w p x := by
  rw [cascade_succ, cascade_succ (d := 1)]
  split
  · rfl
  · rfl
  · rename_i w1 r1 y happ
    have h1 : SameTabs w w1 := ⟨hl.edges happ, hl.locked happ, hl.hooked happ⟩
    split
    · rfl
    · congr 3
      apply foldl_congr_inv (fun acc => acc.edges = w.edges ∧ acc.locked = [p]) (w1.partners p)
      · -- the nested call on a partner: its own loop finds only `p`, which is locked
        intro acc q ⟨hae, hal⟩ hq _
        rw [partners_congr h1.1] at hq
        rw [cascade_succ, cascade_succ (d := 0)]
        split
        · rfl
        · rfl
        · rename_i w2 r2 y2 happ2
          have h2e : w2.edges = w.edges := by rw [hl.edges happ2]; exact hae
          have h2l : w2.locked = [p] := by rw [hl.locked happ2]; exact hal
          split
          · rfl
          · have hall : ∀ t ∈ w2.partners q, t ∈ (w2.lock q).locked := by
              intro t ht
              rw [partners_congr (w := w) (w' := w2) h2e] at ht
              rw [hback q hq t ht]
              simp [World.lock, h2l]
            rw [foldl_all_locked _ _ hall, foldl_all_locked _ _ hall]
      · intro acc q acc' r ⟨hae, hal⟩ _ hql hc
        have := cascade_frame hl _ acc q y acc' r hql hc
        exact ⟨by rw [this.1]; exact hae, by rw [this.2.1]; exact hal⟩
      · exact ⟨by simp [World.lock, h1.1], by simp [World.lock, h1.2.1, hL]⟩

end TraitsVerif.Model.Sync
