/-
The items handler `_sync_trait_items_modified` is registered on every trait that
has a `List` partner: an invariant of all histories (`run_hookOk`), with the
registration rule of the repaired `sync_trait` (finding F61).
-/
import TraitsVerif.Lemmas.SyncOps
namespace TraitsVerif.Model.Sync
open TraitsVerif TraitsVerif.Py TraitsVerif.Model
variable {α : Type}

/-- Every `List` trait with a `List` partner has the items handler registered. -/
def HookOk (E : Env α) (w : World α) : Prop :=
  ∀ e ∈ w.edges, E.isList e.src = true → E.isList e.dst = true → e.src ∈ w.hooked

instance (E : Env α) (w : World α) : Decidable (HookOk E w) := by unfold HookOk; infer_instance

theorem HookOk.of_sameTabs {E : Env α} {w w' : World α} (h : HookOk E w) (ht : SameTabs w w') :
    HookOk E w' := by
  intro e he; rw [ht.1] at he; rw [ht.2.2]; exact h e he

theorem register_hookOk {E : Env α} {w : World α} (h : HookOk E w) (p q : Pair) :
    HookOk E (w.register E p q) := by
  intro e he hs hd
  have hmono : ∀ t, t ∈ w.hooked → t ∈ (w.register E p q).hooked := by
    intro t ht
    unfold World.register; simp only; split
    · exact List.mem_cons_of_mem _ ht
    · exact ht
  have he' : e ∈ w.edges ++ [(⟨p, q⟩ : Edge)] := he
  rcases List.mem_append.mp he' with he' | he'
  · exact hmono _ (h e he' hs hd)
  · simp only [List.mem_singleton] at he'
    subst he'
    simp only at hs hd
    unfold World.register
    by_cases hm : p ∈ w.hooked
    · simp [hm]
    · simp [hs, hd, hm]

theorem linkOne_hookOk [DecidableEq α] {E : Env α} {w : World α} (h : HookOk E w) (hL : w.locked = [])
    (p q : Pair) : HookOk E (w.linkOne E p q).world := by
  unfold World.linkOne
  split
  · exact h
  · have hr : (w.register E p q).locked = [] := hL
    exact (register_hookOk h p q).of_sameTabs
      (assign_sameTabs E (w.register E p q) q (w.val p) (by simp [hr]))

theorem link_hookOk [DecidableEq α] {E : Env α} {w : World α} (h : HookOk E w) (hL : w.locked = [])
    (p q : Pair) (b : Bool) : HookOk E (w.link E p q b).world := by
  unfold World.link
  simp only
  split
  · exact linkOne_hookOk h hL p q
  · split
    · exact linkOne_hookOk (linkOne_hookOk h hL p q) (linkOne_locked E w p q hL) q p
    · exact linkOne_hookOk h hL p q

theorem unlinkOne_hookOk {E : Env α} {w : World α} (h : HookOk E w) (p q : Pair) :
    HookOk E (w.unlinkOne E p q) := by
  unfold World.unlinkOne
  split
  · intro e he hs hd
    simp only at he ⊢
    have he0 : e ∈ w.edges := (List.mem_filter.mp he).1
    have hin := h e he0 hs hd
    split
    · rename_i hcond
      simp only [Bool.and_eq_true, Bool.not_eq_true', List.any_eq_false, decide_eq_true_eq] at hcond
      apply List.mem_filter.mpr
      refine ⟨hin, ?_⟩
      simp only [ne_eq, decide_eq_true_eq]
      intro hsrc
      have := hcond.2 e he
      simp [hsrc, hd] at this
    · exact hin
  · exact h

theorem unlink_hookOk {E : Env α} {w : World α} (h : HookOk E w) (p q : Pair) (b : Bool) :
    HookOk E (w.unlink E p q b) := by
  unfold World.unlink
  split
  · exact unlinkOne_hookOk (unlinkOne_hookOk h p q) q p
  · exact unlinkOne_hookOk h p q

theorem kill_hookOk {E : Env α} {w : World α} (h : HookOk E w) (o : Nat) : HookOk E (w.kill o) := by
  intro e he hs hd
  simp only [World.kill, List.mem_filter, decide_eq_true_eq] at he ⊢
  exact ⟨h e he.1 hs hd, by simpa using he.2.1⟩

theorem step_hookOk [DecidableEq α] {E : Env α} {w : World α} (h : HookOk E w) (hL : w.locked = [])
    (c : Cmd α) : HookOk E (w.step E c).world := by
  cases c with
  | assign p v => exact h.of_sameTabs (assign_sameTabs E w p v (by simp [hL]))
  | mutate p op => exact h.of_sameTabs (mutate_sameTabs E w p op (by simp [hL]))
  | link p q b => exact link_hookOk h hL p q b
  | unlink p q b => exact unlink_hookOk h p q b
  | kill o => exact kill_hookOk h o

/-- **The items handler is registered wherever it is needed**, after every history. -/
theorem run_hookOk [DecidableEq α] (E : Env α) (cs : List (Cmd α)) :
    ∀ w : World α, HookOk E w → w.locked = [] → HookOk E (World.run E w cs) := by
  induction cs with
  | nil => intro w h _; exact h
  | cons c cs ih =>
    intro w h hL
    exact ih _ (step_hookOk h hL c) (step_locked E w c hL)

end TraitsVerif.Model.Sync
