/-
Cluster `obs`: the refinement invariant is preserved by a trait assignment `o.n = v`
when the active registrations MAY contain `filtered` nodes (`*`, `+metadata`).

`ObsInv.lean` / `ObsInvSet.lean` decompose every from-scratch walk at the nodes that
READ the mutated trait: `named n` nodes standing on `o`.  A `filtered fl` node standing
on `o` whose filter matches the field `n` reads it too — among the values of all the
other matching fields of `o`, which the assignment leaves alone.  This file redoes
the decomposition (`decF`), locality (`localityF`) and the count of maintainers on
the mutated trait (`stable_at_targetF`) with

  hits  = `named n` on `o`  ∨  `filtered fl` on `o` with `fl.matches` the field `n`
  below = the objects a hitting node hands on that do NOT come from the field `n`

and re-runs the proof of `fire_preserves` on top of it.  What replaces `noFiltered`:
the trait names of `o` are distinct (`Shape`: the fields of `o` are `pre ++ f :: post`
with no other field called `n`) — a filter's verdict on a field depends on its name and
metadata only, which an assignment does not change.
-/
import TraitsVerif.Lemmas.ObsInvSetItems
namespace TraitsVerif.Model.Obs
open TraitsVerif

/-! ### the shape of the mutated object -/

/-- `o` is an instance whose only field called `n` is `f` -/
structure Shape (h : Heap) (o : Id) (n : Name) (f : Field) (pre post : List Field) : Prop where
  ho : h.get o = .inst (pre ++ f :: post)
  hname : f.name = n
  hpre : ∀ g ∈ pre, g.name ≠ n
  hpost : ∀ g ∈ post, g.name ≠ n

theorem Filter.matches_val (fl : Filter) (f : Field) (v : Val) : fl.matches { f with val := v } = fl.matches f := by
  cases fl <;> rfl

theorem setFieldVal_ne (n : Name) (v : Val) (l : List Field) (hl : ∀ g ∈ l, g.name ≠ n) : setFieldVal l n v = l := by
  unfold setFieldVal
  have : ∀ g ∈ l, (fun f : Field => if f.name == n then { f with val := v } else f) g = id g := by
    intro g hg
    have := hl g hg
    simp [this]
  rw [List.map_congr_left this, List.map_id]

theorem setFieldVal_shape {n : Name} {f : Field} {pre post : List Field} (v : Val) (hname : f.name = n)
    (hpre : ∀ g ∈ pre, g.name ≠ n) (hpost : ∀ g ∈ post, g.name ≠ n) :
    setFieldVal (pre ++ f :: post) n v = pre ++ { f with val := v } :: post := by
  have h1 := setFieldVal_ne n v pre hpre
  have h2 := setFieldVal_ne n v post hpost
  unfold setFieldVal at h1 h2 ⊢
  rw [List.map_append, List.map_cons, h1, h2]
  simp [hname]

theorem findField_shape {n : Name} {f : Field} {pre post : List Field} (hname : f.name = n)
    (hpre : ∀ g ∈ pre, g.name ≠ n) : findField (pre ++ f :: post) n = some f := by
  unfold findField
  rw [List.find?_append]
  have : pre.find? (fun g => g.name == n) = none := by
    rw [List.find?_eq_none]
    intro g hg
    simpa using hpre g hg
  simp [this, hname]

theorem Shape.store {h : Heap} {o : Id} {n : Name} {f : Field} {pre post : List Field}
    (S : Shape h o n f pre post) (v : Val) : Shape (storeField h o n v) o n { f with val := v } pre post where
  ho := by rw [store_get v S.ho]; simp [setFieldVal_shape v S.hname S.hpre S.hpost]
  hname := S.hname
  hpre := S.hpre
  hpost := S.hpost

/-! ### hitting nodes -/

/-- the node reads the field `n` of `o` (and leaves its maintainers on `o.n`) -/
def hitsF (o : Id) (n : Name) (f : Field) (ob : Observer) (x : W) : Bool :=
  match ob with
  | .named m _ _ => x == some o && m == n
  | .filtered fl _ => x == some o && fl.matches f
  | _ => false

theorem hitsF_val (o : Id) (n : Name) (f : Field) (v : Val) (ob : Observer) (x : W) :
    hitsF o n { f with val := v } ob x = hitsF o n f ob x := by
  cases ob <;> simp [hitsF, Filter.matches_val]

/-- the objects a hitting node hands on that do not come from the field `n` -/
def restF (pre post : List Field) : Observer → List W
  | .filtered fl _ => ((pre ++ post).filter fl.matches).flatMap (fun g => valObjects g.val)
  | _ => []

def belowF (h : Heap) (o : Id) (n : Name) (f : Field) (pre post : List Field) (ob : Observer) (x : W) : List W :=
  if hitsF o n f ob x then restF pre post ob else okOr [] (objects h ob x)

mutual
def visitsF (h : Heap) (o : Id) (n : Name) (f : Field) (pre post : List Field) : Graph → W → List Graph
  | .node ob cs, x => (if hitsF o n f ob x then cs else []) ++ visitsFCs h o n f pre post ob x cs
def visitsFCs (h : Heap) (o : Id) (n : Name) (f : Field) (pre post : List Field) (ob : Observer) (x : W) :
    List Graph → List Graph
  | [] => []
  | c :: cs => (belowF h o n f pre post ob x).flatMap (fun y => visitsF h o n f pre post c y) ++
      visitsFCs h o n f pre post ob x cs
end

mutual
def stableF (h : Heap) (k : HKey) (o : Id) (n : Name) (f : Field) (pre post : List Field) (extra : Bool) :
    Graph → W → List Item
  | .node ob cs, x =>
    ownItems h k ob cs x ++ stableFCs h k o n f pre post ob x cs ++
    (if extra then (okOr [] (extraObservables h ob x)).map (fun ob' => (ob', NKey.maint .added (.node ob cs) k)) else [])
def stableFCs (h : Heap) (k : HKey) (o : Id) (n : Name) (f : Field) (pre post : List Field) (ob : Observer) (x : W) :
    List Graph → List Item
  | [] => []
  | c :: cs => (belowF h o n f pre post ob x).flatMap (fun y => stableF h k o n f pre post true c y) ++
      stableFCs h k o n f pre post ob x cs
end

/-- `h'` differs from `h` at most in the value of `o.n`, which is `new` in `h'` -/
structure RelF (h h' : Heap) (o : Id) (n : Name) (f : Field) (pre post : List Field) (new : Val) : Prop where
  obs : ∀ ob x, observables h' ob x = observables h ob x
  ext : ∀ ob x, extraObservables h' ob x = extraObservables h ob x
  objs : ∀ ob x, hitsF o n f ob x = false → objects h' ob x = objects h ob x
  /-- below a hitting node: the untouched objects and those of the new value (as a multiset) -/
  objsR : ∀ ob x, hitsF o n f ob x = true → ∀ G : W → Nat,
    ((okOr [] (objects h' ob x) : List W).map G).sum =
      ((restF pre post ob).map G).sum + ((valObjects new).map G).sum

/-- what a hitting node hands on, in a heap of the given shape -/
theorem objsR_shape {h : Heap} {o : Id} {n : Name} {f : Field} {pre post : List Field}
    (S : Shape h o n f pre post) (ob : Observer) (x : W) (hh : hitsF o n f ob x = true) (G : W → Nat) :
    ((okOr [] (objects h ob x) : List W).map G).sum =
      ((restF pre post ob).map G).sum + ((valObjects f.val).map G).sum := by
  cases ob with
  | named m nt opt =>
    simp only [hitsF, Bool.and_eq_true, beq_iff_eq] at hh
    obtain ⟨rfl, rfl⟩ := hh
    have hf := findField_shape (post := post) S.hname S.hpre
    simp [objects, hasTrait, fieldVal, Heap.at, S.ho, hf, okOr, restF]
  | filtered fl nt =>
    simp only [hitsF, Bool.and_eq_true, beq_iff_eq] at hh
    obtain ⟨rfl, hm⟩ := hh
    simp [objects, Heap.at, S.ho, okOr, restF, List.filter_append, hm, List.flatMap_append,
      List.flatMap_cons, List.map_append, List.sum_append]
    omega
  | listItems nt opt => simp [hitsF] at hh
  | dictItems nt opt => simp [hitsF] at hh
  | setItems nt opt => simp [hitsF] at hh

theorem RelF.self {h : Heap} {o : Id} {n : Name} {f : Field} {pre post : List Field}
    (S : Shape h o n f pre post) : RelF h h o n f pre post f.val where
  obs := fun _ _ => rfl
  ext := fun _ _ => rfl
  objs := fun _ _ _ => rfl
  objsR := fun ob x hh G => objsR_shape S ob x hh G

theorem RelF.store {h : Heap} {o : Id} {n : Name} {f : Field} {pre post : List Field}
    (S : Shape h o n f pre post) (v : Val) : RelF h (storeField h o n v) o n f pre post v where
  obs := by
    intro ob x
    cases ob with
    | named m nt opt => simp only [observables, store_hasTrait v S.ho]
    | filtered fl nt =>
      by_cases hx : x = some o
      · subst hx
        simp [observables, Heap.at, (S.store v).ho, S.ho, List.filter_append, List.filter_cons, Filter.matches_val]
        split <;> simp
      · simp [observables, store_at_ne v S.ho x hx]
    | listItems nt opt =>
      by_cases hx : x = some o
      · subst hx; simp [observables, Heap.at, store_get v S.ho, S.ho]
      · simp [observables, store_at_ne v S.ho x hx]
    | dictItems nt opt =>
      by_cases hx : x = some o
      · subst hx; simp [observables, Heap.at, store_get v S.ho, S.ho]
      · simp [observables, store_at_ne v S.ho x hx]
    | setItems nt opt =>
      by_cases hx : x = some o
      · subst hx; simp [observables, Heap.at, store_get v S.ho, S.ho]
      · simp [observables, store_at_ne v S.ho x hx]
  ext := by
    intro ob x
    cases ob with
    | named m nt opt =>
      by_cases hx : x = some o
      · subst hx; simp [extraObservables, Heap.at, store_get v S.ho, S.ho]
      · simp [extraObservables, store_at_ne v S.ho x hx]
    | filtered fl nt =>
      by_cases hx : x = some o
      · subst hx; simp [extraObservables, Heap.at, store_get v S.ho, S.ho]
      · simp [extraObservables, store_at_ne v S.ho x hx]
    | listItems nt opt => rfl
    | dictItems nt opt => rfl
    | setItems nt opt => rfl
  objs := by
    intro ob x hr
    cases ob with
    | named m nt opt =>
      have hne : ¬ (x = some o ∧ m = n) := by
        intro ⟨a, b⟩
        simp [hitsF, a, b] at hr
      simp only [objects, store_hasTrait v S.ho, store_fieldVal_other v S.ho x m hne]
    | filtered fl nt =>
      by_cases hx : x = some o
      · subst hx
        have hm : fl.matches f = false := by simpa [hitsF] using hr
        simp [objects, Heap.at, (S.store v).ho, S.ho, List.filter_append, Filter.matches_val, hm]
      · simp [objects, store_at_ne v S.ho x hx]
    | listItems nt opt =>
      by_cases hx : x = some o
      · subst hx; simp [objects, Heap.at, store_get v S.ho, S.ho]
      · simp [objects, store_at_ne v S.ho x hx]
    | dictItems nt opt =>
      by_cases hx : x = some o
      · subst hx; simp [objects, Heap.at, store_get v S.ho, S.ho]
      · simp [objects, store_at_ne v S.ho x hx]
    | setItems nt opt =>
      by_cases hx : x = some o
      · subst hx; simp [objects, Heap.at, store_get v S.ho, S.ho]
      · simp [objects, store_at_ne v S.ho x hx]
  objsR := by
    intro ob x hh G
    have := objsR_shape (S.store v) ob x (by rw [hitsF_val]; exact hh) G
    simpa using this

/-! ### L4 with filtered nodes -/

theorem ownItems_relF {h h' : Heap} {o : Id} {n : Name} {f : Field} {pre post : List Field} {new : Val}
    (R : RelF h h' o n f pre post new) (k : HKey) (ob : Observer) (cs : List Graph) (x : W) :
    ownItems h' k ob cs x = ownItems h k ob cs x := by
  simp [ownItems, R.obs ob x]

theorem decF {h h' : Heap} {o : Id} {n : Name} {f : Field} {pre post : List Field} {new : Val}
    (R : RelF h h' o n f pre post new) (k : HKey) :
    ∀ g : Graph, ∀ (e : Bool) (x : W) (o' : Observable) (q : NKey),
      cntItems (hookList h' k e g x) o' q =
        cntItems (stableF h k o n f pre post e g x) o' q + blocks h' k new (visitsF h o n f pre post g x) o' q := by
  apply Graph.ind (P := fun g => ∀ (e : Bool) (x : W) (o' : Observable) (q : NKey),
      cntItems (hookList h' k e g x) o' q =
        cntItems (stableF h k o n f pre post e g x) o' q + blocks h' k new (visitsF h o n f pre post g x) o' q)
  intro ob cs ih e x o' q
  have hC : ∀ cs' : List Graph, (∀ c ∈ cs', c ∈ cs) →
      cntItems (hookListCs h' k ob x cs') o' q =
        cntItems (stableFCs h k o n f pre post ob x cs') o' q +
        blocks h' k new ((if hitsF o n f ob x then cs' else []) ++ visitsFCs h o n f pre post ob x cs') o' q := by
    intro cs'
    induction cs' with
    | nil => intro _; simp [hookListCs, stableFCs, visitsFCs, cntItems_nil, blocks_nil]
    | cons c cs' ihc =>
      intro hsub
      have hc := hsub c (List.mem_cons_self ..)
      have ihc' := ihc (fun c' hc' => hsub c' (List.mem_cons_of_mem _ hc'))
      have hrec : ∀ y, cntItems (hookList h' k true c y) o' q =
          cntItems (stableF h k o n f pre post true c y) o' q +
          blocks h' k new (visitsF h o n f pre post c y) o' q := fun y => ih c hc true y o' q
      rw [hookListCs_cons, cntItems_append, ihc']
      simp only [stableFCs, visitsFCs, cntItems_append, blocks_append]
      by_cases hr : hitsF o n f ob x = true
      · simp only [hr, if_true, belowF]
        rw [cntItems_flatMap, R.objsR ob x hr (fun y => cntItems (hookList h' k true c y) o' q),
          cntItems_flatMap, blocks_flatMap]
        simp only [hrec, sum_map_add]
        have : blocks h' k new (c :: cs') o' q =
            cntItems ((valObjects new).flatMap (fun w => hookList h' k true c w)) o' q + blocks h' k new cs' o' q := by
          simp [blocks]
        rw [this, cntItems_flatMap]
        simp only [hrec, sum_map_add]
        omega
      · have hr' : hitsF o n f ob x = false := by simpa using hr
        simp only [hr', Bool.false_eq_true, if_false, belowF, R.objs ob x hr']
        rw [cntItems_flatMap, cntItems_flatMap, blocks_flatMap]
        simp only [hrec, sum_map_add]
        simp only [blocks_nil, blocks_append] at *
        omega
  rw [hookList_node, cntItems_append, cntItems_append, hC cs (fun c hc => hc)]
  simp only [stableF, visitsF, cntItems_append, ownItems_relF R k ob cs x, R.ext ob x, extraItems]
  omega


/-! ### L3 with filtered nodes -/

/-- at a hitting node every child graph leaves a maintainer on the mutated trait -/
theorem visit_itemF {h : Heap} {o : Id} {n : Name} {f : Field} {pre post : List Field}
    (S : Shape h o n f pre post) (k : HKey) (ob : Observer) (cs : List Graph) (x : W)
    (hr : hitsF o n f ob x = true) (c : Graph) (hc : c ∈ cs) :
    (Observable.trait o n, NKey.maint .trait c k) ∈ ownItems h k ob cs x := by
  cases ob with
  | named m nt opt =>
    simp only [hitsF, Bool.and_eq_true, beq_iff_eq] at hr
    obtain ⟨rfl, rfl⟩ := hr
    have hf := findField_shape (post := post) S.hname S.hpre
    simp only [ownItems, observables, hasTrait, Heap.at, S.ho, hf, Option.isSome_some, if_true, okOr,
      List.mem_append, List.mem_flatMap, List.mem_map]
    exact Or.inr ⟨.trait o m, by simp, c, hc, rfl⟩
  | filtered fl nt =>
    simp only [hitsF, Bool.and_eq_true, beq_iff_eq] at hr
    obtain ⟨rfl, hm⟩ := hr
    simp only [ownItems, observables, Heap.at, S.ho, okOr, List.mem_append, List.mem_flatMap, List.mem_map]
    refine Or.inr ⟨.trait o n, ?_, c, hc, rfl⟩
    have hfm : f ∈ (pre ++ f :: post).filter fl.matches :=
      List.mem_filter.2 ⟨List.mem_append.2 (Or.inr (List.mem_cons_self ..)), hm⟩
    exact ⟨f, hfm, by rw [S.hname]⟩
  | listItems nt opt => simp [hitsF] at hr
  | dictItems nt opt => simp [hitsF] at hr
  | setItems nt opt => simp [hitsF] at hr

theorem localityF {h h' : Heap} {o : Id} {n : Name} {f : Field} {pre post : List Field} {new : Val}
    (S : Shape h o n f pre post) (R : RelF h h' o n f pre post new) (k : HKey) :
    ∀ g : Graph, ∀ (e : Bool) (x : W), (∀ it ∈ hookList h k e g x, it.1 ≠ .trait o n) →
      hookList h' k e g x = hookList h k e g x := by
  apply Graph.ind (P := fun g => ∀ (e : Bool) (x : W), (∀ it ∈ hookList h k e g x, it.1 ≠ .trait o n) →
      hookList h' k e g x = hookList h k e g x)
  intro ob cs ih e x hno
  have hobj : cs ≠ [] → objects h' ob x = objects h ob x := by
    intro hne
    by_cases hr : hitsF o n f ob x = true
    · exfalso
      obtain ⟨c, hc⟩ := List.exists_mem_of_ne_nil cs hne
      exact hno _ (mem_hookList_own h k e ob cs x _ (visit_itemF S k ob cs x hr c hc)) rfl
    · exact R.objs ob x (by simpa using hr)
  have hC : ∀ cs' : List Graph, (∀ c ∈ cs', c ∈ cs) → hookListCs h' k ob x cs' = hookListCs h k ob x cs' := by
    intro cs'
    induction cs' with
    | nil => intro _; rfl
    | cons c cs' ihc =>
      intro hsub
      have hc := hsub c (List.mem_cons_self ..)
      have hne : cs ≠ [] := by intro e'; rw [e'] at hc; cases hc
      rw [hookListCs_cons, hookListCs_cons, ihc (fun c' hc' => hsub c' (List.mem_cons_of_mem _ hc')), hobj hne]
      congr 1
      apply flatMap_congr'
      intro y hy
      exact ih c hc true y (fun it hit => hno it (mem_hookList_child h k e ob cs x it c hc y hy hit))
  rw [hookList_node, hookList_node, hC cs (fun c hc => hc), ownItems_relF R k ob cs x, R.ext ob x]

/-! ### the maintainers `stableF` leaves on the mutated trait are the visits -/

theorem sum_ite_ne {α} [DecidableEq α] (l : List α) (t : α) (s : Nat) (hl : ∀ a ∈ l, a ≠ t) :
    (l.map (fun a => if a = t then s else 0)).sum = 0 := by
  apply sum_map_zero
  intro a ha
  simp [hl a ha]

theorem ownItems_at_targetF {h : Heap} {o : Id} {n : Name} {f : Field} {pre post : List Field}
    (S : Shape h o n f pre post) (k : HKey) (ob : Observer) (cs : List Graph) (x : W) (c0 : Graph) (k0 : HKey) :
    cntItems (ownItems h k ob cs x) (.trait o n) (.maint .trait c0 k0) =
      visitHits k (if hitsF o n f ob x then cs else []) (.maint .trait c0 k0) := by
  have hf := findField_shape (post := post) S.hname S.hpre
  have hT : hasTrait h (some o) n = true := by simp [hasTrait, Heap.at, S.ho, hf]
  cases ob with
  | named m nt opt =>
    rw [ownItems_at_target h k _ cs x o n rfl c0 k0]
    by_cases hr : readsAt (.named m nt opt) x o n = true
    · have hx : x = some o := by
        simp only [readsAt, Bool.and_eq_true, beq_iff_eq] at hr; exact hr.1
      subst hx
      simp only [readsAt] at hr
      simp [readsAt, hitsF, hT]
    · have hr' : readsAt (.named m nt opt) x o n = false := by simpa using hr
      have : hitsF o n f (.named m nt opt) x = false := by simpa [readsAt, hitsF] using hr'
      simp [hr', this]
  | listItems nt opt => rw [ownItems_at_target h k _ cs x o n rfl c0 k0]; simp [readsAt, hitsF]
  | dictItems nt opt => rw [ownItems_at_target h k _ cs x o n rfl c0 k0]; simp [readsAt, hitsF]
  | setItems nt opt => rw [ownItems_at_target h k _ cs x o n rfl c0 k0]; simp [readsAt, hitsF]
  | filtered fl nt =>
    unfold ownItems
    rw [cntItems_append]
    have hu : cntItems (if (Observer.filtered fl nt).notify then
        (okOr [] (observables h (.filtered fl nt) x)).map (fun o' => (o', NKey.user k)) else [])
        (.trait o n) (.maint .trait c0 k0) = 0 := by
      split
      · exact cntItems_map_user k _ _ _ _ _
      · rfl
    rw [hu, Nat.zero_add, cntItems_flatMap]
    simp only [cntItems_maint_at, Observer.mkind]
    have hS : ∀ l : List Observable, (∀ a ∈ l, a ≠ Observable.trait o n) →
        (l.map (fun ob' => if ob' = Observable.trait o n then
          (cs.map (fun c => hit (NKey.maint .trait c k) (.maint .trait c0 k0))).sum else 0)).sum = 0 :=
      fun l hl => sum_ite_ne l _ _ hl
    by_cases hx : x = some o
    · subst hx
      have hpre : ∀ a ∈ (pre.filter fl.matches).map (fun g => Observable.trait o g.name), a ≠ Observable.trait o n := by
        intro a ha
        simp only [List.mem_map, List.mem_filter] at ha
        obtain ⟨g, ⟨hg, _⟩, rfl⟩ := ha
        intro e; injection e with _ e2; exact S.hpre g hg e2
      have hpost : ∀ a ∈ (post.filter fl.matches).map (fun g => Observable.trait o g.name), a ≠ Observable.trait o n := by
        intro a ha
        simp only [List.mem_map, List.mem_filter] at ha
        obtain ⟨g, ⟨hg, _⟩, rfl⟩ := ha
        intro e; injection e with _ e2; exact S.hpost g hg e2
      simp only [observables, Heap.at, S.ho, okOr, List.filter_append, List.map_append, List.sum_append, hS _ hpre,
        Nat.zero_add]
      by_cases hm : fl.matches f = true
      · simp only [List.filter_cons, hm, if_true, List.map_cons, List.sum_cons, hS _ hpost]
        simp [hitsF, hm, visitHits, S.hname]
      · have hm' : fl.matches f = false := by simpa using hm
        simp only [List.filter_cons, hm', Bool.false_eq_true, if_false, hS _ hpost]
        simp [hitsF, hm', visitHits]
    · have hh : hitsF o n f (.filtered fl nt) x = false := by
        have : (x == some o) = false := by simpa using hx
        simp [hitsF, this]
      simp only [hh, Bool.false_eq_true, if_false, visitHits, List.map_nil, List.sum_nil]
      apply hS
      intro a ha
      cases x with
      | none => simp [observables, okOr] at ha
      | some i =>
        have hi : i ≠ o := fun e => hx (by rw [e])
        cases hg : h.get i with
        | inst fs' =>
          simp only [observables, Heap.at, hg, okOr, List.mem_map] at ha
          obtain ⟨g, _, rfl⟩ := ha
          intro e; injection e with e1 _; exact hi e1
        | _ => simp [observables, Heap.at, hg, okOr] at ha

theorem stable_at_targetF {h : Heap} {o : Id} {n : Name} {f : Field} {pre post : List Field}
    (S : Shape h o n f pre post) (k : HKey) :
    ∀ g : Graph, ∀ (e : Bool) (x : W) (c0 : Graph) (k0 : HKey),
      cntItems (stableF h k o n f pre post e g x) (.trait o n) (.maint .trait c0 k0) =
        visitHits k (visitsF h o n f pre post g x) (.maint .trait c0 k0) := by
  apply Graph.ind (P := fun g => ∀ (e : Bool) (x : W) (c0 : Graph) (k0 : HKey),
      cntItems (stableF h k o n f pre post e g x) (.trait o n) (.maint .trait c0 k0) =
        visitHits k (visitsF h o n f pre post g x) (.maint .trait c0 k0))
  intro ob cs ih e x c0 k0
  have hC : ∀ cs' : List Graph, (∀ c ∈ cs', c ∈ cs) →
      cntItems (stableFCs h k o n f pre post ob x cs') (.trait o n) (.maint .trait c0 k0) =
        visitHits k (visitsFCs h o n f pre post ob x cs') (.maint .trait c0 k0) := by
    intro cs'
    induction cs' with
    | nil => intro _; rfl
    | cons c cs' ihc =>
      intro hsub
      have hc := hsub c (List.mem_cons_self ..)
      simp only [stableFCs, visitsFCs, cntItems_append, visitHits_append,
        ihc (fun c' hc' => hsub c' (List.mem_cons_of_mem _ hc')), cntItems_flatMap, visitHits_flatMap]
      have : ∀ y, cntItems (stableF h k o n f pre post true c y) (.trait o n) (.maint .trait c0 k0) =
          visitHits k (visitsF h o n f pre post c y) (.maint .trait c0 k0) := fun y => ih c hc true y c0 k0
      simp only [this]
  simp only [stableF, visitsF, cntItems_append, visitHits_append, hC cs (fun c hc => hc),
    ownItems_at_targetF S k ob cs x c0 k0]
  have : cntItems (if e then (okOr [] (extraObservables h ob x)).map
      (fun ob' => (ob', NKey.maint .added (.node ob cs) k)) else []) (.trait o n) (.maint .trait c0 k0) = 0 := by
    split
    · exact cntItems_map_added _ _ _ _ _ _
    · rfl
  rw [this]; omega


/-! ### key lists -/

def visitKeysF (h : Heap) (o : Id) (n : Name) (f : Field) (pre post : List Field) (regs : List Reg) : List NKey :=
  regs.flatMap (fun r => (visitsF h o n f pre post r.g (some r.x)).map (fun c => NKey.maint .trait c r.k))

theorem sum_blocks_eq_keysF (h h' : Heap) (o : Id) (n : Name) (f : Field) (pre post : List Field) (val : Val) (o' : Observable) (q : NKey)
    (regs : List Reg) :
    (regs.map (fun r => blocks h' r.k val (visitsF h o n f pre post r.g (some r.x)) o' q)).sum =
      ((visitKeysF h o n f pre post regs).map (keyF (blockAt h' val o' q))).sum := by
  induction regs with
  | nil => rfl
  | cons r regs ih =>
    simp only [List.map_cons, List.sum_cons, visitKeysF, List.flatMap_cons, List.map_append, List.sum_append]
    rw [blocks_eq_keys]
    simp only [visitKeysF] at ih
    rw [ih]

theorem visitKeysF_countP (h : Heap) (o : Id) (n : Name) (f : Field) (pre post : List Field) (regs : List Reg) (q : NKey) :
    (visitKeysF h o n f pre post regs).countP (fun a => a.equals q) =
      (regs.map (fun r => visitHits r.k (visitsF h o n f pre post r.g (some r.x)) q)).sum := by
  induction regs with
  | nil => rfl
  | cons r regs ih =>
    simp only [visitKeysF, List.flatMap_cons, List.countP_append, List.map_cons, List.sum_cons] at ih ⊢
    rw [ih]
    congr 1
    generalize visitsF h o n f pre post r.g (some r.x) = vs
    induction vs with
    | nil => rfl
    | cons c vs ihv =>
      simp only [List.map_cons, List.countP_cons, visitHits, List.sum_cons, hit] at ihv ⊢
      rw [ihv]; split <;> omega

theorem visitKeysF_shape (h : Heap) (o : Id) (n : Name) (f : Field) (pre post : List Field) (regs : List Reg) :
    ∀ a ∈ visitKeysF h o n f pre post regs, ∃ r ∈ regs, ∃ c ∈ visitsF h o n f pre post r.g (some r.x), a = .maint .trait c r.k := by
  intro a ha
  simp only [visitKeysF, List.mem_flatMap, List.mem_map] at ha
  obtain ⟨r, hr, c, hc, rfl⟩ := ha
  exact ⟨r, hr, c, hc, rfl⟩


/-! ### the fragment -/

/-- Hypotheses under which `o.n = v` preserves the invariant; registrations may contain
`filtered` nodes.  `shape`: `f` is the only field of `o` called `n` (trait names are distinct). -/
structure SetFragF (E : Env) (st : St) (regs : List Reg) (o : Id) (n : Name) (v : Val)
    (f : Field) (pre post : List Field) : Prop where
  shape : Shape st.h o n f pre post
  alive : ∀ k, E.dead k = false
  notName : ∀ m, v ≠ .name m
  /-- the walks the maintainers perform meet no failing `iter_*` -/
  okOld : ∀ c k, Notifier.maint .trait c k ∈ st.H.get (.trait o n) → ∀ w ∈ valObjects f.val,
    walkOk (storeField st.h o n v) true c w = true
  okNew : ∀ c k, Notifier.maint .trait c k ∈ st.H.get (.trait o n) → ∀ w ∈ valObjects v,
    walkOk (storeField st.h o n v) true c w = true
  /-- NoSelfReach (F10): below the OLD value the maintained sub-graphs never come back to the mutated trait -/
  noSelfReach : ∀ r ∈ regs, ∀ c ∈ visitsF st.h o n f pre post r.g (some r.x), ∀ w ∈ valObjects f.val,
    ∀ it ∈ hookList st.h r.k true c w, it.1 ≠ .trait o n
  /-- graph equality is structural on the sub-graphs involved -/
  eqStruct : ∀ c k, Notifier.maint .trait c k ∈ st.H.get (.trait o n) → ∀ r ∈ regs,
    ∀ c' ∈ visitsF st.h o n f pre post r.g (some r.x),
    (NKey.maint .trait c k).equals (.maint .trait c' r.k) = true → c = c' ∧ k = r.k

/-- Core: storing `v` in `o.n` (whose `__dict__` entry / old value is `f.val`, possibly
`unset` = Uninitialized) and calling the notifiers of `o.n` re-establishes the
invariant; and storing WITHOUT calling them does so when the value is identical. -/
theorem fire_preservesF (E : Env) (st : St) (regs : List Reg) (o : Id) (n : Name) (v : Val)
    (f : Field) (pre post : List Field) (hinv : HooksEqReach st.h st.H regs) (fr : SetFragF E st regs o n v f pre post) :
    (HooksEqReach (storeField st.h o n v) (fire E st.H (storeField st.h o n v) o n f.val v).st.H regs ∧
      (fire E st.H (storeField st.h o n v) o n f.val v).err = none) ∧
    (f.val = v → HooksEqReach (storeField st.h o n v) st.H regs) ∧
    (st.H.get (.trait o n) = [] → HooksEqReach (storeField st.h o n v) st.H regs) := by
  obtain ⟨hwf, hcnt⟩ := hinv
  -- the two heaps and the decomposition of every registration's walk
  have S := fr.shape
  have R0 : RelF st.h st.h o n f pre post f.val := RelF.self S
  have R1 : RelF st.h (storeField st.h o n v) o n f pre post v := RelF.store S v
  have Dh : ∀ r ∈ regs, ∀ o' q, cntItems (hookList st.h r.k true r.g (some r.x)) o' q =
      cntItems (stableF st.h r.k o n f pre post true r.g (some r.x)) o' q +
      blocks st.h r.k f.val (visitsF st.h o n f pre post r.g (some r.x)) o' q :=
    fun r hr o' q => decF R0 r.k r.g true (some r.x) o' q
  have Dh' : ∀ r ∈ regs, ∀ o' q, cntItems (hookList (storeField st.h o n v) r.k true r.g (some r.x)) o' q =
      cntItems (stableF st.h r.k o n f pre post true r.g (some r.x)) o' q +
      blocks (storeField st.h o n v) r.k v (visitsF st.h o n f pre post r.g (some r.x)) o' q :=
    fun r hr o' q => decF R1 r.k r.g true (some r.x) o' q
  -- L3: below the old value nothing changes
  have L3 : ∀ r ∈ regs, ∀ o' q, blocks (storeField st.h o n v) r.k f.val (visitsF st.h o n f pre post r.g (some r.x)) o' q =
      blocks st.h r.k f.val (visitsF st.h o n f pre post r.g (some r.x)) o' q := by
    intro r hr o' q
    unfold blocks
    apply sum_map_congr
    intro c hc
    congr 1
    apply flatMap_congr'
    intro w hw
    exact localityF S R1 r.k c true w (fr.noSelfReach r hr c hc w hw)
  -- NoSelfReach: the old blocks leave nothing on the mutated trait
  have B0 : ∀ r ∈ regs, ∀ q, blocks st.h r.k f.val (visitsF st.h o n f pre post r.g (some r.x)) (.trait o n) q = 0 := by
    intro r hr q
    unfold blocks
    apply sum_map_zero
    intro c hc
    apply cntItems_zero_of_ne
    intro it hit
    simp only [List.mem_flatMap] at hit
    obtain ⟨w, hw, hm⟩ := hit
    exact fr.noSelfReach r hr c hc w hw it hm
  -- the specification in the two heaps
  have specH : ∀ o' q, specCnt st.h regs o' q =
      (regs.map (fun r => cntItems (stableF st.h r.k o n f pre post true r.g (some r.x)) o' q)).sum +
      (regs.map (fun r => blocks st.h r.k f.val (visitsF st.h o n f pre post r.g (some r.x)) o' q)).sum := by
    intro o' q
    unfold specCnt
    rw [← sum_map_add]
    exact sum_map_congr _ _ _ (fun r hr => Dh r hr o' q)
  have specH' : ∀ o' q, specCnt (storeField st.h o n v) regs o' q =
      (regs.map (fun r => cntItems (stableF st.h r.k o n f pre post true r.g (some r.x)) o' q)).sum +
      (regs.map (fun r => blocks (storeField st.h o n v) r.k v (visitsF st.h o n f pre post r.g (some r.x)) o' q)).sum := by
    intro o' q
    unfold specCnt
    rw [← sum_map_add]
    exact sum_map_congr _ _ _ (fun r hr => Dh' r hr o' q)
  -- the maintainers on the mutated trait are the visits (up to `equals`)
  have hcounts : ∀ q, (mtKeys (st.H.get (.trait o n))).countP (fun a => a.equals q) =
      (visitKeysF st.h o n f pre post regs).countP (fun a => a.equals q) := by
    intro q
    by_cases hq : ∃ c0 k0, q = .maint .trait c0 k0
    · obtain ⟨c0, k0, rfl⟩ := hq
      rw [← cntList_eq_countP, visitKeysF_countP]
      have := hcnt (.trait o n) (.maint .trait c0 k0)
      unfold cnt at this
      rw [this, specH]
      have hz : (regs.map (fun r => blocks st.h r.k f.val (visitsF st.h o n f pre post r.g (some r.x)) (.trait o n)
          (.maint .trait c0 k0))).sum = 0 := sum_map_zero _ _ (fun r hr => B0 r hr _)
      rw [hz, Nat.add_zero]
      exact sum_map_congr _ _ _ (fun r hr => stable_at_targetF S r.k r.g true (some r.x) c0 k0)
    · have hq' : ∀ c k, q ≠ .maint .trait c k := fun c k e => hq ⟨c, k, e⟩
      rw [countP_zero_of_shape _ q (fun a ha => by obtain ⟨c, k, e, _⟩ := mtKeys_shape _ a ha; exact ⟨c, k, e⟩) hq',
        countP_zero_of_shape _ q (fun a ha => by obtain ⟨r, _, c, _, e⟩ := visitKeysF_shape _ _ _ _ _ _ _ a ha; exact ⟨c, r.k, e⟩) hq']
  have hmatch : ∀ (val : Val) o' q, effectSum (blockAt (storeField st.h o n v) val o' q) (st.H.get (.trait o n)) =
      (regs.map (fun r => blocks (storeField st.h o n v) r.k val (visitsF st.h o n f pre post r.g (some r.x)) o' q)).sum := by
    intro val o' q
    rw [effectSum_eq_keys, sum_blocks_eq_keysF]
    apply sum_eq_of_equiv_counts _ _ _ hcounts
    intro a ha b hb hab
    obtain ⟨c, k, rfl, hm⟩ := mtKeys_shape _ a ha
    obtain ⟨r, hr, c', hc', rfl⟩ := visitKeysF_shape _ _ _ _ _ _ _ b hb
    obtain ⟨rfl, rfl⟩ := fr.eqStruct c k hm r hr c' hc' hab
    rfl
  refine ⟨?_, ?_, ?_⟩
  · simp only [fire]
    have hl : LoopOk E (storeField st.h o n v) f.val v (st.H.get (.trait o n)) :=
      { alive := fr.alive
        kinds := by
          intro nt hnt mk g k e
          subst e
          -- by the invariant a maintainer on an instance trait is a trait / trait_added maintainer
          cases mk with
          | trait => exact Or.inl rfl
          | added => exact Or.inr rfl
          | list =>
            exfalso
            have h1 : 0 < cnt st.H (.trait o n) (.maint .list g k) := by
              unfold cnt
              exact cntList_pos_of_mem _ _ _ _ hnt
            rw [hcnt] at h1
            rw [specCnt_kind_trait st.h regs o n (.maint .list g k) ⟨.list, g, k, rfl, by simp, by simp⟩] at h1; omega
          | dict =>
            exfalso
            have h1 : 0 < cnt st.H (.trait o n) (.maint .dict g k) := by
              unfold cnt
              exact cntList_pos_of_mem _ _ _ _ hnt
            rw [hcnt] at h1
            rw [specCnt_kind_trait st.h regs o n (.maint .dict g k) ⟨.dict, g, k, rfl, by simp, by simp⟩] at h1; omega
          | set =>
            exfalso
            have h1 : 0 < cnt st.H (.trait o n) (.maint .set g k) := by
              unfold cnt
              exact cntList_pos_of_mem _ _ _ _ hnt
            rw [hcnt] at h1
            rw [specCnt_kind_trait st.h regs o n (.maint .set g k) ⟨.set, g, k, rfl, by simp, by simp⟩] at h1; omega
        notName := fr.notName
        okOld := fr.okOld
        okNew := fr.okNew }
    have hle : ∀ o' q, effectSum (blockAt (storeField st.h o n v) f.val o' q) (st.H.get (.trait o n)) ≤ cnt st.H o' q := by
      intro o' q
      rw [hmatch, hcnt, specH, sum_map_congr _ _ _ (fun r hr => L3 r hr o' q)]
      omega
    obtain ⟨e, w, c⟩ := callTrait_effect E (storeField st.h o n v) o n f.val v _ st.H [] hl hwf hle
    refine ⟨⟨w, ?_⟩, e⟩
    intro o' q
    have := c o' q
    rw [hmatch, hmatch, hcnt, specH, sum_map_congr _ _ _ (fun r hr => L3 r hr o' q)] at this
    rw [specH']
    omega
  · -- assigning the identical value: no notifier is called
    intro hv
    refine ⟨hwf, ?_⟩
    intro o' q
    rw [hcnt, specH, specH']
    congr 1
    apply sum_map_congr
    intro r hr
    rw [← L3 r hr o' q, hv]
  · -- no notifier on the trait: no registration visits it
    intro hnil
    refine ⟨hwf, ?_⟩
    intro o' q
    have e1 := hmatch f.val o' q
    have e2 := hmatch v o' q
    rw [hnil] at e1 e2
    simp only [effectSum, List.map_nil, List.sum_nil] at e1 e2
    rw [hcnt, specH, specH', ← e2]
    have : (regs.map (fun r => blocks st.h r.k f.val (visitsF st.h o n f pre post r.g (some r.x)) o' q)).sum = 0 := by
      rw [← sum_map_congr _ _ _ (fun r hr => L3 r hr o' q), ← e1]
    omega

/-- `o.n = v` on a materialised trait preserves the invariant and raises nothing. -/
theorem setField_preservesF (E : Env) (st : St) (regs : List Reg) (o : Id) (n : Name) (v : Val) (fresh : Id)
    (f : Field) (pre post : List Field) (hinv : HooksEqReach st.h st.H regs) (fr : SetFragF E st regs o n v f pre post)
    (hset : f.val ≠ .unset) :
    HooksEqReach (mutate E st (.setField o n v fresh)).st.h (mutate E st (.setField o n v fresh)).st.H regs ∧
    (mutate E st (.setField o n v fresh)).err = none := by
  obtain ⟨hfire, hsame, hnil⟩ := fire_preservesF E st regs o n v f pre post hinv fr
  have hset' : (f.val == Val.unset) = false := by
    cases hv : f.val with
    | unset => exact absurd hv hset
    | _ => rfl
  simp only [mutate, fr.shape.ho, findField_shape (post := post) fr.shape.hname fr.shape.hpre]
  by_cases hemp : (st.H.get (.trait o n)).isEmpty = true
  · simp only [hemp, if_true]
    exact ⟨hnil (by simpa using hemp), trivial⟩
  · simp only [hemp, Bool.false_eq_true, if_false, oldValue, hset']
    by_cases hsv : (f.cmp != Cmp.none && f.val == v) = true
    · simp only [hsv, if_true]
      exact ⟨hsame (by simp at hsv; exact hsv.2), trivial⟩
    · simp only [hsv, Bool.false_eq_true, if_false]
      exact hfire



/-- distinct trait names give the shape -/
theorem Shape.of_nodup {h : Heap} {o : Id} {n : Name} {fs : List Field} {f : Field}
    (ho : h.get o = .inst fs) (hf : findField fs n = some f) (hnd : (fs.map (·.name)).Nodup) :
    ∃ pre post, fs = pre ++ f :: post ∧ Shape h o n f pre post := by
  unfold findField at hf
  obtain ⟨hp, pre, post, rfl, hpre⟩ := List.find?_eq_some_iff_append.1 hf
  have hname : f.name = n := by simpa using hp
  refine ⟨pre, post, rfl, ⟨ho, hname, ?_, ?_⟩⟩
  · intro g hg
    have := hpre g hg
    simpa using this
  · intro g hg e
    rw [List.map_append, List.map_cons, List.nodup_append] at hnd
    obtain ⟨_, h2, _⟩ := hnd
    rw [List.nodup_cons] at h2
    apply h2.1
    rw [hname, ← e]
    exact List.mem_map.2 ⟨g, hg, rfl⟩

/-! ### non-vacuity witness

`a.child = b`, `c` a third instance; `a.observe(handler, "*:value")`-like graph: a quiet
`filtered anyTrait` node on `a` (it reads EVERY trait of `a`: `value`, `child`, `trait_added`)
above an optional notifying `value`.  `a.child = c` re-hooks below the `*` node. -/
namespace FilteredWitness

def fld (n : Name) (v : Val) : Field := ⟨n, false, .val (if n == nValue then .int 0 else .none), v, .equality⟩

def wKey : HKey := ⟨0, 0⟩

def wHeap : Heap :=
  [(0, .inst [fld nValue (.int 0), fld nChild (.ref 1), fld nTraitAdded .unset]),
   (1, .inst [fld nValue (.int 3), fld nChild .none, fld nTraitAdded .unset]),
   (2, .inst [fld nValue (.int 5), fld nChild (.ref 0), fld nTraitAdded .unset])]
def wGraph : Graph := .node (.filtered .anyTrait false) [.node (.named nValue true true) []]
def wSt : St := ⟨wHeap, (addRemove wHeap wKey false true wGraph (some 0) Hooks.empty).H⟩
def wRegs : List Reg := [⟨wKey, wGraph, 0⟩]

theorem wInv : HooksEqReach wSt.h wSt.H wRegs := by
  have hok : (addRemove wHeap wKey false true wGraph (some 0) Hooks.empty).err = none := by decide
  obtain ⟨_, hc, hw⟩ := addRemove_add wHeap wKey wGraph true (some 0) Hooks.empty hok
  refine ⟨hw WF_empty, ?_⟩
  intro o q
  show cnt (addRemove wHeap wKey false true wGraph (some 0) Hooks.empty).H o q = _
  rw [hc]
  simp [specCnt, cnt, Hooks.empty, cntList, wRegs, wSt]

theorem wHooks : wSt.H.get (.trait 0 nChild) = [.maint .trait (.node (.named nValue true true) []) wKey] := rfl
theorem wVisits : visitsF wSt.h 0 nChild (fld nChild (.ref 1)) [fld nValue (.int 0)] [fld nTraitAdded .unset]
    wGraph (some 0) = [.node (.named nValue true true) []] := rfl

/-- The hypotheses of `setField_preservesF` hold for `a.child = c` under the `*` registration. -/
theorem wFrag : SetFragF {} wSt wRegs 0 nChild (.ref 2) (fld nChild (.ref 1))
    [fld nValue (.int 0)] [fld nTraitAdded .unset] where
  shape :=
    { ho := rfl
      hname := rfl
      hpre := by intro g hg; simp at hg; subst hg; decide
      hpost := by intro g hg; simp at hg; subst hg; decide }
  alive := fun _ => rfl
  notName := by intro m; simp
  okOld := by
    intro c k hm w hw
    rw [wHooks] at hm
    simp at hm
    obtain ⟨rfl, rfl⟩ := hm
    simp [fld, valObjects] at hw
    subst hw
    decide
  okNew := by
    intro c k hm w hw
    rw [wHooks] at hm
    simp at hm
    obtain ⟨rfl, rfl⟩ := hm
    simp [valObjects] at hw
    subst hw
    decide
  noSelfReach := by
    intro r hr c hc w hw
    simp [wRegs] at hr; subst hr
    rw [wVisits] at hc
    simp at hc; subst hc
    simp [fld, valObjects] at hw; subst hw
    decide
  eqStruct := by
    intro c k hm r hr c' hc' he
    rw [wHooks] at hm
    simp at hm
    obtain ⟨rfl, rfl⟩ := hm
    simp [wRegs] at hr; subst hr
    rw [wVisits] at hc'
    simp at hc'; subst hc'
    exact ⟨rfl, rfl⟩

/-- … the theorem applies: after `a.child = c` the hooks are the from-scratch hooks -/
example : HooksEqReach (mutate {} wSt (.setField 0 nChild (.ref 2) 0)).st.h
    (mutate {} wSt (.setField 0 nChild (.ref 2) 0)).st.H wRegs :=
  (setField_preservesF {} wSt wRegs 0 nChild (.ref 2) 0 (fld nChild (.ref 1))
    [fld nValue (.int 0)] [fld nTraitAdded .unset] wInv wFrag (by simp [fld])).1

/-- `c.value` hooked, `b.value` released, and `c.value = 6` is delivered once -/
example : cnt wSt.H (.trait 1 nValue) (.user wKey) = 1 ∧
    cnt (mutate {} wSt (.setField 0 nChild (.ref 2) 0)).st.H (.trait 2 nValue) (.user wKey) = 1 ∧
    cnt (mutate {} wSt (.setField 0 nChild (.ref 2) 0)).st.H (.trait 1 nValue) (.user wKey) = 0 ∧
    (mutate {} (mutate {} wSt (.setField 0 nChild (.ref 2) 0)).st (.setField 2 nValue (.int 6) 0)).delivered =
      [.trait wKey 2 nValue (.int 5) (.int 6)] := by decide

end FilteredWitness

end TraitsVerif.Model.Obs
