/-
Source tie of the Python-level validate methods, part 2: BaseRange.validate /
float_validate (all bound / exclusivity combinations, NaN included), Type.validate,
BaseInstance.validate (all adapt modes), and the assembly over all covered trait types.
-/
import TraitsVerif.Lemmas.ValPySrc
namespace TraitsVerif.Model.PyVSrc
open TraitsVerif TraitsVerif.Py.Value TraitsVerif.Model.Val TraitsVerif.Generated.PyValidators
set_option maxHeartbeats 800000
variable (E : Env)

def resToM : Res → MRes
  | .ok w => .ret (.val w)
  | .traitError => .exc .te
  | .raised e => .exc (.ex e)
@[simp] theorem resToM_ite (c : Prop) [Decidable c] (a b : Res) :
    resToM (if c then a else b) = if c then resToM a else resToM b := by split <;> rfl
@[simp] theorem resToM_ok (w : Val) : resToM (.ok w) = .ret (.val w) := rfl
@[simp] theorem resToM_te : resToM .traitError = .exc .te := rfl
theorem toRes_resToM (r : Res) : toRes (resToM r) = some r := by cases r <;> rfl

theorem validateFloat_exact (v w : Val) (h : validateFloat v = .ok w) : ∃ f, w = .atom (.float false f) := by
  unfold validateFloat at h
  split at h
  · rename_i f; exact ⟨f, by cases h; rfl⟩
  · cases hd : asDouble v with
    | error e => simp [hd] at h
    | ok f => simp [hd] at h; exact ⟨f, h.symm⟩

theorem py_float_validate (cfg : String → PV) (n : Nat) (lo hi : Option F) (exLo exHi : Bool) (v : Val)
    (h1 : cfg "_low" = optFloat lo) (h2 : cfg "_high" = optFloat hi)
    (h3 : cfg "_exclude_low" = .bool exLo) (h4 : cfg "_exclude_high" = .bool exHi) :
    runL E cfg (n + 1) "BaseRange.float_validate" [.self_, .hobj, .name, .val v] =
      resToM (pyValidate E (.rangeF lo hi exLo exHi) v) := by
  have hl : table.lookup "BaseRange.float_validate" = some m_BaseRange_float_validate := by rfl
  rw [runL_succ]
  simp only [hl, m_BaseRange_float_validate]
  pyv_eval
  simp only [h1, h2, h3, h4, pyValidate]
  cases hv : validateFloat v with
  | error e => cases e <;> simp [resToM, excMatches, Exc.name]
  | ok w =>
    obtain ⟨f, rfl⟩ := validateFloat_exact v w hv
    cases lo <;> cases hi <;> cases exLo <;> cases exHi <;>
      simp [optFloat, pyInRangeF, floatOf, pvIs, pvLt, pvLe, F.gt, F.ge]
    all_goals (try (repeat' split) <;> simp_all)
    all_goals (first | (split <;> simp_all) | (congr 1; done) | (by_cases hb : F.le f _ = true <;> simp [hb]))

theorem py_rangeF (lo hi : Option F) (exLo exHi : Bool) (v : Val) :
    srcPy E (.rangeF lo hi exLo exHi) v = some (pyValidate E (.rangeF lo hi exLo exHi) v) := by
  py_start m_BaseRange_validate "BaseRange.validate"
  pyv_eval
  simp only [callOut]
  rw [py_float_validate E _ 1 lo hi exLo exHi v rfl rfl rfl rfl]
  cases pyValidate E (.rangeF lo hi exLo exHi) v <;> simp [resToM, toRes]

theorem py_type (cls : Ty) (an : Bool) (v : Val) :
    srcPy E (.type_ cls an) v = some (pyValidate E (.type_ cls an) v) := by
  py_start m_Type_validate "Type.validate"
  pyv_eval
  simp only [pyValidate, isNone_iff']
  cases isSubclass v cls with
  | none => cases v.isNone <;> cases an <;> simp
  | some b => cases b <;> simp


theorem py_instance (cls : Ty) (an : Bool) (mode : Nat) (dflt v : Val)
    (hA : ∀ r, E.adapt v cls = .ok (some r) → r ≠ Val.none) :
    srcPy E (.instance cls an mode dflt) v = some (pyValidate E (.instance cls an mode dflt) v) := by
  py_start m_BaseInstance_validate "BaseInstance.validate"
  pyv_eval
  simp only [pyValidate, pyInstanceValidate, isNone_iff']
  have hm0 : ((mode : Int) = 0) ↔ (mode = 0) := by omega
  have hm1 : ((mode : Int) = 1) ↔ (mode = 1) := by omega
  simp only [hm0, hm1]
  cases v.isNone <;> cases an <;> simp <;>
    (by_cases h0 : mode = 0 <;> simp [h0]) <;>
    (try (cases Val.isInst cls v <;> simp))
  all_goals
    cases ha : E.adapt v cls with
    | error e => simp
    | ok o =>
      cases o with
      | none => by_cases h1 : mode = 1 <;> simp [h1]
      | some r => simp [(isNone_iff' r).symm, hA r ha]


/-! ## Assembly, second part -/

/-- Trait types whose Python `validate` method is tied to its source text (both parts). -/
def pyCovered2 : TraitType → Bool
  | .noFast t => pyCovered2 t
  | .rangeF .. | .type_ .. | .instance .. => true
  | t => pyCovered t

theorem srcPy_eq2 (hE : CastIdem E) (hA : ∀ v cls r, E.adapt v cls = .ok (some r) → r ≠ Val.none) :
    ∀ (t : TraitType) (v : Val), pyCovered2 t = true → srcPy E t v = some (pyValidate E t v)
  | .noFast t, v, h => by
    rw [srcPy_noFast, srcPy_eq2 hE hA t v (by simpa [pyCovered2] using h)]; simp [pyValidate]
  | .rangeF lo hi a b, v, _ => py_rangeF E lo hi a b v
  | .type_ cls an, v, _ => py_type E cls an v
  | .instance cls an mode dflt, v, _ => py_instance E cls an mode dflt v (hA v cls)
  | .int, v, h | .float, v, h | .complex, v, h | .str, v, h | .bytes, v, h | .bool, v, h
  | .cint, v, h | .cfloat, v, h | .ccomplex, v, h | .cstr, v, h | .cbytes, v, h | .cbool, v, h
  | .enum _, v, h | .map .., v, h | .noneTrait, v, h | .this _, v, h
  | .any, v, h | .rangeI .., v, h | .tuple _, v, h | .baseTuple _, v, h
  | .validatedTuple .., v, h | .tupleAny, v, h | .callable _, v, h
  | .module, v, h | .either .., v, h | .union _, v, h | .string .., v, h | .prefixList _, v, h
  | .prefixMap .., v, h | .array .., v, h | .coerceH _, v, h | .castH _, v, h | .instanceH .., v, h
  | .functionH _, v, h | .enumH _, v, h | .mapH .., v, h | .compoundH _, v, h =>
    srcPy_eq E hE _ v (by simpa [pyCovered2] using h)

end TraitsVerif.Model.PyVSrc
