/-
Cluster `obs`: mutations of an observed SET / DICT container preserve the refinement
invariant when the active registrations MAY contain `filtered` nodes (`*`, `+metadata`):
`SetCoreF` / `DictCoreF` = `SetCore` / `DictCore` without `noFiltered`, nothing in its place.
Same step as `ObsInvFilteredList.lean` (whose `GenA` machinery is generic in the site).
-/
import TraitsVerif.Lemmas.ObsInvFilteredList
import TraitsVerif.Lemmas.ObsInvDictItems
namespace TraitsVerif.Model.Obs
open TraitsVerif

/-! ### sets -/

theorem setSite_okA (h : Heap) (c : Id) (items : List Id) (hc : h.get c = .set items) :
    GenA.SiteOKA (setSite c) actTrue h where
  own := by
    intro ob x hr _
    cases ob with
    | setItems nt opt =>
      simp only [setSite, isSetItems, Bool.true_and, beq_iff_eq] at hr
      subst hr
      simp [observables, Heap.at, hc, Observer.mkind, setSite]
    | _ => simp [setSite, isSetItems] at hr
  inactive := by intro ob x _ ha; simp [actTrue] at ha
  other := by
    intro ob x hr hm
    obtain ⟨hx, hkind⟩ := obs_cont_mem h ob x c hm
    subst hx
    rcases hkind with ⟨_, l, hl⟩ | ⟨_, l, hl⟩ | ⟨⟨nt, opt, rfl⟩, _⟩
    · rw [hc] at hl; cases hl
    · rw [hc] at hl; cases hl
    · simp [setSite, isSetItems] at hr

theorem setRel_selfA (h : Heap) (c : Id) (items : List Id) (hc : h.get c = .set items) :
    GenA.RelA (setSite c) actTrue h h (items.map some) where
  obs := fun _ _ => rfl
  ext := fun _ _ => rfl
  objs := fun _ _ _ => rfl
  objsN := by intro ob x _ ha; simp [actTrue] at ha
  objsR := by
    intro ob x hr _
    cases ob with
    | setItems nt opt =>
      simp only [setSite, isSetItems, Bool.true_and, beq_iff_eq] at hr
      subst hr
      simp [objects, Heap.at, hc]
    | _ => simp [setSite, isSetItems] at hr

section updSet
variable {h : Heap} {c : Id} {items : List Id}

theorem setRel_updA (hc : h.get c = .set items) (items' : List Id) :
    GenA.RelA (setSite c) actTrue h (h.upd c (.set items')) (items'.map some) where
  obs := by
    intro ob x
    by_cases hx : x = some c
    · subst hx
      cases ob with
      | filtered fl nt => simp [observables, Heap.at, Heap.get_upd, hc]
      | named m nt opt => simp only [observables, hasTrait_upd_set hc]
      | listItems nt opt => simp [observables, Heap.at, Heap.get_upd, hc]
      | dictItems nt opt => simp [observables, Heap.at, Heap.get_upd, hc]
      | setItems nt opt => simp [observables, Heap.at, Heap.get_upd, hc]
    · cases ob with
      | filtered fl nt => simp [observables, upd_at_ne_obj (.set items') x hx]
      | named m nt opt => simp only [observables, hasTrait_upd_set hc]
      | listItems nt opt => simp [observables, upd_at_ne_obj (.set items') x hx]
      | dictItems nt opt => simp [observables, upd_at_ne_obj (.set items') x hx]
      | setItems nt opt => simp [observables, upd_at_ne_obj (.set items') x hx]
  ext := by
    intro ob x
    by_cases hx : x = some c
    · subst hx
      cases ob with
      | filtered fl nt => simp [extraObservables, Heap.at, Heap.get_upd, hc]
      | named m nt opt => simp [extraObservables, Heap.at, Heap.get_upd, hc]
      | listItems nt opt => rfl
      | dictItems nt opt => rfl
      | setItems nt opt => rfl
    · cases ob with
      | filtered fl nt => simp [extraObservables, upd_at_ne_obj (.set items') x hx]
      | named m nt opt => simp [extraObservables, upd_at_ne_obj (.set items') x hx]
      | listItems nt opt => rfl
      | dictItems nt opt => rfl
      | setItems nt opt => rfl
  objs := by
    intro ob x hr
    by_cases hx : x = some c
    · subst hx
      cases ob with
      | filtered fl nt => simp [objects, Heap.at, Heap.get_upd, hc]
      | named m nt opt => simp only [objects, hasTrait_upd_set hc, fieldVal_upd_set hc]
      | listItems nt opt => simp [objects, Heap.at, Heap.get_upd, hc]
      | dictItems nt opt => simp [objects, Heap.at, Heap.get_upd, hc]
      | setItems nt opt => simp [setSite, isSetItems] at hr
    · cases ob with
      | filtered fl nt => simp [objects, upd_at_ne_obj (.set items') x hx]
      | named m nt opt => simp only [objects, hasTrait_upd_set hc, fieldVal_upd_set hc]
      | listItems nt opt => simp [objects, upd_at_ne_obj (.set items') x hx]
      | dictItems nt opt => simp [objects, upd_at_ne_obj (.set items') x hx]
      | setItems nt opt => simp [objects, upd_at_ne_obj (.set items') x hx]
  objsN := by intro ob x _ ha; simp [actTrue] at ha
  objsR := by
    intro ob x hr _
    cases ob with
    | setItems nt opt =>
      simp only [setSite, isSetItems, Bool.true_and, beq_iff_eq] at hr
      subst hr
      simp [objects, Heap.at, Heap.get_upd]
    | _ => simp [setSite, isSetItems] at hr

end updSet

/-- Hypotheses under which a mutation of the set container `c` (contents
`items` ↦ `items'`, reported as `ev`) preserves the invariant. -/
structure SetCoreF (E : Env) (st : St) (regs : List Reg) (c : Id) (items items' : List Id) (ev : CEvent) : Prop where
  hc : st.h.get c = .set items
  alive : ∀ k, E.dead k = false
  /-- the walks the maintainers perform meet no failing `iter_*` -/
  okRem : ∀ mk g k, Notifier.maint mk g k ∈ st.H.get (.cont c) → ∀ y ∈ ev.removed,
    walkOk (st.h.upd c (.set items')) true g (some y) = true
  okAdd : ∀ mk g k, Notifier.maint mk g k ∈ st.H.get (.cont c) → ∀ y ∈ ev.added,
    walkOk (st.h.upd c (.set items')) true g (some y) = true
  /-- NoSelfReach: below the current items, and below the removed / added ones, the
  maintained sub-graphs never come back to the set itself -/
  nsrItems : ∀ r ∈ regs, ∀ g ∈ Gen.visits (setSite c) actTrue st.h r.g (some r.x), ∀ y ∈ items,
    ∀ it ∈ hookList st.h r.k true g (some y), it.1 ≠ .cont c
  nsrLive : ∀ mk g k, Notifier.maint mk g k ∈ st.H.get (.cont c) → ∀ y ∈ ev.removed ++ ev.added,
    ∀ it ∈ hookList (st.h.upd c (.set items')) k true g (some y), it.1 ≠ .cont c
  /-- graph equality is structural on the sub-graphs involved -/
  eqStruct : ∀ mk g k, Notifier.maint mk g k ∈ st.H.get (.cont c) → ∀ r ∈ regs,
    ∀ g' ∈ Gen.visits (setSite c) actTrue st.h r.g (some r.x),
    (NKey.maint mk g k).equals (.maint .set g' r.k) = true → g = g' ∧ k = r.k

/-- … plus: the event is a faithful delta, old = removed + rest, new = rest + added
(as multisets; proved below for each set operation). -/
structure SetItemsFragF (E : Env) (st : St) (regs : List Reg) (c : Id) (items items' rest : List Id) (ev : CEvent) : Prop
    extends SetCoreF E st regs c items items' ev where
  hitems : ∀ F : Id → Nat, (items.map F).sum = (ev.removed.map F).sum + (rest.map F).sum
  hitems' : ∀ F : Id → Nat, (items'.map F).sum = (rest.map F).sum + (ev.added.map F).sum

theorem setMut_preservesF (E : Env) (st : St) (regs : List Reg) (c : Id) (items items' rest : List Id) (ev : CEvent)
    (hinv : HooksEqReach st.h st.H regs) (fr : SetItemsFragF E st regs c items items' rest ev) :
    HooksEqReach (st.h.upd c (.set items')) (runCont E st (st.h.upd c (.set items')) c (some ev)).st.H regs ∧
    (runCont E st (st.h.upd c (.set items')) c (some ev)).err = none := by
  obtain ⟨hwf, hcnt⟩ := hinv
  have ok := setSite_okA st.h c items fr.hc
  have R0 := setRel_selfA st.h c items fr.hc
  have R1 := setRel_updA fr.hc items'
  have Dh : ∀ r ∈ regs, ∀ o' q, cntItems (hookList st.h r.k true r.g (some r.x)) o' q =
      cntItems (Gen.stable (setSite c) st.h r.k true r.g (some r.x)) o' q +
      Gen.blocks st.h r.k (items.map some) (Gen.visits (setSite c) actTrue st.h r.g (some r.x)) o' q :=
    fun r hr o' q => GenA.decA ok R0 r.k r.g true (some r.x) o' q
  have Dh' : ∀ r ∈ regs, ∀ o' q, cntItems (hookList (st.h.upd c (.set items')) r.k true r.g (some r.x)) o' q =
      cntItems (Gen.stable (setSite c) st.h r.k true r.g (some r.x)) o' q +
      Gen.blocks (st.h.upd c (.set items')) r.k (items'.map some)
        (Gen.visits (setSite c) actTrue st.h r.g (some r.x)) o' q :=
    fun r hr o' q => GenA.decA ok R1 r.k r.g true (some r.x) o' q
  -- L3 below every current item
  have L3y : ∀ r ∈ regs, ∀ g ∈ Gen.visits (setSite c) actTrue st.h r.g (some r.x), ∀ y ∈ items,
      hookList (st.h.upd c (.set items')) r.k true g (some y) = hookList st.h r.k true g (some y) := by
    intro r hr g hg y hy
    exact GenA.localityA ok R1 r.k g true (some y)
      (fr.nsrItems r hr g hg y hy)
  have L3 : ∀ r ∈ regs, ∀ o' q, Gen.blocks (st.h.upd c (.set items')) r.k (items.map some)
        (Gen.visits (setSite c) actTrue st.h r.g (some r.x)) o' q =
      Gen.blocks st.h r.k (items.map some) (Gen.visits (setSite c) actTrue st.h r.g (some r.x)) o' q := by
    intro r hr o' q
    unfold Gen.blocks
    apply sum_map_congr
    intro g hg
    congr 1
    apply flatMap_congr'
    intro w hw
    simp only [List.mem_map] at hw
    obtain ⟨y, hy, rfl⟩ := hw
    exact L3y r hr g hg y hy
  have B0 : ∀ r ∈ regs, ∀ q, Gen.blocks st.h r.k (items.map some)
      (Gen.visits (setSite c) actTrue st.h r.g (some r.x)) (.cont c) q = 0 := by
    intro r hr q
    unfold Gen.blocks
    apply sum_map_zero
    intro g hg
    apply cntItems_zero_of_ne
    intro it hit
    simp only [List.mem_flatMap, List.mem_map] at hit
    obtain ⟨w, ⟨y, hy, rfl⟩, hm⟩ := hit
    exact fr.nsrItems r hr g hg y hy it hm
  have specH : ∀ o' q, specCnt st.h regs o' q =
      (regs.map (fun r => cntItems (Gen.stable (setSite c) st.h r.k true r.g (some r.x)) o' q)).sum +
      (regs.map (fun r => Gen.blocks st.h r.k (items.map some)
        (Gen.visits (setSite c) actTrue st.h r.g (some r.x)) o' q)).sum := by
    intro o' q
    unfold specCnt
    rw [← sum_map_add]
    exact sum_map_congr _ _ _ (fun r hr => Dh r hr o' q)
  have specH' : ∀ o' q, specCnt (st.h.upd c (.set items')) regs o' q =
      (regs.map (fun r => cntItems (Gen.stable (setSite c) st.h r.k true r.g (some r.x)) o' q)).sum +
      (regs.map (fun r => Gen.blocks (st.h.upd c (.set items')) r.k (items'.map some)
        (Gen.visits (setSite c) actTrue st.h r.g (some r.x)) o' q)).sum := by
    intro o' q
    unfold specCnt
    rw [← sum_map_add]
    exact sum_map_congr _ _ _ (fun r hr => Dh' r hr o' q)
  -- the maintainers on the set are the visits
  have hcounts : ∀ q, (mKeys (st.H.get (.cont c))).countP (fun a => a.equals q) =
      (visitKeysS st.h c regs).countP (fun a => a.equals q) := by
    intro q
    cases q with
    | user k0 =>
      rw [List.countP_eq_zero.2, List.countP_eq_zero.2]
      · intro a ha
        obtain ⟨r, _, g, _, rfl⟩ := visitKeysS_shape _ _ _ a ha
        simp [NKey.equals]
      · intro a ha
        obtain ⟨mk, g, k, rfl, _⟩ := mKeys_shape _ a ha
        simp [NKey.equals]
    | maint mk c0 k0 =>
      rw [← cntList_eq_countP_m]
      have := hcnt (.cont c) (.maint mk c0 k0)
      unfold cnt at this
      rw [this]
      by_cases hmk : mk = .set
      · subst hmk
        rw [visitKeysS_countP, specH]
        have hz : (regs.map (fun r => Gen.blocks st.h r.k (items.map some)
            (Gen.visits (setSite c) actTrue st.h r.g (some r.x)) (.cont c) (.maint .set c0 k0))).sum = 0 :=
          sum_map_zero _ _ (fun r hr => B0 r hr _)
        rw [hz, Nat.add_zero]
        exact sum_map_congr _ _ _ (fun r hr =>
          GenA.stable_at_targetA ok (by simp [setSite]) r.k r.g true (some r.x) c0 k0)
      · rw [specCnt_cont_kind_set st.h regs c items fr.hc mk c0 k0 hmk, eq_comm, List.countP_eq_zero]
        intro a ha
        obtain ⟨r, _, g, _, rfl⟩ := visitKeysS_shape _ _ _ a ha
        cases mk <;> simp_all [NKey.equals]
  have hmatch : ∀ (ys : List Id) o' q,
      effectSumC (blockOf (st.h.upd c (.set items')) ys o' q) (st.H.get (.cont c)) =
      (regs.map (fun r => Gen.blocks (st.h.upd c (.set items')) r.k (ys.map some)
        (Gen.visits (setSite c) actTrue st.h r.g (some r.x)) o' q)).sum := by
    intro ys o' q
    rw [effectSumC_eq_keys, sum_blocks_eq_keysS]
    apply sum_eq_of_equiv_counts _ _ _ hcounts
    intro a ha b hb hab
    obtain ⟨mk, g, k, rfl, hm⟩ := mKeys_shape _ a ha
    obtain ⟨r, hr, g', hg', rfl⟩ := visitKeysS_shape _ _ _ b hb
    obtain ⟨rfl, rfl⟩ := fr.eqStruct mk g k hm r hr g' hg' hab
    rfl
  -- multiset decomposition of the blocks
  have hsplitB : ∀ (ys a b : List Id), (∀ F : Id → Nat, (ys.map F).sum = (a.map F).sum + (b.map F).sum) →
      ∀ o' q, (regs.map (fun r => Gen.blocks (st.h.upd c (.set items')) r.k (ys.map some)
        (Gen.visits (setSite c) actTrue st.h r.g (some r.x)) o' q)).sum =
      (regs.map (fun r => Gen.blocks (st.h.upd c (.set items')) r.k (a.map some)
        (Gen.visits (setSite c) actTrue st.h r.g (some r.x)) o' q)).sum +
      (regs.map (fun r => Gen.blocks (st.h.upd c (.set items')) r.k (b.map some)
        (Gen.visits (setSite c) actTrue st.h r.g (some r.x)) o' q)).sum := by
    intro ys a b hd o' q
    rw [← sum_map_add]
    apply sum_map_congr
    intro r _
    unfold Gen.blocks
    rw [← sum_map_add]
    apply sum_map_congr
    intro g _
    have := hd (fun y => cntItems (hookList (st.h.upd c (.set items')) r.k true g (some y)) o' q)
    simp only [cntItems_flatMap, List.map_map, Function.comp_def]
    exact this
  -- live iteration = iteration over the copy
  have hfr : ∀ mk g k, Notifier.maint mk g k ∈ st.H.get (.cont c) → ∀ H',
      (maintCont (st.h.upd c (.set items')) g k ev H').H.get (.cont c) = H'.get (.cont c) :=
    fun mk g k hm H' => maintCont_frame _ g k ev (.cont c) H' (fr.nsrLive mk g k hm)
  have heq := notifyCont_eq_callCont E (st.h.upd c (.set items')) c ev (st.H.get (.cont c)) hfr
    ((st.H.get (.cont c)).length + 4096) 0 st.H [] rfl (by omega)
  simp only [runCont, heq, List.drop_zero]
  have hl : LoopOkC E (st.h.upd c (.set items')) ev (st.H.get (.cont c)) :=
    { alive := fr.alive, okRem := fr.okRem, okAdd := fr.okAdd }
  have hI := fun o' q => hsplitB items ev.removed rest fr.hitems o' q
  have hI' := fun o' q => hsplitB items' rest ev.added fr.hitems' o' q
  have hle : ∀ o' q, effectSumC (blockOf (st.h.upd c (.set items')) ev.removed o' q) (st.H.get (.cont c)) ≤
      cnt st.H o' q := by
    intro o' q
    rw [hmatch, hcnt, specH, ← sum_map_congr _ _ _ (fun r hr => L3 r hr o' q), hI]
    omega
  obtain ⟨e, w, cc⟩ := callCont_effect E (st.h.upd c (.set items')) c ev _ st.H [] hl hwf hle
  refine ⟨⟨w, ?_⟩, e⟩
  intro o' q
  have := cc o' q
  rw [hmatch, hmatch, hcnt, specH, ← sum_map_congr _ _ _ (fun r hr => L3 r hr o' q), hI] at this
  rw [specH', hI']
  omega

/-- `s.add(x)`, `x` not yet in the set -/
theorem setAdd_preservesF (E : Env) (st : St) (regs : List Reg) (c : Id) (x : Id) (items : List Id)
    (hx : x ∉ items) (hinv : HooksEqReach st.h st.H regs)
    (core : SetCoreF E st regs c items (insertSorted x items) (.set [] [x])) :
    HooksEqReach (mutate E st (.setAdd c x)).st.h (mutate E st (.setAdd c x)).st.H regs ∧
    (mutate E st (.setAdd c x)).err = none := by
  have fr : SetItemsFragF E st regs c items (insertSorted x items) items (.set [] [x]) :=
    { core with
      hitems := by intro F; simp [CEvent.removed]
      hitems' := by intro F; rw [sum_insertSorted]; simp [CEvent.added]; omega }
  have hcn : items.contains x = false := by simpa using hx
  simp only [mutate, core.hc, hcn, Bool.false_eq_true, if_false]
  exact setMut_preservesF E st regs c items _ items _ hinv fr


/-- `s.discard(x)` / `s.remove(x)`, `x` in the (duplicate-free) set -/
theorem setDiscard_preservesF (E : Env) (st : St) (regs : List Reg) (c : Id) (x : Id) (items : List Id)
    (hx : x ∈ items) (hnd : items.Nodup) (hinv : HooksEqReach st.h st.H regs)
    (core : SetCoreF E st regs c items (items.filter (· != x)) (.set [x] [])) :
    HooksEqReach (mutate E st (.setDiscard c x)).st.h (mutate E st (.setDiscard c x)).st.H regs ∧
    (mutate E st (.setDiscard c x)).err = none := by
  have fr : SetItemsFragF E st regs c items (items.filter (· != x)) (items.filter (· != x)) (.set [x] []) :=
    { core with
      hitems := by intro F; rw [sum_filter_ne F x items hx hnd]; simp [CEvent.removed]
      hitems' := by intro F; simp [CEvent.added] }
  have hcn : items.contains x = true := by simpa using hx
  simp only [mutate, core.hc, hcn, if_true]
  exact setMut_preservesF E st regs c items _ _ _ hinv fr


/-- `s.clear()` on a non-empty set -/
theorem setClear_preservesF (E : Env) (st : St) (regs : List Reg) (c : Id) (items : List Id)
    (hne : items.isEmpty = false) (hinv : HooksEqReach st.h st.H regs)
    (core : SetCoreF E st regs c items [] (.set items [])) :
    HooksEqReach (mutate E st (.setClear c)).st.h (mutate E st (.setClear c)).st.H regs ∧
    (mutate E st (.setClear c)).err = none := by
  have fr : SetItemsFragF E st regs c items [] [] (.set items []) :=
    { core with
      hitems := by intro F; simp [CEvent.removed]
      hitems' := by intro F; simp [CEvent.added] }
  simp only [mutate, core.hc, hne, Bool.false_eq_true, if_false]
  exact setMut_preservesF E st regs c items _ _ _ hinv fr



/-! ### dicts -/

theorem dictSite_okA (h : Heap) (c : Id) (items : List (Key × Id)) (hc : h.get c = .dict items) :
    GenA.SiteOKA (dictSite c) actTrue h where
  own := by
    intro ob x hr _
    cases ob with
    | dictItems nt opt =>
      simp only [dictSite, isDictItems, Bool.true_and, beq_iff_eq] at hr
      subst hr
      simp [observables, Heap.at, hc, Observer.mkind, dictSite]
    | _ => simp [dictSite, isDictItems] at hr
  inactive := by intro ob x _ ha; simp [actTrue] at ha
  other := by
    intro ob x hr hm
    obtain ⟨hx, hkind⟩ := obs_cont_mem h ob x c hm
    subst hx
    rcases hkind with ⟨_, l, hl⟩ | ⟨⟨nt, opt, rfl⟩, _⟩ | ⟨_, l, hl⟩
    · rw [hc] at hl; cases hl
    · simp [dictSite, isDictItems] at hr
    · rw [hc] at hl; cases hl

theorem dictRel_selfA (h : Heap) (c : Id) (items : List (Key × Id)) (hc : h.get c = .dict items) :
    GenA.RelA (dictSite c) actTrue h h ((items.map (·.2)).map some) where
  obs := fun _ _ => rfl
  ext := fun _ _ => rfl
  objs := fun _ _ _ => rfl
  objsN := by intro ob x _ ha; simp [actTrue] at ha
  objsR := by
    intro ob x hr _
    cases ob with
    | dictItems nt opt =>
      simp only [dictSite, isDictItems, Bool.true_and, beq_iff_eq] at hr
      subst hr
      simp [objects, Heap.at, hc, List.map_map, Function.comp_def]
    | _ => simp [dictSite, isDictItems] at hr

section updDict
variable {h : Heap} {c : Id} {items : List (Key × Id)}

theorem dictRel_updA (hc : h.get c = .dict items) (items' : List (Key × Id)) :
    GenA.RelA (dictSite c) actTrue h (h.upd c (.dict items')) ((items'.map (·.2)).map some) where
  obs := by
    intro ob x
    by_cases hx : x = some c
    · subst hx
      cases ob with
      | filtered fl nt => simp [observables, Heap.at, Heap.get_upd, hc]
      | named m nt opt => simp only [observables, hasTrait_upd_dict hc]
      | listItems nt opt => simp [observables, Heap.at, Heap.get_upd, hc]
      | dictItems nt opt => simp [observables, Heap.at, Heap.get_upd, hc]
      | setItems nt opt => simp [observables, Heap.at, Heap.get_upd, hc]
    · cases ob with
      | filtered fl nt => simp [observables, upd_at_ne_obj (.dict items') x hx]
      | named m nt opt => simp only [observables, hasTrait_upd_dict hc]
      | listItems nt opt => simp [observables, upd_at_ne_obj (.dict items') x hx]
      | dictItems nt opt => simp [observables, upd_at_ne_obj (.dict items') x hx]
      | setItems nt opt => simp [observables, upd_at_ne_obj (.dict items') x hx]
  ext := by
    intro ob x
    by_cases hx : x = some c
    · subst hx
      cases ob with
      | filtered fl nt => simp [extraObservables, Heap.at, Heap.get_upd, hc]
      | named m nt opt => simp [extraObservables, Heap.at, Heap.get_upd, hc]
      | listItems nt opt => rfl
      | dictItems nt opt => rfl
      | setItems nt opt => rfl
    · cases ob with
      | filtered fl nt => simp [extraObservables, upd_at_ne_obj (.dict items') x hx]
      | named m nt opt => simp [extraObservables, upd_at_ne_obj (.dict items') x hx]
      | listItems nt opt => rfl
      | dictItems nt opt => rfl
      | setItems nt opt => rfl
  objs := by
    intro ob x hr
    by_cases hx : x = some c
    · subst hx
      cases ob with
      | filtered fl nt => simp [objects, Heap.at, Heap.get_upd, hc]
      | named m nt opt => simp only [objects, hasTrait_upd_dict hc, fieldVal_upd_dict hc]
      | listItems nt opt => simp [objects, Heap.at, Heap.get_upd, hc]
      | dictItems nt opt => simp [dictSite, isDictItems] at hr
      | setItems nt opt => simp [objects, Heap.at, Heap.get_upd, hc]
    · cases ob with
      | filtered fl nt => simp [objects, upd_at_ne_obj (.dict items') x hx]
      | named m nt opt => simp only [objects, hasTrait_upd_dict hc, fieldVal_upd_dict hc]
      | listItems nt opt => simp [objects, upd_at_ne_obj (.dict items') x hx]
      | dictItems nt opt => simp [objects, upd_at_ne_obj (.dict items') x hx]
      | setItems nt opt => simp [objects, upd_at_ne_obj (.dict items') x hx]
  objsN := by intro ob x _ ha; simp [actTrue] at ha
  objsR := by
    intro ob x hr _
    cases ob with
    | dictItems nt opt =>
      simp only [dictSite, isDictItems, Bool.true_and, beq_iff_eq] at hr
      subst hr
      simp [objects, Heap.at, Heap.get_upd, List.map_map, Function.comp_def]
    | _ => simp [dictSite, isDictItems] at hr

end updDict

/-- Hypotheses under which a mutation of the dict `c` (contents
`items` ↦ `items'`, reported as `ev`) preserves the invariant. -/
structure DictCoreF (E : Env) (st : St) (regs : List Reg) (c : Id) (items items' : List (Key × Id)) (ev : CEvent) : Prop where
  hc : st.h.get c = .dict items
  alive : ∀ k, E.dead k = false
  /-- the walks the maintainers perform meet no failing `iter_*` -/
  okRem : ∀ mk g k, Notifier.maint mk g k ∈ st.H.get (.cont c) → ∀ y ∈ ev.removed,
    walkOk (st.h.upd c (.dict items')) true g (some y) = true
  okAdd : ∀ mk g k, Notifier.maint mk g k ∈ st.H.get (.cont c) → ∀ y ∈ ev.added,
    walkOk (st.h.upd c (.dict items')) true g (some y) = true
  /-- NoSelfReach: below the current items, and below the removed / added ones, the
  maintained sub-graphs never come back to the dict itself -/
  nsrItems : ∀ r ∈ regs, ∀ g ∈ Gen.visits (dictSite c) actTrue st.h r.g (some r.x), ∀ y ∈ items.map (·.2),
    ∀ it ∈ hookList st.h r.k true g (some y), it.1 ≠ .cont c
  nsrLive : ∀ mk g k, Notifier.maint mk g k ∈ st.H.get (.cont c) → ∀ y ∈ ev.removed ++ ev.added,
    ∀ it ∈ hookList (st.h.upd c (.dict items')) k true g (some y), it.1 ≠ .cont c
  /-- graph equality is structural on the sub-graphs involved -/
  eqStruct : ∀ mk g k, Notifier.maint mk g k ∈ st.H.get (.cont c) → ∀ r ∈ regs,
    ∀ g' ∈ Gen.visits (dictSite c) actTrue st.h r.g (some r.x),
    (NKey.maint mk g k).equals (.maint .dict g' r.k) = true → g = g' ∧ k = r.k

/-- … plus: the event is a faithful delta, old = removed + rest, new = rest + added
(as multisets; proved below for each dict operation). -/
structure DictItemsFragF (E : Env) (st : St) (regs : List Reg) (c : Id) (items items' : List (Key × Id)) (rest : List Id) (ev : CEvent) : Prop
    extends DictCoreF E st regs c items items' ev where
  hitems : ∀ F : Id → Nat, ((items.map (·.2)).map F).sum = (ev.removed.map F).sum + (rest.map F).sum
  hitems' : ∀ F : Id → Nat, ((items'.map (·.2)).map F).sum = (rest.map F).sum + (ev.added.map F).sum

theorem dictMut_preservesF (E : Env) (st : St) (regs : List Reg) (c : Id) (items items' : List (Key × Id)) (rest : List Id) (ev : CEvent)
    (hinv : HooksEqReach st.h st.H regs) (fr : DictItemsFragF E st regs c items items' rest ev) :
    HooksEqReach (st.h.upd c (.dict items')) (runCont E st (st.h.upd c (.dict items')) c (some ev)).st.H regs ∧
    (runCont E st (st.h.upd c (.dict items')) c (some ev)).err = none := by
  obtain ⟨hwf, hcnt⟩ := hinv
  have ok := dictSite_okA st.h c items fr.hc
  have R0 := dictRel_selfA st.h c items fr.hc
  have R1 := dictRel_updA fr.hc items'
  have Dh : ∀ r ∈ regs, ∀ o' q, cntItems (hookList st.h r.k true r.g (some r.x)) o' q =
      cntItems (Gen.stable (dictSite c) st.h r.k true r.g (some r.x)) o' q +
      Gen.blocks st.h r.k ((items.map (·.2)).map some) (Gen.visits (dictSite c) actTrue st.h r.g (some r.x)) o' q :=
    fun r hr o' q => GenA.decA ok R0 r.k r.g true (some r.x) o' q
  have Dh' : ∀ r ∈ regs, ∀ o' q, cntItems (hookList (st.h.upd c (.dict items')) r.k true r.g (some r.x)) o' q =
      cntItems (Gen.stable (dictSite c) st.h r.k true r.g (some r.x)) o' q +
      Gen.blocks (st.h.upd c (.dict items')) r.k ((items'.map (·.2)).map some)
        (Gen.visits (dictSite c) actTrue st.h r.g (some r.x)) o' q :=
    fun r hr o' q => GenA.decA ok R1 r.k r.g true (some r.x) o' q
  -- L3 below every current item
  have L3y : ∀ r ∈ regs, ∀ g ∈ Gen.visits (dictSite c) actTrue st.h r.g (some r.x), ∀ y ∈ items.map (·.2),
      hookList (st.h.upd c (.dict items')) r.k true g (some y) = hookList st.h r.k true g (some y) := by
    intro r hr g hg y hy
    exact GenA.localityA ok R1 r.k g true (some y)
      (fr.nsrItems r hr g hg y hy)
  have L3 : ∀ r ∈ regs, ∀ o' q, Gen.blocks (st.h.upd c (.dict items')) r.k ((items.map (·.2)).map some)
        (Gen.visits (dictSite c) actTrue st.h r.g (some r.x)) o' q =
      Gen.blocks st.h r.k ((items.map (·.2)).map some) (Gen.visits (dictSite c) actTrue st.h r.g (some r.x)) o' q := by
    intro r hr o' q
    unfold Gen.blocks
    apply sum_map_congr
    intro g hg
    congr 1
    apply flatMap_congr'
    intro w hw
    obtain ⟨y, hy, rfl⟩ := List.mem_map.1 hw
    exact L3y r hr g hg y hy
  have B0 : ∀ r ∈ regs, ∀ q, Gen.blocks st.h r.k ((items.map (·.2)).map some)
      (Gen.visits (dictSite c) actTrue st.h r.g (some r.x)) (.cont c) q = 0 := by
    intro r hr q
    unfold Gen.blocks
    apply sum_map_zero
    intro g hg
    apply cntItems_zero_of_ne
    intro it hit
    obtain ⟨w, hw, hm⟩ := List.mem_flatMap.1 hit
    obtain ⟨y, hy, rfl⟩ := List.mem_map.1 hw
    exact fr.nsrItems r hr g hg y hy it hm
  have specH : ∀ o' q, specCnt st.h regs o' q =
      (regs.map (fun r => cntItems (Gen.stable (dictSite c) st.h r.k true r.g (some r.x)) o' q)).sum +
      (regs.map (fun r => Gen.blocks st.h r.k ((items.map (·.2)).map some)
        (Gen.visits (dictSite c) actTrue st.h r.g (some r.x)) o' q)).sum := by
    intro o' q
    unfold specCnt
    rw [← sum_map_add]
    exact sum_map_congr _ _ _ (fun r hr => Dh r hr o' q)
  have specH' : ∀ o' q, specCnt (st.h.upd c (.dict items')) regs o' q =
      (regs.map (fun r => cntItems (Gen.stable (dictSite c) st.h r.k true r.g (some r.x)) o' q)).sum +
      (regs.map (fun r => Gen.blocks (st.h.upd c (.dict items')) r.k ((items'.map (·.2)).map some)
        (Gen.visits (dictSite c) actTrue st.h r.g (some r.x)) o' q)).sum := by
    intro o' q
    unfold specCnt
    rw [← sum_map_add]
    exact sum_map_congr _ _ _ (fun r hr => Dh' r hr o' q)
  -- the maintainers on the dict are the visits
  have hcounts : ∀ q, (mKeys (st.H.get (.cont c))).countP (fun a => a.equals q) =
      (visitKeysD st.h c regs).countP (fun a => a.equals q) := by
    intro q
    cases q with
    | user k0 =>
      rw [List.countP_eq_zero.2, List.countP_eq_zero.2]
      · intro a ha
        obtain ⟨r, _, g, _, rfl⟩ := visitKeysD_shape _ _ _ a ha
        simp [NKey.equals]
      · intro a ha
        obtain ⟨mk, g, k, rfl, _⟩ := mKeys_shape _ a ha
        simp [NKey.equals]
    | maint mk c0 k0 =>
      rw [← cntList_eq_countP_m]
      have := hcnt (.cont c) (.maint mk c0 k0)
      unfold cnt at this
      rw [this]
      by_cases hmk : mk = .dict
      · subst hmk
        rw [visitKeysD_countP, specH]
        have hz : (regs.map (fun r => Gen.blocks st.h r.k ((items.map (·.2)).map some)
            (Gen.visits (dictSite c) actTrue st.h r.g (some r.x)) (.cont c) (.maint .dict c0 k0))).sum = 0 :=
          sum_map_zero _ _ (fun r hr => B0 r hr _)
        rw [hz, Nat.add_zero]
        exact sum_map_congr _ _ _ (fun r hr =>
          GenA.stable_at_targetA ok (by simp [dictSite]) r.k r.g true (some r.x) c0 k0)
      · rw [specCnt_cont_kind_dict st.h regs c items fr.hc mk c0 k0 hmk, eq_comm, List.countP_eq_zero]
        intro a ha
        obtain ⟨r, _, g, _, rfl⟩ := visitKeysD_shape _ _ _ a ha
        cases mk <;> simp_all [NKey.equals]
  have hmatch : ∀ (ys : List Id) o' q,
      effectSumC (blockOf (st.h.upd c (.dict items')) ys o' q) (st.H.get (.cont c)) =
      (regs.map (fun r => Gen.blocks (st.h.upd c (.dict items')) r.k (ys.map some)
        (Gen.visits (dictSite c) actTrue st.h r.g (some r.x)) o' q)).sum := by
    intro ys o' q
    rw [effectSumC_eq_keys, sum_blocks_eq_keysD]
    apply sum_eq_of_equiv_counts _ _ _ hcounts
    intro a ha b hb hab
    obtain ⟨mk, g, k, rfl, hm⟩ := mKeys_shape _ a ha
    obtain ⟨r, hr, g', hg', rfl⟩ := visitKeysD_shape _ _ _ b hb
    obtain ⟨rfl, rfl⟩ := fr.eqStruct mk g k hm r hr g' hg' hab
    rfl
  -- multiset decomposition of the blocks
  have hsplitB : ∀ (ys a b : List Id), (∀ F : Id → Nat, (ys.map F).sum = (a.map F).sum + (b.map F).sum) →
      ∀ o' q, (regs.map (fun r => Gen.blocks (st.h.upd c (.dict items')) r.k (ys.map some)
        (Gen.visits (dictSite c) actTrue st.h r.g (some r.x)) o' q)).sum =
      (regs.map (fun r => Gen.blocks (st.h.upd c (.dict items')) r.k (a.map some)
        (Gen.visits (dictSite c) actTrue st.h r.g (some r.x)) o' q)).sum +
      (regs.map (fun r => Gen.blocks (st.h.upd c (.dict items')) r.k (b.map some)
        (Gen.visits (dictSite c) actTrue st.h r.g (some r.x)) o' q)).sum := by
    intro ys a b hd o' q
    rw [← sum_map_add]
    apply sum_map_congr
    intro r _
    unfold Gen.blocks
    rw [← sum_map_add]
    apply sum_map_congr
    intro g _
    have := hd (fun y => cntItems (hookList (st.h.upd c (.dict items')) r.k true g (some y)) o' q)
    simp only [cntItems_flatMap, List.map_map, Function.comp_def]
    exact this
  -- live iteration = iteration over the copy
  have hfr : ∀ mk g k, Notifier.maint mk g k ∈ st.H.get (.cont c) → ∀ H',
      (maintCont (st.h.upd c (.dict items')) g k ev H').H.get (.cont c) = H'.get (.cont c) :=
    fun mk g k hm H' => maintCont_frame _ g k ev (.cont c) H' (fr.nsrLive mk g k hm)
  have heq := notifyCont_eq_callCont E (st.h.upd c (.dict items')) c ev (st.H.get (.cont c)) hfr
    ((st.H.get (.cont c)).length + 4096) 0 st.H [] rfl (by omega)
  simp only [runCont, heq, List.drop_zero]
  have hl : LoopOkC E (st.h.upd c (.dict items')) ev (st.H.get (.cont c)) :=
    { alive := fr.alive, okRem := fr.okRem, okAdd := fr.okAdd }
  have hI := fun o' q => hsplitB (items.map (·.2)) ev.removed rest fr.hitems o' q
  have hI' := fun o' q => hsplitB (items'.map (·.2)) rest ev.added fr.hitems' o' q
  have hle : ∀ o' q, effectSumC (blockOf (st.h.upd c (.dict items')) ev.removed o' q) (st.H.get (.cont c)) ≤
      cnt st.H o' q := by
    intro o' q
    rw [hmatch, hcnt, specH, ← sum_map_congr _ _ _ (fun r hr => L3 r hr o' q), hI]
    omega
  obtain ⟨e, w, cc⟩ := callCont_effect E (st.h.upd c (.dict items')) c ev _ st.H [] hl hwf hle
  refine ⟨⟨w, ?_⟩, e⟩
  intro o' q
  have := cc o' q
  rw [hmatch, hmatch, hcnt, specH, ← sum_map_congr _ _ _ (fun r hr => L3 r hr o' q), hI] at this
  rw [specH', hI']
  omega

/-- `d[k] = x`, `k` a new key -/
theorem dictSet_new_preservesF (E : Env) (st : St) (regs : List Reg) (c : Id) (k : Key) (x : Id) (d : List (Key × Id))
    (hk : d.find? (·.1 == k) = none) (hinv : HooksEqReach st.h st.H regs)
    (core : DictCoreF E st regs c d (d ++ [(k, x)]) (.dict [] [(k, x)])) :
    HooksEqReach (mutate E st (.dictSet c k x)).st.h (mutate E st (.dictSet c k x)).st.H regs ∧
    (mutate E st (.dictSet c k x)).err = none := by
  have fr : DictItemsFragF E st regs c d (d ++ [(k, x)]) (d.map (·.2)) (.dict [] [(k, x)]) :=
    { core with
      hitems := by intro F; simp [CEvent.removed]
      hitems' := by intro F; simp [CEvent.added, List.map_append, List.sum_append] }
  simp only [mutate, core.hc, hk]
  exact dictMut_preservesF E st regs c d _ _ _ hinv fr


/-- `d[k] = x`, `k` an existing key (old value `y`): reported as `y` removed and `x` added.
The same object may sit under other keys too: it keeps their share of the reference counts. -/
theorem dictSet_overwrite_preservesF (E : Env) (st : St) (regs : List Reg) (c : Id) (k k' : Key) (x y : Id)
    (d : List (Key × Id)) (hk : d.find? (·.1 == k) = some (k', y)) (hnd : (d.map (·.1)).Nodup)
    (hinv : HooksEqReach st.h st.H regs)
    (core : DictCoreF E st regs c d (d.map (fun kv => if kv.1 == k then (k, x) else kv)) (.dict [(k, y)] [(k, x)])) :
    HooksEqReach (mutate E st (.dictSet c k x)).st.h (mutate E st (.dictSet c k x)).st.H regs ∧
    (mutate E st (.dictSet c k x)).err = none := by
  have fr : DictItemsFragF E st regs c d (d.map (fun kv => if kv.1 == k then (k, x) else kv))
      ((d.filter (·.1 != k)).map (·.2)) (.dict [(k, y)] [(k, x)]) :=
    { core with
      hitems := by intro F; rw [sum_dict_split F k k' y d hnd hk]; simp [CEvent.removed]
      hitems' := by intro F; rw [sum_dict_overwrite F k k' x y d hnd hk]; simp [CEvent.added] }
  simp only [mutate, core.hc, hk]
  exact dictMut_preservesF E st regs c d _ _ _ hinv fr


/-- `del d[k]` / `d.pop(k)`, `k` an existing key -/
theorem dictDel_preservesF (E : Env) (st : St) (regs : List Reg) (c : Id) (k k' : Key) (y : Id)
    (d : List (Key × Id)) (hk : d.find? (·.1 == k) = some (k', y)) (hnd : (d.map (·.1)).Nodup)
    (hinv : HooksEqReach st.h st.H regs)
    (core : DictCoreF E st regs c d (d.filter (·.1 != k)) (.dict [(k, y)] [])) :
    HooksEqReach (mutate E st (.dictDel c k)).st.h (mutate E st (.dictDel c k)).st.H regs ∧
    (mutate E st (.dictDel c k)).err = none := by
  have fr : DictItemsFragF E st regs c d (d.filter (·.1 != k)) ((d.filter (·.1 != k)).map (·.2)) (.dict [(k, y)] []) :=
    { core with
      hitems := by intro F; rw [sum_dict_split F k k' y d hnd hk]; simp [CEvent.removed]
      hitems' := by intro F; simp [CEvent.added] }
  simp only [mutate, core.hc, hk]
  exact dictMut_preservesF E st regs c d _ _ _ hinv fr


/-- `d.clear()` on a non-empty dict -/
theorem dictClear_preservesF (E : Env) (st : St) (regs : List Reg) (c : Id) (d : List (Key × Id))
    (hne : d.isEmpty = false) (hinv : HooksEqReach st.h st.H regs)
    (core : DictCoreF E st regs c d [] (.dict d [])) :
    HooksEqReach (mutate E st (.dictClear c)).st.h (mutate E st (.dictClear c)).st.H regs ∧
    (mutate E st (.dictClear c)).err = none := by
  have fr : DictItemsFragF E st regs c d [] [] (.dict d []) :=
    { core with
      hitems := by intro F; simp [CEvent.removed]
      hitems' := by intro F; simp [CEvent.added] }
  simp only [mutate, core.hc, hne, Bool.false_eq_true, if_false]
  exact dictMut_preservesF E st regs c d _ _ _ hinv fr



/-! ### non-vacuity witnesses -/

namespace FilteredSetWitness

def fld (n : Name) (v : Val) : Field := ⟨n, false, .val (if n == nValue then .int 0 else .none), v, .equality⟩
def wKey : HKey := ⟨0, 0⟩
def wHeap : Heap :=
  [(0, .inst [fld nGroup (.ref 100), fld nTraitAdded .unset]),
   (1, .inst [fld nValue (.int 3), fld nTraitAdded .unset]),
   (2, .inst [fld nValue (.int 5), fld nTraitAdded .unset]),
   (100, .set [1, 2])]
/-- quiet `*` on `a` → optional items → `value` -/
def wGraph : Graph :=
  .node (.filtered .anyTrait false) [.node (.setItems true true) [.node (.named nValue true false) []]]
def wSt : St := ⟨wHeap, (addRemove wHeap wKey false true wGraph (some 0) Hooks.empty).H⟩
def wRegs : List Reg := [⟨wKey, wGraph, 0⟩]

theorem wInv : HooksEqReach wSt.h wSt.H wRegs := by
  have hok : (addRemove wHeap wKey false true wGraph (some 0) Hooks.empty).err = none := by decide
  obtain ⟨_, hc, hw⟩ := addRemove_add wHeap wKey wGraph true (some 0) Hooks.empty hok
  refine ⟨hw WF_empty, ?_⟩
  intro o q
  show cnt (addRemove wHeap wKey false true wGraph (some 0) Hooks.empty).H o q = _
  rw [hc]
  simp [specCnt, cnt, Hooks.empty, cntList, wRegs, wSt]

theorem wHooks : wSt.H.get (.cont 100) =
    [.user wKey 1, .maint .set (.node (.named nValue true false) []) wKey] := rfl
theorem wVisits : Gen.visits (setSite 100) actTrue wSt.h wGraph (some 0) = [.node (.named nValue true false) []] := rfl

theorem wCore : SetCoreF {} wSt wRegs 100 [1, 2] ([1, 2].filter (· != 1)) (.set [1] []) where
  hc := rfl
  alive := fun _ => rfl
  okRem := by
    intro mk g k hm y hy
    rw [wHooks] at hm
    simp at hm
    obtain ⟨rfl, rfl, rfl⟩ := hm
    simp [CEvent.removed] at hy
    subst hy
    decide
  okAdd := by intro mk g k _ y hy; simp [CEvent.added] at hy
  nsrItems := by
    intro r hr g hg y hy
    simp [wRegs] at hr; subst hr
    rw [wVisits] at hg
    simp at hg; subst hg
    simp at hy
    rcases hy with rfl | rfl <;> decide
  nsrLive := by
    intro mk g k hm y hy
    rw [wHooks] at hm
    simp at hm
    obtain ⟨rfl, rfl, rfl⟩ := hm
    simp [CEvent.removed, CEvent.added] at hy
    subst hy
    decide
  eqStruct := by
    intro mk g k hm r hr g' hg' he
    rw [wHooks] at hm
    simp at hm
    obtain ⟨rfl, rfl, rfl⟩ := hm
    simp [wRegs] at hr; subst hr
    rw [wVisits] at hg'
    simp at hg'; subst hg'
    exact ⟨rfl, rfl⟩

example : HooksEqReach (mutate {} wSt (.setDiscard 100 1)).st.h (mutate {} wSt (.setDiscard 100 1)).st.H wRegs :=
  (setDiscard_preservesF {} wSt wRegs 100 1 [1, 2] (by decide) (by decide) wInv wCore).1

example : cnt wSt.H (.trait 1 nValue) (.user wKey) = 1 ∧
    cnt (mutate {} wSt (.setDiscard 100 1)).st.H (.trait 1 nValue) (.user wKey) = 0 ∧
    cnt (mutate {} wSt (.setDiscard 100 1)).st.H (.trait 2 nValue) (.user wKey) = 1 := by decide

end FilteredSetWitness

namespace FilteredDictWitness

def fld (n : Name) (v : Val) : Field := ⟨n, false, .val (if n == nValue then .int 0 else .none), v, .equality⟩
def wKey : HKey := ⟨0, 0⟩
def wHeap : Heap :=
  [(0, .inst [fld nByname (.ref 100), fld nTraitAdded .unset]),
   (1, .inst [fld nValue (.int 3), fld nTraitAdded .unset]),
   (2, .inst [fld nValue (.int 5), fld nTraitAdded .unset]),
   (100, .dict [(1, 1), (2, 1)])]
/-- quiet `*` on `a` → optional items → `value` -/
def wGraph : Graph :=
  .node (.filtered .anyTrait false) [.node (.dictItems true true) [.node (.named nValue true false) []]]
def wSt : St := ⟨wHeap, (addRemove wHeap wKey false true wGraph (some 0) Hooks.empty).H⟩
def wRegs : List Reg := [⟨wKey, wGraph, 0⟩]

theorem wInv : HooksEqReach wSt.h wSt.H wRegs := by
  have hok : (addRemove wHeap wKey false true wGraph (some 0) Hooks.empty).err = none := by decide
  obtain ⟨_, hc, hw⟩ := addRemove_add wHeap wKey wGraph true (some 0) Hooks.empty hok
  refine ⟨hw WF_empty, ?_⟩
  intro o q
  show cnt (addRemove wHeap wKey false true wGraph (some 0) Hooks.empty).H o q = _
  rw [hc]
  simp [specCnt, cnt, Hooks.empty, cntList, wRegs, wSt]

theorem wHooks : wSt.H.get (.cont 100) =
    [.user wKey 1, .maint .dict (.node (.named nValue true false) []) wKey] := rfl
theorem wVisits : Gen.visits (dictSite 100) actTrue wSt.h wGraph (some 0) = [.node (.named nValue true false) []] := rfl

theorem wCore : DictCoreF {} wSt wRegs 100 [(1, 1), (2, 1)] ([(1, 1), (2, 1)].filter (·.1 != 1)) (.dict [(1, 1)] []) where
  hc := rfl
  alive := fun _ => rfl
  okRem := by
    intro mk g k hm y hy
    rw [wHooks] at hm
    simp at hm
    obtain ⟨rfl, rfl, rfl⟩ := hm
    simp [CEvent.removed] at hy
    subst hy
    decide
  okAdd := by intro mk g k _ y hy; simp [CEvent.added] at hy
  nsrItems := by
    intro r hr g hg y hy
    simp [wRegs] at hr; subst hr
    rw [wVisits] at hg
    simp at hg; subst hg
    simp at hy
    subst hy
    decide
  nsrLive := by
    intro mk g k hm y hy
    rw [wHooks] at hm
    simp at hm
    obtain ⟨rfl, rfl, rfl⟩ := hm
    simp [CEvent.removed, CEvent.added] at hy
    subst hy
    decide
  eqStruct := by
    intro mk g k hm r hr g' hg' he
    rw [wHooks] at hm
    simp at hm
    obtain ⟨rfl, rfl, rfl⟩ := hm
    simp [wRegs] at hr; subst hr
    rw [wVisits] at hg'
    simp at hg'; subst hg'
    exact ⟨rfl, rfl⟩

example : HooksEqReach (mutate {} wSt (.dictDel 100 1)).st.h (mutate {} wSt (.dictDel 100 1)).st.H wRegs :=
  (dictDel_preservesF {} wSt wRegs 100 1 1 1 [(1, 1), (2, 1)] rfl (by decide) wInv wCore).1

example : cnt wSt.H (.trait 1 nValue) (.user wKey) = 2 ∧
    cnt (mutate {} wSt (.dictDel 100 1)).st.H (.trait 1 nValue) (.user wKey) = 1 := by decide

end FilteredDictWitness

end TraitsVerif.Model.Obs
