/-
Cluster `obs`: failure atomicity.  Everything a walk does is recorded in the one
undo log of the outermost call (`walk_did`), and the owner rolls it back
(`finish_atomic`): a registration OR removal that raises — anywhere in the walk,
after any number of completed sibling subtrees or graphs — leaves every count as
it was.
-/
import TraitsVerif.Lemmas.ObsRemove
namespace TraitsVerif.Model.Obs
open TraitsVerif

theorem addRemove_atomic (h : Heap) (k : HKey) (g : Graph) (rm extra : Bool) (x : W) (H : Hooks) (hw : WF H)
    (he : (addRemove h k rm extra g x H).err ≠ none) :
    (∀ o q, cnt (addRemove h k rm extra g x H).H o q = cnt H o q) ∧ WF (addRemove h k rm extra g x H).H := by
  unfold addRemove at he ⊢
  rw [finish_err] at he
  exact finish_atomic rm H _ (walk_did h k g rm extra x H [] hw) he

theorem applyObservers_atomic (h : Heap) (k : HKey) (rm : Bool) (x : W) (gs : List Graph) (H : Hooks) (hw : WF H)
    (he : (applyObservers h k rm x gs H).err ≠ none) :
    (∀ o q, cnt (applyObservers h k rm x gs H).H o q = cnt H o q) ∧ WF (applyObservers h k rm x gs H).H := by
  unfold applyObservers at he ⊢
  rw [finish_err] at he
  exact finish_atomic rm H _ (applyObserversW_did h k rm x gs H [] hw) he

theorem observe_atomic (h : Heap) (handler : Nat) (root : Id) (rm : Bool) (e : Expr) (H : Hooks) (hw : WF H)
    (he : (observe h handler root rm e H).err ≠ none) :
    (∀ o q, cnt (observe h handler root rm e H).H o q = cnt H o q) ∧ WF (observe h handler root rm e H).H := by
  unfold observe at he ⊢
  cases hc : e.compile with
  | error ex => exact ⟨fun _ _ => rfl, hw⟩
  | ok gs =>
    simp only [hc] at he ⊢
    exact applyObservers_atomic h _ rm _ gs H hw he

/-- Well-formedness survives every call, raising or not. -/
theorem addRemove_WF (h : Heap) (k : HKey) (g : Graph) (rm extra : Bool) (x : W) (H : Hooks) (hw : WF H) :
    WF (addRemove h k rm extra g x H).H := by
  cases he : (addRemove h k rm extra g x H).err with
  | some e => exact (addRemove_atomic h k g rm extra x H hw (by simp [he])).2
  | none =>
    unfold addRemove at he ⊢
    rw [finish_err] at he
    rw [finish_ok _ _ he]
    exact (walk_did h k g rm extra x H [] hw).wf

end TraitsVerif.Model.Obs
