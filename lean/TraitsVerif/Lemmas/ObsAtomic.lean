/-
Cluster `obs`: failure atomicity of a registration whose walk raises before any
sibling subtree has completed (`firstFail`): the undo logs restore every count.
-/
import TraitsVerif.Lemmas.ObsRemove
namespace TraitsVerif.Model.Obs
open TraitsVerif

def AtomicSpec (h : Heap) (k : HKey) (g : Graph) : Prop :=
  ∀ (extra : Bool) (x : W) (H : Hooks), WF H → firstFail h g x = true →
    (addRemove h k false extra g x H).err ≠ none ∧
    (∀ o q, cnt (addRemove h k false extra g x H).H o q = cnt H o q) ∧
    WF (addRemove h k false extra g x H).H

theorem addRemove_atomic (h : Heap) (k : HKey) : ∀ g : Graph, AtomicSpec h k g := by
  apply Graph.ind
  intro ob cs ih extra x H hw hff
  rw [addRemove_add_unfold]
  simp only [firstFail, Bool.or_eq_true, Bool.not_eq_true'] at hff
  cases hobs : observables h ob x with
  | error e =>
    -- the node's own `iter_observables` raises: nothing was added
    by_cases hn : ob.notify = true
    · simp [notifStep, hn, hobs, undo]; exact hw
    · simp [notifStep, maintStep, hn, hobs, undo]; exact hw
  | ok os =>
    have hcsF : firstFailCs h ob x cs = true := by
      cases hff with
      | inl h1 => simp [hobs, isOk] at h1
      | inr h2 => exact h2
    -- own steps succeed
    obtain ⟨H1, d1, hs1, hc1, hw1, hd1⟩ : ∃ H1 d1, notifStep h k false ob x H [] = (H1, d1, none) ∧
        (∀ o q, cnt H1 o q = cnt H o q + cntItems d1 o q) ∧ WF H1 ∧ True := by
      unfold notifStep
      by_cases hn : ob.notify = true
      · obtain ⟨H1, ha, hc, hw'⟩ := applyOwn_add (userItems k os) H []
        refine ⟨H1, _, by simp [hn, hobs]; exact ha, ?_, hw' hw, trivial⟩
        intro o q; rw [hc, cntItems_append, cntItems_reverse, cntItems_nil]; omega
      · exact ⟨H, [], by simp [hn], by simp [cntItems_nil], hw, trivial⟩
    simp only [hs1]
    obtain ⟨H2, ha2, hc2, hw2⟩ := applyOwn_add (maintItems ob cs k os) H1 d1
    have hs2 : maintStep h k false ob cs x H1 d1 = (H2, (maintItems ob cs k os).reverse ++ d1, none) := by
      simp [maintStep, hobs]; exact ha2
    simp only [hs2]
    have hw2' := hw2 hw1
    -- everything this node added is in its undo log
    have hdone : ∀ o q, cnt H2 o q = cnt H o q + cntItems ((maintItems ob cs k os).reverse ++ d1) o q := by
      intro o q
      rw [hc2, hc1, cntItems_append, cntItems_reverse]; omega
    -- the children step raises at its first (child graph, object) pair, restoring the counts
    obtain ⟨e3, he3, hc3, hw3⟩ : ∃ e, (addRemoveCs h k false ob x cs H2).err = some e ∧
        (∀ o q, cnt (addRemoveCs h k false ob x cs H2).H o q = cnt H2 o q) ∧
        WF (addRemoveCs h k false ob x cs H2).H := by
      cases cs with
      | nil => simp [firstFailCs] at hcsF
      | cons c cs' =>
        simp only [firstFailCs] at hcsF
        simp only [addRemoveCs]
        cases hobj : objects h ob x with
        | error e => exact ⟨e, rfl, fun _ _ => rfl, hw2'⟩
        | ok ys =>
          cases ys with
          | nil => simp [hobj] at hcsF
          | cons y ys' =>
            simp only [hobj] at hcsF
            obtain ⟨a1, a2, a3⟩ := ih c (List.mem_cons_self ..) true y H2 hw2' hcsF
            cases he : (addRemove h k false true c y H2).err with
            | none => exact absurd he a1
            | some e =>
              simp only [foldRes, he]
              exact ⟨e, rfl, a2, a3⟩
    simp only [he3]
    have hle : ∀ o q, cntItems ((maintItems ob cs k os).reverse ++ d1) o q ≤
        cnt (addRemoveCs h k false ob x cs H2).H o q := by
      intro o q
      rw [hc3, hdone]; omega
    obtain ⟨u1, u2⟩ := undo_add _ _ hw3 hle
    refine ⟨by simp, ?_, u2⟩
    intro o q
    have := u1 o q
    rw [hc3, hdone] at this
    omega

end TraitsVerif.Model.Obs
