/-
Cluster `obs`: what a mutation delivers.

* every delivered event is produced by a live user notifier sitting on the mutated
  observable and describes exactly that change (`callTrait_delivered`,
  `notifyCont_delivered`, `mutate_delivered`);
* notifiers whose weak fields are dead neither deliver nor run (`*_allDead`).
-/
import TraitsVerif.Lemmas.ObsRemove
namespace TraitsVerif.Model.Obs
open TraitsVerif

def Delivered.observable : Delivered → Observable
  | .trait _ o n _ _ => .trait o n
  | .list _ c .. => .cont c
  | .dict _ c .. => .cont c
  | .set _ c .. => .cont c

/-- The observable whose notifiers a mutation calls. -/
def Mutation.target : Mutation → Option Observable
  | .alloc .. => none
  | .setField o n _ _ => some (.trait o n)
  | .read o n _ => some (.trait o n)
  | .delField o n _ => some (.trait o n)
  | .addTrait o _ _ _ => some (.trait o nTraitAdded)
  | .announce o _ _ => some (.trait o nTraitAdded)
  | .listAppend c _ => some (.cont c)
  | .listInsert c _ _ => some (.cont c)
  | .listDel c _ => some (.cont c)
  | .listSet c _ _ => some (.cont c)
  | .listSlice c _ _ _ => some (.cont c)
  | .listStride c _ _ _ => some (.cont c)
  | .listClear c => some (.cont c)
  | .listExtend c _ => some (.cont c)
  | .dictSet c _ _ => some (.cont c)
  | .dictDel c _ => some (.cont c)
  | .dictClear c => some (.cont c)
  | .setAdd c _ => some (.cont c)
  | .setDiscard c _ => some (.cont c)
  | .setClear c => some (.cont c)

theorem callTrait_delivered (E : Env) (h : Heap) (o : Id) (n : Name) (old new : Val) :
    ∀ (ns : List Notifier) (H : Hooks) (ds : List Delivered),
      ∀ d ∈ (callTrait E h o n old new ns H ds).2.1,
        d ∈ ds ∨ ∃ k rc, Notifier.user k rc ∈ ns ∧ E.dead k = false ∧ preventTrait E h o n old new = false ∧
          d = .trait k o n old new := by
  intro ns
  induction ns with
  | nil => intro H ds d hd; exact Or.inl hd
  | cons nt ns ih =>
    intro H ds d hd
    cases nt with
    | user k rc =>
      simp only [callTrait] at hd
      by_cases hc : (E.dead k || preventTrait E h o n old new) = true
      · simp only [hc, if_true] at hd
        rcases ih H ds d hd with h1 | ⟨k', rc', hm, r⟩
        · exact Or.inl h1
        · exact Or.inr ⟨k', rc', List.mem_cons_of_mem _ hm, r⟩
      · simp only [hc, if_false] at hd
        rcases ih H _ d hd with h1 | ⟨k', rc', hm, r⟩
        · rcases List.mem_append.1 h1 with h2 | h2
          · exact Or.inl h2
          · simp only [List.mem_singleton] at h2
            simp only [Bool.or_eq_true, not_or, Bool.not_eq_true] at hc
            exact Or.inr ⟨k, rc, List.mem_cons_self .., hc.1, hc.2, h2⟩
        · exact Or.inr ⟨k', rc', List.mem_cons_of_mem _ hm, r⟩
    | maint mk g k =>
      simp only [callTrait] at hd
      by_cases hc : E.dead k = true
      · simp only [hc, if_true] at hd
        rcases ih H ds d hd with h1 | ⟨k', rc', hm, r⟩
        · exact Or.inl h1
        · exact Or.inr ⟨k', rc', List.mem_cons_of_mem _ hm, r⟩
      · simp only [hc, if_false] at hd
        cases he : (maintTrait h mk g k o old new H).err with
        | some e => simp only [he] at hd; exact Or.inl hd
        | none =>
          simp only [he] at hd
          rcases ih _ ds d hd with h1 | ⟨k', rc', hm, r⟩
          · exact Or.inl h1
          · exact Or.inr ⟨k', rc', List.mem_cons_of_mem _ hm, r⟩

theorem notifyCont_delivered (E : Env) (h : Heap) (c : Id) (ev : CEvent) :
    ∀ (fuel i : Nat) (H : Hooks) (ds : List Delivered),
      ∀ d ∈ (notifyCont E h c ev fuel i H ds).2.1,
        d ∈ ds ∨ ∃ k, E.dead k = false ∧ d = deliverCont k c ev := by
  intro fuel
  induction fuel with
  | zero => intro i H ds d hd; exact Or.inl hd
  | succ fuel ih =>
    intro i H ds d hd
    simp only [notifyCont] at hd
    cases hg : (H.get (.cont c))[i]? with
    | none => simp only [hg] at hd; exact Or.inl hd
    | some nt =>
      cases nt with
      | user k rc =>
        simp only [hg] at hd
        by_cases hc : E.dead k = true
        · simp only [hc, if_true] at hd; exact ih _ _ _ d hd
        · simp only [hc, if_false] at hd
          rcases ih _ _ _ d hd with h1 | h1
          · rcases List.mem_append.1 h1 with h2 | h2
            · exact Or.inl h2
            · simp only [List.mem_singleton] at h2
              exact Or.inr ⟨k, by simpa using hc, h2⟩
          · exact Or.inr h1
      | maint mk g k =>
        simp only [hg] at hd
        by_cases hc : E.dead k = true
        · simp only [hc, if_true] at hd; exact ih _ _ _ d hd
        · simp only [hc, if_false] at hd
          cases he : (maintCont h g k ev H).err with
          | some e => simp only [he] at hd; exact Or.inl hd
          | none => simp only [he] at hd; exact ih _ _ _ d hd

theorem deliverCont_observable (k : HKey) (c : Id) (ev : CEvent) :
    (deliverCont k c ev).observable = .cont c ∧ (deliverCont k c ev).key = k := by
  cases ev <;> simp [deliverCont, Delivered.observable, Delivered.key]

theorem runCont_delivered (E : Env) (st : St) (h' : Heap) (c : Id) (ev : Option CEvent) :
    ∀ d ∈ (runCont E st h' c ev).delivered, d.observable = .cont c ∧ E.dead d.key = false := by
  intro d hd
  cases ev with
  | none => simp [runCont] at hd
  | some ev =>
    simp only [runCont] at hd
    rcases notifyCont_delivered E h' c ev _ _ _ _ d hd with h1 | ⟨k, hk, rfl⟩
    · cases h1
    · obtain ⟨a, b⟩ := deliverCont_observable k c ev
      exact ⟨a, by rw [b]; exact hk⟩

/-- What the delete branch delivers: the events of its two announcements. -/
theorem refire_delivered (E : Env) (r1 : Out) (o : Id) (n : Name) (cmp : Cmp) (old new : Val) (d : Delivered)
    (hd : d ∈ (refire E r1 o n cmp old new).delivered) :
    d ∈ r1.delivered ∨ d ∈ (fire E r1.st.H r1.st.h o n old new).delivered := by
  unfold refire at hd
  split at hd
  · exact Or.inl hd
  · split at hd
    · simp only [List.mem_append] at hd; exact hd
    · exact Or.inl hd

/-- Every event a mutation delivers comes from a live notifier and names the
observable that was mutated. -/
theorem mutate_delivered (E : Env) (st : St) (m : Mutation) :
    ∀ d ∈ (mutate E st m).delivered, some d.observable = m.target ∧ E.dead d.key = false := by
  intro d hd
  have trait_case : ∀ (H : Hooks) (h' : Heap) (o : Id) (n : Name) (old new : Val),
      d ∈ (fire E H h' o n old new).delivered → d.observable = .trait o n ∧ E.dead d.key = false := by
    intro H h' o n old new hd
    rcases callTrait_delivered E h' o n old new _ H [] d hd with h1 | ⟨k, rc, _, hk, _, rfl⟩
    · cases h1
    · exact ⟨rfl, hk⟩
  cases m with
  | alloc i o => simp [mutate] at hd
  | setField o n v fresh =>
    simp only [mutate] at hd
    simp only [Mutation.target, Option.some.injEq]
    split at hd
    · split at hd
      · simp [skip] at hd
      · split at hd
        · simp at hd
        · split at hd
          · simp at hd
          · exact trait_case _ _ _ _ _ _ hd
    · simp [skip] at hd
  | read o n fresh =>
    simp only [mutate] at hd
    simp only [Mutation.target, Option.some.injEq]
    split at hd
    · split at hd
      · simp [skip] at hd
      · split at hd
        · exact trait_case _ _ _ _ _ _ hd
        · simp at hd
    · simp [skip] at hd
  | delField o n fresh =>
    simp only [mutate] at hd
    simp only [Mutation.target, Option.some.injEq]
    split at hd
    · split at hd
      · simp [skip] at hd
      · split at hd
        · simp at hd
        · rcases refire_delivered E _ o n _ _ _ d hd with h1 | h2
          · exact trait_case _ _ _ _ _ _ h1
          · exact trait_case _ _ _ _ _ _ h2
    · simp [skip] at hd
  | addTrait o n tagged dflt =>
    simp only [mutate] at hd
    simp only [Mutation.target, Option.some.injEq]
    split at hd
    · split at hd
      · simp at hd
      · exact trait_case _ _ _ _ _ _ hd
    · simp [skip] at hd
  | announce o n guard =>
    simp only [mutate] at hd
    simp only [Mutation.target, Option.some.injEq]
    split at hd
    · split at hd
      · simp at hd
      · exact trait_case _ _ _ _ _ _ hd
    · simp [skip] at hd
  | listAppend c x =>
    simp only [mutate] at hd
    split at hd
    · exact ⟨by rw [(runCont_delivered E st _ c _ d hd).1]; rfl, (runCont_delivered E st _ c _ d hd).2⟩
    · simp [skip] at hd
  | listInsert c i x =>
    simp only [mutate] at hd
    split at hd
    · split at hd
      · exact ⟨by rw [(runCont_delivered E st _ c _ d hd).1]; rfl, (runCont_delivered E st _ c _ d hd).2⟩
      · simp [skip] at hd
    · simp [skip] at hd
  | listDel c i =>
    simp only [mutate] at hd
    split at hd
    · split at hd
      · exact ⟨by rw [(runCont_delivered E st _ c _ d hd).1]; rfl, (runCont_delivered E st _ c _ d hd).2⟩
      · simp [skip] at hd
    · simp [skip] at hd
  | listSet c i x =>
    simp only [mutate] at hd
    split at hd
    · split at hd
      · exact ⟨by rw [(runCont_delivered E st _ c _ d hd).1]; rfl, (runCont_delivered E st _ c _ d hd).2⟩
      · simp [skip] at hd
    · simp [skip] at hd
  | listSlice c i j xs =>
    simp only [mutate] at hd
    split at hd
    · split at hd
      · exact ⟨by rw [(runCont_delivered E st _ c _ d hd).1]; rfl, (runCont_delivered E st _ c _ d hd).2⟩
      · simp [skip] at hd
    · simp [skip] at hd
  | listStride c i step xs =>
    simp only [mutate] at hd
    split at hd
    · split at hd
      · exact ⟨by rw [(runCont_delivered E st _ c _ d hd).1]; rfl, (runCont_delivered E st _ c _ d hd).2⟩
      · simp [skip] at hd
    · simp [skip] at hd
  | listClear c =>
    simp only [mutate] at hd
    split at hd
    · exact ⟨by rw [(runCont_delivered E st _ c _ d hd).1]; rfl, (runCont_delivered E st _ c _ d hd).2⟩
    · simp [skip] at hd
  | listExtend c xs =>
    simp only [mutate] at hd
    split at hd
    · exact ⟨by rw [(runCont_delivered E st _ c _ d hd).1]; rfl, (runCont_delivered E st _ c _ d hd).2⟩
    · simp [skip] at hd
  | dictSet c k x =>
    simp only [mutate] at hd
    split at hd
    · split at hd
      · exact ⟨by rw [(runCont_delivered E st _ c _ d hd).1]; rfl, (runCont_delivered E st _ c _ d hd).2⟩
      · exact ⟨by rw [(runCont_delivered E st _ c _ d hd).1]; rfl, (runCont_delivered E st _ c _ d hd).2⟩
    · simp [skip] at hd
  | dictDel c k =>
    simp only [mutate] at hd
    split at hd
    · split at hd
      · exact ⟨by rw [(runCont_delivered E st _ c _ d hd).1]; rfl, (runCont_delivered E st _ c _ d hd).2⟩
      · simp [skip] at hd
    · simp [skip] at hd
  | dictClear c =>
    simp only [mutate] at hd
    split at hd
    · exact ⟨by rw [(runCont_delivered E st _ c _ d hd).1]; rfl, (runCont_delivered E st _ c _ d hd).2⟩
    · simp [skip] at hd
  | setAdd c x =>
    simp only [mutate] at hd
    split at hd
    · split at hd
      · simp at hd
      · exact ⟨by rw [(runCont_delivered E st _ c _ d hd).1]; rfl, (runCont_delivered E st _ c _ d hd).2⟩
    · simp [skip] at hd
  | setDiscard c x =>
    simp only [mutate] at hd
    split at hd
    · split at hd
      · exact ⟨by rw [(runCont_delivered E st _ c _ d hd).1]; rfl, (runCont_delivered E st _ c _ d hd).2⟩
      · simp at hd
    · simp [skip] at hd
  | setClear c =>
    simp only [mutate] at hd
    split at hd
    · exact ⟨by rw [(runCont_delivered E st _ c _ d hd).1]; rfl, (runCont_delivered E st _ c _ d hd).2⟩
    · simp [skip] at hd

/-- A trait assignment delivers only `(o, n, old ↦ v)` events from user notifiers hooked
on `o.n`; `old` is a different value unless the trait's comparison mode is `none`. -/
theorem setField_delivered (E : Env) (st : St) (o : Id) (n : Name) (v : Val) (fresh : Id) :
    ∀ d ∈ (mutate E st (.setField o n v fresh)).delivered,
      ∃ k old rc, d = .trait k o n old v ∧ (old = v → fieldCmp st.h o n = .none) ∧
        Notifier.user k rc ∈ st.H.get (.trait o n) := by
  intro d hd
  simp only [mutate] at hd
  cases ho : st.h.get o with
  | inst fs =>
    simp only [ho] at hd
    cases hf : findField fs n with
    | none => simp [hf, skip] at hd
    | some f =>
      simp only [hf] at hd
      split at hd
      · simp at hd
      · split at hd
        · simp at hd
        · rename_i hne
          rcases callTrait_delivered E _ o n _ v _ st.H [] d hd with h1 | ⟨k, rc, hm, _, _, rfl⟩
          · cases h1
          · refine ⟨k, _, rc, rfl, ?_, hm⟩
            intro he
            simp only [fieldCmp, ho, hf]
            simp only [Bool.and_eq_true, bne_iff_ne, ne_eq, beq_iff_eq, not_and] at hne
            exact Classical.byContradiction (fun hc => hne hc he)
  | list l => simp [ho, skip] at hd
  | dict l => simp [ho, skip] at hd
  | set l => simp [ho, skip] at hd
  | junk => simp [ho, skip] at hd

/-! ### dead weak references -/

/-- Every notifier of the list has a collected target or handler owner. -/
def AllDead (E : Env) (ns : List Notifier) : Prop := ∀ n ∈ ns, E.dead (NKey.hkey n.key) = true

theorem callTrait_allDead (E : Env) (h : Heap) (o : Id) (n : Name) (old new : Val) :
    ∀ (ns : List Notifier) (H : Hooks) (ds : List Delivered), AllDead E ns →
      callTrait E h o n old new ns H ds = (H, ds, none) := by
  intro ns
  induction ns with
  | nil => intro H ds _; rfl
  | cons nt ns ih =>
    intro H ds hall
    have hnt := hall nt (List.mem_cons_self ..)
    have hrest : AllDead E ns := fun n' hn' => hall n' (List.mem_cons_of_mem _ hn')
    cases nt with
    | user k rc =>
      simp only [Notifier.key, NKey.hkey] at hnt
      simp only [callTrait, hnt, Bool.true_or, if_true]
      exact ih H ds hrest
    | maint mk g k =>
      simp only [Notifier.key, NKey.hkey] at hnt
      simp only [callTrait, hnt, if_true]
      exact ih H ds hrest

theorem notifyCont_allDead (E : Env) (h : Heap) (c : Id) (ev : CEvent) (H : Hooks)
    (hall : AllDead E (H.get (.cont c))) :
    ∀ (fuel i : Nat) (ds : List Delivered), (H.get (.cont c)).length - i < fuel →
      notifyCont E h c ev fuel i H ds = (H, ds, none) := by
  intro fuel
  induction fuel with
  | zero => intro i ds hlt; omega
  | succ fuel ih =>
    intro i ds hlt
    simp only [notifyCont]
    cases hg : (H.get (.cont c))[i]? with
    | none => rfl
    | some nt =>
      have hi : i < (H.get (.cont c)).length := by
        rcases Nat.lt_or_ge i (H.get (.cont c)).length with h1 | h1
        · exact h1
        · rw [List.getElem?_eq_none h1] at hg; cases hg
      have hm : nt ∈ H.get (.cont c) := List.mem_of_getElem? hg
      have hnt := hall nt hm
      cases nt with
      | user k rc =>
        simp only [Notifier.key, NKey.hkey] at hnt
        simp only [hnt, if_true]
        exact ih (i + 1) ds (by omega)
      | maint mk g k =>
        simp only [Notifier.key, NKey.hkey] at hnt
        simp only [hnt, if_true]
        exact ih (i + 1) ds (by omega)

theorem runCont_allDead (E : Env) (st : St) (h' : Heap) (c : Id) (ev : Option CEvent)
    (hall : ∀ o, AllDead E (st.H.get o)) : runCont E st h' c ev = ⟨⟨h', st.H⟩, [], none⟩ := by
  cases ev with
  | none => rfl
  | some ev =>
    simp only [runCont]
    rw [notifyCont_allDead E h' c ev st.H (hall _) _ 0 [] (by omega)]

theorem fire_allDead (E : Env) (H : Hooks) (h' : Heap) (o : Id) (n : Name) (old new : Val)
    (hall : ∀ o, AllDead E (H.get o)) : fire E H h' o n old new = ⟨⟨h', H⟩, [], none⟩ := by
  simp only [fire]
  rw [callTrait_allDead E h' o n old new _ H [] (hall _)]

/-- With every notifier's weak reference dead, a mutation changes the heap only:
nothing is delivered, nothing raised, no hook touched. -/
theorem mutate_allDead (E : Env) (st : St) (m : Mutation) (hall : ∀ o, AllDead E (st.H.get o)) :
    (mutate E st m).delivered = [] ∧ (mutate E st m).st.H = st.H ∧
      ((mutate E st m).err = none ∨ mutate E st m = skip st) := by
  cases m with
  | alloc i o => simp [mutate]
  | setField o n v fresh =>
    simp only [mutate]
    split
    · split
      · simp [skip]
      · split
        · simp
        · split
          · simp
          · rw [fire_allDead E st.H _ o n _ v hall]; simp
    · simp [skip]
  | read o n fresh =>
    simp only [mutate]
    split
    · split
      · simp [skip]
      · split
        · rw [fire_allDead E st.H _ o n _ _ hall]; simp
        · simp
    · simp [skip]
  | delField o n fresh =>
    simp only [mutate]
    split
    · split
      · simp [skip]
      · split
        · simp
        · rw [fire_allDead E st.H _ o n _ _ hall]
          simp only [refire]
          split
          · rw [fire_allDead E st.H _ o n _ _ hall]; simp
          · simp
    · simp [skip]
  | addTrait o n tagged dflt =>
    simp only [mutate]
    split
    · split
      · simp
      · rw [fire_allDead E st.H _ o _ _ _ hall]; simp
    · simp [skip]
  | announce o n guard =>
    simp only [mutate]
    split
    · split
      · simp
      · rw [fire_allDead E st.H _ o _ _ _ hall]; simp
    · simp [skip]
  | listAppend c x =>
    simp only [mutate]; split
    · rw [runCont_allDead E st _ c _ hall]; simp
    · simp [skip]
  | listInsert c i x =>
    simp only [mutate]; split
    · split
      · rw [runCont_allDead E st _ c _ hall]; simp
      · simp [skip]
    · simp [skip]
  | listDel c i =>
    simp only [mutate]; split
    · split
      · rw [runCont_allDead E st _ c _ hall]; simp
      · simp [skip]
    · simp [skip]
  | listSet c i x =>
    simp only [mutate]; split
    · split
      · rw [runCont_allDead E st _ c _ hall]; simp
      · simp [skip]
    · simp [skip]
  | listSlice c i j xs =>
    simp only [mutate]; split
    · split
      · rw [runCont_allDead E st _ c _ hall]; simp
      · simp [skip]
    · simp [skip]
  | listStride c i step xs =>
    simp only [mutate]; split
    · split
      · rw [runCont_allDead E st _ c _ hall]; simp
      · simp [skip]
    · simp [skip]
  | listClear c =>
    simp only [mutate]; split
    · rw [runCont_allDead E st _ c _ hall]; simp
    · simp [skip]
  | listExtend c xs =>
    simp only [mutate]; split
    · rw [runCont_allDead E st _ c _ hall]; simp
    · simp [skip]
  | dictSet c k x =>
    simp only [mutate]; split
    · split
      · rw [runCont_allDead E st _ c _ hall]; simp
      · rw [runCont_allDead E st _ c _ hall]; simp
    · simp [skip]
  | dictDel c k =>
    simp only [mutate]; split
    · split
      · rw [runCont_allDead E st _ c _ hall]; simp
      · simp [skip]
    · simp [skip]
  | dictClear c =>
    simp only [mutate]; split
    · rw [runCont_allDead E st _ c _ hall]; simp
    · simp [skip]
  | setAdd c x =>
    simp only [mutate]; split
    · split
      · simp
      · rw [runCont_allDead E st _ c _ hall]; simp
    · simp [skip]
  | setDiscard c x =>
    simp only [mutate]; split
    · split
      · rw [runCont_allDead E st _ c _ hall]; simp
      · simp
    · simp [skip]
  | setClear c =>
    simp only [mutate]; split
    · rw [runCont_allDead E st _ c _ hall]; simp
    · simp [skip]

end TraitsVerif.Model.Obs
