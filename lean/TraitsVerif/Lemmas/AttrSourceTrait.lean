/-
`setattr_trait` (Generated/AttrProg.lean) against `Model.Attr.setattrTrait`, assignment paths: the C function is cut
at program points (`stTail k` = its statements from number k on); one lemma per segment, for an arbitrary machine
state satisfying the segment's precondition (`R17`, `R16`, `R8`, `R6`), each proved by executing only that segment
and appealing to the lemma of the next program point.
-/
import TraitsVerif.Lemmas.AttrSourceDel
namespace TraitsVerif.Lemmas.AttrSource
open TraitsVerif TraitsVerif.Model.Attr TraitsVerif.Model.MiniC
open TraitsVerif.Generated

/-! ### Program points of `setattr_trait` -/

/-- the statements from number `k` on (of a right-nested sequence) -/
def tailN : Nat → Stmt → Stmt
  | 0, s => s
  | n + 1, .seq _ b => tailN n b
  | _ + 1, s => s

/-- statement number `k` -/
def nthS : Nat → Stmt → Stmt
  | 0, .seq a _ => a
  | 0, s => s
  | n + 1, .seq _ b => nthS n b
  | _ + 1, s => s

def stBody : Stmt := AttrProg.setattr_trait.body
/-- `setattr_trait` from its `k`-th top-level statement to the end -/
def stTail (k : Nat) : Stmt := tailN k stBody

/-- what `call` makes of the final machine state -/
def outOf : MS × Flow → Out
  | (ms, .returned v) => (v, ms.s, ms.err)
  | (ms, _) => (.stuck, ms.s, ms.err)

theorem call_setattr_trait (C : IC) (v : Val) (s : OSt) (dn idn : Bool) :
    call C AttrProg.setattr_trait [.trait, .trait, .self, .name, v] s dn idn
      = outOf (exec C (stTail 0) { vars := bindArgs 0 [.trait, .trait, .self, .name, v], s := s, dictNull := dn, idictNull := idn }) := by
  simp only [call, outOf, stTail, tailN, stBody]
  rfl

/-- the model after the store: `post_setattr`, then the notifiers -/
def tailStore (E : Env) (t : TraitCore) (original value newValue : Id) (oldOpt : Option Id) (changed dn : Bool)
    (tn on : Option (List Notifier)) (s2 : OSt) : Option Exc × OSt :=
  let s3 := { s2 with slot := some newValue }
  if changed then
    let postArg := if testFlag t.flags TRAIT_POST_SETATTR_ORIGINAL_VALUE then original else value
    match postSetattr E t postArg s3 with
    | (some e, s4) => (some e, s4)
    | (none, s4) =>
      match oldOpt, dn with
      | some old, true => callNotifiers E t tn on old newValue s4
      | _, _ => (none, s4)
  else (none, s3)

structure R17 (C : IC) (ms : MS) (orig value nv : Id) (oldOpt : Option Id) (chg : Int) (dn : Bool)
    (tn on : Option (List Notifier)) : Prop where
  h1 : ms.vars 1 = .trait
  h2 : ms.vars 2 = .self
  h3 : ms.vars 3 = .name
  h4 : ms.vars 4 = .obj value
  h5 : ms.vars 5 = nlv tn .t
  h6 : ms.vars 6 = nlv on .o
  h7 : ms.vars 7 = ptrv oldOpt
  h8 : ms.vars 8 = .dict
  h9 : ms.vars 9 = .int chg
  h11 : ms.vars 11 = .obj orig
  h12 : ms.vars 12 = .obj nv
  h13 : ms.vars 13 = .int (if dn then 1 else 0)
  h14 : ms.vars 14 = (match C.t.post with | some _ => .fptr .post | none => .null)
  herr : ms.err = none
  hold : dn = true → oldOpt.isSome

macro "seg_exec" "[" ts:Lean.Parser.Tactic.simpLemma,* "]" : tactic =>
  `(tactic| simp [outOf, exec, eval, evalArgs, setVar, binop_eq, binop_ne, binop, truthy, ofBool, ofInt,
      band_eq_zero, getField, setField, getGlob, callPrim, callFPtr, retPtr, retInt, withS, failS,
      stTail, tailN, nthS, stBody, AttrProg.setattr_trait, ptrv, $ts,*])

/-- the part of `tailStore` after a `post_setattr` call with argument `pa` -/
def afterPost (E : Env) (t : TraitCore) (pa nv : Id) (oldOpt : Option Id) (dn : Bool)
    (tn on : Option (List Notifier)) (s3 : OSt) : Option Exc × OSt :=
  match postSetattr E t pa s3 with
  | (some e, s4) => (some e, s4)
  | (none, s4) =>
    match oldOpt, dn with
    | some old, true => callNotifiers E t tn on old nv s4
    | _, _ => (none, s4)

set_option maxHeartbeats 1000000 in
set_option maxRecDepth 4000 in
theorem tail17_post (C : IC) (ms : MS) (orig value nv : Id) (oldOpt : Option Id) (chg : Int) (dn : Bool)
    (tn on : Option (List Notifier)) (R : R17 C ms orig value nv oldOpt chg dn tn on) (hc : chg ≠ 0)
    (p : Nat) (pa : Id) (hp : C.t.post = some p)
    (hpa : (if testFlag C.t.flags TRAIT_POST_SETATTR_ORIGINAL_VALUE = true then orig else value) = pa) :
    outOf (exec C (stTail 17) ms) = ofInt (afterPost C.E C.t pa nv oldOpt dn tn on { ms.s with slot := some nv }) := by
  obtain ⟨h1, h2, h3, h4, h5, h6, h7, h8, h9, h11, h12, h13, h14, herr, hold⟩ := R
  unfold afterPost
  rcases hps : postSetattr C.E C.t pa { ms.s with slot := some nv } with ⟨_ | e, s4⟩
  · cases dn with
    | false =>
      cases hq : testFlag C.t.flags TRAIT_POST_SETATTR_ORIGINAL_VALUE <;> simp [hq] at hpa <;> subst hpa <;>
      seg_exec [h1, h2, h3, h4, h5, h6, h7, h8, h9, h11, h12, h13, h14, herr, hc, hq, hp, hps]
    | true =>
      obtain ⟨old, ho⟩ := Option.isSome_iff_exists.mp (hold rfl)
      subst ho
      rcases hcn : callNotifiers C.E C.t tn on old nv s4 with ⟨_ | e, s'⟩ <;>
      cases hq : testFlag C.t.flags TRAIT_POST_SETATTR_ORIGINAL_VALUE <;> simp [hq] at hpa <;> subst hpa <;>
      seg_exec [h1, h2, h3, h4, h5, h6, h7, h8, h9, h11, h12, h13, h14, herr, hc, hq, hp, hps, hcn]
  · cases hq : testFlag C.t.flags TRAIT_POST_SETATTR_ORIGINAL_VALUE <;> simp [hq] at hpa <;> subst hpa <;>
    seg_exec [h1, h2, h3, h4, h5, h6, h7, h8, h9, h11, h12, h13, h14, herr, hc, hq, hp, hps]

set_option maxHeartbeats 1000000 in
set_option maxRecDepth 4000 in
theorem tail17 (C : IC) (ms : MS) (orig value nv : Id) (oldOpt : Option Id) (chg : Int) (dn : Bool)
    (tn on : Option (List Notifier)) (R : R17 C ms orig value nv oldOpt chg dn tn on) :
    outOf (exec C (stTail 17) ms)
      = ofInt (tailStore C.E C.t orig value nv oldOpt (decide (chg ≠ 0)) dn tn on ms.s) := by
  by_cases hc : chg = 0
  · obtain ⟨h1, h2, h3, h4, h5, h6, h7, h8, h9, h11, h12, h13, h14, herr, hold⟩ := R
    unfold tailStore
    seg_exec [h1, h2, h3, h4, h5, h6, h7, h8, h9, h11, h12, h13, h14, herr, hc]
  · cases hp : C.t.post with
    | none =>
      obtain ⟨h1, h2, h3, h4, h5, h6, h7, h8, h9, h11, h12, h13, h14, herr, hold⟩ := R
      unfold tailStore
      cases hq : testFlag C.t.flags TRAIT_POST_SETATTR_ORIGINAL_VALUE <;>
      cases dn with
      | false => seg_exec [h1, h2, h3, h4, h5, h6, h7, h8, h9, h11, h12, h13, h14, herr, hc, hq, hp, postSetattr]
      | true =>
        obtain ⟨old, ho⟩ := Option.isSome_iff_exists.mp (hold rfl)
        subst ho
        rcases hcn : callNotifiers C.E C.t tn on old nv { ms.s with slot := some nv } with ⟨_ | e, s'⟩ <;>
        seg_exec [h1, h2, h3, h4, h5, h6, h7, h8, h9, h11, h12, h13, h14, herr, hc, hq, hp, postSetattr, hcn]
    | some p =>
      rw [tail17_post C ms orig value nv oldOpt chg dn tn on R hc p _ hp rfl]
      simp [tailStore, afterPost, hc]

macro "step_exec" "[" ts:Lean.Parser.Tactic.simpLemma,* "]" : tactic =>
  `(tactic| simp [exec, eval, evalArgs, setVar, binop_eq, binop_ne, binop, truthy, ofBool,
      band_eq_zero, getField, setField, getGlob, callPrim, callFPtr, retPtr, retInt, withS, failS,
      nthS, stBody, AttrProg.setattr_trait, ptrv, $ts,*])

theorem flag_chg (a b : Nat) : decide ((((a &&& b : Nat)) : Int) ≠ 0) = testFlag a b := by
  by_cases h : a &&& b = 0 <;> simp [testFlag, h]

theorem flag_ndz (a b : Nat) : (!decide (a &&& b = 0)) = testFlag a b := by
  by_cases h : a &&& b = 0 <;> simp [testFlag, h]

theorem e16 : stTail 16 = .seq (nthS 16 stBody) (stTail 17) := rfl

structure R16 (C : IC) (ms : MS) (orig value nv : Id) (dn : Bool) (tn on : Option (List Notifier)) : Prop where
  h0 : ms.vars 0 = .trait
  h1 : ms.vars 1 = .trait
  h2 : ms.vars 2 = .self
  h3 : ms.vars 3 = .name
  h4 : ms.vars 4 = .obj value
  h5 : ms.vars 5 = nlv tn .t
  h6 : ms.vars 6 = nlv on .o
  h7 : ms.vars 7 = .null
  h8 : ms.vars 8 = .dict
  h9 : ms.vars 9 = .int ((C.t.flags &&& TRAIT_COMPARISON_MODE_NONE : Nat) : Int)
  h11 : ms.vars 11 = .obj orig
  h12 : ms.vars 12 = .obj nv
  h13 : ms.vars 13 = .int (if dn then 1 else 0)
  h14 : ms.vars 14 = (match C.t.post with | some _ => .fptr .post | none => .null)
  herr : ms.err = none

/-- the model from the old-value fetch on -/
def tailFetch (E : Env) (t : TraitCore) (orig value nv : Id) (dn : Bool) (tn on : Option (List Notifier))
    (s1 : OSt) : Option Exc × OSt :=
  match s1.fetchOld E t (testFlag t.flags TRAIT_COMPARISON_MODE_NONE) dn value with
  | (.error e, s2) => (some e, s2)
  | (.ok (oldOpt, changed), s2) => tailStore E t orig value nv oldOpt changed dn tn on s2

set_option hygiene false in
/-- close a leaf of `tail16`: the rest is `tail17` with the given old value, `changed` word and `do_notifiers` -/
macro "fin17" o:term:max c:term:max d:term:max : tactic =>
  `(tactic| (subst hK
             refine (tail17 C _ orig value nv $o $c $d tn on
               (by constructor <;> simp [setVar, ptrv, *])).trans ?_))

set_option maxHeartbeats 2000000 in
set_option maxRecDepth 4000 in
theorem tail16 (C : IC) (ms : MS) (orig value nv : Id) (dn : Bool) (tn on : Option (List Notifier))
    (R : R16 C ms orig value nv dn tn on) :
    outOf (exec C (stTail 16) ms) = ofInt (tailFetch C.E C.t orig value nv dn tn on ms.s) := by
  obtain ⟨h0, h1, h2, h3, h4, h5, h6, h7, h8, h9, h11, h12, h13, h14, herr⟩ := R
  rw [e16]
  generalize hK : stTail 17 = K
  unfold tailFetch OSt.fetchOld
  by_cases hcond : (C.t.post.isSome || dn) = true
  · cases hs : ms.s.slot with
    | some old =>
      cases hf : testFlag C.t.flags TRAIT_COMPARISON_MODE_NONE
      · by_cases hov : value = old
        · subst hov
          cases hp : C.t.post with
          | none =>
            have hd : dn = true := by simpa [hp] using hcond
            subst hd
            step_exec [h0, h1, h2, h3, h4, h5, h6, h7, h8, h9, h11, h12, h13, h14, herr, hp, hs, hf]
            fin17 (some value) 0 true
            simp [tailStore]
          | some p =>
            step_exec [h0, h1, h2, h3, h4, h5, h6, h7, h8, h9, h11, h12, h13, h14, herr, hp, hs, hf]
            fin17 (some value) 0 dn
            simp [tailStore]
        · cases hp : C.t.post with
          | none =>
            have hd : dn = true := by simpa [hp] using hcond
            subst hd
            step_exec [h0, h1, h2, h3, h4, h5, h6, h7, h8, h9, h11, h12, h13, h14, herr, hp, hs, hf, hov, Ne.symm hov]
            fin17 (some old) 1 true
            simp [tailStore, hov, Ne.symm hov]
          | some p =>
            step_exec [h0, h1, h2, h3, h4, h5, h6, h7, h8, h9, h11, h12, h13, h14, herr, hp, hs, hf, hov, Ne.symm hov]
            fin17 (some old) 1 dn
            simp [tailStore, hov, Ne.symm hov]
      · cases hp : C.t.post with
          | none =>
            have hd : dn = true := by simpa [hp] using hcond
            subst hd
            step_exec [h0, h1, h2, h3, h4, h5, h6, h7, h8, h9, h11, h12, h13, h14, herr, hp, hs, hf]
            fin17 (some old) ((C.t.flags &&& TRAIT_COMPARISON_MODE_NONE : Nat) : Int) true
            simp [flag_ndz, hf]
          | some p =>
            step_exec [h0, h1, h2, h3, h4, h5, h6, h7, h8, h9, h11, h12, h13, h14, herr, hp, hs, hf]
            fin17 (some old) ((C.t.flags &&& TRAIT_COMPARISON_MODE_NONE : Nat) : Int) dn
            simp [flag_ndz, hf]
    | none =>
      rcases hd : ms.s.defaultValueFor C.E C.t with ⟨e | old, s2⟩
      · cases hp : C.t.post with
        | none =>
          have hd' : dn = true := by simpa [hp] using hcond
          subst hd'
          step_exec [h0, h1, h2, h3, h4, h5, h6, h7, h8, h9, h11, h12, h13, h14, herr, hp, hs, hd]
          simp [outOf, ofInt]
        | some p =>
          step_exec [h0, h1, h2, h3, h4, h5, h6, h7, h8, h9, h11, h12, h13, h14, herr, hp, hs, hd]
          simp [outOf, ofInt]
      · cases hp : C.t.post with
        | none =>
          have hd' : dn = true := by simpa [hp] using hcond
          subst hd'
          cases hf : testFlag C.t.flags TRAIT_COMPARISON_MODE_NONE
          · by_cases hov : value = old
            · subst hov
              step_exec [h0, h1, h2, h3, h4, h5, h6, h7, h8, h9, h11, h12, h13, h14, herr, hp, hs, hd, postSetattr, hf]
              fin17 (some value) 0 true
              simp [tailStore, hf, postSetattr]
            · step_exec [h0, h1, h2, h3, h4, h5, h6, h7, h8, h9, h11, h12, h13, h14, herr, hp, hs, hd, postSetattr, hf, hov, Ne.symm hov]
              fin17 (some old) 1 true
              simp [tailStore, hf, hov, Ne.symm hov, postSetattr]
          · step_exec [h0, h1, h2, h3, h4, h5, h6, h7, h8, h9, h11, h12, h13, h14, herr, hp, hs, hd, postSetattr, hf]
            fin17 (some old) ((C.t.flags &&& TRAIT_COMPARISON_MODE_NONE : Nat) : Int) true
            simp [flag_ndz, hf, postSetattr]
        | some p =>
          rcases hps : postSetattr C.E C.t old { s2 with slot := some old } with ⟨_ | e, s4⟩
          · cases hf : testFlag C.t.flags TRAIT_COMPARISON_MODE_NONE
            · by_cases hov : value = old
              · subst hov
                step_exec [h0, h1, h2, h3, h4, h5, h6, h7, h8, h9, h11, h12, h13, h14, herr, hp, hs, hd, hps, hf]
                fin17 (some value) 0 dn
                simp [tailStore, hf, hps]
              · step_exec [h0, h1, h2, h3, h4, h5, h6, h7, h8, h9, h11, h12, h13, h14, herr, hp, hs, hd, hps, hf, hov, Ne.symm hov]
                fin17 (some old) 1 dn
                simp [tailStore, hf, hov, Ne.symm hov, hps]
            · step_exec [h0, h1, h2, h3, h4, h5, h6, h7, h8, h9, h11, h12, h13, h14, herr, hp, hs, hd, hps, hf]
              fin17 (some old) ((C.t.flags &&& TRAIT_COMPARISON_MODE_NONE : Nat) : Int) dn
              simp [flag_ndz, hf, hps]
          · step_exec [h0, h1, h2, h3, h4, h5, h6, h7, h8, h9, h11, h12, h13, h14, herr, hp, hs, hd, hps]
            simp [outOf, ofInt]
  · cases hp : C.t.post <;> cases dn <;> simp [hp] at hcond
    step_exec [h0, h1, h2, h3, h4, h5, h6, h7, h8, h9, h11, h12, h13, h14, herr, hp]
    fin17 none ((C.t.flags &&& TRAIT_COMPARISON_MODE_NONE : Nat) : Int) false
    rw [flag_chg]

theorem e8 : stTail 8 = .seq (nthS 8 stBody) (.seq (nthS 9 stBody) (.seq (nthS 10 stBody) (.seq (nthS 11 stBody)
    (.seq (nthS 12 stBody) (.seq (nthS 13 stBody) (.seq (nthS 14 stBody) (.seq (nthS 15 stBody) (stTail 16)))))))) := rfl

structure R8 (C : IC) (ms : MS) (orig value : Id) : Prop where
  h0 : ms.vars 0 = .trait
  h1 : ms.vars 1 = .trait
  h2 : ms.vars 2 = .self
  h3 : ms.vars 3 = .name
  h4 : ms.vars 4 = .obj value
  h8 : ms.vars 8 = (if ms.dictNull then .null else .dict)
  h9 : ms.vars 9 = .int ((C.t.flags &&& TRAIT_COMPARISON_MODE_NONE : Nat) : Int)
  h11 : ms.vars 11 = .obj orig
  herr : ms.err = none

/-- the model of an assignment after validation -/
def restAssign (E : Env) (t : TraitCore) (orig value : Id) (s1 : OSt) : Option Exc × OSt :=
  tailFetch E t orig value (if testFlag t.flags TRAIT_SETATTR_ORIGINAL_VALUE then orig else value)
    (hasNotifiers s1.tn s1.on) s1.tn s1.on s1

set_option hygiene false in
macro "fin16" nv:term:max : tactic =>
  `(tactic| (subst hK
             refine (tail16 C _ orig value $nv (hasNotifiers ms.s.tn ms.s.on) ms.s.tn ms.s.on
               (by constructor <;> simp [setVar, ptrv, *])).trans ?_))

set_option maxHeartbeats 2000000 in
set_option maxRecDepth 4000 in
theorem tail8 (C : IC) (ms : MS) (orig value : Id) (R : R8 C ms orig value) :
    outOf (exec C (stTail 8) ms) = ofInt (restAssign C.E C.t orig value ms.s) := by
  obtain ⟨h0, h1, h2, h3, h4, h8, h9, h11, herr⟩ := R
  rw [e8]
  generalize hK : stTail 16 = K
  unfold restAssign
  cases hdn : ms.dictNull <;> cases ho : testFlag C.t.flags TRAIT_SETATTR_ORIGINAL_VALUE <;> cases hp : C.t.post
  · step_exec [h0, h1, h2, h3, h4, h8, h9, h11, herr, hdn, ho, hp]
    fin16 value
    simp
  · step_exec [h0, h1, h2, h3, h4, h8, h9, h11, herr, hdn, ho, hp]
    fin16 value
    simp
  · step_exec [h0, h1, h2, h3, h4, h8, h9, h11, herr, hdn, ho, hp]
    fin16 orig
    simp
  · step_exec [h0, h1, h2, h3, h4, h8, h9, h11, herr, hdn, ho, hp]
    fin16 orig
    simp
  · step_exec [h0, h1, h2, h3, h4, h8, h9, h11, herr, hdn, ho, hp]
    fin16 value
    simp
  · step_exec [h0, h1, h2, h3, h4, h8, h9, h11, herr, hdn, ho, hp]
    fin16 value
    simp
  · step_exec [h0, h1, h2, h3, h4, h8, h9, h11, herr, hdn, ho, hp]
    fin16 orig
    simp
  · step_exec [h0, h1, h2, h3, h4, h8, h9, h11, herr, hdn, ho, hp]
    fin16 orig
    simp

theorem setattrTrait_some (E : Env) (t : TraitCore) (v : Id) (s : OSt) :
    setattrTrait E t (some v) s =
      match s.validateAssigned E t v with
      | (.error e, s1) => (some e, s1)
      | (.ok value, s1) => restAssign E t v value s1 := by
  rfl

theorem e6 : stTail 6 = .seq (nthS 6 stBody) (.seq (nthS 7 stBody) (stTail 8)) := rfl

structure R6 (C : IC) (ms : MS) (v : Id) : Prop where
  h0 : ms.vars 0 = .trait
  h1 : ms.vars 1 = .trait
  h2 : ms.vars 2 = .self
  h3 : ms.vars 3 = .name
  h4 : ms.vars 4 = .obj v
  h8 : ms.vars 8 = (if ms.dictNull then .null else .dict)
  h9 : ms.vars 9 = .int ((C.t.flags &&& TRAIT_COMPARISON_MODE_NONE : Nat) : Int)
  herr : ms.err = none

set_option hygiene false in
macro "fin8" val:term:max : tactic =>
  `(tactic| (subst hK
             refine (tail8 C _ v $val (by constructor <;> simp [setVar, ptrv, *])).trans ?_))

set_option maxHeartbeats 2000000 in
set_option maxRecDepth 4000 in
theorem tail6 (C : IC) (ms : MS) (v : Id) (R : R6 C ms v) :
    outOf (exec C (stTail 6) ms) = ofInt (setattrTrait C.E C.t (some v) ms.s) := by
  obtain ⟨h0, h1, h2, h3, h4, h8, h9, herr⟩ := R
  rw [e6, setattrTrait_some]
  generalize hK : stTail 8 = K
  unfold OSt.validateAssigned
  cases hv : C.t.validate with
  | none =>
    step_exec [h0, h1, h2, h3, h4, h8, h9, herr, hv]
    fin8 v
    simp
  | some k =>
    by_cases hu : v = undef
    · step_exec [h0, h1, h2, h3, h4, h8, h9, herr, hv, hu]
      fin8 v
      simp [hu]
    · rcases hr : C.E.validate k ms.s.ctx.nval v with e | w
      · step_exec [h0, h1, h2, h3, h4, h8, h9, herr, hv, hu, runValidate, hr]
        simp [outOf, ofInt, hu]
      · step_exec [h0, h1, h2, h3, h4, h8, h9, herr, hv, hu, runValidate, hr]
        fin8 w
        simp [hu]
theorem e0 : stTail 0 = .seq (nthS 0 stBody) (.seq (nthS 1 stBody) (.seq (nthS 2 stBody) (.seq (nthS 3 stBody)
    (.seq (nthS 4 stBody) (.seq (nthS 5 stBody) (stTail 6)))))) := rfl

set_option maxHeartbeats 2000000 in
set_option maxRecDepth 4000 in
theorem setattr_trait_assign (C : IC) (v : Id) (s : OSt) (dn idn : Bool) :
    call C AttrProg.setattr_trait [.trait, .trait, .self, .name, .obj v] s dn idn
      = ofInt (setattrTrait C.E C.t (some v) s) := by
  rw [call_setattr_trait, e0]
  generalize hK : stTail 6 = K
  cases dn <;> step_exec [bindArgs] <;> subst hK <;>
  refine (tail6 C _ v (by constructor <;> simp [setVar, bindArgs])).trans ?_ <;> simp


/-- `setattrTrait` is the interpretation of the source of `setattr_trait`, on every path. -/
theorem setattr_trait_is_source (C : IC) (value : Option Id) (s : OSt) (dn idn : Bool)
    (hdn : dn = true → s.slot = none) :
    call C AttrProg.setattr_trait [.trait, .trait, .self, .name, ofValue value] s dn idn
      = ofInt (setattrTrait C.E C.t value s) := by
  cases value with
  | none => exact setattr_trait_del C s dn idn hdn
  | some v => exact setattr_trait_assign C v s dn idn
end TraitsVerif.Lemmas.AttrSource
