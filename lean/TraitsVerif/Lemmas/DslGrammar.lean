/-
C15 — the derivation trees (`Cst` with `shape`) are exactly the derivations of
the grammar *data* (`Model.Dsl.grammar`, proved equal to the translation of the
.lark file): `Gen grammar "start" ts ↔ ∃ c, shape c ≠ none ∧ toks c = ts`.
Helper lemmas for Props/C15.lean.  Core Lean only.
-/
import TraitsVerif.Model.DslGrammar
namespace TraitsVerif.Model.Dsl

/-! ### trees ⊆ grammar -/

def altIn (A : String) (alt : List GSym) : Bool :=
  grammar.any (fun r => r.1 == A && r.2.2.contains alt)

theorem G.ofAlt {A : String} {alt : List GSym} {ts : List Tok} (h : altIn A alt = true)
    (hs : G grammar (.inr alt) ts) : G grammar (.inl A) ts := by
  simp only [altIn, List.any_eq_true, Bool.and_eq_true, beq_iff_eq, List.contains_iff_mem] at h
  obtain ⟨⟨A', inl, alts⟩, hmem, hA, halt⟩ := h
  simp only at hA halt
  subst hA
  exact G.rule hmem halt hs

theorem G.one {A : String} {ts : List Tok} (h : G grammar (.inl A) ts) :
    G grammar (.inr [("nt", A)]) ts := by
  have := G.nt h G.nil
  simpa using this

/-- pass-through alternative `B: A` -/
theorem G.up {A B : String} {ts : List Tok} (hAB : altIn B [("nt", A)] = true)
    (h : G grammar (.inl A) ts) : G grammar (.inl B) ts :=
  G.ofAlt hAB (G.one h)

theorem gen_conn (cn : Conn) :
    G grammar (.inl (match cn with | .notify => "notify" | .quiet => "quiet")) [.conn cn] := by
  cases cn
  · exact G.ofAlt (alt := [("lit", ".")]) (by decide) (G.lit (by decide) G.nil)
  · exact G.ofAlt (alt := [("lit", ":")]) (by decide) (G.lit (by decide) G.nil)

/-- `series conn X` with X ∈ {element, anytrait}, under the rule `S` ∈ {series, series_terminal} -/
theorem gen_ser_step {S X : String} {tl tr : List Tok} (cn : Conn)
    (h1 : altIn S [("nt", "series"), ("nt", "notify"), ("nt", X)] = true)
    (h2 : altIn S [("nt", "series"), ("nt", "quiet"), ("nt", X)] = true)
    (hl : G grammar (.inl "series") tl) (hr : G grammar (.inl X) tr) :
    G grammar (.inl S) (tl ++ .conn cn :: tr) := by
  have hc := gen_conn cn
  cases cn
  · have := G.nt hl (G.nt hc (G.one hr))
    exact G.ofAlt h1 (by simpa using this)
  · have := G.nt hl (G.nt hc (G.one hr))
    exact G.ofAlt h2 (by simpa using this)

structure InGrammar (c : Cst) (k : Kind) : Prop where
  elem : k = .elem → G grammar (.inl "element") (toks c)
  ser : k.leSer = true → G grammar (.inl "series") (toks c)
  par : k.lePar = true → G grammar (.inl "parallel") (toks c)
  serT : k.leSerT = true → G grammar (.inl "series_terminal") (toks c)
  parT : G grammar (.inl "parallel_terminal") (toks c)

theorem inGrammar_of_elem {c : Cst} (h : G grammar (.inl "element") (toks c)) :
    InGrammar c .elem := by
  have hs := G.up (B := "series") (by decide) h
  have hst := G.up (B := "series_terminal") (by decide) h
  exact {
    elem := fun _ => h
    ser := fun _ => hs
    par := fun _ => G.up (by decide) hs
    serT := fun _ => hst
    parT := G.up (by decide) hst }

theorem shape_inGrammar (c : Cst) : ∀ k, shape c = some k → InGrammar c k := by
  induction c with
  | trait n =>
    intro k hk; cases hk
    refine inGrammar_of_elem (G.up (A := "trait") (by decide) ?_)
    exact G.ofAlt (alt := [("term", "NAME")]) (by decide) (G.name G.nil)
  | items =>
    intro k hk; cases hk
    refine inGrammar_of_elem (G.up (A := "items") (by decide) ?_)
    exact G.ofAlt (alt := [("lit", "items")]) (by decide) (G.lit (by decide) G.nil)
  | metadata n =>
    intro k hk; cases hk
    refine inGrammar_of_elem (G.up (A := "metadata") (by decide) ?_)
    exact G.ofAlt (alt := [("lit", "+"), ("term", "NAME")]) (by decide)
      (G.lit (by decide) (G.name G.nil))
  | any =>
    intro k hk; cases hk
    have ha : G grammar (.inl "anytrait") [.star] :=
      G.ofAlt (alt := [("lit", "*")]) (by decide) (G.lit (by decide) G.nil)
    have hst := G.up (B := "series_terminal") (by decide) ha
    exact {
      elem := fun h => by cases h
      ser := fun h => by simp [Kind.leSer] at h
      par := fun h => by simp [Kind.lePar] at h
      serT := fun _ => hst
      parT := G.up (by decide) hst }
  | group p ih =>
    intro k hk
    simp only [shape] at hk
    split at hk
    · rename_i kp hkp
      split at hk
      · rename_i hle
        cases hk
        have hp := (ih kp hkp).par hle
        refine inGrammar_of_elem ?_
        have := G.lit (s := "[") (t := .lb) (g := grammar) (by decide)
          (G.nt hp (G.lit (s := "]") (t := .rb) (by decide) G.nil))
        exact G.ofAlt (alt := [("lit", "["), ("nt", "parallel"), ("lit", "]")]) (by decide)
          (by simpa [toks] using this)
      · cases hk
    · cases hk
  | ser l cn r ihl ihr =>
    intro k hk
    simp only [shape] at hk
    split at hk
    · rename_i kl kr hkl hkr
      split at hk
      · rename_i hle
        have hl := (ihl kl hkl).ser hle
        split at hk
        · rename_i hre
          have hre : kr = .elem := by simpa using hre
          subst hre
          cases hk
          have hr := (ihr .elem hkr).elem rfl
          have hs : G grammar (.inl "series") (toks (.ser l cn r)) :=
            gen_ser_step cn (by decide) (by decide) hl hr
          have hst : G grammar (.inl "series_terminal") (toks (.ser l cn r)) :=
            gen_ser_step cn (by decide) (by decide) hl hr
          exact {
            elem := fun h => by cases h
            ser := fun _ => hs
            par := fun _ => G.up (by decide) hs
            serT := fun _ => hst
            parT := G.up (by decide) hst }
        · split at hk
          · rename_i _ hra
            have hra : kr = .anyK := by simpa using hra
            subst hra
            cases hk
            have hr := (ihr .anyK hkr).serT rfl
            -- the right operand is `*`
            have hstar : G grammar (.inl "anytrait") (toks r) := by
              have : r = .any := by
                cases r <;> simp_all [shape] <;> (repeat' split at hkr) <;> simp_all
              subst this
              exact G.ofAlt (alt := [("lit", "*")]) (by decide) (G.lit (by decide) G.nil)
            have hst : G grammar (.inl "series_terminal") (toks (.ser l cn r)) :=
              gen_ser_step cn (by decide) (by decide) hl hstar
            exact {
              elem := fun h => by cases h
              ser := fun h => by simp [Kind.leSer] at h
              par := fun h => by simp [Kind.lePar] at h
              serT := fun _ => hst
              parT := G.up (by decide) hst }
          · cases hk
      · cases hk
    · cases hk
  | par l r ihl ihr =>
    intro k hk
    simp only [shape] at hk
    split at hk
    · rename_i kl kr hkl hkr
      have hT : kr.leSerT = true → G grammar (.inl "parallel_terminal") (toks (.par l r)) := by
        intro h
        have := G.nt (ihl kl hkl).parT (G.lit (s := ",") (t := .comma) (by decide)
          (G.one ((ihr kr hkr).serT h)))
        exact G.ofAlt
          (alt := [("nt", "parallel_terminal"), ("lit", ","), ("nt", "series_terminal")])
          (by decide) (by simpa [toks] using this)
      split at hk
      · rename_i hpp
        cases hk
        simp only [Bool.and_eq_true] at hpp
        have hp : G grammar (.inl "parallel") (toks (.par l r)) := by
          have := G.nt ((ihl kl hkl).par hpp.1) (G.lit (s := ",") (t := .comma) (by decide)
            (G.one ((ihr kr hkr).ser hpp.2)))
          exact G.ofAlt (alt := [("nt", "parallel"), ("lit", ","), ("nt", "series")])
            (by decide) (by simpa [toks] using this)
        exact {
          elem := fun h => by cases h
          ser := fun h => by simp [Kind.leSer] at h
          par := fun _ => hp
          serT := fun h => by simp [Kind.leSerT] at h
          parT := hT (by cases kr <;> simp_all [Kind.leSer, Kind.leSerT]) }
      · split at hk
        · rename_i hst
          cases hk
          exact {
            elem := fun h => by cases h
            ser := fun h => by simp [Kind.leSer] at h
            par := fun h => by simp [Kind.lePar] at h
            serT := fun h => by simp [Kind.leSerT] at h
            parT := hT hst }
        · cases hk
    · cases hk

/-- every derivation tree's token string is derived by `start` of the grammar data -/
theorem gen_of_shape (c : Cst) (h : (shape c).isSome = true) : Gen grammar "start" (toks c) := by
  obtain ⟨k, hk⟩ := Option.isSome_iff_exists.mp h
  exact G.up (by decide) (shape_inGrammar c k hk).parT


/-! ### grammar ⊆ trees -/

/-- what a rule's token strings are, in terms of trees -/
def Q (A : String) (ts : List Tok) : Prop :=
  if A = "trait" then ∃ n, ts = [.name n]
  else if A = "items" then ts = [.items]
  else if A = "metadata" then ∃ n, ts = [.plus, .name n]
  else if A = "anytrait" then ts = [.star]
  else if A = "notify" then ts = [.conn .notify]
  else if A = "quiet" then ts = [.conn .quiet]
  else if A = "element" then ∃ c, shape c = some .elem ∧ toks c = ts
  else if A = "series" then ∃ c k, shape c = some k ∧ k.leSer = true ∧ toks c = ts
  else if A = "parallel" then ∃ c k, shape c = some k ∧ k.lePar = true ∧ toks c = ts
  else if A = "series_terminal" then ∃ c k, shape c = some k ∧ k.leSerT = true ∧ toks c = ts
  else if A = "parallel_terminal" then ∃ c k, shape c = some k ∧ toks c = ts
  else if A = "start" then ∃ c k, shape c = some k ∧ toks c = ts
  else False

/-- … and a sequence of symbols -/
def R : List GSym → List Tok → Prop
  | [], ts => ts = []
  | (kind, v) :: rest, ts =>
    if kind = "nt" then ∃ t1 t2, ts = t1 ++ t2 ∧ Q v t1 ∧ R rest t2
    else if kind = "term" then ∃ n t2, ts = .name n :: t2 ∧ R rest t2
    else ∃ t t2, litTok v = some t ∧ ts = t :: t2 ∧ R rest t2

def QR : String ⊕ List GSym → List Tok → Prop
  | .inl A, ts => Q A ts
  | .inr alt, ts => R alt ts

theorem leSer_leSerT {k : Kind} (h : k.leSer = true) : k.leSerT = true := by
  cases k <;> simp_all [Kind.leSer, Kind.leSerT]
theorem leSer_lePar {k : Kind} (h : k.leSer = true) : k.lePar = true := by
  cases k <;> simp_all [Kind.leSer, Kind.lePar]

theorem shape_ser_elem {l r : Cst} {kl : Kind} (cn : Conn) (hl : shape l = some kl)
    (hle : kl.leSer = true) (hr : shape r = some .elem) :
    shape (.ser l cn r) = some .ser := by simp [shape, hl, hr, hle]

theorem shape_ser_any {l : Cst} {kl : Kind} (cn : Conn) (hl : shape l = some kl)
    (hle : kl.leSer = true) : shape (.ser l cn .any) = some .serT := by
  simp [shape, hl, hle]

theorem shape_par_T {l r : Cst} {kl kr : Kind} (hl : shape l = some kl) (hr : shape r = some kr)
    (h : kr.leSerT = true) : ∃ k, shape (.par l r) = some k := by
  by_cases hh : (kl.lePar && kr.leSer) = true
  · exact ⟨.par, by simp [shape, hl, hr, hh]⟩
  · exact ⟨.parT, by simp [shape, hl, hr, hh, h]⟩

theorem R_nil (ts : List Tok) : R [] ts = (ts = []) := rfl
theorem R_nt (A : String) (rest : List GSym) (ts : List Tok) :
    R (("nt", A) :: rest) ts = ∃ t1 t2, ts = t1 ++ t2 ∧ Q A t1 ∧ R rest t2 := by simp [R]
theorem R_term (rest : List GSym) (ts : List Tok) :
    R (("term", "NAME") :: rest) ts = ∃ n t2, ts = .name n :: t2 ∧ R rest t2 := by simp [R]
theorem R_lit (v : String) (rest : List GSym) (ts : List Tok) :
    R (("lit", v) :: rest) ts = ∃ t t2, litTok v = some t ∧ ts = t :: t2 ∧ R rest t2 := by simp [R]

theorem R_one {A : String} {ts : List Tok} (h : R [("nt", A)] ts) : Q A ts := by
  rw [R_nt] at h
  obtain ⟨t1, t2, rfl, hq, h2⟩ := h
  rw [R_nil] at h2; subst h2
  simpa using hq

theorem R_three {A B C : String} {ts : List Tok} (h : R [("nt", A), ("nt", B), ("nt", C)] ts) :
    ∃ t1 t2 t3, ts = t1 ++ (t2 ++ t3) ∧ Q A t1 ∧ Q B t2 ∧ Q C t3 := by
  rw [R_nt] at h
  obtain ⟨t1, r1, rfl, hA, h⟩ := h
  rw [R_nt] at h
  obtain ⟨t2, r2, rfl, hB, h⟩ := h
  exact ⟨t1, t2, r2, rfl, hA, hB, R_one h⟩

theorem R_comma {A B : String} {ts : List Tok} (h : R [("nt", A), ("lit", ","), ("nt", B)] ts) :
    ∃ t1 t3, ts = t1 ++ .comma :: t3 ∧ Q A t1 ∧ Q B t3 := by
  rw [R_nt] at h
  obtain ⟨t1, r1, rfl, hA, h⟩ := h
  rw [R_lit] at h
  obtain ⟨t, r2, ht, rfl, h⟩ := h
  have : litTok "," = some .comma := by decide
  rw [this] at ht; cases ht
  exact ⟨t1, r2, rfl, hA, R_one h⟩

theorem Q_trait (ts) : Q "trait" ts = ∃ n, ts = [.name n] := by simp [Q]
theorem Q_items (ts) : Q "items" ts = (ts = [.items]) := by simp [Q]
theorem Q_metadata (ts) : Q "metadata" ts = ∃ n, ts = [.plus, .name n] := by simp [Q]
theorem Q_anytrait (ts) : Q "anytrait" ts = (ts = [.star]) := by simp [Q]
theorem Q_notify (ts) : Q "notify" ts = (ts = [.conn .notify]) := by simp [Q]
theorem Q_quiet (ts) : Q "quiet" ts = (ts = [.conn .quiet]) := by simp [Q]
theorem Q_element (ts) : Q "element" ts = ∃ c, shape c = some .elem ∧ toks c = ts := by simp [Q]
theorem Q_series (ts) : Q "series" ts = ∃ c k, shape c = some k ∧ k.leSer = true ∧ toks c = ts := by
  simp [Q]
theorem Q_parallel (ts) : Q "parallel" ts = ∃ c k, shape c = some k ∧ k.lePar = true ∧ toks c = ts := by
  simp [Q]
theorem Q_series_terminal (ts) :
    Q "series_terminal" ts = ∃ c k, shape c = some k ∧ k.leSerT = true ∧ toks c = ts := by simp [Q]
theorem Q_parallel_terminal (ts) :
    Q "parallel_terminal" ts = ∃ c k, shape c = some k ∧ toks c = ts := by simp [Q]
theorem Q_start (ts) : Q "start" ts = ∃ c k, shape c = some k ∧ toks c = ts := by simp [Q]

/-- `series (notify|quiet) element` -/
theorem ser_elem_sound {C : String} {cn : Conn} {ts : List Tok}
    (hC : ∀ t, Q C t → t = [.conn cn])
    (h : R [("nt", "series"), ("nt", C), ("nt", "element")] ts) :
    ∃ c, shape c = some .ser ∧ toks c = ts := by
  obtain ⟨t1, t2, t3, rfl, h1, h2, h3⟩ := R_three h
  rw [Q_series] at h1; rw [Q_element] at h3
  obtain ⟨l, kl, hl, hle, rfl⟩ := h1
  obtain ⟨r, hr, rfl⟩ := h3
  rw [hC _ h2]
  exact ⟨.ser l cn r, shape_ser_elem _ hl hle hr, by simp [toks]⟩

/-- `series (notify|quiet) anytrait` -/
theorem ser_any_sound {C : String} {cn : Conn} {ts : List Tok}
    (hC : ∀ t, Q C t → t = [.conn cn])
    (h : R [("nt", "series"), ("nt", C), ("nt", "anytrait")] ts) :
    ∃ c, shape c = some .serT ∧ toks c = ts := by
  obtain ⟨t1, t2, t3, rfl, h1, h2, h3⟩ := R_three h
  rw [Q_series] at h1; rw [Q_anytrait] at h3
  obtain ⟨l, kl, hl, hle, rfl⟩ := h1
  subst h3
  rw [hC _ h2]
  exact ⟨.ser l cn .any, shape_ser_any _ hl hle, by simp [toks]⟩

theorem hNotify : ∀ t, Q "notify" t → t = [.conn .notify] := fun t h => by rwa [Q_notify] at h
theorem hQuiet : ∀ t, Q "quiet" t → t = [.conn .quiet] := fun t h => by rwa [Q_quiet] at h

/-- each rule alternative maps trees to trees -/
theorem rule_sound {A : String} {inl : Bool} {alts : List (List GSym)} {alt : List GSym}
    {ts : List Tok} (hmem : (A, inl, alts) ∈ grammar) (halt : alt ∈ alts) (h : R alt ts) :
    Q A ts := by
  simp only [grammar, List.mem_cons, Prod.mk.injEq, List.not_mem_nil, or_false] at hmem
  rcases hmem with ⟨rfl, rfl, rfl⟩ | ⟨rfl, rfl, rfl⟩ | ⟨rfl, rfl, rfl⟩ | ⟨rfl, rfl, rfl⟩ |
    ⟨rfl, rfl, rfl⟩ | ⟨rfl, rfl, rfl⟩ | ⟨rfl, rfl, rfl⟩ | ⟨rfl, rfl, rfl⟩ | ⟨rfl, rfl, rfl⟩ |
    ⟨rfl, rfl, rfl⟩ | ⟨rfl, rfl, rfl⟩ | ⟨rfl, rfl, rfl⟩
  · -- trait: NAME
    simp only [List.mem_cons, List.not_mem_nil, or_false] at halt
    subst halt
    rw [R_term] at h
    obtain ⟨n, t2, rfl, h⟩ := h
    rw [R_nil] at h; subst h
    rw [Q_trait]; exact ⟨n, rfl⟩
  · -- items: "items"
    simp only [List.mem_cons, List.not_mem_nil, or_false] at halt
    subst halt
    rw [R_lit] at h
    obtain ⟨t, t2, ht, rfl, h⟩ := h
    rw [R_nil] at h; subst h
    have : litTok "items" = some .items := by decide
    rw [this] at ht; cases ht
    rw [Q_items]
  · -- metadata: "+" NAME
    simp only [List.mem_cons, List.not_mem_nil, or_false] at halt
    subst halt
    rw [R_lit] at h
    obtain ⟨t, t2, ht, rfl, h⟩ := h
    rw [R_term] at h
    obtain ⟨n, t3, rfl, h⟩ := h
    rw [R_nil] at h; subst h
    have : litTok "+" = some .plus := by decide
    rw [this] at ht; cases ht
    rw [Q_metadata]; exact ⟨n, rfl⟩
  · -- anytrait: "*"
    simp only [List.mem_cons, List.not_mem_nil, or_false] at halt
    subst halt
    rw [R_lit] at h
    obtain ⟨t, t2, ht, rfl, h⟩ := h
    rw [R_nil] at h; subst h
    have : litTok "*" = some .star := by decide
    rw [this] at ht; cases ht
    rw [Q_anytrait]
  · -- notify: "."
    simp only [List.mem_cons, List.not_mem_nil, or_false] at halt
    subst halt
    rw [R_lit] at h
    obtain ⟨t, t2, ht, rfl, h⟩ := h
    rw [R_nil] at h; subst h
    have : litTok "." = some (.conn .notify) := by decide
    rw [this] at ht; cases ht
    rw [Q_notify]
  · -- quiet: ":"
    simp only [List.mem_cons, List.not_mem_nil, or_false] at halt
    subst halt
    rw [R_lit] at h
    obtain ⟨t, t2, ht, rfl, h⟩ := h
    rw [R_nil] at h; subst h
    have : litTok ":" = some (.conn .quiet) := by decide
    rw [this] at ht; cases ht
    rw [Q_quiet]
  · -- element: trait | items | metadata | "[" parallel "]"
    simp only [List.mem_cons, List.not_mem_nil, or_false] at halt
    rw [Q_element]
    rcases halt with rfl | rfl | rfl | rfl
    · have := R_one h
      rw [Q_trait] at this
      obtain ⟨n, rfl⟩ := this
      exact ⟨.trait n, rfl, rfl⟩
    · have := R_one h
      rw [Q_items] at this
      subst this
      exact ⟨.items, rfl, rfl⟩
    · have := R_one h
      rw [Q_metadata] at this
      obtain ⟨n, rfl⟩ := this
      exact ⟨.metadata n, rfl, rfl⟩
    · rw [R_lit] at h
      obtain ⟨t, t2, ht, rfl, h⟩ := h
      rw [R_nt] at h
      obtain ⟨t1, t3, rfl, hq, h⟩ := h
      rw [R_lit] at h
      obtain ⟨t', t4, ht', rfl, h⟩ := h
      rw [R_nil] at h; subst h
      have e1 : litTok "[" = some .lb := by decide
      have e2 : litTok "]" = some .rb := by decide
      rw [e1] at ht; cases ht
      rw [e2] at ht'; cases ht'
      rw [Q_parallel] at hq
      obtain ⟨c, k, hk, hle, rfl⟩ := hq
      exact ⟨.group c, by simp [shape, hk, hle], by simp [toks]⟩
  · -- series
    simp only [List.mem_cons, List.not_mem_nil, or_false] at halt
    rw [Q_series]
    rcases halt with rfl | rfl | rfl
    · obtain ⟨c, hc, rfl⟩ := ser_elem_sound hNotify h
      exact ⟨c, .ser, hc, rfl, rfl⟩
    · obtain ⟨c, hc, rfl⟩ := ser_elem_sound hQuiet h
      exact ⟨c, .ser, hc, rfl, rfl⟩
    · have := R_one h
      rw [Q_element] at this
      obtain ⟨c, hc, rfl⟩ := this
      exact ⟨c, .elem, hc, rfl, rfl⟩
  · -- parallel
    simp only [List.mem_cons, List.not_mem_nil, or_false] at halt
    rw [Q_parallel]
    rcases halt with rfl | rfl
    · obtain ⟨t1, t3, rfl, h1, h3⟩ := R_comma h
      rw [Q_parallel] at h1; rw [Q_series] at h3
      obtain ⟨l, kl, hl, hle, rfl⟩ := h1
      obtain ⟨r, kr, hr, hre, rfl⟩ := h3
      exact ⟨.par l r, .par, by simp [shape, hl, hr, hle, hre], rfl, by simp [toks]⟩
    · have := R_one h
      rw [Q_series] at this
      obtain ⟨c, k, hc, hle, rfl⟩ := this
      exact ⟨c, k, hc, leSer_lePar hle, rfl⟩
  · -- series_terminal
    simp only [List.mem_cons, List.not_mem_nil, or_false] at halt
    rw [Q_series_terminal]
    rcases halt with rfl | rfl | rfl | rfl | rfl | rfl
    · obtain ⟨c, hc, rfl⟩ := ser_elem_sound hNotify h
      exact ⟨c, .ser, hc, rfl, rfl⟩
    · obtain ⟨c, hc, rfl⟩ := ser_any_sound hNotify h
      exact ⟨c, .serT, hc, rfl, rfl⟩
    · obtain ⟨c, hc, rfl⟩ := ser_elem_sound hQuiet h
      exact ⟨c, .ser, hc, rfl, rfl⟩
    · obtain ⟨c, hc, rfl⟩ := ser_any_sound hQuiet h
      exact ⟨c, .serT, hc, rfl, rfl⟩
    · have := R_one h
      rw [Q_element] at this
      obtain ⟨c, hc, rfl⟩ := this
      exact ⟨c, .elem, hc, rfl, rfl⟩
    · have := R_one h
      rw [Q_anytrait] at this
      subst this
      exact ⟨.any, .anyK, rfl, rfl, rfl⟩
  · -- parallel_terminal
    simp only [List.mem_cons, List.not_mem_nil, or_false] at halt
    rw [Q_parallel_terminal]
    rcases halt with rfl | rfl
    · obtain ⟨t1, t3, rfl, h1, h3⟩ := R_comma h
      rw [Q_parallel_terminal] at h1; rw [Q_series_terminal] at h3
      obtain ⟨l, kl, hl, rfl⟩ := h1
      obtain ⟨r, kr, hr, hre, rfl⟩ := h3
      obtain ⟨k, hk⟩ := shape_par_T hl hr hre
      exact ⟨.par l r, k, hk, by simp [toks]⟩
    · have := R_one h
      rw [Q_series_terminal] at this
      obtain ⟨c, k, hc, _, rfl⟩ := this
      exact ⟨c, k, hc, rfl⟩
  · -- start
    simp only [List.mem_cons, List.not_mem_nil, or_false] at halt
    subst halt
    rw [Q_start]
    have := R_one h
    rw [Q_parallel_terminal] at this
    exact this

theorem G_sound {x : String ⊕ List GSym} {ts : List Tok} (h : G grammar x ts) : QR x ts := by
  induction h with
  | rule hmem halt _ ih => exact rule_sound hmem halt ih
  | nil => rfl
  | nt _ _ ih1 ih2 => exact ⟨_, _, rfl, ih1, ih2⟩
  | name _ ih => exact ⟨_, _, rfl, ih⟩
  | lit hl _ ih =>
    simp only [QR, R]
    exact ⟨_, _, hl, rfl, ih⟩

/-- every token string derived by `start` of the grammar data is the token
string of a derivation tree -/
theorem shape_of_gen {ts : List Tok} (h : Gen grammar "start" ts) :
    ∃ c, (shape c).isSome = true ∧ toks c = ts := by
  have := G_sound h
  simp only [QR] at this
  rw [Q_start] at this
  obtain ⟨c, k, hk, rfl⟩ := this
  exact ⟨c, by simp [hk], rfl⟩
end TraitsVerif.Model.Dsl
