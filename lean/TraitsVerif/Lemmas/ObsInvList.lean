/-
Cluster `obs`: the refinement invariant is preserved by mutations of an observed
list (append / insert / del / setitem / clear / extend), fragment `ListFrag`.
-/
import TraitsVerif.Lemmas.ObsCont
namespace TraitsVerif.Model.Obs
open TraitsVerif

/-! ### the site of a list -/

def isListItems : Observer → Bool
  | .listItems .. => true
  | _ => false

def listSite (c : Id) : Gen.Site := ⟨fun ob x => isListItems ob && x == some c, .cont c, .list⟩

def actTrue : Observer → W → Bool := fun _ _ => true

/-- a container observable is only yielded by the matching items observer standing on it -/
theorem obs_cont_mem (h : Heap) (ob : Observer) (x : W) (i : Id)
    (hm : Observable.cont i ∈ (okOr [] (observables h ob x) : List Observable)) :
    x = some i ∧ ((isListItems ob = true ∧ ∃ l, h.get i = .list l) ∨
      ((∃ nt opt, ob = .dictItems nt opt) ∧ ∃ l, h.get i = .dict l) ∨
      ((∃ nt opt, ob = .setItems nt opt) ∧ ∃ l, h.get i = .set l)) := by
  cases x with
  | none =>
    exfalso
    cases ob with
    | named m nt opt => simp only [observables] at hm; split at hm <;> simp [okOr] at hm
    | filtered fl nt => simp [observables, Heap.at, okOr] at hm
    | listItems nt opt => simp only [observables, Heap.at] at hm; split at hm <;> simp [okOr] at hm
    | dictItems nt opt => simp only [observables, Heap.at] at hm; split at hm <;> simp [okOr] at hm
    | setItems nt opt => simp only [observables, Heap.at] at hm; split at hm <;> simp [okOr] at hm
  | some j =>
    cases ob with
    | named m nt opt =>
      exfalso
      simp only [observables] at hm
      split at hm
      · simp [okOr] at hm
      · split at hm <;> simp [okOr] at hm
    | filtered fl nt =>
      exfalso
      cases hj : h.get j <;> simp [observables, Heap.at, hj, okOr] at hm
    | listItems nt opt =>
      cases hj : h.get j with
      | list l =>
        simp [observables, Heap.at, hj, okOr] at hm
        subst hm
        exact ⟨rfl, Or.inl ⟨rfl, l, hj⟩⟩
      | inst fs => exfalso; simp only [observables, Heap.at, hj] at hm; split at hm <;> simp [okOr] at hm
      | dict l => exfalso; simp only [observables, Heap.at, hj] at hm; split at hm <;> simp [okOr] at hm
      | set l => exfalso; simp only [observables, Heap.at, hj] at hm; split at hm <;> simp [okOr] at hm
      | junk => exfalso; simp only [observables, Heap.at, hj] at hm; split at hm <;> simp [okOr] at hm
    | dictItems nt opt =>
      cases hj : h.get j with
      | dict l =>
        simp [observables, Heap.at, hj, okOr] at hm
        subst hm
        exact ⟨rfl, Or.inr (Or.inl ⟨⟨nt, opt, rfl⟩, l, hj⟩)⟩
      | inst fs => exfalso; simp only [observables, Heap.at, hj] at hm; split at hm <;> simp [okOr] at hm
      | list l => exfalso; simp only [observables, Heap.at, hj] at hm; split at hm <;> simp [okOr] at hm
      | set l => exfalso; simp only [observables, Heap.at, hj] at hm; split at hm <;> simp [okOr] at hm
      | junk => exfalso; simp only [observables, Heap.at, hj] at hm; split at hm <;> simp [okOr] at hm
    | setItems nt opt =>
      cases hj : h.get j with
      | set l =>
        simp [observables, Heap.at, hj, okOr] at hm
        subst hm
        exact ⟨rfl, Or.inr (Or.inr ⟨⟨nt, opt, rfl⟩, l, hj⟩)⟩
      | inst fs => exfalso; simp only [observables, Heap.at, hj] at hm; split at hm <;> simp [okOr] at hm
      | list l => exfalso; simp only [observables, Heap.at, hj] at hm; split at hm <;> simp [okOr] at hm
      | dict l => exfalso; simp only [observables, Heap.at, hj] at hm; split at hm <;> simp [okOr] at hm
      | junk => exfalso; simp only [observables, Heap.at, hj] at hm; split at hm <;> simp [okOr] at hm

theorem listSite_ok (h : Heap) (c : Id) (items : List Id) (hc : h.get c = .list items) :
    Gen.SiteOK (listSite c) actTrue h where
  own := by
    intro ob x hr _
    cases ob with
    | listItems nt opt =>
      simp only [listSite, isListItems, Bool.true_and, beq_iff_eq] at hr
      subst hr
      simp [observables, Heap.at, hc, Observer.mkind, listSite]
    | _ => simp [listSite, isListItems] at hr
  inactive := by intro ob x _ ha; simp [actTrue] at ha
  other := by
    intro ob x hf hr hm
    obtain ⟨hx, hkind⟩ := obs_cont_mem h ob x c hm
    subst hx
    rcases hkind with ⟨hl, _⟩ | ⟨_, l, hl⟩ | ⟨_, l, hl⟩
    · simp [listSite, hl] at hr
    · rw [hc] at hl; cases hl
    · rw [hc] at hl; cases hl

theorem listRel_self (h : Heap) (c : Id) (items : List Id) (hc : h.get c = .list items) :
    Gen.Rel (listSite c) actTrue h h (items.map some) where
  obs := fun _ _ _ => rfl
  ext := fun _ _ _ => rfl
  objs := fun _ _ _ _ => rfl
  objsN := by intro ob x _ ha; simp [actTrue] at ha
  objsR := by
    intro ob x hr _
    cases ob with
    | listItems nt opt =>
      simp only [listSite, isListItems, Bool.true_and, beq_iff_eq] at hr
      subst hr
      simp [objects, Heap.at, hc]
    | _ => simp [listSite, isListItems] at hr

section upd
variable {h : Heap} {c : Id} {items : List Id}

theorem upd_at_ne (items' : List Id) (x : W) (hx : x ≠ some c) : (h.upd c (.list items')).at x = h.at x := by
  cases x with
  | none => rfl
  | some i =>
    have : i ≠ c := fun e => hx (by rw [e])
    simp [Heap.at, Heap.get_upd, this]

theorem upd_at_c (items' : List Id) : (h.upd c (.list items')).at (some c) = .list items' := by
  simp [Heap.at, Heap.get_upd]

theorem hasTrait_upd_list (hc : h.get c = .list items) (items' : List Id) (x : W) (m : Name) :
    hasTrait (h.upd c (.list items')) x m = hasTrait h x m := by
  by_cases hx : x = some c
  · subst hx; simp [hasTrait, Heap.at, Heap.get_upd, hc]
  · simp [hasTrait, upd_at_ne items' x hx]

theorem fieldVal_upd_list (hc : h.get c = .list items) (items' : List Id) (x : W) (m : Name) :
    fieldVal (h.upd c (.list items')) x m = fieldVal h x m := by
  by_cases hx : x = some c
  · subst hx; simp [fieldVal, Heap.at, Heap.get_upd, hc]
  · simp [fieldVal, upd_at_ne items' x hx]

theorem listRel_upd (hc : h.get c = .list items) (items' : List Id) :
    Gen.Rel (listSite c) actTrue h (h.upd c (.list items')) (items'.map some) where
  obs := by
    intro ob x hf
    by_cases hx : x = some c
    · subst hx
      cases ob with
      | filtered fl nt => simp [Observer.isFiltered] at hf
      | named m nt opt => simp only [observables, hasTrait_upd_list hc]
      | listItems nt opt => simp [observables, Heap.at, Heap.get_upd, hc]
      | dictItems nt opt => simp [observables, Heap.at, Heap.get_upd, hc]
      | setItems nt opt => simp [observables, Heap.at, Heap.get_upd, hc]
    · cases ob with
      | filtered fl nt => simp [Observer.isFiltered] at hf
      | named m nt opt => simp only [observables, hasTrait_upd_list hc]
      | listItems nt opt => simp [observables, upd_at_ne items' x hx]
      | dictItems nt opt => simp [observables, upd_at_ne items' x hx]
      | setItems nt opt => simp [observables, upd_at_ne items' x hx]
  ext := by
    intro ob x hf
    by_cases hx : x = some c
    · subst hx
      cases ob with
      | filtered fl nt => simp [Observer.isFiltered] at hf
      | named m nt opt => simp [extraObservables, Heap.at, Heap.get_upd, hc]
      | listItems nt opt => rfl
      | dictItems nt opt => rfl
      | setItems nt opt => rfl
    · cases ob with
      | filtered fl nt => simp [Observer.isFiltered] at hf
      | named m nt opt => simp [extraObservables, upd_at_ne items' x hx]
      | listItems nt opt => rfl
      | dictItems nt opt => rfl
      | setItems nt opt => rfl
  objs := by
    intro ob x hf hr
    by_cases hx : x = some c
    · subst hx
      cases ob with
      | filtered fl nt => simp [Observer.isFiltered] at hf
      | named m nt opt => simp only [objects, hasTrait_upd_list hc, fieldVal_upd_list hc]
      | listItems nt opt => simp [listSite, isListItems] at hr
      | dictItems nt opt => simp [objects, Heap.at, Heap.get_upd, hc]
      | setItems nt opt => simp [objects, Heap.at, Heap.get_upd, hc]
    · cases ob with
      | filtered fl nt => simp [Observer.isFiltered] at hf
      | named m nt opt => simp only [objects, hasTrait_upd_list hc, fieldVal_upd_list hc]
      | listItems nt opt => simp [objects, upd_at_ne items' x hx]
      | dictItems nt opt => simp [objects, upd_at_ne items' x hx]
      | setItems nt opt => simp [objects, upd_at_ne items' x hx]
  objsN := by intro ob x _ ha; simp [actTrue] at ha
  objsR := by
    intro ob x hr _
    cases ob with
    | listItems nt opt =>
      simp only [listSite, isListItems, Bool.true_and, beq_iff_eq] at hr
      subst hr
      simp [objects, Heap.at, Heap.get_upd]
    | _ => simp [listSite, isListItems] at hr

end upd

/-! ### kinds of the items on a list observable -/

theorem extraObs_mem (h : Heap) (ob : Observer) (x : W) (ob' : Observable)
    (hm : ob' ∈ (okOr [] (extraObservables h ob x) : List Observable)) : ∃ i, ob' = .trait i nTraitAdded := by
  cases ob with
  | named m nt opt =>
    simp only [extraObservables] at hm
    split at hm
    · simp only [okOr, List.mem_singleton] at hm; exact ⟨_, hm⟩
    · split at hm <;> simp [okOr] at hm
  | filtered fl nt =>
    simp only [extraObservables] at hm
    split at hm
    · simp only [okOr, List.mem_singleton] at hm; exact ⟨_, hm⟩
    · simp [okOr] at hm
  | listItems nt opt => simp [extraObservables, okOr] at hm
  | dictItems nt opt => simp [extraObservables, okOr] at hm
  | setItems nt opt => simp [extraObservables, okOr] at hm

theorem hookList_cont_kind (h : Heap) (k : HKey) (c : Id) (items : List Id) (hc : h.get c = .list items) :
    ∀ g : Graph, ∀ (e : Bool) (x : W), ∀ it ∈ hookList h k e g x, it.1 = .cont c →
      ∀ mk g' k', it.2 = .maint mk g' k' → mk = .list := by
  apply Graph.ind (P := fun g => ∀ (e : Bool) (x : W), ∀ it ∈ hookList h k e g x, it.1 = .cont c →
      ∀ mk g' k', it.2 = .maint mk g' k' → mk = .list)
  intro ob cs ih e x it hit h1 mk g' k' h2
  rw [hookList_node, List.mem_append, List.mem_append] at hit
  rcases hit with (h3 | h3) | h3
  · simp only [ownItems, List.mem_append, List.mem_flatMap, List.mem_map] at h3
    rcases h3 with h4 | ⟨ob', hob', c', _, rfl⟩
    · split at h4
      · simp only [List.mem_map] at h4
        obtain ⟨ob', _, rfl⟩ := h4
        cases h2
      · cases h4
    · simp only at h1 h2
      subst h1
      injection h2 with e1 _ _
      obtain ⟨_, hkind⟩ := obs_cont_mem h ob x c hob'
      rcases hkind with ⟨hl, _⟩ | ⟨_, l, hl⟩ | ⟨_, l, hl⟩
      · cases ob <;> simp [isListItems] at hl
        rw [← e1]; rfl
      · rw [hc] at hl; cases hl
      · rw [hc] at hl; cases hl
  · obtain ⟨c', hc', y, _, hm⟩ := (mem_hookListCs h k ob x cs it).1 h3
    exact ih c' hc' true y it hm h1 mk g' k' h2
  · split at h3
    · simp only [extraItems, List.mem_map] at h3
      obtain ⟨ob', hob', rfl⟩ := h3
      obtain ⟨i, hi⟩ := extraObs_mem h ob x ob' hob'
      simp only at h1
      rw [hi] at h1; cases h1
    · cases h3

theorem specCnt_cont_kind (h : Heap) (regs : List Reg) (c : Id) (items : List Id) (hc : h.get c = .list items)
    (mk : MKind) (g : Graph) (k : HKey) (hmk : mk ≠ .list) :
    specCnt h regs (.cont c) (.maint mk g k) = 0 := by
  unfold specCnt
  apply sum_map_zero
  intro r _
  unfold cntItems
  rw [List.countP_eq_zero]
  intro it hit
  simp only [Bool.and_eq_true, beq_iff_eq, not_and, Bool.not_eq_true]
  intro e1
  cases hi : it.2 with
  | user k' => simp [NKey.equals]
  | maint mk' c' k' =>
    have := hookList_cont_kind h r.k c items hc r.g true (some r.x) it hit e1 mk' c' k' hi
    subst this
    cases mk <;> simp_all [NKey.equals]

/-! ### key lists -/

def mKey : Notifier → Option NKey
  | .maint mk c k => some (.maint mk c k)
  | .user .. => none

def mKeys (ns : List Notifier) : List NKey := ns.filterMap mKey

def keyFC (F : Graph → HKey → Nat) : NKey → Nat
  | .maint _ c k => F c k
  | _ => 0

def visitKeysL (h : Heap) (c : Id) (regs : List Reg) : List NKey :=
  regs.flatMap (fun r => (Gen.visits (listSite c) actTrue h r.g (some r.x)).map (fun g => NKey.maint .list g r.k))

theorem effectSumC_eq_keys (F : Graph → HKey → Nat) (ns : List Notifier) :
    effectSumC F ns = ((mKeys ns).map (keyFC F)).sum := by
  induction ns with
  | nil => rfl
  | cons nt ns ih =>
    have : effectSumC F (nt :: ns) = effectC F nt + effectSumC F ns := by simp [effectSumC]
    rw [this, ih]
    cases nt with
    | user k rc => simp [mKeys, mKey, effectC, List.filterMap_cons]
    | maint mk g k => simp [mKeys, mKey, effectC, keyFC, List.filterMap_cons]

theorem cntList_eq_countP_m (mk : MKind) (c0 : Graph) (k0 : HKey) (ns : List Notifier) :
    cntList (.maint mk c0 k0) ns = (mKeys ns).countP (fun a => a.equals (.maint mk c0 k0)) := by
  induction ns with
  | nil => rfl
  | cons nt ns ih =>
    cases nt with
    | user k rc =>
      simp only [cntList, mKeys, List.filterMap_cons, mKey, NKey.equals] at ih ⊢
      simpa using ih
    | maint mk' g k =>
      simp only [cntList, mKeys, List.filterMap_cons, mKey, List.countP_cons] at ih ⊢
      rw [ih]; omega

theorem mKeys_shape (ns : List Notifier) :
    ∀ a ∈ mKeys ns, ∃ mk g k, a = .maint mk g k ∧ Notifier.maint mk g k ∈ ns := by
  intro a ha
  simp only [mKeys, List.mem_filterMap] at ha
  obtain ⟨nt, hnt, hk⟩ := ha
  cases nt with
  | user k rc => simp [mKey] at hk
  | maint mk g k => simp [mKey] at hk; exact ⟨mk, g, k, hk.symm, hnt⟩

theorem visitKeysL_shape (h : Heap) (c : Id) (regs : List Reg) :
    ∀ a ∈ visitKeysL h c regs, ∃ r ∈ regs, ∃ g ∈ Gen.visits (listSite c) actTrue h r.g (some r.x),
      a = .maint .list g r.k := by
  intro a ha
  simp only [visitKeysL, List.mem_flatMap, List.mem_map] at ha
  obtain ⟨r, hr, g, hg, rfl⟩ := ha
  exact ⟨r, hr, g, hg, rfl⟩

theorem visitKeysL_countP (h : Heap) (c : Id) (regs : List Reg) (q : NKey) :
    (visitKeysL h c regs).countP (fun a => a.equals q) =
      (regs.map (fun r => Gen.visitHits .list r.k (Gen.visits (listSite c) actTrue h r.g (some r.x)) q)).sum := by
  induction regs with
  | nil => rfl
  | cons r regs ih =>
    simp only [visitKeysL, List.flatMap_cons, List.countP_append, List.map_cons, List.sum_cons] at ih ⊢
    rw [ih]
    congr 1
    generalize Gen.visits (listSite c) actTrue h r.g (some r.x) = vs
    induction vs with
    | nil => rfl
    | cons g vs ihv =>
      simp only [List.map_cons, List.countP_cons, Gen.visitHits, List.sum_cons, hit] at ihv ⊢
      rw [ihv]; split <;> omega

theorem blocks_eq_blockOf (h' : Heap) (ys : List Id) (o' : Observable) (q : NKey) (k : HKey) (vs : List Graph) :
    Gen.blocks h' k (ys.map some) vs o' q =
      ((vs.map (fun g => NKey.maint .list g k)).map (keyFC (blockOf h' ys o' q))).sum := by
  simp [Gen.blocks, keyFC, blockOf, List.map_map, Function.comp_def]

theorem sum_blocks_eq_keysL (h h' : Heap) (c : Id) (ys : List Id) (o' : Observable) (q : NKey) (regs : List Reg) :
    (regs.map (fun r => Gen.blocks h' r.k (ys.map some) (Gen.visits (listSite c) actTrue h r.g (some r.x)) o' q)).sum =
      ((visitKeysL h c regs).map (keyFC (blockOf h' ys o' q))).sum := by
  induction regs with
  | nil => rfl
  | cons r regs ih =>
    simp only [List.map_cons, List.sum_cons, visitKeysL, List.flatMap_cons, List.map_append, List.sum_append]
    rw [blocks_eq_blockOf]
    simp only [visitKeysL] at ih
    rw [ih]

theorem blockOf_sum (h' : Heap) (ys : List Id) (o' : Observable) (q : NKey) (g : Graph) (k : HKey) :
    blockOf h' ys o' q g k = (ys.map (fun y => cntItems (hookList h' k true g (some y)) o' q)).sum := by
  simp [blockOf, cntItems_flatMap, List.map_map, Function.comp_def]

end TraitsVerif.Model.Obs
