/-
Cluster `obs`: the refinement invariant is preserved by mutations of an observed
list (append / insert / del / setitem / clear / extend), fragment `ListFrag`.
-/
import TraitsVerif.Lemmas.ObsCont
namespace TraitsVerif.Model.Obs
open TraitsVerif

/-! ### the site of a list -/

def isListItems : Observer → Bool
  | .listItems .. => true
  | _ => false

def listSite (c : Id) : Gen.Site := ⟨fun ob x => isListItems ob && x == some c, .cont c, .list⟩

def actTrue : Observer → W → Bool := fun _ _ => true

/-- a container observable is only yielded by the matching items observer standing on it -/
theorem obs_cont_mem (h : Heap) (ob : Observer) (x : W) (i : Id)
    (hm : Observable.cont i ∈ (okOr [] (observables h ob x) : List Observable)) :
    x = some i ∧ ((isListItems ob = true ∧ ∃ l, h.get i = .list l) ∨
      ((∃ nt opt, ob = .dictItems nt opt) ∧ ∃ l, h.get i = .dict l) ∨
      ((∃ nt opt, ob = .setItems nt opt) ∧ ∃ l, h.get i = .set l)) := by
  cases x with
  | none =>
    exfalso
    cases ob with
    | named m nt opt => simp only [observables] at hm; split at hm <;> simp [okOr] at hm
    | filtered fl nt => simp [observables, Heap.at, okOr] at hm
    | listItems nt opt => simp only [observables, Heap.at] at hm; split at hm <;> simp [okOr] at hm
    | dictItems nt opt => simp only [observables, Heap.at] at hm; split at hm <;> simp [okOr] at hm
    | setItems nt opt => simp only [observables, Heap.at] at hm; split at hm <;> simp [okOr] at hm
  | some j =>
    cases ob with
    | named m nt opt =>
      exfalso
      simp only [observables] at hm
      split at hm
      · simp [okOr] at hm
      · split at hm <;> simp [okOr] at hm
    | filtered fl nt =>
      exfalso
      cases hj : h.get j <;> simp [observables, Heap.at, hj, okOr] at hm
    | listItems nt opt =>
      cases hj : h.get j with
      | list l =>
        simp [observables, Heap.at, hj, okOr] at hm
        subst hm
        exact ⟨rfl, Or.inl ⟨rfl, l, hj⟩⟩
      | inst fs => exfalso; simp only [observables, Heap.at, hj] at hm; split at hm <;> simp [okOr] at hm
      | dict l => exfalso; simp only [observables, Heap.at, hj] at hm; split at hm <;> simp [okOr] at hm
      | set l => exfalso; simp only [observables, Heap.at, hj] at hm; split at hm <;> simp [okOr] at hm
      | junk => exfalso; simp only [observables, Heap.at, hj] at hm; split at hm <;> simp [okOr] at hm
    | dictItems nt opt =>
      cases hj : h.get j with
      | dict l =>
        simp [observables, Heap.at, hj, okOr] at hm
        subst hm
        exact ⟨rfl, Or.inr (Or.inl ⟨⟨nt, opt, rfl⟩, l, hj⟩)⟩
      | inst fs => exfalso; simp only [observables, Heap.at, hj] at hm; split at hm <;> simp [okOr] at hm
      | list l => exfalso; simp only [observables, Heap.at, hj] at hm; split at hm <;> simp [okOr] at hm
      | set l => exfalso; simp only [observables, Heap.at, hj] at hm; split at hm <;> simp [okOr] at hm
      | junk => exfalso; simp only [observables, Heap.at, hj] at hm; split at hm <;> simp [okOr] at hm
    | setItems nt opt =>
      cases hj : h.get j with
      | set l =>
        simp [observables, Heap.at, hj, okOr] at hm
        subst hm
        exact ⟨rfl, Or.inr (Or.inr ⟨⟨nt, opt, rfl⟩, l, hj⟩)⟩
      | inst fs => exfalso; simp only [observables, Heap.at, hj] at hm; split at hm <;> simp [okOr] at hm
      | list l => exfalso; simp only [observables, Heap.at, hj] at hm; split at hm <;> simp [okOr] at hm
      | dict l => exfalso; simp only [observables, Heap.at, hj] at hm; split at hm <;> simp [okOr] at hm
      | junk => exfalso; simp only [observables, Heap.at, hj] at hm; split at hm <;> simp [okOr] at hm

theorem listSite_ok (h : Heap) (c : Id) (items : List Id) (hc : h.get c = .list items) :
    Gen.SiteOK (listSite c) actTrue h where
  own := by
    intro ob x hr _
    cases ob with
    | listItems nt opt =>
      simp only [listSite, isListItems, Bool.true_and, beq_iff_eq] at hr
      subst hr
      simp [observables, Heap.at, hc, Observer.mkind, listSite]
    | _ => simp [listSite, isListItems] at hr
  inactive := by intro ob x _ ha; simp [actTrue] at ha
  other := by
    intro ob x hf hr hm
    obtain ⟨hx, hkind⟩ := obs_cont_mem h ob x c hm
    subst hx
    rcases hkind with ⟨hl, _⟩ | ⟨_, l, hl⟩ | ⟨_, l, hl⟩
    · simp [listSite, hl] at hr
    · rw [hc] at hl; cases hl
    · rw [hc] at hl; cases hl

theorem listRel_self (h : Heap) (c : Id) (items : List Id) (hc : h.get c = .list items) :
    Gen.Rel (listSite c) actTrue h h (items.map some) where
  obs := fun _ _ _ => rfl
  ext := fun _ _ _ => rfl
  objs := fun _ _ _ _ => rfl
  objsN := by intro ob x _ ha; simp [actTrue] at ha
  objsR := by
    intro ob x hr _
    cases ob with
    | listItems nt opt =>
      simp only [listSite, isListItems, Bool.true_and, beq_iff_eq] at hr
      subst hr
      simp [objects, Heap.at, hc]
    | _ => simp [listSite, isListItems] at hr

section upd
variable {h : Heap} {c : Id} {items : List Id}

theorem upd_at_ne (items' : List Id) (x : W) (hx : x ≠ some c) : (h.upd c (.list items')).at x = h.at x := by
  cases x with
  | none => rfl
  | some i =>
    have : i ≠ c := fun e => hx (by rw [e])
    simp [Heap.at, Heap.get_upd, this]

theorem upd_at_c (items' : List Id) : (h.upd c (.list items')).at (some c) = .list items' := by
  simp [Heap.at, Heap.get_upd]

theorem hasTrait_upd_list (hc : h.get c = .list items) (items' : List Id) (x : W) (m : Name) :
    hasTrait (h.upd c (.list items')) x m = hasTrait h x m := by
  by_cases hx : x = some c
  · subst hx; simp [hasTrait, Heap.at, Heap.get_upd, hc]
  · simp [hasTrait, upd_at_ne items' x hx]

theorem fieldVal_upd_list (hc : h.get c = .list items) (items' : List Id) (x : W) (m : Name) :
    fieldVal (h.upd c (.list items')) x m = fieldVal h x m := by
  by_cases hx : x = some c
  · subst hx; simp [fieldVal, Heap.at, Heap.get_upd, hc]
  · simp [fieldVal, upd_at_ne items' x hx]

theorem listRel_upd (hc : h.get c = .list items) (items' : List Id) :
    Gen.Rel (listSite c) actTrue h (h.upd c (.list items')) (items'.map some) where
  obs := by
    intro ob x hf
    by_cases hx : x = some c
    · subst hx
      cases ob with
      | filtered fl nt => simp [Observer.isFiltered] at hf
      | named m nt opt => simp only [observables, hasTrait_upd_list hc]
      | listItems nt opt => simp [observables, Heap.at, Heap.get_upd, hc]
      | dictItems nt opt => simp [observables, Heap.at, Heap.get_upd, hc]
      | setItems nt opt => simp [observables, Heap.at, Heap.get_upd, hc]
    · cases ob with
      | filtered fl nt => simp [Observer.isFiltered] at hf
      | named m nt opt => simp only [observables, hasTrait_upd_list hc]
      | listItems nt opt => simp [observables, upd_at_ne items' x hx]
      | dictItems nt opt => simp [observables, upd_at_ne items' x hx]
      | setItems nt opt => simp [observables, upd_at_ne items' x hx]
  ext := by
    intro ob x hf
    by_cases hx : x = some c
    · subst hx
      cases ob with
      | filtered fl nt => simp [Observer.isFiltered] at hf
      | named m nt opt => simp [extraObservables, Heap.at, Heap.get_upd, hc]
      | listItems nt opt => rfl
      | dictItems nt opt => rfl
      | setItems nt opt => rfl
    · cases ob with
      | filtered fl nt => simp [Observer.isFiltered] at hf
      | named m nt opt => simp [extraObservables, upd_at_ne items' x hx]
      | listItems nt opt => rfl
      | dictItems nt opt => rfl
      | setItems nt opt => rfl
  objs := by
    intro ob x hf hr
    by_cases hx : x = some c
    · subst hx
      cases ob with
      | filtered fl nt => simp [Observer.isFiltered] at hf
      | named m nt opt => simp only [objects, hasTrait_upd_list hc, fieldVal_upd_list hc]
      | listItems nt opt => simp [listSite, isListItems] at hr
      | dictItems nt opt => simp [objects, Heap.at, Heap.get_upd, hc]
      | setItems nt opt => simp [objects, Heap.at, Heap.get_upd, hc]
    · cases ob with
      | filtered fl nt => simp [Observer.isFiltered] at hf
      | named m nt opt => simp only [objects, hasTrait_upd_list hc, fieldVal_upd_list hc]
      | listItems nt opt => simp [objects, upd_at_ne items' x hx]
      | dictItems nt opt => simp [objects, upd_at_ne items' x hx]
      | setItems nt opt => simp [objects, upd_at_ne items' x hx]
  objsN := by intro ob x _ ha; simp [actTrue] at ha
  objsR := by
    intro ob x hr _
    cases ob with
    | listItems nt opt =>
      simp only [listSite, isListItems, Bool.true_and, beq_iff_eq] at hr
      subst hr
      simp [objects, Heap.at, Heap.get_upd]
    | _ => simp [listSite, isListItems] at hr

end upd

/-! ### kinds of the items on a list observable -/

theorem extraObs_mem (h : Heap) (ob : Observer) (x : W) (ob' : Observable)
    (hm : ob' ∈ (okOr [] (extraObservables h ob x) : List Observable)) : ∃ i, ob' = .trait i nTraitAdded := by
  cases ob with
  | named m nt opt =>
    simp only [extraObservables] at hm
    split at hm
    · simp only [okOr, List.mem_singleton] at hm; exact ⟨_, hm⟩
    · split at hm <;> simp [okOr] at hm
  | filtered fl nt =>
    simp only [extraObservables] at hm
    split at hm
    · simp only [okOr, List.mem_singleton] at hm; exact ⟨_, hm⟩
    · simp [okOr] at hm
  | listItems nt opt => simp [extraObservables, okOr] at hm
  | dictItems nt opt => simp [extraObservables, okOr] at hm
  | setItems nt opt => simp [extraObservables, okOr] at hm

theorem hookList_cont_kind (h : Heap) (k : HKey) (c : Id) (items : List Id) (hc : h.get c = .list items) :
    ∀ g : Graph, ∀ (e : Bool) (x : W), ∀ it ∈ hookList h k e g x, it.1 = .cont c →
      ∀ mk g' k', it.2 = .maint mk g' k' → mk = .list := by
  apply Graph.ind (P := fun g => ∀ (e : Bool) (x : W), ∀ it ∈ hookList h k e g x, it.1 = .cont c →
      ∀ mk g' k', it.2 = .maint mk g' k' → mk = .list)
  intro ob cs ih e x it hit h1 mk g' k' h2
  rw [hookList_node, List.mem_append, List.mem_append] at hit
  rcases hit with (h3 | h3) | h3
  · simp only [ownItems, List.mem_append, List.mem_flatMap, List.mem_map] at h3
    rcases h3 with h4 | ⟨ob', hob', c', _, rfl⟩
    · split at h4
      · simp only [List.mem_map] at h4
        obtain ⟨ob', _, rfl⟩ := h4
        cases h2
      · cases h4
    · simp only at h1 h2
      subst h1
      injection h2 with e1 _ _
      obtain ⟨_, hkind⟩ := obs_cont_mem h ob x c hob'
      rcases hkind with ⟨hl, _⟩ | ⟨_, l, hl⟩ | ⟨_, l, hl⟩
      · cases ob <;> simp [isListItems] at hl
        rw [← e1]; rfl
      · rw [hc] at hl; cases hl
      · rw [hc] at hl; cases hl
  · obtain ⟨c', hc', y, _, hm⟩ := (mem_hookListCs h k ob x cs it).1 h3
    exact ih c' hc' true y it hm h1 mk g' k' h2
  · split at h3
    · simp only [extraItems, List.mem_map] at h3
      obtain ⟨ob', hob', rfl⟩ := h3
      obtain ⟨i, hi⟩ := extraObs_mem h ob x ob' hob'
      simp only at h1
      rw [hi] at h1; cases h1
    · cases h3

theorem specCnt_cont_kind (h : Heap) (regs : List Reg) (c : Id) (items : List Id) (hc : h.get c = .list items)
    (mk : MKind) (g : Graph) (k : HKey) (hmk : mk ≠ .list) :
    specCnt h regs (.cont c) (.maint mk g k) = 0 := by
  unfold specCnt
  apply sum_map_zero
  intro r _
  unfold cntItems
  rw [List.countP_eq_zero]
  intro it hit
  simp only [Bool.and_eq_true, beq_iff_eq, not_and, Bool.not_eq_true]
  intro e1
  cases hi : it.2 with
  | user k' => simp [NKey.equals]
  | maint mk' c' k' =>
    have := hookList_cont_kind h r.k c items hc r.g true (some r.x) it hit e1 mk' c' k' hi
    subst this
    cases mk <;> simp_all [NKey.equals]

/-! ### key lists -/

def mKey : Notifier → Option NKey
  | .maint mk c k => some (.maint mk c k)
  | .user .. => none

def mKeys (ns : List Notifier) : List NKey := ns.filterMap mKey

def keyFC (F : Graph → HKey → Nat) : NKey → Nat
  | .maint _ c k => F c k
  | _ => 0

def visitKeysL (h : Heap) (c : Id) (regs : List Reg) : List NKey :=
  regs.flatMap (fun r => (Gen.visits (listSite c) actTrue h r.g (some r.x)).map (fun g => NKey.maint .list g r.k))

theorem effectSumC_eq_keys (F : Graph → HKey → Nat) (ns : List Notifier) :
    effectSumC F ns = ((mKeys ns).map (keyFC F)).sum := by
  induction ns with
  | nil => rfl
  | cons nt ns ih =>
    have : effectSumC F (nt :: ns) = effectC F nt + effectSumC F ns := by simp [effectSumC]
    rw [this, ih]
    cases nt with
    | user k rc => simp [mKeys, mKey, effectC, List.filterMap_cons]
    | maint mk g k => simp [mKeys, mKey, effectC, keyFC, List.filterMap_cons]

theorem cntList_eq_countP_m (mk : MKind) (c0 : Graph) (k0 : HKey) (ns : List Notifier) :
    cntList (.maint mk c0 k0) ns = (mKeys ns).countP (fun a => a.equals (.maint mk c0 k0)) := by
  induction ns with
  | nil => rfl
  | cons nt ns ih =>
    cases nt with
    | user k rc =>
      simp only [cntList, mKeys, List.filterMap_cons, mKey, NKey.equals] at ih ⊢
      simpa using ih
    | maint mk' g k =>
      simp only [cntList, mKeys, List.filterMap_cons, mKey, List.countP_cons] at ih ⊢
      rw [ih]; omega

theorem mKeys_shape (ns : List Notifier) :
    ∀ a ∈ mKeys ns, ∃ mk g k, a = .maint mk g k ∧ Notifier.maint mk g k ∈ ns := by
  intro a ha
  simp only [mKeys, List.mem_filterMap] at ha
  obtain ⟨nt, hnt, hk⟩ := ha
  cases nt with
  | user k rc => simp [mKey] at hk
  | maint mk g k => simp [mKey] at hk; exact ⟨mk, g, k, hk.symm, hnt⟩

theorem visitKeysL_shape (h : Heap) (c : Id) (regs : List Reg) :
    ∀ a ∈ visitKeysL h c regs, ∃ r ∈ regs, ∃ g ∈ Gen.visits (listSite c) actTrue h r.g (some r.x),
      a = .maint .list g r.k := by
  intro a ha
  simp only [visitKeysL, List.mem_flatMap, List.mem_map] at ha
  obtain ⟨r, hr, g, hg, rfl⟩ := ha
  exact ⟨r, hr, g, hg, rfl⟩

theorem visitKeysL_countP (h : Heap) (c : Id) (regs : List Reg) (q : NKey) :
    (visitKeysL h c regs).countP (fun a => a.equals q) =
      (regs.map (fun r => Gen.visitHits .list r.k (Gen.visits (listSite c) actTrue h r.g (some r.x)) q)).sum := by
  induction regs with
  | nil => rfl
  | cons r regs ih =>
    simp only [visitKeysL, List.flatMap_cons, List.countP_append, List.map_cons, List.sum_cons] at ih ⊢
    rw [ih]
    congr 1
    generalize Gen.visits (listSite c) actTrue h r.g (some r.x) = vs
    induction vs with
    | nil => rfl
    | cons g vs ihv =>
      simp only [List.map_cons, List.countP_cons, Gen.visitHits, List.sum_cons, hit] at ihv ⊢
      rw [ihv]; split <;> omega

theorem blocks_eq_blockOf (h' : Heap) (ys : List Id) (o' : Observable) (q : NKey) (k : HKey) (vs : List Graph) :
    Gen.blocks h' k (ys.map some) vs o' q =
      ((vs.map (fun g => NKey.maint .list g k)).map (keyFC (blockOf h' ys o' q))).sum := by
  simp [Gen.blocks, keyFC, blockOf, List.map_map, Function.comp_def]

theorem sum_blocks_eq_keysL (h h' : Heap) (c : Id) (ys : List Id) (o' : Observable) (q : NKey) (regs : List Reg) :
    (regs.map (fun r => Gen.blocks h' r.k (ys.map some) (Gen.visits (listSite c) actTrue h r.g (some r.x)) o' q)).sum =
      ((visitKeysL h c regs).map (keyFC (blockOf h' ys o' q))).sum := by
  induction regs with
  | nil => rfl
  | cons r regs ih =>
    simp only [List.map_cons, List.sum_cons, visitKeysL, List.flatMap_cons, List.map_append, List.sum_append]
    rw [blocks_eq_blockOf]
    simp only [visitKeysL] at ih
    rw [ih]

theorem blockOf_sum (h' : Heap) (ys : List Id) (o' : Observable) (q : NKey) (g : Graph) (k : HKey) :
    blockOf h' ys o' q g k = (ys.map (fun y => cntItems (hookList h' k true g (some y)) o' q)).sum := by
  simp [blockOf, cntItems_flatMap, List.map_map, Function.comp_def]

/-! ### the fragment -/

/-- Hypotheses under which a mutation of list `c` (contents `items` ↦ `items'`,
reported as `ev`) preserves the invariant. -/
structure ListCore (E : Env) (st : St) (regs : List Reg) (c : Id) (items items' : List Id) (ev : CEvent) : Prop where
  hc : st.h.get c = .list items
  /-- no `filtered` (`*`, `+metadata`) node in any active registration -/
  noFiltered : ∀ r ∈ regs, r.g.noFiltered = true
  alive : ∀ k, E.dead k = false
  /-- the walks the maintainers perform meet no failing `iter_*` -/
  okRem : ∀ mk g k, Notifier.maint mk g k ∈ st.H.get (.cont c) → ∀ y ∈ ev.removed,
    walkOk (st.h.upd c (.list items')) true g (some y) = true
  okAdd : ∀ mk g k, Notifier.maint mk g k ∈ st.H.get (.cont c) → ∀ y ∈ ev.added,
    walkOk (st.h.upd c (.list items')) true g (some y) = true
  /-- NoSelfReach: below the current items, and below the removed / added ones, the
  maintained sub-graphs never come back to the list itself -/
  nsrItems : ∀ r ∈ regs, ∀ g ∈ Gen.visits (listSite c) actTrue st.h r.g (some r.x), ∀ y ∈ items,
    ∀ it ∈ hookList st.h r.k true g (some y), it.1 ≠ .cont c
  nsrLive : ∀ mk g k, Notifier.maint mk g k ∈ st.H.get (.cont c) → ∀ y ∈ ev.removed ++ ev.added,
    ∀ it ∈ hookList (st.h.upd c (.list items')) k true g (some y), it.1 ≠ .cont c
  /-- graph equality is structural on the sub-graphs involved -/
  eqStruct : ∀ mk g k, Notifier.maint mk g k ∈ st.H.get (.cont c) → ∀ r ∈ regs,
    ∀ g' ∈ Gen.visits (listSite c) actTrue st.h r.g (some r.x),
    (NKey.maint mk g k).equals (.maint .list g' r.k) = true → g = g' ∧ k = r.k

/-- … plus: the event is a faithful delta, old = removed + rest, new = rest + added
(as multisets; proved below for each list operation). -/
structure ListFrag (E : Env) (st : St) (regs : List Reg) (c : Id) (items items' rest : List Id) (ev : CEvent) : Prop
    extends ListCore E st regs c items items' ev where
  hitems : ∀ F : Id → Nat, (items.map F).sum = (ev.removed.map F).sum + (rest.map F).sum
  hitems' : ∀ F : Id → Nat, (items'.map F).sum = (rest.map F).sum + (ev.added.map F).sum

theorem mem_of_sum_decomp (items removed rest : List Id)
    (hd : ∀ F : Id → Nat, (items.map F).sum = (removed.map F).sum + (rest.map F).sum) :
    ∀ y ∈ removed, y ∈ items := by
  intro y hy
  by_cases hin : y ∈ items
  · exact hin
  · exfalso
    have := hd (fun z => if z = y then 1 else 0)
    have h0 : (items.map (fun z => if z = y then 1 else 0)).sum = 0 := by
      apply sum_map_zero
      intro a ha
      have : a ≠ y := fun e => hin (e ▸ ha)
      simp [this]
    have h1 : 0 < (removed.map (fun z => if z = y then 1 else 0)).sum := by
      obtain ⟨pre, post, rfl⟩ := List.append_of_mem hy
      simp [List.map_append, List.sum_append]
      omega
    omega

theorem listMut_preserves (E : Env) (st : St) (regs : List Reg) (c : Id) (items items' rest : List Id) (ev : CEvent)
    (hinv : HooksEqReach st.h st.H regs) (fr : ListFrag E st regs c items items' rest ev) :
    HooksEqReach (st.h.upd c (.list items')) (runCont E st (st.h.upd c (.list items')) c (some ev)).st.H regs ∧
    (runCont E st (st.h.upd c (.list items')) c (some ev)).err = none := by
  obtain ⟨hwf, hcnt⟩ := hinv
  have ok := listSite_ok st.h c items fr.hc
  have R0 := listRel_self st.h c items fr.hc
  have R1 := listRel_upd fr.hc items'
  have Dh : ∀ r ∈ regs, ∀ o' q, cntItems (hookList st.h r.k true r.g (some r.x)) o' q =
      cntItems (Gen.stable (listSite c) st.h r.k true r.g (some r.x)) o' q +
      Gen.blocks st.h r.k (items.map some) (Gen.visits (listSite c) actTrue st.h r.g (some r.x)) o' q :=
    fun r hr o' q => Gen.dec ok R0 r.k r.g (fr.noFiltered r hr) true (some r.x) o' q
  have Dh' : ∀ r ∈ regs, ∀ o' q, cntItems (hookList (st.h.upd c (.list items')) r.k true r.g (some r.x)) o' q =
      cntItems (Gen.stable (listSite c) st.h r.k true r.g (some r.x)) o' q +
      Gen.blocks (st.h.upd c (.list items')) r.k (items'.map some)
        (Gen.visits (listSite c) actTrue st.h r.g (some r.x)) o' q :=
    fun r hr o' q => Gen.dec ok R1 r.k r.g (fr.noFiltered r hr) true (some r.x) o' q
  -- L3 below every current item
  have L3y : ∀ r ∈ regs, ∀ g ∈ Gen.visits (listSite c) actTrue st.h r.g (some r.x), ∀ y ∈ items,
      hookList (st.h.upd c (.list items')) r.k true g (some y) = hookList st.h r.k true g (some y) := by
    intro r hr g hg y hy
    exact Gen.locality ok R1 r.k g (Gen.visits_noFiltered st.h r.g (fr.noFiltered r hr) (some r.x) g hg) true (some y)
      (fr.nsrItems r hr g hg y hy)
  have L3 : ∀ r ∈ regs, ∀ o' q, Gen.blocks (st.h.upd c (.list items')) r.k (items.map some)
        (Gen.visits (listSite c) actTrue st.h r.g (some r.x)) o' q =
      Gen.blocks st.h r.k (items.map some) (Gen.visits (listSite c) actTrue st.h r.g (some r.x)) o' q := by
    intro r hr o' q
    unfold Gen.blocks
    apply sum_map_congr
    intro g hg
    congr 1
    apply flatMap_congr'
    intro w hw
    simp only [List.mem_map] at hw
    obtain ⟨y, hy, rfl⟩ := hw
    exact L3y r hr g hg y hy
  have B0 : ∀ r ∈ regs, ∀ q, Gen.blocks st.h r.k (items.map some)
      (Gen.visits (listSite c) actTrue st.h r.g (some r.x)) (.cont c) q = 0 := by
    intro r hr q
    unfold Gen.blocks
    apply sum_map_zero
    intro g hg
    apply cntItems_zero_of_ne
    intro it hit
    simp only [List.mem_flatMap, List.mem_map] at hit
    obtain ⟨w, ⟨y, hy, rfl⟩, hm⟩ := hit
    exact fr.nsrItems r hr g hg y hy it hm
  have specH : ∀ o' q, specCnt st.h regs o' q =
      (regs.map (fun r => cntItems (Gen.stable (listSite c) st.h r.k true r.g (some r.x)) o' q)).sum +
      (regs.map (fun r => Gen.blocks st.h r.k (items.map some)
        (Gen.visits (listSite c) actTrue st.h r.g (some r.x)) o' q)).sum := by
    intro o' q
    unfold specCnt
    rw [← sum_map_add]
    exact sum_map_congr _ _ _ (fun r hr => Dh r hr o' q)
  have specH' : ∀ o' q, specCnt (st.h.upd c (.list items')) regs o' q =
      (regs.map (fun r => cntItems (Gen.stable (listSite c) st.h r.k true r.g (some r.x)) o' q)).sum +
      (regs.map (fun r => Gen.blocks (st.h.upd c (.list items')) r.k (items'.map some)
        (Gen.visits (listSite c) actTrue st.h r.g (some r.x)) o' q)).sum := by
    intro o' q
    unfold specCnt
    rw [← sum_map_add]
    exact sum_map_congr _ _ _ (fun r hr => Dh' r hr o' q)
  -- the maintainers on the list are the visits
  have hcounts : ∀ q, (mKeys (st.H.get (.cont c))).countP (fun a => a.equals q) =
      (visitKeysL st.h c regs).countP (fun a => a.equals q) := by
    intro q
    cases q with
    | user k0 =>
      rw [List.countP_eq_zero.2, List.countP_eq_zero.2]
      · intro a ha
        obtain ⟨r, _, g, _, rfl⟩ := visitKeysL_shape _ _ _ a ha
        simp [NKey.equals]
      · intro a ha
        obtain ⟨mk, g, k, rfl, _⟩ := mKeys_shape _ a ha
        simp [NKey.equals]
    | maint mk c0 k0 =>
      rw [← cntList_eq_countP_m]
      have := hcnt (.cont c) (.maint mk c0 k0)
      unfold cnt at this
      rw [this]
      by_cases hmk : mk = .list
      · subst hmk
        rw [visitKeysL_countP, specH]
        have hz : (regs.map (fun r => Gen.blocks st.h r.k (items.map some)
            (Gen.visits (listSite c) actTrue st.h r.g (some r.x)) (.cont c) (.maint .list c0 k0))).sum = 0 :=
          sum_map_zero _ _ (fun r hr => B0 r hr _)
        rw [hz, Nat.add_zero]
        exact sum_map_congr _ _ _ (fun r hr =>
          Gen.stable_at_target ok (by simp [listSite]) r.k r.g (fr.noFiltered r hr) true (some r.x) c0 k0)
      · rw [specCnt_cont_kind st.h regs c items fr.hc mk c0 k0 hmk, eq_comm, List.countP_eq_zero]
        intro a ha
        obtain ⟨r, _, g, _, rfl⟩ := visitKeysL_shape _ _ _ a ha
        cases mk <;> simp_all [NKey.equals]
  have hmatch : ∀ (ys : List Id) o' q,
      effectSumC (blockOf (st.h.upd c (.list items')) ys o' q) (st.H.get (.cont c)) =
      (regs.map (fun r => Gen.blocks (st.h.upd c (.list items')) r.k (ys.map some)
        (Gen.visits (listSite c) actTrue st.h r.g (some r.x)) o' q)).sum := by
    intro ys o' q
    rw [effectSumC_eq_keys, sum_blocks_eq_keysL]
    apply sum_eq_of_equiv_counts _ _ _ hcounts
    intro a ha b hb hab
    obtain ⟨mk, g, k, rfl, hm⟩ := mKeys_shape _ a ha
    obtain ⟨r, hr, g', hg', rfl⟩ := visitKeysL_shape _ _ _ b hb
    obtain ⟨rfl, rfl⟩ := fr.eqStruct mk g k hm r hr g' hg' hab
    rfl
  -- multiset decomposition of the blocks
  have hsplitB : ∀ (ys a b : List Id), (∀ F : Id → Nat, (ys.map F).sum = (a.map F).sum + (b.map F).sum) →
      ∀ o' q, (regs.map (fun r => Gen.blocks (st.h.upd c (.list items')) r.k (ys.map some)
        (Gen.visits (listSite c) actTrue st.h r.g (some r.x)) o' q)).sum =
      (regs.map (fun r => Gen.blocks (st.h.upd c (.list items')) r.k (a.map some)
        (Gen.visits (listSite c) actTrue st.h r.g (some r.x)) o' q)).sum +
      (regs.map (fun r => Gen.blocks (st.h.upd c (.list items')) r.k (b.map some)
        (Gen.visits (listSite c) actTrue st.h r.g (some r.x)) o' q)).sum := by
    intro ys a b hd o' q
    rw [← sum_map_add]
    apply sum_map_congr
    intro r _
    unfold Gen.blocks
    rw [← sum_map_add]
    apply sum_map_congr
    intro g _
    have := hd (fun y => cntItems (hookList (st.h.upd c (.list items')) r.k true g (some y)) o' q)
    simp only [cntItems_flatMap, List.map_map, Function.comp_def]
    exact this
  -- live iteration = iteration over the copy
  have hfr : ∀ mk g k, Notifier.maint mk g k ∈ st.H.get (.cont c) → ∀ H',
      (maintCont (st.h.upd c (.list items')) g k ev H').H.get (.cont c) = H'.get (.cont c) :=
    fun mk g k hm H' => maintCont_frame _ g k ev (.cont c) H' (fr.nsrLive mk g k hm)
  have heq := notifyCont_eq_callCont E (st.h.upd c (.list items')) c ev (st.H.get (.cont c)) hfr
    ((st.H.get (.cont c)).length + 4096) 0 st.H [] rfl (by omega)
  simp only [runCont, heq, List.drop_zero]
  have hl : LoopOkC E (st.h.upd c (.list items')) ev (st.H.get (.cont c)) :=
    { alive := fr.alive, okRem := fr.okRem, okAdd := fr.okAdd }
  have hI := fun o' q => hsplitB items ev.removed rest fr.hitems o' q
  have hI' := fun o' q => hsplitB items' rest ev.added fr.hitems' o' q
  have hle : ∀ o' q, effectSumC (blockOf (st.h.upd c (.list items')) ev.removed o' q) (st.H.get (.cont c)) ≤
      cnt st.H o' q := by
    intro o' q
    rw [hmatch, hcnt, specH, ← sum_map_congr _ _ _ (fun r hr => L3 r hr o' q), hI]
    omega
  obtain ⟨e, w, cc⟩ := callCont_effect E (st.h.upd c (.list items')) c ev _ st.H [] hl hwf hle
  refine ⟨⟨w, ?_⟩, e⟩
  intro o' q
  have := cc o' q
  rw [hmatch, hmatch, hcnt, specH, ← sum_map_congr _ _ _ (fun r hr => L3 r hr o' q), hI] at this
  rw [specH', hI']
  omega

/-! ### the list operations -/

theorem sum_eraseIdx (F : Id → Nat) : ∀ (l : List Id) (i : Nat) (y : Id), l[i]? = some y →
    (l.map F).sum = F y + ((l.eraseIdx i).map F).sum := by
  intro l
  induction l with
  | nil => intro i y h; simp at h
  | cons a l ih =>
    intro i y h
    cases i with
    | zero => simp at h; subst h; simp
    | succ i =>
      simp only [List.getElem?_cons_succ] at h
      have := ih i y h
      simp only [List.map_cons, List.sum_cons, List.eraseIdx_cons_succ, this]
      omega

theorem sum_set (F : Id → Nat) : ∀ (l : List Id) (i : Nat) (y x : Id), l[i]? = some y →
    ((l.set i x).map F).sum = ((l.eraseIdx i).map F).sum + F x := by
  intro l
  induction l with
  | nil => intro i y x h; simp at h
  | cons a l ih =>
    intro i y x h
    cases i with
    | zero => simp; omega
    | succ i =>
      simp only [List.getElem?_cons_succ] at h
      have := ih i y x h
      simp only [List.set_cons_succ, List.map_cons, List.sum_cons, List.eraseIdx_cons_succ, this]
      omega

theorem sum_insert (F : Id → Nat) (l : List Id) (i : Nat) (x : Id) :
    ((l.take i ++ x :: l.drop i).map F).sum = (l.map F).sum + F x := by
  have : (l.map F).sum = ((l.take i ++ l.drop i).map F).sum := by rw [List.take_append_drop]
  rw [this]
  simp only [List.map_append, List.sum_append, List.map_cons, List.sum_cons]
  omega

/-- `l.append(x)` -/
theorem listAppend_preserves (E : Env) (st : St) (regs : List Reg) (c : Id) (x : Id) (items : List Id)
    (hinv : HooksEqReach st.h st.H regs)
    (core : ListCore E st regs c items (items ++ [x]) (.list items.length [] [x])) :
    HooksEqReach (mutate E st (.listAppend c x)).st.h (mutate E st (.listAppend c x)).st.H regs ∧
    (mutate E st (.listAppend c x)).err = none := by
  have fr : ListFrag E st regs c items (items ++ [x]) items (.list items.length [] [x]) :=
    { core with
      hitems := by intro F; simp [CEvent.removed]
      hitems' := by intro F; simp [CEvent.added, List.map_append, List.sum_append] }
  simp only [mutate, core.hc]
  exact listMut_preserves E st regs c items _ items _ hinv fr

/-- `l.insert(i, x)` -/
theorem listInsert_preserves (E : Env) (st : St) (regs : List Reg) (c : Id) (i : Nat) (x : Id) (items : List Id)
    (hi : i ≤ items.length) (hinv : HooksEqReach st.h st.H regs)
    (core : ListCore E st regs c items (items.take i ++ x :: items.drop i) (.list i [] [x])) :
    HooksEqReach (mutate E st (.listInsert c i x)).st.h (mutate E st (.listInsert c i x)).st.H regs ∧
    (mutate E st (.listInsert c i x)).err = none := by
  have fr : ListFrag E st regs c items (items.take i ++ x :: items.drop i) items (.list i [] [x]) :=
    { core with
      hitems := by intro F; simp [CEvent.removed]
      hitems' := by intro F; rw [sum_insert]; simp [CEvent.added] }
  simp only [mutate, core.hc, hi, if_true]
  exact listMut_preserves E st regs c items _ items _ hinv fr

/-- `del l[i]` — an object present twice and removed once keeps one registration's worth of hooks -/
theorem listDel_preserves (E : Env) (st : St) (regs : List Reg) (c : Id) (i : Nat) (y : Id) (items : List Id)
    (hy : items[i]? = some y) (hinv : HooksEqReach st.h st.H regs)
    (core : ListCore E st regs c items (items.eraseIdx i) (.list i [y] [])) :
    HooksEqReach (mutate E st (.listDel c i)).st.h (mutate E st (.listDel c i)).st.H regs ∧
    (mutate E st (.listDel c i)).err = none := by
  have fr : ListFrag E st regs c items (items.eraseIdx i) (items.eraseIdx i) (.list i [y] []) :=
    { core with
      hitems := by intro F; rw [sum_eraseIdx F items i y hy]; simp [CEvent.removed]
      hitems' := by intro F; simp [CEvent.added] }
  simp only [mutate, core.hc, hy]
  exact listMut_preserves E st regs c items _ _ _ hinv fr

/-- `l[i] = x` -/
theorem listSet_preserves (E : Env) (st : St) (regs : List Reg) (c : Id) (i : Nat) (x y : Id) (items : List Id)
    (hy : items[i]? = some y) (hinv : HooksEqReach st.h st.H regs)
    (core : ListCore E st regs c items (items.set i x) (.list i [y] [x])) :
    HooksEqReach (mutate E st (.listSet c i x)).st.h (mutate E st (.listSet c i x)).st.H regs ∧
    (mutate E st (.listSet c i x)).err = none := by
  have fr : ListFrag E st regs c items (items.set i x) (items.eraseIdx i) (.list i [y] [x]) :=
    { core with
      hitems := by intro F; rw [sum_eraseIdx F items i y hy]; simp [CEvent.removed]
      hitems' := by intro F; rw [sum_set F items i y x hy]; simp [CEvent.added] }
  simp only [mutate, core.hc, hy]
  exact listMut_preserves E st regs c items _ _ _ hinv fr

/-- `l.clear()` on a non-empty list -/
theorem listClear_preserves (E : Env) (st : St) (regs : List Reg) (c : Id) (items : List Id)
    (hne : items.isEmpty = false) (hinv : HooksEqReach st.h st.H regs)
    (core : ListCore E st regs c items [] (.list 0 items [])) :
    HooksEqReach (mutate E st (.listClear c)).st.h (mutate E st (.listClear c)).st.H regs ∧
    (mutate E st (.listClear c)).err = none := by
  have fr : ListFrag E st regs c items [] [] (.list 0 items []) :=
    { core with
      hitems := by intro F; simp [CEvent.removed]
      hitems' := by intro F; simp [CEvent.added] }
  simp only [mutate, core.hc, hne, Bool.false_eq_true, if_false]
  exact listMut_preserves E st regs c items _ _ _ hinv fr

/-- `l.extend(xs)` with `xs` non-empty (same object several times allowed) -/
theorem listExtend_preserves (E : Env) (st : St) (regs : List Reg) (c : Id) (xs : List Id) (items : List Id)
    (hne : xs.isEmpty = false) (hinv : HooksEqReach st.h st.H regs)
    (core : ListCore E st regs c items (items ++ xs) (.list items.length [] xs)) :
    HooksEqReach (mutate E st (.listExtend c xs)).st.h (mutate E st (.listExtend c xs)).st.H regs ∧
    (mutate E st (.listExtend c xs)).err = none := by
  have fr : ListFrag E st regs c items (items ++ xs) items (.list items.length [] xs) :=
    { core with
      hitems := by intro F; simp [CEvent.removed]
      hitems' := by intro F; simp [CEvent.added, List.map_append, List.sum_append] }
  simp only [mutate, core.hc, hne, Bool.false_eq_true, if_false]
  exact listMut_preserves E st regs c items _ _ _ hinv fr

theorem sum_slice_split (F : Id → Nat) (l : List Id) (i j : Nat) (hij : i ≤ j) :
    (l.map F).sum = (((l.drop i).take (j - i)).map F).sum + ((l.take i ++ l.drop j).map F).sum := by
  have h1 : l = l.take i ++ ((l.drop i).take (j - i) ++ l.drop j) := by
    have : (l.drop i).drop (j - i) = l.drop j := by rw [List.drop_drop]; congr 1; omega
    rw [← this, List.take_append_drop, List.take_append_drop]
  conv => lhs; rw [h1]
  simp only [List.map_append, List.sum_append]
  omega

/-- `l[i:j] = xs` (any lengths; the classic case: same length, same objects, other
multiplicities — `[a, a, b]` ↦ `[a, b, b]`) -/
theorem listSlice_preserves (E : Env) (st : St) (regs : List Reg) (c : Id) (i j : Nat) (xs : List Id) (items : List Id)
    (hij : i ≤ j ∧ j ≤ items.length)
    (hne : (((items.drop i).take (j - i)).isEmpty && xs.isEmpty) = false)
    (hinv : HooksEqReach st.h st.H regs)
    (core : ListCore E st regs c items (items.take i ++ xs ++ items.drop j) (.list i ((items.drop i).take (j - i)) xs)) :
    HooksEqReach (mutate E st (.listSlice c i j xs)).st.h (mutate E st (.listSlice c i j xs)).st.H regs ∧
    (mutate E st (.listSlice c i j xs)).err = none := by
  have fr : ListFrag E st regs c items (items.take i ++ xs ++ items.drop j) (items.take i ++ items.drop j)
      (.list i ((items.drop i).take (j - i)) xs) :=
    { core with
      hitems := by intro F; rw [sum_slice_split F items i j hij.1]; simp [CEvent.removed]
      hitems' := by intro F; simp [CEvent.added, List.map_append, List.sum_append]; omega }
  simp only [mutate, core.hc, hij, and_self, if_true, hne, Bool.false_eq_true, if_false]
  exact listMut_preserves E st regs c items _ _ _ hinv fr

end TraitsVerif.Model.Obs
