/-
Specification vocabulary for C17 (what a *valid adapter chain* is, independently of
the search), and the basic facts tying it to the model's building blocks
(`applicable`, `walk`).
-/
import TraitsVerif.Lemmas.AdaptSort
namespace TraitsVerif.Lemmas.Adapt
open TraitsVerif TraitsVerif.Model.Adapt
variable {α : Type}

/-! ## Valid chains -/

/-- The offer sits in some bucket of the registry. -/
def Registered (cfg : Cfg) (o : Offer) : Prop := ∃ g ∈ cfg.groups, o ∈ g

/-- Every offer of a bucket adapts from the same protocol as the bucket's first
offer.  This is what the registry's keying by `from_protocol_name` gives when
distinct protocols have distinct names (`groupsOf_homogeneous`). -/
def Homogeneous (cfg : Cfg) : Prop :=
  ∀ g ∈ cfg.groups, ∀ o0, g.head? = some o0 → ∀ o ∈ g, o.frm = o0.frm

/-- The protocol a chain ends at (`src` for the empty chain). -/
def endOf (src : Nat) (p : List Offer) : Nat :=
  match p.getLast? with
  | none => src
  | some o => o.to

@[simp] theorem endOf_nil (src : Nat) : endOf src [] = src := rfl

@[simp] theorem endOf_concat (src : Nat) (p : List Offer) (o : Offer) : endOf src (p ++ [o]) = o.to := by
  simp [endOf]

theorem endOf_cons (src : Nat) (o : Offer) (os : List Offer) : endOf src (o :: os) = endOf o.to os := by
  cases os with
  | nil => simp [endOf]
  | cons o' os' =>
    simp only [endOf, List.getLast?_cons_cons]
    cases h : (o' :: os').getLast? with
    | none => simp at h
    | some x => rfl

/-- Applicable step by step: each offer is registered and its `from_protocol` is
provided by the protocol reached so far. -/
def Applicable (cfg : Cfg) : Nat → List Offer → Prop
  | _, [] => True
  | cur, o :: os => Registered cfg o ∧ cfg.provides cur o.frm = true ∧ Applicable cfg o.to os

/-- Every adaptation offer is used at most once. -/
def OfferSimple (chain : List Offer) : Prop := (chain.map (·.id)).Nodup

/-- A chain of offers leading from type `src` to protocol `target`. -/
structure ValidChain (cfg : Cfg) (src target : Nat) (chain : List Offer) : Prop where
  nonempty : chain ≠ []
  applicable : Applicable cfg src chain
  simple : OfferSimple chain
  arrives : cfg.provides (endOf src chain) target = true

/-- The factories of the chain all succeed when called one after the other,
starting at call ordinal `k`, on `a`; `r` is the adapter that comes out. -/
def SucceedsFrom (f : Factory α) : Nat → List Offer → α → α → Prop
  | _, [], a, r => r = a
  | k, o :: os, a, r => ∃ a', f k o a = .adapter a' ∧ SucceedsFrom f (k + 1) os a' r

/-- A factory's outcome is a function of the offer and the adaptee it is handed. -/
def Deterministic (f : Factory α) : Prop := ∀ k k' o a, f k o a = f k' o a

/-- No factory raises (it returns an adapter or `None`). -/
def NoRaise (f : Factory α) : Prop := ∀ k o a e, f k o a ≠ .raise e

theorem Applicable_append {cfg : Cfg} : ∀ (p q : List Offer) (cur : Nat),
    Applicable cfg cur (p ++ q) ↔ Applicable cfg cur p ∧ Applicable cfg (endOf cur p) q
  | [], q, cur => by simp [Applicable]
  | o :: os, q, cur => by
    simp only [List.cons_append, Applicable, endOf_cons, Applicable_append os q o.to]
    constructor
    · rintro ⟨h1, h2, h3, h4⟩; exact ⟨⟨h1, h2, h3⟩, h4⟩
    · rintro ⟨⟨h1, h2, h3⟩, h4⟩; exact ⟨h1, h2, h3, h4⟩

/-! ## `walk` and `SucceedsFrom` -/

theorem walk_done_iff (f : Factory α) : ∀ (os : List Offer) (a : α) (tr : List CallRec) (r : α),
    (walk f os a tr).1 = .done r ↔ SucceedsFrom f tr.length os a r
  | [], a, tr, r => by
    simp only [walk, SucceedsFrom, WalkRes.done.injEq]
    exact eq_comm
  | o :: os, a, tr, r => by
    simp only [walk, SucceedsFrom]
    cases h : f tr.length o a with
    | adapter a' =>
      have ih := walk_done_iff f os a' (tr ++ [⟨o.id, .ok⟩]) r
      simp only [List.length_append, List.length_cons, List.length_nil, Nat.zero_add] at ih
      simp only [FOut.adapter.injEq, exists_eq_left', ih]
    | none => simp
    | raise e => simp

theorem SucceedsFrom_det {f : Factory α} (hdet : Deterministic f) :
    ∀ (os : List Offer) (k k' : Nat) (a r : α), SucceedsFrom f k os a r → SucceedsFrom f k' os a r
  | [], _, _, _, _, h => h
  | o :: os, k, k', a, r, h => by
    obtain ⟨a', h1, h2⟩ := h
    exact ⟨a', by rw [hdet k' k]; exact h1, SucceedsFrom_det hdet os _ _ _ _ h2⟩

theorem SucceedsFrom_prefix {f : Factory α} : ∀ (c rest : List Offer) (k : Nat) (a r : α),
    SucceedsFrom f k (c ++ rest) a r → ∃ r', SucceedsFrom f k c a r'
  | [], _, _, a, _, _ => ⟨a, rfl⟩
  | o :: os, rest, k, a, r, h => by
    obtain ⟨a', h1, h2⟩ := h
    obtain ⟨r', h3⟩ := SucceedsFrom_prefix os rest _ _ _ h2
    exact ⟨r', a', h1, h3⟩

/-- A walk that came back `failed` did not succeed — at any ordinal, if the
factories are deterministic. -/
theorem walk_failed_fails {f : Factory α} (hdet : Deterministic f) {os : List Offer} {a : α}
    {tr : List CallRec} (h : (walk f os a tr).1 = .failed) : ¬ ∃ r, SucceedsFrom f 0 os a r := by
  rintro ⟨r, hr⟩
  have := (walk_done_iff f os a tr r).2 (SucceedsFrom_det hdet os _ _ _ _ hr)
  rw [h] at this
  cases this

/-! ## `dist`, `applicable` -/

theorem dist_some_provides {cfg : Cfg} {t p d : Nat} (h : dist cfg t p = some d) :
    cfg.provides t p = true := by
  unfold dist at h
  by_cases hp : cfg.provides t p = true
  · exact hp
  · simp [hp] at h

theorem provides_dist {cfg : Cfg} {t p : Nat} (h : cfg.provides t p = true) :
    ∃ d, dist cfg t p = some d := by
  unfold dist; simp [h]

theorem inPath_false_iff {o : Offer} {path : List Offer} :
    inPath o path = false ↔ o.id ∉ path.map (·.id) := by
  unfold inPath
  rw [List.any_eq_false]
  simp only [List.mem_map, not_exists, not_and, beq_iff_eq]

theorem mem_groupEdges {cfg : Cfg} {cur : Nat} {path g : List Offer} {d : Nat} {o : Offer} :
    (d, o) ∈ groupEdges cfg cur path g ↔
      ∃ o0, g.head? = some o0 ∧ dist cfg cur o0.frm = some d ∧ o ∈ g ∧ inPath o path = false := by
  cases g with
  | nil => simp [groupEdges]
  | cons o0 tl =>
    simp only [groupEdges, List.head?_cons, Option.some.injEq, exists_eq_left']
    cases hd : dist cfg cur o0.frm with
    | none => simp
    | some d' =>
      simp only [List.mem_map, List.mem_filter, Prod.mk.injEq, Option.some.injEq, Bool.not_eq_true']
      constructor
      · rintro ⟨o', ⟨h1, h2⟩, h3, h4⟩
        subst h4; exact ⟨h3, h1, h2⟩
      · rintro ⟨h1, h2, h3⟩
        exact ⟨o, ⟨h2, h3⟩, h1, rfl⟩

theorem mem_applicable {cfg : Cfg} {cur : Nat} {path : List Offer} {d : Nat} {o : Offer} :
    (d, o) ∈ applicable cfg cur path ↔
      ∃ g ∈ cfg.groups, ∃ o0, g.head? = some o0 ∧ dist cfg cur o0.frm = some d ∧ o ∈ g ∧
        inPath o path = false := by
  unfold applicable
  rw [List.mem_flatMap]
  constructor
  · rintro ⟨g, hg, h⟩; exact ⟨g, hg, mem_groupEdges.1 h⟩
  · rintro ⟨g, hg, h⟩; exact ⟨g, hg, mem_groupEdges.2 h⟩

/-- What an applicable edge means when buckets are homogeneous. -/
theorem applicable_facts {cfg : Cfg} (hh : Homogeneous cfg) {cur : Nat} {path : List Offer} {d : Nat}
    {o : Offer} (h : (d, o) ∈ applicable cfg cur path) :
    Registered cfg o ∧ cfg.provides cur o.frm = true ∧ o.id ∉ path.map (·.id) ∧
      dist cfg cur o.frm = some d := by
  obtain ⟨g, hg, o0, h0, hd, hog, hin⟩ := mem_applicable.1 h
  have hf : o.frm = o0.frm := hh g hg o0 h0 o hog
  refine ⟨⟨g, hg, hog⟩, ?_, inPath_false_iff.1 hin, ?_⟩
  · rw [hf]; exact dist_some_provides hd
  · rw [hf]; exact hd

theorem applicable_of {cfg : Cfg} (hh : Homogeneous cfg) {cur : Nat} {path : List Offer} {o : Offer}
    (hr : Registered cfg o) (hp : cfg.provides cur o.frm = true) (hn : o.id ∉ path.map (·.id)) :
    ∃ d, (d, o) ∈ applicable cfg cur path := by
  obtain ⟨g, hg, hog⟩ := hr
  cases g with
  | nil => cases hog
  | cons o0 tl =>
    have hf : o.frm = o0.frm := hh _ hg o0 rfl o hog
    obtain ⟨d, hd⟩ := provides_dist (cfg := cfg) (t := cur) (p := o0.frm) (by rw [← hf]; exact hp)
    exact ⟨d, mem_applicable.2 ⟨_, hg, o0, rfl, hd, hog, inPath_false_iff.2 hn⟩⟩

/-! ## Paths the search can generate -/

/-- The outgoing edges of the node reached by `p`. -/
def kids (cfg : Cfg) (src : Nat) (p : List Offer) : List Edge := applicable cfg (endOf src p) p

/-- Paths that are pushed on the queue: built edge by edge, never through a
protocol that already provides the target. -/
inductive Reach (cfg : Cfg) (src target : Nat) : List Offer → Prop
  | nil : Reach cfg src target []
  | snoc {p : List Offer} {d : Nat} {o : Offer} : Reach cfg src target p → (d, o) ∈ kids cfg src p →
      cfg.provides o.to target = false → Reach cfg src target (p ++ [o])

/-- Candidate chains: a queued path plus one edge that arrives.  These are the
chains whose factories `_adapt` runs. -/
def Cand (cfg : Cfg) (src target : Nat) (c : List Offer) : Prop :=
  ∃ p d o, c = p ++ [o] ∧ Reach cfg src target p ∧ (d, o) ∈ kids cfg src p ∧
    cfg.provides o.to target = true

theorem Reach.snoc_inv {cfg : Cfg} {src target : Nat} {p : List Offer} {o : Offer}
    (h : Reach cfg src target (p ++ [o])) :
    Reach cfg src target p ∧ (∃ d, (d, o) ∈ kids cfg src p) ∧ cfg.provides o.to target = false := by
  generalize hq : p ++ [o] = q at h
  cases h with
  | nil => simp at hq
  | @snoc p' d o' hr hk hn =>
    have := List.append_inj' hq rfl
    obtain ⟨h1, h2⟩ := this
    simp only [List.cons.injEq, and_true] at h2
    subst h1; subst h2
    exact ⟨hr, ⟨d, hk⟩, hn⟩

theorem Reach.of_prefix {cfg : Cfg} {src target : Nat} {p : List Offer} (h : Reach cfg src target p) :
    ∀ q, q <+: p → Reach cfg src target q := by
  induction h with
  | nil => intro q hq; rw [List.prefix_nil] at hq; subst hq; exact Reach.nil
  | @snoc p d o hr hk hn ih =>
    intro q hq
    rcases List.prefix_concat_iff.1 hq with h | h
    · subst h; exact Reach.snoc hr hk hn
    · exact ih q h

theorem Reach.valid {cfg : Cfg} (hh : Homogeneous cfg) {src target : Nat} {p : List Offer}
    (h : Reach cfg src target p) : Applicable cfg src p ∧ OfferSimple p := by
  induction h with
  | nil => simp [Applicable, OfferSimple]
  | @snoc p d o hr hk hn ih =>
    obtain ⟨h1, h2, h3, _⟩ := applicable_facts hh hk
    refine ⟨(Applicable_append p [o] src).2 ⟨ih.1, h1, h2, trivial⟩, ?_⟩
    unfold OfferSimple at ih ⊢
    rw [List.map_append, List.nodup_append]
    refine ⟨ih.2, by simp, ?_⟩
    intro a ha b hb
    simp only [List.map_cons, List.map_nil, List.mem_singleton] at hb
    subst hb
    intro hab; subst hab; exact h3 ha

theorem Cand.valid {cfg : Cfg} (hh : Homogeneous cfg) {src target : Nat} {c : List Offer}
    (h : Cand cfg src target c) : ValidChain cfg src target c := by
  obtain ⟨p, d, o, rfl, hr, hk, ha⟩ := h
  obtain ⟨h1, h2, h3, _⟩ := applicable_facts hh hk
  obtain ⟨hap, hsim⟩ := hr.valid hh
  refine ⟨by simp, (Applicable_append p [o] src).2 ⟨hap, h1, h2, trivial⟩, ?_, by simpa using ha⟩
  unfold OfferSimple at hsim ⊢
  rw [List.map_append, List.nodup_append]
  refine ⟨hsim, by simp, ?_⟩
  intro a ha' b hb
  simp only [List.map_cons, List.map_nil, List.mem_singleton] at hb
  subst hb
  intro hab; subst hab; exact h3 ha'

/-- Every valid chain has a candidate chain as a prefix: cut it at the first
protocol that provides the target. -/
theorem exists_cand_prefix {cfg : Cfg} (hh : Homogeneous cfg) {src target : Nat} :
    ∀ (rest p : List Offer), Reach cfg src target p → rest ≠ [] →
      Applicable cfg (endOf src p) rest → OfferSimple (p ++ rest) →
      cfg.provides (endOf src (p ++ rest)) target = true →
      ∃ c, Cand cfg src target c ∧ c <+: p ++ rest
  | [], _, _, hne, _, _, _ => absurd rfl hne
  | o :: rest, p, hr, _, hap, hsim, harr => by
    obtain ⟨hreg, hprov, hap'⟩ := hap
    have hnin : o.id ∉ p.map (·.id) := by
      unfold OfferSimple at hsim
      rw [List.map_append, List.nodup_append] at hsim
      intro hmem
      exact hsim.2.2 _ hmem _ (by simp) rfl
    obtain ⟨d, hk⟩ := applicable_of hh (path := p) hreg hprov hnin
    by_cases ht : cfg.provides o.to target = true
    · refine ⟨p ++ [o], ⟨p, d, o, rfl, hr, hk, ht⟩, ?_⟩
      exact ⟨rest, by simp⟩
    · have ht' : cfg.provides o.to target = false := by simpa using ht
      have hr' : Reach cfg src target (p ++ [o]) := Reach.snoc hr hk ht'
      have hne' : rest ≠ [] := by
        rintro rfl
        rw [endOf_concat] at harr
        rw [harr] at ht'; cases ht'
      have heq : p ++ o :: rest = (p ++ [o]) ++ rest := by simp
      rw [heq] at hsim harr ⊢
      exact exists_cand_prefix hh rest (p ++ [o]) hr' hne' (by rw [endOf_concat]; exact hap') hsim harr

end TraitsVerif.Lemmas.Adapt
