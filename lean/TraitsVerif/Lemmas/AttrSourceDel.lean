/-
`setattr_trait`, the delete path (`value == NULL`), against `setattrTraitDel`.
-/
import TraitsVerif.Lemmas.AttrSourceSet
namespace TraitsVerif.Lemmas.AttrSource
open TraitsVerif TraitsVerif.Model.Attr TraitsVerif.Model.MiniC
open TraitsVerif.Generated

/-! ### The delete path and the whole function -/

theorem ite_pair {α β : Type} (c : Prop) [Decidable c] (a b : α) (m : β) :
    (if c then (a, m) else (b, m)) = (if c then a else b, m) := by split <;> rfl
theorem ite_int (c : Prop) [Decidable c] (a b : Int) :
    (if c then Val.int a else Val.int b) = Val.int (if c then a else b) := by split <;> rfl
theorem lor_cond (a b : Option (List Notifier)) (l1 l2 : Loc) :
    ((if nlv a l1 = Val.null then (if nlv b l2 = Val.null then (0 : Int) else 1) else 1) = 0)
      = ((a.isSome || b.isSome) = false) := by
  cases a <;> cases b <;> simp [nlv]

macro "del_exec" "[" ts:Lean.Parser.Tactic.simpLemma,* "]" : tactic =>
  `(tactic| simp [call, exec, ite_pair, ite_int, lor_cond, eval, evalArgs, bindArgs, setVar, binop_eq, binop_ne, binop, truthy, ofBool, ofInt,
      band_eq_zero, getField, setField, getGlob, callPrim, callFPtr, retPtr, retInt, withS, failS,
      AttrProg.setattr_trait, ptrv, $ts,*])

set_option maxHeartbeats 4000000 in
set_option maxRecDepth 4000 in
theorem setattr_trait_del (C : IC) (s : OSt) (dn idn : Bool) (hdn : dn = true → s.slot = none) :
    call C AttrProg.setattr_trait [.trait, .trait, .self, .name, .null] s dn idn
      = ofInt (setattrTrait C.E C.t none s) := by
  unfold setattrTrait setattrTraitDel
  cases hs : s.slot with
  | none => cases dn <;> del_exec [hs]
  | some old =>
    have hd : dn = false := by cases dn <;> simp_all
    subst hd
    cases hnn : s.noNotify
    · cases hb : (s.tn.isSome || s.on.isSome)
      · del_exec [hs, hnn, hb]
      · rcases hg : traitGetattr C.E C.t { s with slot := none, noNotify := false } with ⟨e | v, s2⟩
        · del_exec [hs, hnn, hb, hg]
        · cases hf : testFlag C.t.flags TRAIT_COMPARISON_MODE_NONE
          · by_cases hov : old = v
            · del_exec [hs, hnn, hb, hg, hf, hov]
            · cases hp : C.t.post with
              | none =>
                cases hn : hasNotifiers s.tn s.on
                · del_exec [hs, hnn, hb, hg, hf, hov, hp, postSetattr, hn]
                · rcases hc : callNotifiers C.E C.t s.tn s.on old v s2 with ⟨_ | e, s'⟩ <;>
                  del_exec [hs, hnn, hb, hg, hf, hov, hp, postSetattr, hn, hc]
              | some p =>
                rcases hps : postSetattr C.E C.t v s2 with ⟨_ | e, s3⟩
                · cases hn : hasNotifiers s.tn s.on
                  · del_exec [hs, hnn, hb, hg, hf, hov, hp, hps, hn]
                  · rcases hc : callNotifiers C.E C.t s.tn s.on old v s3 with ⟨_ | e, s'⟩ <;>
                    del_exec [hs, hnn, hb, hg, hf, hov, hp, hps, hn, hc]
                · del_exec [hs, hnn, hb, hg, hf, hov, hp, hps]
          · cases hp : C.t.post with
            | none =>
              cases hn : hasNotifiers s.tn s.on
              · del_exec [hs, hnn, hb, hg, hf, hp, postSetattr, hn]
              · rcases hc : callNotifiers C.E C.t s.tn s.on old v s2 with ⟨_ | e, s'⟩ <;>
                del_exec [hs, hnn, hb, hg, hf, hp, postSetattr, hn, hc]
            | some p =>
              rcases hps : postSetattr C.E C.t v s2 with ⟨_ | e, s3⟩
              · cases hn : hasNotifiers s.tn s.on
                · del_exec [hs, hnn, hb, hg, hf, hp, hps, hn]
                · rcases hc : callNotifiers C.E C.t s.tn s.on old v s3 with ⟨_ | e, s'⟩ <;>
                  del_exec [hs, hnn, hb, hg, hf, hp, hps, hn, hc]
              · del_exec [hs, hnn, hb, hg, hf, hp, hps]
    · del_exec [hs, hnn, HASTRAITS_NO_NOTIFY]

end TraitsVerif.Lemmas.AttrSource
