/-
Source tie of the Python-level validate methods (C03_py_is_source): symbolic evaluation
(`pyv_eval`) of the translated methods of trait_types.py (Generated/PyValidators.lean,
language and interpreter Model/PyVSrc.lean, table Model/PyVRun.lean) and, per trait type,
the theorem that the interpretation is the arm of `pyValidate`.
-/
import TraitsVerif.Model.PyVRun
import TraitsVerif.Lemmas.ValAgree
namespace TraitsVerif.Model.PyVSrc
open TraitsVerif TraitsVerif.Py.Value TraitsVerif.Model.Val TraitsVerif.Generated.PyValidators

section cfg
variable (lo hi : Option F) (ilo ihi : Option Int) (exLo exHi an : Bool) (vals keys : List Val) (cls : Ty) (mode : Nat) (dflt : Val)
theorem cfg_rf_low : selfCfg (.rangeF lo hi exLo exHi) "_low" = optFloat lo := rfl
theorem cfg_rf_high : selfCfg (.rangeF lo hi exLo exHi) "_high" = optFloat hi := rfl
theorem cfg_rf_el : selfCfg (.rangeF lo hi exLo exHi) "_exclude_low" = .bool exLo := rfl
theorem cfg_rf_eh : selfCfg (.rangeF lo hi exLo exHi) "_exclude_high" = .bool exHi := rfl
theorem cfg_rf_v : selfCfg (.rangeF lo hi exLo exHi) "_validate" = .str "float_validate" := rfl
theorem cfg_ri_low : selfCfg (.rangeI ilo ihi exLo exHi) "_low" = optInt ilo := rfl
theorem cfg_ri_high : selfCfg (.rangeI ilo ihi exLo exHi) "_high" = optInt ihi := rfl
theorem cfg_ri_el : selfCfg (.rangeI ilo ihi exLo exHi) "_exclude_low" = .bool exLo := rfl
theorem cfg_ri_eh : selfCfg (.rangeI ilo ihi exLo exHi) "_exclude_high" = .bool exHi := rfl
theorem cfg_ri_v : selfCfg (.rangeI ilo ihi exLo exHi) "_validate" = .str "int_validate" := rfl
theorem cfg_enum : selfCfg (.enum vals) "values" = .seq vals := rfl
theorem cfg_map : selfCfg (.map keys vals) "map" = .dict keys := rfl
theorem cfg_callable : selfCfg (.callable an) "fast_validate" = .tup [.int 22, .bool an] := rfl
theorem cfg_in_an : selfCfg (.instance cls an mode dflt) "_allow_none" = .bool an := rfl
theorem cfg_in_klass : selfCfg (.instance cls an mode dflt) "klass" = .ty cls := rfl
theorem cfg_in_adapt : selfCfg (.instance cls an mode dflt) "adapt" = .int mode := rfl
theorem cfg_in_dv : selfCfg (.instance cls an mode dflt) "default_value" = .val dflt := rfl
theorem cfg_in_dvt : selfCfg (.instance cls an mode dflt) "default_value_type" = .int 0 := rfl
theorem cfg_ty_an : selfCfg (.type_ cls an) "_allow_none" = .bool an := rfl
theorem cfg_ty_klass : selfCfg (.type_ cls an) "klass" = .ty cls := rfl
end cfg

macro "pyv_eval" : tactic => `(tactic|
  simp [srcPy, pyMethodOf, runMethod, exec, handle, evalE, evalArgs, builtin, pvIn, ofExcept,
    specMatches, excMatches, globOf, attrOf, pvIs, pvLt, pvLe, pvEq, selfCfg, selfCfgE, optFloat, optInt, PV.truthy, toRes])

macro "cfg_simp" : tactic => `(tactic|
  simp only [cfg_rf_low, cfg_rf_high, cfg_rf_el, cfg_rf_eh, cfg_rf_v, cfg_ri_low, cfg_ri_high, cfg_ri_el, cfg_ri_eh, cfg_ri_v,
    cfg_enum, cfg_map, cfg_callable, cfg_in_an, cfg_in_klass, cfg_in_adapt, cfg_in_dv, cfg_in_dvt, cfg_ty_an, cfg_ty_klass])

theorem runL_succ (E : Env) (cfg : String → PV) (n : Nat) (name : String) (args : List PV) :
    runL E cfg (n + 1) name args =
      match table.lookup name with
      | some m => runMethod ⟨E, cfg, runL E cfg n⟩ m args
      | none => .stuck := rfl

set_option maxHeartbeats 800000
variable (E : Env)

theorem py_validate_int (cfg : String → PV) (n : Nat) (v : Val) :
    runL E cfg (n + 1) "_validate_int" [.val v] =
      (match pyValidateInt v with | .ok w => .ret (.val w) | .error e => .exc (.ex e)) := by
  have hl : table.lookup "_validate_int" = some fn__validate_int := by rfl
  rw [runL_succ]
  simp only [hl, fn__validate_int]
  pyv_eval
  rcases v with a | ⟨s, vs⟩ | vs
  · cases a <;> simp [pyValidateInt, Val.exactTy]
    all_goals (try (split <;> simp_all))
    all_goals (try simp [index])
  · simp [pyValidateInt, Val.exactTy, index]
  · simp [pyValidateInt, Val.exactTy, index]

macro "py_start" m:ident l:term : tactic => `(tactic|
  (have hl : table.lookup $l = some $m := by rfl
   simp only [srcPy, pyMethodOf]
   rw [runL_succ]
   simp only [hl, $m:ident]))

theorem py_int (v : Val) : srcPy E .int v = some (pyValidate E .int v) := by
  py_start m_BaseInt_validate "BaseInt.validate"
  pyv_eval
  simp only [callOut, py_validate_int, pyValidate]
  cases h : pyValidateInt v with
  | ok w => pyv_eval
  | error e => cases e <;> simp [excMatches, Exc.name, specMatches, toRes]

theorem py_float (v : Val) : srcPy E .float v = some (pyValidate E .float v) := by
  py_start m_BaseFloat_validate "BaseFloat.validate"
  pyv_eval
  simp only [pyValidate]
  cases h : validateFloat v with
  | ok w => simp
  | error e => cases e <;> simp [excMatches, Exc.name]

theorem py_complex (v : Val) : srcPy E .complex v = some (pyValidate E .complex v) := by
  py_start m_BaseComplex_validate "BaseComplex.validate"
  pyv_eval
  simp only [pyValidate]
  cases h : validateComplexNumber v with
  | ok w => simp
  | error e => cases e <;> simp [excMatches, Exc.name]

theorem py_str (v : Val) : srcPy E .str v = some (pyValidate E .str v) := by
  py_start m_BaseStr_validate "BaseStr.validate"
  pyv_eval
  simp only [pyValidate]
  cases Val.isInst .str v <;> simp

theorem py_bytes (v : Val) : srcPy E .bytes v = some (pyValidate E .bytes v) := by
  py_start m_BaseBytes_validate "BaseBytes.validate"
  pyv_eval
  simp only [pyValidate]
  cases Val.isInst .bytes v <;> simp

theorem py_bool (hE : CastIdem E) (v : Val) : srcPy E .bool v = some (pyValidate E .bool v) := by
  py_start m_BaseBool_validate "BaseBool.validate"
  pyv_eval
  simp only [pyValidate]
  rcases v with a | ⟨s, vs⟩ | vs
  · cases a <;> simp [Val.isInst]
    case bool b => simp [hE .bool (.atom (.bool b)) rfl]
    case npBool b => cases E.cast .bool (.atom (.npBool b)) <;> simp
  · simp [Val.isInst]
  · simp [Val.isInst]

theorem py_cint (v : Val) : srcPy E .cint v = some (pyValidate E .cint v) := by
  py_start m_BaseCInt_validate "BaseCInt.validate"
  pyv_eval
  simp only [pyValidate, pyCastNumeric]
  cases h : E.cast .int v with
  | ok w => simp
  | error e => cases e <;> simp [excMatches, Exc.name]

theorem py_cfloat (v : Val) : srcPy E .cfloat v = some (pyValidate E .cfloat v) := by
  py_start m_BaseCFloat_validate "BaseCFloat.validate"
  pyv_eval
  simp only [pyValidate, pyCastNumeric]
  cases h : E.cast .float v with
  | ok w => simp
  | error e => cases e <;> simp [excMatches, Exc.name]

theorem py_ccomplex (v : Val) : srcPy E .ccomplex v = some (pyValidate E .ccomplex v) := by
  py_start m_BaseCComplex_validate "BaseCComplex.validate"
  pyv_eval
  simp only [pyValidate, pyCastNumeric]
  cases h : E.cast .complex v with
  | ok w => simp
  | error e => cases e <;> simp [excMatches, Exc.name]

theorem py_cstr (v : Val) : srcPy E .cstr v = some (pyValidate E .cstr v) := by
  py_start m_BaseCStr_validate "BaseCStr.validate"
  pyv_eval
  simp only [pyValidate, pyCastAny]
  cases h : E.cast .str v <;> simp

theorem py_cbytes (v : Val) : srcPy E .cbytes v = some (pyValidate E .cbytes v) := by
  py_start m_BaseCBytes_validate "BaseCBytes.validate"
  pyv_eval
  simp only [pyValidate, pyCastAny]
  cases h : E.cast .bytes v <;> simp

theorem py_cbool (v : Val) : srcPy E .cbool v = some (pyValidate E .cbool v) := by
  py_start m_BaseCBool_validate "BaseCBool.validate"
  pyv_eval
  simp only [pyValidate, pyCastAny]
  cases h : E.cast .bool v <;> simp

theorem py_enum (vals : List Val) (v : Val) : srcPy E (.enum vals) v = some (pyValidate E (.enum vals) v) := by
  py_start m_BaseEnum_validate "BaseEnum.validate"
  pyv_eval
  simp only [pyValidate, pySafeEnumValidate]
  cases seqContains vals v <;> simp

theorem py_map (keys vals : List Val) (v : Val) :
    srcPy E (.map keys vals) v = some (pyValidate E (.map keys vals) v) := by
  py_start m_Map_validate "Map.validate"
  pyv_eval
  simp only [pyValidate, pyMapValidate]
  cases h : dictFind keys v with
  | ok o => cases o <;> simp
  | error e => cases e <;> simp [excMatches, Exc.name]

theorem isNone_iff' (v : Val) : (v = Val.none) ↔ v.isNone = true := by
  rcases v with a | _ | _
  · cases a <;> simp [Val.isNone]
  · simp [Val.isNone]
  · simp [Val.isNone]

theorem py_noneTrait (v : Val) : srcPy E .noneTrait v = some (pyValidate E .noneTrait v) := by
  py_start m__NoneTrait_validate "_NoneTrait.validate"
  pyv_eval
  simp only [pyValidate, isNone_iff']
  cases v.isNone <;> simp

theorem py_this (an : Bool) (v : Val) : srcPy E (.this an) v = some (pyValidate E (.this an) v) := by
  have hl1 : table.lookup "This.validate" = some m_This_validate := by rfl
  have hl2 : table.lookup "This.validate_none" = some m_This_validate_none := by rfl
  cases an
  · simp only [srcPy, pyMethodOf, Bool.false_eq_true, if_false]
    rw [runL_succ]
    simp only [hl1, m_This_validate]
    pyv_eval
    simp only [pyValidate]
    cases Val.isInst (.user E.selfCls) v <;> simp
  · simp only [srcPy, pyMethodOf, if_true]
    rw [runL_succ]
    simp only [hl2, m_This_validate_none]
    pyv_eval
    simp only [pyValidate, isNone_iff']
    cases Val.isInst (.user E.selfCls) v <;> cases v.isNone <;> simp

/-! ## Assembly -/

/-- Trait types whose Python `validate` method is tied to its source text here. -/
def pyCovered : TraitType → Bool
  | .noFast t => pyCovered t
  | .int | .float | .complex | .str | .bytes | .bool
  | .cint | .cfloat | .ccomplex | .cstr | .cbytes | .cbool
  | .enum _ | .map .. | .noneTrait | .this _ => true
  | _ => false

theorem selfCfgE_noFast (t : TraitType) : selfCfgE E (.noFast t) = selfCfgE E t := by
  funext a; simp [selfCfgE]

theorem srcPy_noFast (t : TraitType) (v : Val) : srcPy E (.noFast t) v = srcPy E t v := by
  simp only [srcPy, pyMethodOf, selfCfgE_noFast]

theorem srcPy_eq (hE : CastIdem E) : ∀ (t : TraitType) (v : Val), pyCovered t = true →
    srcPy E t v = some (pyValidate E t v)
  | .noFast t, v, h => by
    rw [srcPy_noFast, srcPy_eq hE t v (by simpa [pyCovered] using h)]; simp [pyValidate]
  | .int, v, _ => py_int E v
  | .float, v, _ => py_float E v
  | .complex, v, _ => py_complex E v
  | .str, v, _ => py_str E v
  | .bytes, v, _ => py_bytes E v
  | .bool, v, _ => py_bool E hE v
  | .cint, v, _ => py_cint E v
  | .cfloat, v, _ => py_cfloat E v
  | .ccomplex, v, _ => py_ccomplex E v
  | .cstr, v, _ => py_cstr E v
  | .cbytes, v, _ => py_cbytes E v
  | .cbool, v, _ => py_cbool E v
  | .enum vals, v, _ => py_enum E vals v
  | .map keys vals, v, _ => py_map E keys vals v
  | .noneTrait, v, _ => py_noneTrait E v
  | .this an, v, _ => py_this E an v
  | .any, _, h | .rangeF .., _, h | .rangeI .., _, h | .tuple _, _, h | .baseTuple _, _, h
  | .validatedTuple .., _, h | .tupleAny, _, h | .instance .., _, h | .type_ .., _, h | .callable _, _, h
  | .module, _, h | .either .., _, h | .union _, _, h | .string .., _, h | .prefixList _, _, h
  | .prefixMap .., _, h | .array .., _, h | .coerceH _, _, h | .castH _, _, h | .instanceH .., _, h
  | .functionH _, _, h | .enumH _, _, h | .mapH .., _, h | .compoundH _, _, h => by simp [pyCovered] at h

end TraitsVerif.Model.PyVSrc
