/-
The hand-written `sync_trait` of `Model/SyncLive.lean` (`linkOneS`, `linkS`,
`unlinkOneS`, `unlinkS`, `isListTrait`) is the interpretation of the programs
generated from the source text (`Generated/SyncLink.lean`).
-/
import TraitsVerif.Model.SyncLive
import TraitsVerif.Generated.SyncLink
namespace TraitsVerif.Model.SyncLive
open TraitsVerif TraitsVerif.Py TraitsVerif.Model TraitsVerif.Model.Sync TraitsVerif.Model.PyLSync
  TraitsVerif.Model.PyLLink

variable {α : Type}

def sigL : KWorld α × Option Exc → KWorld α × LSig
  | (k, none) => (k, .norm)
  | (k, some e) => (k, .exc e)

theorem interpL_seq (c : LCtx α) (a b : LStmt) (k : KWorld α) :
    interpL c (.seq a b) k = (match interpL c a k with | (k1, .norm) => interpL c b k1 | r => r) := rfl

theorem interpL_ite (c : LCtx α) (x : LCond) (t e : LStmt) (k : KWorld α) :
    interpL c (.ite x t e) k = if evalL c k x then interpL c t k else interpL c e k := rfl

theorem interpL_skip (c : LCtx α) (k : KWorld α) : interpL c .skip k = (k, .norm) := rfl

theorem interpL_act (c : LCtx α) (a : LAct) (k : KWorld α) : interpL c (.act a) k = doL c k a := rfl

/-- The add path, one level. -/
theorem add_path [DecidableEq α] (E : Sync.Env α) (c : LCtx α) (hI : c.isList = E.isList) (hc : c.call = recB E)
    (hr : c.remove = false) (k : KWorld α) :
    interpL c Generated.SyncLink.syncTrait k =
      match linkOneS E k c.p c.q with
      | (k1, some e) => (k1, .exc e)
      | (k1, none) => if c.both then sigL (c.rev false k1) else (k1, .norm) := by
  unfold Generated.SyncLink.syncTrait linkOneS
  by_cases he : (⟨c.p, c.q⟩ : Edge) ∈ k.w.edges
  · by_cases hb : c.both = true
    · simp only [interpL, evalL, doL, hr, he, hb, sigL, if_true, if_false, Bool.false_eq_true, decide_true,
        Bool.not_true]
      cases c.rev false k with | mk k' ex => cases ex <;> rfl
    · simp [interpL, evalL, hr, he, hb]
  · simp only [he, if_false]
    generalize hk1 : (if (k.w.partners c.p).isEmpty then hookM k c.p else k) = k1
    have hedges1 : k1.w.edges = k.w.edges := by
      subst hk1; unfold hookM; split <;> (try split) <;> rfl
    generalize hk2 : (if E.isList c.p && E.isList c.q then hookI k1 c.p else k1) = k2
    have hedges2 : k2.w.edges = k.w.edges := by
      subst hk2; unfold hookI setHooked; split <;> (try split) <;> simp [hedges1]
    have hstep : interpL c (.seq (.ite .tableEmpty (.act .hookModified) .skip)
        (.seq (.ite .isList (.act .hookItems) .skip) (.seq (.act .setKey) (.act .assignPartner)))) k =
        (match recB E (setEdges k2 (k2.w.edges ++ [(⟨c.p, c.q⟩ : Edge)])) c.q
            (.assign ((setEdges k2 (k2.w.edges ++ [(⟨c.p, c.q⟩ : Edge)])).w.val c.p)) with
          | .ok (k4, _) => (k4, LSig.norm)
          | .error e => (setEdges k2 (k2.w.edges ++ [(⟨c.p, c.q⟩ : Edge)]), LSig.exc e)) := by
      subst hk2 hk1
      by_cases hemp : (k.w.partners c.p).isEmpty = true <;> by_cases hl : (E.isList c.p && E.isList c.q) = true <;>
        simp [interpL, evalL, doL, hI, hc, hemp, hl, hookM, hookI] <;>
        (first
          | rfl
          | (split <;> simp_all [interpL, evalL, doL, hookM, hookI]))
    rw [interpL_seq, interpL_ite]
    simp only [evalL, hr, Bool.false_eq_true, if_false, interpL_skip]
    rw [interpL_seq, interpL_ite]
    simp only [evalL, he, decide_false, Bool.not_false, if_true]
    rw [hstep]
    simp only [interpL_ite, evalL, interpL_skip, interpL_act]
    cases hrec : recB E (setEdges k2 (k2.w.edges ++ [(⟨c.p, c.q⟩ : Edge)])) c.q
        (.assign ((setEdges k2 (k2.w.edges ++ [(⟨c.p, c.q⟩ : Edge)])).w.val c.p)) with
    | error e => simp
    | ok x =>
      obtain ⟨k4, r⟩ := x
      by_cases hb : c.both = true
      · simp only [hb, if_true, doL, sigL]
        cases c.rev false k4 with | mk k' ex => cases ex <;> rfl
      · simp [hb]

theorem inner_add [DecidableEq α] (E : Sync.Env α) (p q : Pair) (k : KWorld α) :
    finL (interpL (innerCtx E.isList (recB E) p q false) Generated.SyncLink.syncTrait k) = linkOneS E k q p := by
  rw [add_path E (innerCtx E.isList (recB E) p q false) rfl rfl rfl k]
  simp only [innerCtx]
  cases linkOneS E k q p with
  | mk k1 ex => cases ex <;> simp [finL]

/-- `sync_trait(…, remove=False)` (hand-written) is the interpretation of its source text. -/
theorem linkS_is_source [DecidableEq α] (E : Sync.Env α) (k : KWorld α) (p q : Pair) (both : Bool) :
    linkS E k p q both = runLink E.isList (recB E) Generated.SyncLink.syncTrait k p q both false := by
  unfold runLink linkS
  rw [add_path E _ rfl rfl rfl k]
  simp only []
  cases linkOneS E k p q with
  | mk k1 ex =>
    cases ex with
    | some e => simp [finL]
    | none =>
      cases both
      · simp [finL]
      · simp only [if_true, inner_add]
        cases linkOneS E k1 q p with
        | mk k2 ex2 => cases ex2 <;> simp [finL, sigL]

/-- `_is_list_trait` (hand-written) is the interpretation of its source text; it
never raises (`handler.default_value_type` is read behind `handler is not None`). -/
theorem isListTrait_is_source (d : TraitDesc) :
    evalIsList d Generated.SyncLink.isListTrait = some (isListTrait d) := by
  unfold Generated.SyncLink.isListTrait isListTrait
  cases d with
  | mk h c =>
    cases h with
    | none => rfl
    | some v => cases v <;> rfl

end TraitsVerif.Model.SyncLive
