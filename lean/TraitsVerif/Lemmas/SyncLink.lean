/-
The hand-written `sync_trait` of `Model/SyncLive.lean` (`linkOneS`, `linkS`,
`unlinkOneS`, `unlinkS`, `isListTrait`) is the interpretation of the programs
generated from the source text (`Generated/SyncLink.lean`).
-/
import TraitsVerif.Model.SyncLive
import TraitsVerif.Generated.SyncLink
import TraitsVerif.Lemmas.SyncLive
import TraitsVerif.Lemmas.SyncShapes
namespace TraitsVerif.Model.SyncLive
open TraitsVerif TraitsVerif.Py TraitsVerif.Model TraitsVerif.Model.Sync TraitsVerif.Model.PyLSync
  TraitsVerif.Model.PyLLink

variable {α : Type}

def sigL : KWorld α × Option Exc → KWorld α × LSig
  | (k, none) => (k, .norm)
  | (k, some e) => (k, .exc e)

theorem interpL_seq (c : LCtx α) (a b : LStmt) (k : KWorld α) :
    interpL c (.seq a b) k = (match interpL c a k with | (k1, .norm) => interpL c b k1 | r => r) := rfl

theorem interpL_ite (c : LCtx α) (x : LCond) (t e : LStmt) (k : KWorld α) :
    interpL c (.ite x t e) k = if evalL c k x then interpL c t k else interpL c e k := rfl

theorem interpL_skip (c : LCtx α) (k : KWorld α) : interpL c .skip k = (k, .norm) := rfl

theorem interpL_act (c : LCtx α) (a : LAct) (k : KWorld α) : interpL c (.act a) k = doL c k a := rfl

/-- The add path, one level. -/
theorem add_path [DecidableEq α] (E : Sync.Env α) (c : LCtx α) (hI : c.isList = E.isList) (hc : c.call = recB E)
    (hr : c.remove = false) (k : KWorld α) :
    interpL c Generated.SyncLink.syncTrait k =
      match linkOneS E k c.p c.q with
      | (k1, some e) => (k1, .exc e)
      | (k1, none) => if c.both then sigL (c.rev false k1) else (k1, .norm) := by
  unfold Generated.SyncLink.syncTrait linkOneS
  by_cases he : (⟨c.p, c.q⟩ : Edge) ∈ k.w.edges
  · by_cases hb : c.both = true
    · simp only [interpL, evalL, doL, hr, he, hb, sigL, if_true, if_false, Bool.false_eq_true, decide_true,
        Bool.not_true]
      cases c.rev false k with | mk k' ex => cases ex <;> rfl
    · simp [interpL, evalL, hr, he, hb]
  · simp only [he, if_false]
    generalize hk1 : (if (k.w.partners c.p).isEmpty then hookM k c.p else k) = k1
    have hedges1 : k1.w.edges = k.w.edges := by
      subst hk1; unfold hookM; split <;> (try split) <;> rfl
    generalize hk2 : (if E.isList c.p && E.isList c.q then hookI k1 c.p else k1) = k2
    have hedges2 : k2.w.edges = k.w.edges := by
      subst hk2; unfold hookI setHooked; split <;> (try split) <;> simp [hedges1]
    have hstep : interpL c (.seq (.ite .tableEmpty (.act .hookModified) .skip)
        (.seq (.ite .isList (.act .hookItems) .skip) (.seq (.act .setKey) (.act .assignPartner)))) k =
        (match recB E (setEdges k2 (k2.w.edges ++ [(⟨c.p, c.q⟩ : Edge)])) c.q
            (.assign ((setEdges k2 (k2.w.edges ++ [(⟨c.p, c.q⟩ : Edge)])).w.val c.p)) with
          | .ok (k4, _) => (k4, LSig.norm)
          | .error e => (setEdges k2 (k2.w.edges ++ [(⟨c.p, c.q⟩ : Edge)]), LSig.exc e)) := by
      subst hk2 hk1
      by_cases hemp : (k.w.partners c.p).isEmpty = true <;> by_cases hl : (E.isList c.p && E.isList c.q) = true <;>
        simp [interpL, evalL, doL, hI, hc, hemp, hl, hookM, hookI] <;>
        (first
          | rfl
          | (split <;> simp_all [interpL, evalL, doL, hookM, hookI]))
    rw [interpL_seq, interpL_ite]
    simp only [evalL, hr, Bool.false_eq_true, if_false, interpL_skip]
    rw [interpL_seq, interpL_ite]
    simp only [evalL, he, decide_false, Bool.not_false, if_true]
    rw [hstep]
    simp only [interpL_ite, evalL, interpL_skip, interpL_act]
    cases hrec : recB E (setEdges k2 (k2.w.edges ++ [(⟨c.p, c.q⟩ : Edge)])) c.q
        (.assign ((setEdges k2 (k2.w.edges ++ [(⟨c.p, c.q⟩ : Edge)])).w.val c.p)) with
    | error e => simp
    | ok x =>
      obtain ⟨k4, r⟩ := x
      by_cases hb : c.both = true
      · simp only [hb, if_true, doL, sigL]
        cases c.rev false k4 with | mk k' ex => cases ex <;> rfl
      · simp [hb]

theorem inner_add [DecidableEq α] (E : Sync.Env α) (p q : Pair) (k : KWorld α) :
    finL (interpL (innerCtx E.isList (recB E) p q false) Generated.SyncLink.syncTrait k) = linkOneS E k q p := by
  rw [add_path E (innerCtx E.isList (recB E) p q false) rfl rfl rfl k]
  simp only [innerCtx]
  cases linkOneS E k q p with
  | mk k1 ex => cases ex <;> simp [finL]

/-- `sync_trait(…, remove=False)` (hand-written) is the interpretation of its source text. -/
theorem linkS_is_source [DecidableEq α] (E : Sync.Env α) (k : KWorld α) (p q : Pair) (both : Bool) :
    linkS E k p q both = runLink E.isList (recB E) Generated.SyncLink.syncTrait k p q both false := by
  unfold runLink linkS
  rw [add_path E _ rfl rfl rfl k]
  simp only []
  cases linkOneS E k p q with
  | mk k1 ex =>
    cases ex with
    | some e => simp [finL]
    | none =>
      cases both
      · simp [finL]
      · simp only [if_true, inner_add]
        cases linkOneS E k1 q p with
        | mk k2 ex2 => cases ex2 <;> simp [finL, sigL]

/-- The table part of the remove path. -/
theorem rem_table (E : Sync.Env α) (c : LCtx α) (hI : c.isList = E.isList) (k : KWorld α) :
    interpL c (.ite .tableExists (.ite .keyInTable (.seq (.act .delKey)
      (.seq (.ite .tableEmpty (.seq (.act .delTable) (.act .unhookModified)) .skip)
        (.ite (.and .isList (.not .anyListPartner)) (.act .unhookItems) .skip))) .skip) .skip) k =
      (unlinkOneS E k c.p c.q, .norm) := by
  unfold unlinkOneS
  rw [interpL_ite]
  by_cases hemp : (k.w.partners c.p).isEmpty = true
  · simp only [evalL, hemp, Bool.not_true, Bool.false_eq_true, if_false, if_true, interpL_skip]
  · simp only [evalL, hemp, Bool.not_false, if_true, if_false]
    rw [interpL_ite]
    by_cases he : (⟨c.p, c.q⟩ : Edge) ∈ k.w.edges
    · simp only [evalL, he, decide_true, if_true]
      rw [interpL_seq, interpL_act]
      simp only [doL, he, if_true]
      generalize setEdges k (k.w.edges.filter (fun e => e ≠ (⟨c.p, c.q⟩ : Edge))) = k1
      rw [interpL_seq, interpL_ite]
      have hlast : ∀ k2 : KWorld α, interpL c (.ite (.and .isList (.not .anyListPartner)) (.act .unhookItems) .skip) k2 =
          (if E.isList c.p && E.isList c.q && !(listPartnerLeft E k2 c.p)
            then setHooked k2 (k2.w.hooked.filter (· ≠ c.p)) else k2, .norm) := by
        intro k2
        rw [interpL_ite]
        simp only [evalL, hI, listPartnerLeft]
        split <;> rename_i hc <;> simp only [interpL_act, interpL_skip, doL, hc, if_true, if_false, Bool.false_eq_true]
      by_cases hemp2 : (k1.w.partners c.p).isEmpty = true
      · simp only [evalL, hemp2, if_true]
        rw [interpL_seq, interpL_act]
        simp only [doL, interpL_act]
        exact hlast _
      · simp only [evalL, hemp2, if_false, interpL_skip]
        exact hlast _
    · simp only [evalL, he, decide_false, Bool.false_eq_true, if_false, interpL_skip]

/-- The remove path, one level. -/
theorem rem_path (E : Sync.Env α) (c : LCtx α) (hI : c.isList = E.isList) (hr : c.remove = true) (k : KWorld α) :
    interpL c Generated.SyncLink.syncTrait k =
      if c.both then
        (match c.rev true (unlinkOneS E k c.p c.q) with
         | (k2, none) => (k2, .ret)
         | (k2, some e) => (k2, .exc e))
      else (unlinkOneS E k c.p c.q, .ret) := by
  unfold Generated.SyncLink.syncTrait
  rw [interpL_seq, interpL_ite]
  simp only [evalL, hr, if_true]
  rw [interpL_seq, rem_table E c hI k]
  simp only []
  rw [interpL_seq, interpL_ite]
  by_cases hb : c.both = true
  · simp only [evalL, hb, if_true, interpL_act, doL]
    cases c.rev true (unlinkOneS E k c.p c.q) with
    | mk k2 ex => cases ex <;> rfl
  · simp only [evalL, hb, if_false, interpL_skip]
    rfl

theorem inner_rem (E : Sync.Env α) (call : Rec α) (p q : Pair) (k : KWorld α) :
    finL (interpL (innerCtx E.isList call p q true) Generated.SyncLink.syncTrait k) = (unlinkOneS E k q p, none) := by
  rw [rem_path E (innerCtx E.isList call p q true) rfl rfl k]
  simp [innerCtx, finL]

/-- `sync_trait(…, remove=True)` (hand-written) is the interpretation of its source text. -/
theorem unlinkS_is_source (E : Sync.Env α) (call : Rec α) (k : KWorld α) (p q : Pair) (both : Bool) :
    (unlinkS E k p q both, (none : Option Exc)) =
      runLink E.isList call Generated.SyncLink.syncTrait k p q both true := by
  unfold runLink unlinkS
  rw [rem_path E _ rfl rfl k]
  cases both
  · simp [finL]
  · simp only [if_true, inner_rem]
    simp [finL]

/-- `_is_list_trait` (hand-written) is the interpretation of its source text; it
never raises (`handler.default_value_type` is read behind `handler is not None`). -/
theorem isListTrait_is_source (d : TraitDesc) :
    evalIsList d Generated.SyncLink.isListTrait = some (isListTrait d) := by
  unfold Generated.SyncLink.isListTrait isListTrait
  cases d with
  | mk h c =>
    cases h with
    | none => rfl
    | some v => cases v <;> rfl

/-! ### The source-shaped functions are `Model.Sync`'s on quiet states -/

theorem assignK_w [DecidableEq α] (E : Sync.Env α) (k : KWorld α) (p : Pair) (v : AVal α) (hq : Quiet k) :
    (assignK E k p v).world = { k with w := (k.w.assign E p v).world } ∧
    (assignK E k p v).exc = (k.w.assign E p v).exc ∧ (assignK E k p v).ret = (k.w.assign E p v).ret := by
  unfold assignK World.assign
  rw [cascadeK_assign E _ k p v hq]
  cases cascade (applyAssign E) k.w.budget k.w p v with
  | error e => exact ⟨rfl, rfl, rfl⟩
  | ok x => obtain ⟨w', r⟩ := x; exact ⟨rfl, rfl, rfl⟩

theorem mutateK_w [DecidableEq α] (E : Sync.Env α) (k : KWorld α) (p : Pair) (op : Op α) (hq : Quiet k) :
    (mutateK E k p op).world = { k with w := (k.w.mutate E p op).world } ∧
    (mutateK E k p op).exc = (k.w.mutate E p op).exc ∧ (mutateK E k p op).ret = (k.w.mutate E p op).ret := by
  unfold mutateK World.mutate
  rw [cascadeK_mutate E _ k p op hq]
  cases cascade (applyMutate E) k.w.budget k.w p op with
  | error e => exact ⟨rfl, rfl, rfl⟩
  | ok x => obtain ⟨w', r⟩ := x; exact ⟨rfl, rfl, rfl⟩

/-- The tables after the registration half of `linkOneS` are `World.register`'s. -/
theorem register_w (E : Sync.Env α) (k : KWorld α) (p q : Pair) :
    (setEdges (if E.isList p && E.isList q then hookI (if (k.w.partners p).isEmpty then hookM k p else k) p
        else (if (k.w.partners p).isEmpty then hookM k p else k))
      ((if E.isList p && E.isList q then hookI (if (k.w.partners p).isEmpty then hookM k p else k) p
        else (if (k.w.partners p).isEmpty then hookM k p else k)).w.edges ++ [(⟨p, q⟩ : Edge)])).w =
      k.w.register E p q := by
  unfold World.register hookI hookM setEdges setHooked
  by_cases hl : (E.isList p && E.isList q) = true <;> by_cases hm : (k.w.partners p).isEmpty = true <;>
    by_cases hh : p ∈ k.w.hooked <;> by_cases hM : p ∈ k.hookedM <;> simp [hl, hm, hh, hM]

/-- One direction of the registration: `linkOneS` is `World.linkOne`. -/
theorem linkOneS_w [DecidableEq α] (E : Sync.Env α) (k : KWorld α) (p q : Pair) (hq : Quiet k) (hL : k.w.locked = [])
    (hd : q.1 ∉ k.dead) :
    (linkOneS E k p q).1.w = (k.w.linkOne E p q).world ∧ (linkOneS E k p q).2 = (k.w.linkOne E p q).exc ∧
    Quiet (linkOneS E k p q).1 ∧ (linkOneS E k p q).1.dead = k.dead := by
  unfold linkOneS World.linkOne
  by_cases he : (⟨p, q⟩ : Edge) ∈ k.w.edges
  · rw [if_pos he, if_pos he]; exact ⟨rfl, rfl, hq, rfl⟩
  · rw [if_neg he, if_neg he]
    simp only []
    have hreg := register_w E k p q
    generalize hk3 : setEdges _ _ = k3 at hreg
    have hdoom : k3.doom = k.doom ∧ k3.dead = k.dead := by
      subst hk3; unfold setEdges hookI hookM setHooked
      constructor <;> (split <;> (try split) <;> (try split) <;> (try split) <;> rfl)
    have hq3 : Quiet k3 := by
      refine ⟨hdoom.1.trans hq.1, ?_, ?_⟩
      · intro e hm
        rw [hreg] at hm
        rw [hdoom.2]
        simp only [World.register, List.mem_append, List.mem_singleton] at hm
        rcases hm with hm | rfl
        · exact hq.2.1 e hm
        · exact hd
      · rw [hreg]
        simp only [World.register]
        exact List.nodup_append.mpr ⟨hq.2.2, by simp, fun a ha b hb => by
          simp only [List.mem_singleton] at hb; subst hb; exact fun h => he (h ▸ ha)⟩
    have hval : k3.w.val p = k.w.val p := by rw [hreg]; rfl
    unfold recB World.assign
    rw [cascadeK_assign E _ k3 q _ hq3, hreg]
    simp only [show (World.register E k.w p q).val p = k.w.val p from rfl]
    cases hc : cascade (applyAssign E) (k.w.register E p q).budget (k.w.register E p q) q (k.w.val p) with
    | error e => exact ⟨hreg, rfl, hq3, hdoom.2⟩
    | ok x =>
      obtain ⟨w', r⟩ := x
      have hst := cascade_frame (local_assign E) _ _ q _ w' r (by simp [World.register, hL]) hc
      refine ⟨rfl, rfl, ?_, hdoom.2⟩
      exact hq3.of_edges w' (by rw [hst.1, hreg])

theorem link_some [DecidableEq α] (E : Sync.Env α) (w : World α) (p q : Pair) (b : Bool) (e : Exc)
    (h : (w.linkOne E p q).exc = some e) : w.link E p q b = w.linkOne E p q := by
  unfold World.link; simp [h]

theorem link_none [DecidableEq α] (E : Sync.Env α) (w : World α) (p q : Pair) (b : Bool)
    (h : (w.linkOne E p q).exc = none) :
    w.link E p q b = if b then (w.linkOne E p q).world.linkOne E q p else w.linkOne E p q := by
  unfold World.link; simp [h]

theorem linkS_w [DecidableEq α] (E : Sync.Env α) (k : KWorld α) (p q : Pair) (b : Bool) (hq : Quiet k)
    (hL : k.w.locked = []) (hdp : p.1 ∉ k.dead) (hdq : q.1 ∉ k.dead) :
    (linkS E k p q b).1.w = (k.w.link E p q b).world ∧ (linkS E k p q b).2 = (k.w.link E p q b).exc ∧
    Quiet (linkS E k p q b).1 := by
  obtain ⟨h1, h2, h3, h4⟩ := linkOneS_w E k p q hq hL hdq
  unfold linkS
  cases hl : linkOneS E k p q with
  | mk k1 ex =>
    rw [hl] at h1 h2 h3 h4
    simp only at h1 h2 h3 h4
    cases ex with
    | some e =>
      rw [link_some E k.w p q b e h2.symm]
      exact ⟨h1, h2, h3⟩
    | none =>
      rw [link_none E k.w p q b h2.symm]
      cases b
      · exact ⟨h1, h2, h3⟩
      · simp only [if_true]
        have hL1 : k1.w.locked = [] := by
          have := (linkOneS_rest (n := k.swallowed) E k p q ⟨hL, rfl⟩).1
          rw [hl] at this; exact this
        obtain ⟨g1, g2, g3, _⟩ := linkOneS_w E k1 q p h3 hL1 (by rw [h4]; exact hdp)
        rw [← h1]
        exact ⟨g1, g2, g3⟩

theorem partners_empty_filter {w : World α} {p : Pair} (h : (w.partners p).isEmpty = true) :
    w.edges.filter (fun e => e.src ≠ p) = w.edges := by
  apply List.filter_eq_self.mpr
  intro e he
  simp only [ne_eq, decide_eq_true_eq]
  intro hs
  have : e.dst ∈ w.partners p := by
    unfold World.partners
    exact List.mem_map.mpr ⟨e, List.mem_filter.mpr ⟨he, by simp [hs]⟩, rfl⟩
  simp [List.isEmpty_iff.mp h] at this

/-- One direction of the removal: `unlinkOneS` is `World.unlinkOne` when no table
lists a collected object. -/
theorem unlinkOneS_w (E : Sync.Env α) (k : KWorld α) (p q : Pair) (ht : Tidy k) :
    (unlinkOneS E k p q).w = k.w.unlinkOne E p q ∧ (unlinkOneS E k p q).doom = k.doom ∧
    (unlinkOneS E k p q).dead = k.dead := by
  unfold unlinkOneS World.unlinkOne
  by_cases he : (⟨p, q⟩ : Edge) ∈ k.w.edges
  · have hne : (k.w.partners p).isEmpty = false := by
      have : q ∈ k.w.partners p := mem_partners_iff.mpr he
      cases h : (k.w.partners p) with
      | nil => simp [h] at this
      | cons a as => rfl
    simp only [hne, he, if_true, if_false, Bool.false_eq_true]
    generalize hk1 : setEdges k (k.w.edges.filter (fun e => e ≠ (⟨p, q⟩ : Edge))) = k1
    have hk1e : k1.w.edges = k.w.edges.filter (fun e => e ≠ (⟨p, q⟩ : Edge)) := by subst hk1; rfl
    have hk2 : ∀ k2 : KWorld α, k2.w.edges = k1.w.edges → k2.dead = k.dead →
        listPartnerLeft E k2 p = (k.w.edges.filter (fun e => e ≠ (⟨p, q⟩ : Edge))).any
          (fun e => decide (e.src = p) && E.isList e.dst) := by
      intro k2 h2 hd2
      unfold listPartnerLeft
      rw [h2, hk1e, hd2]
      rw [Bool.eq_iff_iff]
      simp only [List.any_eq_true]
      constructor
      · rintro ⟨e, hm, h⟩
        exact ⟨e, hm, by simp_all⟩
      · rintro ⟨e, hm, h⟩
        have : e.dst.1 ∉ k.dead := ht e (List.mem_filter.mp hm).1
        exact ⟨e, hm, by simp_all⟩
    by_cases hemp : (k1.w.partners p).isEmpty = true
    · simp only [hemp, if_true]
      have hfe : k1.w.edges.filter (fun e => e.src ≠ p) = k1.w.edges := partners_empty_filter hemp
      rw [hk2 _ (by show (k1.w.edges.filter _) = _; exact hfe) (by subst hk1; rfl)]
      subst hk1
      split <;> simp_all [setEdges, setHooked]
    · simp only [hemp, if_false, Bool.false_eq_true]
      rw [hk2 k1 rfl (by subst hk1; rfl)]
      subst hk1
      split <;> simp_all [setEdges, setHooked]
  · simp only [he, if_false]
    split <;> exact ⟨rfl, rfl, rfl⟩

theorem unlinkOne_sublist (E : Sync.Env α) (w : World α) (p q : Pair) :
    (w.unlinkOne E p q).edges.Sublist w.edges := by
  unfold World.unlinkOne
  split
  · exact List.filter_sublist
  · exact List.Sublist.refl _

theorem unlinkOneS_quiet (E : Sync.Env α) (k : KWorld α) (p q : Pair) (hq : Quiet k) :
    (unlinkOneS E k p q).w = k.w.unlinkOne E p q ∧ Quiet (unlinkOneS E k p q) := by
  obtain ⟨h1, h2, h3⟩ := unlinkOneS_w E k p q hq.2.1
  refine ⟨h1, h2.trans hq.1, ?_, ?_⟩
  · intro e he
    rw [h1] at he
    rw [h3]
    exact hq.2.1 e ((unlinkOne_sublist E k.w p q).subset he)
  · rw [h1]
    exact List.Nodup.sublist (unlinkOne_sublist E k.w p q) hq.2.2

theorem unlinkS_quiet (E : Sync.Env α) (k : KWorld α) (p q : Pair) (b : Bool) (hq : Quiet k) :
    (unlinkS E k p q b).w = k.w.unlink E p q b ∧ Quiet (unlinkS E k p q b) ∧ (unlinkS E k p q b).dead = k.dead := by
  unfold unlinkS World.unlink
  obtain ⟨h1, h2⟩ := unlinkOneS_quiet E k p q hq
  have hd1 := (unlinkOneS_w E k p q hq.2.1).2.2
  cases b
  · exact ⟨h1, h2, hd1⟩
  · simp only [if_true]
    obtain ⟨g1, g2⟩ := unlinkOneS_quiet E (unlinkOneS E k p q) q p h2
    have hd2 := (unlinkOneS_w E (unlinkOneS E k p q) q p h2.2.1).2.2
    rw [h1] at g1
    exact ⟨g1, g2, hd2.trans hd1⟩

theorem killK_quiet (k : KWorld α) (o : Nat) (hq : Quiet k) (hL : k.w.locked = []) :
    (killK k o).w = k.w.kill o ∧ Quiet (killK k o) := by
  refine ⟨rfl, hq.1, ?_, ?_⟩
  · exact (killK_shrink k o (by simp [hL])).1.tidy hq.2.1
  · show (k.w.kill o).edges.Nodup
    exact List.Nodup.sublist List.filter_sublist hq.2.2

/-! ### The weak-reference callback -/

theorem icb_ite (dead : Nat) (l : Bool) (c : CbCond) (x y : CbStmt) (cur : Option Pair) (t : CbTable) :
    interpCbT dead l (.ite c x y) cur t =
      (match evalCb dead l cur t c with
       | .error e => .error e
       | .ok true => interpCbT dead l x cur t
       | .ok false => interpCbT dead l y cur t) := rfl

theorem icb_seq (dead : Nat) (l : Bool) (a b : CbStmt) (cur : Option Pair) (t : CbTable) :
    interpCbT dead l (.seq a b) cur t =
      (match interpCbT dead l a cur t with
       | .ok t1 => interpCbT dead l b cur t1
       | .error e => .error e) := rfl

theorem icb_forEntries (dead : Nat) (l : Bool) (body : CbStmt) (cur : Option Pair) (t : CbTable) :
    interpCbT dead l (.forEntries body) cur t =
      t.entries.foldl (fun acc e =>
        match acc with
        | .ok t1 => interpCbT dead l body (some e) t1
        | .error x => .error x) (.ok t) := rfl

/-- The entry loop: the entries of the collected partner go. -/
theorem cb_entries (dead : Nat) : ∀ (rest S : List Pair) (d : Bool),
    rest.foldl (fun (acc : Except Exc CbTable) e =>
      match acc with
      | Except.ok t1 => interpCbT dead false (.ite .refIsEntry .delEntry .skip) (some e) t1
      | Except.error x => Except.error x) (Except.ok { entries := S, deleted := d }) =
    Except.ok { entries := S.filter (fun x => !(decide (x ∈ rest) && decide (x.1 = dead))), deleted := d } := by
  intro rest
  induction rest with
  | nil => intro S d; simp [List.filter_eq_self.mpr]
  | cons e es ih =>
    intro S d
    simp only [List.foldl_cons]
    by_cases hd : e.1 = dead
    · have : interpCbT dead false (.ite .refIsEntry .delEntry .skip) (some e) { entries := S, deleted := d } =
          Except.ok { entries := S.filter (· ≠ e), deleted := d } := by
        simp [interpCbT, evalCb, hd]
      rw [this, ih, List.filter_filter]
      congr 2
      apply List.filter_congr
      intro x _
      by_cases hx : x = e
      · subst hx; simp [hd]
      · simp [hx]
    · have : interpCbT dead false (.ite .refIsEntry .delEntry .skip) (some e) { entries := S, deleted := d } =
          Except.ok { entries := S, deleted := d } := by
        simp [interpCbT, evalCb, hd]
      rw [this, ih]
      congr 2
      apply List.filter_congr
      intro x _
      by_cases hx : x = e
      · subst hx; simp [hd]
      · simp [hx]

/-- One partner table. -/
theorem cb_table (dead : Nat) (es : List Pair) :
    interpCbT dead false (.ite .keyNotLockTable (.seq (.forEntries (.ite .refIsEntry .delEntry .skip))
      (.ite .tableEmpty .delTable .skip)) .skip) none { entries := es } =
    Except.ok { entries := es.filter (fun e => e.1 ≠ dead), deleted := (es.filter (fun e => e.1 ≠ dead)).isEmpty } := by
  have hf : es.filter (fun x => !(decide (x ∈ es) && decide (x.1 = dead))) = es.filter (fun e => e.1 ≠ dead) := by
    apply List.filter_congr
    intro x hx
    simp [hx]
  rw [icb_ite]
  simp only [evalCb, Bool.not_false]
  rw [icb_seq, icb_forEntries, cb_entries dead es es false, hf]
  simp only []
  rw [icb_ite]
  simp only [evalCb]
  cases h : (es.filter (fun e => e.1 ≠ dead)).isEmpty <;> simp [interpCbT]

theorem cb_tabs (dead : Nat) : ∀ tabs : List (Name × List Pair),
    runTabs dead (.ite .keyNotLockTable (.seq (.forEntries (.ite .refIsEntry .delEntry .skip))
      (.ite .tableEmpty .delTable .skip)) .skip) tabs =
    Except.ok ((tabs.map (fun t => (t.1, t.2.filter (fun e => e.1 ≠ dead)))).filter (fun t => !t.2.isEmpty)) := by
  intro tabs
  induction tabs with
  | nil => rfl
  | cons t ts ih =>
    obtain ⟨n, es⟩ := t
    unfold runTabs
    rw [cb_table, ih]
    simp only [List.map_cons, List.filter_cons]
    cases h : (es.filter (fun e => e.1 ≠ dead)).isEmpty <;> simp

/-- The callback (hand-written) is the interpretation of its source text: for
every `__sync_trait__` and every collected partner it raises nothing and leaves
`cbModel`. -/
theorem cbModel_is_source (dead : Nat) (i : Info) :
    interpCb dead Generated.SyncLink.listenerDeleted i = .ok (cbModel dead i) := by
  unfold Generated.SyncLink.listenerDeleted interpCb cbModel
  simp only []
  rw [cb_tabs]
  cases hl : i.lock with
  | none => rfl
  | some ns =>
    simp only [interpCbT, evalCb, Bool.not_true]
    simp [List.map_map, Function.comp_def]

/-! ### The callback on every survivor is `World.kill` -/

theorem partners_kill (w : World α) (o s : Nat) (n : Name) (hs : s ≠ o) :
    (w.kill o).partners (s, n) = (w.partners (s, n)).filter (fun e => e.1 ≠ o) := by
  unfold World.partners World.kill
  simp only [List.filter_map, List.filter_filter]
  congr 1
  apply List.filter_congr
  intro e _
  by_cases h : e.src = (s, n)
  · have : e.src.1 ≠ o := by rw [h]; exact hs
    simp [h, this, hs]
  · simp [h]

theorem partners_kill_own (w : World α) (o : Nat) (n : Name) : (w.kill o).partners (o, n) = [] := by
  unfold World.partners World.kill
  simp only [List.filter_filter, List.map_eq_nil_iff, List.filter_eq_nil_iff]
  intro e _
  by_cases h : e.src = (o, n)
  · have : e.src.1 = o := by rw [h]
    simp [this]
  · simp [h]

theorem tabs_map_filter (f : List Pair → List Pair) (hf : f [] = []) (g : Name → List Pair) (ns : List Name) :
    (ns.map (fun n => (n, f (g n)))).filter (fun t => !t.2.isEmpty) =
      (((ns.map (fun n => (n, g n))).filter (fun t => !t.2.isEmpty)).map (fun t => (t.1, f t.2))).filter
        (fun t => !t.2.isEmpty) := by
  induction ns with
  | nil => rfl
  | cons n ns ih =>
    simp only [List.map_cons, List.filter_cons]
    cases hg : g n with
    | nil => simp [hf, ih]
    | cons a as =>
      simp only [List.isEmpty_cons, Bool.not_false, if_true, List.map_cons, List.filter_cons]
      rw [← hg, ih]

/-- **Per survivor**: running the callback on survivor `s`'s `__sync_trait__` gives
exactly `s`'s `__sync_trait__` after `World.kill`. -/
theorem callback_is_kill (names : List Name) (w : World α) (o s : Nat) (hs : s ≠ o) :
    infoOf names (w.kill o) s = cbModel o (infoOf names w s) := by
  unfold infoOf cbModel
  have hlock : (w.kill o).locked.filter (fun l => l.1 = s) = w.locked.filter (fun l => l.1 = s) := by
    show (w.locked.filter (fun p => p.1 ≠ o)).filter (fun l => l.1 = s) = _
    rw [List.filter_filter]
    apply List.filter_congr
    intro l _
    by_cases h : l.1 = s
    · have : l.1 ≠ o := by rw [h]; exact hs
      simp [h, this, hs]
    · simp [h]
  simp only [hlock, partners_kill w o s _ hs]
  congr 1
  exact tabs_map_filter (fun l => l.filter (fun e => e.1 ≠ o)) rfl (fun n => w.partners (s, n)) names

/-- The collected object's own tables go with it. -/
theorem own_tables_dropped (names : List Name) (w : World α) (o : Nat) :
    (infoOf names (w.kill o) o).tabs = [] := by
  unfold infoOf
  simp [partners_kill_own]

end TraitsVerif.Model.SyncLive
