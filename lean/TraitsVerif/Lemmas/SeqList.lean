/-
Helper lemmas about the `Py.List` model: arithmetic progressions of positions,
positional get / set / delete.  (Lemmas may import single Mathlib tactic modules.)
-/
import TraitsVerif.Py.List
import Mathlib.Tactic.Ring
import Mathlib.Tactic.Linarith
namespace TraitsVerif.Py
variable {α : Type}

/-! ### positions -/

@[simp] theorem positions_length (a k : Int) (m : Nat) : (positions a k m).length = m := by
  induction m generalizing a with
  | zero => rfl
  | succ m ih => simp [positions, ih]

theorem positions_snoc (a k : Int) (m : Nat) :
    positions a k (m + 1) = positions a k m ++ [a + m * k] := by
  induction m generalizing a with
  | zero => simp [positions]
  | succ m ih =>
    rw [positions, ih (a + k)]
    simp only [positions, List.cons_append]
    congr 2
    push_cast; ring

theorem mem_positions {a k : Int} {m : Nat} {p : Int} :
    p ∈ positions a k m ↔ ∃ j : Nat, j < m ∧ p = a + j * k := by
  induction m generalizing a with
  | zero => simp [positions]
  | succ m ih =>
    simp only [positions, List.mem_cons, ih]
    constructor
    · rintro (h | ⟨j, hj, h⟩)
      · exact ⟨0, by omega, by simp [h]⟩
      · exact ⟨j + 1, by omega, by rw [h]; push_cast; ring⟩
    · rintro ⟨j, hj, h⟩
      cases j with
      | zero => left; simpa using h
      | succ j => right; exact ⟨j, by omega, by rw [h]; push_cast; ring⟩

theorem positions_reverse (a k : Int) (m : Nat) :
    (positions a k (m + 1)).reverse = positions (a + m * k) (-k) (m + 1) := by
  induction m generalizing a with
  | zero => simp [positions]
  | succ m ih =>
    rw [positions, List.reverse_cons, ih (a + k), positions_snoc _ _ (m + 1)]
    have e1 : a + k + (m : Int) * k = a + ((m + 1 : Nat) : Int) * k := by push_cast; ring
    have e2 : a + ((m + 1 : Nat) : Int) * k + ((m + 1 : Nat) : Int) * (-k) = a := by ring
    rw [e1, e2]

theorem positions_nodup {a k : Int} (hk : k ≠ 0) (m : Nat) : (positions a k m).Nodup := by
  induction m generalizing a with
  | zero => simp [positions]
  | succ m ih =>
    simp only [positions, List.nodup_cons]
    refine ⟨?_, ih⟩
    rw [mem_positions]
    rintro ⟨j, _, h⟩
    have : ((j : Int) + 1) * k = 0 := by linarith
    rcases Int.mul_eq_zero.mp this with h1 | h1
    · omega
    · exact hk h1

/-! ### getPositions -/

theorem getPositions_length {l : List α} {ps : List Int}
    (h : ∀ p ∈ ps, 0 ≤ p ∧ p < l.length) : (getPositions l ps).length = ps.length := by
  induction ps with
  | nil => rfl
  | cons p ps ih =>
    have hp := h p (by simp)
    have ih' := ih (fun q hq => h q (by simp [hq]))
    have hlt : p.toNat < l.length := by omega
    simp only [getPositions, List.filterMap_cons] at ih' ⊢
    rw [if_neg (by omega), List.getElem?_eq_getElem hlt]
    simp [ih']

theorem getPositions_reverse (l : List α) (ps : List Int) :
    getPositions l ps.reverse = (getPositions l ps).reverse := by
  simp [getPositions, List.filterMap_reverse]

theorem getPositions_contig (l : List α) (a : Int) (m : Nat) (ha : 0 ≤ a)
    (hm : a + m ≤ l.length) :
    getPositions l (positions a 1 m) = (l.drop a.toNat).take m := by
  induction m generalizing a with
  | zero => simp [positions, getPositions]
  | succ m ih =>
    have hlt : a.toNat < l.length := by omega
    have := ih (a + 1) (by omega) (by push_cast at hm ⊢; omega)
    simp only [getPositions, positions, List.filterMap_cons] at this ⊢
    rw [if_neg (by omega), List.getElem?_eq_getElem hlt]
    simp only
    rw [this, List.drop_eq_getElem_cons hlt, List.take_succ_cons]
    congr 3
    omega

theorem getPositions_single (l : List α) (a : Int) (ha : 0 ≤ a) :
    getPositions l [a] = (l[a.toNat]?).toList := by
  simp only [getPositions, List.filterMap_cons, List.filterMap_nil]
  rw [if_neg (by omega)]
  cases l[a.toNat]? <;> rfl

/-! ### setPositions -/

theorem setPositions_length (l : List α) (ps : List Int) (vs : List α) :
    (setPositions l ps vs).length = l.length := by
  induction ps generalizing l vs with
  | nil => simp [setPositions]
  | cons p ps ih =>
    cases vs with
    | nil => simp [setPositions]
    | cons v vs => simp [setPositions, ih]

theorem setPositions_snoc (l : List α) (ps : List Int) (vs : List α) (p : Int) (v : α)
    (h : ps.length = vs.length) :
    setPositions l (ps ++ [p]) (vs ++ [v]) = (setPositions l ps vs).set p.toNat v := by
  induction ps generalizing l vs with
  | nil =>
    cases vs with
    | nil => simp [setPositions]
    | cons _ _ => simp at h
  | cons q ps ih =>
    cases vs with
    | nil => simp at h
    | cons w vs =>
      simp only [List.cons_append, setPositions]
      exact ih _ _ (by simpa using h)

theorem setPositions_set_comm (l : List α) (ps : List Int) (vs : List α) (p : Nat) (v : α)
    (h : ∀ q ∈ ps, q.toNat ≠ p) :
    setPositions (l.set p v) ps vs = (setPositions l ps vs).set p v := by
  induction ps generalizing l vs with
  | nil => simp [setPositions]
  | cons q ps ih =>
    cases vs with
    | nil => simp [setPositions]
    | cons w vs =>
      simp only [setPositions]
      have hq : q.toNat ≠ p := h q (by simp)
      rw [List.set_comm _ _ (Ne.symm hq), ih _ _ (fun r hr => h r (by simp [hr]))]

theorem setPositions_reverse (l : List α) (ps : List Int) (vs : List α)
    (hlen : ps.length = vs.length) (hnn : ∀ p ∈ ps, 0 ≤ p) (hnd : ps.Nodup) :
    setPositions l ps.reverse vs.reverse = setPositions l ps vs := by
  induction ps generalizing l vs with
  | nil => simp [setPositions]
  | cons p ps ih =>
    cases vs with
    | nil => simp at hlen
    | cons v vs =>
      have hlen' : ps.length = vs.length := by simpa using hlen
      rw [List.reverse_cons, List.reverse_cons,
        setPositions_snoc _ _ _ _ _ (by simpa using hlen'),
        ih _ _ hlen' (fun q hq => hnn q (by simp [hq])) (List.nodup_cons.mp hnd).2]
      simp only [setPositions]
      rw [setPositions_set_comm]
      intro q hq hEq
      have h1 := hnn q (by simp [hq])
      have h2 := hnn p (by simp)
      have : q = p := by omega
      exact (List.nodup_cons.mp hnd).1 (this ▸ hq)

theorem setPositions_contig (l : List α) (a : Int) (vs : List α) (ha : 0 ≤ a)
    (hm : a + vs.length ≤ l.length) :
    setPositions l (positions a 1 vs.length) vs
      = l.take a.toNat ++ vs ++ l.drop (a.toNat + vs.length) := by
  induction vs generalizing l a with
  | nil => simp [positions, setPositions]
  | cons v vs ih =>
    rw [List.length_cons] at hm
    push_cast at hm
    have hlt : a.toNat < l.length := by omega
    simp only [List.length_cons, positions, setPositions]
    rw [ih (l.set a.toNat v) (a + 1) (by omega) (by simp; omega)]
    have e : (a + 1).toNat = a.toNat + 1 := by omega
    rw [e, List.take_set, List.drop_set, if_pos (by omega)]
    rw [List.take_succ_eq_append_getElem (by simpa using hlt)]
    have e2 : a.toNat + 1 + vs.length = a.toNat + (vs.length + 1) := by omega
    rw [e2, List.set_append_right _ _ (by simp [Nat.min_eq_left (Nat.le_of_lt hlt)])]
    simp [Nat.min_eq_left (Nat.le_of_lt hlt)]

/-! ### delPositions -/

theorem delPositionsAux_congr (ps ps' : List Int) (h : ∀ x : Int, x ∈ ps ↔ x ∈ ps')
    (i : Nat) (l : List α) : delPositionsAux ps i l = delPositionsAux ps' i l := by
  induction l generalizing i with
  | nil => rfl
  | cons x xs ih => simp [delPositionsAux, h, ih]

theorem delPositions_reverse (l : List α) (ps : List Int) :
    delPositions l ps.reverse = delPositions l ps := by
  apply delPositionsAux_congr
  intro x; simp

theorem delPositionsAux_append (ps : List Int) (i : Nat) (xs ys : List α) :
    delPositionsAux ps i (xs ++ ys)
      = delPositionsAux ps i xs ++ delPositionsAux ps (i + xs.length) ys := by
  induction xs generalizing i with
  | nil => simp [delPositionsAux]
  | cons x xs ih =>
    simp only [List.cons_append, delPositionsAux, List.length_cons]
    rw [ih (i + 1)]
    have : i + 1 + xs.length = i + (xs.length + 1) := by omega
    split <;> simp [this]

theorem delPositionsAux_keep (ps : List Int) (i : Nat) (xs : List α)
    (h : ∀ j : Nat, i ≤ j → j < i + xs.length → ps.contains (j : Int) = false) :
    delPositionsAux ps i xs = xs := by
  induction xs generalizing i with
  | nil => rfl
  | cons x xs ih =>
    simp only [delPositionsAux]
    rw [h i (Nat.le_refl _) (by simp), ih (i + 1)]
    · simp
    · intro j h1 h2; exact h j (by omega) (by simp; omega)

theorem delPositionsAux_drop (ps : List Int) (i : Nat) (xs : List α)
    (h : ∀ j : Nat, i ≤ j → j < i + xs.length → ps.contains (j : Int) = true) :
    delPositionsAux ps i xs = [] := by
  induction xs generalizing i with
  | nil => rfl
  | cons x xs ih =>
    simp only [delPositionsAux]
    rw [h i (Nat.le_refl _) (by simp), ih (i + 1)]
    · simp
    · intro j h1 h2; exact h j (by omega) (by simp; omega)

/-- Deleting a contiguous block of positions. -/
theorem delPositions_block (l : List α) (ps : List Int) (lo m : Nat) (hm : lo + m ≤ l.length)
    (h : ∀ j : Nat, ps.contains (j : Int) = decide (lo ≤ j ∧ j < lo + m)) :
    delPositions l ps = l.take lo ++ l.drop (lo + m) := by
  have e : l = l.take lo ++ ((l.drop lo).take m ++ l.drop (lo + m)) := by
    rw [← List.drop_drop, List.take_append_drop, List.take_append_drop]
  conv => lhs; rw [e]
  unfold delPositions
  rw [delPositionsAux_append, delPositionsAux_append, delPositionsAux_keep, delPositionsAux_drop,
    delPositionsAux_keep]
  · simp
  · intro j h1 h2; rw [h]; simp at h1 h2 ⊢; omega
  · intro j h1 h2; rw [h]; simp at h1 h2 ⊢; omega
  · intro j h1 h2; rw [h]; simp at h1 h2 ⊢; omega

end TraitsVerif.Py
