/-
Chains of deferral: reading follows a chain of linked deferring attributes to its end; the walk of
`setattr_delegate` follows the same chain when the class prefixes used by '*' styles agree, up to the
100-step recursion limit.
-/
import TraitsVerif.Lemmas.DelegPool
namespace TraitsVerif.Model.Deleg

/-- `Chain p P k o n x t`: `k` deferral steps lead from attribute `n` of `o` to attribute `t` of `x`;
every level is *linked* (no local value, a delegate is set), names are computed as a read does (each
level's own class), and every level `(object, DelegInfo)` satisfies `P`. -/
inductive Chain (p : Pool) (P : ObjId → DelegInfo → Prop) : Nat → ObjId → Name → ObjId → Name → Prop
  | zero (o : ObjId) (n : Name) : Chain p P 0 o n o n
  | succ {k : Nat} {o : ObjId} {n : Name} {d : DelegInfo} {y x : ObjId} {t : Name} :
      (p.obj o).dict n = none → (p.obj o).cls.trait n = .defer d → (p.obj o).deleg = some y → P o d →
      Chain p P k y (attrName d (p.obj o).cls.pfx n) x t → Chain p P (k + 1) o n x t

/-- `WChain p q k o n x t`: `k` steps as `setattr_delegate` takes them: traits and delegate
references only, names computed with the one class prefix `q` of the object the walk started on. -/
inductive WChain (p : Pool) (q : Option Name) : Nat → ObjId → Name → ObjId → Name → Prop
  | zero (o : ObjId) (n : Name) : WChain p q 0 o n o n
  | succ {k : Nat} {o : ObjId} {n : Name} {d : DelegInfo} {y x : ObjId} {t : Name} :
      (p.obj o).cls.trait n = .defer d → (p.obj o).deleg = some y →
      WChain p q k y (attrName d q n) x t → WChain p q (k + 1) o n x t

/-- A '*' style level uses the class prefix `q` (the condition under which the read chain and the
write walk name the same attributes). -/
def StarAgree (p : Pool) (q : Option Name) (o : ObjId) (d : DelegInfo) : Prop :=
  d.ptype = .className → (p.obj o).cls.pfx = q

theorem chain_read {p : Pool} {P : ObjId → DelegInfo → Prop} {k : Nat} {o : ObjId} {n : Name} {x : ObjId} {t : Name}
    (h : Chain p P k o n x t) : ∀ f, read p (k + f) o n = read p f x t := by
  induction h with
  | zero => intro f; simp
  | succ hd htd hy _ _ ih =>
    intro f
    rw [Nat.add_right_comm]
    simp only [read, hd, htd, hy]
    exact ih f

theorem chain_wchain {p : Pool} {q : Option Name} {k : Nat} {o : ObjId} {n : Name} {x : ObjId} {t : Name}
    (h : Chain p (StarAgree p q) k o n x t) : WChain p q k o n x t := by
  induction h with
  | zero => exact .zero ..
  | @succ k o n d y x t hd htd hy hP _ ih =>
    refine .succ htd hy ?_
    have : attrName d q n = attrName d (p.obj o).cls.pfx n := by
      unfold attrName
      cases hpt : d.ptype <;> simp only []
      rw [hP hpt]
    rw [this]; exact ih

theorem wchain_head_defer {p : Pool} {q : Option Name} {k : Nat} {o : ObjId} {n : Name} {x : ObjId} {t : Name}
    (h : WChain p q k o n x t) {d' : DelegInfo} (hx : (p.obj x).cls.trait t = .defer d') :
    ∃ d, (p.obj o).cls.trait n = .defer d := by
  cases h with
  | zero => exact ⟨d', hx⟩
  | succ htd _ _ => exact ⟨_, htd⟩

/-- The walk of `setattr_delegate` reaches the end of a chain of at most `fuel` steps. -/
theorem wchain_walk {p : Pool} {q : Option Name} {x : ObjId} {t : Name} (hnd : NonDefer ((p.obj x).cls.trait t)) :
    ∀ (k : Nat) (o : ObjId) (n : Name) (d : DelegInfo) (f : Nat), (p.obj o).cls.trait n = .defer d →
      WChain p q (k + 1) o n x t → k + 1 ≤ f → walk p q f o d n = .ok (x, t, (p.obj x).cls.trait t) := by
  intro k
  induction k with
  | zero =>
    intro o n d f htd h hf
    cases h with
    | succ htd' hy hrest =>
      rw [htd] at htd'; cases htd'
      cases hrest
      obtain ⟨f', rfl⟩ : ∃ f', f = f' + 1 := ⟨f - 1, by omega⟩
      simp only [walk, hy]
      cases htx : (p.obj x).cls.trait (attrName d q n) with
      | defer d' => exact absurd htx (hnd d')
      | plain a b c => rfl
      | python => rfl
  | succ k ih =>
    intro o n d f htd h hf
    cases h with
    | succ htd' hy hrest =>
      rw [htd] at htd'; cases htd'
      obtain ⟨f', rfl⟩ : ∃ f', f = f' + 1 := ⟨f - 1, by omega⟩
      rename_i y
      cases hrest with
      | succ htd2 hy2 hrest2 =>
        simp only [walk, hy, htd2]
        exact ih y _ _ f' htd2 (.succ htd2 hy2 hrest2) (by omega)

/-- The recursion limit: a chain that is still deferring after `fuel` steps makes the walk fail with
DelegationError. -/
theorem wchain_walk_limit {p : Pool} {q : Option Name} {x : ObjId} {t : Name} {d' : DelegInfo}
    (hx : (p.obj x).cls.trait t = .defer d') :
    ∀ (k : Nat) (o : ObjId) (n : Name) (d : DelegInfo) (f : Nat), (p.obj o).cls.trait n = .defer d →
      WChain p q k o n x t → f ≤ k → walk p q f o d n = .error .traitError := by
  intro k
  induction k with
  | zero =>
    intro o n d f _ _ hf
    obtain rfl : f = 0 := by omega
    rfl
  | succ k ih =>
    intro o n d f htd h hf
    cases f with
    | zero => rfl
    | succ f' =>
      cases h with
      | succ htd' hy hrest =>
        rw [htd] at htd'; cases htd'
        rename_i y
        obtain ⟨d2, htd2⟩ := wchain_head_defer hrest hx
        simp only [walk, hy, htd2]
        exact ih y _ d2 f' htd2 hrest (by omega)

end TraitsVerif.Model.Deleg
