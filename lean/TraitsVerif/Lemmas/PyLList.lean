/-
The hand-written model `TraitList.step` is the interpretation of the
translated source (`Generated/ListProg.lean`) — one lemma per operation.
Symbolic execution of the interpreter by `simp`, after the case splits the
model itself makes.
-/
import TraitsVerif.Generated.ListProg
import TraitsVerif.Lemmas.SeqList
import TraitsVerif.Lemmas.SeqSlice
import TraitsVerif.Lemmas.SeqStep
import Mathlib.Tactic.SplitIfs
set_option linter.unusedSimpArgs false
namespace TraitsVerif.Lemmas.PyL
open TraitsVerif TraitsVerif.Py TraitsVerif.Model TraitsVerif.Model.PyL
variable {α : Type}

/-! ### The helpers -/

def valOfNIdx : NIdx → Val α
  | .idx k => .int k
  | .slc a b c => .slice ⟨some a, some b, some c⟩

theorem normalize_idx (E : Env α) (i : Int) (n : Nat) :
    callHelper Generated.listHelpers E "_normalize_slice_or_index" [.int i, .int n]
      = .ok [.bool false, .int (if i < 0 then i + n else i)] := by
  by_cases h : i < 0 <;>
  simp [callHelper, Generated.listHelpers, lookupFn, exec, eval, aliasSelf, bindArgs, truthy, setVar, evalAll, intOp, h] <;>
  try omega

theorem normalize_slice (E : Env α) (s : Slice) (n : Nat) :
    callHelper Generated.listHelpers E "_normalize_slice_or_index" [.slice s, .int n]
      = match normalizeSlice n s with
        | none => .error .valueError
        | some (rev, idx) => .ok [.bool rev, valOfNIdx idx] := by
  have hn : ¬ ((n : Int) < 0) := by omega
  unfold normalizeSlice
  cases hi : s.indices n with
  | none =>
    simp [callHelper, Generated.listHelpers, lookupFn, exec, eval, aliasSelf, bindArgs, truthy, hi, hn]
  | some t =>
    obtain ⟨a, b, k⟩ := t
    by_cases hk : k < 0
    · simp [callHelper, Generated.listHelpers, lookupFn, exec, eval, aliasSelf, bindArgs, truthy, setVar, setVars, evalAll,
        intOp, hi, hk, hn, normalizeCore]
      by_cases h1 : -k = 1
      · simp [h1, valOfNIdx]
      · simp [h1]
        split_ifs <;> simp_all [valOfNIdx]
    · simp [callHelper, Generated.listHelpers, lookupFn, exec, eval, aliasSelf, bindArgs, truthy, setVar, setVars, evalAll,
        intOp, hi, hk, hn, normalizeCore]
      by_cases h1 : k = 1
      · simp [h1, valOfNIdx]
      · simp [h1]
        split_ifs <;> simp_all [valOfNIdx]

theorem removed_items_slice (E : Env α) (l : List α) (s : Slice) :
    callHelper Generated.listHelpers E "_removed_items" [.list l, .slice s, .none]
      = match Py.getSlice l s with
        | .error e => .error e
        | .ok r => .ok [.list r] := by
  cases h : Py.getSlice l s <;>
  simp [callHelper, Generated.listHelpers, lookupFn, exec, eval, aliasSelf, bindArgs, truthy, evalAll, h, Except.map]

theorem removed_items_idx (E : Env α) (l : List α) (i : Int) :
    callHelper Generated.listHelpers E "_removed_items" [.list l, .int i, .none]
      = .ok [match normIdx l.length i with
             | none => .none
             | some j => match l[j]? with | some x => .list [x] | none => .none] := by
  cases h : normIdx l.length i with
  | none => simp [callHelper, Generated.listHelpers, lookupFn, exec, eval, aliasSelf, bindArgs, truthy, evalAll, h]
  | some j =>
    cases h2 : l[j]? <;>
    simp [callHelper, Generated.listHelpers, lookupFn, exec, eval, aliasSelf, bindArgs, truthy, evalAll, h, h2]

/-! ### Facts about the builtin list the execution needs -/

theorem getSlice_from (l : List α) (n : Nat) (h : n ≤ l.length) :
    Py.getSlice l ⟨some (n : Int), none, none⟩ = .ok (l.drop n) := by
  have hs : (⟨some (n : Int), none, none⟩ : Slice).indices l.length = some ((n : Int), (l.length : Int), 1) := by
    simp only [Slice.indices, Option.getD_none, adjustStart, adjustStop]
    by_cases h2 : (n : Int) ≥ l.length
    · have : (n : Int) = l.length := by omega
      simp [this]
    · have h0 : ¬ ((n : Int) < 0) := by omega
      simp [h2, h0]
  unfold Py.getSlice
  rw [hs]
  simp only
  have hl : sliceLen (n : Int) (l.length : Int) 1 = l.length - n := by
    unfold sliceLen
    rw [if_neg (by omega)]
    by_cases h3 : (n : Int) < l.length
    · rw [if_pos h3, Int.ediv_one]; omega
    · rw [if_neg h3]; omega
  rw [hl, getPositions_contig l n (l.length - n) (by omega) (by omega)]
  simp [List.take_of_length_le]

theorem normIdx_some_lt {n : Nat} {i : Int} {j : Nat} (h : normIdx n i = some j) : j < n := by
  unfold normIdx at h
  by_cases hi : i < 0
  · simp only [hi, if_true] at h
    split at h
    · simp only [Option.some.injEq] at h; omega
    · simp at h
  · simp only [hi, if_false] at h
    split at h
    · simp only [Option.some.injEq] at h; omega
    · simp at h

theorem normIdx_natCast {n j : Nat} (h : j < n) : normIdx n (j : Int) = some j := by
  unfold normIdx
  have h0 : ¬ ((j : Int) < 0) := by omega
  simp only [h0, if_false]
  rw [if_pos (by omega)]
  simp

theorem getSlice_ok_indices {l : List α} {s : Slice} {r : List α} (h : Py.getSlice l s = .ok r) :
    ∃ t, s.indices l.length = some t := by
  unfold Py.getSlice at h
  cases hi : s.indices l.length with
  | none => simp [hi] at h
  | some t => exact ⟨t, rfl⟩

theorem length_flatten_replicate (l : List α) (k : Nat) : (List.replicate k l).flatten.length = k * l.length := by
  induction k with
  | zero => simp
  | succ k ih => simp [List.replicate_succ, ih, Nat.succ_mul, Nat.add_comm]

theorem imul_length_ge (l : List α) (n : Int) (h : ¬ n < 1) : l.length ≤ (Py.imul l n).length := by
  unfold Py.imul
  rw [if_neg h, length_flatten_replicate]
  have : n.toNat ≥ 1 := by omega
  exact Nat.le_mul_of_pos_left _ (by omega)

/-! ### One lemma per operation -/

local notation "runTLM" => runTraitListM Generated.listHelpers Generated.traitListProg

macro "pyl_exec" "[" ts:Lean.Parser.Tactic.simpLemma,* "]" : tactic =>
  `(tactic| (simp [runTraitListM, Generated.traitListProg, lookupFn, exec, eval, aliasSelf, bindArgs,
      truthy, setVar, setVars, evalAll, intOp, builtinSup, summarize, summaryOfStep, TraitList.step, toNIdx, aliasSelf,
      normalize_idx, normalize_slice, removed_items_slice, removed_items_idx, valOfNIdx, $ts,*] <;> try omega))

theorem tl_clear (E : Env α) (l : List α) : runTLM E "clear" [] l = summaryOfStep l (TraitList.step E l .clear) := by
  cases l <;> pyl_exec []

theorem tl_reverse (E : Env α) (l : List α) : runTLM E "reverse" [] l = summaryOfStep l (TraitList.step E l .reverse) := by
  cases l <;> pyl_exec []

theorem tl_sort (E : Env α) (l : List α) (sp : Nat) :
    runTLM E "sort" [.int sp, .none] l = summaryOfStep l (TraitList.step E l (.sort sp)) := by
  have hsp : ¬ ((sp : Int) < 0) := by omega
  cases l <;> pyl_exec [hsp]

theorem tl_append (E : Env α) (l : List α) (x : α) :
    runTLM E "append" [.item x] l = summaryOfStep l (TraitList.step E l (.append x)) := by
  cases h : E.v 0 x with
  | error e => pyl_exec [h]
  | ok y =>
    have := getSlice_from (l ++ [y]) l.length (by simp)
    pyl_exec [h, this, Except.map]

theorem tl_extend (E : Env α) (l : List α) (xs : List α) :
    runTLM E "extend" [.list xs] l = summaryOfStep l (TraitList.step E l (.extend xs)) := by
  cases h : valAll E.v 0 xs with
  | error e => pyl_exec [h]
  | ok ys => cases ys <;> pyl_exec [h]

theorem tl_iadd (E : Env α) (l : List α) (xs : List α) :
    runTLM E "__iadd__" [.list xs] l = summaryOfStep l (TraitList.step E l (.iadd xs)) := by
  cases h : valAll E.v 0 xs with
  | error e => pyl_exec [h]
  | ok ys => cases ys <;> pyl_exec [h]

theorem tl_imul (E : Env α) (l : List α) (n : Int) :
    runTLM E "__imul__" [.int n] l = summaryOfStep l (TraitList.step E l (.imul n)) := by
  by_cases hn : n < 1
  · cases l <;> pyl_exec [hn]
  · have hs := getSlice_from (Py.imul l n) l.length (imul_length_ge l n hn)
    cases hd : (Py.imul l n).drop l.length <;> pyl_exec [hn, hs, hd, Except.map]

theorem tl_insert (E : Env α) (l : List α) (i : Int) (x : α) :
    runTLM E "insert" [.int i, .item x] l = summaryOfStep l (TraitList.step E l (.insert i x)) := by
  by_cases hi : i < 0 <;> cases h : E.v 0 x <;> pyl_exec [hi, h]

theorem tl_pop (E : Env α) (l : List α) (i : Int) :
    runTLM E "pop" [.int i] l = summaryOfStep l (TraitList.step E l (.pop i)) := by
  by_cases hi : i < 0 <;> cases h : Py.pop l i <;> pyl_exec [hi, h]

theorem tl_remove (E : Env α) (l : List α) (x : α) :
    runTLM E "remove" [.item x] l = summaryOfStep l (TraitList.step E l (.remove x)) := by
  cases h : Py.index E.eq l x with
  | none => pyl_exec [h, Py.remove]
  | some j =>
    have hj : j < l.length := findIdx?_lt h
    have hn := normIdx_natCast hj
    have hg : l[j]? = some l[j] := List.getElem?_eq_getElem hj
    pyl_exec [h, Py.remove, hn, hg]

theorem tl_delIdx (E : Env α) (l : List α) (i : Int) :
    runTLM E "__delitem__" [.int i] l = summaryOfStep l (TraitList.step E l (.delIdx i)) := by
  cases h : normIdx l.length i with
  | none => pyl_exec [h, Py.delIdx]
  | some j =>
    have hj : j < l.length := normIdx_some_lt h
    have hg : l[j]? = some l[j] := List.getElem?_eq_getElem hj
    by_cases hi : i < 0 <;> pyl_exec [h, Py.delIdx, hg, hi, normalizeIdx]

theorem tl_setIdx (E : Env α) (l : List α) (i : Int) (x : α) :
    runTLM E "__setitem__" [.int i, .item x] l = summaryOfStep l (TraitList.step E l (.setIdx i x)) := by
  cases h : normIdx l.length i with
  | none => cases hv : E.v 0 x <;> pyl_exec [h, hv, Py.setIdx]
  | some j =>
    have hj : j < l.length := normIdx_some_lt h
    have hg : l[j]? = some l[j] := List.getElem?_eq_getElem hj
    cases hv : E.v 0 x <;> by_cases hi : i < 0 <;> pyl_exec [h, hv, Py.setIdx, hg, hi, normalizeIdx]

theorem normalizeSlice_of_getSlice {l : List α} {s : Slice} {r : List α} (h : Py.getSlice l s = .ok r) :
    ∃ rev n, normalizeSlice l.length s = some (rev, n) := by
  obtain ⟨⟨a, b, k⟩, ht⟩ := getSlice_ok_indices h
  exact ⟨_, _, by simp [normalizeSlice, ht]; rfl⟩

theorem tl_delSlice (E : Env α) (l : List α) (s : Slice) :
    runTLM E "__delitem__" [.slice s] l = summaryOfStep l (TraitList.step E l (.delSlice s)) := by
  cases h : Py.getSlice l s with
  | error e => pyl_exec [h]
  | ok removed =>
    obtain ⟨rev, n, hn⟩ := normalizeSlice_of_getSlice h
    cases hd : Py.delSlice l s with
    | error e => pyl_exec [h, hd]
    | ok l' =>
      cases removed with
      | nil => pyl_exec [h, hd]
      | cons r rs => cases rev <;> cases n <;> pyl_exec [h, hd, hn]

theorem tl_setSlice (E : Env α) (l : List α) (s : Slice) (xs : List α) :
    runTLM E "__setitem__" [.slice s, .list xs] l = summaryOfStep l (TraitList.step E l (.setSlice s xs)) := by
  cases h : Py.getSlice l s with
  | error e => pyl_exec [h]
  | ok removed =>
    obtain ⟨rev, n, hn⟩ := normalizeSlice_of_getSlice h
    cases hv : valAll E.v 0 xs with
    | error e => pyl_exec [h, hv]
    | ok ys =>
      cases hd : Py.setSlice l s ys with
      | error e => pyl_exec [h, hv, hd]
      | ok l' =>
        cases removed <;> cases ys <;> cases rev <;> cases n <;> pyl_exec [h, hv, hd, hn]

/-- **`TraitList.step` is the interpretation of the translated source**, for
every validator, list and operation. -/
theorem tl_step_is_source (E : Env α) (l : List α) (op : Op α) :
    runTraitListOp Generated.listHelpers Generated.traitListProg E l op
      = summaryOfStep l (TraitList.step E l op) := by
  cases op with
  | setIdx i x => exact tl_setIdx E l i x
  | setSlice s xs => exact tl_setSlice E l s xs
  | delIdx i => exact tl_delIdx E l i
  | delSlice s => exact tl_delSlice E l s
  | append x => exact tl_append E l x
  | extend xs => exact tl_extend E l xs
  | iadd xs => exact tl_iadd E l xs
  | imul n => exact tl_imul E l n
  | insert i x => exact tl_insert E l i x
  | pop i => exact tl_pop E l i
  | remove x => exact tl_remove E l x
  | clear => exact tl_clear E l
  | reverse => exact tl_reverse E l
  | sort sp => exact tl_sort E l sp

/-! ### `TraitListObject`: the overrides, with `super()` = the translated `TraitList` method -/

local notation "runTLOM" =>
  runTraitListObjectM Generated.listHelpers Generated.traitListProg Generated.traitListObjectProg

macro "tlo_exec" "[" ts:Lean.Parser.Tactic.simpLemma,* "]" : tactic =>
  `(tactic| simp [runTraitListObjectM, Generated.traitListObjectProg, lookupFn, exec, eval, aliasSelf, bindArgs,
      truthy, setVar, setVars, evalAll, intOp, summarize, summaryOfStep, TraitListObject.step, guardLen,
      tl_setIdx, tl_setSlice, tl_delIdx, tl_delSlice, tl_append, tl_extend, tl_iadd, tl_imul, tl_insert, tl_pop,
      tl_remove, tl_clear, tl_reverse, tl_sort, $ts,*])

theorem step_ret_none (E : Env α) (l : List α) (op : Op α) (o : Out α)
    (h : TraitList.step E l op = .ok o) (hp : ∀ i, op ≠ .pop i) : o.ret = none := by
  cases op with
  | pop i => exact absurd rfl (hp i)
  | _ =>
    simp only [TraitList.step] at h
    repeat' split at h
    all_goals first
      | (simp only [Except.ok.injEq] at h; subst h; rfl)
      | (simp at h)

/-- After symbolic execution both sides are `if c.ok (n) then … else …` with the
guard value as the source computes it on the left and as the model states it
on the right; the two values are equal by linear arithmetic (`omega`), whatever
way the source writes them.  So: split on both conditions, close the two
contradictory combinations by `omega`, finish the execution in the others. -/
theorem guard_contra {c : LenCfg} {a b : Int} (h1 : c.ok a = false) (h2 : c.ok b = true) (hab : a = b) :
    False := by
  subst hab; simp_all

macro "guard_absurd" : tactic =>
  `(tactic| (exfalso
             try simp only [Bool.not_eq_true] at *
             exact guard_contra (by assumption) (by assumption) (by omega)))

macro "tlo_finish" "[" ts:Lean.Parser.Tactic.simpLemma,* "]" : tactic =>
  `(tactic| simp_all [runTraitListObjectM, Generated.traitListObjectProg, lookupFn, exec, eval, aliasSelf, bindArgs,
      truthy, setVar, setVars, evalAll, intOp, summarize, summaryOfStep, TraitListObject.step, guardLen,
      tl_setIdx, tl_setSlice, tl_delIdx, tl_delSlice, tl_append, tl_extend, tl_iadd, tl_imul, tl_insert, tl_pop,
      tl_remove, tl_clear, tl_reverse, tl_sort, $ts,*])

macro "tlo_guarded" "[" ts:Lean.Parser.Tactic.simpLemma,* "]" : tactic =>
  `(tactic| (first
      | (tlo_exec [$ts,*]; done)
      | (tlo_exec [$ts,*]; split_ifs <;>
          first
            | rfl
            | guard_absurd
            | (tlo_finish [$ts,*]; done))))

theorem tlo_append (c : LenCfg) (E : Env α) (l : List α) (x : α) :
    runTLOM c E "append" [.item x] l = summaryOfStep l (TraitListObject.step c E l (.append x)) := by
  cases hs : TraitList.step E l (.append x) with
  | error e => tlo_guarded [hs]
  | ok o =>
    have := step_ret_none E l _ o hs (by intro i; simp)
    tlo_guarded [hs, this]

theorem tlo_clear (c : LenCfg) (E : Env α) (l : List α) :
    runTLOM c E "clear" [] l = summaryOfStep l (TraitListObject.step c E l .clear) := by
  cases hs : TraitList.step E l .clear with
  | error e => tlo_guarded [hs]
  | ok o =>
    have := step_ret_none E l _ o hs (by intro i; simp)
    tlo_guarded [hs, this]

theorem tlo_extend (c : LenCfg) (E : Env α) (l : List α) (xs : List α) :
    runTLOM c E "extend" [.list xs] l = summaryOfStep l (TraitListObject.step c E l (.extend xs)) := by
  cases hs : TraitList.step E l (.extend xs) with
  | error e => tlo_guarded [hs]
  | ok o =>
    have := step_ret_none E l _ o hs (by intro i; simp)
    tlo_guarded [hs, this]

theorem tlo_iadd (c : LenCfg) (E : Env α) (l : List α) (xs : List α) :
    runTLOM c E "__iadd__" [.list xs] l = summaryOfStep l (TraitListObject.step c E l (.iadd xs)) := by
  cases hs : TraitList.step E l (.iadd xs) with
  | error e => tlo_guarded [hs]
  | ok o =>
    have := step_ret_none E l _ o hs (by intro i; simp)
    tlo_guarded [hs, this]

theorem tlo_imul (c : LenCfg) (E : Env α) (l : List α) (n : Int) :
    runTLOM c E "__imul__" [.int n] l = summaryOfStep l (TraitListObject.step c E l (.imul n)) := by
  cases hs : TraitList.step E l (.imul n) with
  | error e => tlo_guarded [hs]
  | ok o =>
    have := step_ret_none E l _ o hs (by intro i; simp)
    tlo_guarded [hs, this]

theorem tlo_insert (c : LenCfg) (E : Env α) (l : List α) (i : Int) (x : α) :
    runTLOM c E "insert" [.int i, .item x] l = summaryOfStep l (TraitListObject.step c E l (.insert i x)) := by
  cases hs : TraitList.step E l (.insert i x) with
  | error e => tlo_guarded [hs]
  | ok o =>
    have := step_ret_none E l _ o hs (by intro i; simp)
    tlo_guarded [hs, this]

theorem tlo_remove (c : LenCfg) (E : Env α) (l : List α) (x : α) :
    runTLOM c E "remove" [.item x] l = summaryOfStep l (TraitListObject.step c E l (.remove x)) := by
  cases hs : TraitList.step E l (.remove x) with
  | error e => tlo_guarded [hs]
  | ok o =>
    have := step_ret_none E l _ o hs (by intro i; simp)
    tlo_guarded [hs, this]

theorem tlo_delIdx (c : LenCfg) (E : Env α) (l : List α) (i : Int) :
    runTLOM c E "__delitem__" [.int i] l = summaryOfStep l (TraitListObject.step c E l (.delIdx i)) := by
  cases hs : TraitList.step E l (.delIdx i) with
  | error e => tlo_guarded [hs]
  | ok o =>
    have := step_ret_none E l _ o hs (by intro i; simp)
    tlo_guarded [hs, this]

theorem tlo_setIdx (c : LenCfg) (E : Env α) (l : List α) (i : Int) (x : α) :
    runTLOM c E "__setitem__" [.int i, .item x] l = summaryOfStep l (TraitListObject.step c E l (.setIdx i x)) := by
  cases hs : TraitList.step E l (.setIdx i x) with
  | error e => tlo_guarded [hs]
  | ok o =>
    have := step_ret_none E l _ o hs (by intro i; simp)
    tlo_guarded [hs, this]

theorem tlo_pop (c : LenCfg) (E : Env α) (l : List α) (i : Int) :
    runTLOM c E "pop" [.int i] l = summaryOfStep l (TraitListObject.step c E l (.pop i)) := by
  cases hs : TraitList.step E l (.pop i) with
  | error e => tlo_guarded [hs]
  | ok o => cases hr : o.ret <;> tlo_guarded [hs, hr]

theorem tlo_delSlice (c : LenCfg) (E : Env α) (l : List α) (s : Slice) :
    runTLOM c E "__delitem__" [.slice s] l = summaryOfStep l (TraitListObject.step c E l (.delSlice s)) := by
  cases hg : Py.getSlice l s with
  | error e => tlo_exec [hg, Except.map]
  | ok r =>
    cases hs : TraitList.step E l (.delSlice s) with
    | error e => tlo_guarded [hg, hs, Except.map]
    | ok o =>
      have := step_ret_none E l _ o hs (by intro i; simp)
      tlo_guarded [hg, hs, this, Except.map]

theorem tlo_setSlice (c : LenCfg) (E : Env α) (l : List α) (s : Slice) (xs : List α) :
    runTLOM c E "__setitem__" [.slice s, .list xs] l
      = summaryOfStep l (TraitListObject.step c E l (.setSlice s xs)) := by
  cases hg : Py.getSlice l s with
  | error e =>
    cases hst : s.step with
    | none => tlo_exec [hg, hst, Except.map]
    | some k => by_cases hk : k = 1 <;> tlo_exec [hg, hst, hk, Except.map]
  | ok r =>
    cases hs : TraitList.step E l (.setSlice s xs) with
    | error e =>
      cases hst : s.step with
      | none => tlo_guarded [hg, hst, hs, Except.map]
      | some k =>
        by_cases hk : k = 1
        · tlo_guarded [hg, hst, hk, hs, Except.map]
        · by_cases hl : xs.length = r.length <;> tlo_guarded [hg, hst, hk, hs, hl, Except.map]
    | ok o =>
      have := step_ret_none E l _ o hs (by intro i; simp)
      cases hst : s.step with
      | none => tlo_guarded [hg, hst, hs, this, Except.map]
      | some k =>
        by_cases hk : k = 1
        · tlo_guarded [hg, hst, hk, hs, this, Except.map]
        · by_cases hl : xs.length = r.length <;> tlo_guarded [hg, hst, hk, hs, hl, this, Except.map]

theorem tlo_reverse (c : LenCfg) (E : Env α) (l : List α) :
    runTLOM c E "reverse" [] l = summaryOfStep l (TraitListObject.step c E l .reverse) := by
  tlo_exec []

theorem tlo_sort (c : LenCfg) (E : Env α) (l : List α) (sp : Nat) :
    runTLOM c E "sort" [.int sp, .none] l = summaryOfStep l (TraitListObject.step c E l (.sort sp)) := by
  tlo_exec []

/-- **`TraitListObject.step` is the interpretation of the translated source**
(overrides of `TraitListObject`, whose `super()` is the translated `TraitList`
method), for every length configuration, validator, list and operation. -/
theorem tlo_step_is_source (c : LenCfg) (E : Env α) (l : List α) (op : Op α) :
    runTraitListObjectOp Generated.listHelpers Generated.traitListProg Generated.traitListObjectProg c E l op
      = summaryOfStep l (TraitListObject.step c E l op) := by
  cases op with
  | setIdx i x => exact tlo_setIdx c E l i x
  | setSlice s xs => exact tlo_setSlice c E l s xs
  | delIdx i => exact tlo_delIdx c E l i
  | delSlice s => exact tlo_delSlice c E l s
  | append x => exact tlo_append c E l x
  | extend xs => exact tlo_extend c E l xs
  | iadd xs => exact tlo_iadd c E l xs
  | imul n => exact tlo_imul c E l n
  | insert i x => exact tlo_insert c E l i x
  | pop i => exact tlo_pop c E l i
  | remove x => exact tlo_remove c E l x
  | clear => exact tlo_clear c E l
  | reverse => exact tlo_reverse c E l
  | sort sp => exact tlo_sort c E l sp

end TraitsVerif.Lemmas.PyL
