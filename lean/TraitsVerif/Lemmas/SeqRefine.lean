/-
`TraitList.step` refines the builtin list model on validated arguments.
-/
import TraitsVerif.Lemmas.SeqStep
namespace TraitsVerif.Model
open TraitsVerif TraitsVerif.Py
variable {α : Type}

theorem getSlice_ok_iff_setSlice_indices {l : List α} {s : Slice} :
    (∃ r, Py.getSlice l s = .ok r) ↔ (s.indices l.length).isSome := by
  cases h : s.indices l.length <;> simp [Py.getSlice, h]

theorem normalizeSlice_isSome {n : Nat} {s : Slice} :
    (normalizeSlice n s).isSome = (s.indices n).isSome := by
  cases h : s.indices n <;> simp [normalizeSlice, h]

/-- Success: the contents and return value are those of the builtin list on the
validated items. -/
theorem step_refines_ok (E : Env α) (l : List α) (op : Op α) (o : Out α)
    (h : TraitList.step E l op = .ok o) :
    ∃ op', validateOp E op = .ok op' ∧ pyStep E l op' = .ok (o.items, o.ret) := by
  cases op with
  | setIdx i x =>
    simp only [TraitList.step] at h
    cases hv : E.v 0 x with
    | error e' => simp [hv] at h
    | ok y =>
      cases hs : Py.setIdx l i y with
      | error e' => simp [hv, hs] at h
      | ok l' =>
        simp only [hv, hs, Except.ok.injEq] at h; subst h
        exact ⟨.setIdx i y, by simp [validateOp, hv, Except.map], by simp [pyStep, hs, Except.map]⟩
  | setSlice s xs =>
    simp only [TraitList.step] at h
    cases hrem : Py.getSlice l s with
    | error e' => simp [hrem] at h
    | ok removed =>
      cases hv : valAll E.v 0 xs with
      | error e' => simp [hrem, hv] at h
      | ok ys =>
        cases hset : Py.setSlice l s ys with
        | error e' => simp [hrem, hv, hset] at h
        | ok l' =>
          refine ⟨.setSlice s ys, by simp [validateOp, hv, Except.map], ?_⟩
          simp only [hrem, hv, hset] at h
          split at h
          · simp only [Except.ok.injEq] at h; subst h; simp [pyStep, hset, Except.map]
          · split at h
            · cases h
            · split at h <;>
                (simp only [Except.ok.injEq] at h; subst h; simp [pyStep, hset, Except.map])
  | delIdx i =>
    refine ⟨.delIdx i, rfl, ?_⟩
    simp only [TraitList.step] at h
    cases hj : normIdx l.length i with
    | none => simp [Py.delIdx, hj] at h
    | some j =>
      obtain ⟨h0, h1, hjn⟩ := normIdx_some hj
      have hjl : j < l.length := by omega
      simp only [Py.delIdx, hj, List.getElem?_eq_getElem hjl, Option.toList, List.isEmpty_cons,
        Bool.false_eq_true, if_false, normalizeIdx, Except.ok.injEq] at h
      subst h
      simp [pyStep, Py.delIdx, hj, Except.map]
  | delSlice s =>
    simp only [TraitList.step] at h
    cases hrem : Py.getSlice l s with
    | error e' => simp [hrem] at h
    | ok removed =>
      cases hdel : Py.delSlice l s with
      | error e' => simp [hrem, hdel] at h
      | ok l' =>
        refine ⟨.delSlice s, rfl, ?_⟩
        simp only [hrem, hdel] at h
        split at h
        · simp only [Except.ok.injEq] at h; subst h; simp [pyStep, hdel, Except.map]
        · split at h
          · cases h
          · simp only [Except.ok.injEq] at h; subst h; simp [pyStep, hdel, Except.map]
  | append x =>
    simp only [TraitList.step] at h
    cases hv : E.v 0 x with
    | error e' => simp [hv] at h
    | ok y =>
      simp only [hv, Except.ok.injEq] at h; subst h
      exact ⟨.append y, by simp [validateOp, hv, Except.map], by simp [pyStep]⟩
  | extend xs =>
    simp only [TraitList.step] at h
    cases hv : valAll E.v 0 xs with
    | error e' => simp [hv] at h
    | ok ys =>
      refine ⟨.extend ys, by simp [validateOp, hv, Except.map], ?_⟩
      simp only [hv] at h
      split at h <;> (simp only [Except.ok.injEq] at h; subst h; simp [pyStep])
  | iadd xs =>
    simp only [TraitList.step] at h
    cases hv : valAll E.v 0 xs with
    | error e' => simp [hv] at h
    | ok ys =>
      refine ⟨.iadd ys, by simp [validateOp, hv, Except.map], ?_⟩
      simp only [hv] at h
      split at h <;> (simp only [Except.ok.injEq] at h; subst h; simp [pyStep])
  | imul n =>
    refine ⟨.imul n, rfl, ?_⟩
    simp only [TraitList.step] at h
    split at h <;> split at h <;> (simp only [Except.ok.injEq] at h; subst h; simp [pyStep])
  | insert i x =>
    simp only [TraitList.step] at h
    cases hv : E.v 0 x with
    | error e' => simp [hv] at h
    | ok y =>
      simp only [hv, Except.ok.injEq] at h; subst h
      exact ⟨.insert i y, by simp [validateOp, hv, Except.map], by simp [pyStep]⟩
  | pop i =>
    refine ⟨.pop i, rfl, ?_⟩
    simp only [TraitList.step] at h
    cases hp : Py.pop l i with
    | error e' => simp [hp] at h
    | ok r =>
      obtain ⟨x, l'⟩ := r
      simp only [hp, Except.ok.injEq] at h; subst h
      simp [pyStep, hp, Except.map]
  | remove x =>
    refine ⟨.remove x, rfl, ?_⟩
    simp only [TraitList.step] at h
    cases hi : Py.index E.eq l x with
    | none => simp [hi] at h
    | some j =>
      cases hr : Py.remove E.eq l x with
      | error e' => simp [hi, hr] at h
      | ok l' =>
        simp only [hi, hr, Except.ok.injEq] at h; subst h
        simp [pyStep, hr, Except.map]
  | clear =>
    refine ⟨.clear, rfl, ?_⟩
    simp only [TraitList.step] at h
    split at h <;> (simp only [Except.ok.injEq] at h; subst h; simp [pyStep])
  | reverse =>
    refine ⟨.reverse, rfl, ?_⟩
    simp only [TraitList.step] at h
    split at h <;> (simp only [Except.ok.injEq] at h; subst h; simp [pyStep])
  | sort sp =>
    refine ⟨.sort sp, rfl, ?_⟩
    simp only [TraitList.step] at h
    split at h <;> (simp only [Except.ok.injEq] at h; subst h; simp [pyStep])

/-- Failure: the exception is the validator's, or the one the builtin list
raises on the validated (or, for a zero slice step, on the raw) arguments. -/
theorem step_refines_error (E : Env α) (l : List α) (op : Op α) (e : Exc)
    (h : TraitList.step E l op = .error e) :
    validateOp E op = .error e
    ∨ (∃ op', validateOp E op = .ok op' ∧ pyStep E l op' = .error e)
    ∨ pyStep E l op = .error e := by
  cases op with
  | setIdx i x =>
    simp only [TraitList.step] at h
    cases hv : E.v 0 x with
    | error e' => simp only [hv, Except.error.injEq] at h; subst h; left; simp [validateOp, hv, Except.map]
    | ok y =>
      cases hs : Py.setIdx l i y with
      | error e' =>
        simp only [hv, hs, Except.error.injEq] at h; subst h
        right; left
        exact ⟨.setIdx i y, by simp [validateOp, hv, Except.map], by simp [pyStep, hs, Except.map]⟩
      | ok l' => simp [hv, hs] at h
  | setSlice s xs =>
    simp only [TraitList.step] at h
    cases hrem : Py.getSlice l s with
    | error e' =>
      simp only [hrem, Except.error.injEq] at h; subst h
      right; right
      cases hidx : s.indices l.length with
      | none =>
        simp only [Py.getSlice, hidx, Except.error.injEq] at hrem; subst hrem
        simp [pyStep, Py.setSlice, hidx, Except.map]
      | some t => simp [Py.getSlice, hidx] at hrem
    | ok removed =>
      cases hv : valAll E.v 0 xs with
      | error e' =>
        simp only [hrem, hv, Except.error.injEq] at h; subst h
        left; simp [validateOp, hv, Except.map]
      | ok ys =>
        cases hset : Py.setSlice l s ys with
        | error e' =>
          simp only [hrem, hv, hset, Except.error.injEq] at h; subst h
          right; left
          exact ⟨.setSlice s ys, by simp [validateOp, hv, Except.map], by simp [pyStep, hset, Except.map]⟩
        | ok l' =>
          exfalso
          simp only [hrem, hv, hset] at h
          split at h
          · cases h
          · split at h
            · rename_i hn
              have h1 := (getSlice_ok_iff_setSlice_indices (l := l) (s := s)).mp ⟨removed, hrem⟩
              have h2 := normalizeSlice_isSome (n := l.length) (s := s)
              rw [hn, h1] at h2; cases h2
            · split at h <;> cases h
  | delIdx i =>
    simp only [TraitList.step] at h
    right; right
    cases hj : normIdx l.length i with
    | none =>
      simp only [Py.delIdx, hj, Except.error.injEq] at h; subst h
      simp [pyStep, Py.delIdx, hj, Except.map]
    | some j =>
      obtain ⟨h0, h1, hjn⟩ := normIdx_some hj
      have hjl : j < l.length := by omega
      simp [Py.delIdx, hj, List.getElem?_eq_getElem hjl, Option.toList, normalizeIdx] at h
  | delSlice s =>
    simp only [TraitList.step] at h
    cases hrem : Py.getSlice l s with
    | error e' =>
      simp only [hrem, Except.error.injEq] at h; subst h
      right; right
      cases hidx : s.indices l.length with
      | none =>
        simp only [Py.getSlice, hidx, Except.error.injEq] at hrem; subst hrem
        simp [pyStep, Py.delSlice, hidx, Except.map]
      | some t => simp [Py.getSlice, hidx] at hrem
    | ok removed =>
      cases hdel : Py.delSlice l s with
      | error e' =>
        simp only [hrem, hdel, Except.error.injEq] at h; subst h
        right; right; simp [pyStep, hdel, Except.map]
      | ok l' =>
        exfalso
        simp only [hrem, hdel] at h
        split at h
        · cases h
        · split at h
          · rename_i hn
            have h1 := (getSlice_ok_iff_setSlice_indices (l := l) (s := s)).mp ⟨removed, hrem⟩
            have h2 := normalizeSlice_isSome (n := l.length) (s := s)
            rw [hn, h1] at h2; cases h2
          · cases h
  | append x =>
    simp only [TraitList.step] at h
    cases hv : E.v 0 x with
    | error e' => simp only [hv, Except.error.injEq] at h; subst h; left; simp [validateOp, hv, Except.map]
    | ok y => simp [hv] at h
  | extend xs =>
    simp only [TraitList.step] at h
    cases hv : valAll E.v 0 xs with
    | error e' => simp only [hv, Except.error.injEq] at h; subst h; left; simp [validateOp, hv, Except.map]
    | ok ys => simp only [hv] at h; split at h <;> cases h
  | iadd xs =>
    simp only [TraitList.step] at h
    cases hv : valAll E.v 0 xs with
    | error e' => simp only [hv, Except.error.injEq] at h; subst h; left; simp [validateOp, hv, Except.map]
    | ok ys => simp only [hv] at h; split at h <;> cases h
  | imul n =>
    simp only [TraitList.step] at h
    split at h <;> split at h <;> cases h
  | insert i x =>
    simp only [TraitList.step] at h
    cases hv : E.v 0 x with
    | error e' => simp only [hv, Except.error.injEq] at h; subst h; left; simp [validateOp, hv, Except.map]
    | ok y => simp [hv] at h
  | pop i =>
    simp only [TraitList.step] at h
    cases hp : Py.pop l i with
    | error e' =>
      simp only [hp, Except.error.injEq] at h; subst h
      right; right; simp [pyStep, hp, Except.map]
    | ok r => obtain ⟨x, l'⟩ := r; simp [hp] at h
  | remove x =>
    simp only [TraitList.step] at h
    right; right
    cases hi : Py.index E.eq l x with
    | none =>
      simp only [hi, Except.error.injEq] at h; subst h
      simp [pyStep, Py.remove, hi, Except.map]
    | some j =>
      cases hr : Py.remove E.eq l x with
      | error e' => simp only [hi, hr, Except.error.injEq] at h; subst h; simp [pyStep, hr, Except.map]
      | ok l' => simp [hi, hr] at h
  | clear => simp only [TraitList.step] at h; split at h <;> cases h
  | reverse => simp only [TraitList.step] at h; split at h <;> cases h
  | sort sp => simp only [TraitList.step] at h; split at h <;> cases h

/-- Completeness: whenever the builtin list succeeds on the validated items, so
does `TraitList`, with the same contents and return value. -/
theorem step_refines_complete (E : Env α) (l : List α) (op op' : Op α) (l' : List α)
    (r : Option α) (hv : validateOp E op = .ok op') (hp : pyStep E l op' = .ok (l', r)) :
    ∃ o, TraitList.step E l op = .ok o ∧ o.items = l' ∧ o.ret = r := by
  cases hstep : TraitList.step E l op with
  | ok o =>
    obtain ⟨op'', hv', hp'⟩ := step_refines_ok E l op o hstep
    rw [hv] at hv'
    simp only [Except.ok.injEq] at hv'
    subst hv'
    rw [hp] at hp'
    simp only [Except.ok.injEq, Prod.mk.injEq] at hp'
    exact ⟨o, rfl, hp'.1.symm, hp'.2.symm⟩
  | error e =>
    exfalso
    rcases step_refines_error E l op e hstep with h1 | ⟨op'', h2, h3⟩ | h3
    · rw [hv] at h1; cases h1
    · rw [hv] at h2
      simp only [Except.ok.injEq] at h2
      subst h2
      rw [hp] at h3; cases h3
    · -- the raw operation fails on the builtin list; then so does the validated one
      -- (only index / slice-shape errors remain, which do not depend on the items)
      cases op with
      | setIdx i x =>
        simp only [validateOp, Except.map] at hv
        split at hv
        · cases hv
        · simp only [Except.ok.injEq] at hv; subst hv
          simp only [pyStep, Py.setIdx, Except.map] at h3 hp
          cases hn : normIdx l.length i <;> simp [hn] at h3 hp
      | setSlice s xs =>
        simp only [TraitList.step] at hstep
        simp only [validateOp, Except.map] at hv
        cases hv2 : valAll E.v 0 xs with
        | error e' => simp [hv2] at hv
        | ok ys =>
          simp only [hv2, Except.ok.injEq] at hv; subst hv
          simp only [pyStep, Except.map] at hp
          cases hset : Py.setSlice l s ys with
          | error e' => simp [hset] at hp
          | ok l'' =>
            cases hidx : s.indices l.length with
            | none => simp [Py.setSlice, hidx] at hset
            | some t =>
              simp only [Py.getSlice, hidx, hv2, hset, normalizeSlice] at hstep
              split at hstep
              · cases hstep
              · split at hstep <;> cases hstep
      | delIdx i => simp only [validateOp, Except.ok.injEq] at hv; subst hv; rw [hp] at h3; cases h3
      | delSlice s => simp only [validateOp, Except.ok.injEq] at hv; subst hv; rw [hp] at h3; cases h3
      | append x => simp [pyStep] at h3
      | extend xs => simp [pyStep] at h3
      | iadd xs => simp [pyStep] at h3
      | imul n => simp [pyStep] at h3
      | insert i x => simp [pyStep] at h3
      | pop i => simp only [validateOp, Except.ok.injEq] at hv; subst hv; rw [hp] at h3; cases h3
      | remove x => simp only [validateOp, Except.ok.injEq] at hv; subst hv; rw [hp] at h3; cases h3
      | clear => simp [pyStep] at h3
      | reverse => simp [pyStep] at h3
      | sort sp => simp [pyStep] at h3

end TraitsVerif.Model
