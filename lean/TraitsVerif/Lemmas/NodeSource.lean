/-
Cluster `obs`: the IObserver node interface of Model/ObsGraph.lean (`observables`,
`objects`, `Observer.notify`, the extra graph, the notifier keys) IS the
interpretation of the source text of the five observer classes
(Generated/NodeProg.lean, emitted by harness/translate/nodel.py; language and
interpreter: Model/NodeL.lean).
-/
import TraitsVerif.Generated.NodeProg
namespace TraitsVerif.Lemmas.NodeSource
open TraitsVerif TraitsVerif.Model.Obs TraitsVerif.Model.NodeL
open TraitsVerif.Generated

/-! ### the translated callees -/

theorem lookup_hasNamed :
    lookup NodeProg.table "_has_traits_helpers.object_has_named_trait" = some NodeProg.objectHasNamedTrait := by
  simp [lookup, NodeProg.table]
theorem lookup_iterObjects :
    lookup NodeProg.table "_has_traits_helpers.iter_objects" = some NodeProg.iterObjects := by
  simp [lookup, NodeProg.table]
theorem lookup_anytrait :
    lookup NodeProg.table "_anytrait_filter.anytrait_filter" = some NodeProg.anytraitFilter := by
  simp [lookup, NodeProg.table]
theorem lookup_metadata :
    lookup NodeProg.table "_metadata_filter.MetadataFilter.__call__" = some NodeProg.metadataFilterCall := by
  simp [lookup, NodeProg.table]

/-- `object_has_named_trait(object, name)` is `hasTrait`. -/
theorem call_hasNamed (h : Heap) (x : W) (n : Name) :
    callTable NodeProg.table h "_has_traits_helpers.object_has_named_trait" .none (.w x) (.name n)
      = .ok ([], some (.bool (hasTrait h x n))) := by
  simp only [callTable, lookup_hasNamed, runBody, NodeProg.objectHasNamedTrait, exec, eval, Env.upd, Env.empty]
  simp only [isInst, hasTrait]
  cases x with
  | none => simp [Heap.at]
  | some i =>
    cases hx : h.at (some i) with
    | inst fs =>
      cases hf : findField fs n <;> simp [hx, hf]
    | list _ => simp [hx]
    | dict _ => simp [hx]
    | set _ => simp [hx]
    | junk => simp [hx]

/-- what `iter_objects(object, name)` yields for the `__dict__` entry `v` -/
def yieldsOf : Val → List V
  | .unset => []
  | .undef => []
  | .none => []
  | v => [.val v]

theorem mapE_toW_yieldsOf (v : Val) : mapE toW (yieldsOf v) = .ok (valObjects v) := by
  cases v <;> simp [yieldsOf, mapE, toW, valW, valObjects]

def observable : Val → Bool
  | .unset => false
  | .undef => false
  | .none => false
  | _ => true

theorem allIsNot_eq (v : Val) :
    ([Const.undefined, .uninitialized, .noneLit].all (fun c => v != constVal c)) = observable v := by
  cases v <;> simp [constVal, observable]

theorem obs3 (v : Val) : (v != Val.undef && (v != Val.unset && v != Val.none)) = observable v := by
  cases v <;> simp [observable]

/-- `iter_objects(object, name)` of _has_traits_helpers.py yields `valObjects` of the field. -/
theorem call_iterObjects (h : Heap) (x : W) (n : Name) :
    callTable NodeProg.table h "_has_traits_helpers.iter_objects" .none (.w x) (.name n)
      = .ok (yieldsOf (fieldVal h x n), none) := by
  simp only [callTable, lookup_iterObjects, runBody, NodeProg.iterObjects, exec, eval, Env.upd, Env.empty]
  cases hv : fieldVal h x n <;>
    simp [hv, constVal, yieldsOf, Env.upd, obs3, observable]

/-- `self.filter(name, ctrait)` is `Filter.matches`. -/
theorem call_filter (h : Heap) (f : Filter) (n : Name) (fl : Field) :
    callTable NodeProg.table h (filterCallee f).1 (filterCallee f).2 (.name n) (.ctrait fl)
      = .ok ([], some (.bool (f.matches fl))) := by
  cases f with
  | anyTrait =>
    simp [filterCallee, callTable, lookup_anytrait, runBody, NodeProg.anytraitFilter, exec, eval, Filter.matches]
  | metadata =>
    simp only [filterCallee, callTable, lookup_metadata, runBody, NodeProg.metadataFilterCall, exec, eval,
      Env.upd, Env.empty, selfField, Filter.matches]
    cases ht : fl.tagged <;> simp [ht]

/-! ### `__init__`: every slot is set from the parameter of the same name, in the order of
the constructor arguments of `Observer` -/

theorem init_rows :
    NodeProg.namedInit = [(.name, "name"), (.notify, "notify"), (.optional, "optional")] ∧
    NodeProg.listItemsInit = [(.notify, "notify"), (.optional, "optional")] ∧
    NodeProg.dictItemsInit = [(.notify, "notify"), (.optional, "optional")] ∧
    NodeProg.setItemsInit = [(.notify, "notify"), (.optional, "optional")] ∧
    NodeProg.filteredInit = [(.notify, "notify"), (.filter, "filter")] := by
  decide

/-- `self.notify` as read by the interpreter is `Observer.notify`. -/
theorem notify_is_field (ob : Observer) : selfField (.ob ob) .notify = .ok (.bool ob.notify) := by
  cases ob <;> rfl

/-! ### small facts -/

theorem hasTrait_inst {h : Heap} {x : W} {n : Name} (ht : hasTrait h x n = true) :
    ∃ i fs, x = some i ∧ h.at (some i) = .inst fs := by
  cases x with
  | none => simp [hasTrait, Heap.at] at ht
  | some i =>
    cases hx : h.at (some i) with
    | inst fs => exact ⟨i, fs, rfl, hx⟩
    | list _ => simp [hasTrait, hx] at ht
    | dict _ => simp [hasTrait, hx] at ht
    | set _ => simp [hasTrait, hx] at ht
    | junk => simp [hasTrait, hx] at ht

theorem mapE_toW_map {α} (g : α → W) : ∀ l : List α, mapE toW (l.map (fun a => V.w (g a))) = .ok (l.map g)
  | [] => rfl
  | a :: l => by simp [mapE, toW, mapE_toW_map g l]

theorem mapE_toObservable_map {α} (i : Id) (g : α → Name) :
    ∀ l : List α, mapE toObservable (l.map (fun a => V.itrait i (g a))) = .ok (l.map (fun a => .trait i (g a)))
  | [] => rfl
  | a :: l => by simp [mapE, toObservable, mapE_toObservable_map i g l]

theorem mapE_append {α β} (f : α → Except Exc β) (l₁ l₂ : List α) (r₁ r₂ : List β)
    (h₁ : mapE f l₁ = .ok r₁) (h₂ : mapE f l₂ = .ok r₂) : mapE f (l₁ ++ l₂) = .ok (r₁ ++ r₂) := by
  induction l₁ generalizing r₁ with
  | nil => simp [mapE] at h₁; subst h₁; simpa using h₂
  | cons a l ih =>
    simp only [mapE, List.cons_append] at h₁ ⊢
    cases hfa : f a with
    | error e => simp [hfa] at h₁
    | ok b =>
      cases hl : mapE f l with
      | error e => simp [hfa, hl] at h₁
      | ok bs =>
        simp [hfa, hl] at h₁
        subst h₁
        simp [ih bs hl]

theorem at_none (h : Heap) : h.at none = .junk := rfl

/-! ### NamedTraitObserver -/

theorem named_observables (h : Heap) (n : Name) (nt opt : Bool) (x : W) :
    observables h (.named n nt opt) x
      = runIterObservables NodeProg.table h NodeProg.namedIterObservables (.named n nt opt) x := by
  simp only [runIterObservables, runGen, NodeProg.namedIterObservables, exec, eval, Env.upd, Env.empty,
    selfField, observables]
  cases ht : hasTrait h x n with
  | true =>
    obtain ⟨i, fs, rfl, hx⟩ := hasTrait_inst ht
    simp [call_hasNamed, hx, ht, mapE, toObservable, Env.upd]
  | false =>
    cases x <;> cases opt <;> simp [call_hasNamed, ht, mapE]

theorem named_objects (h : Heap) (n : Name) (nt opt : Bool) (x : W) :
    objects h (.named n nt opt) x
      = runIterObjects NodeProg.table h NodeProg.namedIterObjects (.named n nt opt) x := by
  simp only [runIterObjects, runGen, NodeProg.namedIterObjects, exec, eval, evalIt, Env.upd, Env.empty,
    selfField, objects]
  cases ht : hasTrait h x n with
  | true => simp [call_hasNamed, call_iterObjects, ht, mapE_toW_yieldsOf, Env.upd]
  | false => cases opt <;> simp [call_hasNamed, ht, mapE]

/-! ### ListItemObserver / DictItemObserver / SetItemObserver -/

theorem listItems_observables (h : Heap) (nt opt : Bool) (x : W) :
    observables h (.listItems nt opt) x
      = runIterObservables NodeProg.table h NodeProg.listItemsIterObservables (.listItems nt opt) x := by
  simp only [runIterObservables, runGen, NodeProg.listItemsIterObservables, exec, eval, Env.upd, Env.empty,
    selfField, observables, isInst]
  cases x with
  | none => cases opt <;> simp [mapE]
  | some i => cases hx : h.at (some i) <;> cases opt <;> simp [hx, mapE, toObservable, Env.upd]

theorem dictItems_observables (h : Heap) (nt opt : Bool) (x : W) :
    observables h (.dictItems nt opt) x
      = runIterObservables NodeProg.table h NodeProg.dictItemsIterObservables (.dictItems nt opt) x := by
  simp only [runIterObservables, runGen, NodeProg.dictItemsIterObservables, exec, eval, Env.upd, Env.empty,
    selfField, observables, isInst]
  cases x with
  | none => cases opt <;> simp [mapE]
  | some i => cases hx : h.at (some i) <;> cases opt <;> simp [hx, mapE, toObservable, Env.upd]

theorem setItems_observables (h : Heap) (nt opt : Bool) (x : W) :
    observables h (.setItems nt opt) x
      = runIterObservables NodeProg.table h NodeProg.setItemsIterObservables (.setItems nt opt) x := by
  simp only [runIterObservables, runGen, NodeProg.setItemsIterObservables, exec, eval, Env.upd, Env.empty,
    selfField, observables, isInst]
  cases x with
  | none => cases opt <;> simp [mapE]
  | some i => cases hx : h.at (some i) <;> cases opt <;> simp [hx, mapE, toObservable, Env.upd]

theorem listItems_objects (h : Heap) (nt opt : Bool) (x : W) :
    objects h (.listItems nt opt) x
      = runIterObjects NodeProg.table h NodeProg.listItemsIterObjects (.listItems nt opt) x := by
  simp only [runIterObjects, runGen, NodeProg.listItemsIterObjects, exec, eval, evalIt, Env.upd, Env.empty,
    selfField, objects, isInst]
  cases x with
  | none => cases opt <;> simp [at_none, mapE]
  | some i => cases hx : h.at (some i) <;> cases opt <;> simp [hx, mapE, mapE_toW_map some, Env.upd]

theorem dictItems_objects (h : Heap) (nt opt : Bool) (x : W) :
    objects h (.dictItems nt opt) x
      = runIterObjects NodeProg.table h NodeProg.dictItemsIterObjects (.dictItems nt opt) x := by
  simp only [runIterObjects, runGen, NodeProg.dictItemsIterObjects, exec, eval, evalIt, Env.upd, Env.empty,
    selfField, objects, isInst]
  cases x with
  | none => cases opt <;> simp [at_none, mapE]
  | some i =>
    cases hx : h.at (some i) <;> cases opt <;>
      simp [hx, mapE, mapE_toW_map (fun kv : Key × Id => some kv.2), Env.upd]

theorem setItems_objects (h : Heap) (nt opt : Bool) (x : W) :
    objects h (.setItems nt opt) x
      = runIterObjects NodeProg.table h NodeProg.setItemsIterObjects (.setItems nt opt) x := by
  simp only [runIterObjects, runGen, NodeProg.setItemsIterObjects, exec, eval, evalIt, Env.upd, Env.empty,
    selfField, objects, isInst]
  cases x with
  | none => cases opt <;> simp [at_none, mapE]
  | some i => cases hx : h.at (some i) <;> cases opt <;> simp [hx, mapE, mapE_toW_map some, Env.upd]

/-! ### FilteredTraitObserver -/

/-- the names `traits()` lists are distinct (it is a dict), so that `__dict__.get(name)`
reads the value of the listed trait itself -/
def FieldsDistinct (h : Heap) (x : W) : Prop :=
  ∀ fs, h.at x = .inst fs → ∀ fl ∈ fs, findField fs fl.name = some fl

theorem loop_gen (F : Field → Env → Except Exc (List V × Flow)) (P : Env → Prop) (ys : Field → List V)
    (hF : ∀ fl ρ, P ρ → ∃ ρ', F fl ρ = .ok (ys fl, .next ρ') ∧ P ρ') :
    ∀ (fs : List Field) (ρ : Env), P ρ → ∃ ρ', loop F fs ρ = .ok (fs.flatMap ys, .next ρ') ∧ P ρ' := by
  intro fs
  induction fs with
  | nil => intro ρ h0; exact ⟨ρ, rfl, h0⟩
  | cons fl fs ih =>
    intro ρ h0
    obtain ⟨ρ₁, h1, hP1⟩ := hF fl ρ h0
    obtain ⟨ρ', hl, hρ'⟩ := ih ρ₁ hP1
    exact ⟨ρ', by simp [loop, h1, hl], hρ'⟩

theorem flatMap_ite_filter {β} (p : Field → Bool) (g : Field → List β) :
    ∀ l : List Field, l.flatMap (fun a => if p a then g a else []) = (l.filter p).flatMap g
  | [] => rfl
  | a :: l => by
    cases hp : p a <;> simp [hp, flatMap_ite_filter p g l]

theorem flatMap_single {α β} (k : α → β) : ∀ l : List α, l.flatMap (fun a => [k a]) = l.map k
  | [] => rfl
  | a :: l => by simp [flatMap_single k l]

theorem loop_observables (h : Heap) (f : Filter) (nt : Bool) (i : Id) (fs0 : List Field)
    (hx : h.at (some i) = .inst fs0) (fs : List Field) (ρ : Env) (h0 : ρ 0 = some (.w (some i))) :
    ∃ ρ', loop (fun fl ρ' => exec (callTable NodeProg.table h) h (.ob (.filtered f nt))
        (.ifS (.callF (.selfF .filter) (.var 1) (.var 2)) (.yield (.traitOf (.var 0) (.var 1) 2)) .skip)
        ((ρ'.upd 1 (.name fl.name)).upd 2 (.ctrait fl))) fs ρ
      = .ok ((fs.filter f.matches).map (fun fl => V.itrait i fl.name), .next ρ') ∧ ρ' 0 = some (.w (some i)) := by
  have := loop_gen (fun fl ρ' => exec (callTable NodeProg.table h) h (.ob (.filtered f nt))
        (.ifS (.callF (.selfF .filter) (.var 1) (.var 2)) (.yield (.traitOf (.var 0) (.var 1) 2)) .skip)
        ((ρ'.upd 1 (.name fl.name)).upd 2 (.ctrait fl))) (fun ρ => ρ 0 = some (.w (some i)))
      (fun fl => if f.matches fl then [V.itrait i fl.name] else [])
      (by
        intro fl ρ h0
        refine ⟨(ρ.upd 1 (.name fl.name)).upd 2 (.ctrait fl), ?_, by simp [Env.upd, h0]⟩
        simp only [exec, eval, selfField]
        cases hm : f.matches fl <;> simp [call_filter, hm, Env.upd, h0, hx])
      fs ρ h0
  rw [flatMap_ite_filter, flatMap_single] at this
  exact this

theorem exec_forTraits (call : Call) (h : Heap) (self : Self) (i j : Nat) (o : Ex) (body : St) (ρ : Env)
    (x : W) (fs : List Field) (he : eval call h self o ρ = .ok (.w x)) (hx : h.at x = .inst fs) :
    exec call h self (.forTraits i j o body) ρ
      = loop (fun fl ρ' => exec call h self body ((ρ'.upd i (.name fl.name)).upd j (.ctrait fl))) fs ρ := by
  simp [exec, he, hx]

theorem filtered_observables (h : Heap) (f : Filter) (nt : Bool) (x : W) :
    observables h (.filtered f nt) x
      = runIterObservables NodeProg.table h NodeProg.filteredIterObservables (.filtered f nt) x := by
  cases x with
  | none =>
    simp [runIterObservables, runGen, NodeProg.filteredIterObservables, exec, eval, observables, Env.upd, at_none]
  | some i =>
    cases hx : h.at (some i) with
    | inst fs =>
      obtain ⟨ρ', hl, _⟩ := loop_observables h f nt i fs hx fs (Env.empty.upd 0 (.w (some i))) (by simp [Env.upd])
      have he : eval (callTable NodeProg.table h) h (.ob (.filtered f nt)) (.var 0)
          (Env.empty.upd 0 (.w (some i))) = .ok (.w (some i)) := by simp [eval, Env.upd]
      simp only [runIterObservables, runGen, NodeProg.filteredIterObservables, observables]
      rw [exec_forTraits _ _ _ _ _ _ _ _ _ _ he hx, hl]
      simp [hx, mapE_toObservable_map i (fun fl : Field => fl.name)]
    | list _ =>
      simp [runIterObservables, runGen, NodeProg.filteredIterObservables, exec, eval, observables, Env.upd, hx]
    | dict _ =>
      simp [runIterObservables, runGen, NodeProg.filteredIterObservables, exec, eval, observables, Env.upd, hx]
    | set _ =>
      simp [runIterObservables, runGen, NodeProg.filteredIterObservables, exec, eval, observables, Env.upd, hx]
    | junk =>
      simp [runIterObservables, runGen, NodeProg.filteredIterObservables, exec, eval, observables, Env.upd, hx]

theorem loop_objects (h : Heap) (f : Filter) (nt : Bool) (x : W) (fs : List Field) (ρ : Env)
    (h0 : ρ 0 = some (.w x)) :
    ∃ ρ', loop (fun fl ρ' => exec (callTable NodeProg.table h) h (.ob (.filtered f nt))
        (.ifS (.callF (.selfF .filter) (.var 1) (.var 2))
          (.yieldFrom (.call2 "_has_traits_helpers.iter_objects" (.var 0) (.var 1))) .skip)
        ((ρ'.upd 1 (.name fl.name)).upd 2 (.ctrait fl))) fs ρ
      = .ok ((fs.filter f.matches).flatMap (fun fl => yieldsOf (fieldVal h x fl.name)), .next ρ')
      ∧ ρ' 0 = some (.w x) := by
  have := loop_gen (fun fl ρ' => exec (callTable NodeProg.table h) h (.ob (.filtered f nt))
        (.ifS (.callF (.selfF .filter) (.var 1) (.var 2))
          (.yieldFrom (.call2 "_has_traits_helpers.iter_objects" (.var 0) (.var 1))) .skip)
        ((ρ'.upd 1 (.name fl.name)).upd 2 (.ctrait fl))) (fun ρ => ρ 0 = some (.w x))
      (fun fl => if f.matches fl then yieldsOf (fieldVal h x fl.name) else [])
      (by
        intro fl ρ h0
        refine ⟨(ρ.upd 1 (.name fl.name)).upd 2 (.ctrait fl), ?_, by simp [Env.upd, h0]⟩
        simp only [exec, eval, evalIt, selfField]
        cases hm : f.matches fl <;> simp [call_filter, call_iterObjects, hm, Env.upd, h0])
      fs ρ h0
  rw [flatMap_ite_filter] at this
  exact this

theorem mapE_toW_flatMap (g : Field → Val) :
    ∀ l : List Field, mapE toW (l.flatMap (fun fl => yieldsOf (g fl))) = .ok (l.flatMap (fun fl => valObjects (g fl)))
  | [] => rfl
  | a :: l => by
    simp only [List.flatMap_cons]
    exact mapE_append toW _ _ _ _ (mapE_toW_yieldsOf (g a)) (mapE_toW_flatMap g l)

theorem flatMap_congr' {α β} (f g : α → List β) :
    ∀ l : List α, (∀ a ∈ l, f a = g a) → l.flatMap f = l.flatMap g
  | [], _ => rfl
  | a :: l, hfg => by
    simp only [List.flatMap_cons]
    rw [hfg a (by simp), flatMap_congr' f g l (fun b hb => hfg b (by simp [hb]))]

theorem filtered_objects (h : Heap) (f : Filter) (nt : Bool) (x : W) (hd : FieldsDistinct h x) :
    objects h (.filtered f nt) x
      = runIterObjects NodeProg.table h NodeProg.filteredIterObjects (.filtered f nt) x := by
  cases hx : h.at x with
  | inst fs =>
    obtain ⟨ρ', hl, _⟩ := loop_objects h f nt x fs (Env.empty.upd 0 (.w x)) (by simp [Env.upd])
    have he : eval (callTable NodeProg.table h) h (.ob (.filtered f nt)) (.var 0)
        (Env.empty.upd 0 (.w x)) = .ok (.w x) := by simp [eval, Env.upd]
    simp only [runIterObjects, runGen, NodeProg.filteredIterObjects, objects]
    rw [exec_forTraits _ _ _ _ _ _ _ _ _ _ he hx, hl]
    simp only [hx, mapE_toW_flatMap (fun fl => fieldVal h x fl.name)]
    congr 1
    apply flatMap_congr'
    intro fl hfl
    have hmem : fl ∈ fs := (List.mem_filter.mp hfl).1
    simp [fieldVal, hx, hd fs hx fl hmem]
  | list _ => simp [runIterObjects, runGen, NodeProg.filteredIterObjects, exec, eval, objects, Env.upd, hx]
  | dict _ => simp [runIterObjects, runGen, NodeProg.filteredIterObjects, exec, eval, objects, Env.upd, hx]
  | set _ => simp [runIterObjects, runGen, NodeProg.filteredIterObjects, exec, eval, objects, Env.upd, hx]
  | junk => simp [runIterObjects, runGen, NodeProg.filteredIterObjects, exec, eval, objects, Env.upd, hx]

/-! ### `iter_extra_graphs`, `get_notifier`, `get_maintainer` -/

/-- the `optional` flag of the `TraitAddedObserver` at the root of the extra graph -/
def extraOptional : Observer → Option Bool
  | .named _ _ o => some o          -- _named_trait_observer.py: `optional=self.optional`
  | .filtered .. => some false      -- _filtered_trait_observer.py: `optional=False`
  | _ => none                       -- `yield from ()`

/-- its `match_func` -/
def extraMatch : Observer → Option MF
  | .named n nt o => some (.lam 1 2 (.eq (.var 1) (.selfF .name)) (.ob (.named n nt o)))
  | .filtered f _ => some (.listed f)
  | _ => none

def extrasOf (ob : Observer) (g : Graph) : List Extra :=
  match extraMatch ob, extraOptional ob with
  | some m, some o => [⟨m, o, g⟩]
  | _, _ => []

/-- `TraitAddedObserver.iter_observables` (_trait_added_observer.py:68-90) for a given `optional` -/
def traitAddedObservables (h : Heap) (optional : Bool) (x : W) : Except Exc (List Observable) :=
  match x, h.at x with
  | some i, .inst _ => .ok [.trait i nTraitAdded]
  | _, _ => if optional then .ok [] else .error .valueError

/-- the translated methods of the class of an observer -/
structure ClassProgs where
  iterObservables : St
  iterObjects : St
  getNotifier : St
  getMaintainer : St
  iterExtraGraphs : St

def classOf : Observer → ClassProgs
  | .named .. => ⟨NodeProg.namedIterObservables, NodeProg.namedIterObjects, NodeProg.namedGetNotifier,
      NodeProg.namedGetMaintainer, NodeProg.namedIterExtraGraphs⟩
  | .listItems .. => ⟨NodeProg.listItemsIterObservables, NodeProg.listItemsIterObjects,
      NodeProg.listItemsGetNotifier, NodeProg.listItemsGetMaintainer, NodeProg.listItemsIterExtraGraphs⟩
  | .dictItems .. => ⟨NodeProg.dictItemsIterObservables, NodeProg.dictItemsIterObjects,
      NodeProg.dictItemsGetNotifier, NodeProg.dictItemsGetMaintainer, NodeProg.dictItemsIterExtraGraphs⟩
  | .setItems .. => ⟨NodeProg.setItemsIterObservables, NodeProg.setItemsIterObjects,
      NodeProg.setItemsGetNotifier, NodeProg.setItemsGetMaintainer, NodeProg.setItemsIterExtraGraphs⟩
  | .filtered .. => ⟨NodeProg.filteredIterObservables, NodeProg.filteredIterObjects,
      NodeProg.filteredGetNotifier, NodeProg.filteredGetMaintainer, NodeProg.filteredIterExtraGraphs⟩

/-- `event_factory=` of both notifiers of an observer (not visible in the model: pinned here) -/
def eventFactoryOf : Observer → String
  | .named .. => "_trait_change_event.trait_event_factory"
  | .filtered .. => "_trait_change_event.trait_event_factory"
  | .listItems .. => "_list_change_event.list_event_factory"
  | .dictItems .. => "_dict_change_event.dict_event_factory"
  | .setItems .. => "_set_change_event.set_event_factory"

/-- `prevent_event=` of the user notifier: `ctrait_prevent_event` for trait observers
(Model/Maintain: `prevents`), nothing is prevented for the item observers -/
def preventUserOf : Observer → PE
  | .named .. => .ref "_has_traits_helpers.ctrait_prevent_event"
  | .filtered .. => .ref "_has_traits_helpers.ctrait_prevent_event"
  | _ => .constLam false

theorem extra_graphs (h : Heap) (ob : Observer) (g : Graph) :
    runIterExtraGraphs NodeProg.table h (classOf ob).iterExtraGraphs ob g = .ok (extrasOf ob g) := by
  cases ob <;>
    simp [runIterExtraGraphs, runGen, classOf, NodeProg.namedIterExtraGraphs, NodeProg.listItemsIterExtraGraphs,
      NodeProg.dictItemsIterExtraGraphs, NodeProg.setItemsIterExtraGraphs, NodeProg.filteredIterExtraGraphs,
      exec, eval, evalIt, selfField, Env.upd, mapE, toExtra, extrasOf, extraMatch, extraOptional]

theorem extraObservables_eq (h : Heap) (ob : Observer) (x : W) :
    extraObservables h ob x =
      match extraOptional ob with
      | some opt => traitAddedObservables h opt x
      | none => .ok [] := by
  cases ob <;> simp only [extraObservables, extraOptional, traitAddedObservables] <;>
    (cases x with
     | none => rfl
     | some i => cases h.at (some i) <;> rfl)

theorem get_notifier (h : Heap) (ob : Observer) (hd : Nat) (t : Id) :
    runGetNotifier NodeProg.table h (classOf ob).getNotifier ob hd (some t)
      = .ok (.notifier (.user ⟨hd, t⟩) (eventFactoryOf ob) (preventUserOf ob)) := by
  cases ob <;>
    simp [runGetNotifier, runRet, classOf, NodeProg.namedGetNotifier, NodeProg.listItemsGetNotifier,
      NodeProg.dictItemsGetNotifier, NodeProg.setItemsGetNotifier, NodeProg.filteredGetNotifier,
      exec, eval, hkey, Env.upd, eventFactoryOf, preventUserOf]

theorem get_maintainer (h : Heap) (ob : Observer) (c : Graph) (hd : Nat) (t : Id) :
    runGetMaintainer NodeProg.table h (classOf ob).getMaintainer ob c hd (some t)
      = .ok (.notifier (.maint ob.mkind c ⟨hd, t⟩) (eventFactoryOf ob) (.constLam false)) := by
  cases ob <;>
    simp [runGetMaintainer, runRet, classOf, NodeProg.namedGetMaintainer, NodeProg.listItemsGetMaintainer,
      NodeProg.dictItemsGetMaintainer, NodeProg.setItemsGetMaintainer, NodeProg.filteredGetMaintainer,
      exec, eval, hkey, mkindOf, Env.upd, eventFactoryOf, Observer.mkind]

/-- `match_func(name, trait)` of the extra graph of a named observer: `name == self.name`. -/
theorem match_named (h : Heap) (n : Name) (nt o : Bool) (m : Name) (fl : Field) :
    applyMatch NodeProg.table h (.lam 1 2 (.eq (.var 1) (.selfF .name)) (.ob (.named n nt o))) m fl
      = .ok (.bool (m == n)) := by
  simp [applyMatch, eval, selfField, Env.upd]

theorem lookup_listed :
    lookup NodeProg.table "_filtered_trait_observer._ListedTraitFilter.__call__" = some NodeProg.listedFilterCall := by
  simp [lookup, NodeProg.table]

/-- … of a filtered observer: the translated `_ListedTraitFilter.__call__`
(`name[-6:] != "_items" and self.filter(name, trait)`), i.e. the filter itself: the model's
names never end in "_items". -/
theorem match_filtered (h : Heap) (f : Filter) (m : Name) (fl : Field) :
    applyMatch NodeProg.table h (.listed f) m fl = .ok (.bool (f.matches fl)) := by
  simp only [applyMatch, lookup_listed, runBody, NodeProg.listedFilterCall, exec, eval, selfField]
  simp [Env.upd, call_filter]

/-! ### the node interface is the source -/

theorem observables_is_source (h : Heap) (ob : Observer) (x : W) :
    observables h ob x = runIterObservables NodeProg.table h (classOf ob).iterObservables ob x := by
  cases ob with
  | named n nt o => exact named_observables h n nt o x
  | listItems nt o => exact listItems_observables h nt o x
  | dictItems nt o => exact dictItems_observables h nt o x
  | setItems nt o => exact setItems_observables h nt o x
  | filtered f nt => exact filtered_observables h f nt x

theorem objects_is_source (h : Heap) (ob : Observer) (x : W) (hd : FieldsDistinct h x) :
    objects h ob x = runIterObjects NodeProg.table h (classOf ob).iterObjects ob x := by
  cases ob with
  | named n nt o => exact named_objects h n nt o x
  | listItems nt o => exact listItems_objects h nt o x
  | dictItems nt o => exact dictItems_objects h nt o x
  | setItems nt o => exact setItems_objects h nt o x
  | filtered f nt => exact filtered_objects h f nt x hd

/-- only the filtered observer needs the distinctness of the listed names -/
theorem objects_is_source_unfiltered (h : Heap) (ob : Observer) (x : W)
    (hf : ∀ f nt, ob ≠ .filtered f nt) :
    objects h ob x = runIterObjects NodeProg.table h (classOf ob).iterObjects ob x := by
  cases ob with
  | named n nt o => exact named_objects h n nt o x
  | listItems nt o => exact listItems_objects h nt o x
  | dictItems nt o => exact dictItems_objects h nt o x
  | setItems nt o => exact setItems_objects h nt o x
  | filtered f nt => exact absurd rfl (hf f nt)

/-- The IObserver interface of a graph node, as the model has it, is the interpretation of
the translated source of the observer's class — for every heap, object, observer, child graph,
handler and target. -/
theorem node_interface_is_source (h : Heap) (ob : Observer) (x : W) (g c : Graph) (hd : Nat) (t : Id) :
    observables h ob x = runIterObservables NodeProg.table h (classOf ob).iterObservables ob x ∧
    (FieldsDistinct h x ∨ (∀ f nt, ob ≠ .filtered f nt) →
      objects h ob x = runIterObjects NodeProg.table h (classOf ob).iterObjects ob x) ∧
    selfField (.ob ob) .notify = .ok (.bool ob.notify) ∧
    runIterExtraGraphs NodeProg.table h (classOf ob).iterExtraGraphs ob g = .ok (extrasOf ob g) ∧
    (extraObservables h ob x =
      match extraOptional ob with
      | some opt => traitAddedObservables h opt x
      | none => .ok []) ∧
    runGetNotifier NodeProg.table h (classOf ob).getNotifier ob hd (some t)
      = .ok (.notifier (.user ⟨hd, t⟩) (eventFactoryOf ob) (preventUserOf ob)) ∧
    runGetMaintainer NodeProg.table h (classOf ob).getMaintainer ob c hd (some t)
      = .ok (.notifier (.maint ob.mkind c ⟨hd, t⟩) (eventFactoryOf ob) (.constLam false)) :=
  ⟨observables_is_source h ob x,
   fun hyp => hyp.elim (objects_is_source h ob x) (objects_is_source_unfiltered h ob x),
   notify_is_field ob, extra_graphs h ob g, extraObservables_eq h ob x,
   get_notifier h ob hd t, get_maintainer h ob c hd t⟩

/-- non-vacuity: an instance with two distinct traits satisfies `FieldsDistinct`, the filtered
observer yields both objects, and the interpreted source agrees. -/
example :
    let h : Heap := [(1, .inst [⟨0, true, .val .none, .ref 2, .equality⟩, ⟨1, false, .val .none, .ref 3, .equality⟩])]
    FieldsDistinct h (some 1) ∧
    runIterObjects NodeProg.table h NodeProg.filteredIterObjects (.filtered .anyTrait true) (some 1)
      = .ok [some 2, some 3] := by
  refine ⟨?_, ?_⟩
  · intro fs hfs fl hfl
    simp [Heap.at, Heap.get] at hfs
    subst hfs
    simp at hfl
    rcases hfl with rfl | rfl <;> simp [findField]
  · rw [← filtered_objects _ _ _ _ (by
      intro fs hfs fl hfl
      simp [Heap.at, Heap.get] at hfs
      subst hfs
      simp at hfl
      rcases hfl with rfl | rfl <;> simp [findField])]
    rfl

/-- the hypothesis is needed: with a repeated name the source reads `__dict__` by name (the
value of the first), the model the value of each listed field. -/
example :
    let h : Heap := [(1, .inst [⟨0, true, .val .none, .ref 2, .equality⟩, ⟨0, true, .val .none, .ref 3, .equality⟩])]
    objects h (.filtered .anyTrait true) (some 1) = .ok [some 2, some 3] ∧ ¬ FieldsDistinct h (some 1) := by
  refine ⟨rfl, ?_⟩
  intro hd
  have := hd _ rfl ⟨0, true, .val .none, .ref 3, .equality⟩ (by simp)
  simp [findField] at this

/-! ### TraitAddedObserver / _RestrictedNamedTraitObserver (_trait_added_observer.py) -/

theorem added_init_rows :
    NodeProg.addedInit = [(.matchFunc, "match_func"), (.optional, "optional")] ∧
    NodeProg.restrictedInit = [(.name, "name"), (.wrapped, "wrapped_observer")] := by
  decide

/-- `TraitAddedObserver.notify` is `False`. -/
theorem added_notify (h : Heap) (m : MF) (opt : Bool) :
    runNotify NodeProg.table h NodeProg.addedNotify (.added m opt) = .ok (.bool false) := by
  simp [runNotify, runRetS, NodeProg.addedNotify, exec, eval]

/-- `_RestrictedNamedTraitObserver.notify` is the wrapped observer's. -/
theorem restricted_notify (h : Heap) (n : Name) (w : Observer) :
    runNotify NodeProg.table h NodeProg.restrictedNotify (.restricted n w) = .ok (.bool w.notify) := by
  cases w <;> simp [runNotify, runRetS, NodeProg.restrictedNotify, exec, eval, selfField, Observer.notify]

/-- `TraitAddedObserver.iter_observables`: the `trait_added` trait of an instance, else nothing
(optional) / ValueError — what `extraObservables` uses (`extraObservables_eq`). -/
theorem added_observables (h : Heap) (m : MF) (opt : Bool) (x : W)
    (hta : ∀ fs, h.at x = .inst fs → (findField fs nTraitAdded).isSome) :
    runIterObservablesS NodeProg.table h NodeProg.addedIterObservables (.added m opt) x
      = traitAddedObservables h opt x := by
  simp only [runIterObservablesS, runGenS, NodeProg.addedIterObservables, exec, eval, selfField,
    traitAddedObservables]
  cases x with
  | none => cases opt <;> simp [call_hasNamed, hasTrait, at_none, Env.upd, mapE]
  | some i =>
    cases hx : h.at (some i) with
    | inst fs =>
      have := hta fs hx
      simp [call_hasNamed, hasTrait, hx, this, Env.upd, mapE, toObservable]
    | list _ => cases opt <;> simp [call_hasNamed, hasTrait, hx, Env.upd, mapE]
    | dict _ => cases opt <;> simp [call_hasNamed, hasTrait, hx, Env.upd, mapE]
    | set _ => cases opt <;> simp [call_hasNamed, hasTrait, hx, Env.upd, mapE]
    | junk => cases opt <;> simp [call_hasNamed, hasTrait, hx, Env.upd, mapE]

/-- `TraitAddedObserver.iter_objects` / `iter_extra_graphs` and
`_RestrictedNamedTraitObserver.iter_extra_graphs` yield nothing. -/
theorem added_restricted_empty (h : Heap) (m : MF) (opt : Bool) (n : Name) (w : Observer) (x : W) (g : Graph) :
    runIterObjectsS NodeProg.table h NodeProg.addedIterObjects (.added m opt) x = .ok [] ∧
    runIterExtraGraphsS NodeProg.table h NodeProg.addedIterExtraGraphs (.added m opt) g = .ok [] ∧
    runIterExtraGraphsS NodeProg.table h NodeProg.restrictedIterExtraGraphs (.restricted n w) g = .ok [] := by
  simp [runIterObjectsS, runIterExtraGraphsS, runGenS, NodeProg.addedIterObjects, NodeProg.addedIterExtraGraphs,
    NodeProg.restrictedIterExtraGraphs, exec, evalIt, mapE]

/-- `TraitAddedObserver.get_maintainer`: an `ObserverChangeNotifier` whose `observer_handler` is
`TraitAddedObserver.observer_change_handler` (`MKind.added`) and whose `prevent_event` is
`self.prevent_event`. -/
theorem added_get_maintainer (h : Heap) (m : MF) (opt : Bool) (c : Graph) (hd : Nat) (t : Id) :
    runRetS NodeProg.table h NodeProg.addedGetMaintainer (.added m opt)
        ((((Env.empty.upd 0 (.graph c)).upd 1 (.handler hd)).upd 2 (.w (some t))).upd 3 .dispatcher)
      = .ok (.notifier (.maint .added c ⟨hd, t⟩) "_trait_change_event.trait_event_factory"
          (.ref "_trait_added_observer.TraitAddedObserver.prevent_event")) := by
  simp [runRetS, NodeProg.addedGetMaintainer, exec, eval, hkey, mkindOf, Env.upd]

/-- `_RestrictedNamedTraitObserver.iter_observables` yields `object._trait(self.name, 2)`
UNCONDITIONALLY (AttributeError on a non-instance). -/
theorem restricted_observables_raw (h : Heap) (n : Name) (w : Observer) (x : W) :
    runIterObservablesS NodeProg.table h NodeProg.restrictedIterObservables (.restricted n w) x
      = match x, h.at x with
        | some i, .inst _ => .ok [.trait i n]
        | _, _ => .error .attributeError := by
  simp only [runIterObservablesS, runGenS, NodeProg.restrictedIterObservables, exec, eval, selfField]
  cases x with
  | none => simp [Env.upd]
  | some i => cases hx : h.at (some i) <;> simp [Env.upd, hx, mapE, toObservable]

/-- … which is the model's row (`observables` of `named n notify false`: the graph
`Maintain.restrict g n`) when the trait exists — it does when the handler runs: `trait_added`
fires for a trait that has just been added. -/
theorem restricted_observables (h : Heap) (n : Name) (w : Observer) (x : W) (ht : hasTrait h x n = true) :
    runIterObservablesS NodeProg.table h NodeProg.restrictedIterObservables (.restricted n w) x
      = observables h (.named n w.notify false) x := by
  obtain ⟨i, fs, rfl, hx⟩ := hasTrait_inst ht
  rw [restricted_observables_raw]
  simp [observables, hx, ht]

/-- `_RestrictedNamedTraitObserver.iter_objects`: the `iter_objects` helper on `self.name`,
never the wrapped observer's `iter_objects`. -/
theorem restricted_objects_raw (h : Heap) (n : Name) (w : Observer) (x : W) :
    runIterObjectsS NodeProg.table h NodeProg.restrictedIterObjects (.restricted n w) x
      = .ok (valObjects (fieldVal h x n)) := by
  simp only [runIterObjectsS, runGenS, NodeProg.restrictedIterObjects, exec, evalIt, eval, selfField]
  simp [Env.upd, call_iterObjects, mapE_toW_yieldsOf]

theorem restricted_objects (h : Heap) (n : Name) (w : Observer) (x : W) (ht : hasTrait h x n = true) :
    runIterObjectsS NodeProg.table h NodeProg.restrictedIterObjects (.restricted n w) x
      = objects h (.named n w.notify false) x := by
  rw [restricted_objects_raw]
  simp [objects, ht]

/-- the translated method `meth` of the class of an observer -/
def clsMeth (ob : Observer) (meth : String) : Option St :=
  if meth = "get_notifier" then some (classOf ob).getNotifier
  else if meth = "get_maintainer" then some (classOf ob).getMaintainer
  else none

/-- run a method body whose result may be a pending tail call into the class of another observer -/
def runTailS (h : Heap) (s : St) (self : Self) (ρ : Env) : Except Exc V :=
  match runRetS NodeProg.table h s self ρ with
  | .ok v => resolveTail NodeProg.table clsMeth h v
  | .error e => .error e

/-- `_RestrictedNamedTraitObserver.get_notifier` / `get_maintainer` are the wrapped observer's
(a tail call resolved in the class of the wrapped observer). -/
theorem restricted_get_notifier (h : Heap) (n : Name) (w : Observer) (hd : Nat) (t : Id) :
    runTailS h NodeProg.restrictedGetNotifier (.restricted n w)
        (((Env.empty.upd 0 (.handler hd)).upd 1 (.w (some t))).upd 2 .dispatcher)
      = .ok (.notifier (.user ⟨hd, t⟩) (eventFactoryOf w) (preventUserOf w)) := by
  cases w <;>
    simp [runTailS, runRetS, NodeProg.restrictedGetNotifier, exec, eval, evalArgs, tailOf, selfField, Env.upd, resolveTail,
      clsMeth, classOf, runRet, NodeProg.namedGetNotifier, NodeProg.listItemsGetNotifier,
      NodeProg.dictItemsGetNotifier, NodeProg.setItemsGetNotifier, NodeProg.filteredGetNotifier, hkey,
      eventFactoryOf, preventUserOf]

theorem restricted_get_maintainer (h : Heap) (n : Name) (w : Observer) (c : Graph) (hd : Nat) (t : Id) :
    runTailS h NodeProg.restrictedGetMaintainer (.restricted n w)
        ((((Env.empty.upd 0 (.graph c)).upd 1 (.handler hd)).upd 2 (.w (some t))).upd 3 .dispatcher)
      = .ok (.notifier (.maint w.mkind c ⟨hd, t⟩) (eventFactoryOf w) (.constLam false)) := by
  cases w <;>
    simp [runTailS, runRetS, NodeProg.restrictedGetMaintainer, exec, eval, evalArgs, tailOf, selfField, Env.upd, resolveTail,
      clsMeth, classOf, runRet, NodeProg.namedGetMaintainer, NodeProg.listItemsGetMaintainer,
      NodeProg.dictItemsGetMaintainer, NodeProg.setItemsGetMaintainer, NodeProg.filteredGetMaintainer, hkey,
      mkindOf, eventFactoryOf, Observer.mkind]

end TraitsVerif.Lemmas.NodeSource
