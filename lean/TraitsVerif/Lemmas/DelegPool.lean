/-
Frame lemmas for the pool updates of the `deleg` model, and `Effect`: the (few) shapes the pool after
one operation can have.  Every invariant of histories is proved against `Effect` once.
-/
import TraitsVerif.Model.Delegate
namespace TraitsVerif.Model.Deleg

deriving instance DecidableEq for Except

/-! ### primitive updates -/

@[simp] theorem setDict_size (p : Pool) (o n v) : (p.setDict o n v).size = p.size := rfl
@[simp] theorem setFwd_size (p : Pool) (o n h) : (p.setFwd o n h).size = p.size := rfl
@[simp] theorem setDeleg_size (p : Pool) (o t) : (p.setDeleg o t).size = p.size := rfl
@[simp] theorem unlink_size (p : Pool) (o n) : (unlink p o n).size = p.size := rfl

@[simp] theorem setDict_cls (p : Pool) (o n v j) : ((p.setDict o n v).obj j).cls = (p.obj j).cls := by
  simp only [Pool.setDict, Pool.upd]; split <;> rfl
@[simp] theorem setFwd_cls (p : Pool) (o n h j) : ((p.setFwd o n h).obj j).cls = (p.obj j).cls := by
  simp only [Pool.setFwd, Pool.upd]; split <;> rfl
@[simp] theorem setDeleg_cls (p : Pool) (o t j) : ((p.setDeleg o t).obj j).cls = (p.obj j).cls := by
  simp only [Pool.setDeleg, Pool.upd]; split <;> rfl
@[simp] theorem unlink_cls (p : Pool) (o n j) : ((unlink p o n).obj j).cls = (p.obj j).cls := setFwd_cls ..

@[simp] theorem setDict_deleg (p : Pool) (o n v j) : ((p.setDict o n v).obj j).deleg = (p.obj j).deleg := by
  simp only [Pool.setDict, Pool.upd]; split <;> rfl
@[simp] theorem setFwd_deleg (p : Pool) (o n h j) : ((p.setFwd o n h).obj j).deleg = (p.obj j).deleg := by
  simp only [Pool.setFwd, Pool.upd]; split <;> rfl
@[simp] theorem unlink_deleg (p : Pool) (o n j) : ((unlink p o n).obj j).deleg = (p.obj j).deleg := setFwd_deleg ..
theorem setDeleg_deleg (p : Pool) (o t j) :
    ((p.setDeleg o t).obj j).deleg = if j = o then t else (p.obj j).deleg := by
  simp only [Pool.setDeleg, Pool.upd]; split <;> rfl

@[simp] theorem setDict_fwd (p : Pool) (o n v j) : ((p.setDict o n v).obj j).fwd = (p.obj j).fwd := by
  simp only [Pool.setDict, Pool.upd]; split <;> rfl
@[simp] theorem setDeleg_fwd (p : Pool) (o t j) : ((p.setDeleg o t).obj j).fwd = (p.obj j).fwd := by
  simp only [Pool.setDeleg, Pool.upd]; split <;> rfl
theorem setFwd_fwd (p : Pool) (o n h j m) :
    ((p.setFwd o n h).obj j).fwd m = if j = o ∧ m = n then h else (p.obj j).fwd m := by
  simp only [Pool.setFwd, Pool.upd]
  by_cases hj : j = o <;> by_cases hm : m = n <;> simp [hj, hm]
theorem unlink_fwd (p : Pool) (o n j m) :
    ((unlink p o n).obj j).fwd m = if j = o ∧ m = n then none else (p.obj j).fwd m := setFwd_fwd ..

@[simp] theorem setFwd_dict (p : Pool) (o n h j) : ((p.setFwd o n h).obj j).dict = (p.obj j).dict := by
  simp only [Pool.setFwd, Pool.upd]; split <;> rfl
@[simp] theorem unlink_dict (p : Pool) (o n j) : ((unlink p o n).obj j).dict = (p.obj j).dict := setFwd_dict ..
@[simp] theorem setDeleg_dict (p : Pool) (o t j) : ((p.setDeleg o t).obj j).dict = (p.obj j).dict := by
  simp only [Pool.setDeleg, Pool.upd]; split <;> rfl
theorem setDict_dict (p : Pool) (o n v j m) :
    ((p.setDict o n v).obj j).dict m = if j = o ∧ m = n then v else (p.obj j).dict m := by
  simp only [Pool.setDict, Pool.upd]
  by_cases hj : j = o <;> by_cases hm : m = n <;> simp [hj, hm]

/-! ### the walks -/

def NonDefer (td : TraitDef) : Prop := ∀ d, td ≠ .defer d

theorem walk_ok {p : Pool} {q : Option Name} :
    ∀ {f : Nat} {cur : ObjId} {d : DelegInfo} {da : Name} {x : ObjId} {t : Name} {td : TraitDef},
      walk p q f cur d da = .ok (x, t, td) → td = (p.obj x).cls.trait t ∧ NonDefer td := by
  intro f
  induction f with
  | zero => intro cur d da x t td h; simp [walk] at h
  | succ f ih =>
    intro cur d da x t td h
    unfold walk at h
    split at h
    · simp at h
    · rename_i y hy
      simp only at h
      split at h
      · exact ih h
      · rename_i td' hnd
        simp only [Except.ok.injEq, Prod.mk.injEq] at h
        obtain ⟨rfl, rfl, rfl⟩ := h
        exact ⟨rfl, fun d' hd' => hnd d' hd'⟩

/-- One step of the walk that ends on a non-deferring trait. -/
theorem walk_end {p : Pool} {q : Option Name} {f : Nat} {cur : ObjId} {d : DelegInfo} {da : Name} {x : ObjId}
    (hy : (p.obj cur).deleg = some x) (hnd : NonDefer ((p.obj x).cls.trait (attrName d q da))) :
    walk p q (f + 1) cur d da = .ok (x, attrName d q da, (p.obj x).cls.trait (attrName d q da)) := by
  rw [walk]
  simp only [hy]
  cases htd : (p.obj x).cls.trait (attrName d q da) with
  | defer d' => exact absurd htd (hnd d')
  | plain a b c => rfl
  | python => rfl

/-- One step of the walk through a deferring trait. -/
theorem walk_defer {p : Pool} {q : Option Name} {f : Nat} {cur : ObjId} {d : DelegInfo} {da : Name} {x : ObjId}
    {d' : DelegInfo} (hy : (p.obj cur).deleg = some x) (htd : (p.obj x).cls.trait (attrName d q da) = .defer d') :
    walk p q (f + 1) cur d da = walk p q f x d' (attrName d q da) := by
  rw [walk]
  simp only [hy, htd]

/-- More fuel never changes a successful walk. -/
theorem walk_mono {p : Pool} {q : Option Name} :
    ∀ {f : Nat} {cur : ObjId} {d : DelegInfo} {da : Name} {r : ObjId × Name × TraitDef},
      walk p q f cur d da = .ok r → walk p q (f + 1) cur d da = .ok r := by
  intro f
  induction f with
  | zero => intro cur d da r h; simp [walk] at h
  | succ f ih =>
    intro cur d da r h
    simp only [walk] at h ⊢
    cases hy : (p.obj cur).deleg with
    | none => simp [hy] at h
    | some y =>
      simp only [hy] at h ⊢
      cases htd : (p.obj y).cls.trait (attrName d q da) with
      | defer d' => simp only [htd] at h ⊢; exact ih h
      | plain a b c => simp only [htd] at h ⊢; exact h
      | python => simp only [htd] at h ⊢; exact h

/-! ### rehook -/

theorem rehook_size (o : ObjId) : ∀ (l : List (Name × DelegInfo)) (p : Pool), (rehook p o l).1.size = p.size
  | [], p => rfl
  | (n, d) :: rest, p => by
    unfold rehook
    split
    · exact rehook_size o rest p
    · simp only []
      rw [rehook_size o rest]; rfl

theorem rehook_frame (o : ObjId) : ∀ (l : List (Name × DelegInfo)) (p : Pool) (j : ObjId),
    ((rehook p o l).1.obj j).cls = (p.obj j).cls ∧ ((rehook p o l).1.obj j).deleg = (p.obj j).deleg ∧
    ((rehook p o l).1.obj j).dict = (p.obj j).dict ∧ (j ≠ o → ((rehook p o l).1.obj j).fwd = (p.obj j).fwd)
  | [], p, j => ⟨rfl, rfl, rfl, fun _ => rfl⟩
  | (n, d) :: rest, p, j => by
    unfold rehook
    split
    · exact rehook_frame o rest p j
    · simp only []
      obtain ⟨h1, h2, h3, h4⟩ := rehook_frame o rest (p.setFwd o n (some (hook p o n d).1)) j
      refine ⟨by rw [h1]; simp, by rw [h2]; simp, by rw [h3]; simp, fun hj => ?_⟩
      rw [h4 hj]
      funext m
      rw [setFwd_fwd]; simp [hj]

/-- `hook` only looks at classes and delegate references. -/
theorem baseOk_congr {p p' : Pool} (h : ∀ j, (p'.obj j).cls = (p.obj j).cls ∧ (p'.obj j).deleg = (p.obj j).deleg)
    (q : Option Name) : ∀ (f : Nat) (cur : ObjId) (td : TraitDef) (da : Name),
      baseOk p' q f cur td da = baseOk p q f cur td da := by
  intro f
  induction f with
  | zero => intro cur td da; cases td <;> simp [baseOk]
  | succ f ih =>
    intro cur td da
    cases td with
    | plain v dflt c => simp [baseOk]
    | python => simp [baseOk]
    | defer d =>
      simp only [baseOk]
      rw [(h cur).2]
      split
      · rfl
      · rename_i x hx
        simp only [(h x).1]
        exact ih ..

theorem hook_congr {p p' : Pool} (h : ∀ j, (p'.obj j).cls = (p.obj j).cls ∧ (p'.obj j).deleg = (p.obj j).deleg)
    (o : ObjId) (n : Name) (d : DelegInfo) : hook p' o n d = hook p o n d := by
  unfold hook
  rw [(h o).2]

/-- Registration of a delegate listener never raises (fix bead785). -/
theorem hook_snd (p : Pool) (o : ObjId) (n : Name) (d : DelegInfo) : (hook p o n d).2 = false := by
  unfold hook; split <;> rfl

theorem hook_fst_eq (p : Pool) (o : ObjId) (n : Name) (d : DelegInfo) : (hook p o n d).1 = (p.obj o).deleg := by
  unfold hook; split <;> simp_all

/-- What `rehook` leaves in the forwarder table of `o`: entries of names in the list that had a
forwarder now hold `hook`'s answer (computed in the pool it started from); all others are unchanged. -/
theorem rehook_fwd (o : ObjId) : ∀ (l : List (Name × DelegInfo)) (p : Pool) (m : Name),
    (l.map (·.1)).Nodup →
    ((rehook p o l).1.obj o).fwd m =
      match l.lookup m, (p.obj o).fwd m with
      | some d, some _ => some (hook p o m d).1
      | _, r => r
  | [], p, m, _ => by simp [rehook, List.lookup]
  | (n, d) :: rest, p, m, hnd => by
    simp only [List.map_cons, List.nodup_cons] at hnd
    obtain ⟨hn, hrest⟩ := hnd
    unfold rehook
    have hlk : ∀ (m : Name), m ≠ n → List.lookup m ((n, d) :: rest) = List.lookup m rest := by
      intro m hm
      have : (m == n) = false := by simpa using hm
      simp [List.lookup, this]
    have hlkn : List.lookup n rest = none := by
      rw [List.lookup_eq_none_iff]
      intro a ha
      simp only [bne_iff_ne, ne_eq]
      intro hna
      apply hn
      rw [hna]
      exact List.mem_map_of_mem (f := (·.1)) ha
    split
    · rename_i hnone
      rw [rehook_fwd o rest p m hrest]
      by_cases hm : m = n
      · subst hm
        simp [List.lookup, hnone, hlkn]
      · rw [hlk m hm]
    · rename_i r hr
      simp only []
      rw [rehook_fwd o rest _ m hrest]
      have hc : ∀ j, ((p.setFwd o n (some (hook p o n d).1)).obj j).cls = (p.obj j).cls ∧
          ((p.setFwd o n (some (hook p o n d).1)).obj j).deleg = (p.obj j).deleg := fun j => ⟨by simp, by simp⟩
      by_cases hm : m = n
      · subst hm
        simp [List.lookup, hlkn, setFwd_fwd, hr]
      · rw [hlk m hm, setFwd_fwd]
        simp only [hm, and_false, if_false]
        split <;> simp_all [hook_congr hc]

/-- The number of swallowed exceptions is zero iff no `hook` failed. -/
theorem rehook_noexc (o : ObjId) : ∀ (l : List (Name × DelegInfo)) (p : Pool),
    (rehook p o l).2 = 0 → (l.map (·.1)).Nodup →
    ∀ n d, (n, d) ∈ l → (p.obj o).fwd n ≠ none → (hook p o n d).2 = false
  | [], _, _, _, _, _, hm, _ => by simp at hm
  | (n', d') :: rest, p, h0, hnd, n, d, hm, hf => by
    simp only [List.map_cons, List.nodup_cons] at hnd
    obtain ⟨hn, hrest⟩ := hnd
    unfold rehook at h0
    split at h0
    · rename_i hnone
      rcases List.mem_cons.mp hm with heq | hin
      · simp only [Prod.mk.injEq] at heq
        obtain ⟨rfl, rfl⟩ := heq
        exact absurd hnone hf
      · exact rehook_noexc o rest p h0 hrest n d hin hf
    · rename_i r hr
      simp only [] at h0
      have h1 : (rehook (p.setFwd o n' (some (hook p o n' d').1)) o rest).2 = 0 := by omega
      have h2 : (hook p o n' d').2 = false := by
        cases hb : (hook p o n' d').2 with
        | false => rfl
        | true => simp [hb] at h0
      rcases List.mem_cons.mp hm with heq | hin
      · simp only [Prod.mk.injEq] at heq
        obtain ⟨rfl, rfl⟩ := heq
        exact h2
      · have hc : ∀ j, ((p.setFwd o n' (some (hook p o n' d').1)).obj j).cls = (p.obj j).cls ∧
            ((p.setFwd o n' (some (hook p o n' d').1)).obj j).deleg = (p.obj j).deleg := fun j => ⟨by simp, by simp⟩
        have hne : n ≠ n' := by
          intro heq; subst heq
          exact hn (List.mem_map_of_mem (f := (·.1)) hin)
        have := rehook_noexc o rest _ h1 hrest n d hin (by rw [setFwd_fwd]; simp [hne]; exact hf)
        rw [hook_congr hc] at this
        exact this

/-- No exception is ever swallowed while re-hooking. -/
theorem rehook_snd (o : ObjId) : ∀ (l : List (Name × DelegInfo)) (p : Pool), (rehook p o l).2 = 0
  | [], _ => rfl
  | (n, d) :: rest, p => by
    unfold rehook
    split
    · exact rehook_snd o rest p
    · simp only [hook_snd, Bool.false_eq_true, if_false, Nat.add_zero]
      exact rehook_snd o rest _

end TraitsVerif.Model.Deleg
