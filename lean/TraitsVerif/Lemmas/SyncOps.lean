/-
The two instances of `cascade` (`applyAssign`, `applyMutate`) are local; the
commands of a history keep the lock table empty and never exhaust the depth
budget.
-/
import TraitsVerif.Lemmas.SyncFrame
namespace TraitsVerif.Model.Sync
open TraitsVerif TraitsVerif.Py TraitsVerif.Model
variable {α : Type}

theorem upd_same {β : Type} (f : Pair → β) (p : Pair) (b : β) : upd f p b p = b := by simp [upd]

theorem upd_other {β : Type} (f : Pair → β) (p q : Pair) (b : β) (h : q ≠ p) : upd f p b q = f q := by
  simp [upd, h]

/-- What `applyAssign` returns, spelled out. -/
theorem applyAssign_ok [DecidableEq α] {E : Env α} {w w1 : World α} {p : Pair} {v : AVal α}
    {r : Option α} {y : Option (AVal α)} (h : applyAssign E w p v = .ok (w1, r, y)) :
    ∃ new, validate E p v = .ok new ∧ r = none ∧
      ((new = w.val p ∧ w1 = w ∧ y = none) ∨
       (new ≠ w.val p ∧ y = some new ∧
        w1 = { w with val := upd w.val p new, nChg := upd w.nChg p (w.nChg p + 1) })) := by
  unfold applyAssign at h
  split at h
  · cases h
  · rename_i new hv
    refine ⟨new, hv, ?_⟩
    split at h
    · rename_i heq
      simp only [Except.ok.injEq, Prod.mk.injEq] at h
      obtain ⟨h1, h2, h3⟩ := h
      exact ⟨h2.symm, Or.inl ⟨heq, h1.symm, h3.symm⟩⟩
    · rename_i hne
      simp only [Except.ok.injEq, Prod.mk.injEq] at h
      obtain ⟨h1, h2, h3⟩ := h
      exact ⟨h2.symm, Or.inr ⟨hne, h3.symm, h1.symm⟩⟩

theorem local_assign [DecidableEq α] (E : Env α) : Local (applyAssign E) := by
  constructor <;> intro w p x w1 r y h <;> obtain ⟨new, _, _, h | h⟩ := applyAssign_ok h
  all_goals first
    | (obtain ⟨_, rfl, _⟩ := h; first | rfl | (intro q _; rfl))
    | (obtain ⟨_, _, rfl⟩ := h; first | rfl | (intro q hq; simp [upd, hq]))

/-- What `applyMutate` returns, spelled out. -/
theorem applyMutate_ok {E : Env α} {w w1 : World α} {p : Pair} {op : Op α}
    {r : Option α} {y : Option (Op α)} (h : applyMutate E w p op = .ok (w1, r, y)) :
    E.isList p = true ∧ ∃ o, listStep (E.tl p) (w.list p) op = .ok o ∧ r = o.ret ∧
      ((o.event = none ∧ y = none ∧ w1 = { w with val := upd w.val p (.l o.items) }) ∨
       (∃ e, o.event = some e ∧ y = (if p ∈ w.hooked then some (eventOp e) else none) ∧
        w1 = { w with val := upd w.val p (.l o.items), nItems := upd w.nItems p (w.nItems p + 1) })) := by
  unfold applyMutate at h
  split at h
  · rename_i hl
    refine ⟨hl, ?_⟩
    split at h
    · cases h
    · rename_i o ho
      refine ⟨o, ho, ?_⟩
      split at h
      · rename_i hev
        simp only [Except.ok.injEq, Prod.mk.injEq] at h
        obtain ⟨h1, h2, h3⟩ := h
        exact ⟨h2.symm, Or.inl ⟨hev, h3.symm, h1.symm⟩⟩
      · rename_i e hev
        simp only [Except.ok.injEq, Prod.mk.injEq] at h
        obtain ⟨h1, h2, h3⟩ := h
        exact ⟨h2.symm, Or.inr ⟨e, hev, h3.symm, h1.symm⟩⟩
  · cases h

theorem local_mutate (E : Env α) : Local (applyMutate E) := by
  constructor <;> intro w p x w1 r y h <;> obtain ⟨_, o, _, _, h | h⟩ := applyMutate_ok h
  all_goals first
    | (obtain ⟨_, _, rfl⟩ := h; first | rfl | (intro q hq; simp [upd, hq]))
    | (obtain ⟨e, _, _, rfl⟩ := h; first | rfl | (intro q hq; simp [upd, hq]))

/-! ### Commands keep the lock table empty -/

theorem finish_world_ok {w w' : World α} {r : Option α} :
    (finish w (.ok (w', r))).world = w' := rfl

theorem finish_sameTabs {w : World α} {c : Except Exc (World α × Option α)}
    (h : ∀ w' r, c = .ok (w', r) → SameTabs w w') : SameTabs w (finish w c).world := by
  cases c with
  | error e => exact SameTabs.refl _
  | ok x => obtain ⟨w', r⟩ := x; exact h w' r rfl

theorem assign_sameTabs [DecidableEq α] (E : Env α) (w : World α) (p : Pair) (v : AVal α)
    (hp : p ∉ w.locked) : SameTabs w (w.assign E p v).world :=
  finish_sameTabs (fun w' r h => cascade_frame (local_assign E) _ w p v w' r hp h)

theorem mutate_sameTabs (E : Env α) (w : World α) (p : Pair) (op : Op α)
    (hp : p ∉ w.locked) : SameTabs w (w.mutate E p op).world :=
  finish_sameTabs (fun w' r h => cascade_frame (local_mutate E) _ w p op w' r hp h)

theorem linkOne_locked [DecidableEq α] (E : Env α) (w : World α) (p q : Pair) (h : w.locked = []) :
    (w.linkOne E p q).world.locked = [] := by
  unfold World.linkOne
  split
  · exact h
  · have hr : (w.register E p q).locked = [] := h
    have := assign_sameTabs E (w.register E p q) q (w.val p) (by simp [hr])
    rw [this.2.1]; exact hr

theorem link_locked [DecidableEq α] (E : Env α) (w : World α) (p q : Pair) (b : Bool) (h : w.locked = []) :
    (w.link E p q b).world.locked = [] := by
  unfold World.link
  simp only
  split
  · exact linkOne_locked E w p q h
  · split
    · exact linkOne_locked E _ q p (linkOne_locked E w p q h)
    · exact linkOne_locked E w p q h

theorem unlinkOne_locked (E : Env α) (w : World α) (p q : Pair) :
    (w.unlinkOne E p q).locked = w.locked := by
  unfold World.unlinkOne; split <;> rfl

theorem unlink_locked (E : Env α) (w : World α) (p q : Pair) (b : Bool) :
    (w.unlink E p q b).locked = w.locked := by
  unfold World.unlink; split <;> simp [unlinkOne_locked]

/-- **Lock released.** Every command of a history started with an empty lock
table ends with an empty lock table. -/
theorem step_locked [DecidableEq α] (E : Env α) (w : World α) (c : Cmd α) (h : w.locked = []) :
    (w.step E c).world.locked = [] := by
  cases c with
  | assign p v =>
    have := assign_sameTabs E w p v (by simp [h])
    simp only [World.step]; rw [this.2.1]; exact h
  | mutate p op =>
    have := mutate_sameTabs E w p op (by simp [h])
    simp only [World.step]; rw [this.2.1]; exact h
  | link p q b => exact link_locked E w p q b h
  | unlink p q b => simp only [World.step]; rw [unlink_locked]; exact h
  | kill o => simp [World.step, World.kill, h]

theorem run_locked [DecidableEq α] (E : Env α) (w : World α) (cs : List (Cmd α)) (h : w.locked = []) :
    (World.run E w cs).locked = [] := by
  induction cs generalizing w with
  | nil => exact h
  | cons c cs ih => exact ih _ (step_locked E w c h)

/-! ### The budget of the commands is enough -/

theorem assign_fuel [DecidableEq α] (E : Env α) (w : World α) (p : Pair) (v : AVal α)
    (hp : p ∉ w.locked) (d : Nat) (hd : w.edges.length < d) :
    cascade (applyAssign E) d w p v = cascade (applyAssign E) w.budget w p v :=
  cascade_fuel (local_assign E) d w.budget w p v hp
    (Nat.lt_of_le_of_lt (free_le_edges w) hd)
    (Nat.lt_of_le_of_lt (free_le_edges w) (by simp [World.budget]))

theorem mutate_fuel (E : Env α) (w : World α) (p : Pair) (op : Op α)
    (hp : p ∉ w.locked) (d : Nat) (hd : w.edges.length < d) :
    cascade (applyMutate E) d w p op = cascade (applyMutate E) w.budget w p op :=
  cascade_fuel (local_mutate E) d w.budget w p op hp
    (Nat.lt_of_le_of_lt (free_le_edges w) hd)
    (Nat.lt_of_le_of_lt (free_le_edges w) (by simp [World.budget]))

end TraitsVerif.Model.Sync
