/-
Helper lemmas for the `attr` cluster (C02, C10), part 1: flag arithmetic, the
closed form of `call_notifiers` under the configuration property C02 quantifies
over (`Quiet`: non-re-raising exception handlers, no vetoing value, handlers
that do not unregister themselves).
-/
import TraitsVerif.Model.SetAttr
namespace TraitsVerif.Model.Attr
open TraitsVerif

/-! ### Flags -/

theorem testFlag_none (m : CMode) (o p : Bool) :
    testFlag (mkFlags m o p) Generated.TRAIT_COMPARISON_MODE_NONE = (m == .none) := by
  cases m <;> cases o <;> cases p <;> decide

theorem testFlag_orig (m : CMode) (o p : Bool) :
    testFlag (mkFlags m o p) Generated.TRAIT_SETATTR_ORIGINAL_VALUE = o := by
  cases m <;> cases o <;> cases p <;> decide

theorem testFlag_postOrig (m : CMode) (o p : Bool) :
    testFlag (mkFlags m o p) Generated.TRAIT_POST_SETATTR_ORIGINAL_VALUE = p := by
  cases m <;> cases o <;> cases p <;> decide

theorem comparisonModeInt_mkFlags (m : CMode) (o p : Bool) :
    comparisonModeInt (mkFlags m o p) = m.toNat := by
  cases m <;> cases o <;> cases p <;> decide

theorem eqMode_mkFlags (k : Kind) (m : CMode) (o p : Bool) :
    eqMode k (mkFlags m o p) = (k == .trait && m == .equality) := by
  cases k <;> cases m <;> cases o <;> cases p <;> decide

/-! ### The configuration C02 quantifies over -/

/-- Default, non-re-raising exception handlers on both stacks, no vetoing
value, handlers that do not unregister themselves. -/
structure Quiet (E : Env) : Prop where
  noRemove : ∀ h n a, E.handler h n a ≠ .ok .removeSelf
  legacy : E.reraiseLegacy = false
  observe : E.reraiseObserve = false
  noVeto : ∀ v, E.veto v = false

/-- `post_setattr` never raises. -/
def PostQuiet (E : Env) : Prop := ∀ p n v, E.post p n v = .ok ()

/-- The same environment with handlers that do nothing. -/
def Env.silence (E : Env) : Env := { E with handler := fun _ _ _ => .ok .stay }

theorem Quiet.silence {E : Env} (q : Quiet E) : Quiet E.silence :=
  ⟨fun _ _ _ h => by simp [Env.silence] at h, q.legacy, q.observe, q.noVeto⟩

/-! ### State after a round of notifications -/

/-- Append handler invocations to the log. -/
def OSt.logged (s : OSt) (l : List Call) : OSt :=
  { s with ctx := { s.ctx with log := s.ctx.log ++ l } }

/-- `touch`: some legacy wrapper ran `object._trait(name, 2)`. -/
def OSt.notified (s : OSt) (touch : Bool) (l : List Call) : OSt :=
  (if touch then s.ensureItrait else s).logged l

@[simp] theorem ensureItrait_tn (s : OSt) : s.ensureItrait.tn = s.tn := by
  unfold OSt.ensureItrait OSt.tn
  cases h : s.it <;> simp [h]

@[simp] theorem tn_mk_same (s : OSt) (self : Id) (name : Name) (slot : Option Id) (on : Option (List Notifier))
    (nn : Bool) (ctx : Ctx) : (OSt.mk self name slot s.cn s.it on nn ctx).tn = s.tn := rfl

@[simp] theorem ensureItrait_idem (s : OSt) : s.ensureItrait.ensureItrait = s.ensureItrait := by
  unfold OSt.ensureItrait
  cases h : s.it <;> simp [h]

@[simp] theorem ensureItrait_slot (s : OSt) : s.ensureItrait.slot = s.slot := by
  unfold OSt.ensureItrait; cases s.it <;> rfl
@[simp] theorem ensureItrait_on (s : OSt) : s.ensureItrait.on = s.on := by
  unfold OSt.ensureItrait; cases s.it <;> rfl
@[simp] theorem ensureItrait_cn (s : OSt) : s.ensureItrait.cn = s.cn := by
  unfold OSt.ensureItrait; cases s.it <;> rfl
@[simp] theorem ensureItrait_ctx (s : OSt) : s.ensureItrait.ctx = s.ctx := by
  unfold OSt.ensureItrait; cases s.it <;> rfl
@[simp] theorem ensureItrait_self (s : OSt) : s.ensureItrait.self = s.self := by
  unfold OSt.ensureItrait; cases s.it <;> rfl
@[simp] theorem ensureItrait_noNotify (s : OSt) : s.ensureItrait.noNotify = s.noNotify := by
  unfold OSt.ensureItrait; cases s.it <;> rfl

theorem ensureItrait_logged (s : OSt) (l : List Call) :
    (s.logged l).ensureItrait = s.ensureItrait.logged l := by
  unfold OSt.ensureItrait OSt.logged
  cases h : s.it <;> simp [h]

@[simp] theorem logged_nil (s : OSt) : s.logged [] = s := by
  simp [OSt.logged]

@[simp] theorem logged_logged (s : OSt) (a b : List Call) : (s.logged a).logged b = s.logged (a ++ b) := by
  simp [OSt.logged, List.append_assoc]

@[simp] theorem notified_false_nil (s : OSt) : s.notified false [] = s := by
  simp [OSt.notified]

theorem notified_notified (s : OSt) (b1 b2 : Bool) (l1 l2 : List Call) :
    (s.notified b1 l1).notified b2 l2 = s.notified (b1 || b2) (l1 ++ l2) := by
  unfold OSt.notified
  cases b1 <;> cases b2 <;> simp [ensureItrait_logged]

@[simp] theorem notified_slot (s : OSt) (b : Bool) (l : List Call) : (s.notified b l).slot = s.slot := by
  unfold OSt.notified OSt.logged; cases b <;> simp
@[simp] theorem notified_tn (s : OSt) (b : Bool) (l : List Call) : (s.notified b l).tn = s.tn := by
  have h : ∀ u : OSt, (u.logged l).tn = u.tn := fun u => rfl
  unfold OSt.notified; cases b <;> simp [h]
@[simp] theorem notified_on (s : OSt) (b : Bool) (l : List Call) : (s.notified b l).on = s.on := by
  unfold OSt.notified OSt.logged; cases b <;> simp
@[simp] theorem notified_cn (s : OSt) (b : Bool) (l : List Call) : (s.notified b l).cn = s.cn := by
  unfold OSt.notified OSt.logged; cases b <;> simp
@[simp] theorem notified_self (s : OSt) (b : Bool) (l : List Call) : (s.notified b l).self = s.self := by
  unfold OSt.notified OSt.logged; cases b <;> simp
@[simp] theorem notified_noNotify (s : OSt) (b : Bool) (l : List Call) :
    (s.notified b l).noNotify = s.noNotify := by
  unfold OSt.notified OSt.logged; cases b <;> simp
@[simp] theorem notified_log (s : OSt) (b : Bool) (l : List Call) :
    (s.notified b l).ctx.log = s.ctx.log ++ l := by
  unfold OSt.notified OSt.logged; cases b <;> simp
@[simp] theorem notified_nval (s : OSt) (b : Bool) (l : List Call) :
    (s.notified b l).ctx.nval = s.ctx.nval := by
  unfold OSt.notified OSt.logged; cases b <;> simp
@[simp] theorem notified_postLog (s : OSt) (b : Bool) (l : List Call) :
    (s.notified b l).ctx.postLog = s.ctx.postLog := by
  unfold OSt.notified OSt.logged; cases b <;> simp
@[simp] theorem notified_heap (s : OSt) (b : Bool) (l : List Call) :
    (s.notified b l).ctx.heap = s.ctx.heap := by
  unfold OSt.notified OSt.logged; cases b <;> simp
@[simp] theorem notified_alloc (s : OSt) (b : Bool) (l : List Call) :
    (s.notified b l).ctx.alloc = s.ctx.alloc := by
  unfold OSt.notified OSt.logged; cases b <;> simp
@[simp] theorem notified_fcalls (s : OSt) (b : Bool) (l : List Call) :
    (s.notified b l).ctx.fcalls = s.ctx.fcalls := by
  unfold OSt.notified OSt.logged; cases b <;> simp

/-- The handler invocations one round of `call_notifiers` makes. -/
def fired (c : Cmp) (t : TraitCore) (self old new : Id) (ns : List (Notifier × Loc)) : List Call :=
  (ns.filter (fun p => wrapperFires c t.kind t.flags p.1.kind old new)).map
    (fun p => ⟨self, p.1.h, old, new⟩)

/-- Does some legacy wrapper get past its `Uninitialized` test? -/
def touches (old : Id) (ns : List (Notifier × Loc)) : Bool :=
  old != uninit && ns.any (fun p => p.1.kind != .observe)

theorem fired_single (c : Cmp) (t : TraitCore) (self old new : Id) (n : Notifier) (loc : Loc) :
    fired c t self old new [(n, loc)] =
      if wrapperFires c t.kind t.flags n.kind old new = true then [⟨self, n.h, old, new⟩] else [] := by
  unfold fired
  by_cases h : wrapperFires c t.kind t.flags n.kind old new = true <;> simp [List.filter, h]

theorem touches_single (old : Id) (n : Notifier) (loc : Loc) :
    touches old [(n, loc)] = (old != uninit && n.kind != .observe) := by
  simp [touches]

theorem callWrapper_quiet {E : Env} (q : Quiet E) (t : TraitCore) (n : Notifier) (loc : Loc) (old new : Id)
    (s : OSt) :
    callWrapper E t n loc old new s =
      (none, s.notified (touches old [(n, loc)]) (fired E.cmp t s.self old new [(n, loc)])) := by
  have hr := q.noRemove n.h
  rw [fired_single, touches_single]
  unfold callWrapper wrapperFires
  cases hk : n.kind
  case observe =>
    simp only []
    by_cases hp : preventEvent E.cmp t.kind t.flags old new = true
    · simp [hp, OSt.notified]
    · have hs := hr s.ctx.log.length (old, new)
      simp only [hp]
      cases hh : E.handler n.h s.ctx.log.length (old, new) with
      | error e => simp [q.observe, OSt.notified, OSt.logged]
      | ok a =>
        cases a with
        | stay => simp [OSt.notified, OSt.logged]
        | removeSelf => exact absurd hh hs
  all_goals
    simp only []
    by_cases ho : old = uninit
    · simp [ho, changeAccepted, OSt.notified]
    · by_cases hc : changeAcceptedCmp E.cmp t.kind t.flags old new = true
      · have hs := hr s.ensureItrait.ctx.log.length (old, new)
        simp only [ho, hc, changeAccepted]
        cases hh : E.handler n.h s.ensureItrait.ctx.log.length (old, new) with
        | error e => simp [q.legacy, OSt.notified, OSt.logged, ho]
        | ok a =>
          cases a with
          | stay => simp [OSt.notified, OSt.logged, ho]
          | removeSelf => exact absurd hh hs
      · simp [ho, hc, changeAccepted, OSt.notified]

theorem fired_cons (c : Cmp) (t : TraitCore) (self old new : Id) (p : Notifier × Loc)
    (ns : List (Notifier × Loc)) :
    fired c t self old new (p :: ns) = fired c t self old new [p] ++ fired c t self old new ns := by
  unfold fired
  by_cases h : wrapperFires c t.kind t.flags p.1.kind old new = true <;> simp [List.filter, h]

theorem touches_cons (old : Id) (p : Notifier × Loc) (ns : List (Notifier × Loc)) :
    touches old (p :: ns) = (touches old [p] || touches old ns) := by
  unfold touches
  cases (old != uninit) <;> simp

/-- Closed form of the `call_notifiers` loop. -/
theorem notifyLoop_quiet {E : Env} (q : Quiet E) (t : TraitCore) (old new : Id) :
    ∀ (ns : List (Notifier × Loc)) (s : OSt),
      notifyLoop E t old new ns s = (none, s.notified (touches old ns) (fired E.cmp t s.self old new ns))
  | [], s => by simp [notifyLoop, fired, touches]
  | (n, loc) :: rest, s => by
    rw [notifyLoop, q.noVeto, callWrapper_quiet q]
    simp only [Bool.false_eq_true, if_false]
    rw [notifyLoop_quiet q t old new rest, notified_notified, notified_self, ← fired_cons, ← touches_cons]

theorem callNotifiers_quiet {E : Env} (q : Quiet E) (t : TraitCore) (tn on : Option (List Notifier))
    (old new : Id) (s : OSt) :
    callNotifiers E t tn on old new s =
      (none, if s.noNotify then s
             else s.notified (touches old (snapshot tn on)) (fired E.cmp t s.self old new (snapshot tn on))) := by
  unfold callNotifiers
  cases h : s.noNotify <;> simp [notifyLoop_quiet q]

/-- A notification with `old = Uninitialized` reaches no handler and changes nothing. -/
theorem fired_uninit (c : Cmp) (t : TraitCore) (self new : Id) (ns : List (Notifier × Loc)) :
    fired c t self uninit new ns = [] := by
  unfold fired
  have : ∀ p : Notifier × Loc, wrapperFires c t.kind t.flags p.1.kind uninit new = false := by
    intro p
    unfold wrapperFires changeAccepted preventEvent
    cases p.1.kind <;> simp
  simp [this]

theorem touches_uninit (ns : List (Notifier × Loc)) : touches uninit ns = false := by
  simp [touches]

theorem callNotifiers_uninit {E : Env} (q : Quiet E) (t : TraitCore) (tn on : Option (List Notifier))
    (new : Id) (s : OSt) :
    callNotifiers E t tn on uninit new s = (none, s) := by
  rw [callNotifiers_quiet q, fired_uninit, touches_uninit]
  simp

end TraitsVerif.Model.Attr
