/-
Cluster `obs`: the refinement invariant is preserved by mutations of an observed
DICT container (`d[k] = x` for a new and for an existing key, `del d[k]`, `clear`),
fragment `DictCore`.

Adaptation of `ObsInvSetItems.lean` / `ObsInvList.lean` to `Obj.dict` cells read by
`Observer.dictItems` nodes (maintainer kind `MKind.dict`).  The objects below a dict
are its VALUES, `items.map (·.2)`; the same object may sit under several keys (the
"present twice, removed once" case), only the keys are distinct.
-/
import TraitsVerif.Lemmas.ObsInvSetItems
namespace TraitsVerif.Model.Obs
open TraitsVerif

/-! ### the site of a dict -/

def isDictItems : Observer → Bool
  | .dictItems .. => true
  | _ => false

def dictSite (c : Id) : Gen.Site := ⟨fun ob x => isDictItems ob && x == some c, .cont c, .dict⟩

theorem dictSite_ok (h : Heap) (c : Id) (items : List (Key × Id)) (hc : h.get c = .dict items) :
    Gen.SiteOK (dictSite c) actTrue h where
  own := by
    intro ob x hr _
    cases ob with
    | dictItems nt opt =>
      simp only [dictSite, isDictItems, Bool.true_and, beq_iff_eq] at hr
      subst hr
      simp [observables, Heap.at, hc, Observer.mkind, dictSite]
    | _ => simp [dictSite, isDictItems] at hr
  inactive := by intro ob x _ ha; simp [actTrue] at ha
  other := by
    intro ob x hf hr hm
    obtain ⟨hx, hkind⟩ := obs_cont_mem h ob x c hm
    subst hx
    rcases hkind with ⟨_, l, hl⟩ | ⟨⟨nt, opt, rfl⟩, _⟩ | ⟨_, l, hl⟩
    · rw [hc] at hl; cases hl
    · simp [dictSite, isDictItems] at hr
    · rw [hc] at hl; cases hl

theorem dictRel_self (h : Heap) (c : Id) (items : List (Key × Id)) (hc : h.get c = .dict items) :
    Gen.Rel (dictSite c) actTrue h h ((items.map (·.2)).map some) where
  obs := fun _ _ _ => rfl
  ext := fun _ _ _ => rfl
  objs := fun _ _ _ _ => rfl
  objsN := by intro ob x _ ha; simp [actTrue] at ha
  objsR := by
    intro ob x hr _
    cases ob with
    | dictItems nt opt =>
      simp only [dictSite, isDictItems, Bool.true_and, beq_iff_eq] at hr
      subst hr
      simp [objects, Heap.at, hc, List.map_map, Function.comp_def]
    | _ => simp [dictSite, isDictItems] at hr

section upd
variable {h : Heap} {c : Id} {items : List (Key × Id)}

theorem hasTrait_upd_dict (hc : h.get c = .dict items) (items' : List (Key × Id)) (x : W) (m : Name) :
    hasTrait (h.upd c (.dict items')) x m = hasTrait h x m := by
  by_cases hx : x = some c
  · subst hx; simp [hasTrait, Heap.at, Heap.get_upd, hc]
  · simp [hasTrait, upd_at_ne_obj (.dict items') x hx]

theorem fieldVal_upd_dict (hc : h.get c = .dict items) (items' : List (Key × Id)) (x : W) (m : Name) :
    fieldVal (h.upd c (.dict items')) x m = fieldVal h x m := by
  by_cases hx : x = some c
  · subst hx; simp [fieldVal, Heap.at, Heap.get_upd, hc]
  · simp [fieldVal, upd_at_ne_obj (.dict items') x hx]

theorem dictRel_upd (hc : h.get c = .dict items) (items' : List (Key × Id)) :
    Gen.Rel (dictSite c) actTrue h (h.upd c (.dict items')) ((items'.map (·.2)).map some) where
  obs := by
    intro ob x hf
    by_cases hx : x = some c
    · subst hx
      cases ob with
      | filtered fl nt => simp [Observer.isFiltered] at hf
      | named m nt opt => simp only [observables, hasTrait_upd_dict hc]
      | listItems nt opt => simp [observables, Heap.at, Heap.get_upd, hc]
      | dictItems nt opt => simp [observables, Heap.at, Heap.get_upd, hc]
      | setItems nt opt => simp [observables, Heap.at, Heap.get_upd, hc]
    · cases ob with
      | filtered fl nt => simp [Observer.isFiltered] at hf
      | named m nt opt => simp only [observables, hasTrait_upd_dict hc]
      | listItems nt opt => simp [observables, upd_at_ne_obj (.dict items') x hx]
      | dictItems nt opt => simp [observables, upd_at_ne_obj (.dict items') x hx]
      | setItems nt opt => simp [observables, upd_at_ne_obj (.dict items') x hx]
  ext := by
    intro ob x hf
    by_cases hx : x = some c
    · subst hx
      cases ob with
      | filtered fl nt => simp [Observer.isFiltered] at hf
      | named m nt opt => simp [extraObservables, Heap.at, Heap.get_upd, hc]
      | listItems nt opt => rfl
      | dictItems nt opt => rfl
      | setItems nt opt => rfl
    · cases ob with
      | filtered fl nt => simp [Observer.isFiltered] at hf
      | named m nt opt => simp [extraObservables, upd_at_ne_obj (.dict items') x hx]
      | listItems nt opt => rfl
      | dictItems nt opt => rfl
      | setItems nt opt => rfl
  objs := by
    intro ob x hf hr
    by_cases hx : x = some c
    · subst hx
      cases ob with
      | filtered fl nt => simp [Observer.isFiltered] at hf
      | named m nt opt => simp only [objects, hasTrait_upd_dict hc, fieldVal_upd_dict hc]
      | listItems nt opt => simp [objects, Heap.at, Heap.get_upd, hc]
      | dictItems nt opt => simp [dictSite, isDictItems] at hr
      | setItems nt opt => simp [objects, Heap.at, Heap.get_upd, hc]
    · cases ob with
      | filtered fl nt => simp [Observer.isFiltered] at hf
      | named m nt opt => simp only [objects, hasTrait_upd_dict hc, fieldVal_upd_dict hc]
      | listItems nt opt => simp [objects, upd_at_ne_obj (.dict items') x hx]
      | dictItems nt opt => simp [objects, upd_at_ne_obj (.dict items') x hx]
      | setItems nt opt => simp [objects, upd_at_ne_obj (.dict items') x hx]
  objsN := by intro ob x _ ha; simp [actTrue] at ha
  objsR := by
    intro ob x hr _
    cases ob with
    | dictItems nt opt =>
      simp only [dictSite, isDictItems, Bool.true_and, beq_iff_eq] at hr
      subst hr
      simp [objects, Heap.at, Heap.get_upd, List.map_map, Function.comp_def]
    | _ => simp [dictSite, isDictItems] at hr

end upd

/-! ### kinds of the items on a dict observable -/

theorem hookList_cont_kind_dict (h : Heap) (k : HKey) (c : Id) (items : List (Key × Id)) (hc : h.get c = .dict items) :
    ∀ g : Graph, ∀ (e : Bool) (x : W), ∀ it ∈ hookList h k e g x, it.1 = .cont c →
      ∀ mk g' k', it.2 = .maint mk g' k' → mk = .dict := by
  apply Graph.ind (P := fun g => ∀ (e : Bool) (x : W), ∀ it ∈ hookList h k e g x, it.1 = .cont c →
      ∀ mk g' k', it.2 = .maint mk g' k' → mk = .dict)
  intro ob cs ih e x it hit h1 mk g' k' h2
  rw [hookList_node, List.mem_append, List.mem_append] at hit
  rcases hit with (h3 | h3) | h3
  · simp only [ownItems, List.mem_append, List.mem_flatMap, List.mem_map] at h3
    rcases h3 with h4 | ⟨ob', hob', c', _, rfl⟩
    · split at h4
      · simp only [List.mem_map] at h4
        obtain ⟨ob', _, rfl⟩ := h4
        cases h2
      · cases h4
    · simp only at h1 h2
      subst h1
      injection h2 with e1 _ _
      obtain ⟨_, hkind⟩ := obs_cont_mem h ob x c hob'
      rcases hkind with ⟨_, l, hl⟩ | ⟨⟨nt, opt, rfl⟩, _⟩ | ⟨_, l, hl⟩
      · rw [hc] at hl; cases hl
      · rw [← e1]; rfl
      · rw [hc] at hl; cases hl
  · obtain ⟨c', hc', y, _, hm⟩ := (mem_hookListCs h k ob x cs it).1 h3
    exact ih c' hc' true y it hm h1 mk g' k' h2
  · split at h3
    · simp only [extraItems, List.mem_map] at h3
      obtain ⟨ob', hob', rfl⟩ := h3
      obtain ⟨i, hi⟩ := extraObs_mem h ob x ob' hob'
      simp only at h1
      rw [hi] at h1; cases h1
    · cases h3

theorem specCnt_cont_kind_dict (h : Heap) (regs : List Reg) (c : Id) (items : List (Key × Id)) (hc : h.get c = .dict items)
    (mk : MKind) (g : Graph) (k : HKey) (hmk : mk ≠ .dict) :
    specCnt h regs (.cont c) (.maint mk g k) = 0 := by
  unfold specCnt
  apply sum_map_zero
  intro r _
  unfold cntItems
  rw [List.countP_eq_zero]
  intro it hit
  simp only [Bool.and_eq_true, beq_iff_eq, not_and, Bool.not_eq_true]
  intro e1
  cases hi : it.2 with
  | user k' => simp [NKey.equals]
  | maint mk' c' k' =>
    have := hookList_cont_kind_dict h r.k c items hc r.g true (some r.x) it hit e1 mk' c' k' hi
    subst this
    cases mk <;> simp_all [NKey.equals]

/-! ### key lists -/

def visitKeysD (h : Heap) (c : Id) (regs : List Reg) : List NKey :=
  regs.flatMap (fun r => (Gen.visits (dictSite c) actTrue h r.g (some r.x)).map (fun g => NKey.maint .dict g r.k))

theorem visitKeysD_shape (h : Heap) (c : Id) (regs : List Reg) :
    ∀ a ∈ visitKeysD h c regs, ∃ r ∈ regs, ∃ g ∈ Gen.visits (dictSite c) actTrue h r.g (some r.x),
      a = .maint .dict g r.k := by
  intro a ha
  simp only [visitKeysD, List.mem_flatMap, List.mem_map] at ha
  obtain ⟨r, hr, g, hg, rfl⟩ := ha
  exact ⟨r, hr, g, hg, rfl⟩

theorem visitKeysD_countP (h : Heap) (c : Id) (regs : List Reg) (q : NKey) :
    (visitKeysD h c regs).countP (fun a => a.equals q) =
      (regs.map (fun r => Gen.visitHits .dict r.k (Gen.visits (dictSite c) actTrue h r.g (some r.x)) q)).sum := by
  induction regs with
  | nil => rfl
  | cons r regs ih =>
    simp only [visitKeysD, List.flatMap_cons, List.countP_append, List.map_cons, List.sum_cons] at ih ⊢
    rw [ih]
    congr 1
    generalize Gen.visits (dictSite c) actTrue h r.g (some r.x) = vs
    induction vs with
    | nil => rfl
    | cons g vs ihv =>
      simp only [List.map_cons, List.countP_cons, Gen.visitHits, List.sum_cons, hit] at ihv ⊢
      rw [ihv]; split <;> omega

theorem blocks_eq_blockOf_dict (h' : Heap) (ys : List Id) (o' : Observable) (q : NKey) (k : HKey) (vs : List Graph) :
    Gen.blocks h' k (ys.map some) vs o' q =
      ((vs.map (fun g => NKey.maint .dict g k)).map (keyFC (blockOf h' ys o' q))).sum := by
  simp [Gen.blocks, keyFC, blockOf, List.map_map, Function.comp_def]

theorem sum_blocks_eq_keysD (h h' : Heap) (c : Id) (ys : List Id) (o' : Observable) (q : NKey) (regs : List Reg) :
    (regs.map (fun r => Gen.blocks h' r.k (ys.map some) (Gen.visits (dictSite c) actTrue h r.g (some r.x)) o' q)).sum =
      ((visitKeysD h c regs).map (keyFC (blockOf h' ys o' q))).sum := by
  induction regs with
  | nil => rfl
  | cons r regs ih =>
    simp only [List.map_cons, List.sum_cons, visitKeysD, List.flatMap_cons, List.map_append, List.sum_append]
    rw [blocks_eq_blockOf_dict]
    simp only [visitKeysD] at ih
    rw [ih]

/-! ### the fragment -/

/-- Hypotheses under which a mutation of the dict `c` (contents
`items` ↦ `items'`, reported as `ev`) preserves the invariant. -/
structure DictCore (E : Env) (st : St) (regs : List Reg) (c : Id) (items items' : List (Key × Id)) (ev : CEvent) : Prop where
  hc : st.h.get c = .dict items
  /-- no `filtered` (`*`, `+metadata`) node in any active registration -/
  noFiltered : ∀ r ∈ regs, r.g.noFiltered = true
  alive : ∀ k, E.dead k = false
  /-- the walks the maintainers perform meet no failing `iter_*` -/
  okRem : ∀ mk g k, Notifier.maint mk g k ∈ st.H.get (.cont c) → ∀ y ∈ ev.removed,
    walkOk (st.h.upd c (.dict items')) true g (some y) = true
  okAdd : ∀ mk g k, Notifier.maint mk g k ∈ st.H.get (.cont c) → ∀ y ∈ ev.added,
    walkOk (st.h.upd c (.dict items')) true g (some y) = true
  /-- NoSelfReach: below the current items, and below the removed / added ones, the
  maintained sub-graphs never come back to the dict itself -/
  nsrItems : ∀ r ∈ regs, ∀ g ∈ Gen.visits (dictSite c) actTrue st.h r.g (some r.x), ∀ y ∈ items.map (·.2),
    ∀ it ∈ hookList st.h r.k true g (some y), it.1 ≠ .cont c
  nsrLive : ∀ mk g k, Notifier.maint mk g k ∈ st.H.get (.cont c) → ∀ y ∈ ev.removed ++ ev.added,
    ∀ it ∈ hookList (st.h.upd c (.dict items')) k true g (some y), it.1 ≠ .cont c
  /-- graph equality is structural on the sub-graphs involved -/
  eqStruct : ∀ mk g k, Notifier.maint mk g k ∈ st.H.get (.cont c) → ∀ r ∈ regs,
    ∀ g' ∈ Gen.visits (dictSite c) actTrue st.h r.g (some r.x),
    (NKey.maint mk g k).equals (.maint .dict g' r.k) = true → g = g' ∧ k = r.k

/-- … plus: the event is a faithful delta, old = removed + rest, new = rest + added
(as multisets; proved below for each dict operation). -/
structure DictItemsFrag (E : Env) (st : St) (regs : List Reg) (c : Id) (items items' : List (Key × Id)) (rest : List Id) (ev : CEvent) : Prop
    extends DictCore E st regs c items items' ev where
  hitems : ∀ F : Id → Nat, ((items.map (·.2)).map F).sum = (ev.removed.map F).sum + (rest.map F).sum
  hitems' : ∀ F : Id → Nat, ((items'.map (·.2)).map F).sum = (rest.map F).sum + (ev.added.map F).sum

theorem dictMut_preserves (E : Env) (st : St) (regs : List Reg) (c : Id) (items items' : List (Key × Id)) (rest : List Id) (ev : CEvent)
    (hinv : HooksEqReach st.h st.H regs) (fr : DictItemsFrag E st regs c items items' rest ev) :
    HooksEqReach (st.h.upd c (.dict items')) (runCont E st (st.h.upd c (.dict items')) c (some ev)).st.H regs ∧
    (runCont E st (st.h.upd c (.dict items')) c (some ev)).err = none := by
  obtain ⟨hwf, hcnt⟩ := hinv
  have ok := dictSite_ok st.h c items fr.hc
  have R0 := dictRel_self st.h c items fr.hc
  have R1 := dictRel_upd fr.hc items'
  have Dh : ∀ r ∈ regs, ∀ o' q, cntItems (hookList st.h r.k true r.g (some r.x)) o' q =
      cntItems (Gen.stable (dictSite c) st.h r.k true r.g (some r.x)) o' q +
      Gen.blocks st.h r.k ((items.map (·.2)).map some) (Gen.visits (dictSite c) actTrue st.h r.g (some r.x)) o' q :=
    fun r hr o' q => Gen.dec ok R0 r.k r.g (fr.noFiltered r hr) true (some r.x) o' q
  have Dh' : ∀ r ∈ regs, ∀ o' q, cntItems (hookList (st.h.upd c (.dict items')) r.k true r.g (some r.x)) o' q =
      cntItems (Gen.stable (dictSite c) st.h r.k true r.g (some r.x)) o' q +
      Gen.blocks (st.h.upd c (.dict items')) r.k ((items'.map (·.2)).map some)
        (Gen.visits (dictSite c) actTrue st.h r.g (some r.x)) o' q :=
    fun r hr o' q => Gen.dec ok R1 r.k r.g (fr.noFiltered r hr) true (some r.x) o' q
  -- L3 below every current item
  have L3y : ∀ r ∈ regs, ∀ g ∈ Gen.visits (dictSite c) actTrue st.h r.g (some r.x), ∀ y ∈ items.map (·.2),
      hookList (st.h.upd c (.dict items')) r.k true g (some y) = hookList st.h r.k true g (some y) := by
    intro r hr g hg y hy
    exact Gen.locality ok R1 r.k g (Gen.visits_noFiltered st.h r.g (fr.noFiltered r hr) (some r.x) g hg) true (some y)
      (fr.nsrItems r hr g hg y hy)
  have L3 : ∀ r ∈ regs, ∀ o' q, Gen.blocks (st.h.upd c (.dict items')) r.k ((items.map (·.2)).map some)
        (Gen.visits (dictSite c) actTrue st.h r.g (some r.x)) o' q =
      Gen.blocks st.h r.k ((items.map (·.2)).map some) (Gen.visits (dictSite c) actTrue st.h r.g (some r.x)) o' q := by
    intro r hr o' q
    unfold Gen.blocks
    apply sum_map_congr
    intro g hg
    congr 1
    apply flatMap_congr'
    intro w hw
    obtain ⟨y, hy, rfl⟩ := List.mem_map.1 hw
    exact L3y r hr g hg y hy
  have B0 : ∀ r ∈ regs, ∀ q, Gen.blocks st.h r.k ((items.map (·.2)).map some)
      (Gen.visits (dictSite c) actTrue st.h r.g (some r.x)) (.cont c) q = 0 := by
    intro r hr q
    unfold Gen.blocks
    apply sum_map_zero
    intro g hg
    apply cntItems_zero_of_ne
    intro it hit
    obtain ⟨w, hw, hm⟩ := List.mem_flatMap.1 hit
    obtain ⟨y, hy, rfl⟩ := List.mem_map.1 hw
    exact fr.nsrItems r hr g hg y hy it hm
  have specH : ∀ o' q, specCnt st.h regs o' q =
      (regs.map (fun r => cntItems (Gen.stable (dictSite c) st.h r.k true r.g (some r.x)) o' q)).sum +
      (regs.map (fun r => Gen.blocks st.h r.k ((items.map (·.2)).map some)
        (Gen.visits (dictSite c) actTrue st.h r.g (some r.x)) o' q)).sum := by
    intro o' q
    unfold specCnt
    rw [← sum_map_add]
    exact sum_map_congr _ _ _ (fun r hr => Dh r hr o' q)
  have specH' : ∀ o' q, specCnt (st.h.upd c (.dict items')) regs o' q =
      (regs.map (fun r => cntItems (Gen.stable (dictSite c) st.h r.k true r.g (some r.x)) o' q)).sum +
      (regs.map (fun r => Gen.blocks (st.h.upd c (.dict items')) r.k ((items'.map (·.2)).map some)
        (Gen.visits (dictSite c) actTrue st.h r.g (some r.x)) o' q)).sum := by
    intro o' q
    unfold specCnt
    rw [← sum_map_add]
    exact sum_map_congr _ _ _ (fun r hr => Dh' r hr o' q)
  -- the maintainers on the dict are the visits
  have hcounts : ∀ q, (mKeys (st.H.get (.cont c))).countP (fun a => a.equals q) =
      (visitKeysD st.h c regs).countP (fun a => a.equals q) := by
    intro q
    cases q with
    | user k0 =>
      rw [List.countP_eq_zero.2, List.countP_eq_zero.2]
      · intro a ha
        obtain ⟨r, _, g, _, rfl⟩ := visitKeysD_shape _ _ _ a ha
        simp [NKey.equals]
      · intro a ha
        obtain ⟨mk, g, k, rfl, _⟩ := mKeys_shape _ a ha
        simp [NKey.equals]
    | maint mk c0 k0 =>
      rw [← cntList_eq_countP_m]
      have := hcnt (.cont c) (.maint mk c0 k0)
      unfold cnt at this
      rw [this]
      by_cases hmk : mk = .dict
      · subst hmk
        rw [visitKeysD_countP, specH]
        have hz : (regs.map (fun r => Gen.blocks st.h r.k ((items.map (·.2)).map some)
            (Gen.visits (dictSite c) actTrue st.h r.g (some r.x)) (.cont c) (.maint .dict c0 k0))).sum = 0 :=
          sum_map_zero _ _ (fun r hr => B0 r hr _)
        rw [hz, Nat.add_zero]
        exact sum_map_congr _ _ _ (fun r hr =>
          Gen.stable_at_target ok (by simp [dictSite]) r.k r.g (fr.noFiltered r hr) true (some r.x) c0 k0)
      · rw [specCnt_cont_kind_dict st.h regs c items fr.hc mk c0 k0 hmk, eq_comm, List.countP_eq_zero]
        intro a ha
        obtain ⟨r, _, g, _, rfl⟩ := visitKeysD_shape _ _ _ a ha
        cases mk <;> simp_all [NKey.equals]
  have hmatch : ∀ (ys : List Id) o' q,
      effectSumC (blockOf (st.h.upd c (.dict items')) ys o' q) (st.H.get (.cont c)) =
      (regs.map (fun r => Gen.blocks (st.h.upd c (.dict items')) r.k (ys.map some)
        (Gen.visits (dictSite c) actTrue st.h r.g (some r.x)) o' q)).sum := by
    intro ys o' q
    rw [effectSumC_eq_keys, sum_blocks_eq_keysD]
    apply sum_eq_of_equiv_counts _ _ _ hcounts
    intro a ha b hb hab
    obtain ⟨mk, g, k, rfl, hm⟩ := mKeys_shape _ a ha
    obtain ⟨r, hr, g', hg', rfl⟩ := visitKeysD_shape _ _ _ b hb
    obtain ⟨rfl, rfl⟩ := fr.eqStruct mk g k hm r hr g' hg' hab
    rfl
  -- multiset decomposition of the blocks
  have hsplitB : ∀ (ys a b : List Id), (∀ F : Id → Nat, (ys.map F).sum = (a.map F).sum + (b.map F).sum) →
      ∀ o' q, (regs.map (fun r => Gen.blocks (st.h.upd c (.dict items')) r.k (ys.map some)
        (Gen.visits (dictSite c) actTrue st.h r.g (some r.x)) o' q)).sum =
      (regs.map (fun r => Gen.blocks (st.h.upd c (.dict items')) r.k (a.map some)
        (Gen.visits (dictSite c) actTrue st.h r.g (some r.x)) o' q)).sum +
      (regs.map (fun r => Gen.blocks (st.h.upd c (.dict items')) r.k (b.map some)
        (Gen.visits (dictSite c) actTrue st.h r.g (some r.x)) o' q)).sum := by
    intro ys a b hd o' q
    rw [← sum_map_add]
    apply sum_map_congr
    intro r _
    unfold Gen.blocks
    rw [← sum_map_add]
    apply sum_map_congr
    intro g _
    have := hd (fun y => cntItems (hookList (st.h.upd c (.dict items')) r.k true g (some y)) o' q)
    simp only [cntItems_flatMap, List.map_map, Function.comp_def]
    exact this
  -- live iteration = iteration over the copy
  have hfr : ∀ mk g k, Notifier.maint mk g k ∈ st.H.get (.cont c) → ∀ H',
      (maintCont (st.h.upd c (.dict items')) g k ev H').H.get (.cont c) = H'.get (.cont c) :=
    fun mk g k hm H' => maintCont_frame _ g k ev (.cont c) H' (fr.nsrLive mk g k hm)
  have heq := notifyCont_eq_callCont E (st.h.upd c (.dict items')) c ev (st.H.get (.cont c)) hfr
    ((st.H.get (.cont c)).length + 4096) 0 st.H [] rfl (by omega)
  simp only [runCont, heq, List.drop_zero]
  have hl : LoopOkC E (st.h.upd c (.dict items')) ev (st.H.get (.cont c)) :=
    { alive := fr.alive, okRem := fr.okRem, okAdd := fr.okAdd }
  have hI := fun o' q => hsplitB (items.map (·.2)) ev.removed rest fr.hitems o' q
  have hI' := fun o' q => hsplitB (items'.map (·.2)) rest ev.added fr.hitems' o' q
  have hle : ∀ o' q, effectSumC (blockOf (st.h.upd c (.dict items')) ev.removed o' q) (st.H.get (.cont c)) ≤
      cnt st.H o' q := by
    intro o' q
    rw [hmatch, hcnt, specH, ← sum_map_congr _ _ _ (fun r hr => L3 r hr o' q), hI]
    omega
  obtain ⟨e, w, cc⟩ := callCont_effect E (st.h.upd c (.dict items')) c ev _ st.H [] hl hwf hle
  refine ⟨⟨w, ?_⟩, e⟩
  intro o' q
  have := cc o' q
  rw [hmatch, hmatch, hcnt, specH, ← sum_map_congr _ _ _ (fun r hr => L3 r hr o' q), hI] at this
  rw [specH', hI']
  omega

/-! ### the dict operations -/

theorem dict_filter_absent (k : Key) (d : List (Key × Id)) (hk : k ∉ d.map (·.1)) :
    d.filter (·.1 != k) = d := by
  apply List.filter_eq_self.2
  intro a ha
  have : a.1 ≠ k := fun e => hk (List.mem_map.2 ⟨a, ha, e⟩)
  simpa using this

theorem dict_map_absent (k : Key) (x : Id) (d : List (Key × Id)) (hk : k ∉ d.map (·.1)) :
    d.map (fun kv => if kv.1 == k then (k, x) else kv) = d := by
  have : ∀ a ∈ d, (fun kv : Key × Id => if kv.1 == k then (k, x) else kv) a = id a := by
    intro a ha
    have : a.1 ≠ k := fun e => hk (List.mem_map.2 ⟨a, ha, e⟩)
    simp [this]
  rw [List.map_congr_left this, List.map_id]

/-- the value under the (single) key `k` of a dict with distinct keys, split off -/
theorem sum_dict_split (F : Id → Nat) (k k' : Key) (y : Id) : ∀ d : List (Key × Id), (d.map (·.1)).Nodup →
    d.find? (·.1 == k) = some (k', y) →
    ((d.map (·.2)).map F).sum = F y + (((d.filter (·.1 != k)).map (·.2)).map F).sum := by
  intro d
  induction d with
  | nil => intro _ h; simp at h
  | cons a d ih =>
    intro hnd hf
    rw [List.map_cons, List.nodup_cons] at hnd
    by_cases ha : a.1 = k
    · have hb : (a.1 == k) = true := by simpa using ha
      simp only [List.find?_cons, hb, Option.some.injEq] at hf
      subst hf
      simp only at ha
      subst ha
      have hk : k' ∉ d.map (·.1) := hnd.1
      simp [dict_filter_absent k' d hk]
    · have hb : (a.1 == k) = false := by simpa using ha
      have hne : (a.1 != k) = true := by simpa using ha
      simp only [List.find?_cons, hb] at hf
      simp only [List.filter_cons, hne, if_true, List.map_cons, List.sum_cons, ih hnd.2 hf]
      omega

/-- … and replaced -/
theorem sum_dict_overwrite (F : Id → Nat) (k k' : Key) (x y : Id) : ∀ d : List (Key × Id), (d.map (·.1)).Nodup →
    d.find? (·.1 == k) = some (k', y) →
    (((d.map (fun kv => if kv.1 == k then (k, x) else kv)).map (·.2)).map F).sum =
      (((d.filter (·.1 != k)).map (·.2)).map F).sum + F x := by
  intro d
  induction d with
  | nil => intro _ h; simp at h
  | cons a d ih =>
    intro hnd hf
    rw [List.map_cons, List.nodup_cons] at hnd
    by_cases ha : a.1 = k
    · have hb : (a.1 == k) = true := by simpa using ha
      simp only [List.find?_cons, hb, Option.some.injEq] at hf
      subst hf
      simp only at ha
      subst ha
      have hk : k' ∉ d.map (·.1) := hnd.1
      have h1 := dict_map_absent k' x d hk
      have h2 := dict_filter_absent k' d hk
      simp only [List.map_cons, h1, List.filter_cons, h2]
      simp
      omega
    · have hb : (a.1 == k) = false := by simpa using ha
      have hne : (a.1 != k) = true := by simpa using ha
      simp only [List.find?_cons, hb] at hf
      simp only [List.filter_cons, hne, if_true, List.map_cons, List.sum_cons, hb, Bool.false_eq_true, if_false,
        ih hnd.2 hf]
      omega

/-- `d[k] = x`, `k` a new key -/
theorem dictSet_new_preserves (E : Env) (st : St) (regs : List Reg) (c : Id) (k : Key) (x : Id) (d : List (Key × Id))
    (hk : d.find? (·.1 == k) = none) (hinv : HooksEqReach st.h st.H regs)
    (core : DictCore E st regs c d (d ++ [(k, x)]) (.dict [] [(k, x)])) :
    HooksEqReach (mutate E st (.dictSet c k x)).st.h (mutate E st (.dictSet c k x)).st.H regs ∧
    (mutate E st (.dictSet c k x)).err = none := by
  have fr : DictItemsFrag E st regs c d (d ++ [(k, x)]) (d.map (·.2)) (.dict [] [(k, x)]) :=
    { core with
      hitems := by intro F; simp [CEvent.removed]
      hitems' := by intro F; simp [CEvent.added, List.map_append, List.sum_append] }
  simp only [mutate, core.hc, hk]
  exact dictMut_preserves E st regs c d _ _ _ hinv fr

/-- `d[k] = x`, `k` an existing key (old value `y`): reported as `y` removed and `x` added.
The same object may sit under other keys too: it keeps their share of the reference counts. -/
theorem dictSet_overwrite_preserves (E : Env) (st : St) (regs : List Reg) (c : Id) (k k' : Key) (x y : Id)
    (d : List (Key × Id)) (hk : d.find? (·.1 == k) = some (k', y)) (hnd : (d.map (·.1)).Nodup)
    (hinv : HooksEqReach st.h st.H regs)
    (core : DictCore E st regs c d (d.map (fun kv => if kv.1 == k then (k, x) else kv)) (.dict [(k, y)] [(k, x)])) :
    HooksEqReach (mutate E st (.dictSet c k x)).st.h (mutate E st (.dictSet c k x)).st.H regs ∧
    (mutate E st (.dictSet c k x)).err = none := by
  have fr : DictItemsFrag E st regs c d (d.map (fun kv => if kv.1 == k then (k, x) else kv))
      ((d.filter (·.1 != k)).map (·.2)) (.dict [(k, y)] [(k, x)]) :=
    { core with
      hitems := by intro F; rw [sum_dict_split F k k' y d hnd hk]; simp [CEvent.removed]
      hitems' := by intro F; rw [sum_dict_overwrite F k k' x y d hnd hk]; simp [CEvent.added] }
  simp only [mutate, core.hc, hk]
  exact dictMut_preserves E st regs c d _ _ _ hinv fr

/-- `del d[k]` / `d.pop(k)`, `k` an existing key -/
theorem dictDel_preserves (E : Env) (st : St) (regs : List Reg) (c : Id) (k k' : Key) (y : Id)
    (d : List (Key × Id)) (hk : d.find? (·.1 == k) = some (k', y)) (hnd : (d.map (·.1)).Nodup)
    (hinv : HooksEqReach st.h st.H regs)
    (core : DictCore E st regs c d (d.filter (·.1 != k)) (.dict [(k, y)] [])) :
    HooksEqReach (mutate E st (.dictDel c k)).st.h (mutate E st (.dictDel c k)).st.H regs ∧
    (mutate E st (.dictDel c k)).err = none := by
  have fr : DictItemsFrag E st regs c d (d.filter (·.1 != k)) ((d.filter (·.1 != k)).map (·.2)) (.dict [(k, y)] []) :=
    { core with
      hitems := by intro F; rw [sum_dict_split F k k' y d hnd hk]; simp [CEvent.removed]
      hitems' := by intro F; simp [CEvent.added] }
  simp only [mutate, core.hc, hk]
  exact dictMut_preserves E st regs c d _ _ _ hinv fr

/-- `d.clear()` on a non-empty dict -/
theorem dictClear_preserves (E : Env) (st : St) (regs : List Reg) (c : Id) (d : List (Key × Id))
    (hne : d.isEmpty = false) (hinv : HooksEqReach st.h st.H regs)
    (core : DictCore E st regs c d [] (.dict d [])) :
    HooksEqReach (mutate E st (.dictClear c)).st.h (mutate E st (.dictClear c)).st.H regs ∧
    (mutate E st (.dictClear c)).err = none := by
  have fr : DictItemsFrag E st regs c d [] [] (.dict d []) :=
    { core with
      hitems := by intro F; simp [CEvent.removed]
      hitems' := by intro F; simp [CEvent.added] }
  simp only [mutate, core.hc, hne, Bool.false_eq_true, if_false]
  exact dictMut_preserves E st regs c d _ _ _ hinv fr

/-! The model keeps dict keys distinct: the four operations preserve `Nodup` of the keys
(so the `Nodup` hypothesis of the overwrite / delete lemmas is an invariant of the cell). -/

theorem dict_keys_overwrite (k : Key) (x : Id) (d : List (Key × Id)) :
    (d.map (fun kv => if kv.1 == k then (k, x) else kv)).map (·.1) = d.map (·.1) := by
  rw [List.map_map]
  apply List.map_congr_left
  intro a _
  by_cases ha : a.1 = k
  · simp [ha]
  · simp [ha]

theorem dict_keys_nodup_filter (k : Key) (d : List (Key × Id)) (hnd : (d.map (·.1)).Nodup) :
    ((d.filter (·.1 != k)).map (·.1)).Nodup :=
  hnd.sublist (List.filter_sublist.map _)

theorem dict_keys_nodup_append (k : Key) (x : Id) (d : List (Key × Id)) (hnd : (d.map (·.1)).Nodup)
    (hk : d.find? (·.1 == k) = none) : ((d ++ [(k, x)]).map (·.1)).Nodup := by
  have hk' : k ∉ d.map (·.1) := by
    intro hm
    obtain ⟨a, ha, e⟩ := List.mem_map.1 hm
    have := List.find?_eq_none.1 hk a ha
    simp [e] at this
  rw [List.map_append, List.nodup_append]
  refine ⟨hnd, by simp, ?_⟩
  intro a ha b hb
  simp at hb
  subst hb
  intro e
  exact hk' (e ▸ ha)

/-! ### non-vacuity witness

`a.byname = {1: b, 2: b}` (dict cell 100, the SAME object `b` under two keys), `c` another
instance; `a.observe(handler, "byname.items.value")`. -/
namespace DictWitness

def fld (n : Name) (v : Val) : Field := ⟨n, false, .val (if n == nValue then .int 0 else .none), v, .equality⟩

def dKey : HKey := ⟨0, 0⟩

def dHeap : Heap :=
  [(0, .inst [fld nByname (.ref 100), fld nTraitAdded .unset]),
   (1, .inst [fld nValue (.int 3), fld nTraitAdded .unset]),
   (2, .inst [fld nValue (.int 5), fld nTraitAdded .unset]),
   (100, .dict [(1, 1), (2, 1)])]
def dGraph : Graph := .node (.named nByname true false) [.node (.dictItems true false) [.node (.named nValue true false) []]]
def dSt : St := ⟨dHeap, (addRemove dHeap dKey false true dGraph (some 0) Hooks.empty).H⟩
def dRegs : List Reg := [⟨dKey, dGraph, 0⟩]

/-- after `observe` on objects without hooks the invariant holds -/
theorem dInv : HooksEqReach dSt.h dSt.H dRegs := by
  have hok : (addRemove dHeap dKey false true dGraph (some 0) Hooks.empty).err = none := by decide
  obtain ⟨_, hc, hw⟩ := addRemove_add dHeap dKey dGraph true (some 0) Hooks.empty hok
  refine ⟨hw WF_empty, ?_⟩
  intro o q
  show cnt (addRemove dHeap dKey false true dGraph (some 0) Hooks.empty).H o q = _
  rw [hc]
  simp [specCnt, cnt, Hooks.empty, cntList, dRegs, dSt]

theorem dHooks : dSt.H.get (.cont 100) =
    [.user dKey 1, .maint .dict (.node (.named nValue true false) []) dKey] := rfl
theorem dVisits : Gen.visits (dictSite 100) actTrue dSt.h dGraph (some 0) = [.node (.named nValue true false) []] := rfl

/-- The hypotheses of `dictDel_preserves` hold for `del a.byname[1]` (`b` stays under key 2). -/
theorem dCoreDel : DictCore {} dSt dRegs 100 [(1, 1), (2, 1)] ([(1, 1), (2, 1)].filter (·.1 != 1)) (.dict [(1, 1)] []) where
  hc := rfl
  noFiltered := by intro r hr; simp [dRegs] at hr; subst hr; decide
  alive := fun _ => rfl
  okRem := by
    intro mk g k hm y hy
    rw [dHooks] at hm
    simp at hm
    obtain ⟨rfl, rfl, rfl⟩ := hm
    simp [CEvent.removed] at hy
    subst hy
    decide
  okAdd := by intro mk g k _ y hy; simp [CEvent.added] at hy
  nsrItems := by
    intro r hr g hg y hy
    simp [dRegs] at hr; subst hr
    rw [dVisits] at hg
    simp at hg; subst hg
    simp at hy; subst hy
    decide
  nsrLive := by
    intro mk g k hm y hy
    rw [dHooks] at hm
    simp at hm
    obtain ⟨rfl, rfl, rfl⟩ := hm
    simp [CEvent.removed, CEvent.added] at hy
    subst hy
    decide
  eqStruct := by
    intro mk g k hm r hr g' hg' he
    rw [dHooks] at hm
    simp at hm
    obtain ⟨rfl, rfl, rfl⟩ := hm
    simp [dRegs] at hr; subst hr
    rw [dVisits] at hg'
    simp at hg'; subst hg'
    exact ⟨rfl, rfl⟩

/-- The hypotheses of `dictSet_overwrite_preserves` hold for `a.byname[2] = c`. -/
theorem dCoreOverwrite : DictCore {} dSt dRegs 100 [(1, 1), (2, 1)] ([(1, 1), (2, 1)].map (fun kv => if kv.1 == 2 then (2, 2) else kv)) (.dict [(2, 1)] [(2, 2)]) where
  hc := rfl
  noFiltered := by intro r hr; simp [dRegs] at hr; subst hr; decide
  alive := fun _ => rfl
  okRem := by
    intro mk g k hm y hy
    rw [dHooks] at hm
    simp at hm
    obtain ⟨rfl, rfl, rfl⟩ := hm
    simp [CEvent.removed] at hy
    subst hy
    decide
  okAdd := by
    intro mk g k hm y hy
    rw [dHooks] at hm
    simp at hm
    obtain ⟨rfl, rfl, rfl⟩ := hm
    simp [CEvent.added] at hy
    subst hy
    decide
  nsrItems := by
    intro r hr g hg y hy
    simp [dRegs] at hr; subst hr
    rw [dVisits] at hg
    simp at hg; subst hg
    simp at hy; subst hy
    decide
  nsrLive := by
    intro mk g k hm y hy
    rw [dHooks] at hm
    simp at hm
    obtain ⟨rfl, rfl, rfl⟩ := hm
    simp [CEvent.removed, CEvent.added] at hy
    rcases hy with rfl | rfl <;> decide
  eqStruct := by
    intro mk g k hm r hr g' hg' he
    rw [dHooks] at hm
    simp at hm
    obtain ⟨rfl, rfl, rfl⟩ := hm
    simp [dRegs] at hr; subst hr
    rw [dVisits] at hg'
    simp at hg'; subst hg'
    exact ⟨rfl, rfl⟩

/-- The hypotheses of `dictSet_new_preserves` hold for `a.byname[3] = c`. -/
theorem dCoreNew : DictCore {} dSt dRegs 100 [(1, 1), (2, 1)] ([(1, 1), (2, 1)] ++ [(3, 2)]) (.dict [] [(3, 2)]) where
  hc := rfl
  noFiltered := by intro r hr; simp [dRegs] at hr; subst hr; decide
  alive := fun _ => rfl
  okRem := by intro mk g k _ y hy; simp [CEvent.removed] at hy
  okAdd := by
    intro mk g k hm y hy
    rw [dHooks] at hm
    simp at hm
    obtain ⟨rfl, rfl, rfl⟩ := hm
    simp [CEvent.added] at hy
    subst hy
    decide
  nsrItems := by
    intro r hr g hg y hy
    simp [dRegs] at hr; subst hr
    rw [dVisits] at hg
    simp at hg; subst hg
    simp at hy; subst hy
    decide
  nsrLive := by
    intro mk g k hm y hy
    rw [dHooks] at hm
    simp at hm
    obtain ⟨rfl, rfl, rfl⟩ := hm
    simp [CEvent.removed, CEvent.added] at hy
    subst hy
    decide
  eqStruct := by
    intro mk g k hm r hr g' hg' he
    rw [dHooks] at hm
    simp at hm
    obtain ⟨rfl, rfl, rfl⟩ := hm
    simp [dRegs] at hr; subst hr
    rw [dVisits] at hg'
    simp at hg'; subst hg'
    exact ⟨rfl, rfl⟩

/-- The hypotheses of `dictClear_preserves` hold for `a.byname.clear()`. -/
theorem dCoreClear : DictCore {} dSt dRegs 100 [(1, 1), (2, 1)] [] (.dict [(1, 1), (2, 1)] []) where
  hc := rfl
  noFiltered := by intro r hr; simp [dRegs] at hr; subst hr; decide
  alive := fun _ => rfl
  okRem := by
    intro mk g k hm y hy
    rw [dHooks] at hm
    simp at hm
    obtain ⟨rfl, rfl, rfl⟩ := hm
    simp [CEvent.removed] at hy
    subst hy
    decide
  okAdd := by intro mk g k _ y hy; simp [CEvent.added] at hy
  nsrItems := by
    intro r hr g hg y hy
    simp [dRegs] at hr; subst hr
    rw [dVisits] at hg
    simp at hg; subst hg
    simp at hy; subst hy
    decide
  nsrLive := by
    intro mk g k hm y hy
    rw [dHooks] at hm
    simp at hm
    obtain ⟨rfl, rfl, rfl⟩ := hm
    simp [CEvent.removed, CEvent.added] at hy
    subst hy
    decide
  eqStruct := by
    intro mk g k hm r hr g' hg' he
    rw [dHooks] at hm
    simp at hm
    obtain ⟨rfl, rfl, rfl⟩ := hm
    simp [dRegs] at hr; subst hr
    rw [dVisits] at hg'
    simp at hg'; subst hg'
    exact ⟨rfl, rfl⟩

/-- … the theorem applies to `del a.byname[1]`; the reference count on `b.value` goes 2 ↦ 1
(`b` is still there under key 2) and a later `b.value = 4` is delivered -/
example : HooksEqReach (mutate {} dSt (.dictDel 100 1)).st.h (mutate {} dSt (.dictDel 100 1)).st.H dRegs :=
  (dictDel_preserves {} dSt dRegs 100 1 1 1 [(1, 1), (2, 1)] rfl (by decide) dInv dCoreDel).1

example : cnt dSt.H (.trait 1 nValue) (.user dKey) = 2 ∧
    cnt (mutate {} dSt (.dictDel 100 1)).st.H (.trait 1 nValue) (.user dKey) = 1 ∧
    (mutate {} (mutate {} dSt (.dictDel 100 1)).st (.setField 1 nValue (.int 4) 0)).delivered =
      [.trait dKey 1 nValue (.int 3) (.int 4)] := by decide

/-- … to `a.byname[2] = c` (existing key): `b.value` 2 ↦ 1, `c.value` 0 ↦ 1 -/
example : HooksEqReach (mutate {} dSt (.dictSet 100 2 2)).st.h (mutate {} dSt (.dictSet 100 2 2)).st.H dRegs :=
  (dictSet_overwrite_preserves {} dSt dRegs 100 2 2 2 1 [(1, 1), (2, 1)] rfl (by decide) dInv dCoreOverwrite).1

example : cnt (mutate {} dSt (.dictSet 100 2 2)).st.H (.trait 1 nValue) (.user dKey) = 1 ∧
    cnt (mutate {} dSt (.dictSet 100 2 2)).st.H (.trait 2 nValue) (.user dKey) = 1 ∧
    (mutate {} dSt (.dictSet 100 2 2)).delivered = [.dict dKey 100 [(2, 1)] [(2, 2)]] := by decide

/-- … to `a.byname[3] = c` (new key): `c.value` gets hooked -/
example : HooksEqReach (mutate {} dSt (.dictSet 100 3 2)).st.h (mutate {} dSt (.dictSet 100 3 2)).st.H dRegs :=
  (dictSet_new_preserves {} dSt dRegs 100 3 2 [(1, 1), (2, 1)] rfl dInv dCoreNew).1

example : cnt dSt.H (.trait 2 nValue) (.user dKey) = 0 ∧
    cnt (mutate {} dSt (.dictSet 100 3 2)).st.H (.trait 2 nValue) (.user dKey) = 1 ∧
    cnt (mutate {} dSt (.dictSet 100 3 2)).st.H (.trait 1 nValue) (.user dKey) = 2 := by decide

/-- … and to `a.byname.clear()`: both references to `b.value` are released -/
example : HooksEqReach (mutate {} dSt (.dictClear 100)).st.h (mutate {} dSt (.dictClear 100)).st.H dRegs :=
  (dictClear_preserves {} dSt dRegs 100 [(1, 1), (2, 1)] (by decide) dInv dCoreClear).1

example : cnt (mutate {} dSt (.dictClear 100)).st.H (.trait 1 nValue) (.user dKey) = 0 ∧
    (mutate {} dSt (.dictClear 100)).delivered = [.dict dKey 100 [(1, 1), (2, 1)] []] := by decide

end DictWitness

end TraitsVerif.Model.Obs
