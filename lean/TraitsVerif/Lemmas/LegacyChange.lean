/-
Heap mutations as "one attribute of one object loses `olds` and gains fresh
`news`": preservation of tree-shapedness and the effect on reachability
(helper lemmas for C16).
-/
import TraitsVerif.Lemmas.LegacyReach
namespace TraitsVerif.Model.Legacy
open List

/-- The objects a handler script unregisters / registers. -/
def scUnregs : List Act → List Nat
  | [] => []
  | .unreg x :: sc => x :: scUnregs sc
  | .reg _ :: sc => scUnregs sc

def scRegs : List Act → List Nat
  | [] => []
  | .unreg _ :: sc => scRegs sc
  | .reg x :: sc => x :: scRegs sc

/-- Heap `h'` is `h` with attribute `a` of `o` having lost `olds` and gained the
fresh objects `news`. -/
structure Change (h h' : Heap) (o : Nat) (a : Attr) (olds news : List Nat) : Prop where
  o_lt : o < h.next
  next_le : h.next ≤ h'.next
  other : ∀ p a', (p ≠ o ∨ a' ≠ a) → targets h' a' p = targets h a' p
  mem : ∀ c, c ∈ targets h' a o ↔ (c ∈ targets h a o ∧ c ∉ olds) ∨ c ∈ news
  olds_sub : ∀ c ∈ olds, c ∈ targets h a o
  news_fresh : ∀ c ∈ news, h.next ≤ c ∧ c < h'.next
  nodup' : (targets h' a o).Nodup
  olds_nodup : olds.Nodup
  news_nodup : news.Nodup
  keys' : ∀ p, ((h'.obj p).byname.map (·.1)).Nodup

variable {h h' : Heap} {o : Nat} {a : Attr} {olds news : List Nat}

theorem Change.mem_targets (hc : Change h h' o a olds news) (_ht : TreeShaped h) {p a' c} :
    c ∈ targets h' a' p ↔
      (c ∈ targets h a' p ∧ ¬(p = o ∧ a' = a ∧ c ∈ olds)) ∨ (p = o ∧ a' = a ∧ c ∈ news) := by
  by_cases hpa : p = o ∧ a' = a
  · obtain ⟨rfl, rfl⟩ := hpa
    rw [hc.mem]; simp
  · have : p ≠ o ∨ a' ≠ a := by
      by_cases hp : p = o
      · exact Or.inr (fun e => hpa ⟨hp, e⟩)
      · exact Or.inl hp
    rw [hc.other _ _ this]
    constructor
    · intro h1; exact Or.inl ⟨h1, fun ⟨e1, e2, _⟩ => hpa ⟨e1, e2⟩⟩
    · rintro (⟨h1, _⟩ | ⟨e1, e2, _⟩)
      · exact h1
      · exact (hpa ⟨e1, e2⟩).elim

/-- The allowed mutations preserve tree-shapedness. -/
theorem Change.tree (hc : Change h h' o a olds news) (ht : TreeShaped h) : TreeShaped h' := by
  have old_or_new : ∀ {p a' c}, c ∈ targets h' a' p →
      (c ∈ targets h a' p) ∨ (p = o ∧ a' = a ∧ c ∈ news) := by
    intro p a' c hm
    rcases (hc.mem_targets ht).mp hm with ⟨h1, _⟩ | h2
    · exact Or.inl h1
    · exact Or.inr h2
  refine ⟨?_, ?_, ?_, ?_, ?_, ?_, hc.keys'⟩
  · intro p a' c hm
    rcases old_or_new hm with h1 | ⟨rfl, rfl, h3⟩
    · exact ht.up _ _ _ h1
    · have := hc.news_fresh c h3; have := hc.o_lt; omega
  · intro c o₁ a₁ o₂ a₂ h1 h2
    rcases old_or_new h1 with h1 | ⟨rfl, rfl, h1⟩ <;> rcases old_or_new h2 with h2 | ⟨e1, e2, h2⟩
    · exact ht.uniq _ _ _ _ _ h1 h2
    · have := ht.bound _ _ _ h1; have := hc.news_fresh c h2; omega
    · have := ht.bound _ _ _ h2; have := hc.news_fresh c h1; omega
    · exact ⟨e1.symm, e2.symm⟩
  · intro p a'
    by_cases hpa : p = o ∧ a' = a
    · obtain ⟨rfl, rfl⟩ := hpa; exact hc.nodup'
    · have : p ≠ o ∨ a' ≠ a := by
        by_cases hp : p = o
        · exact Or.inr (fun e => hpa ⟨hp, e⟩)
        · exact Or.inl hp
      rw [hc.other _ _ this]; exact ht.nodup _ _
  · intro p a' c hm
    rcases old_or_new hm with h1 | ⟨_, _, h3⟩
    · have := ht.bound _ _ _ h1; have := hc.next_le; omega
    · exact (hc.news_fresh c h3).2
  · intro p a' hp
    have hpo : p ≠ o := by have := hc.o_lt; have := hc.next_le; omega
    rw [hc.other _ _ (Or.inl hpo)]
    exact ht.empty _ _ (by have := hc.next_le; omega)
  · have := ht.pos; have := hc.next_le; omega

/-- New objects are leaves. -/
theorem Change.news_leaf (hc : Change h h' o a olds news) (ht : TreeShaped h) {c} (hcn : c ∈ news)
    (a' : Attr) : targets h' a' c = [] := by
  have hf := hc.news_fresh c hcn
  have hco : c ≠ o := by have := hc.o_lt; omega
  rw [hc.other _ _ (Or.inl hco)]
  exact ht.empty _ _ hf.1

/-- Below a removed object nothing changes. -/
theorem Change.descFrom_old (hc : Change h h' o a olds news) (ht : TreeShaped h) {L : List Link}
    {c k j x} (hco : c ∈ targets h a o) :
    x ∈ descFrom h' L k c j ↔ x ∈ descFrom h L k c j := by
  apply descFrom_congr ht
  intro p a' c' hp
  have hpo : p ≠ o := by have := ht.up _ _ _ hco; omega
  rw [hc.other _ _ (Or.inl hpo)]

/-- A change of an attribute the name does not follow at the object's depth (or
of an unreachable object) leaves reachability unchanged. -/
theorem Change.reach_off_path (hc : Change h h' o a olds news) (ht : TreeShaped h) {L : List Link}
    (hoff : ∀ k l, o ∈ reach h L k → L[k]? = some l → l.attr ≠ a) :
    ∀ m x, x ∈ reach h' L m ↔ x ∈ reach h L m := by
  intro m
  induction m with
  | zero => intro x; simp [mem_reach_zero]
  | succ m ih =>
    intro x
    rw [mem_reach_succ, mem_reach_succ]
    constructor
    · rintro ⟨l, p, hl, hp, hx⟩
      have hp' := (ih p).mp hp
      refine ⟨l, p, hl, hp', ?_⟩
      rcases (hc.mem_targets ht).mp hx with ⟨h1, _⟩ | ⟨rfl, e2, _⟩
      · exact h1
      · exact (hoff m l hp' hl e2).elim
    · rintro ⟨l, p, hl, hp, hx⟩
      refine ⟨l, p, hl, (ih p).mpr hp, ?_⟩
      refine (hc.mem_targets ht).mpr (Or.inl ⟨hx, ?_⟩)
      rintro ⟨rfl, e2, _⟩
      exact hoff m l hp hl e2

/-- A change of the attribute the name follows at the depth `k` of a reachable
object: the removed subtrees leave, the new leaves enter at depth `k + 1`. -/
theorem Change.reach_on_path (hc : Change h h' o a olds news) (ht : TreeShaped h) {L : List Link}
    {k : Nat} {l : Link} (hok : o ∈ reach h L k) (hl : L[k]? = some l) (hla : l.attr = a) :
    ∀ m x, x ∈ reach h' L m ↔
      (x ∈ reach h L m ∧ ¬(k + 1 ≤ m ∧ ∃ c ∈ olds, x ∈ descFrom h L (k + 1) c (m - (k + 1)))) ∨
      (m = k + 1 ∧ x ∈ news) := by
  intro m
  induction m with
  | zero =>
    intro x
    simp only [mem_reach_zero]
    constructor
    · intro hx; exact Or.inl ⟨hx, by omega⟩
    · rintro (⟨hx, _⟩ | ⟨hm, _⟩)
      · exact hx
      · omega
  | succ m ih =>
    intro x
    constructor
    · intro hx
      obtain ⟨lm, p, hlm, hp, hxp⟩ := mem_reach_succ.mp hx
      rcases (ih p).mp hp with ⟨hp1, hp2⟩ | ⟨hpm, hpn⟩
      · rcases (hc.mem_targets ht).mp hxp with ⟨hx1, hx2⟩ | ⟨rfl, e2, hxn⟩
        · -- an old edge p → x
          refine Or.inl ⟨mem_reach_succ.mpr ⟨lm, p, hlm, hp1, hx1⟩, ?_⟩
          rintro ⟨hkm, c, hco, hxc⟩
          rcases Nat.eq_or_lt_of_le hkm with hkm' | hkm'
          · -- m = k : x would be one of the olds, whose parent is o
            have hmk : m = k := by omega
            subst hmk
            rw [show m + 1 - (m + 1) = 0 by omega] at hxc
            simp [mem_descFrom_zero] at hxc; subst hxc
            obtain ⟨rfl, e2⟩ := ht.uniq _ _ _ _ _ hx1 (hc.olds_sub _ hco)
            exact hx2 ⟨rfl, e2, hco⟩
          · -- deeper: p would be under the same old object
            obtain ⟨d, hd⟩ : ∃ d, m + 1 - (k + 1) = d + 1 := ⟨m - (k + 1), by omega⟩
            rw [hd] at hxc
            obtain ⟨l', p', _, hp', hxp'⟩ := mem_descFrom_succ.mp hxc
            obtain ⟨rfl, _⟩ := ht.uniq _ _ _ _ _ hx1 hxp'
            exact hp2 ⟨by omega, c, hco, by rwa [show m - (k + 1) = d by omega]⟩
        · -- a new edge o → x
          have : m = k := reach_unique_depth ht hp1 hok
          exact Or.inr ⟨by omega, hxn⟩
      · -- p is one of the new leaves: it has no children
        rw [hc.news_leaf ht hpn] at hxp; simp at hxp
    · rintro (⟨hx1, hx2⟩ | ⟨hm, hxn⟩)
      · obtain ⟨lm, p, hlm, hp, hxp⟩ := mem_reach_succ.mp hx1
        have hp' : p ∈ reach h' L m := by
          refine (ih p).mpr (Or.inl ⟨hp, ?_⟩)
          rintro ⟨hkm, c, hco, hpc⟩
          apply hx2
          refine ⟨by omega, c, hco, ?_⟩
          rw [show m + 1 - (k + 1) = (m - (k + 1)) + 1 by omega]
          refine mem_descFrom_succ.mpr ⟨lm, p, ?_, hpc, hxp⟩
          rw [← hlm]; congr 1; omega
        refine mem_reach_succ.mpr ⟨lm, p, hlm, hp', ?_⟩
        refine (hc.mem_targets ht).mpr (Or.inl ⟨hxp, ?_⟩)
        rintro ⟨rfl, e2, hxo⟩
        have hmk : m = k := reach_unique_depth ht hp hok
        apply hx2
        refine ⟨by omega, x, hxo, ?_⟩
        rw [show m + 1 - (k + 1) = 0 by omega]; simp [mem_descFrom_zero]
      · have hmk : m = k := by omega
        subst hmk
        have ho' : o ∈ reach h' L m := (ih o).mpr (Or.inl ⟨hok, by omega⟩)
        refine mem_reach_succ.mpr ⟨l, o, hl, ho', ?_⟩
        rw [hla]
        exact (hc.mem _).mpr (Or.inr hxn)

end TraitsVerif.Model.Legacy
