/-
Heap mutations as "one attribute of one object loses `olds` and gains fresh
`news`": preservation of tree-shapedness and the effect on reachability
(helper lemmas for C16).
-/
import TraitsVerif.Lemmas.LegacyReach
namespace TraitsVerif.Model.Legacy
open List

/-- The objects a handler script unregisters / registers. -/
def scUnregs : List Act → List Nat
  | [] => []
  | .unreg x :: sc => x :: scUnregs sc
  | .reg _ :: sc => scUnregs sc

def scRegs : List Act → List Nat
  | [] => []
  | .unreg _ :: sc => scRegs sc
  | .reg x :: sc => x :: scRegs sc

/-- Heap `h'` is `h` with attribute `a` of `o` having lost `olds` and gained `news`;
every gained object is fresh or one of the lost ones (carried over by a reordering or
a reassignment that keeps objects: the graph stays a tree). -/
structure Change (h h' : Heap) (o : Nat) (a : Attr) (olds news : List Nat) : Prop where
  o_lt : o < h.next
  next_le : h.next ≤ h'.next
  other : ∀ p a', (p ≠ o ∨ a' ≠ a) → targets h' a' p = targets h a' p
  mem : ∀ c, c ∈ targets h' a o ↔ (c ∈ targets h a o ∧ c ∉ olds) ∨ c ∈ news
  olds_sub : ∀ c ∈ olds, c ∈ targets h a o
  news_ok : ∀ c ∈ news, (h.next ≤ c ∧ c < h'.next) ∨ c ∈ olds
  nodup' : (targets h' a o).Nodup
  olds_nodup : olds.Nodup
  news_nodup : news.Nodup
  keys' : ∀ p, ((h'.obj p).byname.map (·.1)).Nodup

variable {h h' : Heap} {o : Nat} {a : Attr} {olds news : List Nat}

theorem Change.mem_targets (hc : Change h h' o a olds news) (_ht : TreeShaped h) {p a' c} :
    c ∈ targets h' a' p ↔
      (c ∈ targets h a' p ∧ ¬(p = o ∧ a' = a ∧ c ∈ olds)) ∨ (p = o ∧ a' = a ∧ c ∈ news) := by
  by_cases hpa : p = o ∧ a' = a
  · obtain ⟨rfl, rfl⟩ := hpa
    rw [hc.mem]; simp
  · have : p ≠ o ∨ a' ≠ a := by
      by_cases hp : p = o
      · exact Or.inr (fun e => hpa ⟨hp, e⟩)
      · exact Or.inl hp
    rw [hc.other _ _ this]
    constructor
    · intro h1; exact Or.inl ⟨h1, fun ⟨e1, e2, _⟩ => hpa ⟨e1, e2⟩⟩
    · rintro (⟨h1, _⟩ | ⟨e1, e2, _⟩)
      · exact h1
      · exact (hpa ⟨e1, e2⟩).elim

/-- The allowed mutations preserve tree-shapedness. -/
theorem Change.tree (hc : Change h h' o a olds news) (ht : TreeShaped h) : TreeShaped h' := by
  have old_or_new : ∀ {p a' c}, c ∈ targets h' a' p →
      (c ∈ targets h a' p) ∨ (p = o ∧ a' = a ∧ c ∈ news) := by
    intro p a' c hm
    rcases (hc.mem_targets ht).mp hm with ⟨h1, _⟩ | h2
    · exact Or.inl h1
    · exact Or.inr h2
  refine ⟨?_, ?_, ?_, ?_, ?_, ?_, hc.keys'⟩
  · intro p a' c hm
    rcases old_or_new hm with h1 | ⟨rfl, rfl, h3⟩
    · exact ht.up _ _ _ h1
    · rcases hc.news_ok c h3 with hf | hcar
      · have := hc.o_lt; omega
      · exact ht.up _ _ _ (hc.olds_sub c hcar)
  · intro c o₁ a₁ o₂ a₂ h1 h2
    rcases old_or_new h1 with h1 | ⟨e1, e1', h1⟩ <;> rcases old_or_new h2 with h2 | ⟨e2, e2', h2⟩
    · exact ht.uniq _ _ _ _ _ h1 h2
    · rcases hc.news_ok c h2 with hf | hcar
      · have := ht.bound _ _ _ h1; omega
      · obtain ⟨r1, r2⟩ := ht.uniq _ _ _ _ _ h1 (hc.olds_sub c hcar)
        exact ⟨r1.trans e2.symm, r2.trans e2'.symm⟩
    · rcases hc.news_ok c h1 with hf | hcar
      · have := ht.bound _ _ _ h2; omega
      · obtain ⟨r1, r2⟩ := ht.uniq _ _ _ _ _ h2 (hc.olds_sub c hcar)
        exact ⟨e1.trans r1.symm, e1'.trans r2.symm⟩
    · exact ⟨e1.trans e2.symm, e1'.trans e2'.symm⟩
  · intro p a'
    by_cases hpa : p = o ∧ a' = a
    · obtain ⟨rfl, rfl⟩ := hpa; exact hc.nodup'
    · have : p ≠ o ∨ a' ≠ a := by
        by_cases hp : p = o
        · exact Or.inr (fun e => hpa ⟨hp, e⟩)
        · exact Or.inl hp
      rw [hc.other _ _ this]; exact ht.nodup _ _
  · intro p a' c hm
    rcases old_or_new hm with h1 | ⟨_, _, h3⟩
    · have := ht.bound _ _ _ h1; have := hc.next_le; omega
    · rcases hc.news_ok c h3 with hf | hcar
      · exact hf.2
      · have := ht.bound _ _ _ (hc.olds_sub c hcar); have := hc.next_le; omega
  · intro p a' hp
    have hpo : p ≠ o := by have := hc.o_lt; have := hc.next_le; omega
    rw [hc.other _ _ (Or.inl hpo)]
    exact ht.empty _ _ (by have := hc.next_le; omega)
  · have := ht.pos; have := hc.next_le; omega

/-- Fresh objects are leaves. -/
theorem Change.fresh_leaf (hc : Change h h' o a olds news) (ht : TreeShaped h) {c} (hf : h.next ≤ c)
    (a' : Attr) : targets h' a' c = [] := by
  have hco : c ≠ o := by have := hc.o_lt; omega
  rw [hc.other _ _ (Or.inl hco)]
  exact ht.empty _ _ hf

/-- Below a removed object nothing changes. -/
theorem Change.descFrom_old (hc : Change h h' o a olds news) (ht : TreeShaped h) {L : List Link}
    {c k j x} (hco : c ∈ targets h a o) :
    x ∈ descFrom h' L k c j ↔ x ∈ descFrom h L k c j := by
  apply descFrom_congr ht
  intro p a' c' hp
  have hpo : p ≠ o := by have := ht.up _ _ _ hco; omega
  rw [hc.other _ _ (Or.inl hpo)]

/-- A change of an attribute the name does not follow at the object's depth (or
of an unreachable object) leaves reachability unchanged. -/
theorem Change.reach_off_path (hc : Change h h' o a olds news) (ht : TreeShaped h) {L : List Link}
    (hoff : ∀ k l, o ∈ reach h L k → L[k]? = some l → l.attr ≠ a) :
    ∀ m x, x ∈ reach h' L m ↔ x ∈ reach h L m := by
  intro m
  induction m with
  | zero => intro x; simp [mem_reach_zero]
  | succ m ih =>
    intro x
    rw [mem_reach_succ, mem_reach_succ]
    constructor
    · rintro ⟨l, p, hl, hp, hx⟩
      have hp' := (ih p).mp hp
      refine ⟨l, p, hl, hp', ?_⟩
      rcases (hc.mem_targets ht).mp hx with ⟨h1, _⟩ | ⟨rfl, e2, _⟩
      · exact h1
      · exact (hoff m l hp' hl e2).elim
    · rintro ⟨l, p, hl, hp, hx⟩
      refine ⟨l, p, hl, (ih p).mpr hp, ?_⟩
      refine (hc.mem_targets ht).mpr (Or.inl ⟨hx, ?_⟩)
      rintro ⟨rfl, e2, _⟩
      exact hoff m l hp hl e2

/-- Descents only read the heap inside the subtree they walk. -/
theorem descFrom_congr_local {L : List Link} {k c : Nat}
    (hsame : ∀ j p, p ∈ descFrom h L k c j → ∀ a' x, x ∈ targets h' a' p ↔ x ∈ targets h a' p) :
    ∀ j x, x ∈ descFrom h' L k c j ↔ x ∈ descFrom h L k c j := by
  intro j
  induction j with
  | zero => intro x; simp [mem_descFrom_zero]
  | succ j ih =>
    intro x
    rw [mem_descFrom_succ, mem_descFrom_succ]
    constructor
    · rintro ⟨l, p, hl, hp, hx⟩
      have hp' := (ih p).mp hp
      exact ⟨l, p, hl, hp', (hsame j p hp' _ _).mp hx⟩
    · rintro ⟨l, p, hl, hp, hx⟩
      exact ⟨l, p, hl, (ih p).mpr hp, (hsame j p hp _ _).mpr hx⟩

/-- Below an object reachable one level under the changed one nothing changes. -/
theorem Change.descFrom_level (hc : Change h h' o a olds news) (ht : TreeShaped h) {L : List Link}
    {k c : Nat} (hok : o ∈ reach h L k) (hck : c ∈ reach h L (k + 1)) :
    ∀ j x, x ∈ descFrom h' L (k + 1) c j ↔ x ∈ descFrom h L (k + 1) c j := by
  apply descFrom_congr_local
  intro j p hp a' x
  have hpo : p ≠ o := by
    rintro rfl
    have := reach_unique_depth ht (descFrom_sub_reach hck hp) hok
    omega
  rw [hc.other _ _ (Or.inl hpo)]

theorem reach_below {L : List Link} {k j x : Nat} :
    x ∈ reach h L (k + j) ↔ ∃ c, c ∈ reach h L k ∧ x ∈ descFrom h L k c j :=
  ⟨reach_split, fun ⟨_, hc, hx⟩ => descFrom_sub_reach hc hx⟩

/-- A change of the attribute the name follows at the depth `k` of a reachable object:
the subtrees of the removed objects leave, the subtrees of the added ones enter. -/
theorem Change.reach_on_path (hc : Change h h' o a olds news) (ht : TreeShaped h) {L : List Link}
    {k : Nat} {l : Link} (hok : o ∈ reach h L k) (hl : L[k]? = some l) (hla : l.attr = a) :
    ∀ m x, x ∈ reach h' L m ↔
      (x ∈ reach h L m ∧ ¬(k + 1 ≤ m ∧ ∃ c ∈ olds, x ∈ descFrom h L (k + 1) c (m - (k + 1)))) ∨
      (k + 1 ≤ m ∧ ∃ c ∈ news, x ∈ descFrom h' L (k + 1) c (m - (k + 1))) := by
  -- levels up to k are untouched
  have hlow : ∀ m, m ≤ k → ∀ x, x ∈ reach h' L m ↔ x ∈ reach h L m := by
    intro m
    induction m with
    | zero => intro _ x; simp [mem_reach_zero]
    | succ m ih =>
      intro hm x
      rw [mem_reach_succ, mem_reach_succ]
      have hne : ∀ p, p ∈ reach h L m → p ≠ o := by
        rintro p hp rfl
        have := reach_unique_depth ht hp hok; omega
      constructor
      · rintro ⟨lm, p, hlm, hp, hx⟩
        have hp' := (ih (by omega) p).mp hp
        rw [hc.other _ _ (Or.inl (hne p hp'))] at hx
        exact ⟨lm, p, hlm, hp', hx⟩
      · rintro ⟨lm, p, hlm, hp, hx⟩
        refine ⟨lm, p, hlm, (ih (by omega) p).mpr hp, ?_⟩
        rw [hc.other _ _ (Or.inl (hne p hp))]; exact hx
  -- level k + 1
  have hmid : ∀ c, c ∈ reach h' L (k + 1) ↔ (c ∈ reach h L (k + 1) ∧ c ∉ olds) ∨ c ∈ news := by
    intro c
    rw [mem_reach_succ, mem_reach_succ]
    constructor
    · rintro ⟨lm, p, hlm, hp, hx⟩
      rw [hl] at hlm; cases hlm
      have hp' := (hlow k (Nat.le_refl _) p).mp hp
      rcases (hc.mem_targets ht).mp hx with ⟨h1, h2⟩ | ⟨_, _, h3⟩
      · refine Or.inl ⟨⟨_, p, hl, hp', h1⟩, ?_⟩
        intro hco
        obtain ⟨rfl, e2⟩ := ht.uniq _ _ _ _ _ h1 (hc.olds_sub c hco)
        exact h2 ⟨rfl, e2, hco⟩
      · exact Or.inr h3
    · rintro (⟨⟨lm, p, hlm, hp, hx⟩, hno⟩ | hn)
      · rw [hl] at hlm; cases hlm
        refine ⟨_, p, hl, (hlow k (Nat.le_refl _) p).mpr hp, ?_⟩
        exact (hc.mem_targets ht).mpr (Or.inl ⟨hx, fun ⟨_, _, h3⟩ => hno h3⟩)
      · refine ⟨l, o, hl, (hlow k (Nat.le_refl _) o).mpr hok, ?_⟩
        rw [hla]; exact (hc.mem _).mpr (Or.inr hn)
  intro m x
  by_cases hm : m ≤ k
  · rw [hlow m hm x]
    constructor
    · intro hx; exact Or.inl ⟨hx, by omega⟩
    · rintro (⟨hx, _⟩ | ⟨h1, _⟩)
      · exact hx
      · omega
  · obtain ⟨j, rfl⟩ : ∃ j, m = (k + 1) + j := ⟨m - (k + 1), by omega⟩
    rw [show k + 1 + j - (k + 1) = j by omega, reach_below, reach_below]
    constructor
    · rintro ⟨c, hcr, hx⟩
      rcases (hmid c).mp hcr with ⟨h1, h2⟩ | h3
      · have hx' := (hc.descFrom_level ht hok h1 j x).mp hx
        refine Or.inl ⟨⟨c, h1, hx'⟩, ?_⟩
        rintro ⟨_, c', hc', hx''⟩
        have : c' = c := descFrom_same_depth ht hx'' hx'
        exact h2 (this ▸ hc')
      · exact Or.inr ⟨by omega, c, h3, hx⟩
    · rintro (⟨⟨c, h1, hx⟩, hno⟩ | ⟨_, c, h3, hx⟩)
      · have hco : c ∉ olds := fun hco => hno ⟨by omega, c, hco, hx⟩
        exact ⟨c, (hmid c).mpr (Or.inl ⟨h1, hco⟩), (hc.descFrom_level ht hok h1 j x).mpr hx⟩
      · exact ⟨c, (hmid c).mpr (Or.inr h3), hx⟩

end TraitsVerif.Model.Legacy
