/-
The hand-written gates of `Model/ContainerObject.lean` are the interpretation of
the translated source (`Generated/ObjProg.lean`): symbolic execution of the
PyLO interpreter by `simp`, after a case split over the state of `self`.
-/
import TraitsVerif.Generated.ObjProg
import TraitsVerif.Model.ContainerObject
set_option linter.unusedSimpArgs false
set_option linter.unusedVariables false
namespace TraitsVerif.Lemmas.PyLObj
open TraitsVerif TraitsVerif.Model.PyLO TraitsVerif.Model.Obj
variable {α : Type}

macro "pylo_exec" "[" ts:Lean.Parser.Tactic.simpLemma,* "]" : tactic =>
  `(tactic| simp [runValidator, runLengthCheck, runNotifier, exec, eval, getVar, setVar, truthy, selfAttrVal, sameObj,
      paramOf, Except.map, CT.validateNone, traitOrNone, ownerOrNone, deliver, listDelivery, dictDelivery, setDelivery,
      List.range, List.range.loop, $ts,*])

/-- Case split over everything a validator looks at. -/
macro "validator_cases" σ:ident inner:ident n:ident x:ident "[" ts:Lean.Parser.Tactic.simpLemma,* "]" : tactic =>
  `(tactic| (
    obtain ⟨tr, ob, ni, cu⟩ := $σ
    rcases tr with _ | _ | ⟨iN, kN, vN, lo, hi⟩ <;> rcases ob with _ | _ | _ <;>
      try (first
        | (pylo_exec [$ts,*]; done)
        | (cases iN <;> cases kN <;> cases vN <;> (first
            | (pylo_exec [$ts,*]; done)
            | (cases hi' : $inner true $n $x with
               | ok y => pylo_exec [$ts,*, hi']
               | error e => by_cases he : e = Exc.traitError <;> pylo_exec [$ts,*, hi', he])
            | (cases hi' : $inner false $n $x with
               | ok y => pylo_exec [$ts,*, hi']
               | error e => by_cases he : e = Exc.traitError <;> pylo_exec [$ts,*, hi', he]))))))

theorem list_item_validator_is_source (σ : OSelf) (inner : Bool → Callback α α) (n : Nat) (x : α) :
    runValidator Generated.Obj.traitListObjectItemValidator .item σ inner n x = listItemValidator σ inner n x := by
  validator_cases σ inner n x [Generated.Obj.traitListObjectItemValidator, listItemValidator]

theorem dict_key_validator_is_source (σ : OSelf) (inner : Bool → Callback α α) (n : Nat) (x : α) :
    runValidator Generated.Obj.traitDictObjectKeyValidator .key σ inner n x = dictValidator .key σ inner n x := by
  validator_cases σ inner n x [Generated.Obj.traitDictObjectKeyValidator, dictValidator]

theorem dict_value_validator_is_source (σ : OSelf) (inner : Bool → Callback α α) (n : Nat) (x : α) :
    runValidator Generated.Obj.traitDictObjectValueValidator .value σ inner n x = dictValidator .value σ inner n x := by
  validator_cases σ inner n x [Generated.Obj.traitDictObjectValueValidator, dictValidator]

theorem set_item_validator_is_source (σ : OSelf) (inner : Bool → Callback α α) (n : Nat) (x : α) :
    runValidator Generated.Obj.traitSetObjectItemValidator .item σ inner n x = setItemValidator σ inner n x := by
  validator_cases σ inner n x [Generated.Obj.traitSetObjectItemValidator, setItemValidator]

theorem list_validate_length_is_source (σ : OSelf) (n : Int) :
    runLengthCheck Generated.Obj.traitListObjectValidateLength σ n = listValidateLength σ n := by
  obtain ⟨tr, ob, ni, cu⟩ := σ
  rcases tr with _ | _ | ⟨iN, kN, vN, lo, hi⟩
  · pylo_exec [Generated.Obj.traitListObjectValidateLength, listValidateLength]
  · pylo_exec [Generated.Obj.traitListObjectValidateLength, listValidateLength]
  · by_cases h1 : (lo : Int) ≤ n <;> by_cases h2 : n ≤ (hi : Int) <;>
      pylo_exec [Generated.Obj.traitListObjectValidateLength, listValidateLength, h1, h2]

macro "notifier_cases" σ:ident "[" ts:Lean.Parser.Tactic.simpLemma,* "]" : tactic =>
  `(tactic| (
    obtain ⟨tr, ob, ni, cu⟩ := $σ
    rcases tr with _ | _ | t <;> rcases ob with _ | _ | _ <;> cases ni <;> cases cu <;> pylo_exec [$ts,*]))

theorem list_notifier_is_source (σ : OSelf) :
    runNotifier Generated.Obj.traitListObjectNotifier σ = listNotifier σ := by
  notifier_cases σ [Generated.Obj.traitListObjectNotifier, listNotifier]

theorem dict_notifier_is_source (σ : OSelf) :
    runNotifier Generated.Obj.traitDictObjectNotifier σ = dictNotifier σ := by
  notifier_cases σ [Generated.Obj.traitDictObjectNotifier, dictNotifier]

theorem set_notifier_is_source (σ : OSelf) :
    runNotifier Generated.Obj.traitSetObjectNotifier σ = setNotifier σ := by
  notifier_cases σ [Generated.Obj.traitSetObjectNotifier, setNotifier]

end TraitsVerif.Lemmas.PyLObj
