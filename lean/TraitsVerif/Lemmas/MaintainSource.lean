/-
Cluster `obs`: the maintainer of a named / filtered link — `observer_change_handler`
(traits/observation/_has_traits_helpers.py), translated by harness/translate/obsl.py into
Generated/ObsProg.lean — is `Model.Obs.maintTrait … .trait` (Model/Maintain.lean: `removeOld`, then `addNew`).
-/
import TraitsVerif.Lemmas.ObsSource
import TraitsVerif.Model.Maintain
namespace TraitsVerif.Model.ObsL
open TraitsVerif TraitsVerif.Model.Obs TraitsVerif.Generated

section eqns2
variable (h : Heap) (Q : Prog) (call : Callee → G → G × Flow) (self : Option Frame) (st : Sto)
theorem exec_ifObservable (e : Ex) (body : St) : exec h Q call self (.ifObservable e body) st =
    (match eval self st.vars st.logs.length e with
     | some (.val v) =>
       if Q.unobservable.all (fun nm => !isNamedValue nm v) then exec h Q call self body st else (st, .next)
     | _ => (st, .stuck)) := rfl
theorem exec_tryOnly (body : St) (exc : Exc) (handler : St) : exec h Q call self (.tryOnly body exc handler) st =
    (match exec h Q call self body st with
     | (st', .raised e) => if e = exc then exec h Q call self handler { st' with exc := some e } else (st', .raised e)
     | r => r) := rfl
end eqns2

/-- an outermost call whose `object` is a trait value (`event.old` / `event.new`) -/
def ownArgsV (v : Val) (gv : GV) (k : HKey) (rm : Bool) : List (Option PV) :=
  [some (.val v), some (.graph gv), some (.handler k.handler), some (.obj (some k.target)), some .disp,
    some (.bool rm), none]

def ownValsV (v : Val) (gv : GV) (k : HKey) (rm : Bool) : List PV :=
  [.val v, .graph gv, .handler k.handler, .obj (some k.target), .disp, .bool rm, .none]

theorem mkFrame_ownerV (v : Val) (gv : GV) (k : HKey) (rm : Bool) :
    mkFrame P.init (ownValsV v gv k rm) 0 = some (mkFr (valW v) gv k rm true) := rfl

theorem run_arn_ownerV (h : Heap) (n : Nat) (v : Val) (gv : GV) (k : HKey) (rm : Bool) (H : Hooks) :
    run h P (n + 1) (.fn "add_or_remove_notifiers" (ownArgsV v gv k rm)) (H, []) =
      run h P n (.meth "__call__" (mkFr (valW v) gv k rm true)) (H, [[]]) := by
  rw [run_fn h P n _ _ _ _ (ownValsV v gv k rm) (by rfl) (by rfl) (by rfl)]
  dsimp only
  rw [exec_seq, exec_construct]
  have hinit : P.initParams = (ownValsV v gv k rm).length := rfl
  simp only [evalAllO, eval, ofArgs, ownValsV, List.getD_eq_getElem?_getD, List.getElem?_cons_succ,
    List.getElem?_cons_zero, Option.getD_some, List.length_cons, List.length_nil, Option.map, Option.bind]
  have hbd : bindArgs P.initDefaults [some (.val v), some (.graph gv), some (.handler k.handler),
      some (.obj (some k.target)), some .disp, some (.bool rm), some .none] = some (ownValsV v gv k rm) := rfl
  have := mkFrame_ownerV v gv k rm
  simp only [ownValsV] at this hinit hbd
  simp only [hbd]
  simp only [hinit, this, List.length_cons, List.length_nil, if_true]
  simp [commit, setVar, exec_callVar, mkFr, endCall_viaCall]

/-- the outermost call on a trait value is `addRemove` from `valW v` -/
theorem run_arn_outerV (h : Heap) (k : HKey) (g : Graph) (rm : Bool) (v : Val) (H : Hooks) (hw : WF H) (n : Nat)
    (hn : need g ≤ n) :
    run h P n (.fn "add_or_remove_notifiers" (ownArgsV v (.plain g) k rm)) (H, []) =
      (((addRemove h k rm true g (valW v) H).H, [[]]), flowOf (addRemove h k rm true g (valW v) H).err) := by
  have : 6 ≤ need g := by
    obtain ⟨ob, cs⟩ := g
    have := needL_ge cs
    simp only [need]; omega
  obtain ⟨m, rfl⟩ : ∃ m, n = m + 3 := ⟨n - 3, by omega⟩
  have e1 := run_arn_ownerV h (m + 2) v (gvOf true g) k rm H
  simp only [gvOf, if_true] at e1
  rw [e1]
  have e2 := run_call_owner h m (mkFr (valW v) (gvOf true g) k rm true) rfl rfl (stepF h k rm true g (valW v))
    (steps_ok h k rm true true g (valW v) m hn) H []
  have hr : (mkFr (valW v) (GV.plain g) k rm true).remove = rm := rfl
  simp only [gvOf, if_true, hr] at e2
  rw [e2, ← walk_eq_steps]
  rw [finishS_eq_finish rm H _ (walk_did h k g rm true (valW v) H [] hw)]
  rfl

/-- … and as a statement of a function that holds no undo log: the log the call allocated is dropped -/
theorem exec_owner_call (h : Heap) (n : Nat) (k : HKey) (g : Graph) (rm : Bool) (v : Val) (args : List (Option Ex))
    (st : Sto) (hl : st.logs = []) (hw : WF st.H) (hn : need g ≤ n)
    (hev : evalAllO none st.vars 0 args = some (ownArgsV v (.plain g) k rm)) :
    exec h P (run h P n) none (.callFn "add_or_remove_notifiers" args) st =
      ({ st with H := (addRemove h k rm true g (valW v) st.H).H },
        flowOf (addRemove h k rm true g (valW v) st.H).err) := by
  rw [exec_callFn]
  simp only [hl, List.length_nil, hev]
  unfold viaCallT viaCall
  simp only [hl]
  rw [run_arn_outerV h k g rm v st.H hw n hn]
  cases (addRemove h k rm true g (valW v) st.H).err <;> simp [flowOf, hl]

theorem observable_iff (v : Val) :
    P.unobservable.all (fun nm => !isNamedValue nm v) = !(valObjects v).isEmpty := by
  cases v <;> rfl

theorem valObjects_head (v : Val) (w : W) (ws : List W) (hv : valObjects v = w :: ws) : w = valW v := by
  cases v <;> simp [valObjects] at hv <;> simp [valW, hv.1]

/-- the arguments the C layer / `ObserverChangeNotifier.__call__` passes to the maintainer -/
def handlerArgs (old new : Val) (g : Graph) (k : HKey) : List (Option PV) :=
  [some (.event old new), some (.graph (.plain g)), some (.handler k.handler), some (.obj (some k.target)), some .disp]

/-- the first half: `if event.old is observable: try: remove … except NotifierNotFound: pass` is `removeOld` -/
theorem exec_remove_old (h : Heap) (n : Nat) (k : HKey) (g : Graph) (old : Val) (e : Ex) (args : List (Option Ex))
    (st : Sto) (hl : st.logs = []) (hw : WF st.H) (hn : need g ≤ n)
    (he : eval none st.vars 0 e = some (.val old))
    (hev : evalAllO none st.vars 0 args = some (ownArgsV old (.plain g) k true)) :
    ∃ ex, exec h P (run h P n) none
        (.ifObservable e (.tryOnly (.callFn "add_or_remove_notifiers" args) .notifierNotFound .skip)) st =
      ({ st with H := (removeOld h k g old st.H).H, exc := ex }, flowOf (removeOld h k g old st.H).err) := by
  rw [exec_ifObservable]
  have hlen : st.logs.length = 0 := by rw [hl]; rfl
  simp only [hlen, he, observable_iff]
  unfold removeOld
  cases hvo : valObjects old with
  | nil => exact ⟨st.exc, by simp [flowOf]⟩
  | cons w ws =>
    have hwv := valObjects_head old w ws hvo
    subst hwv
    simp only [List.isEmpty_cons, Bool.not_false, if_true]
    rw [exec_tryOnly, exec_owner_call h n k g true old args st hl hw hn hev]
    cases hx : (addRemove h k true true g (valW old) st.H).err with
    | none => exact ⟨st.exc, by simp [flowOf, hx]⟩
    | some ex =>
      by_cases hnn : ex = .notifierNotFound
      · subst hnn
        exact ⟨some .notifierNotFound, by simp [flowOf, exec_skip, hx]⟩
      · refine ⟨st.exc, ?_⟩
        simp only [flowOf, hx, hnn, if_false]
        cases ex <;> simp_all

/-- the second half: `if event.new is observable: add …` is `addNew` -/
theorem exec_add_new (h : Heap) (n : Nat) (k : HKey) (g : Graph) (new : Val) (e : Ex) (args : List (Option Ex))
    (st : Sto) (hl : st.logs = []) (hw : WF st.H) (hn : need g ≤ n)
    (he : eval none st.vars 0 e = some (.val new))
    (hev : evalAllO none st.vars 0 args = some (ownArgsV new (.plain g) k false)) :
    exec h P (run h P n) none (.ifObservable e (.callFn "add_or_remove_notifiers" args)) st =
      ({ st with H := (addNew h k g new st.H).H }, flowOf (addNew h k g new st.H).err) := by
  rw [exec_ifObservable]
  have hlen : st.logs.length = 0 := by rw [hl]; rfl
  simp only [hlen, he, observable_iff]
  unfold addNew
  cases hvo : valObjects new with
  | nil => simp [flowOf]
  | cons w ws =>
    have hwv := valObjects_head new w ws hvo
    subst hwv
    simp only [List.isEmpty_cons, Bool.not_false, if_true]
    rw [exec_owner_call h n k g false new args st hl hw hn hev]

theorem removeOld_WF (h : Heap) (k : HKey) (g : Graph) (old : Val) (H : Hooks) (hw : WF H) :
    WF (removeOld h k g old H).H := by
  unfold removeOld
  cases valObjects old with
  | nil => exact hw
  | cons w ws =>
    have := addRemove_WF h k g true true w H hw
    simp only
    split <;> exact this

/-- SOURCE TIE.  `observer_change_handler(event, graph, handler, target, dispatcher)` as translated from the source
— remove the graph below `event.old` unless it is Undefined / Uninitialized / None, swallowing NotifierNotFound; then
add it below `event.new` under the same test — is `maintTrait … .trait`. -/
theorem run_change_handler (h : Heap) (k : HKey) (g : Graph) (o : Id) (old new : Val) (H : Hooks) (hw : WF H)
    (n : Nat) (hn : need g ≤ n) :
    run h P (n + 1) (.fn "observer_change_handler" (handlerArgs old new g k)) (H, []) =
      (((maintTrait h .trait g k o old new H).H, []), flowOf (maintTrait h .trait g k o old new H).err) := by
  rw [run_fn h P n _ _ _ _ [.event old new, .graph (.plain g), .handler k.handler, .obj (some k.target), .disp]
    (by rfl) (by rfl) (by rfl)]
  dsimp only
  rw [exec_seq]
  obtain ⟨ex, h1⟩ := exec_remove_old h n k g old (.evOld (.var 0))
    [(some (.evOld (.var 0))), (some (.var 1)), (some (.var 2)), (some (.var 3)), (some (.var 4)), (some (.boolLit true)), none]
    ⟨H, [], ofArgs [.event old new, .graph (.plain g), .handler k.handler, .obj (some k.target), .disp], none⟩
    rfl hw hn (by simp [eval, ofArgs]) (by simp [evalAllO, eval, ofArgs, ownArgsV])
  rw [h1]
  unfold maintTrait
  simp only
  cases hx : (removeOld h k g old H).err with
  | some e1 => simp [flowOf, endCall]
  | none =>
    simp only [flowOf]
    rw [exec_add_new h n k g new (.evNew (.var 0))
      [(some (.evNew (.var 0))), (some (.var 1)), (some (.var 2)), (some (.var 3)), (some (.var 4)), (some (.boolLit false)), none] _ rfl (removeOld_WF h k g old H hw) hn (by simp [eval, ofArgs])
      (by simp [evalAllO, eval, ofArgs, ownArgsV])]
    cases (addNew h k g new (removeOld h k g old H).H).err <;> simp [flowOf, endCall]

end TraitsVerif.Model.ObsL
