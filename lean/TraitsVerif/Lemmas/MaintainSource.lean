/-
Cluster `obs`: the maintainer of a named / filtered link — `observer_change_handler`
(traits/observation/_has_traits_helpers.py), translated by harness/translate/obsl.py into
Generated/ObsProg.lean — is `Model.Obs.maintTrait … .trait` (Model/Maintain.lean: `removeOld`, then `addNew`).
-/
import TraitsVerif.Lemmas.ObsSource
import TraitsVerif.Model.Maintain
namespace TraitsVerif.Model.ObsL
open TraitsVerif TraitsVerif.Model.Obs TraitsVerif.Generated

section eqns2
variable (h : Heap) (Q : Prog) (call : Callee → G → G × Flow) (self : Option Frame) (st : Sto)
theorem exec_ifObservable (e : Ex) (body : St) : exec h Q call self (.ifObservable e body) st =
    (match eval self st.vars st.logs.length e with
     | some (.val v) =>
       if Q.unobservable.all (fun nm => !isNamedValue nm v) then exec h Q call self body st else (st, .next)
     | _ => (st, .stuck)) := rfl
theorem exec_tryOnly (body : St) (exc : Exc) (handler : St) : exec h Q call self (.tryOnly body exc handler) st =
    (match exec h Q call self body st with
     | (st', .raised e) => if e = exc then exec h Q call self handler { st' with exc := some e } else (st', .raised e)
     | r => r) := rfl
end eqns2

/-- an outermost call whose `object` is a trait value (`event.old` / `event.new`) -/
def ownArgsV (v : Val) (gv : GV) (k : HKey) (rm : Bool) : List (Option PV) :=
  [some (.val v), some (.graph gv), some (.handler k.handler), some (.obj (some k.target)), some .disp,
    some (.bool rm), none]

def ownValsV (v : Val) (gv : GV) (k : HKey) (rm : Bool) : List PV :=
  [.val v, .graph gv, .handler k.handler, .obj (some k.target), .disp, .bool rm, .none]

theorem mkFrame_ownerV (v : Val) (gv : GV) (k : HKey) (rm : Bool) :
    mkFrame P.init (ownValsV v gv k rm) 0 = some (mkFr (valW v) gv k rm true) := rfl

theorem run_arn_ownerV (h : Heap) (n : Nat) (v : Val) (gv : GV) (k : HKey) (rm : Bool) (H : Hooks) :
    run h P (n + 1) (.fn "add_or_remove_notifiers" (ownArgsV v gv k rm)) (H, []) =
      run h P n (.meth "__call__" (mkFr (valW v) gv k rm true)) (H, [[]]) := by
  rw [run_fn h P n _ _ _ _ (ownValsV v gv k rm) (by rfl) (by rfl) (by rfl)]
  dsimp only
  rw [exec_seq, exec_construct]
  have hinit : P.initParams = (ownValsV v gv k rm).length := rfl
  simp only [evalAllO, eval, ofArgs, ownValsV, List.getD_eq_getElem?_getD, List.getElem?_cons_succ,
    List.getElem?_cons_zero, Option.getD_some, List.length_cons, List.length_nil, Option.map, Option.bind]
  have hbd : bindArgs P.initDefaults [some (.val v), some (.graph gv), some (.handler k.handler),
      some (.obj (some k.target)), some .disp, some (.bool rm), some .none] = some (ownValsV v gv k rm) := rfl
  have := mkFrame_ownerV v gv k rm
  simp only [ownValsV] at this hinit hbd
  simp only [hbd]
  simp only [hinit, this, List.length_cons, List.length_nil, if_true]
  simp [commit, setVar, exec_callVar, mkFr, endCall_viaCall]

/-- the outermost call on a trait value is `addRemove` from `valW v` -/
theorem run_arn_outerV (h : Heap) (k : HKey) (g : Graph) (rm : Bool) (v : Val) (H : Hooks) (hw : WF H) (n : Nat)
    (hn : need g ≤ n) :
    run h P n (.fn "add_or_remove_notifiers" (ownArgsV v (.plain g) k rm)) (H, []) =
      (((addRemove h k rm true g (valW v) H).H, [[]]), flowOf (addRemove h k rm true g (valW v) H).err) := by
  have : 6 ≤ need g := by
    obtain ⟨ob, cs⟩ := g
    have := needL_ge cs
    simp only [need]; omega
  obtain ⟨m, rfl⟩ : ∃ m, n = m + 3 := ⟨n - 3, by omega⟩
  have e1 := run_arn_ownerV h (m + 2) v (gvOf true g) k rm H
  simp only [gvOf, if_true] at e1
  rw [e1]
  have e2 := run_call_owner h m (mkFr (valW v) (gvOf true g) k rm true) rfl rfl (stepF h k rm true g (valW v))
    (steps_ok h k rm true true g (valW v) m hn) H []
  have hr : (mkFr (valW v) (GV.plain g) k rm true).remove = rm := rfl
  simp only [gvOf, if_true, hr] at e2
  rw [e2, ← walk_eq_steps]
  rw [finishS_eq_finish rm H _ (walk_did h k g rm true (valW v) H [] hw)]
  rfl

/-- … and as a statement of a function that holds no undo log: the log the call allocated is dropped -/
theorem exec_owner_call (h : Heap) (n : Nat) (k : HKey) (g : Graph) (rm : Bool) (v : Val) (args : List (Option Ex))
    (st : Sto) (hl : st.logs = []) (hw : WF st.H) (hn : need g ≤ n)
    (hev : evalAllO none st.vars 0 args = some (ownArgsV v (.plain g) k rm)) :
    exec h P (run h P n) none (.callFn "add_or_remove_notifiers" args) st =
      ({ st with H := (addRemove h k rm true g (valW v) st.H).H },
        flowOf (addRemove h k rm true g (valW v) st.H).err) := by
  rw [exec_callFn]
  simp only [hl, List.length_nil, hev]
  unfold viaCallT viaCall
  simp only [hl]
  rw [run_arn_outerV h k g rm v st.H hw n hn]
  cases (addRemove h k rm true g (valW v) st.H).err <;> simp [flowOf, hl]

theorem observable_iff (v : Val) :
    P.unobservable.all (fun nm => !isNamedValue nm v) = !(valObjects v).isEmpty := by
  cases v <;> rfl

theorem valObjects_head (v : Val) (w : W) (ws : List W) (hv : valObjects v = w :: ws) : w = valW v := by
  cases v <;> simp [valObjects] at hv <;> simp [valW, hv.1]

/-- the arguments the C layer / `ObserverChangeNotifier.__call__` passes to the maintainer -/
def handlerArgs (old new : Val) (g : Graph) (k : HKey) : List (Option PV) :=
  [some (.event old new), some (.graph (.plain g)), some (.handler k.handler), some (.obj (some k.target)), some .disp]

/-- the first half: `if event.old is observable: try: remove … except NotifierNotFound: pass` is `removeOld` -/
theorem exec_remove_old (h : Heap) (n : Nat) (k : HKey) (g : Graph) (old : Val) (e : Ex) (args : List (Option Ex))
    (st : Sto) (hl : st.logs = []) (hw : WF st.H) (hn : need g ≤ n)
    (he : eval none st.vars 0 e = some (.val old))
    (hev : evalAllO none st.vars 0 args = some (ownArgsV old (.plain g) k true)) :
    ∃ ex, exec h P (run h P n) none
        (.ifObservable e (.tryOnly (.callFn "add_or_remove_notifiers" args) .notifierNotFound .skip)) st =
      ({ st with H := (removeOld h k g old st.H).H, exc := ex }, flowOf (removeOld h k g old st.H).err) := by
  rw [exec_ifObservable]
  have hlen : st.logs.length = 0 := by rw [hl]; rfl
  simp only [hlen, he, observable_iff]
  unfold removeOld
  cases hvo : valObjects old with
  | nil => exact ⟨st.exc, by simp [flowOf]⟩
  | cons w ws =>
    have hwv := valObjects_head old w ws hvo
    subst hwv
    simp only [List.isEmpty_cons, Bool.not_false, if_true]
    rw [exec_tryOnly, exec_owner_call h n k g true old args st hl hw hn hev]
    cases hx : (addRemove h k true true g (valW old) st.H).err with
    | none => exact ⟨st.exc, by simp [flowOf, hx]⟩
    | some ex =>
      by_cases hnn : ex = .notifierNotFound
      · subst hnn
        exact ⟨some .notifierNotFound, by simp [flowOf, exec_skip, hx]⟩
      · refine ⟨st.exc, ?_⟩
        simp only [flowOf, hx, hnn, if_false]
        cases ex <;> simp_all

/-- the second half: `if event.new is observable: add …` is `addNew` -/
theorem exec_add_new (h : Heap) (n : Nat) (k : HKey) (g : Graph) (new : Val) (e : Ex) (args : List (Option Ex))
    (st : Sto) (hl : st.logs = []) (hw : WF st.H) (hn : need g ≤ n)
    (he : eval none st.vars 0 e = some (.val new))
    (hev : evalAllO none st.vars 0 args = some (ownArgsV new (.plain g) k false)) :
    exec h P (run h P n) none (.ifObservable e (.callFn "add_or_remove_notifiers" args)) st =
      ({ st with H := (addNew h k g new st.H).H }, flowOf (addNew h k g new st.H).err) := by
  rw [exec_ifObservable]
  have hlen : st.logs.length = 0 := by rw [hl]; rfl
  simp only [hlen, he, observable_iff]
  unfold addNew
  cases hvo : valObjects new with
  | nil => simp [flowOf]
  | cons w ws =>
    have hwv := valObjects_head new w ws hvo
    subst hwv
    simp only [List.isEmpty_cons, Bool.not_false, if_true]
    rw [exec_owner_call h n k g false new args st hl hw hn hev]

theorem removeOld_WF (h : Heap) (k : HKey) (g : Graph) (old : Val) (H : Hooks) (hw : WF H) :
    WF (removeOld h k g old H).H := by
  unfold removeOld
  cases valObjects old with
  | nil => exact hw
  | cons w ws =>
    have := addRemove_WF h k g true true w H hw
    simp only
    split <;> exact this

/-- SOURCE TIE.  `observer_change_handler(event, graph, handler, target, dispatcher)` as translated from the source
— remove the graph below `event.old` unless it is Undefined / Uninitialized / None, swallowing NotifierNotFound; then
add it below `event.new` under the same test — is `maintTrait … .trait`. -/
theorem run_change_handler (h : Heap) (k : HKey) (g : Graph) (o : Id) (old new : Val) (H : Hooks) (hw : WF H)
    (n : Nat) (hn : need g ≤ n) :
    run h P (n + 1) (.fn "observer_change_handler" (handlerArgs old new g k)) (H, []) =
      (((maintTrait h .trait g k o old new H).H, []), flowOf (maintTrait h .trait g k o old new H).err) := by
  rw [run_fn h P n _ _ _ _ [.event old new, .graph (.plain g), .handler k.handler, .obj (some k.target), .disp]
    (by rfl) (by rfl) (by rfl)]
  dsimp only
  rw [exec_seq]
  obtain ⟨ex, h1⟩ := exec_remove_old h n k g old (.evOld (.var 0))
    [(some (.evOld (.var 0))), (some (.var 1)), (some (.var 2)), (some (.var 3)), (some (.var 4)), (some (.boolLit true)), none]
    ⟨H, [], ofArgs [.event old new, .graph (.plain g), .handler k.handler, .obj (some k.target), .disp], none⟩
    rfl hw hn (by simp [eval, ofArgs]) (by simp [evalAllO, eval, ofArgs, ownArgsV])
  rw [h1]
  unfold maintTrait
  simp only
  cases hx : (removeOld h k g old H).err with
  | some e1 => simp [flowOf, endCall]
  | none =>
    simp only [flowOf]
    rw [exec_add_new h n k g new (.evNew (.var 0))
      [(some (.evNew (.var 0))), (some (.var 1)), (some (.var 2)), (some (.var 3)), (some (.var 4)), (some (.boolLit false)), none] _ rfl (removeOld_WF h k g old H hw) hn (by simp [eval, ofArgs])
      (by simp [evalAllO, eval, ofArgs, ownArgsV])]
    cases (addNew h k g new (removeOld h k g old H).H).err <;> simp [flowOf, endCall]


/-! ### the maintainers of list / dict / set items -/

/-- an outermost call on a heap object, as a statement of a function that holds no undo log -/
theorem exec_owner_call_obj (h : Heap) (n : Nat) (k : HKey) (g : Graph) (rm : Bool) (y : Id) (args : List (Option Ex))
    (st : Sto) (hl : st.logs = []) (hw : WF st.H) (hn : need g ≤ n)
    (hev : evalAllO none st.vars 0 args = some (ownArgs (some y) (.plain g) k rm)) :
    exec h P (run h P n) none (.callFn "add_or_remove_notifiers" args) st =
      ({ st with H := (addRemove h k rm true g (some y) st.H).H },
        flowOf (addRemove h k rm true g (some y) st.H).err) := by
  rw [exec_callFn]
  simp only [hl, List.length_nil, hev]
  unfold viaCallT viaCall
  simp only [hl]
  have e := run_arn_outer h k g rm true (some y) st.H n hn
  simp only [gvOf, if_true] at e
  rw [e, finishS_eq_finish rm st.H _ (walk_did h k g rm true (some y) st.H [] hw)]
  have : finish rm (walk h k rm true g (some y) st.H []) = addRemove h k rm true g (some y) st.H := rfl
  rw [this]
  cases (addRemove h k rm true g (some y) st.H).err <;> simp [toG, flowOf, hl]

/-- `for item in …: add_or_remove_notifiers(object=item, …, remove=rm)` is `walkAll` -/
theorem owner_loop (h : Heap) (n : Nat) (k : HKey) (g : Graph) (rm : Bool) (i : Nat) (args : List (Option Ex))
    (I : Vars → Prop) (hn : need g ≤ n)
    (hI1 : ∀ vars v, I vars → I (setVar vars i v))
    (hI2 : ∀ vars y, I vars → evalAllO none (setVar vars i (.obj (some y))) 0 args =
      some (ownArgs (some y) (.plain g) k rm)) :
    ∀ (ys : List Id) (st : Sto), st.logs = [] → WF st.H → I st.vars →
      (forLoop i (fun s => exec h P (run h P n) none (.callFn "add_or_remove_notifiers" args) s)
        (ys.map (fun y => PV.obj (some y))) st).1.H = (walkAll h k rm g ys st.H).H ∧
      (forLoop i (fun s => exec h P (run h P n) none (.callFn "add_or_remove_notifiers" args) s)
        (ys.map (fun y => PV.obj (some y))) st).1.logs = [] ∧
      (forLoop i (fun s => exec h P (run h P n) none (.callFn "add_or_remove_notifiers" args) s)
        (ys.map (fun y => PV.obj (some y))) st).2 = flowOf (walkAll h k rm g ys st.H).err ∧
      I (forLoop i (fun s => exec h P (run h P n) none (.callFn "add_or_remove_notifiers" args) s)
        (ys.map (fun y => PV.obj (some y))) st).1.vars := by
  intro ys
  induction ys with
  | nil => intro st hl _ hI; exact ⟨rfl, hl, rfl, hI⟩
  | cons y ys ih =>
    intro st hl hw hI
    simp only [List.map_cons, forLoop, walkAll, foldRes]
    rw [exec_owner_call_obj h n k g rm y args { st with vars := setVar st.vars i (.obj (some y)) } hl hw hn
      (hI2 st.vars y hI)]
    cases hx : (addRemove h k rm true g (some y) st.H).err with
    | some e => exact ⟨rfl, hl, rfl, hI1 _ _ hI⟩
    | none =>
      have hf : flowOf (none : Option Exc) = .next := rfl
      simp only [hf]
      have := ih { st with H := (addRemove h k rm true g (some y) st.H).H, vars := setVar st.vars i (.obj (some y)) }
        hl (addRemove_WF h k g rm true (some y) st.H hw) (hI1 _ _ hI)
      simpa [walkAll] using this

theorem walkAll_WF (h : Heap) (k : HKey) (rm : Bool) (g : Graph) (ys : List Id) (H : Hooks) (hw : WF H) :
    WF (walkAll h k rm g ys H).H := by
  induction ys generalizing H with
  | nil => exact hw
  | cons y ys ih =>
    simp only [walkAll, List.map_cons, foldRes]
    have := addRemove_WF h k g rm true (some y) H hw
    cases (addRemove h k rm true g (some y) H).err with
    | some e => exact this
    | none => exact ih _ this

/-- the change event a container hands to its maintainers -/
def ceventPV (ev : CEvent) : PV :=
  match ev with
  | .list _ r a => .cevent .list r a
  | .dict r a => .cevent .dict (r.map (·.2)) (a.map (·.2))
  | .set r a => .cevent .set r a

def contHandlerName : CEvent → String
  | .list .. => "list_observer_change_handler"
  | .dict .. => "dict_observer_change_handler"
  | .set .. => "set_observer_change_handler"

def contHandlerArgs (ev : CEvent) (g : Graph) (k : HKey) : List (Option PV) :=
  [some (ceventPV ev), some (.graph (.plain g)), some (.handler k.handler), some (.obj (some k.target)), some .disp]


theorem cont_body (h : Heap) (n : Nat) (k : HKey) (g : Graph) (i1 i2 : Nat) (e1 e2 : Ex)
    (args1 args2 : List (Option Ex)) (rem add : List Id) (I : Vars → Prop) (hn : need g ≤ n)
    (he1 : ∀ vars, I vars → eval none vars 0 e1 = some (.ids rem))
    (he2 : ∀ vars, I vars → eval none vars 0 e2 = some (.ids add))
    (hI1 : ∀ vars v, I vars → I (setVar vars i1 v)) (hI2 : ∀ vars v, I vars → I (setVar vars i2 v))
    (hA1 : ∀ vars y, I vars → evalAllO none (setVar vars i1 (.obj (some y))) 0 args1 =
      some (ownArgs (some y) (.plain g) k true))
    (hA2 : ∀ vars y, I vars → evalAllO none (setVar vars i2 (.obj (some y))) 0 args2 =
      some (ownArgs (some y) (.plain g) k false))
    (st : Sto) (hl : st.logs = []) (hw : WF st.H) (hI0 : I st.vars) :
    endCall (exec h P (run h P n) none
      (.seq (.forIn i1 e1 (.callFn "add_or_remove_notifiers" args1))
        (.forIn i2 e2 (.callFn "add_or_remove_notifiers" args2))) st) =
      (((match (walkAll h k true g rem st.H).err with
          | some e => (⟨(walkAll h k true g rem st.H).H, some e⟩ : Res)
          | none => walkAll h k false g add (walkAll h k true g rem st.H).H).H, []),
       flowOf (match (walkAll h k true g rem st.H).err with
          | some e => (⟨(walkAll h k true g rem st.H).H, some e⟩ : Res)
          | none => walkAll h k false g add (walkAll h k true g rem st.H).H).err) := by
  have hlen : st.logs.length = 0 := by rw [hl]; rfl
  rw [exec_seq, exec_forIn]
  simp only [hlen, he1 st.vars hI0]
  obtain ⟨a1, a2, a3, a4⟩ := owner_loop h n k g true i1 args1 I hn hI1 hA1 rem st hl hw hI0
  generalize forLoop i1 _ _ st = r1 at a1 a2 a3 a4
  obtain ⟨st1, fl1⟩ := r1
  simp only at a1 a2 a3 a4
  cases hx : (walkAll h k true g rem st.H).err with
  | some e =>
    rw [hx] at a3
    simp only [flowOf] at a3
    subst a3
    simp [endCall, a1, a2, flowOf]
  | none =>
    rw [hx] at a3
    simp only [flowOf] at a3
    subst a3
    simp only
    have hlen1 : st1.logs.length = 0 := by rw [a2]; rfl
    rw [exec_forIn]
    simp only [hlen1, he2 st1.vars a4]
    obtain ⟨b1, b2, b3, _⟩ := owner_loop h n k g false i2 args2 I hn hI2 hA2 add st1 a2
      (by rw [a1]; exact walkAll_WF h k true g rem st.H hw) a4
    generalize forLoop i2 _ _ st1 = r2 at b1 b2 b3
    obtain ⟨st2, fl2⟩ := r2
    simp only at b1 b2 b3
    rw [a1] at b1 b3
    subst b3
    cases (walkAll h k false g add (walkAll h k true g rem st.H).H).err <;> simp [endCall, b1, b2, flowOf]

/-- SOURCE TIE.  The `_observer_change_handler` of ListItemObserver / DictItemObserver / SetItemObserver as translated
from the three modules — `for item in event.removed[.values()]: add_or_remove_notifiers(…, remove=True)`, then the
same over `event.added` with remove=False; the first exception propagates — is `maintCont`. -/
theorem run_cont_handler (h : Heap) (k : HKey) (g : Graph) (ev : CEvent) (H : Hooks) (hw : WF H) (n : Nat)
    (hn : need g ≤ n) :
    run h P (n + 1) (.fn (contHandlerName ev) (contHandlerArgs ev g k)) (H, []) =
      (((maintCont h g k ev H).H, []), flowOf (maintCont h g k ev H).err) := by
  have key : ∀ (c : PV) (e1 e2 : Ex) (rem add : List Id),
      (∀ vars : Vars, vars 0 = c → eval none vars 0 e1 = some (.ids rem)) →
      (∀ vars : Vars, vars 0 = c → eval none vars 0 e2 = some (.ids add)) →
      endCall (exec h P (run h P n) none
        (.seq (.forIn 5 e1 (.callFn "add_or_remove_notifiers" [(some (.var 5)), (some (.var 1)), (some (.var 2)),
            (some (.var 3)), (some (.var 4)), (some (.boolLit true)), none]))
          (.forIn 6 e2 (.callFn "add_or_remove_notifiers" [(some (.var 6)), (some (.var 1)), (some (.var 2)),
            (some (.var 3)), (some (.var 4)), (some (.boolLit false)), none])))
        ⟨H, [], ofArgs [c, .graph (.plain g), .handler k.handler, .obj (some k.target), .disp], none⟩) =
      (((match (walkAll h k true g rem H).err with
          | some e => (⟨(walkAll h k true g rem H).H, some e⟩ : Res)
          | none => walkAll h k false g add (walkAll h k true g rem H).H).H, []),
       flowOf (match (walkAll h k true g rem H).err with
          | some e => (⟨(walkAll h k true g rem H).H, some e⟩ : Res)
          | none => walkAll h k false g add (walkAll h k true g rem H).H).err) := by
    intro c e1 e2 rem add he1 he2
    refine cont_body h n k g 5 6 e1 e2 _ _ rem add
      (fun vars => vars 0 = c ∧ vars 1 = .graph (.plain g) ∧ vars 2 = .handler k.handler ∧
        vars 3 = .obj (some k.target) ∧ vars 4 = .disp) hn
      (fun vars hI => he1 vars hI.1) (fun vars hI => he2 vars hI.1) ?_ ?_ ?_ ?_ _ rfl hw ?_
    · intro vars v hI; simpa [setVar] using hI
    · intro vars v hI; simpa [setVar] using hI
    · intro vars y ⟨_, v1, v2, v3, v4⟩
      simp [evalAllO, eval, setVar, v1, v2, v3, v4, ownArgs]
    · intro vars y ⟨_, v1, v2, v3, v4⟩
      simp [evalAllO, eval, setVar, v1, v2, v3, v4, ownArgs]
    · simp [ofArgs]
  cases ev with
  | list i r a =>
    rw [run_fn h P n _ _ _ _ [.cevent .list r a, .graph (.plain g), .handler k.handler, .obj (some k.target), .disp]
      (by rfl) (by rfl) (by rfl)]
    exact key _ _ _ r a (fun vars hv => by simp [eval, hv]) (fun vars hv => by simp [eval, hv])
  | dict r a =>
    rw [run_fn h P n _ _ _ _ [.cevent .dict (r.map (·.2)) (a.map (·.2)), .graph (.plain g), .handler k.handler,
      .obj (some k.target), .disp] (by rfl) (by rfl) (by rfl)]
    exact key (.cevent .dict (r.map (·.2)) (a.map (·.2))) (.valuesOf (.evRemoved (.var 0)))
      (.valuesOf (.evAdded (.var 0))) (r.map (·.2)) (a.map (·.2))
      (fun vars hv => by simp [eval, hv]) (fun vars hv => by simp [eval, hv])
  | set r a =>
    rw [run_fn h P n _ _ _ _ [.cevent .set r a, .graph (.plain g), .handler k.handler, .obj (some k.target), .disp]
      (by rfl) (by rfl) (by rfl)]
    exact key _ _ _ r a (fun vars hv => by simp [eval, hv]) (fun vars hv => by simp [eval, hv])

end TraitsVerif.Model.ObsL
