/-
Assignment histories (Model/Assign.lean): store / lookup algebra, the readable
invariant and the shadow invariant of mapped traits.
-/
import TraitsVerif.Lemmas.ValSound
import TraitsVerif.Model.Assign
namespace TraitsVerif.Model.Val.Assign
open TraitsVerif TraitsVerif.Py.Value TraitsVerif.Model.Val

theorem lookup_store_same (st : State) (n : String) (v : Val) : lookup (store st n v) n = some v := by
  induction st with
  | nil => simp [store, lookup]
  | cons p rest ih =>
    obtain ⟨m, w⟩ := p
    simp only [store]
    by_cases h1 : (n == m) = true
    · simp [h1, lookup]
    · by_cases h2 : n < m
      · simp [h1, h2, lookup]
      · have hne : (m == n) = false := by
          simp only [beq_eq_false_iff_ne, ne_eq]
          intro h; subst h; simp at h1
        simp only [h1, h2, if_false, Bool.false_eq_true]
        simp only [lookup, List.find?, hne] at ih ⊢
        exact ih

theorem lookup_store_other (st : State) (n m : String) (v : Val) (h : m ≠ n) :
    lookup (store st n v) m = lookup st m := by
  induction st with
  | nil =>
    have : (n == m) = false := by simp [Ne.symm h]
    simp [store, lookup, this]
  | cons p rest ih =>
    obtain ⟨k, w⟩ := p
    simp only [store]
    have hnm : (n == m) = false := by simp [Ne.symm h]
    by_cases h1 : (n == k) = true
    · have hk : k = n := by simpa using Eq.symm (by simpa using h1 : n = k)
      subst hk
      simp [h1, lookup, List.find?, hnm]
    · by_cases h2 : n < k
      · simp [h1, h2, lookup, List.find?, hnm]
      · simp only [h1, h2, if_false, Bool.false_eq_true]
        simp only [lookup, List.find?] at ih ⊢
        cases hk : (k == m) <;> simp [hk, ih]

theorem shadow_ne (n : String) : n ++ "_" ≠ n := by
  intro h
  have := congrArg String.length h
  simp [String.length_append] at this

theorem shadow_inj (a b : String) (h : a ++ "_" = b ++ "_") : a = b :=
  (String.append_left_inj "_").mp h

end TraitsVerif.Model.Val.Assign
