/-
Assignment histories (Model/Assign.lean): store / lookup algebra, the readable
invariant and the shadow invariant of mapped traits.
-/
import TraitsVerif.Lemmas.ValSound
import TraitsVerif.Model.Assign
namespace TraitsVerif.Model.Val.Assign
open TraitsVerif TraitsVerif.Py.Value TraitsVerif.Model.Val

theorem lookup_store_same (st : State) (n : String) (v : Val) : lookup (store st n v) n = some v := by
  induction st with
  | nil => simp [store, lookup]
  | cons p rest ih =>
    obtain ⟨m, w⟩ := p
    simp only [store]
    by_cases h1 : (n == m) = true
    · simp [h1, lookup]
    · by_cases h2 : n < m
      · simp [h1, h2, lookup]
      · have hne : (m == n) = false := by
          simp only [beq_eq_false_iff_ne, ne_eq]
          intro h; subst h; simp at h1
        simp only [h1, h2, if_false, Bool.false_eq_true]
        simp only [lookup, List.find?, hne] at ih ⊢
        exact ih

theorem lookup_store_other (st : State) (n m : String) (v : Val) (h : m ≠ n) :
    lookup (store st n v) m = lookup st m := by
  induction st with
  | nil =>
    have : (n == m) = false := by simp [Ne.symm h]
    simp [store, lookup, this]
  | cons p rest ih =>
    obtain ⟨k, w⟩ := p
    simp only [store]
    have hnm : (n == m) = false := by simp [Ne.symm h]
    by_cases h1 : (n == k) = true
    · have hk : k = n := by simpa using Eq.symm (by simpa using h1 : n = k)
      subst hk
      simp [h1, lookup, List.find?, hnm]
    · by_cases h2 : n < k
      · simp [h1, h2, lookup, List.find?, hnm]
      · simp only [h1, h2, if_false, Bool.false_eq_true]
        simp only [lookup, List.find?] at ih ⊢
        cases hk : (k == m) <;> simp [hk, ih]

theorem shadow_ne (n : String) : n ++ "_" ≠ n := by
  intro h
  have := congrArg String.length h
  simp [String.length_append] at this

theorem shadow_inj (a b : String) (h : a ++ "_" = b ++ "_") : a = b :=
  (String.append_left_inj "_").mp h


variable (E : Env)

/-- Every declared trait is one whose validators are proved sound. -/
def ClassClean (cls : ClassDef) : Prop := ∀ n tt, traitOf cls n = some tt → tt.soundClean = true

/-- The shadow name of a mapped trait is not itself a declared trait. -/
def NoShadowClash (cls : ClassDef) : Prop :=
  ∀ n tt, traitOf cls n = some tt → isMapped tt = true → traitOf cls (n ++ "_") = none

/-- Map and value lists of the mapped traits have matching lengths. -/
def mapWF : TraitType → Bool
  | .map keys vals => decide (keys.length ≤ vals.length)
  | .mapH keys vals => decide (keys.length ≤ vals.length)
  | .prefixMap keys vals => decide (keys.length ≤ vals.length)
  | _ => true

def ClassWF (cls : ClassDef) : Prop := ∀ n tt, traitOf cls n = some tt → mapWF tt = true

/-- Everything stored under a declared name lies in that trait's domain. -/
def Readable (cls : ClassDef) (st : State) : Prop :=
  ∀ n tt w, traitOf cls n = some tt → lookup st n = some w → inDomain E tt w = true

/-- The shadow attribute of every mapped trait holds `map[value]`. -/
def ShadowOK (cls : ClassDef) (st : State) : Prop :=
  ∀ n tt w, traitOf cls n = some tt → isMapped tt = true → lookup st n = some w →
    ∃ s, mappedValue tt w = some s ∧ lookup st (n ++ "_") = some s

theorem dictFind_lt (keys : List Val) (v : Val) (i : Nat) (h : dictFind keys v = .ok (some i)) :
    i < keys.length := by
  unfold dictFind at h
  by_cases hh : v.hashable = true
  · simp [hh] at h
    exact (List.findIdx?_eq_some_iff_getElem.mp h).1
  · simp [hh] at h

/-- A validated value of a mapped trait has a mapped value. -/
theorem mapped_some (tt : TraitType) (v w : Val) (hm : isMapped tt = true) (hwf : mapWF tt = true)
    (h : validate E tt v = .ok w) : ∃ s, mappedValue tt w = some s := by
  cases tt <;> simp [isMapped] at hm
  case map keys vals =>
    simp [validate, ctraitValidate, ctraitValidateWith, descOf] at h
    obtain ⟨⟨i, hi⟩, rfl⟩ := fast_map_ok E _ v w h
    have hl := dictFind_lt keys _ i hi
    simp only [mapWF, decide_eq_true_eq] at hwf
    have : i < vals.length := by omega
    exact ⟨vals[i], by simp [mappedValue, hi, this]⟩
  case mapH keys vals =>
    simp [validate, ctraitValidate, ctraitValidateWith, descOf] at h
    obtain ⟨⟨i, hi⟩, rfl⟩ := fast_map_ok E _ v w h
    have hl := dictFind_lt keys _ i hi
    simp only [mapWF, decide_eq_true_eq] at hwf
    have : i < vals.length := by omega
    exact ⟨vals[i], by simp [mappedValue, hi, this]⟩
  case prefixMap keys vals =>
    simp [validate, ctraitValidate, ctraitValidateWith, descOf, hasPy] at h
    obtain ⟨hd, _⟩ := py_prefixMap_ok E keys vals v w h
    simp only [inDomain] at hd
    cases hs : strOf w with
    | none => simp [hs] at hd
    | some s =>
      simp only [hs] at hd
      have hmem : s ∈ keys := by simpa using hd
      obtain ⟨i, hi, hget⟩ := List.getElem_of_mem hmem
      have hsome : (keys.findIdx? (· == s)).isSome := by
        rw [List.findIdx?_isSome]
        simp only [List.any_eq_true]
        exact ⟨s, hmem, by simp⟩
      obtain ⟨j, hj⟩ := Option.isSome_iff_exists.mp hsome
      have hjl := (List.findIdx?_eq_some_iff_getElem.mp hj).1
      simp only [mapWF, decide_eq_true_eq] at hwf
      have : j < vals.length := by omega
      exact ⟨vals[j], by simp [mappedValue, hs, hj, this]⟩


/-- The three possible shapes of a step on a declared trait. -/
theorem step_cases (cls : ClassDef) (st : State) (name : String) (v : Val) (tt : TraitType)
    (ht : traitOf cls name = some tt) :
    (∃ e, validate E tt v ≠ .ok v ∧ (∀ w, validate E tt v ≠ .ok w) ∧ step E cls st name v = (st, some e)) ∨
    (∃ w, validate E tt v = .ok w ∧
      ((isMapped tt = false ∧ step E cls st name v = (store st name w, none)) ∨
       (isMapped tt = true ∧ lookup st name = some w ∧ step E cls st name v = (store st name w, none)) ∨
       (isMapped tt = true ∧ lookup st name ≠ some w ∧ ∃ s, mappedValue tt w = some s ∧
          step E cls st name v = (store (store st name w) (name ++ "_") s, none)) ∨
       (isMapped tt = true ∧ mappedValue tt w = none ∧ step E cls st name v = (store st name w, some .keyError)))) := by
  simp only [step, ht]
  cases hv : validate E tt v with
  | traitError => exact Or.inl ⟨.traitError, by simp, by simp, rfl⟩
  | raised e => exact Or.inl ⟨e, by simp, by simp, rfl⟩
  | ok w =>
    refine Or.inr ⟨w, rfl, ?_⟩
    by_cases hm : isMapped tt = true
    · simp only [hm, if_true]
      by_cases hl : lookup st name = some w
      · simp [hl]
      · have : (lookup st name == some w) = false := by simpa using hl
        simp only [this, Bool.false_eq_true, if_false]
        cases hmv : mappedValue tt w with
        | none => simp [hl]
        | some s => simp [hl]
    · simp [hm]

theorem readable_step (hE : EnvOK E) (cls : ClassDef) (hc : ClassClean cls) (hs : NoShadowClash cls)
    (st : State) (name : String) (v : Val) (hr : Readable E cls st) :
    Readable E cls (step E cls st name v).1 := by
  cases ht : traitOf cls name with
  | none =>
    simp only [step, ht]
    intro n tt w hn hl
    have hne : n ≠ name := by intro h; subst h; simp [ht] at hn
    rw [lookup_store_other _ _ _ _ hne] at hl
    exact hr n tt w hn hl
  | some tt =>
    have hsound := (soundP_all E hE tt).2.1 (hc name tt ht)
    have key : ∀ w, validate E tt v = .ok w → Readable E cls (store st name w) := by
      intro w hv n tt' w' hn hl
      by_cases hne : n = name
      · subst hne
        rw [lookup_store_same] at hl; cases hl
        rw [ht] at hn; cases hn
        exact (hsound v w hv).1
      · rw [lookup_store_other _ _ _ _ hne] at hl
        exact hr n tt' w' hn hl
    rcases step_cases E cls st name v tt ht with ⟨e, _, _, h⟩ | ⟨w, hv, h⟩
    · rw [h]; exact hr
    · rcases h with ⟨_, h⟩ | ⟨_, _, h⟩ | ⟨hm, _, s, _, h⟩ | ⟨_, _, h⟩
      · rw [h]; exact key w hv
      · rw [h]; exact key w hv
      · rw [h]
        intro n tt' w' hn hl
        have hne : n ≠ name ++ "_" := by
          intro heq; subst heq
          rw [hs name tt ht hm] at hn; cases hn
        rw [lookup_store_other _ _ _ _ hne] at hl
        exact key w hv n tt' w' hn hl
      · rw [h]; exact key w hv

theorem readable_run (hE : EnvOK E) (cls : ClassDef) (hc : ClassClean cls) (hs : NoShadowClash cls)
    (ops : List (String × Val)) (st : State) (hr : Readable E cls st) : Readable E cls (run E cls st ops) := by
  induction ops generalizing st with
  | nil => simpa [run] using hr
  | cons op ops ih =>
    simp only [run]
    exact ih _ (readable_step E hE cls hc hs st op.1 op.2 hr)

theorem shadow_step (cls : ClassDef) (hw : ClassWF cls) (hs : NoShadowClash cls)
    (st : State) (name : String) (v : Val) (hd : (traitOf cls name).isSome = true)
    (hr : ShadowOK cls st) : ShadowOK cls (step E cls st name v).1 := by
  obtain ⟨tt, ht⟩ := Option.isSome_iff_exists.mp hd
  -- lookups of another mapped trait and of its shadow are not disturbed by a write to `name`
  have other : ∀ w, ∀ n tt' w', traitOf cls n = some tt' → isMapped tt' = true → n ≠ name →
      lookup (store st name w) n = some w' →
      ∃ s, mappedValue tt' w' = some s ∧ lookup (store st name w) (n ++ "_") = some s := by
    intro w n tt' w' hn hm hne hl
    rw [lookup_store_other _ _ _ _ hne] at hl
    obtain ⟨s, h1, h2⟩ := hr n tt' w' hn hm hl
    have hne2 : n ++ "_" ≠ name := by
      intro heq
      have := hs n tt' hn hm
      rw [heq, ht] at this; cases this
    exact ⟨s, h1, by rw [lookup_store_other _ _ _ _ hne2]; exact h2⟩
  rcases step_cases E cls st name v tt ht with ⟨e, _, _, h⟩ | ⟨w, hv, h⟩
  · rw [h]; exact hr
  · rcases h with ⟨hnm, h⟩ | ⟨hm, hl0, h⟩ | ⟨hm, _, s, hmv, h⟩ | ⟨hm, hmv, h⟩
    · rw [h]
      intro n tt' w' hn hm' hl
      have hne : n ≠ name := by
        intro heq; subst heq; rw [ht] at hn; cases hn; simp [hnm] at hm'
      exact other w n tt' w' hn hm' hne hl
    · rw [h]
      intro n tt' w' hn hm' hl
      by_cases hne : n = name
      · subst hne
        rw [ht] at hn; cases hn
        rw [lookup_store_same] at hl; cases hl
        obtain ⟨s, h1, h2⟩ := hr n tt w ht hm hl0
        exact ⟨s, h1, by rw [lookup_store_other _ _ _ _ (shadow_ne n)]; exact h2⟩
      · exact other w n tt' w' hn hm' hne hl
    · rw [h]
      intro n tt' w' hn hm' hl
      by_cases hne : n = name
      · subst hne
        rw [ht] at hn; cases hn
        rw [lookup_store_other _ _ _ _ (Ne.symm (shadow_ne n)), lookup_store_same] at hl; cases hl
        exact ⟨s, hmv, lookup_store_same _ _ _⟩
      · have hne1 : n ≠ name ++ "_" := by
          intro heq; subst heq
          rw [hs name tt ht hm] at hn; cases hn
        have hne2 : n ++ "_" ≠ name ++ "_" := fun heq => hne (shadow_inj _ _ heq)
        rw [lookup_store_other _ _ _ _ hne1] at hl
        obtain ⟨s', h1, h2⟩ := other w n tt' w' hn hm' hne hl
        exact ⟨s', h1, by rw [lookup_store_other _ _ _ _ hne2]; exact h2⟩
    · obtain ⟨s, hs'⟩ := mapped_some E tt v w hm (hw name tt ht) hv
      rw [hs'] at hmv; cases hmv

theorem shadow_run (cls : ClassDef) (hw : ClassWF cls) (hs : NoShadowClash cls)
    (ops : List (String × Val)) (hd : ∀ op ∈ ops, (traitOf cls op.1).isSome = true)
    (st : State) (hr : ShadowOK cls st) : ShadowOK cls (run E cls st ops) := by
  induction ops generalizing st with
  | nil => simpa [run] using hr
  | cons op ops ih =>
    simp only [run]
    exact ih (fun o ho => hd o (by simp [ho])) _
      (shadow_step E cls hw hs st op.1 op.2 (hd op (by simp)) hr)


/-- A step that ends in an exception: the exception is the validator's, and
nothing was written. -/
theorem step_error (cls : ClassDef) (st : State) (name : String) (v : Val) (tt : TraitType) (e : Exc)
    (ht : traitOf cls name = some tt) (hwf : mapWF tt = true)
    (h : (step E cls st name v).2 = some e) :
    ((validate E tt v = .traitError ∧ e = .traitError) ∨ validate E tt v = .raised e) ∧
    (step E cls st name v).1 = st := by
  rcases step_cases E cls st name v tt ht with ⟨e', _, hno, hs⟩ | ⟨w, hv, hs⟩
  · rw [hs] at h ⊢
    simp only [Option.some.injEq] at h; subst h
    refine ⟨?_, rfl⟩
    simp only [step, ht] at hs
    cases hv : validate E tt v with
    | traitError => simp [hv] at hs; exact Or.inl ⟨rfl, hs.symm⟩
    | raised e'' => simp [hv] at hs; exact Or.inr (by rw [hs])
    | ok w => exact absurd hv (hno w)
  · rcases hs with ⟨_, hs⟩ | ⟨_, _, hs⟩ | ⟨_, _, s, _, hs⟩ | ⟨hm, hmv, hs⟩
    · rw [hs] at h; cases h
    · rw [hs] at h; cases h
    · rw [hs] at h; cases h
    · obtain ⟨s, hs'⟩ := mapped_some E tt v w hm hwf hv
      rw [hs'] at hmv; cases hmv

end TraitsVerif.Model.Val.Assign
