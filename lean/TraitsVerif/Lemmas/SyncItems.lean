/-
Where the items of a `TraitList` come from: after any mutator call every item of
the list, and every added item of the event, was in the list before or is an
output of the item validator (`step_src`).  Used to show that lists of linked
traits only ever hold items both item validators store unchanged.
-/
import TraitsVerif.Lemmas.SeqStep
namespace TraitsVerif.Model
open TraitsVerif TraitsVerif.Py
variable {α : Type}

/-- `x` was in `l` or is something the validator returned. -/
def Src (v : Callback α α) (l : List α) (x : α) : Prop := x ∈ l ∨ ∃ k a, v k a = .ok x

theorem valAll_mem {v : Callback α α} : ∀ {n : Nat} {xs ys : List α}, valAll v n xs = .ok ys →
    ∀ y ∈ ys, ∃ k a, v k a = .ok y := by
  intro n xs
  induction xs generalizing n with
  | nil => intro ys h y hy; simp [valAll] at h; subst h; cases hy
  | cons x xs ih =>
    intro ys h y hy
    simp only [valAll] at h
    split at h
    · cases h
    · rename_i y0 hy0
      split at h
      · cases h
      · rename_i ys0 hys0
        cases h
        rcases List.mem_cons.mp hy with rfl | hmem
        · exact ⟨_, _, hy0⟩
        · exact ih hys0 y hmem

theorem valAll_fix {v : Callback α α} : ∀ (xs : List α) (n : Nat), (∀ x ∈ xs, ∀ k, v k x = .ok x) →
    valAll v n xs = .ok xs := by
  intro xs
  induction xs with
  | nil => intro n _; rfl
  | cons x xs ih =>
    intro n h
    simp only [valAll, h x (by simp) n, ih (n + 1) (fun y hy => h y (by simp [hy]))]

theorem mem_setPositions {l : List α} {ps : List Int} {vs : List α} {x : α}
    (h : x ∈ setPositions l ps vs) : x ∈ l ∨ x ∈ vs := by
  induction ps generalizing l vs with
  | nil => simp [setPositions] at h; exact Or.inl h
  | cons p ps ih =>
    cases vs with
    | nil => simp [setPositions] at h; exact Or.inl h
    | cons v vs =>
      simp only [setPositions] at h
      rcases ih h with h1 | h1
      · rcases List.mem_or_eq_of_mem_set h1 with h2 | h2
        · exact Or.inl h2
        · exact Or.inr (by simp [h2])
      · exact Or.inr (by simp [h1])

theorem mem_delPositionsAux {ps : List Int} {i : Nat} {l : List α} {x : α}
    (h : x ∈ delPositionsAux ps i l) : x ∈ l := by
  induction l generalizing i with
  | nil => simp [delPositionsAux] at h
  | cons y ys ih =>
    simp only [delPositionsAux] at h
    split at h
    · exact List.mem_cons_of_mem _ (ih h)
    · rcases List.mem_cons.mp h with rfl | h'
      · simp
      · exact List.mem_cons_of_mem _ (ih h')

theorem mem_splice {l : List α} {a b : Int} {vs : List α} {x : α} (h : x ∈ splice l a b vs) :
    x ∈ l ∨ x ∈ vs := by
  simp only [splice, List.mem_append] at h
  rcases h with (h | h) | h
  · exact Or.inl (List.mem_of_mem_take h)
  · exact Or.inr h
  · exact Or.inl (List.mem_of_mem_drop h)

theorem mem_pySetSlice {l l' : List α} {s : Slice} {vs : List α} (h : Py.setSlice l s vs = .ok l') {x : α}
    (hx : x ∈ l') : x ∈ l ∨ x ∈ vs := by
  unfold Py.setSlice at h
  split at h
  · cases h
  · split at h
    · cases h; exact mem_splice hx
    · simp only at h
      split at h
      · cases h
      · cases h; exact mem_setPositions hx

theorem mem_pyDelSlice {l l' : List α} {s : Slice} (h : Py.delSlice l s = .ok l') {x : α}
    (hx : x ∈ l') : x ∈ l := by
  unfold Py.delSlice at h
  split at h
  · cases h
  · split at h
    · cases h
      rcases mem_splice hx with h | h
      · exact h
      · cases h
    · cases h; exact mem_delPositionsAux hx

theorem mem_imul {l : List α} {n : Int} {x : α} (hx : x ∈ Py.imul l n) : x ∈ l := by
  unfold Py.imul at hx
  split at hx
  · cases hx
  · obtain ⟨l', hl', hx'⟩ := List.mem_flatten.mp hx
    rw [List.eq_of_mem_replicate hl'] at hx'
    exact hx'

/-- **Provenance.** After a successful mutator call, every item of the list
and every added item of the event was in the list before, or is an output of
the item validator. -/
theorem step_src (E : Env α) (hs : SortOk E) (l : List α) (op : Op α) (o : Out α)
    (h : TraitList.step E l op = .ok o) :
    (∀ x ∈ o.items, Src E.v l x) ∧ (∀ e, o.event = some e → ∀ x ∈ e.added, Src E.v l x) := by
  cases op with
  | setIdx i x =>
    simp only [TraitList.step] at h
    split at h
    · cases h
    · rename_i y hy
      split at h
      · cases h
      · rename_i l' hl'
        cases h
        have hy' : Src E.v l y := Or.inr ⟨_, _, hy⟩
        refine ⟨?_, ?_⟩
        · intro z hz
          unfold Py.setIdx at hl'
          split at hl'
          · cases hl'
          · cases hl'
            rcases List.mem_or_eq_of_mem_set hz with h1 | h1
            · exact Or.inl h1
            · rw [h1]; exact hy'
        · intro e he z hz
          simp only [Option.some.injEq] at he
          subst he
          simp only [List.mem_singleton] at hz
          rw [hz]; exact hy'
  | setSlice s xs =>
    simp only [TraitList.step] at h
    split at h
    · cases h
    · rename_i removed _
      split at h
      · cases h
      · rename_i ys hys
        have hys' : ∀ z ∈ ys, Src E.v l z := fun z hz => Or.inr (valAll_mem hys z hz)
        split at h
        · cases h
        · rename_i l' hl'
          have hitems : ∀ z ∈ l', Src E.v l z := by
            intro z hz
            rcases mem_pySetSlice hl' hz with h1 | h1
            · exact Or.inl h1
            · exact hys' z h1
          split at h
          · cases h; exact ⟨hitems, fun e he => by cases he⟩
          · split at h
            · cases h
            · split at h
              · cases h
                refine ⟨hitems, ?_⟩
                intro e he z hz
                simp only [Option.some.injEq] at he
                subst he
                exact hys' z (List.mem_reverse.mp hz)
              · cases h
                refine ⟨hitems, ?_⟩
                intro e he z hz
                simp only [Option.some.injEq] at he
                subst he
                exact hys' z hz
  | delIdx i =>
    simp only [TraitList.step] at h
    split at h
    · cases h
    · rename_i l' hl'
      have hitems : ∀ z ∈ l', Src E.v l z := by
        intro z hz
        unfold Py.delIdx at hl'
        split at hl'
        · cases hl'
        · cases hl'; exact Or.inl (List.mem_of_mem_eraseIdx hz)
      have key : o.items = l' ∧ ∀ e, o.event = some e → e.added = [] := by
        split at h <;> (try split at h) <;> (have := Except.ok.inj h; subst this; simp)
      refine ⟨by rw [key.1]; exact hitems, ?_⟩
      intro e he z hz
      rw [key.2 e he] at hz
      cases hz
  | delSlice s =>
    simp only [TraitList.step] at h
    split at h
    · cases h
    · split at h
      · cases h
      · rename_i l' hl'
        have hitems : ∀ z ∈ l', Src E.v l z := fun z hz => Or.inl (mem_pyDelSlice hl' hz)
        split at h
        · cases h; exact ⟨hitems, fun e he => by cases he⟩
        · split at h
          · cases h
          · cases h
            refine ⟨hitems, ?_⟩
            intro e he z hz
            simp only [Option.some.injEq] at he
            subst he
            cases hz
  | append x =>
    simp only [TraitList.step] at h
    split at h
    · cases h
    · rename_i y hy
      cases h
      have hitems : ∀ z ∈ l ++ [y], Src E.v l z := by
        intro z hz
        rcases List.mem_append.mp hz with h1 | h1
        · exact Or.inl h1
        · simp only [List.mem_singleton] at h1; rw [h1]; exact Or.inr ⟨_, _, hy⟩
      refine ⟨hitems, ?_⟩
      intro e he z hz
      simp only [Option.some.injEq] at he
      subst he
      exact hitems z (List.mem_of_mem_drop hz)
  | extend xs =>
    simp only [TraitList.step] at h
    split at h
    · cases h
    · rename_i ys hys
      have hitems : ∀ z ∈ l ++ ys, Src E.v l z := by
        intro z hz
        rcases List.mem_append.mp hz with h1 | h1
        · exact Or.inl h1
        · exact Or.inr (valAll_mem hys z h1)
      split at h
      · cases h; exact ⟨hitems, fun e he => by cases he⟩
      · cases h
        refine ⟨hitems, ?_⟩
        intro e he z hz
        simp only [Option.some.injEq] at he
        subst he
        exact Or.inr (valAll_mem hys z hz)
  | iadd xs =>
    simp only [TraitList.step] at h
    split at h
    · cases h
    · rename_i ys hys
      have hitems : ∀ z ∈ l ++ ys, Src E.v l z := by
        intro z hz
        rcases List.mem_append.mp hz with h1 | h1
        · exact Or.inl h1
        · exact Or.inr (valAll_mem hys z h1)
      split at h
      · cases h; exact ⟨hitems, fun e he => by cases he⟩
      · cases h
        refine ⟨hitems, ?_⟩
        intro e he z hz
        simp only [Option.some.injEq] at he
        subst he
        exact Or.inr (valAll_mem hys z hz)
  | imul n =>
    simp only [TraitList.step] at h
    have hitems : ∀ z ∈ Py.imul l n, Src E.v l z := fun z hz => Or.inl (mem_imul hz)
    split at h
    · split at h
      · cases h; exact ⟨hitems, fun e he => by cases he⟩
      · cases h
        refine ⟨hitems, ?_⟩
        intro e he z hz
        simp only [Option.some.injEq] at he
        subst he
        cases hz
    · split at h
      · cases h; exact ⟨hitems, fun e he => by cases he⟩
      · cases h
        refine ⟨hitems, ?_⟩
        intro e he z hz
        simp only [Option.some.injEq] at he
        subst he
        exact hitems z (List.mem_of_mem_drop hz)
  | insert i x =>
    simp only [TraitList.step] at h
    split at h
    · cases h
    · rename_i y hy
      cases h
      have hy' : Src E.v l y := Or.inr ⟨_, _, hy⟩
      refine ⟨?_, ?_⟩
      · intro z hz
        simp only [Py.insert, List.mem_append, List.mem_cons] at hz
        rcases hz with h1 | h1 | h1
        · exact Or.inl (List.mem_of_mem_take h1)
        · rw [h1]; exact hy'
        · exact Or.inl (List.mem_of_mem_drop h1)
      · intro e he z hz
        simp only [Option.some.injEq] at he
        subst he
        simp only [List.mem_singleton] at hz
        rw [hz]; exact hy'
  | pop i =>
    simp only [TraitList.step] at h
    split at h
    · cases h
    · rename_i x l' hl'
      cases h
      refine ⟨?_, ?_⟩
      · intro z hz
        unfold Py.pop at hl'
        split at hl'
        · cases hl'
        · split at hl'
          · cases hl'
          · cases hl'; exact Or.inl (List.mem_of_mem_eraseIdx hz)
      · intro e he z hz
        simp only [Option.some.injEq] at he
        subst he
        cases hz
  | remove x =>
    simp only [TraitList.step] at h
    split at h
    · cases h
    · split at h
      · cases h
      · rename_i l' hl'
        cases h
        refine ⟨?_, ?_⟩
        · intro z hz
          unfold Py.remove at hl'
          split at hl'
          · cases hl'
          · cases hl'; exact Or.inl (List.mem_of_mem_eraseIdx hz)
        · intro e he z hz
          simp only [Option.some.injEq] at he
          subst he
          cases hz
  | clear =>
    simp only [TraitList.step] at h
    split at h
    · cases h; exact ⟨(fun z hz => by cases hz), fun e he => by cases he⟩
    · cases h
      refine ⟨(fun z hz => by cases hz), ?_⟩
      intro e he z hz
      simp only [Option.some.injEq] at he
      subst he
      cases hz
  | reverse =>
    simp only [TraitList.step] at h
    have hitems : ∀ z ∈ l.reverse, Src E.v l z := fun z hz => Or.inl (List.mem_reverse.mp hz)
    split at h
    · cases h; exact ⟨hitems, fun e he => by cases he⟩
    · cases h
      refine ⟨hitems, ?_⟩
      intro e he z hz
      simp only [Option.some.injEq] at he
      subst he
      exact hitems z hz
  | sort sp =>
    simp only [TraitList.step] at h
    have hitems : ∀ z ∈ E.sort sp l, Src E.v l z := fun z hz => Or.inl ((hs sp l).mem_iff.mp hz)
    split at h
    · cases h; exact ⟨hitems, fun e he => by cases he⟩
    · cases h
      refine ⟨hitems, ?_⟩
      intro e he z hz
      simp only [Option.some.injEq] at he
      subst he
      exact hitems z hz

end TraitsVerif.Model
