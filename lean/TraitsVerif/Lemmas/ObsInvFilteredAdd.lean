/-
Cluster `obs`: `o.add_trait(n, …)` (new name) preserves the refinement invariant when the
active registrations MAY contain `filtered` nodes (`*`, `+metadata`): `AddCoreF` =
`AddCore` without `noFiltered`.

A `filtered fl` node standing on `o` whose filter matches the NEW field (always for `*`,
iff `tagged` for `+tag`) gains the observable `o.n` exactly like a `named n` node — next
to the observables it already had — and nothing below it (the field is `.unset`); its
`trait_added` maintainer on `o.trait_added` matches (`addedMatches`, filtered branch: the
filter applied to the field found in the new heap) and walks the restricted graph.
-/
import TraitsVerif.Lemmas.ObsInvAddTrait
namespace TraitsVerif.Model.Obs
open TraitsVerif

/-- the node, standing on `o`, gains the observable `o.n` when the field `nf` is added -/
def gainsF (n : Name) (nf : Field) : Observer → Bool
  | .named m _ _ => m == n
  | .filtered fl _ => fl.matches nf
  | _ => false

/-- observers that contribute an extra `trait_added` graph -/
def hasExtra : Observer → Bool
  | .named .. => true
  | .filtered .. => true
  | _ => false

theorem hasExtra_of_gains {n : Name} {nf : Field} {ob : Observer} (h : gainsF n nf ob = true) : hasExtra ob = true := by
  cases ob <;> simp_all [gainsF, hasExtra]

/-- what a gaining node owes on the new observable -/
def newItems (o : Id) (n : Name) (k : HKey) (ob : Observer) (cs : List Graph) : List Item :=
  (if ob.notify then [(Observable.trait o n, NKey.user k)] else []) ++
    cs.map (fun c => (Observable.trait o n, NKey.maint .trait c k))

structure AddRelF (h h' : Heap) (o : Id) (n : Name) (nf : Field) : Prop where
  obs : ∀ ob x, (gainsF n nf ob && x == some o) = false → observables h' ob x = observables h ob x
  own : ∀ ob, gainsF n nf ob = true → ∀ (k : HKey) (cs : List Graph) (o' : Observable) (q : NKey),
    cntItems (ownItems h' k ob cs (some o)) o' q =
      cntItems (ownItems h k ob cs (some o)) o' q + cntItems (newItems o n k ob cs) o' q
  objs : ∀ ob x, (okOr [] (objects h' ob x) : List W) = okOr [] (objects h ob x)
  ext : ∀ ob x, extraObservables h' ob x = extraObservables h ob x
  newObs : ∀ nt opt, observables h' (.named n nt opt) (some o) = .ok [.trait o n]
  newObjs : ∀ nt opt, objects h' (.named n nt opt) (some o) = .ok []
  find : ∀ fl nt cs, addedMatches h' (.node (.filtered fl nt) cs) o (.name n) = fl.matches nf

theorem AddRelF.mk' {h : Heap} {o : Id} {fs : List Field} {n : Name} (tagged : Bool) (d : Dflt)
    (ho : h.get o = .inst fs) (hn : findField fs n = none) :
    AddRelF h (addH h o fs n tagged d) o n ⟨n, tagged, d, .unset, .equality⟩ where
  obs := by
    intro ob x hc
    cases ob with
    | filtered fl nt =>
      by_cases hx : x = some o
      · subst hx
        have hm : fl.matches ⟨n, tagged, d, .unset, .equality⟩ = false := by simpa [gainsF] using hc
        simp [observables, Heap.at, addH_get_o, ho, List.filter_append, hm]
      · simp [observables, addH_at_ne tagged d x hx]
    | named m nt opt =>
      exact (AddRel.mk' tagged d ho hn).obs _ x rfl (by simpa [gainsF, isNamed] using hc)
    | listItems nt opt => exact (AddRel.mk' tagged d ho hn).obs _ x rfl (by simp [isNamed])
    | dictItems nt opt => exact (AddRel.mk' tagged d ho hn).obs _ x rfl (by simp [isNamed])
    | setItems nt opt => exact (AddRel.mk' tagged d ho hn).obs _ x rfl (by simp [isNamed])
  own := by
    intro ob hg k cs o' q
    cases ob with
    | named m nt opt =>
      simp only [gainsF, beq_iff_eq] at hg
      subst hg
      have h0 := (AddRel.mk' tagged d ho hn).obsOld (.named m nt opt) (by simp [isNamed])
      have h1 := (AddRel.mk' tagged d ho hn).newObs nt opt
      have hown0 : ownItems h k (.named m nt opt) cs (some o) = [] := by simp [ownItems, h0]
      have hown1 : ownItems (addH h o fs m tagged d) k (.named m nt opt) cs (some o) =
          newItems o m k (.named m nt opt) cs := by
        cases nt <;> simp [ownItems, h1, okOr, newItems, Observer.notify, Observer.mkind]
      rw [hown0, hown1, cntItems_nil, Nat.zero_add]
    | filtered fl nt =>
      have hm : fl.matches ⟨n, tagged, d, .unset, .equality⟩ = true := by simpa [gainsF] using hg
      cases nt <;>
        simp [ownItems, observables, Heap.at, addH_get_o, ho, okOr, List.filter_append, hm,
          List.map_append, List.flatMap_append, cntItems_append, newItems, Observer.notify, Observer.mkind,
          cntItems_cons] <;> omega
    | listItems nt opt => simp [gainsF] at hg
    | dictItems nt opt => simp [gainsF] at hg
    | setItems nt opt => simp [gainsF] at hg
  objs := by
    intro ob x
    cases ob with
    | filtered fl nt =>
      by_cases hx : x = some o
      · subst hx
        cases hm : fl.matches ⟨n, tagged, d, .unset, .equality⟩ <;>
          simp [objects, Heap.at, addH_get_o, ho, List.filter_append, hm, List.flatMap_append,
            valObjects]
      · simp [objects, addH_at_ne tagged d x hx]
    | named m nt opt => exact (AddRel.mk' tagged d ho hn).objs _ x rfl
    | listItems nt opt => exact (AddRel.mk' tagged d ho hn).objs _ x rfl
    | dictItems nt opt => exact (AddRel.mk' tagged d ho hn).objs _ x rfl
    | setItems nt opt => exact (AddRel.mk' tagged d ho hn).objs _ x rfl
  ext := by
    intro ob x
    cases ob with
    | filtered fl nt =>
      by_cases hx : x = some o
      · subst hx; simp [extraObservables, Heap.at, addH_get_o, ho]
      · simp [extraObservables, addH_at_ne tagged d x hx]
    | named m nt opt => exact (AddRel.mk' tagged d ho hn).ext _ x rfl
    | listItems nt opt => rfl
    | dictItems nt opt => rfl
    | setItems nt opt => rfl
  newObs := (AddRel.mk' tagged d ho hn).newObs
  newObjs := (AddRel.mk' tagged d ho hn).newObjs
  find := by
    intro fl nt cs
    simp [addedMatches, Graph.ob, addH_get_o, findField_append, hn]

/-! ### the nodes with an extra graph that a walk reaches standing on `o` -/

mutual
def nodesAtF (h : Heap) (o : Id) : Graph → W → List Graph
  | .node ob cs, x => (if x == some o && hasExtra ob then [.node ob cs] else []) ++ nodesAtFCs h o ob x cs
def nodesAtFCs (h : Heap) (o : Id) (ob : Observer) (x : W) : List Graph → List Graph
  | [] => []
  | c :: cs => (okOr [] (objects h ob x)).flatMap (fun y => nodesAtF h o c y) ++ nodesAtFCs h o ob x cs
end

def newOwnF (o : Id) (n : Name) (nf : Field) (k : HKey) (o' : Observable) (q : NKey) : Graph → Nat
  | .node ob cs => if gainsF n nf ob then cntItems (newItems o n k ob cs) o' q else 0

def deltaF (o : Id) (n : Name) (nf : Field) (k : HKey) (vs : List Graph) (o' : Observable) (q : NKey) : Nat :=
  (vs.map (newOwnF o n nf k o' q)).sum

theorem deltaF_append (o : Id) (n : Name) (nf : Field) (k : HKey) (a b : List Graph) (o' : Observable) (q : NKey) :
    deltaF o n nf k (a ++ b) o' q = deltaF o n nf k a o' q + deltaF o n nf k b o' q := by
  simp [deltaF, List.map_append, List.sum_append]

theorem deltaF_nil (o : Id) (n : Name) (nf : Field) (k : HKey) (o' : Observable) (q : NKey) :
    deltaF o n nf k [] o' q = 0 := rfl

theorem deltaF_flatMap {α} (o : Id) (n : Name) (nf : Field) (k : HKey) (l : List α) (f : α → List Graph)
    (o' : Observable) (q : NKey) :
    deltaF o n nf k (l.flatMap f) o' q = (l.map (fun a => deltaF o n nf k (f a) o' q)).sum := by
  induction l with
  | nil => rfl
  | cons a l ih => simp [List.flatMap_cons, deltaF_append, ih]

theorem add_decF {h h' : Heap} {o : Id} {n : Name} {nf : Field} (R : AddRelF h h' o n nf) (k : HKey) :
    ∀ g : Graph, ∀ (e : Bool) (x : W) (o' : Observable) (q : NKey),
      cntItems (hookList h' k e g x) o' q =
        cntItems (hookList h k e g x) o' q + deltaF o n nf k (nodesAtF h o g x) o' q := by
  apply Graph.ind (P := fun g => ∀ (e : Bool) (x : W) (o' : Observable) (q : NKey),
      cntItems (hookList h' k e g x) o' q =
        cntItems (hookList h k e g x) o' q + deltaF o n nf k (nodesAtF h o g x) o' q)
  intro ob cs ih e x o' q
  have hC : ∀ cs' : List Graph, (∀ c ∈ cs', c ∈ cs) →
      cntItems (hookListCs h' k ob x cs') o' q =
        cntItems (hookListCs h k ob x cs') o' q + deltaF o n nf k (nodesAtFCs h o ob x cs') o' q := by
    intro cs'
    induction cs' with
    | nil => intro _; simp [hookListCs, nodesAtFCs, cntItems_nil, deltaF_nil]
    | cons c cs' ihc =>
      intro hsub
      have hc := hsub c (List.mem_cons_self ..)
      have ihc' := ihc (fun c' hc' => hsub c' (List.mem_cons_of_mem _ hc'))
      rw [hookListCs_cons, hookListCs_cons, cntItems_append, cntItems_append, ihc', R.objs ob x]
      simp only [nodesAtFCs, deltaF_append]
      rw [cntItems_flatMap, cntItems_flatMap, deltaF_flatMap]
      have : ∀ y, cntItems (hookList h' k true c y) o' q =
          cntItems (hookList h k true c y) o' q + deltaF o n nf k (nodesAtF h o c y) o' q :=
        fun y => ih c hc true y o' q
      simp only [this, sum_map_add]
      omega
  have hown : cntItems (ownItems h' k ob cs x) o' q = cntItems (ownItems h k ob cs x) o' q +
      deltaF o n nf k (if x == some o && hasExtra ob then [.node ob cs] else []) o' q := by
    by_cases hc : (gainsF n nf ob && x == some o) = true
    · simp only [Bool.and_eq_true, beq_iff_eq] at hc
      obtain ⟨h1, rfl⟩ := hc
      rw [R.own ob h1 k cs o' q]
      simp [hasExtra_of_gains h1, deltaF, newOwnF, h1]
    · have hc' : (gainsF n nf ob && x == some o) = false := by simpa using hc
      have h0 : ownItems h' k ob cs x = ownItems h k ob cs x := by simp [ownItems, R.obs ob x hc']
      rw [h0]
      by_cases hx : (x == some o && hasExtra ob) = true
      · have hnn : gainsF n nf ob = false := by
          simp only [Bool.and_eq_true] at hx
          cases hi : gainsF n nf ob with
          | false => rfl
          | true => simp [hi, hx.1] at hc'
        simp [hx, deltaF, newOwnF, hnn]
      · simp [hx, deltaF_nil]
  rw [hookList_node, hookList_node, cntItems_append, cntItems_append, cntItems_append, cntItems_append,
    hC cs (fun c hc => hc), R.ext ob x, hown]
  simp only [nodesAtF, deltaF_append]
  omega

/-! ### the `trait_added` maintainers on `o.trait_added` -/

theorem extra_atF (h : Heap) (o : Id) (fs : List Field) (ho : h.get o = .inst fs) (k : HKey) (ob : Observer)
    (cs : List Graph) (x : W) (q : NKey) :
    cntItems (extraItems (.node ob cs) k (okOr [] (extraObservables h ob x))) (.trait o nTraitAdded) q =
      addedHits k (if x == some o && hasExtra ob then [.node ob cs] else []) q := by
  cases ob with
  | listItems nt opt => simp [extraObservables, okOr, extraItems, cntItems_nil, hasExtra, addedHits]
  | dictItems nt opt => simp [extraObservables, okOr, extraItems, cntItems_nil, hasExtra, addedHits]
  | setItems nt opt => simp [extraObservables, okOr, extraItems, cntItems_nil, hasExtra, addedHits]
  | named m nt opt =>
    cases x with
    | none =>
      cases opt <;> simp [extraObservables, okOr, extraItems, cntItems_nil, hasExtra, addedHits]
    | some i =>
      by_cases hi : i = o
      · subst hi
        simp [extraObservables, Heap.at, ho, okOr, extraItems, cntItems_cons, cntItems_nil, wt, hasExtra, addedHits]
      · have hx : (some i == some o) = false := by simpa using hi
        rw [hx, Bool.false_and]
        simp only [Bool.false_eq_true, if_false, addedHits, List.map_nil, List.sum_nil]
        apply cntItems_zero_of_ne
        intro it hit
        simp only [extraItems, List.mem_map] at hit
        obtain ⟨ob', hob', rfl⟩ := hit
        simp only [extraObservables, Heap.at] at hob'
        split at hob'
        · rename_i i' _ heq _
          simp only [okOr, List.mem_singleton] at hob'
          subst hob'
          cases heq
          simpa using hi
        · split at hob' <;> simp [okOr] at hob'
  | filtered fl nt =>
    cases x with
    | none =>
      simp [extraObservables, okOr, extraItems, cntItems_nil, hasExtra, addedHits]
    | some i =>
      by_cases hi : i = o
      · subst hi
        simp [extraObservables, Heap.at, ho, okOr, extraItems, cntItems_cons, cntItems_nil, wt, hasExtra, addedHits]
      · have hx : (some i == some o) = false := by simpa using hi
        rw [hx, Bool.false_and]
        simp only [Bool.false_eq_true, if_false, addedHits, List.map_nil, List.sum_nil]
        apply cntItems_zero_of_ne
        intro it hit
        simp only [extraItems, List.mem_map] at hit
        obtain ⟨ob', hob', rfl⟩ := hit
        simp only [extraObservables, Heap.at] at hob'
        split at hob'
        · rename_i i' _ heq _
          simp only [okOr, List.mem_singleton] at hob'
          subst hob'
          cases heq
          simpa using hi
        · simp [okOr] at hob'


theorem added_atF (h : Heap) (o : Id) (fs : List Field) (ho : h.get o = .inst fs) (k : HKey) :
    ∀ g : Graph, ∀ (x : W) (g0 : Graph) (k0 : HKey),
      cntItems (hookList h k true g x) (.trait o nTraitAdded) (.maint .added g0 k0) =
        addedHits k (nodesAtF h o g x) (.maint .added g0 k0) := by
  apply Graph.ind (P := fun g => ∀ (x : W) (g0 : Graph) (k0 : HKey),
      cntItems (hookList h k true g x) (.trait o nTraitAdded) (.maint .added g0 k0) =
        addedHits k (nodesAtF h o g x) (.maint .added g0 k0))
  intro ob cs ih x g0 k0
  have hC : ∀ cs' : List Graph, (∀ c ∈ cs', c ∈ cs) →
      cntItems (hookListCs h k ob x cs') (.trait o nTraitAdded) (.maint .added g0 k0) =
        addedHits k (nodesAtFCs h o ob x cs') (.maint .added g0 k0) := by
    intro cs'
    induction cs' with
    | nil => intro _; rfl
    | cons c cs' ihc =>
      intro hsub
      have hc := hsub c (List.mem_cons_self ..)
      rw [hookListCs_cons, cntItems_append, ihc (fun c' hc' => hsub c' (List.mem_cons_of_mem _ hc'))]
      simp only [nodesAtFCs, addedHits_append]
      rw [cntItems_flatMap, addedHits_flatMap]
      have : ∀ y, cntItems (hookList h k true c y) (.trait o nTraitAdded) (.maint .added g0 k0) =
          addedHits k (nodesAtF h o c y) (.maint .added g0 k0) := fun y => ih c hc y g0 k0
      simp only [this]
  rw [hookList_node, cntItems_append, cntItems_append, hC cs (fun c hc => hc), ownItems_added_zero]
  simp only [if_true, extra_atF h o fs ho k ob cs x, nodesAtF, addedHits_append]
  omega

theorem nodesAtF_extra (h : Heap) (o : Id) :
    ∀ g : Graph, ∀ x, ∀ g' ∈ nodesAtF h o g x, hasExtra g'.ob = true := by
  apply Graph.ind (P := fun g => ∀ x, ∀ g' ∈ nodesAtF h o g x, hasExtra g'.ob = true)
  intro ob cs ih x g' hg'
  have hC : ∀ cs' : List Graph, (∀ c ∈ cs', c ∈ cs) → ∀ g' ∈ nodesAtFCs h o ob x cs', hasExtra g'.ob = true := by
    intro cs'
    induction cs' with
    | nil => intro _ g' hg'; simp [nodesAtFCs] at hg'
    | cons c cs' ihc =>
      intro hsub g' hg'
      simp only [nodesAtFCs, List.mem_append, List.mem_flatMap] at hg'
      rcases hg' with ⟨y, _, hy⟩ | h1
      · exact ih c (hsub c (List.mem_cons_self ..)) y g' hy
      · exact ihc (fun c' h' => hsub c' (List.mem_cons_of_mem _ h')) g' h1
  simp only [nodesAtF, List.mem_append] at hg'
  rcases hg' with h1 | h1
  · split at h1
    · rename_i hc
      simp only [List.mem_singleton] at h1
      subst h1
      simp only [Bool.and_eq_true] at hc
      exact hc.2
    · cases h1
  · exact hC cs (fun c hc => hc) g' h1

/-! ### key lists -/

def addedKeysF (h : Heap) (o : Id) (regs : List Reg) : List NKey :=
  regs.flatMap (fun r => (nodesAtF h o r.g (some r.x)).map (fun g => NKey.maint .added g r.k))

theorem addedKeysF_shape (h : Heap) (o : Id) (regs : List Reg) :
    ∀ a ∈ addedKeysF h o regs, ∃ r ∈ regs, ∃ g ∈ nodesAtF h o r.g (some r.x), a = .maint .added g r.k := by
  intro a ha
  simp only [addedKeysF, List.mem_flatMap, List.mem_map] at ha
  obtain ⟨r, hr, g, hg, rfl⟩ := ha
  exact ⟨r, hr, g, hg, rfl⟩

theorem addedKeysF_countP (h : Heap) (o : Id) (regs : List Reg) (q : NKey) :
    (addedKeysF h o regs).countP (fun a => a.equals q) =
      (regs.map (fun r => addedHits r.k (nodesAtF h o r.g (some r.x)) q)).sum := by
  induction regs with
  | nil => rfl
  | cons r regs ih =>
    simp only [addedKeysF, List.flatMap_cons, List.countP_append, List.map_cons, List.sum_cons] at ih ⊢
    rw [ih]
    congr 1
    generalize nodesAtF h o r.g (some r.x) = vs
    induction vs with
    | nil => rfl
    | cons g vs ihv =>
      simp only [List.map_cons, List.countP_cons, addedHits, List.sum_cons, hit] at ihv ⊢
      rw [ihv]; split <;> omega


/-- the restricted graph hooks exactly the new items of the gaining node -/
theorem addG_gainsF {h h' : Heap} {o : Id} {n : Name} {nf : Field} (R : AddRelF h h' o n nf) (k : HKey)
    (o' : Observable) (q : NKey) (g' : Graph) (hg' : hasExtra g'.ob = true) :
    addG h' o n o' q g' k = newOwnF o n nf k o' q g' := by
  cases g' with
  | node ob cs =>
    have hres : ∀ nt, cntItems (hookList h' k false (.node (.named n nt false) cs) (some o)) o' q =
        cntItems (newItems o n k (.named n nt false) cs) o' q := by
      intro nt
      have hobj : (okOr [] (objects h' (.named n nt false) (some o)) : List W) = [] := by
        rw [R.newObjs nt false]; rfl
      rw [hookList_node, hookListCs_nil_of_objects h' k _ _ hobj cs]
      cases nt <;> simp [ownItems, R.newObs, okOr, newItems, Observer.notify, Observer.mkind]
    cases ob with
    | named m nt opt =>
      by_cases hm : m = n
      · subst hm
        simp only [addG, addedMatches, Graph.ob, BEq.rfl, if_true, restrict, Graph.children, Observer.notify,
          newOwnF, gainsF, hres]
        cases nt <;> simp [newItems, Observer.notify]
      · have h1 : (n == m) = false := by simpa using (fun e : n = m => hm e.symm)
        have h2 : (m == n) = false := by simpa using hm
        simp [addG, addedMatches, Graph.ob, h1, newOwnF, gainsF, h2]
    | filtered fl nt =>
      simp only [addG, R.find fl nt cs, newOwnF, gainsF, restrict, Graph.ob, Graph.children, Observer.notify, hres]
      cases nt <;> simp [newItems, Observer.notify]
    | listItems nt opt => simp [hasExtra, Graph.ob] at hg'
    | dictItems nt opt => simp [hasExtra, Graph.ob] at hg'
    | setItems nt opt => simp [hasExtra, Graph.ob] at hg'

theorem sum_deltaF_eq_keys {h h' : Heap} {o : Id} {n : Name} {nf : Field} (R : AddRelF h h' o n nf)
    (o' : Observable) (q : NKey) (regs : List Reg) :
    (regs.map (fun r => deltaF o n nf r.k (nodesAtF h o r.g (some r.x)) o' q)).sum =
      ((addedKeysF h o regs).map (keyFA (addG h' o n o' q))).sum := by
  induction regs with
  | nil => rfl
  | cons r regs ih =>
    simp only [List.map_cons, List.sum_cons, addedKeysF, List.flatMap_cons, List.map_append, List.sum_append]
    simp only [addedKeysF] at ih
    rw [ih]
    congr 1
    simp only [deltaF, List.map_map]
    apply sum_map_congr
    intro g' hg'
    simp only [Function.comp, keyFA]
    exact (addG_gainsF R r.k o' q g' (nodesAtF_extra h o r.g (some r.x) g' hg')).symm

/-! ### the fragment and the theorem -/

/-- Hypotheses under which `o.add_trait(n, …)` (new name `n`) preserves the invariant. -/
structure AddCoreF (E : Env) (st : St) (regs : List Reg) (o : Id) (n : Name) (tagged : Bool) (d : Dflt)
    (fs : List Field) : Prop where
  ho : st.h.get o = .inst fs
  alive : ∀ k, E.dead k = false
  /-- a trait maintainer sitting on `o.trait_added` itself (someone observes `trait_added.xyz`) walks
  its sub-graph from the trait-name string, a non-object: that walk meets no failing `iter_*`
  (i.e. the sub-graph is all-optional); vacuous when nobody observes below `trait_added` -/
  okNone : ∀ c k, Notifier.maint .trait c k ∈ st.H.get (.trait o nTraitAdded) →
    walkOk (addH st.h o fs n tagged d) true c none = true
  /-- graph equality is structural on the graphs involved -/
  eqStruct : ∀ g k, Notifier.maint .added g k ∈ st.H.get (.trait o nTraitAdded) → ∀ r ∈ regs,
    ∀ g' ∈ nodesAtF st.h o r.g (some r.x),
    (NKey.maint .added g k).equals (.maint .added g' r.k) = true → g = g' ∧ k = r.k

theorem addTrait_preservesF (E : Env) (st : St) (regs : List Reg) (o : Id) (n : Name) (tagged : Bool) (d : Dflt)
    (fs : List Field) (hinv : HooksEqReach st.h st.H regs) (core : AddCoreF E st regs o n tagged d fs)
    (hn : findField fs n = none) :
    HooksEqReach (mutate E st (.addTrait o n tagged d)).st.h (mutate E st (.addTrait o n tagged d)).st.H regs ∧
    (mutate E st (.addTrait o n tagged d)).err = none := by
  obtain ⟨hwf, hcnt⟩ := hinv
  have R := AddRelF.mk' tagged d core.ho hn
  have hkinds : ∀ nt ∈ st.H.get (.trait o nTraitAdded), ∀ mk g k, nt = .maint mk g k → mk = .trait ∨ mk = .added := by
    intro nt hnt mk g k e
    subst e
    cases mk with
    | trait => exact Or.inl rfl
    | added => exact Or.inr rfl
    | list =>
      exfalso
      have h1 : 0 < cnt st.H (.trait o nTraitAdded) (.maint .list g k) := by
        unfold cnt
        exact cntList_pos_of_mem _ _ _ _ hnt
      rw [hcnt, specCnt_kind_trait st.h regs o nTraitAdded (.maint .list g k) ⟨.list, g, k, rfl, by simp, by simp⟩] at h1
      omega
    | dict =>
      exfalso
      have h1 : 0 < cnt st.H (.trait o nTraitAdded) (.maint .dict g k) := by
        unfold cnt
        exact cntList_pos_of_mem _ _ _ _ hnt
      rw [hcnt, specCnt_kind_trait st.h regs o nTraitAdded (.maint .dict g k) ⟨.dict, g, k, rfl, by simp, by simp⟩] at h1
      omega
    | set =>
      exfalso
      have h1 : 0 < cnt st.H (.trait o nTraitAdded) (.maint .set g k) := by
        unfold cnt
        exact cntList_pos_of_mem _ _ _ _ hnt
      rw [hcnt, specCnt_kind_trait st.h regs o nTraitAdded (.maint .set g k) ⟨.set, g, k, rfl, by simp, by simp⟩] at h1
      omega
  -- the restricted walk from `o` always succeeds: the new trait exists and nothing is below it
  have hokA : ∀ g k, Notifier.maint .added g k ∈ st.H.get (.trait o nTraitAdded) →
      addedMatches (addH st.h o fs n tagged d) g o (.name n) = true →
      walkOk (addH st.h o fs n tagged d) false (restrict g n) (some o) = true := by
    intro g k _ _
    cases g with
    | node ob cs =>
      simp [restrict, walkOk, Graph.ob, Graph.children, R.newObs, isOk,
        walkOkCs_of_objects_nil _ _ _ (R.newObjs ob.notify false)]
  have hl : LoopOkA E (addH st.h o fs n tagged d) o n (st.H.get (.trait o nTraitAdded)) :=
    { alive := core.alive, kinds := hkinds, okNone := core.okNone, okAdded := hokA }
  obtain ⟨e, w, c⟩ := callTrait_added E (addH st.h o fs n tagged d) o n _ st.H [] hl hwf
  -- the `trait_added` maintainers on `o.trait_added` are the `named` nodes reached on `o`
  have hcounts : ∀ q, (maKeys (st.H.get (.trait o nTraitAdded))).countP (fun a => a.equals q) =
      (addedKeysF st.h o regs).countP (fun a => a.equals q) := by
    intro q
    by_cases hq : ∃ c0 k0, q = .maint .added c0 k0
    · obtain ⟨c0, k0, rfl⟩ := hq
      rw [← cntList_eq_countP_a, addedKeysF_countP]
      have := hcnt (.trait o nTraitAdded) (.maint .added c0 k0)
      unfold cnt at this
      rw [this]
      unfold specCnt
      exact sum_map_congr _ _ _ (fun r hr =>
        added_atF st.h o fs core.ho r.k r.g (some r.x) c0 k0)
    · have hq' : ∀ c k, q ≠ .maint .added c k := fun c k e => hq ⟨c, k, e⟩
      rw [countP_zero_of_shape_a _ q (fun a ha => by obtain ⟨c, k, e, _⟩ := maKeys_shape _ a ha; exact ⟨c, k, e⟩) hq',
        countP_zero_of_shape_a _ q
          (fun a ha => by obtain ⟨r, _, c, _, e⟩ := addedKeysF_shape _ _ _ a ha; exact ⟨c, r.k, e⟩) hq']
  have hmatch : ∀ o' q, effSumA (addG (addH st.h o fs n tagged d) o n o' q) (st.H.get (.trait o nTraitAdded)) =
      (regs.map (fun r => deltaF o n ⟨n, tagged, d, .unset, .equality⟩ r.k (nodesAtF st.h o r.g (some r.x)) o' q)).sum := by
    intro o' q
    rw [effSumA_eq_keys, sum_deltaF_eq_keys R]
    apply sum_eq_of_equiv_counts _ _ _ hcounts
    intro a ha b hb hab
    obtain ⟨g, k, rfl, hm⟩ := maKeys_shape _ a ha
    obtain ⟨r, hr, g', hg', rfl⟩ := addedKeysF_shape _ _ _ b hb
    obtain ⟨rfl, rfl⟩ := core.eqStruct g k hm r hr g' hg' hab
    rfl
  have hm : mutate E st (.addTrait o n tagged d) =
      fire E st.H (addH st.h o fs n tagged d) o nTraitAdded .undef (.name n) := by
    simp only [mutate, core.ho, hn, addH]
  rw [hm]
  simp only [fire]
  refine ⟨⟨w, ?_⟩, e⟩
  intro o' q
  rw [c o' q, hmatch, hcnt]
  unfold specCnt
  rw [← sum_map_add]
  exact (sum_map_congr _ _ _ (fun r hr =>
    add_decF R r.k r.g true (some r.x) o' q)).symm



/-! ### non-vacuity witness

`a.child = b`; `a.observe(handler, "child.*")`: a notifying `filtered anyTrait` node on `b`;
then `b.add_trait("value", …)`: the new trait matches `*` and gets the user notifier. -/
namespace FilteredAddWitness

def fld (n : Name) (v : Val) : Field := ⟨n, false, .val (if n == nValue then .int 0 else .none), v, .equality⟩
def aKey : HKey := ⟨0, 0⟩
def aFs : List Field := [fld nChild .none, fld nTraitAdded .unset]
def aHeap : Heap := [(0, .inst [fld nChild (.ref 1), fld nTraitAdded .unset]), (1, .inst aFs)]
def aGraph : Graph := .node (.named nChild true false) [.node (.filtered .anyTrait true) []]
def aSt : St := ⟨aHeap, (addRemove aHeap aKey false true aGraph (some 0) Hooks.empty).H⟩
def aRegs : List Reg := [⟨aKey, aGraph, 0⟩]

theorem aInv : HooksEqReach aSt.h aSt.H aRegs := by
  have hok : (addRemove aHeap aKey false true aGraph (some 0) Hooks.empty).err = none := by decide
  obtain ⟨_, hc, hw⟩ := addRemove_add aHeap aKey aGraph true (some 0) Hooks.empty hok
  refine ⟨hw WF_empty, ?_⟩
  intro o q
  show cnt (addRemove aHeap aKey false true aGraph (some 0) Hooks.empty).H o q = _
  rw [hc]
  simp [specCnt, cnt, Hooks.empty, cntList, aRegs, aSt]

theorem aHooks : aSt.H.get (.trait 1 nTraitAdded) =
    [.user aKey 1, .maint .added (.node (.filtered .anyTrait true) []) aKey] := rfl
theorem aNodes : nodesAtF aSt.h 1 aGraph (some 0) = [.node (.filtered .anyTrait true) []] := rfl

theorem aCore : AddCoreF {} aSt aRegs 1 nValue false (.val (.int 0)) aFs where
  ho := rfl
  alive := fun _ => rfl
  okNone := by intro c k hm; rw [aHooks] at hm; simp at hm
  eqStruct := by
    intro g k hm r hr g' hg' he
    rw [aHooks] at hm
    simp at hm
    obtain ⟨rfl, rfl⟩ := hm
    simp [aRegs] at hr; subst hr
    rw [aNodes] at hg'
    simp at hg'; subst hg'
    exact ⟨rfl, rfl⟩

example : HooksEqReach (mutate {} aSt (.addTrait 1 nValue false (.val (.int 0)))).st.h
    (mutate {} aSt (.addTrait 1 nValue false (.val (.int 0)))).st.H aRegs :=
  (addTrait_preservesF {} aSt aRegs 1 nValue false (.val (.int 0)) aFs aInv aCore rfl).1

/-- the new trait is hooked by the `*` node, and a later `b.value = 4` is delivered once -/
example : cnt aSt.H (.trait 1 nValue) (.user aKey) = 0 ∧
    cnt (mutate {} aSt (.addTrait 1 nValue false (.val (.int 0)))).st.H (.trait 1 nValue) (.user aKey) = 1 ∧
    ((mutate {} (mutate {} aSt (.addTrait 1 nValue false (.val (.int 0)))).st
      (.setField 1 nValue (.int 4) 0)).delivered.filter (fun d => d.key == aKey)).length = 1 := by decide

end FilteredAddWitness

end TraitsVerif.Model.Obs
