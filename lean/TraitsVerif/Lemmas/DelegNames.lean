/-
Naming rules of deferred traits: the attribute a forwarder listens to is the attribute reads and
writes go to (the lemma that finding F5 falsified on the unfixed tree).
-/
import TraitsVerif.Model.Delegate
namespace TraitsVerif.Model.Deleg

/-- Names the rules are stated for: non-empty and not ending in an asterisk (identifiers). -/
def GoodName (n : Name) : Prop := n ≠ [] ∧ n.getLast? ≠ some '*'

theorem getLast?_append_of_ne_nil {α} (a b : List α) (h : b ≠ []) : (a ++ b).getLast? = b.getLast? := by
  cases b with
  | nil => exact absurd rfl h
  | cons x xs =>
    rw [List.getLast?_append]
    cases h' : (x :: xs).getLast? with
    | none => simp at h'
    | some y => simp

theorem dropLast_append_getLast? {α} (l : List α) (x : α) (h : l.getLast? = some x) :
    l.dropLast ++ [x] = l := by
  obtain ⟨ys, rfl⟩ := List.getLast?_eq_some_iff.mp h
  simp

/-- `Delegate.__init__` classifies a prefix by these four shapes. -/
theorem mkDelegate_cases (raw : Name) (m : Bool) :
    (raw = [] ∧ mkDelegate raw m = ⟨raw, raw, .name, m⟩) ∨
    (raw ≠ [] ∧ raw.getLast? ≠ some '*' ∧ mkDelegate raw m = ⟨raw, raw, .prefix, m⟩) ∨
    (raw.getLast? = some '*' ∧ raw.dropLast ≠ [] ∧ mkDelegate raw m = ⟨raw, raw.dropLast, .prefixName, m⟩) ∨
    (raw = ['*'] ∧ mkDelegate raw m = ⟨raw, [], .className, m⟩) := by
  unfold mkDelegate
  by_cases h0 : raw = []
  · left; simp [h0]
  · by_cases h1 : raw.getLast? = some '*'
    · by_cases h2 : raw.dropLast = []
      · right; right; right
        have := dropLast_append_getLast? raw '*' h1
        rw [h2] at this
        simp at this
        subst this
        simp
      · right; right; left
        simp [h0, h1, h2]
    · right; left
      simp [h0, h1]

/-- **`listenedName = targetName`** for every prefix as given to `DelegatesTo` / `PrototypedFrom`, every
class (with or without `__prefix__`) and every identifier-like attribute name. -/
theorem listenedName_eq_targetName (raw : Name) (m : Bool) (clsPfx : Option Name) (n : Name) (hn : GoodName n) :
    listenedName clsPfx n (mkDelegate raw m) = targetName clsPfx n (mkDelegate raw m) := by
  obtain ⟨hne, hlast⟩ := hn
  rcases mkDelegate_cases raw m with ⟨h0, hd⟩ | ⟨h0, h1, hd⟩ | ⟨h1, h2, hd⟩ | ⟨h0, hd⟩
  · subst h0
    simp [listenedName, targetName, attrName, hd, delegatePattern, traitDelegateName, hlast]
  · simp [listenedName, targetName, attrName, hd, delegatePattern, traitDelegateName, h0, h1]
  · have hlen : raw.length > 1 := by
      have h3 := dropLast_append_getLast? raw '*' h1
      have h4 : raw.dropLast.length > 0 := List.length_pos_iff.mpr h2
      have h5 : (raw.dropLast ++ ['*']).length = raw.length := by rw [h3]
      rw [List.length_append] at h5
      simp only [List.length_cons, List.length_nil] at h5
      omega
    have hne0 : raw ≠ [] := by intro h; simp [h] at h1
    have hl2 : (raw.dropLast ++ n).getLast? ≠ some '*' := by
      rw [getLast?_append_of_ne_nil _ _ hne]; exact hlast
    simp only [listenedName, targetName, attrName, hd, delegatePattern, traitDelegateName, hne0, hlen, h1,
      if_false, and_self, if_true, hl2]
  · subst h0
    simp [listenedName, targetName, attrName, hd, delegatePattern, traitDelegateName]

end TraitsVerif.Model.Deleg
