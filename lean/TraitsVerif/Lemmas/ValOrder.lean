/-
Evaluation order of a compound: the descriptor `TraitCompound.set_validate`
builds makes `validate_trait_complex` try the alternatives that have a fast
validator in declaration order (a nested compound in place, as a unit), then the
`None` of Either(…, None), then the alternatives without a fast validator — and
the result is that of the first one that does not say TraitError, exactly what
the alternative gives on its own.
-/
import TraitsVerif.Lemmas.ValAgree
namespace TraitsVerif.Model.Val
open TraitsVerif TraitsVerif.Py.Value

variable (E : Env)

/-- Alternatives with a `fast_validate`, in declaration order. -/
def fastAlts (alts : List TraitType) : List TraitType := alts.filter (fun t => (descOf E t).isSome)
/-- Alternatives without one (`slow_validates`), in declaration order. -/
def slowAlts (alts : List TraitType) : List TraitType := alts.filter (fun t => !(descOf E t).isSome)

theorem firstAccept_cons (r : Res) (rs : List Res) :
    firstAccept (r :: rs) = match r with
      | .traitError => firstAccept rs
      | r => r := by
  cases r <;> simp [firstAccept]

theorem firstAccept_single (r : Res) : firstAccept [r] = r := by
  cases r <;> simp [firstAccept]

theorem firstAccept_append_congr {a a' b b' : List Res} (h1 : firstAccept a = firstAccept a')
    (h2 : firstAccept b = firstAccept b') : firstAccept (a ++ b) = firstAccept (a' ++ b') := by
  rw [firstAccept_append, firstAccept_append, h1, h2]

theorem altAlone_of_isAlt (d : Desc) (v : Val) (h : d.isAlt = true) : altAlone E d v = fastAlone E d v := by
  cases d <;> simp [Desc.isAlt] at h <;> rfl

theorem flat_first (hE : CastIdem E) (alts : List TraitType) (v : Val) :
    firstAccept ((flatFast E alts).map (altAlone E · v)) =
      firstAccept ((fastAlts E alts).map (ctraitValidate E · v)) := by
  induction alts with
  | nil => simp [flatFast, fastAlts]
  | cons t ts ih =>
    cases hd : descOf E t with
    | none =>
      have : fastAlts E (t :: ts) = fastAlts E ts := by simp [fastAlts, hd]
      simpa [flatFast, hd, this] using ih
    | some d =>
      have hfa : fastAlts E (t :: ts) = t :: fastAlts E ts := by simp [fastAlts, hd]
      have hct : ctraitValidate E t v = fastAlone E d v := by simp [ctraitValidate, ctraitValidateWith, hd]
      rw [hfa, List.map_cons, firstAccept_cons, hct]
      rcases (agreeP_all E hE t).1 d hd with ha | ⟨ds, rfl, hds, _⟩
      · have hflat : flatFast E (t :: ts) = d :: flatFast E ts := by
          cases d <;> simp [Desc.isAlt] at ha <;> simp [flatFast, hd]
        rw [hflat, List.map_cons, firstAccept_cons, altAlone_of_isAlt E d v ha, ih]
      · have hflat : flatFast E (t :: ts) = ds ++ flatFast E ts := by simp [flatFast, hd]
        rw [hflat, List.map_append, firstAccept_append, ← fastComplex_first E ds v hds, ih]
        simp only [fastAlone]
        cases fastComplex E ds v <;> rfl

theorem pySel_false_first (alts : List TraitType) (v : Val) :
    pySel E false alts v = firstAccept ((slowAlts E alts).map (ctraitValidate E · v)) := by
  induction alts with
  | nil => simp [pySel, slowAlts, firstAccept]
  | cons t ts ih =>
    cases hd : descOf E t with
    | some d =>
      have : slowAlts E (t :: ts) = slowAlts E ts := by simp [slowAlts, hd]
      simp [pySel, hd, this, ih]
    | none =>
      have hs : slowAlts E (t :: ts) = t :: slowAlts E ts := by simp [slowAlts, hd]
      have hct : ctraitValidate E t v = (if hasPy t then pyValidate E t v else .ok v) := by
        simp [ctraitValidate, ctraitValidateWith, hd]
      rw [hs, List.map_cons, firstAccept_cons, hct]
      simp only [pySel, hd, Option.isSome_none, beq_self_eq_true, if_true, ih, Bool.false_or]
      cases (if hasPy t = true then pyValidate E t v else Res.ok v) <;> rfl

/-- The descriptor of Either(alts[, None]), when it has one. -/
theorem descOf_either_eq (alts : List TraitType) (wn : Bool) (d : Desc)
    (hd : descOf E (.either alts wn) = some d) :
    d = .complex (flatFast E alts ++ ((if wn then [Desc.enum [Val.none]] else []) ++
      (if anySlow E alts then [Desc.slow (fun v => pySel E false alts v)] else []))) := by
  simp only [descOf] at hd
  cases hf : flatFast E alts ++ (if wn then [Desc.enum [Val.none]] else []) with
  | nil => simp [hf] at hd
  | cons x xs =>
    simp only [hf] at hd
    simp only [Option.some.injEq] at hd
    rw [← hd, ← hf, List.append_assoc]

theorem either_first (hE : CastIdem E) (alts : List TraitType) (wn : Bool) (d : Desc) (v : Val)
    (hd : descOf E (.either alts wn) = some d) :
    fastAlone E d v = firstAccept (
      (fastAlts E alts).map (ctraitValidate E · v) ++
      ((if wn then [fastAlone E (.enum [Val.none]) v] else []) ++
       (slowAlts E alts).map (ctraitValidate E · v))) := by
  rw [descOf_either_eq E alts wn d hd]
  have hshape := (agreeP_all E hE (.either alts wn)).1 d hd
  rw [descOf_either_eq E alts wn d hd] at hshape
  rcases hshape with ha | ⟨ds, hds, hent, _⟩
  · simp [Desc.isAlt] at ha
  · cases hds
    simp only [fastAlone]
    rw [fastComplex_first E _ v hent, List.map_append, List.map_append]
    apply firstAccept_append_congr (flat_first E hE alts v)
    apply firstAccept_append_congr
    · cases wn <;> simp [altAlone, fastAlone]
    · rw [← pySel_false_first E alts v]
      by_cases ha : anySlow E alts = true
      · simp [ha, altAlone, firstAccept_single]
      · have ha' : anySlow E alts = false := by simpa using ha
        simp [ha', firstAccept, pySel_false_of_not_anySlow E alts v ha']

end TraitsVerif.Model.Val
