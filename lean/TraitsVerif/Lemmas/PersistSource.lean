/-
The hand-written persistence functions of `Model/Persist` are the
interpretation (`Model/PyPersist`) of the translated source
(`Generated/PersistProg.lean`).  Symbolic execution of the interpreter by
`simp` after the case splits the model makes; the `for name in traits:` loops of
`copy_traits` by induction on the slots.
-/
import TraitsVerif.Generated.PersistProg
import TraitsVerif.Model.PyPersistC
import TraitsVerif.Lemmas.PersistClone
set_option linter.unusedSimpArgs false
set_option linter.unusedVariables false
namespace TraitsVerif.Lemmas.PersistSource
open TraitsVerif TraitsVerif.Model.Persist TraitsVerif.Model.PyP TraitsVerif.Generated.PersistProg

/-- All `for` loops of a statement, in source order. -/
def forLoops : Stmt → List (Nat × Expr × Stmt)
  | .seq a b => forLoops a ++ forLoops b
  | .ifS _ t e => forLoops t ++ forLoops e
  | .forS i it body => [(i, it, body)]
  | .tryS a b => forLoops a ++ forLoops b
  | _ => []

def copyTraitsFn : Func := (lookupFn "copy_traits" hasTraitsProg).getD ⟨[], false, 0, .skip⟩

/-- The body of the main loop of `copy_traits`. -/
def mainBody : Stmt := ((forLoops copyTraitsFn.body)[0]?.getD (0, .noneLit, .skip)).2.2

/-- The `copy` argument as a Python value. -/
def argVal : Option CopyMode → Val
  | none => .none
  | some m => .str (modeStr m)

/-- The frame of `copy_traits` inside its loops. -/
def ctFrame (tv mv : Val) (arg : Option CopyMode) (un : List String) (x10 x11 x12 x13 x14 : Option Val) : Frame :=
  [some (.obj true), some (.obj false), some tv, some mv, some (argVal arg), some .kwMeta,
   some (.nameList un), some (.nameList []), some (.bool (decide (arg = some .deep))),
   some (.bool (decide (arg = some .shallow))), x10, x11, x12, x13, x14]

/-- One iteration of the loop of `copy_traits` as `cloneSlot` sees it (the slot is selected). -/
def iterModel (E : Env) (oS oD : Nat) (arg : Option CopyMode) (n : Nat) (a : Slot) : Slot × Slot × Nat :=
  let dst : Slot := ⟨a.decl, none⟩
  if a.decl.kind = .event then (dst, a, n)
  else
    let r := readSlot E oS n a
    match copyValue E (effMode a.decl.copy arg) r.2.2 r.1 with
    | .error _ => (dst, r.2.1, r.2.2)
    | .ok (v, n1) =>
      match assignSlot E oD n1 dst v with
      | .error _ => (dst, r.2.1, n1)
      | .ok (dst', n2) => (dst', r.2.1, n2)

/-- Does the iteration end in the bare `except:` (the slot is selected)? -/
def iterFails (E : Env) (oS oD : Nat) (arg : Option CopyMode) (n : Nat) (a : Slot) : Bool :=
  if a.decl.kind = .event then false
  else
    match copyValue E (effMode a.decl.copy arg) (readSlot E oS n a).2.2 (readSlot E oS n a).1 with
    | .error _ => true
    | .ok (v, n1) =>
      match assignSlot E oD n1 ⟨a.decl, none⟩ v with
      | .error _ => true
      | .ok _ => false

/-- The frame of `copy_traits` with `unassignable = un`. -/
def FrameOK (tv mv : Val) (arg : Option CopyMode) (un : List String) (vars : Frame) : Prop :=
  ∃ x10 x11 x12 x13 x14, vars = ctFrame tv mv arg un x10 x11 x12 x13 x14

macro "pyp_exec" "[" ts:Lean.Parser.Tactic.simpLemma,* "]" : tactic =>
  `(tactic| simp [execB, callB, eval, evalAll, FS.ctx, getVar, attrOf, objMethod, cmpVals, doGetattr, doSetattr,
      doCopy, doAppend, modeStr, argVal, ctFrame, Val.asObj, Val.asStr, Val.asBool, Val.asName, Val.asValue,
      Val.asNameList, Val.isNone, Val.isMemo, Val.asNames, Expr.asVar, copyValue, effMode, $ts,*])

/-- The main loop body, as a literal. -/
theorem mainBody_unfold : ∃ b, mainBody = b ∧ (forLoops copyTraitsFn.body).length = 2 := by
  refine ⟨_, rfl, ?_⟩
  simp [copyTraitsFn, hasTraitsProg, lookupFn, forLoops]

local macro "fin_ref" E:ident oS:ident oD:ident n:ident a:ident "[" ts:Lean.Parser.Tactic.simpLemma,* "]" : tactic =>
  `(tactic| (rcases has : assignSlot $E $oD (readSlot $E $oS $n $a).2.2 ⟨($a).decl, none⟩ (readSlot $E $oS $n $a).1
      with e | ⟨d', n2⟩ <;> pyp_exec [iterModel, iterFails, FrameOK, has, $ts,*]))

local macro "fin_sh" E:ident oS:ident oD:ident n:ident a:ident "[" ts:Lean.Parser.Tactic.simpLemma,* "]" : tactic =>
  `(tactic| (match hcv : shallowV $E (readSlot $E $oS $n $a).2.2 (readSlot $E $oS $n $a).1 with
      | .error e => pyp_exec [iterModel, iterFails, FrameOK, hcv, $ts,*]
      | .ok (v', n') =>
        rcases has : assignSlot $E $oD n' ⟨($a).decl, none⟩ v' with e | ⟨d', n2⟩ <;>
          pyp_exec [iterModel, iterFails, FrameOK, hcv, has, $ts,*]))

local macro "fin_dp" E:ident oS:ident oD:ident n:ident a:ident "[" ts:Lean.Parser.Tactic.simpLemma,* "]" : tactic =>
  `(tactic| (match hcv : deepcopyV (readSlot $E $oS $n $a).2.2 (readSlot $E $oS $n $a).1 with
      | .error e => pyp_exec [iterModel, iterFails, FrameOK, hcv, $ts,*]
      | .ok (v', n') =>
        rcases has : assignSlot $E $oD n' ⟨($a).decl, none⟩ v' with e | ⟨d', n2⟩ <;>
          pyp_exec [iterModel, iterFails, FrameOK, hcv, has, $ts,*]))

set_option maxHeartbeats 4000000 in
theorem body_spec (E : Env) (oS oD : Nat) (arg : Option CopyMode) (tv mv : Val) (hmv : mv = .none ∨ mv = .memo)
    (a : Slot) (hk : a.decl.kind ≠ .property) (n : Nat) (memo : List (String × Val))
    (un : List String) (nm : String) (x11 x12 x13 x14 : Option Val) :
    let r := execB E oS oD mainBody ⟨a, ⟨a.decl, none⟩, n, ctFrame tv mv arg un (some (.name nm)) x11 x12 x13 x14, memo⟩
    (r.1 = .next ∨ r.1 = .cont) ∧ r.2.b = (iterModel E oS oD arg n a).1 ∧ r.2.a = (iterModel E oS oD arg n a).2.1 ∧
      r.2.n = (iterModel E oS oD arg n a).2.2 ∧
      FrameOK tv mv arg (un ++ if iterFails E oS oD arg n a then [nm] else []) r.2.vars ∧ r.2.memo = memo := by
  intro r
  have hb : ∃ b, mainBody = b := ⟨_, rfl⟩
  obtain ⟨body, hbody⟩ := hb
  have hbody' := hbody
  simp [mainBody, copyTraitsFn, hasTraitsProg, lookupFn, forLoops] at hbody'
  simp only [r, hbody]
  subst hbody'
  have hev : ∀ k, a.decl.kind = k → k ≠ .event → k ≠ .property → typeStr k = "trait" := by
    intro k _ h1 h2; cases k <;> simp_all [typeStr]
  by_cases hke : a.decl.kind = .event
  · pyp_exec [iterModel, iterFails, FrameOK, hke, typeStr]
  · have hts : typeStr a.decl.kind = "trait" := hev _ rfl hke hk
    rcases hcp : a.decl.copy with _ | cm
    · rcases arg with _ | am
      · fin_ref E oS oD n a [hke, hts, hcp]
      · cases am
        · fin_ref E oS oD n a [hke, hts, hcp]
        · fin_sh E oS oD n a [hke, hts, hcp]
        · rcases hmv with rfl | rfl
          · fin_dp E oS oD n a [hke, hts, hcp]
          · fin_dp E oS oD n a [hke, hts, hcp]
    · cases cm
      · fin_ref E oS oD n a [hke, hts, hcp]
      · fin_sh E oS oD n a [hke, hts, hcp]
      · rcases hmv with rfl | rfl
        · fin_dp E oS oD n a [hke, hts, hcp]
        · fin_dp E oS oD n a [hke, hts, hcp]

theorem cloneSlot_iter (E : Env) (oS oD : Nat) (arg : Option CopyMode) (all : Bool) (p : Decl → Bool)
    (hp : ∀ d, (d.copyable || (all && d.kind != .event)) = (p d && d.kind != .event)) (n : Nat) (a : Slot) :
    cloneSlot E oS oD arg all n a = if p a.decl then iterModel E oS oD arg n a else (⟨a.decl, none⟩, a, n) := by
  unfold cloneSlot iterModel
  rw [hp a.decl]
  by_cases h1 : p a.decl = true <;> by_cases h2 : a.decl.kind = .event <;> simp [h1, h2]
  rcases hcv : copyValue E (effMode a.decl.copy arg) (readSlot E oS n a).2.2 (readSlot E oS n a).1 with e | ⟨v, n1⟩
  · simp
  · rcases has : assignSlot E oD n1 ⟨a.decl, none⟩ v with e | ⟨d', n2⟩ <;> simp [has]

theorem cloneSlotFails_iter (E : Env) (oS oD : Nat) (arg : Option CopyMode) (all : Bool) (p : Decl → Bool)
    (hp : ∀ d, (d.copyable || (all && d.kind != .event)) = (p d && d.kind != .event)) (n : Nat) (a : Slot) :
    cloneSlotFails E oS oD arg all n a = if p a.decl then iterFails E oS oD arg n a else false := by
  unfold cloneSlotFails iterFails
  rw [hp a.decl]
  by_cases h1 : p a.decl = true <;> by_cases h2 : a.decl.kind = .event <;> simp [h1, h2]
  rcases hcv : copyValue E (effMode a.decl.copy arg) (readSlot E oS n a).2.2 (readSlot E oS n a).1 with e | ⟨v, n1⟩
  · simp
  · rcases has : assignSlot E oD n1 ⟨a.decl, none⟩ v with e | ⟨d', n2⟩ <;> simp [has]

theorem loop_spec (E : Env) (oS oD : Nat) (arg : Option CopyMode) (tv mv : Val) (hmv : mv = .none ∨ mv = .memo)
    (all : Bool) (p : Decl → Bool)
    (hp : ∀ d, (d.copyable || (all && d.kind != .event)) = (p d && d.kind != .event)) (memo : List (String × Val)) :
    ∀ (src : List Slot), (∀ sl ∈ src, sl.decl.kind ≠ .property) → ∀ (n : Nat) (un : List String) (vars : Frame),
      FrameOK tv mv arg un vars →
      (loopB E oS oD mainBody 10 p memo src (src.map fun sl => ⟨sl.decl, none⟩) n vars).1 = .next ∧
      (loopB E oS oD mainBody 10 p memo src (src.map fun sl => ⟨sl.decl, none⟩) n vars).2.1 =
        (cloneL E oS oD arg all n src).2.1 ∧
      (loopB E oS oD mainBody 10 p memo src (src.map fun sl => ⟨sl.decl, none⟩) n vars).2.2.1 =
        (cloneL E oS oD arg all n src).1 ∧
      (loopB E oS oD mainBody 10 p memo src (src.map fun sl => ⟨sl.decl, none⟩) n vars).2.2.2.1 =
        (cloneL E oS oD arg all n src).2.2 ∧
      FrameOK tv mv arg (un ++ cloneUnassignable E oS oD arg all n src)
        (loopB E oS oD mainBody 10 p memo src (src.map fun sl => ⟨sl.decl, none⟩) n vars).2.2.2.2 := by
  intro src
  induction src with
  | nil => intro _ n un vars hf; simp [loopB, cloneL, cloneUnassignable, hf]
  | cons a as ih =>
    intro hnd n un vars hf
    have hka : a.decl.kind ≠ .property := hnd a (List.mem_cons_self)
    have hnd' : ∀ sl ∈ as, sl.decl.kind ≠ .property := fun sl h => hnd sl (List.mem_cons_of_mem _ h)
    simp only [List.map_cons, loopB, cloneL, cloneUnassignable, cloneSlot_iter E oS oD arg all p hp,
      cloneSlotFails_iter E oS oD arg all p hp]
    by_cases hpa : p a.decl = true
    · obtain ⟨x10, x11, x12, x13, x14, rfl⟩ := hf
      have hset : (ctFrame tv mv arg un x10 x11 x12 x13 x14).set 10 (some (.name a.decl.name)) =
          ctFrame tv mv arg un (some (.name a.decl.name)) x11 x12 x13 x14 := rfl
      have hb := body_spec E oS oD arg tv mv hmv a hka n memo un a.decl.name x11 x12 x13 x14
      simp only [hpa, if_true, hset]
      rcases hex : execB E oS oD mainBody ⟨a, ⟨a.decl, none⟩, n,
        ctFrame tv mv arg un (some (.name a.decl.name)) x11 x12 x13 x14, memo⟩ with ⟨f, s'⟩
      simp only [hex] at hb
      obtain ⟨hfl, h1, h2, h3, h4, h5⟩ := hb
      have ih' := ih hnd' s'.n _ s'.vars h4
      rw [h3] at ih'
      obtain ⟨i1, i2, i3, i4, i5⟩ := ih'
      rw [List.append_assoc] at i5
      rcases hfl with rfl | rfl <;> simp [h1, h2, h3, i1, i2, i3, i4, i5]
    · have hpa' : p a.decl = false := by simpa using hpa
      have ih' := ih hnd' n un vars hf
      simp [hpa', ih']

theorem loopB_none (E : Env) (oS oD : Nat) (body : Stmt) (i : Nat) (p : Decl → Bool) (hp : ∀ d, p d = false)
    (memo : List (String × Val)) :
    ∀ (src dst : List Slot) (n : Nat) (vars : Frame),
      loopB E oS oD body i p memo src dst n vars = (.next, src, dst, n, vars) := by
  intro src
  induction src with
  | nil => intro dst n vars; simp [loopB]
  | cons a as ih =>
    intro dst n vars
    cases dst with
    | nil => simp [loopB]
    | cons b bs => simp [loopB, hp, ih]

/-! ## `__getstate__` / `__reduce_ex__` / `__setstate__` -/

theorem mergeState_none : ∀ (xs : List (Option CVal)) (l : List Slot),
    mergeState xs (l.map fun _ => (none : Option CVal)) = xs := by
  intro xs
  induction xs with
  | nil => intro l; cases l <;> simp [mergeState]
  | cons x xs ih => intro l; cases l <;> simp [mergeState, ih]

/-- Run a translated `HasTraits` method (no calls of other translated methods). -/
def runMethod (E : Env) (oS oD : Nat) (H : Handler) (m : String) (self : Val) (args : List Val) (kwn : List String)
    (kwv : List Val) (s : TS) : Option (Except Exc Val × TS) :=
  match lookupFn m hasTraitsProg with
  | some f => runFn E oS oD H f self args kwn kwv s
  | none => none

macro "pyt_exec" "[" ts:Lean.Parser.Tactic.simpLemma,* "]" : tactic =>
  `(tactic| simp [runMethod, hasTraitsProg, lookupFn, runFn, bindParams, kwLookup, evalDefault, execT, callT, objCall,
      stateCall, eval, evalAll, TS.ctx, getVar, attrOf, objMethod, memoMethod, cmpVals, builtin1, lifecycle,
      nameDicPair, nameInDic, reduceTriple, Val.asObj, Val.asStr, Val.asBool, Val.asName, Val.asValue, Val.asGlob,
      Val.asState, Val.asMethod, Val.asDictOf, Val.asNameList, Val.isNone, Val.isMemo, Val.isMeta, Val.isCls,
      Val.asNames, Val.asInt, Expr.asVar, Expr.asGlob, mergeState_none, $ts,*])

/-- `obj.__getstate__()` of the translated source is `getstateL` (plus the version mark). -/
theorem getstate_is_source (E : Env) (o oD n : Nat) (slots dst : List Slot) (memo : List (String × Val))
    (log : List String) (vars : Frame) :
    runMethod E o oD noHandler "__getstate__" (.obj false) [] [] [] ⟨slots, dst, n, vars, memo, log⟩ =
      some (.ok (.state (getstateL E o n slots).1 true),
        ⟨(getstateL E o n slots).2.1, dst, (getstateL E o n slots).2.2, vars, memo, log⟩) := by
  pyt_exec []

/-- The life-cycle calls `__setstate__` makes on the restored object, in order (Traits 3 state). -/
def setstateLog : List String :=
  ["_init_trait_listeners", "_init_trait_observers", "trait_set", "_post_init_trait_listeners",
   "_post_init_trait_observers", "traits_init", "_trait_set_inited"]

/-- `new.__setstate__(state)` of the translated source, for a state that carries the version mark (every state
`__getstate__` returns does), is `setstateL`; when an assignment raises, the exception leaves `__setstate__` and
`_trait_set_inited` has not been called. -/
theorem setstate_is_source (E : Env) (oS o' n : Nat) (src dst : List Slot) (xs : List (Option CVal))
    (memo : List (String × Val)) (vars : Frame) :
    runMethod E oS o' noHandler "__setstate__" (.obj true) [.state xs true] [] [] ⟨src, dst, n, vars, memo, []⟩ =
      match setstateL E o' n dst xs with
      | .error e => some (.error e, ⟨src, dst, n, vars, memo, setstateLog.take 3⟩)
      | .ok (d', n') => some (.ok .none, ⟨src, d', n', vars, memo, setstateLog⟩) := by
  cases h : setstateL E o' n dst xs with
  | error e => pyt_exec [h, setstateLog]
  | ok r => obtain ⟨d', n'⟩ := r; pyt_exec [h, setstateLog]

/-- `obj.__reduce_ex__(protocol)`: the state is the one `__getstate__` (the translated one, called through the
handler) returns. -/
theorem reduce_is_source (E : Env) (o oD n pr : Nat) (slots dst : List Slot) (memo : List (String × Val))
    (log : List String) (vars : Frame) :
    runMethod E o oD (progHandler E o oD hasTraitsProg noHandler) "__reduce_ex__" (.obj false) [.int pr] [] []
        ⟨slots, dst, n, vars, memo, log⟩ =
      some (.ok (.state (getstateL E o n slots).1 true),
        ⟨(getstateL E o n slots).2.1, dst, (getstateL E o n slots).2.2, vars, memo, log⟩) := by
  pyt_exec [progHandler]

/-! ## `clone_traits` / `__deepcopy__`: whole functions, `copy_traits` called through the handler -/

theorem cloneL_skip (E : Env) (oS oD : Nat) (arg : Option CopyMode) :
    ∀ (slots : List Slot) (n : Nat), (∀ sl ∈ slots, sl.decl.copyable = false) →
      cloneL E oS oD arg false n slots = (slots.map fun sl => ⟨sl.decl, none⟩, slots, n) := by
  intro slots
  induction slots with
  | nil => intro n _; simp [cloneL]
  | cons a as ih =>
    intro n h
    have ha := h a List.mem_cons_self
    have := ih n (fun sl hs => h sl (List.mem_cons_of_mem _ hs))
    simp [cloneL, cloneSlot, ha, this]

/-- The methods `clone_traits` calls on the new object when some trait is copyable. -/
def cloneLog : List String :=
  ["_init_trait_listeners", "_init_trait_observers", "copy_traits", "_post_init_trait_listeners",
   "_post_init_trait_observers", "traits_init", "_trait_set_inited"]

set_option maxHeartbeats 4000000 in
theorem clone_gen (E : Env) (s : Obj) (o' n : Nat) (arg : Option CopyMode)
    (hnd : ∀ sl ∈ s.slots, sl.decl.kind ≠ .property) (kwn : List String) (kwv : List Val) (m0 : List (String × Val))
    (hcall : (kwn = ["copy"] ∧ kwv = [argVal arg] ∧ m0 = []) ∨
      (kwn = ["memo", "traits", "copy"] ∧ kwv = [.memo, .none, argVal arg] ∧ m0 = []) ∨
      (kwn = ["memo", "traits", "copy"] ∧ kwv = [.memo, .none, argVal arg] ∧ m0 = [("traits_copy_mode", argVal arg)])) :
    ∃ ts, runMethod E s.oid o' (progHandler E s.oid o' hasTraitsProg noHandler) "clone_traits" (.obj false) []
        kwn kwv ⟨s.slots, [], n, [], m0, []⟩ = some (.ok (.obj true), ts) ∧
      ts.dst = (cloneTraits E s o' arg n).copy.slots ∧ ts.src = (cloneTraits E s o' arg n).orig.slots ∧
      ts.n = (cloneTraits E s o' arg n).next ∧
      ts.log = (if (s.slots.filter (fun sl => sl.decl.copyable)).length = 0 then cloneLog.eraseIdx 2 else cloneLog) ∧
      memoGet ts.memo "traits_copy_mode" = some (argVal arg) := by
  have hb : ∃ b, mainBody = b := ⟨_, rfl⟩
  obtain ⟨body, hbody⟩ := hb
  have hbody' := hbody
  simp [mainBody, copyTraitsFn, hasTraitsProg, lookupFn, forLoops] at hbody'
  by_cases hc : (s.slots.filter (fun sl => sl.decl.copyable)).length = 0
  · have hall : ∀ sl ∈ s.slots, sl.decl.copyable = false := by
      intro sl hs
      cases hcp : sl.decl.copyable with
      | false => rfl
      | true =>
        have : sl ∈ s.slots.filter (fun sl => sl.decl.copyable) := List.mem_filter.mpr ⟨hs, hcp⟩
        rw [List.length_eq_zero_iff.mp hc] at this
        cases this
    have hsk := cloneL_skip E s.oid o' arg s.slots n hall
    rcases hcall with ⟨rfl, rfl, rfl⟩ | ⟨rfl, rfl, rfl⟩ | ⟨rfl, rfl, rfl⟩ <;>
    rcases arg with _ | am <;> (try cases am) <;>
      pyt_exec [progHandler, hc, argVal, modeStr, memoSet, memoGet, cloneTraits, hsk, cloneLog]
  · have hp : ∀ d : Decl, (d.copyable || (false && d.kind != .event)) = (Decl.copyable d && d.kind != .event) := by
      intro d
      cases hk : d.kind <;> cases ht : d.transient <;> simp [Decl.copyable, hk, ht]
    have hex : ∃ x, x ∈ s.slots ∧ x.decl.copyable = true := by
      cases hf : s.slots.filter (fun sl => sl.decl.copyable) with
      | nil => rw [hf] at hc; exact absurd rfl hc
      | cons x xs =>
        have hx : x ∈ s.slots.filter (fun sl => sl.decl.copyable) := by rw [hf]; exact List.mem_cons_self
        exact ⟨x, (List.mem_filter.mp hx).1, (List.mem_filter.mp hx).2⟩
    have hl := loop_spec E s.oid o' arg (.names Decl.copyable) .memo (Or.inr rfl) false Decl.copyable hp
        [("traits_copy_mode", argVal arg), ("#id", .obj true)] s.slots hnd n
        [] (ctFrame (.names Decl.copyable) .memo arg [] none none none none none) ⟨none, none, none, none, none, rfl⟩
    rw [hbody] at hl
    subst hbody'
    obtain ⟨h1, h2, h3, h4, y10, y11, y12, y13, y14, h5⟩ := hl
    rcases hcall with ⟨rfl, rfl, rfl⟩ | ⟨rfl, rfl, rfl⟩ | ⟨rfl, rfl, rfl⟩ <;>
    rcases arg with _ | am <;> (try cases am) <;>
      simp [ctFrame, argVal, modeStr] at h1 h2 h3 h4 h5 <;>
      pyt_exec [progHandler, hc, hex, argVal, modeStr, memoSet, memoGet, cloneTraits, cloneLog, h1, h2, h3, h4, h5,
        loopB_none]

theorem clone_is_source (E : Env) (s : Obj) (o' n : Nat) (arg : Option CopyMode)
    (hnd : ∀ sl ∈ s.slots, sl.decl.kind ≠ .property) :
    ∃ ts, runMethod E s.oid o' (progHandler E s.oid o' hasTraitsProg noHandler) "clone_traits" (.obj false) []
        ["copy"] [argVal arg] ⟨s.slots, [], n, [], [], []⟩ = some (.ok (.obj true), ts) ∧
      ts.dst = (cloneTraits E s o' arg n).copy.slots ∧ ts.src = (cloneTraits E s o' arg n).orig.slots ∧
      ts.n = (cloneTraits E s o' arg n).next ∧
      ts.log = (if (s.slots.filter (fun sl => sl.decl.copyable)).length = 0 then cloneLog.eraseIdx 2 else cloneLog) ∧
      memoGet ts.memo "traits_copy_mode" = some (argVal arg) :=
  clone_gen E s o' n arg hnd _ _ _ (Or.inl ⟨rfl, rfl, rfl⟩)

/-! ## `__deepcopy__` -/

def deepcopyFn : Func := (lookupFn "__deepcopy__" hasTraitsProg).getD ⟨[], false, 0, .skip⟩

theorem progHandler_eq (E : Env) (oS oD : Nat) (H : Handler) (m : String) (r : Bool) (as : List Val)
    (kwn : List String) (kwv : List Val) (s : TS) :
    progHandler E oS oD hasTraitsProg H m r as kwn kwv s = runMethod E oS oD H m (.obj r) as kwn kwv s := rfl

/-- A method replaces the frame and puts the caller's back: the caller's frame does not matter. -/
theorem runMethod_vars (E : Env) (oS oD : Nat) (H : Handler) (m : String) (self : Val) (as : List Val)
    (kwn : List String) (kwv : List Val) (src dst : List Slot) (n : Nat) (v : Frame) (memo : List (String × Val))
    (log : List String) :
    runMethod E oS oD H m self as kwn kwv ⟨src, dst, n, v, memo, log⟩ =
      match runMethod E oS oD H m self as kwn kwv ⟨src, dst, n, [], memo, log⟩ with
      | some (r, t) => some (r, { t with vars := v })
      | none => none := by
  unfold runMethod runFn
  cases lookupFn m hasTraitsProg with
  | none => rfl
  | some f =>
    simp only
    cases bindParams f.params as kwn kwv with
    | none => rfl
    | some ps =>
      simp only
      rcases execT E oS oD H f.body _ with ⟨fl, s'⟩
      cases fl <;> rfl

/-- Where `__deepcopy__` is called from: `none` = `copy.deepcopy(obj)` itself (empty memo); `some a` = on an object
reached while `clone_traits(copy=a)` copies a value deeply (the memo holds the outer mode). -/
def dcMemo : Option (Option CopyMode) → List (String × Val)
  | none => []
  | some a => [("traits_copy_mode", argVal a)]

/-- The `copy` argument `__deepcopy__` hands to `clone_traits`. -/
def dcArg : Option (Option CopyMode) → Option CopyMode
  | none => some .deep
  | some a => a

set_option maxHeartbeats 4000000 in
theorem deepcopy_is_source (E : Env) (s : Obj) (o' n : Nat) (outer : Option (Option CopyMode))
    (hnd : ∀ sl ∈ s.slots, sl.decl.kind ≠ .property) :
    ∃ ts, runFn E s.oid o' (progHandler E s.oid o' hasTraitsProg (progHandler E s.oid o' hasTraitsProg noHandler))
        deepcopyFn (.obj false) [.memo] [] [] ⟨s.slots, [], n, [], dcMemo outer, []⟩ = some (.ok (.obj true), ts) ∧
      ts.dst = (cloneTraits E s o' (dcArg outer) n).copy.slots ∧
      ts.src = (cloneTraits E s o' (dcArg outer) n).orig.slots ∧
      ts.n = (cloneTraits E s o' (dcArg outer) n).next := by
  have hb : ∃ f, deepcopyFn = f := ⟨_, rfl⟩
  obtain ⟨f, hf⟩ := hb
  have hf' := hf
  simp [deepcopyFn, hasTraitsProg, lookupFn] at hf'
  rw [hf]
  subst hf'
  cases outer with
  | none =>
    obtain ⟨ts, hrun, h1, h2, h3, _, _⟩ := clone_gen E s o' n (some .deep) hnd _ _ _ (Or.inr (Or.inl ⟨rfl, rfl, rfl⟩))
    refine ⟨{ ts with vars := [] }, ?_, h1, h2, h3⟩
    simp [argVal, modeStr] at hrun
    simp [runFn, bindParams, execT, callT, objCall, reduceTriple, eval, evalAll,
      TS.ctx, getVar, memoMethod, memoGet, lifecycle, Val.asObj, Val.asStr, Val.isMemo, Expr.asGlob, dcMemo,
      progHandler_eq]
    rw [runMethod_vars, hrun]
  | some a =>
    obtain ⟨ts, hrun, h1, h2, h3, _, _⟩ := clone_gen E s o' n a hnd _ _ _ (Or.inr (Or.inr ⟨rfl, rfl, rfl⟩))
    refine ⟨{ ts with vars := [] }, ?_, h1, h2, h3⟩
    simp [runFn, bindParams, execT, callT, objCall, reduceTriple, eval, evalAll,
      TS.ctx, getVar, memoMethod, memoGet, lifecycle, Val.asObj, Val.asStr, Val.isMemo, Expr.asGlob, dcMemo,
      progHandler_eq]
    rw [runMethod_vars, hrun]

/-- The `traits` argument of a direct call of `copy_traits`. -/
def traitsArg (all : Bool) : Val := if all then .str "all" else .none

set_option maxHeartbeats 4000000 in
/-- `new.copy_traits(other, traits, memo, copy)` - whole function - for `traits=None` / `traits="all"`, `memo`
given or not: the slots are those of `cloneL` and the value returned is `cloneUnassignable`. -/
theorem copyTraits_is_source (E : Env) (oS oD n : Nat) (src : List Slot) (arg : Option CopyMode) (all : Bool)
    (mv : Val) (hmv : mv = .none ∨ mv = .memo) (hnd : ∀ sl ∈ src, sl.decl.kind ≠ .property) :
    ∃ ts, runMethod E oS oD noHandler "copy_traits" (.obj true) [.obj false, traitsArg all, mv, argVal arg] [] []
        ⟨src, src.map fun sl => ⟨sl.decl, none⟩, n, [], [], []⟩ =
          some (.ok (.nameList (cloneUnassignable E oS oD arg all n src)), ts) ∧
      ts.dst = (cloneL E oS oD arg all n src).1 ∧ ts.src = (cloneL E oS oD arg all n src).2.1 ∧
      ts.n = (cloneL E oS oD arg all n src).2.2 ∧
      memoGet ts.memo "traits_to_copy" = (if all && mv.isMemo then some (Val.str "all") else none) := by
  have hb : ∃ b, mainBody = b := ⟨_, rfl⟩
  obtain ⟨body, hbody⟩ := hb
  have hbody' := hbody
  simp [mainBody, copyTraitsFn, hasTraitsProg, lookupFn, forLoops] at hbody'
  have key : ∀ (p : Decl → Bool) (mem : List (String × Val)),
      (∀ d : Decl, (d.copyable || (all && d.kind != .event)) = (p d && d.kind != .event)) → _ :=
    fun p mem hp => loop_spec E oS oD arg (.names p) mv hmv all p hp mem src hnd n
      [] (ctFrame (.names p) mv arg [] none none none none none) ⟨none, none, none, none, none, rfl⟩
  rw [hbody] at key
  subst hbody'
  cases all
  · have hp : ∀ d : Decl, (d.copyable || (false && d.kind != .event)) = (Decl.copyable d && d.kind != .event) := by
      intro d
      cases hk : d.kind <;> cases ht : d.transient <;> simp [Decl.copyable, hk, ht]
    obtain ⟨h1, h2, h3, h4, y10, y11, y12, y13, y14, h5⟩ := key Decl.copyable [] hp
    rcases hmv with rfl | rfl <;> rcases arg with _ | am <;> (try cases am) <;>
      simp [ctFrame, argVal, modeStr] at h1 h2 h3 h4 h5 <;>
      pyt_exec [traitsArg, argVal, modeStr, memoSet, memoGet, h1, h2, h3, h4, h5, loopB_none]
  · have hp : ∀ d : Decl, (d.copyable || (true && d.kind != .event)) = ((fun _ => true) d && d.kind != .event) := by
      intro d
      cases hk : d.kind <;> cases ht : d.transient <;> simp [Decl.copyable, hk, ht]
    rcases hmv with rfl | rfl
    · obtain ⟨h1, h2, h3, h4, y10, y11, y12, y13, y14, h5⟩ := key (fun _ => true) [] hp
      rcases arg with _ | am <;> (try cases am) <;>
        simp [ctFrame, argVal, modeStr] at h1 h2 h3 h4 h5 <;>
        pyt_exec [traitsArg, argVal, modeStr, memoSet, memoGet, h1, h2, h3, h4, h5, loopB_none]
    · obtain ⟨h1, h2, h3, h4, y10, y11, y12, y13, y14, h5⟩ := key (fun _ => true) [("traits_to_copy", .str "all")] hp
      rcases arg with _ | am <;> (try cases am) <;>
        simp [ctFrame, argVal, modeStr] at h1 h2 h3 h4 h5 <;>
        pyt_exec [traitsArg, argVal, modeStr, memoSet, memoGet, h1, h2, h3, h4, h5, loopB_none]

/-! ## The container objects -/

def okDict : Option (Except Exc RS) → Option Rec
  | some (.ok r) => some r.dict
  | _ => none

def okSelf : Option (Except Exc RS) → Option Rec
  | some (.ok r) => r.selfDict
  | _ => none

/-- The translated methods of the container class of each kind. -/
def progOf : Kind → List (String × Func)
  | .lst => traitListObjectProg | .dct => traitDictObjectProg | .st => traitSetObjectProg

/-- What `__getstate__` must return: the instance dictionary without `object` and `trait`. -/
def stateDict : Rec := recDel (recDel containerDict "object") "trait"

theorem container_state (k : Kind) :
    okDict (runRec (progOf k) "__getstate__" containerDict) = some stateDict ∧
    (∃ r, okSelf (runRec (progOf k) "__setstate__" stateDict) = some r ∧ restoredOK r = true ∧
      recGet r "name" = some .kept) ∧
    (∃ r, okSelf (runRec (progOf k) "__setstate__" (recDel stateDict "name")) = some r ∧ restoredOK r = true ∧
      recGet r "name" = some .emptyStr) := by
  cases k <;> refine ⟨by decide, ⟨_, rfl, by decide, by decide⟩, ⟨_, rfl, by decide, by decide⟩⟩

theorem container_deepcopy (k : Kind) (b : Binding) :
    runDeepcopy (progOf k) k b = some (ctorBinding (bindingTrait b)) := by
  cases k <;> rfl

theorem deepcopyV_node (n : Nat) (k : Kind) (i : Nat) (b : Binding) (hb : b ≠ .plain) (keys : List Leaf)
    (kids : List CVal) :
    deepcopyV n (.node k i b keys kids) =
      match deepcopyL (n + 1) kids with
      | .error e => .error e
      | .ok (kids', n') => .ok (.node k n (ctorBinding (bindingTrait b)) (keys.map (Leaf.copiedAt n)) kids', n') := by
  cases b <;> simp [deepcopyV, ctorBinding, bindingTrait] at hb ⊢ <;> split <;> simp_all

end TraitsVerif.Lemmas.PersistSource
