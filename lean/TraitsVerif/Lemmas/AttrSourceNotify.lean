/-
`call_notifiers` (Generated/AttrProg.lean) against `Model.Attr.callNotifiers`: loop lemmas.
  `loop1`, `loop2`  the two copy loops write the elements of the trait's and of the object's notifier list into the
                    positions of a NEW list and touch nothing else (`Frame`);
  `loop3`           walking that list (veto test before every call, stop at the first raw exception) is `notifyLoop`
                    over the snapshot;
  `tail9`           the three loops composed; `call_notifiers_is_source` adds the prologue (NO_NOTIFY, args tuple,
                    lengths, allocation).
-/
import TraitsVerif.Lemmas.AttrSourceTrait
namespace TraitsVerif.Lemmas.AttrSource
open TraitsVerif TraitsVerif.Model.Attr TraitsVerif.Model.MiniC
open TraitsVerif.Generated

def cnBody : Stmt := AttrProg.call_notifiers.body
def cnTail (k : Nat) : Stmt := tailN k cnBody
def bodyOf : Stmt → Stmt
  | .forRange _ _ b => b
  | s => s
/-- bodies of the three loops of `call_notifiers` -/
def cnB1 : Stmt := bodyOf (nthS 9 cnBody)
def cnB2 : Stmt := bodyOf (nthS 10 cnBody)
def cnB3 : Stmt := bodyOf (nthS 11 cnBody)

macro "cn_exec" "[" ts:Lean.Parser.Tactic.simpLemma,* "]" : tactic =>
  `(tactic| simp [exec, eval, evalArgs, setVar, binop_eq, binop_ne, binop, truthy, ofBool,
      band_eq_zero, getField, setField, getGlob, callPrim, callFPtr, retPtr, retInt, withS, failS,
      nthS, bodyOf, cnBody, cnB1, cnB2, cnB3, AttrProg.call_notifiers, $ts,*])

structure P3 (C : IC) (ms : MS) (old new : Id) (xs : List (Option (Notifier × Loc))) : Prop where
  h5 : ms.vars 5 = .obj new
  h7 : ms.vars 7 = .args4 old new
  h8 : ms.vars 8 = .int (if C.isHT new then 1 else 0)
  h11 : ms.vars 11 = .items xs
  h6 : ms.vars 6 = .int 0
  herr : ms.err = none

def ms3ok (ms : MS) (k : Nat) (s1 : OSt) : MS :=
  { vars := setVar (setVar ms.vars 12 (.int k)) 14 (.obj noneId), s := s1, dictNull := ms.dictNull,
    idictNull := ms.idictNull, err := ms.err }
def ms3err (ms : MS) (k : Nat) (s1 : OSt) (e : Exc) : MS :=
  { vars := setVar (setVar (setVar ms.vars 12 (.int k)) 14 .null) 6 (.int (-1)), s := s1,
    dictNull := ms.dictNull, idictNull := ms.idictNull, err := some e }

theorem vflag_test (b : Bool) : testFlag (if b then HASTRAITS_VETO_NOTIFY else 0) HASTRAITS_VETO_NOTIFY = b := by
  cases b <;> decide

set_option maxHeartbeats 2000000 in
set_option maxRecDepth 4000 in
/-- L3: the dispatch loop over the private list is `notifyLoop` over the snapshot. -/
theorem loop3 (C : IC) (hveto : ∀ v, C.E.veto v = (C.isHT v && C.vflag v)) (old new : Id)
    (snap : List (Notifier × Loc)) (xs : List (Option (Notifier × Loc)))
    (hx : ∀ j (h : j < snap.length), xs[j]? = some (some snap[j])) :
    ∀ (r k : Nat) (ms : MS), k + r = snap.length → P3 C ms old new xs →
      ∃ ms', loop (exec C cnB3) 12 k r ms = (ms', .next) ∧
        (ms'.vars 6, ms'.s, ms'.err) = ofInt (notifyLoop C.E C.t old new (snap.drop k) ms.s) := by
  intro r
  induction r with
  | zero =>
    intro k ms hk P
    obtain ⟨h5, h7, h8, h11, h6, herr⟩ := P
    have : snap.drop k = [] := by simp; omega
    refine ⟨_, rfl, ?_⟩
    simp [this, notifyLoop, ofInt, setVar, h6, herr]
  | succ r ih =>
    intro k ms hk P
    obtain ⟨h5, h7, h8, h11, h6, herr⟩ := P
    have hlt : k < snap.length := by omega
    have hd : snap.drop k = snap[k] :: snap.drop (k + 1) := by simp
    have hxk := hx k hlt
    rcases hsk : snap[k] with ⟨n, loc⟩
    rw [hsk] at hxk hd
    rw [hd]
    unfold loop notifyLoop
    have hv := hveto new
    cases hht : C.isHT new <;> cases hvf : C.vflag new <;> simp [hht, hvf] at hv
    ·
      rcases hcw : callWrapper C.E C.t n loc old new ms.s with ⟨_ | e, s1⟩
      · have hb : exec C cnB3 { ms with vars := setVar ms.vars 12 (.int k) } = (ms3ok ms k s1, .next) := by
          cn_exec [h5, h7, h8, h11, h6, herr, hht, hvf, hxk, hcw, vflag_test, ms3ok]
        rw [hb]
        obtain ⟨ms', hl, hr⟩ := ih (k + 1) (ms3ok ms k s1) (by omega)
          (by constructor <;> simp [ms3ok, setVar, h5, h7, h8, h11, h6, herr, hht])
        exact ⟨ms', hl, by simpa [hv, hcw, ms3ok] using hr⟩
      · have hb : exec C cnB3 { ms with vars := setVar ms.vars 12 (.int k) } = (ms3err ms k s1 e, .broke) := by
          cn_exec [h5, h7, h8, h11, h6, herr, hht, hvf, hxk, hcw, vflag_test, ms3err]
        rw [hb]
        exact ⟨_, rfl, by simp [hv, hcw, ofInt, setVar, ms3err]⟩
    ·
      rcases hcw : callWrapper C.E C.t n loc old new ms.s with ⟨_ | e, s1⟩
      · have hb : exec C cnB3 { ms with vars := setVar ms.vars 12 (.int k) } = (ms3ok ms k s1, .next) := by
          cn_exec [h5, h7, h8, h11, h6, herr, hht, hvf, hxk, hcw, vflag_test, ms3ok]
        rw [hb]
        obtain ⟨ms', hl, hr⟩ := ih (k + 1) (ms3ok ms k s1) (by omega)
          (by constructor <;> simp [ms3ok, setVar, h5, h7, h8, h11, h6, herr, hht])
        exact ⟨ms', hl, by simpa [hv, hcw, ms3ok] using hr⟩
      · have hb : exec C cnB3 { ms with vars := setVar ms.vars 12 (.int k) } = (ms3err ms k s1 e, .broke) := by
          cn_exec [h5, h7, h8, h11, h6, herr, hht, hvf, hxk, hcw, vflag_test, ms3err]
        rw [hb]
        exact ⟨_, rfl, by simp [hv, hcw, ofInt, setVar, ms3err]⟩
    ·
      rcases hcw : callWrapper C.E C.t n loc old new ms.s with ⟨_ | e, s1⟩
      · have hb : exec C cnB3 { ms with vars := setVar ms.vars 12 (.int k) } = (ms3ok ms k s1, .next) := by
          cn_exec [h5, h7, h8, h11, h6, herr, hht, hvf, hxk, hcw, vflag_test, ms3ok]
        rw [hb]
        obtain ⟨ms', hl, hr⟩ := ih (k + 1) (ms3ok ms k s1) (by omega)
          (by constructor <;> simp [ms3ok, setVar, h5, h7, h8, h11, h6, herr, hht])
        exact ⟨ms', hl, by simpa [hv, hcw, ms3ok] using hr⟩
      · have hb : exec C cnB3 { ms with vars := setVar ms.vars 12 (.int k) } = (ms3err ms k s1 e, .broke) := by
          cn_exec [h5, h7, h8, h11, h6, herr, hht, hvf, hxk, hcw, vflag_test, ms3err]
        rw [hb]
        exact ⟨_, rfl, by simp [hv, hcw, ofInt, setVar, ms3err]⟩
    · have hb : exec C cnB3 { ms with vars := setVar ms.vars 12 (.int k) }
          = ({ ms with vars := setVar ms.vars 12 (.int k) }, .broke) := by
        cn_exec [h5, h7, h8, h11, h6, herr, hht, hvf, hxk, vflag_test, HASTRAITS_VETO_NOTIFY]
      rw [hb]
      exact ⟨_, rfl, by simp [hv, ofInt, setVar, h6, herr]⟩

/-- every variable other than the copy loops' own three (`all_notifiers`, `i`, `item`), the object state and the
error indicator are the same in both machine states -/
def Frame (ms ms' : MS) : Prop :=
  (∀ j, j ≠ 11 → j ≠ 12 → j ≠ 13 → ms'.vars j = ms.vars j) ∧ ms'.s = ms.s ∧ ms'.err = ms.err

def ms1 (ms : MS) (k : Nat) (n : Notifier) (xs : List (Option (Notifier × Loc))) (off : Nat) : MS :=
  { ms with vars := (setVar (setVar (setVar ms.vars 12 (.int k)) 13 (Val.item n Loc.t)) 11 (.items (xs.set (k + off) (some (n, Loc.t))))) }

set_option maxHeartbeats 2000000 in
set_option maxRecDepth 4000 in
/-- L1: the copy loop writes `l[j]` to position `j + 0` of the new list for `k ≤ j < k + r`, and touches nothing
else: no other position, no variable besides its own three, neither the object state nor the error indicator. -/
theorem loop1 (C : IC) (o : Option (List Notifier)) :
    ∀ (r k : Nat) (ms : MS) (xs : List (Option (Notifier × Loc))),
      k + r = (o.getD []).length → (o.getD []).length + 0 ≤ xs.length →
      ms.vars 0 = nlv o Loc.t → ms.vars 11 = .items xs →
      ∃ ms' xs', loop (exec C cnB1) 12 k r ms = (ms', .next) ∧ Frame ms ms' ∧ ms'.vars 11 = .items xs'
        ∧ xs'.length = xs.length
        ∧ (∀ j, (j < k + 0 ∨ k + r + 0 ≤ j) → xs'[j]? = xs[j]?)
        ∧ (∀ j (h : j < (o.getD []).length), k ≤ j → xs'[j + 0]? = some (some ((o.getD [])[j], Loc.t))) := by
  intro r
  induction r with
  | zero =>
    intro k ms xs hk hlen h0 h11
    refine ⟨_, xs, rfl, ⟨fun j h1 h2 h3 => by simp [setVar, h2], rfl, rfl⟩, by simp [setVar, h11], rfl,
      fun j _ => rfl, fun j h hkj => by omega⟩
  | succ r ih =>
    intro k ms xs hk hlen h0 h11
    cases o with
    | none => simp at hk
    | some l =>
      simp only [Option.getD_some] at hk hlen ih ⊢
      have hkl : k < l.length := by omega
      have hb : exec C cnB1 { ms with vars := setVar ms.vars 12 (.int k) } = (ms1 ms k l[k] xs 0, .next) := by
        have : l[k]? = some l[k] := by simp [hkl]
        have h2 : k < xs.length := by omega
        cn_exec [h0, h11, nlv, this, h2, ms1]
      unfold loop
      rw [hb]
      obtain ⟨ms', xs', hl, hF, h11', hlen', hout, hin⟩ := ih (k + 1) (ms1 ms k l[k] xs 0)
        (xs.set (k + 0) (some (l[k], Loc.t))) (by omega) (by simp; omega)
        (by simp [ms1, setVar, h0]) (by simp [ms1, setVar])
      refine ⟨ms', xs', hl, ?_, h11', by simpa using hlen', ?_, ?_⟩
      · obtain ⟨f1, f2, f3⟩ := hF
        refine ⟨fun j h1 h2 h3 => ?_, by simpa [ms1] using f2, by simpa [ms1] using f3⟩
        rw [f1 j h1 h2 h3]
        simp [ms1, setVar, h1, h2, h3]
      · intro j hj
        rw [hout j (by omega), List.getElem?_set, if_neg (by omega)]
      · intro j h hkj
        by_cases hjk : j = k
        · subst hjk
          rw [hout (j + 0) (by omega), List.getElem?_set, if_pos rfl, if_pos (by omega)]
        · exact hin j h (by omega)

def ms2 (ms : MS) (k : Nat) (n : Notifier) (xs : List (Option (Notifier × Loc))) (off : Nat) : MS :=
  { ms with vars := (setVar (setVar (setVar ms.vars 12 (.int k)) 13 (Val.item n Loc.o)) 11 (.items (xs.set (k + off) (some (n, Loc.o))))) }

set_option maxHeartbeats 2000000 in
set_option maxRecDepth 4000 in
/-- L2: the copy loop writes `l[j]` to position `j + off` of the new list for `k ≤ j < k + r`, and touches nothing
else: no other position, no variable besides its own three, neither the object state nor the error indicator. -/
theorem loop2 (C : IC) (o : Option (List Notifier)) (off : Nat) :
    ∀ (r k : Nat) (ms : MS) (xs : List (Option (Notifier × Loc))),
      k + r = (o.getD []).length → (o.getD []).length + off ≤ xs.length →
      ms.vars 1 = nlv o Loc.o → ms.vars 9 = .int off → ms.vars 11 = .items xs →
      ∃ ms' xs', loop (exec C cnB2) 12 k r ms = (ms', .next) ∧ Frame ms ms' ∧ ms'.vars 11 = .items xs'
        ∧ xs'.length = xs.length
        ∧ (∀ j, (j < k + off ∨ k + r + off ≤ j) → xs'[j]? = xs[j]?)
        ∧ (∀ j (h : j < (o.getD []).length), k ≤ j → xs'[j + off]? = some (some ((o.getD [])[j], Loc.o))) := by
  intro r
  induction r with
  | zero =>
    intro k ms xs hk hlen h0 h9 h11
    refine ⟨_, xs, rfl, ⟨fun j h1 h2 h3 => by simp [setVar, h2], rfl, rfl⟩, by simp [setVar, h11], rfl,
      fun j _ => rfl, fun j h hkj => by omega⟩
  | succ r ih =>
    intro k ms xs hk hlen h0 h9 h11
    cases o with
    | none => simp at hk
    | some l =>
      simp only [Option.getD_some] at hk hlen ih ⊢
      have hkl : k < l.length := by omega
      have hb : exec C cnB2 { ms with vars := setVar ms.vars 12 (.int k) } = (ms2 ms k l[k] xs off, .next) := by
        have : l[k]? = some l[k] := by simp [hkl]
        have h2 : k + off < xs.length := by omega
        have e1 : ((k : Int) + (off : Int)).toNat = k + off := by omega
        have e2 : (0 : Int) ≤ (k : Int) + (off : Int) := by omega
        cn_exec [h0, h9, h11, nlv, this, h2, e1, e2, ms2]
      unfold loop
      rw [hb]
      obtain ⟨ms', xs', hl, hF, h11', hlen', hout, hin⟩ := ih (k + 1) (ms2 ms k l[k] xs off)
        (xs.set (k + off) (some (l[k], Loc.o))) (by omega) (by simp; omega)
        (by simp [ms2, setVar, h0]) (by simp [ms2, setVar, h9]) (by simp [ms2, setVar])
      refine ⟨ms', xs', hl, ?_, h11', by simpa using hlen', ?_, ?_⟩
      · obtain ⟨f1, f2, f3⟩ := hF
        refine ⟨fun j h1 h2 h3 => ?_, by simpa [ms2] using f2, by simpa [ms2] using f3⟩
        rw [f1 j h1 h2 h3]
        simp [ms2, setVar, h1, h2, h3]
      · intro j hj
        rw [hout j (by omega), List.getElem?_set, if_neg (by omega)]
      · intro j h hkj
        by_cases hjk : j = k
        · subst hjk
          rw [hout (j + off) (by omega), List.getElem?_set, if_pos rfl, if_pos (by omega)]
        · exact hin j h (by omega)

theorem e9 : cnTail 9 = .seq (.forRange 12 (.var 9) cnB1) (.seq (.forRange 12 (.var 10) cnB2)
    (.seq (.forRange 12 (.bin .add (.var 9) (.var 10)) cnB3) (.ret (.var 6)))) := rfl

structure P9 (C : IC) (ms : MS) (tn on : Option (List Notifier)) (old new : Id)
    (xs : List (Option (Notifier × Loc))) : Prop where
  h0 : ms.vars 0 = nlv tn .t
  h1 : ms.vars 1 = nlv on .o
  h5 : ms.vars 5 = .obj new
  h6 : ms.vars 6 = .int 0
  h7 : ms.vars 7 = .args4 old new
  h8 : ms.vars 8 = .int (if C.isHT new then 1 else 0)
  h9 : ms.vars 9 = .int ((tn.getD []).length : Nat)
  h10 : ms.vars 10 = .int ((on.getD []).length : Nat)
  h11 : ms.vars 11 = .items xs
  hlen : xs.length = (tn.getD []).length + (on.getD []).length
  herr : ms.err = none

set_option maxHeartbeats 2000000 in
/-- From the first copy loop to the end: the two copy loops build the snapshot in a list of their own, the third
loop walks it. -/
theorem tail9 (C : IC) (hveto : ∀ v, C.E.veto v = (C.isHT v && C.vflag v)) (ms : MS)
    (tn on : Option (List Notifier)) (old new : Id) (xs : List (Option (Notifier × Loc)))
    (P : P9 C ms tn on old new xs) :
    outOf (exec C (cnTail 9) ms) = ofInt (notifyLoop C.E C.t old new (snapshot tn on) ms.s) := by
  obtain ⟨h0, h1, h5, h6, h7, h8, h9, h10, h11, hlen, herr⟩ := P
  obtain ⟨ms1, xs1, hl1, ⟨f1, fs1, fe1⟩, h11a, hlen1, hout1, hin1⟩ :=
    loop1 C tn (tn.getD []).length 0 ms xs (by omega) (by omega) h0 h11
  obtain ⟨ms2, xs2, hl2, ⟨f2, fs2, fe2⟩, h11b, hlen2, hout2, hin2⟩ :=
    loop2 C on (tn.getD []).length (on.getD []).length 0 ms1 xs1 (by omega) (by omega)
      (by rw [f1 1 (by decide) (by decide) (by decide), h1]) (by rw [f1 9 (by decide) (by decide) (by decide), h9]) h11a
  have hsnap : (snapshot tn on).length = (tn.getD []).length + (on.getD []).length := by simp [snapshot]
  have hx : ∀ j (h : j < (snapshot tn on).length), xs2[j]? = some (some (snapshot tn on)[j]) := by
    intro j h
    by_cases hj : j < (tn.getD []).length
    · have := hin1 j hj (by omega)
      rw [hout2 j (by omega)]
      simp only [Nat.add_zero] at this
      rw [this]
      simp [snapshot, List.getElem_append_left, hj]
    · have := hin2 (j - (tn.getD []).length) (by omega) (by omega)
      rw [Nat.sub_add_cancel (by omega)] at this
      rw [this]
      simp only [snapshot]
      rw [List.getElem_append_right (by simp; omega)]
      simp
  obtain ⟨ms3, hl3, hr3⟩ := loop3 C hveto old new (snapshot tn on) xs2 hx (snapshot tn on).length 0 ms2 (by omega)
    ⟨by rw [f2 5 (by decide) (by decide) (by decide), f1 5 (by decide) (by decide) (by decide), h5],
     by rw [f2 7 (by decide) (by decide) (by decide), f1 7 (by decide) (by decide) (by decide), h7],
     by rw [f2 8 (by decide) (by decide) (by decide), f1 8 (by decide) (by decide) (by decide), h8],
     h11b,
     by rw [f2 6 (by decide) (by decide) (by decide), f1 6 (by decide) (by decide) (by decide), h6],
     by rw [fe2, fe1, herr]⟩
  have v9 : ms1.vars 10 = .int ((on.getD []).length : Nat) := by rw [f1 10 (by decide) (by decide) (by decide), h10]
  have v9b : ms2.vars 9 = .int ((tn.getD []).length : Nat) := by
    rw [f2 9 (by decide) (by decide) (by decide), f1 9 (by decide) (by decide) (by decide), h9]
  have v10b : ms2.vars 10 = .int ((on.getD []).length : Nat) := by rw [f2 10 (by decide) (by decide) (by decide), v9]
  rw [e9]
  simp only [List.drop_zero] at hr3
  rw [fs2, fs1] at hr3
  simp [exec, eval, h9, hl1, v9, hl2, v9b, v10b, binop, hsnap] at hl3 ⊢
  have e1 : (((tn.getD []).length : Int) + ((on.getD []).length : Int)).toNat
      = (tn.getD []).length + (on.getD []).length := by omega
  have e2 : (0 : Int) ≤ ((tn.getD []).length : Int) + ((on.getD []).length : Int) := by omega
  rw [if_pos e2, e1, hl3]
  simp [outOf, ← hr3]

theorem e0cn : cnTail 0 = .seq (nthS 0 cnBody) (.seq (nthS 1 cnBody) (.seq (nthS 2 cnBody) (.seq (nthS 3 cnBody)
    (.seq (nthS 4 cnBody) (.seq (nthS 5 cnBody) (.seq (nthS 6 cnBody) (.seq (nthS 7 cnBody) (.seq (nthS 8 cnBody)
    (cnTail 9))))))))) := rfl

theorem call_cn (C : IC) (args : List Val) (h : args.length = 6) (s : OSt) (dn idn : Bool) :
    call C AttrProg.call_notifiers args s dn idn
      = outOf (exec C (cnTail 0) { vars := bindArgs 0 args, s := s, dictNull := dn, idictNull := idn }) := by
  simp only [call, outOf, cnTail, tailN, cnBody]
  rw [if_neg (by simp [h, AttrProg.call_notifiers])]
  rfl

set_option maxHeartbeats 4000000 in
set_option maxRecDepth 4000 in
/-- `callNotifiers` is the interpretation of the source of `call_notifiers`. -/
theorem call_notifiers_is_source (C : IC) (hveto : ∀ v, C.E.veto v = (C.isHT v && C.vflag v))
    (tn on : Option (List Notifier)) (old new : Id) (s : OSt) (dn idn : Bool) :
    call C AttrProg.call_notifiers [nlv tn .t, nlv on .o, .self, .name, .obj old, .obj new] s dn idn
      = ofInt (callNotifiers C.E C.t tn on old new s) := by
  rw [call_cn C _ rfl, e0cn]
  generalize hK : cnTail 9 = K
  unfold callNotifiers
  cases hnn : s.noNotify
  · cases tn with
    | none =>
      cases on with
      | none =>
        cn_exec [bindArgs, nlv, hnn, HASTRAITS_NO_NOTIFY]
        subst hK
        refine (tail9 C hveto _ none none old new _
          (by constructor <;> first | rfl | (simp [setVar, bindArgs, nlv]; done) | omega | (simp; omega))).trans ?_
        simp
      | some lo =>
        cn_exec [bindArgs, nlv, hnn, HASTRAITS_NO_NOTIFY]
        subst hK
        refine (tail9 C hveto _ none (some lo) old new _
          (by constructor <;> first | rfl | (simp [setVar, bindArgs, nlv]; done) | omega | (simp; omega))).trans ?_
        simp
    | some lt =>
      cases on with
      | none =>
        cn_exec [bindArgs, nlv, hnn, HASTRAITS_NO_NOTIFY]
        subst hK
        refine (tail9 C hveto _ (some lt) none old new _
          (by constructor <;> first | rfl | (simp [setVar, bindArgs, nlv]; done) | omega | (simp; omega))).trans ?_
        simp
      | some lo =>
        cn_exec [bindArgs, nlv, hnn, HASTRAITS_NO_NOTIFY]
        subst hK
        refine (tail9 C hveto _ (some lt) (some lo) old new _
          (by constructor <;> first | rfl | (simp [setVar, bindArgs, nlv]; done) | omega | (simp; omega))).trans ?_
        simp
  · cn_exec [bindArgs, hnn, HASTRAITS_NO_NOTIFY, outOf, ofInt]
end TraitsVerif.Lemmas.AttrSource
