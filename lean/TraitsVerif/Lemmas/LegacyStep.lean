/-
The refinement invariant of the legacy listener on tree-shaped heaps and its
preservation by every step of a history (helper lemmas for C16).
-/
import TraitsVerif.Lemmas.LegacyState
import TraitsVerif.Lemmas.LegacyOps
namespace TraitsVerif.Model.Legacy
open List

/-! ### leaves and scripts -/

theorem descFrom_leaf {h : Heap} {L : List Link} {k c j x : Nat} (hleaf : ∀ a, targets h a c = []) :
    x ∈ descFrom h L k c j ↔ j = 0 ∧ x = c := by
  cases j with
  | zero => simp [mem_descFrom_zero]
  | succ j =>
    constructor
    · intro hx
      obtain ⟨l, c', _, hc', _⟩ := mem_descFrom_cons.mp hx
      rw [hleaf] at hc'; cases hc'
    · rintro ⟨h0, _⟩; omega

/-- A handler script that unregisters registered subtrees and registers fresh
leaves does exactly that to the `active` tables. -/
theorem runScript_spec {h : Heap} (ht : TreeShaped h) (N : Name) (k1 : Nat) (hk1 : k1 ≤ N.links.length) :
    ∀ (sc : List Act) (s : LState), Good N s →
      (∀ c ∈ scUnregs sc, ∀ j x, x ∈ descFrom h N.links k1 c j → x ∈ s.active (k1 + j)) →
      (∀ c ∈ scRegs sc, (∀ m, c ∉ s.active m) ∧ ∀ a, targets h a c = []) →
      (scUnregs sc).Nodup → (scRegs sc).Nodup →
      Good N (runScript h N.htype N.final k1 (N.links.drop k1) sc s) ∧
      ∀ m x, x ∈ (runScript h N.htype N.final k1 (N.links.drop k1) sc s).active m ↔
        (x ∈ s.active m ∧ ¬(k1 ≤ m ∧ ∃ c ∈ scUnregs sc, x ∈ descFrom h N.links k1 c (m - k1))) ∨
        (m = k1 ∧ x ∈ scRegs sc) := by
  intro sc
  induction sc with
  | nil =>
    intro s hg _ _ _ _
    refine ⟨hg, ?_⟩
    intro m x
    simp [runScript, scUnregs, scRegs]
  | cons act sc ih =>
    intro s hg hU hR hUnd hRnd
    cases act with
    | unreg c =>
      simp only [scUnregs, scRegs, nodup_cons] at hU hR hUnd hRnd ⊢
      simp only [runScript]
      obtain ⟨hg1, hact1⟩ := unregister_spec ht N _ k1 c s rfl hk1 hg (hU c (by simp))
      obtain ⟨hg2, hact2⟩ := ih _ hg1 (by
          intro c' hc' j x hx
          rw [hact1]
          refine ⟨hU c' (by simp [hc']) j x hx, ?_⟩
          rintro ⟨_, hx'⟩
          rw [show k1 + j - k1 = j by omega] at hx'
          have : c = c' := descFrom_same_depth ht hx' hx
          exact hUnd.1 (this ▸ hc'))
        (by
          intro c' hc'
          refine ⟨fun m hm => (hR c' hc').1 m ((hact1 m c').mp hm).1, (hR c' hc').2⟩)
        hUnd.2 hRnd
      refine ⟨hg2, ?_⟩
      intro m x
      rw [hact2, hact1]
      constructor
      · rintro (⟨⟨h1, h2⟩, h3⟩ | h4)
        · refine Or.inl ⟨h1, ?_⟩
          rintro ⟨hm, c', hc', hx⟩
          rcases mem_cons.mp hc' with rfl | hc'
          · exact h2 ⟨hm, hx⟩
          · exact h3 ⟨hm, c', hc', hx⟩
        · exact Or.inr h4
      · rintro (⟨h1, h2⟩ | h4)
        · exact Or.inl ⟨⟨h1, fun ⟨hm, hx⟩ => h2 ⟨hm, c, by simp, hx⟩⟩,
            fun ⟨hm, c', hc', hx⟩ => h2 ⟨hm, c', by simp [hc'], hx⟩⟩
        · exact Or.inr h4
    | reg c =>
      simp only [scUnregs, scRegs, nodup_cons] at hU hR hUnd hRnd ⊢
      simp only [runScript]
      have hleaf := (hR c (by simp)).2
      have hcfresh := (hR c (by simp)).1
      obtain ⟨hg1, hact1⟩ := register_spec ht N _ k1 c s rfl hk1 hg (by
        intro j x hx m
        obtain ⟨_, rfl⟩ := (descFrom_leaf hleaf).mp hx
        exact hcfresh m)
      have hact1' : ∀ m x, x ∈ (register h N.htype N.final k1 (N.links.drop k1) c s).active m ↔
          x ∈ s.active m ∨ (m = k1 ∧ x = c) := by
        intro m x
        rw [hact1]
        constructor
        · rintro (h1 | ⟨hm, hx⟩)
          · exact Or.inl h1
          · obtain ⟨h0, rfl⟩ := (descFrom_leaf hleaf).mp hx
            exact Or.inr ⟨by omega, rfl⟩
        · rintro (h1 | ⟨rfl, rfl⟩)
          · exact Or.inl h1
          · exact Or.inr ⟨Nat.le_refl _, (descFrom_leaf hleaf).mpr ⟨by omega, rfl⟩⟩
      obtain ⟨hg2, hact2⟩ := ih _ hg1 (by
          intro c' hc' j x hx
          rw [hact1']
          exact Or.inl (hU c' hc' j x hx))
        (by
          intro c' hc'
          refine ⟨fun m hm => ?_, (hR c' (by simp [hc'])).2⟩
          rcases (hact1' m c').mp hm with h1 | ⟨_, rfl⟩
          · exact (hR c' (by simp [hc'])).1 m h1
          · exact hRnd.1 hc')
        hUnd hRnd.2
      refine ⟨hg2, ?_⟩
      intro m x
      rw [hact2, hact1']
      constructor
      · rintro (⟨h1 | ⟨rfl, rfl⟩, h2⟩ | ⟨h3, h4⟩)
        · exact Or.inl ⟨h1, h2⟩
        · exact Or.inr ⟨rfl, by simp⟩
        · exact Or.inr ⟨h3, by simp [h4]⟩
      · rintro (⟨h1, h2⟩ | ⟨rfl, h4⟩)
        · exact Or.inl ⟨Or.inl h1, h2⟩
        · rcases mem_cons.mp h4 with rfl | h4
          · refine Or.inl ⟨Or.inr ⟨rfl, rfl⟩, ?_⟩
            rintro ⟨_, c', hc', hx⟩
            rw [Nat.sub_self, mem_descFrom_zero] at hx
            subst hx
            have := hU x hc' 0 x (by simp [mem_descFrom_zero])
            exact hcfresh _ this
          · exact Or.inr ⟨rfl, h4⟩

theorem runScript_append (h : Heap) (ty : LType) (fin : Final) (k : Nat) (ls : List Link)
    (a b : List Act) (s : LState) :
    runScript h ty fin k ls (a ++ b) s = runScript h ty fin k ls b (runScript h ty fin k ls a s) := by
  induction a generalizing s with
  | nil => rfl
  | cons x a ih => cases x <;> simp [runScript, ih]

/-- Registering several children of one object whose subtrees are not registered anywhere
adds exactly these subtrees (whatever their size: the objects may have been carried over). -/
theorem registerMany_spec {h : Heap} (ht : TreeShaped h) (N : Name) (k1 : Nat)
    (hk1 : k1 ≤ N.links.length) (o : Nat) (a : Attr) :
    ∀ (cs : List Nat) (s : LState), (∀ c ∈ cs, c ∈ targets h a o) → cs.Nodup → Good N s →
      (∀ c ∈ cs, ∀ j x, x ∈ descFrom h N.links k1 c j → ∀ m, x ∉ s.active m) →
      Good N (runScript h N.htype N.final k1 (N.links.drop k1) (regAll cs) s) ∧
      ∀ m x, x ∈ (runScript h N.htype N.final k1 (N.links.drop k1) (regAll cs) s).active m ↔
        x ∈ s.active m ∨ (k1 ≤ m ∧ ∃ c ∈ cs, x ∈ descFrom h N.links k1 c (m - k1)) := by
  intro cs
  induction cs with
  | nil => intro s _ _ hg _; exact ⟨hg, by simp [regAll, runScript]⟩
  | cons c cs ih =>
    intro s hsub hnd hg hfr
    have hnd' := nodup_cons.mp hnd
    simp only [regAll, map_cons, runScript]
    obtain ⟨hg1, hact1⟩ := register_spec ht N _ k1 c s rfl hk1 hg (hfr c (by simp))
    obtain ⟨hg2, hact2⟩ := ih _ (fun c' hc' => hsub c' (by simp [hc'])) hnd'.2 hg1 (by
      intro c' hc' j x hx m hm
      rcases (hact1 m x).mp hm with h1 | ⟨_, h2⟩
      · exact hfr c' (by simp [hc']) j x hx m h1
      · have hne : c ≠ c' := fun e => hnd'.1 (e ▸ hc')
        exact descFrom_siblings_disjoint ht (hsub c (by simp)) (hsub c' (by simp [hc'])) hne h2 hx)
    refine ⟨hg2, ?_⟩
    intro m x
    have := hact2 m x
    simp only [regAll] at this
    rw [this, hact1]
    constructor
    · rintro ((h1 | ⟨hm, hx⟩) | ⟨hm, c', hc', hx⟩)
      · exact Or.inl h1
      · exact Or.inr ⟨hm, c, by simp, hx⟩
      · exact Or.inr ⟨hm, c', by simp [hc'], hx⟩
    · rintro (h1 | ⟨hm, c', hc', hx⟩)
      · exact Or.inl (Or.inl h1)
      · rcases mem_cons.mp hc' with rfl | hc'
        · exact Or.inl (Or.inr ⟨hm, hx⟩)
        · exact Or.inr ⟨hm, c', hc', hx⟩

/-! ### dispatch on the three possible notifier lists of an object -/

theorem dispatch_nil {h : Heap} {N : Name} {o : Nat} {t : Trait} {sc : List Act} {s : LState}
    (hh : s.hooks o = []) : dispatch h N o t sc s = (s, []) := by
  simp [dispatch, snapshot, hh]

theorem dispatch_final {h : Heap} {N : Name} {o : Nat} {t : Trait} {sc : List Act} {s : LState}
    {f : Final} (hh : s.hooks o = finalHooks f) :
    dispatch h N o t sc s = (s, if t = .final f then [(o, t)] else []) := by
  by_cases ht : t = .final f
  · subst ht; simp [dispatch, snapshot, hh, finalHooks, callOne]
  · have : ¬ (Trait.final f = t) := fun e => ht e.symm
    simp [dispatch, snapshot, hh, finalHooks, ht, this]

/-- Does item `k` (link `l`) re-register on a change of trait `t`? -/
def Handles (l : Link) (t : Trait) : Prop :=
  t = .link l.attr ∨ (t = .items l.attr ∧ isContainer l.attr = true)

/-- Does item `k` (link `l`, item type `ty`) call the user's handler for trait `t`? -/
def Notifies (ty : LType) (l : Link) (t : Trait) : Prop :=
  l.notify = true ∧ (t = .link l.attr ∨ (t = .items l.attr ∧ isContainer l.attr = true ∧ ty = .any))

instance (l : Link) (t : Trait) : Decidable (Handles l t) := by unfold Handles; infer_instance
instance (ty : LType) (l : Link) (t : Trait) : Decidable (Notifies ty l t) := by
  unfold Notifies; infer_instance

theorem dispatch_link {h : Heap} {N : Name} {o : Nat} {t : Trait} {sc : List Act} {s : LState}
    {ty : LType} {k : Nat} {l : Link} (hh : s.hooks o = linkHooks ty k l) :
    dispatch h N o t sc s =
      (if Handles l t then runScript h N.htype N.final (k + 1) (N.links.drop (k + 1)) sc s else s,
       if Notifies ty l t then [(o, t)] else []) := by
  obtain ⟨a, n⟩ := l
  cases n <;> cases a <;> cases ty <;> rcases t with (a' | a' | f) <;>
    first
    | (cases a' <;> simp [dispatch, snapshot, hh, linkHooks, isContainer, callOne, Handles, Notifies])
    | (cases f <;> simp [dispatch, snapshot, hh, linkHooks, isContainer, Handles, Notifies])

/-! ### the invariant -/

/-- The refinement invariant: on a tree-shaped heap the `active` table of item
`m` holds exactly the objects at depth `m` along the name (nothing when not
registered), and every object carries exactly the notifiers of its item. -/
structure Inv (N : Name) (st : St) : Prop where
  tree : TreeShaped st.h
  good : Good N st.s
  act : ∀ m x, x ∈ st.s.active m ↔ (st.registered = true ∧ x ∈ reach st.h N.links m)

theorem TreeShaped.init : TreeShaped Heap.init := by
  have hT : ∀ a o, targets Heap.init a o = [] := by intro a o; cases a <;> rfl
  refine ⟨?_, ?_, ?_, ?_, ?_, by simp [Heap.init], ?_⟩
  · intro o a c hc; simp [hT] at hc
  · intro c o₁ a₁ o₂ a₂ hc; simp [hT] at hc
  · intro o a; simp [hT]
  · intro o a c hc; simp [hT] at hc
  · intro o a _; exact hT a o
  · intro o; simp [Heap.init]

theorem Inv.init (N : Name) : Inv N St.init :=
  ⟨TreeShaped.init, Good.empty N, by simp [St.init, LState.empty]⟩

theorem reach_le_length {h : Heap} {L : List Link} {m x : Nat} (hx : x ∈ reach h L m) : m ≤ L.length := by
  cases m with
  | zero => omega
  | succ m =>
    obtain ⟨l, _, hl, _, _⟩ := mem_reach_succ.mp hx
    obtain ⟨hlt, _⟩ := List.getElem?_eq_some_iff.mp hl
    omega

theorem step_of_mutate {N : Name} {st : St} {op : Op} {m : Mut} (hm : mutate st.h op = some m) :
    step N st op =
      if m.fires then
        ({ st with h := m.h', s := (dispatch m.h' N m.o m.trait m.script st.s).1 }, true,
          (dispatch m.h' N m.o m.trait m.script st.s).2)
      else ({ st with h := m.h' }, true, []) := by
  cases op <;> first | (simp [mutate] at hm; done) | simp [step, hm]

/-- What the legacy handler is told about a change of trait `t` of object `o`. -/
def Reports (N : Name) (h : Heap) (o : Nat) : Trait → Prop
  | .final f => f = N.final ∧ o ∈ reach h N.links N.links.length
  | .link a => ∃ k l, N.links[k]? = some l ∧ l.attr = a ∧ l.notify = true ∧ o ∈ reach h N.links k
  | .items a => ∃ k l, N.links[k]? = some l ∧ l.attr = a ∧ l.notify = true ∧
      typeOf N.htype k = .any ∧ o ∈ reach h N.links k

/-- The result of a trait change notification in a state satisfying the
invariant, by the position of the object. -/
theorem dispatch_inv {N : Name} {st : St} (hinv : Inv N st) (h' : Heap) (o : Nat) (t : Trait)
    (sc : List Act) :
    -- not on the name at all
    ((st.registered = false ∨ ∀ k, o ∉ reach st.h N.links k) →
        dispatch h' N o t sc st.s = (st.s, [])) ∧
    -- at the final level
    ((st.registered = true ∧ o ∈ reach st.h N.links N.links.length) →
        dispatch h' N o t sc st.s = (st.s, if t = .final N.final then [(o, t)] else [])) ∧
    -- at link `k`
    (∀ k l, st.registered = true → o ∈ reach st.h N.links k → N.links[k]? = some l →
        dispatch h' N o t sc st.s =
          (if Handles l t then runScript h' N.htype N.final (k + 1) (N.links.drop (k + 1)) sc st.s
           else st.s,
           if Notifies (typeOf N.htype k) l t then [(o, t)] else [])) := by
  refine ⟨?_, ?_, ?_⟩
  · intro hno
    apply dispatch_nil
    apply hinv.good.none
    intro k hk
    obtain ⟨hr, hx⟩ := (hinv.act k o).mp hk
    rcases hno with h1 | h1
    · rw [h1] at hr; cases hr
    · exact h1 k hx
  · rintro ⟨hr, hx⟩
    apply dispatch_final
    rw [hinv.good.exact o _ ((hinv.act _ o).mpr ⟨hr, hx⟩)]
    simp [itemHooks]
  · intro k l hr hx hl
    apply dispatch_link
    rw [hinv.good.exact o _ ((hinv.act _ o).mpr ⟨hr, hx⟩)]
    simp [itemHooks, hl]

end TraitsVerif.Model.Legacy
