/-
The hand-written model of the legacy listener machinery (`Model/Legacy.lean`) equals the
interpretation (`Model/LisL.lean`) of the translated source (`Generated/LegacyProg.lean`):
helper lemmas for `C16_register_is_source` / `C16_handle_is_source`.
-/
import TraitsVerif.Lemmas.LegacyOps
import TraitsVerif.Generated.LegacyProg
namespace TraitsVerif.Model.LisL
open TraitsVerif.Model.Legacy TraitsVerif.Generated.LegacyProg List

/-! ### `_register_simple / _register_list / _register_dict` -/

/-- The notifiers a non-final item attaches (or detaches: `remove` only reaches the
`_on_trait_change` calls as their `remove=` argument) are those of the source, in call order. -/
theorem linkHooks_is_source (ty : LType) (k : Nat) (l : Link) (remove : Bool) :
    (summary prog (dvtOf l.attr)
        { nextNone := false, notify := l.notify, type := typeNum prog ty, remove := remove }).hooks.map
      (toHook k l.attr) = linkHooks ty k l := by
  rcases l with ⟨a, n⟩
  cases ty <;> cases a <;> cases n <;> cases remove <;> rfl

/-- … and of the final item (`next is None`, a scalar trait: `_register_simple`). -/
theorem finalHooks_is_source (ty : LType) (fin : Final) (remove : Bool) :
    (summary prog .constant
        { nextNone := true, notify := true, type := typeNum prog ty, remove := remove }).hooks.map
      (toFinalHook fin) = finalHooks fin := by
  cases ty <;> cases remove <;> rfl

/-- How the source goes on into the next item: `next.register` / `next.unregister` (according to
`remove`) of the one value of an Instance link, of every item of a List / Set link, of every
`.values()` item of a Dict link. -/
theorem walked_is_source (h : Heap) (ty : LType) (l : Link) (o : Nat) (remove : Bool) :
    walked h l.attr o (summary prog (dvtOf l.attr)
        { nextNone := false, notify := l.notify, type := typeNum prog ty, remove := remove }).tail
      = some (!remove, targets h l.attr o) := by
  rcases l with ⟨a, n⟩
  cases ty <;> cases a <;> cases n <;> cases remove <;> rfl

theorem registerSkip_eval (nn nt : Bool) (act : Bool) :
    evalCond { nextNone := nn, notify := nt, type := 0, remove := false, valActive := act } prog.registerSkip = act := by
  cases act <;> rfl

theorem unregisterGuard_eval (nn nt : Bool) :
    evalCond { nextNone := nn, notify := nt, type := 0, remove := true } prog.unregisterGuard = true := rfl

theorem foldl_congr_fun {α β : Type} (f g : β → α → β) (hfg : ∀ b a, f b a = g b a) (l : List α) (b : β) :
    l.foldl f b = l.foldl g b := by
  induction l generalizing b with
  | nil => rfl
  | cons x xs ih => simp only [foldl_cons, hfg, ih]

/-- `ListenerItem.register` of the model = the interpreted source. -/
theorem register_is_source (h : Heap) (ty0 : LType) (fin : Final) :
    ∀ (ls : List Link) (k o : Nat) (s : LState),
      register h ty0 fin k ls o s = regSrc prog h ty0 fin false k ls o s := by
  intro ls
  induction ls with
  | nil =>
    intro k o s
    simp only [register, regSrc, registerSkip_eval, finalHooks_is_source, Bool.false_eq_true, if_false]
    by_cases hact : o ∈ s.active k <;> simp [hact]
  | cons l rest ih =>
    intro k o s
    simp only [register, regSrc, registerSkip_eval, linkHooks_is_source, walked_is_source,
      Bool.false_eq_true, if_false, Bool.not_false, if_true]
    by_cases hact : o ∈ s.active k
    · simp [hact]
    · simp only [hact, decide_false, Bool.not_false, if_true, if_false]
      exact foldl_congr_fun _ _ (fun b a => ih (k + 1) a b) _ _

/-- `ListenerItem.unregister` of the model = the interpreted source. -/
theorem unregister_is_source (h : Heap) (ty0 : LType) (fin : Final) :
    ∀ (ls : List Link) (k o : Nat) (s : LState),
      unregister h ty0 fin k ls o s = regSrc prog h ty0 fin true k ls o s := by
  intro ls
  induction ls with
  | nil =>
    intro k o s
    simp only [unregister, regSrc, unregisterGuard_eval, finalHooks_is_source, if_true, Bool.true_and]
    by_cases hact : o ∈ s.active k <;> simp [hact]
  | cons l rest ih =>
    intro k o s
    simp only [unregister, regSrc, unregisterGuard_eval, linkHooks_is_source, walked_is_source,
      if_true, Bool.true_and, Bool.not_true]
    by_cases hact : o ∈ s.active k
    · simp only [hact, decide_true, if_true]
      exact foldl_congr_fun _ _ (fun b a => ih (k + 1) a b) _ _
    · simp [hact]

/-! ### the handle_* methods -/

/-- The event a history operation sends, as the handle_* methods see it. -/
def eventOf (h : Heap) (op : Op) (m : Mut) : Ev :=
  match op with
  | .dictSet o key =>
    match (h.obj o).byname.find? (·.1 = key) with
    | some e => ⟨[], [], [(e.2, h.next)]⟩
    | none => ⟨[], [h.next], []⟩
  | .dictUpdate o keys =>
    let r := dictUpd (h.obj o).byname ((dedupKeys keys).zip (freshIds h (dedupKeys keys).length))
    ⟨[], r.2.1, r.2.2⟩
  | _ => ⟨scUnregs m.script, scRegs m.script, []⟩

/-- The handle_* method that serves a trait of a link (`name` ↦ `tl_handler`,
`name_items` ↦ `tl_handler_items` of the `_register_<kind>` method the trait's kind selects):
the same for `.` and `:` links and for handlers with 0, 3 or 4 arguments. -/
theorem handlerFor_table (n : Bool) (ty : LType) :
    handlerFor prog ⟨.child, n⟩ ty false = some .simple ∧
    handlerFor prog ⟨.kids, n⟩ ty false = some .list ∧ handlerFor prog ⟨.kids, n⟩ ty true = some .listItems ∧
    handlerFor prog ⟨.group, n⟩ ty false = some .list ∧ handlerFor prog ⟨.group, n⟩ ty true = some .listItems ∧
    handlerFor prog ⟨.byname, n⟩ ty false = some .dict ∧ handlerFor prog ⟨.byname, n⟩ ty true = some .dictItems := by
  cases n <;> cases ty <;> decide

/-- The method for a trait, read off `handlerFor_table`. -/
def methOf : Trait → Option (Meth × Bool)
  | .link .child => some (.simple, false)
  | .link .kids => some (.list, false)
  | .link .group => some (.list, false)
  | .link .byname => some (.dict, false)
  | .items .kids => some (.listItems, true)
  | .items .group => some (.listItems, true)
  | .items .byname => some (.dictItems, true)
  | _ => none

theorem handle_simple_src (ev : Ev) :
    handleSrc prog .simple false ev = unregAll ev.olds ++ regAll ev.news := by
  simp [handleSrc, prog, h_simple, runH]

theorem handle_list_src (ev : Ev) :
    handleSrc prog .list false ev = unregAll ev.olds ++ regAll ev.news := by
  simp [handleSrc, prog, h_list, runH, evalCond, evalAtom]

theorem handle_listItems_src (ev : Ev) :
    handleSrc prog .listItems true ev = unregAll ev.olds ++ regAll ev.news := by
  simp [handleSrc, prog, h_list, h_listItems, runH, evalCond, evalAtom]

theorem handle_dict_src (ev : Ev) :
    handleSrc prog .dict false ev = unregAll ev.olds ++ regAll ev.news := by
  simp [handleSrc, prog, h_dict, runH, evalCond, evalAtom]

theorem handle_dictItems_src (ev : Ev) :
    handleSrc prog .dictItems true ev =
      unregAll ev.olds ++ regAll ev.news ++ ev.changed.flatMap (fun c => [Act.unreg c.1, Act.reg c.2]) := by
  cases hc : ev.changed <;> simp [handleSrc, prog, h_dict, h_dictItems, runH, evalCond, evalAtom, hc]

/-! ### the parts of the translated methods the fragment's environments do not exercise -/

/-- The early-return test of `register`, for every combination of the facts it looks at. -/
theorem registerSkip_table (nn nt isNone isUndef act : Bool) :
    evalCond { nextNone := nn, notify := nt, type := 0, remove := false, valNone := isNone,
               valUndefined := isUndef, valActive := act } prog.registerSkip = (isNone || isUndef || act) := by
  cases isNone <;> cases isUndef <;> cases act <;> rfl

/-- The guard of `unregister`. -/
theorem unregisterGuard_table (nn nt isNone isUninit : Bool) :
    evalCond { nextNone := nn, notify := nt, type := 0, remove := true, valNone := isNone,
               valUninit := isUninit } prog.unregisterGuard = (!isNone && !isUninit) := by
  cases isNone <;> cases isUninit <;> rfl

def expectedTail (a : Attr) (remove : Bool) : Tail :=
  match a with
  | .child => .one (!remove)
  | .kids => .each (!remove) false
  | .group => .each (!remove) false
  | .byname => .each (!remove) true

/-- Deferred items: the walk into the current value(s) is skipped exactly when the item is
deferred, the call is a registration and the attribute is not yet in `object.__dict__`
(the F87 repair of /repo 0c9dae1), for every trait kind, connector and handler type. -/
theorem deferred_tail_table (ty : LType) (l : Link) (remove deferred materialised : Bool) :
    (summary prog (dvtOf l.attr)
        { nextNone := false, notify := l.notify, type := typeNum prog ty, remove := remove,
          deferred := deferred, materialised := materialised }).tail =
      if !remove && deferred && !materialised then Tail.none else expectedTail l.attr remove := by
  rcases l with ⟨a, n⟩
  cases ty <;> cases a <;> cases n <;> cases remove <;> cases deferred <;> cases materialised <;> rfl

/-- … and the notifiers do not depend on `deferred` / `materialised`. -/
theorem deferred_hooks_table (ty : LType) (k : Nat) (l : Link) (remove deferred materialised : Bool) :
    (summary prog (dvtOf l.attr)
        { nextNone := false, notify := l.notify, type := typeNum prog ty, remove := remove,
          deferred := deferred, materialised := materialised }).hooks.map (toHook k l.attr) = linkHooks ty k l := by
  rcases l with ⟨a, n⟩
  cases ty <;> cases a <;> cases n <;> cases remove <;> cases deferred <;> cases materialised <;> rfl

/-- DST signatures (handler(new) / handler(name, new); outside the model, oracle only): what the
source installs for them, as a table: on a notifying Instance link `handle_dst` alone, on a
notifying container link `handle_error` on both traits, never the user's handler; on a `:` link
the same re-registration handlers as for the other signatures. -/
def dstHooks (a : Attr) (notify : Bool) : List (Bool × Who × Bool) :=
  match a, notify with
  | .child, true => [(false, .tl .dst, true)]
  | .child, false => [(false, .tl .simple, true)]
  | .kids, true => [(false, .tl .error, true), (true, .tl .error, true)]
  | .kids, false => [(false, .tl .list, true), (true, .tl .listItems, true)]
  | .group, true => [(false, .tl .error, true), (true, .tl .error, true)]
  | .group, false => [(false, .tl .list, true), (true, .tl .listItems, true)]
  | .byname, true => [(false, .tl .error, true), (true, .tl .error, true)]
  | .byname, false => [(false, .tl .dict, true), (true, .tl .dictItems, true)]

theorem dst_hooks_table (l : Link) (remove : Bool) :
    (summary prog (dvtOf l.attr)
        { nextNone := false, notify := l.notify, type := prog.dstListener, remove := remove }).hooks
      = dstHooks l.attr l.notify := by
  rcases l with ⟨a, n⟩
  cases a <;> cases n <;> cases remove <;> rfl

/-- `_register_anytrait` (the `-` / `+meta` names, outside the fragment): ONE anytrait notifier with the
user's handler, no named notifier, nothing below is visited — whatever the item's flags. -/
theorem anytrait_table (nn nt remove : Bool) (ty : Nat) :
    (match lookup prog.regMethods RegName.anytrait with
     | some b => exec { nextNone := nn, notify := nt, type := ty, remove := remove } b {}
     | none => { raised := true }) =
      { anyHooks := [Who.user], done := true } := by
  cases nn <;> cases nt <;> cases remove <;> rfl

/-- The machinery's OWN handlers (handle_simple / handle_list(_items) / handle_dict(_items) / handle_dst /
handle_error) are installed with `dispatch="extended"` (synchronously, whatever dispatch the user's
handler asked for) for every link kind, connector, handler type (ANY / SRC / DST) and `remove`; the
user's handler always with `self.dispatch`.  (Failed for Dict links before /repo 257ca45: F105.) -/
theorem reregistration_sync_table (l : Link) (ty : Nat) (hty : ty = prog.anyListener ∨ ty = prog.srcListener ∨
      ty = prog.dstListener) (remove : Bool) :
    ∀ p ∈ (summary prog (dvtOf l.attr) { nextNone := false, notify := l.notify, type := ty, remove := remove }).hooks,
      p.2.2 = (match p.2.1 with | .tl _ => true | .user => false) := by
  rcases l with ⟨a, n⟩
  rcases hty with rfl | rfl | rfl <;> cases a <;> cases n <;> cases remove <;> decide

/-- The traits a wildcard / metadata item registers on an object, read off the translated branch of
`register`: never events; with a metadata name the traits whose metadata is set (`+m`) resp. not set
(`-m`); with a prefix only the traits whose name starts with it. -/
theorem wild_selected_is_source (metaNamed metaDefined prefixNonEmpty : Bool) (ts : List TInfo) :
    wild.selected metaNamed metaDefined prefixNonEmpty ts =
      ts.filter (fun t => !t.isEvent && (!metaNamed || (if metaDefined then t.metaSet else !t.metaSet)) &&
        (!prefixNonEmpty || t.hasPrefix)) := by
  unfold Wild.selected
  congr 1
  funext t
  cases metaNamed <;> cases metaDefined <;> cases prefixNonEmpty <;>
    simp [wild, Filter.holds]

theorem wild_flags : wild.anytraitFirst = true ∧ wild.hooksTraitAdded = true := ⟨rfl, rfl⟩

/-- `register` classifies every trait kind as `type_map` says … -/
theorem regKind_table :
    regKind prog .constant = .simple ∧ regKind prog .list = .list ∧ regKind prog .dict = .dict ∧
    regKind prog .set = .list := by decide

/-- … and so does `_new_trait_added` for a trait added to a listened-to object later (it reads
`handler.default_value_type` like `register`; before /repo a16357d it read `handler.default_value_`,
which is no attribute, and every late trait went to `_register_simple`: finding F107, repaired). -/
theorem lateKind_table (d : DVT) : lateKind prog wild d = regKind prog d := by cases d <;> rfl

/-- The three listener types are distinct constants and `type_map` sends List / Dict / Set traits to
`_register_list / _register_dict / _register_list` (alias) and everything else to `_register_simple`. -/
theorem constants_table :
    prog.anyListener ≠ prog.srcListener ∧ prog.anyListener ≠ prog.dstListener ∧
    prog.srcListener ≠ prog.dstListener := by decide

end TraitsVerif.Model.LisL
