/-
`…_src` lemmas, part 4: `get_trait` (all `instance` arguments that do not
clone: `instance ≤ 0` and `instance = 1`), `add_trait`, `remove_trait`, `trait`,
`base_trait`.
-/
import TraitsVerif.Lemmas.ResolveSource3
namespace TraitsVerif.Model.ResL
open TraitsVerif TraitsVerif.Model.Resolve TraitsVerif.Generated

theorem user6_m_trait (E : Env) (a : List V) (st : St) : user6 E .m_trait a st = user4 E .m_trait a st := rfl

theorem Map.erase_of_get_none {β : Type} (m : Map β) (k : Name) (h : m.get k = none) : m.erase k = m := by
  induction m with
  | nil => rfl
  | cons e m ih =>
    obtain ⟨k', v⟩ := e
    rw [Map.get_cons] at h
    by_cases hk : k' = k
    · rw [if_pos hk] at h; cases h
    · rw [if_neg hk] at h
      show List.filter _ _ = _
      simp only [List.filter_cons, ne_eq, hk, not_false_eq_true, decide_true, ↓reduceIte]
      exact congrArg _ (ih h)

/-! ### `add_trait` -/

set_option maxHeartbeats 8000000 in
theorem add_trait_src (E : Env) (w : World) (oi : Nat) (o : Obj) (c : Cls) (name : Name) (t : Trait)
    (nI nO : Bool) (hI : nI = true → o.itraits = []) :
    asPy (user7 E .m_add_trait [.obj, .name name, .trait t] (St.init w oi o c nI nO))
      = some (addTrait w oi o c name t) := by
  have h0 := fun env' => (get_trait0_src E (St.mk w oi o c nI nO none none env') name hI).2
  cases hi : o.itraits.get name with
  | some t0 =>
    resl_eval [user7, user6_m_trait, ResolvePy.add_trait, h0, trait0V, hi]
    simp [asPy, addTrait, trait0, hi]
  | none =>
    cases hc : c.ctraits.get name with
    | some t0 =>
      resl_eval [user7, user6_m_trait, ResolvePy.add_trait, h0, trait0V, hi, hc]
      simp [asPy, addTrait, trait0, hi, hc]
    | none =>
      resl_eval [user7, user6_m_trait, ResolvePy.add_trait, h0, trait0V, hi, hc]
      simp [asPy, addTrait, trait0, hi, hc]

/-! ### `remove_trait` -/

set_option maxHeartbeats 8000000 in
theorem remove_trait_src (E : Env) (w : World) (oi : Nat) (o : Obj) (c : Cls) (name : Name)
    (nI nO : Bool) (hI : nI = true → o.itraits = []) (ho : w.objs[oi]? = some o) :
    asPy (user7 E .m_remove_trait [.obj, .name name] (St.init w oi o c nI nO))
      = some (removeTrait w oi o c name) := by
  have h0 := fun env' => (get_trait0_src E (St.mk w oi o c nI nO none none env') name hI).2
  have hself : w.objs.set oi o = w.objs := set_getElem?_self ho
  cases hi : o.itraits.get name with
  | some t0 =>
    cases hd : o.dict.get name with
    | some dv =>
      resl_eval [user7, user6_m_trait, ResolvePy.remove_trait, h0, trait0V, hi, hd]
      simp [asPy, removeTrait, trait0, hi, setDict_eq _ ho]
    | none =>
      resl_eval [user7, user6_m_trait, ResolvePy.remove_trait, h0, trait0V, hi, hd]
      simp [asPy, removeTrait, trait0, hi, Map.erase_of_get_none _ _ hd]
  | none =>
    cases hc : c.ctraits.get name with
    | some t0 =>
      cases hd : o.dict.get name with
      | some dv =>
        resl_eval [user7, user6_m_trait, ResolvePy.remove_trait, h0, trait0V, hi, hc, hd]
        simp [asPy, removeTrait, trait0, hi, hc, setDict_eq _ ho]
      | none =>
        resl_eval [user7, user6_m_trait, ResolvePy.remove_trait, h0, trait0V, hi, hc, hd]
        simp [asPy, removeTrait, trait0, hi, hc, Map.erase_of_get_none _ _ hd, hself]
    | none =>
      resl_eval [user7, user6_m_trait, ResolvePy.remove_trait, h0, trait0V, hi, hc]
      simp [asPy, removeTrait, trait0, hi, hc]

/-! ### `get_trait` without cloning (`instance ≤ 0` or `instance = 1`) -/

set_option maxHeartbeats 16000000 in
theorem get_trait_src (E : Env) (w : World) (oi : Nat) (o : Obj) (c : Cls) (name : Name) (inst : Int)
    (nI nO : Bool) (hI : nI = true → o.itraits = []) (hstar : NoStar c)
    (hinst : inst = 1 ∨ inst = 0 ∨ (inst ≤ 0 ∧ inst ≠ 0 ∧ inst ≠ 1)) :
    asGetTrait (user7 E .get_trait [.obj, .name name, .int inst] (St.init w oi o c nI nO))
      = some (getTrait w oi o c name inst) ∧
    user7 E .m_trait [.obj, .name name, .int inst] (St.init w oi o c nI nO) =
      user7 E .get_trait [.obj, .name name, .int inst] (St.init w oi o c nI nO) := by
  refine ⟨?_, rfl⟩
  have hgp := fun env' => get_prefix_trait_src E (St.mk w oi o c nI nO none none env') name false hI hstar
  simp only [Bool.false_eq_true, ↓reduceIte] at hgp
  cases nI with
  | true =>
    have hi : o.itraits.get name = none := by rw [hI rfl]; rfl
    rcases hinst with h1 | h0 | ⟨hle, hn0, hn1⟩
    · subst h1
      resl_eval [user7, ResolveC.get_trait, hi]
      simp [asGetTrait, getTrait, hi]
    · subst h0
      cases hc : c.ctraits.get name <;>
          resl_eval [user7, ResolveC.get_trait, hi, hc, Int.reduceLE] <;>
          simp [asGetTrait, getTrait, hi, hc, Int.reduceLE]
    · cases hc : c.ctraits.get name with
          | some t =>
            resl_eval [user7, ResolveC.get_trait, hi, hc, hle, hn0, hn1]
            simp [asGetTrait, getTrait, hi, hc, hle, hn0, hn1]
          | none =>
            simp only [getPrefixTraitV] at hgp
            cases hpt : prefixTrait c o name false with
            | error e =>
              simp only [hpt] at hgp
              resl_eval [user7, user7_get_prefix_trait, ResolveC.get_trait, hi, hc, hgp, hle, hn0, hn1]
              simp [asGetTrait, getTrait, hi, hc, getPrefixTrait, hpt, hle, hn0, hn1]
            | ok t =>
              simp only [hpt] at hgp
              cases hfi : (fireTraitAdded o name).itraits.get name <;>
              resl_eval [user7, user7_get_prefix_trait, ResolveC.get_trait, hi, hc, hgp, hfi, hle, hn0, hn1,
                St.fire, St.putCTraits, St.putObj] <;>
              simp [asGetTrait, getTrait, hi, hc, getPrefixTrait, hpt, hfi, hle, hn0, hn1]
  | false =>
    cases hi : o.itraits.get name with
    | some t =>
      resl_eval [user7, ResolveC.get_trait, hi]
      simp [asGetTrait, getTrait, hi]
    | none =>
      rcases hinst with h1 | h0 | ⟨hle, hn0, hn1⟩
      · subst h1
        resl_eval [user7, ResolveC.get_trait, hi]
        simp [asGetTrait, getTrait, hi]
      · subst h0
        cases hc : c.ctraits.get name <;>
              resl_eval [user7, ResolveC.get_trait, hi, hc, Int.reduceLE] <;>
              simp [asGetTrait, getTrait, hi, hc, Int.reduceLE]
      · cases hc : c.ctraits.get name with
              | some t =>
                resl_eval [user7, ResolveC.get_trait, hi, hc, hle, hn0, hn1]
                simp [asGetTrait, getTrait, hi, hc, hle, hn0, hn1]
              | none =>
                simp only [getPrefixTraitV] at hgp
                cases hpt : prefixTrait c o name false with
                | error e =>
                  simp only [hpt] at hgp
                  resl_eval [user7, user7_get_prefix_trait, ResolveC.get_trait, hi, hc, hgp, hle, hn0, hn1]
                  simp [asGetTrait, getTrait, hi, hc, getPrefixTrait, hpt, hle, hn0, hn1]
                | ok t =>
                  simp only [hpt] at hgp
                  cases hfi : (fireTraitAdded o name).itraits.get name <;>
                  resl_eval [user7, user7_get_prefix_trait, ResolveC.get_trait, hi, hc, hgp, hfi, hle, hn0, hn1,
                    St.fire, St.putCTraits, St.putObj] <;>
                  simp [asGetTrait, getTrait, hi, hc, getPrefixTrait, hpt, hfi, hle, hn0, hn1]

end TraitsVerif.Model.ResL
