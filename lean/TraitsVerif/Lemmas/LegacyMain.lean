/-
Preservation of the refinement invariant by every step, together with the
exact calls of the legacy handler (helper lemmas for C16).
-/
import TraitsVerif.Lemmas.LegacyStep
namespace TraitsVerif.Model.Legacy
open List

theorem reach_of_same_targets {h h' : Heap} (ht : TreeShaped h)
    (hsame : ∀ p a' c, c ∈ targets h' a' p ↔ c ∈ targets h a' p) {L : List Link} :
    ∀ m x, x ∈ reach h' L m ↔ x ∈ reach h L m := by
  intro m x
  apply descFrom_congr ht
  intro p a' c _
  exact hsame p a' c

theorem getElem?_length_none {α} (L : List α) : L[L.length]? = none := by simp

/-- A change of a link attribute (reassignment or container mutation) in a state
satisfying the invariant. -/
theorem dispatch_change {N : Name} {st : St} (hinv : Inv N st) {h' : Heap} {o : Nat} {a : Attr}
    {t : Trait} {sc : List Act}
    (htr : t = .link a ∨ (t = .items a ∧ isContainer a = true))
    (hc : Change st.h h' o a (scUnregs sc) (scRegs sc))
    (hshape : (∀ c ∈ scRegs sc, st.h.next ≤ c) ∨ sc = unregAll (scUnregs sc) ++ regAll (scRegs sc)) :
    Inv N { st with h := h', s := (dispatch h' N o t sc st.s).1 } ∧
    ((st.registered = true ∧ Reports N st.h o t) → (dispatch h' N o t sc st.s).2 = [(o, t)]) ∧
    (¬(st.registered = true ∧ Reports N st.h o t) → (dispatch h' N o t sc st.s).2 = []) := by
  have ht := hinv.tree
  have ht' : TreeShaped h' := hc.tree ht
  obtain ⟨dnone, dfinal, dlink⟩ := dispatch_inv hinv h' o t sc
  have tnf : ∀ f, t ≠ .final f := by
    intro f e; rcases htr with h1 | ⟨h1, _⟩ <;> rw [h1] at e <;> cases e
  -- what `Reports` means here
  have hrep : Reports N st.h o t → ∃ k l, N.links[k]? = some l ∧ l.attr = a ∧ o ∈ reach st.h N.links k := by
    intro hr
    rcases htr with h1 | ⟨h1, _⟩ <;> subst h1
    · obtain ⟨k, l, h1, h2, _, h4⟩ := hr; exact ⟨k, l, h1, h2, h4⟩
    · obtain ⟨k, l, h1, h2, _, _, h4⟩ := hr; exact ⟨k, l, h1, h2, h4⟩
  -- the state does not change and reachability neither
  have stay : (dispatch h' N o t sc st.s).1 = st.s →
      (∀ k l, o ∈ reach st.h N.links k → N.links[k]? = some l → l.attr ≠ a) →
      Inv N { st with h := h', s := (dispatch h' N o t sc st.s).1 } := by
    intro hs hoff
    refine ⟨ht', by rw [hs]; exact hinv.good, ?_⟩
    intro m x
    show x ∈ (dispatch h' N o t sc st.s).1.active m ↔ _
    rw [hs, hinv.act]
    exact and_congr_right (fun _ => (hc.reach_off_path ht hoff m x).symm)
  by_cases hr' : st.registered = false
  · -- not registered
    have hd := dnone (Or.inl hr')
    refine ⟨?_, fun ⟨h1, _⟩ => (by rw [hr'] at h1; cases h1), fun _ => by rw [hd]⟩
    refine ⟨ht', by rw [hd]; exact hinv.good, ?_⟩
    intro m x
    show x ∈ (dispatch h' N o t sc st.s).1.active m ↔ _
    rw [hd, hinv.act]; simp [hr']
  have hr : st.registered = true := by simpa using hr'
  by_cases hno : ∀ k, o ∉ reach st.h N.links k
  · -- registered, the object is not on the name
    have hd := dnone (Or.inr hno)
    refine ⟨stay (by rw [hd]) (fun k l hk => (hno k hk).elim), ?_, fun _ => by rw [hd]⟩
    rintro ⟨_, hrp⟩
    obtain ⟨k, _, _, _, hk⟩ := hrep hrp
    exact (hno k hk).elim
  obtain ⟨k, hok⟩ : ∃ k, o ∈ reach st.h N.links k := by
    apply Classical.byContradiction
    intro hne
    exact hno (fun k hk => hne ⟨k, hk⟩)
  have huniq : ∀ k', o ∈ reach st.h N.links k' → k' = k := fun k' hk' => reach_unique_depth ht hk' hok
  have hkle := reach_le_length hok
  rcases Nat.eq_or_lt_of_le hkle with hkeq | hklt
  · -- at the final level
    subst hkeq
    have hd := dfinal ⟨hr, hok⟩
    have hnone : ∀ k' l', o ∈ reach st.h N.links k' → N.links[k']? = some l' → False := by
      intro k' l' hk' hl'
      rw [huniq k' hk', getElem?_length_none] at hl'; cases hl'
    have hd2 : (dispatch h' N o t sc st.s).2 = [] := by rw [hd]; simp [tnf]
    refine ⟨stay (by rw [hd]) (fun k' l' hk' hl' => (hnone k' l' hk' hl').elim), ?_, fun _ => hd2⟩
    rintro ⟨_, hrp⟩
    obtain ⟨k', l', hl', _, hk'⟩ := hrep hrp
    exact (hnone k' l' hk' hl').elim
  · -- at link `k`
    obtain ⟨l, hl⟩ : ∃ l, N.links[k]? = some l := ⟨N.links[k], by simp [hklt]⟩
    have hd := dlink k l hr hok hl
    have hl_uniq : ∀ k' l', o ∈ reach st.h N.links k' → N.links[k']? = some l' → l' = l := by
      intro k' l' hk' hl'
      rw [huniq k' hk', hl] at hl'; cases hl'; rfl
    by_cases hla : l.attr = a
    · -- the name follows this attribute here: the handler of item `k` runs
      have hH : Handles l t := by
        rcases htr with h1 | ⟨h1, h2⟩
        · exact Or.inl (by rw [h1, hla])
        · exact Or.inr ⟨by rw [h1, hla], by rw [hla]; exact h2⟩
      have hd1 : (dispatch h' N o t sc st.s).1 =
          runScript h' N.htype N.final (k + 1) (N.links.drop (k + 1)) sc st.s := by
        rw [hd]; simp [hH]
      have hcr : ∀ c ∈ scUnregs sc, c ∈ reach st.h N.links (k + 1) := by
        intro c hcm
        exact mem_reach_succ.mpr ⟨l, o, hl, hok, by rw [hla]; exact hc.olds_sub c hcm⟩
      have hUnd : ∀ c ∈ scUnregs sc, ∀ j x, x ∈ descFrom h' N.links (k + 1) c j →
          x ∈ st.s.active (k + 1 + j) := by
        intro c hcm j x hx
        have hx' := (hc.descFrom_old ht (hc.olds_sub c hcm)).mp hx
        exact (hinv.act _ _).mpr ⟨hr, descFrom_sub_reach (hcr c hcm) hx'⟩
      have hnotact : ∀ c, st.h.next ≤ c → ∀ m, c ∉ st.s.active m := by
        intro c hcf m hm
        have := reach_lt_next ht ((hinv.act _ _).mp hm).2
        omega
      -- the effect of the handler's script on the `active` tables
      have hscript : Good N (runScript h' N.htype N.final (k + 1) (N.links.drop (k + 1)) sc st.s) ∧
          ∀ m x, x ∈ (runScript h' N.htype N.final (k + 1) (N.links.drop (k + 1)) sc st.s).active m ↔
            (x ∈ st.s.active m ∧
              ¬(k + 1 ≤ m ∧ ∃ c ∈ scUnregs sc, x ∈ descFrom h' N.links (k + 1) c (m - (k + 1)))) ∨
            (k + 1 ≤ m ∧ ∃ c ∈ scRegs sc, x ∈ descFrom h' N.links (k + 1) c (m - (k + 1))) := by
        rcases hshape with hfresh | hphase
        · -- only fresh leaves are registered
          obtain ⟨hg', hact'⟩ := runScript_spec ht' N (k + 1) (by omega) sc st.s hinv.good hUnd
            (fun c hcm => ⟨hnotact c (hfresh c hcm), fun a' => hc.fresh_leaf ht (hfresh c hcm) a'⟩)
            hc.olds_nodup hc.news_nodup
          refine ⟨hg', ?_⟩
          intro m x
          rw [hact']
          have hleaf : ∀ c ∈ scRegs sc, ∀ j, x ∈ descFrom h' N.links (k + 1) c j ↔ j = 0 ∧ x = c :=
            fun c hcm j => descFrom_leaf (fun a' => hc.fresh_leaf ht (hfresh c hcm) a')
          constructor
          · rintro (h1 | ⟨rfl, h2⟩)
            · exact Or.inl h1
            · exact Or.inr ⟨Nat.le_refl _, x, h2, (hleaf x h2 _).mpr ⟨by omega, rfl⟩⟩
          · rintro (h1 | ⟨hm, c, hcm, hx⟩)
            · exact Or.inl h1
            · obtain ⟨h0, rfl⟩ := (hleaf c hcm _).mp hx
              exact Or.inr ⟨by omega, hcm⟩
        · -- everything removed is unregistered first, then everything added is registered
          rw [hphase, runScript_append]
          have hu : scUnregs (unregAll (scUnregs sc)) = scUnregs sc := by simp
          have hrn : scRegs (unregAll (scUnregs sc)) = [] := by simp
          obtain ⟨hg1, hact1⟩ := runScript_spec ht' N (k + 1) (by omega) (unregAll (scUnregs sc)) st.s
            hinv.good (by rw [hu]; exact hUnd) (by rw [hrn]; simp) (by rw [hu]; exact hc.olds_nodup)
            (by rw [hrn]; simp)
          rw [hu, hrn] at hact1
          obtain ⟨hg2, hact2⟩ := registerMany_spec ht' N (k + 1) (by omega) o a (scRegs sc) _
            (fun c hcm => (hc.mem c).mpr (Or.inr hcm)) hc.news_nodup hg1 (by
              intro c hcm j x hx m hm
              rcases (hact1 m x).mp hm with ⟨h1, h2⟩ | ⟨_, h3⟩
              · rcases hc.news_ok c hcm with hf | hcar
                · obtain ⟨_, rfl⟩ := (descFrom_leaf (fun a' => hc.fresh_leaf ht hf.1 a')).mp hx
                  exact hnotact x hf.1 m h1
                · have hx' := (hc.descFrom_old ht (hc.olds_sub c hcar)).mp hx
                  have hxr := descFrom_sub_reach (hcr c hcar) hx'
                  have hm' : m = k + 1 + j := reach_unique_depth ht ((hinv.act _ _).mp h1).2 hxr
                  exact h2 ⟨by omega, c, hcar, by rw [hm', show k + 1 + j - (k + 1) = j by omega]; exact hx⟩
              · cases h3)
          refine ⟨hg2, ?_⟩
          intro m x
          rw [hact2, hact1]
          simp
      obtain ⟨hg', hact'⟩ := hscript
      refine ⟨⟨ht', by rw [hd1]; exact hg', ?_⟩, ?_, ?_⟩
      · intro m x
        show x ∈ (dispatch h' N o t sc st.s).1.active m ↔ _
        rw [hd1, hact', hc.reach_on_path ht hok hl hla m x, hinv.act]
        simp only [hr, true_and]
        constructor
        · rintro (⟨h1, h2⟩ | h3)
          · refine Or.inl ⟨h1, ?_⟩
            rintro ⟨hm, c, hcm, hx⟩
            exact h2 ⟨hm, c, hcm, (hc.descFrom_old ht (hc.olds_sub c hcm)).mpr hx⟩
          · exact Or.inr h3
        · rintro (⟨h1, h2⟩ | h3)
          · refine Or.inl ⟨h1, ?_⟩
            rintro ⟨hm, c, hcm, hx⟩
            exact h2 ⟨hm, c, hcm, (hc.descFrom_old ht (hc.olds_sub c hcm)).mp hx⟩
          · exact Or.inr h3
      · rintro ⟨_, hrp⟩
        have hN : Notifies (typeOf N.htype k) l t := by
          rcases htr with h1 | ⟨h1, h2⟩ <;> subst h1
          · obtain ⟨k', l', hl', _, hn, hk'⟩ := hrp
            have := hl_uniq k' l' hk' hl'; subst this
            exact ⟨hn, Or.inl (by rw [hla])⟩
          · obtain ⟨k', l', hl', _, hn, hty, hk'⟩ := hrp
            have := hl_uniq k' l' hk' hl'; subst this
            have := huniq k' hk'; subst this
            exact ⟨hn, Or.inr ⟨by rw [hla], by rw [hla]; exact h2, hty⟩⟩
        rw [hd]; simp [hN]
      · intro hnr
        have hN : ¬ Notifies (typeOf N.htype k) l t := by
          rintro ⟨hn, hcase⟩
          apply hnr
          refine ⟨hr, ?_⟩
          rcases htr with h1 | ⟨h1, h2⟩ <;> subst h1
          · exact ⟨k, l, hl, hla, hn, hok⟩
          · rcases hcase with h3 | ⟨_, _, hty⟩
            · cases h3
            · exact ⟨k, l, hl, hla, hn, hty, hok⟩
        rw [hd]; simp [hN]
    · -- the name follows another attribute here
      have hH : ¬ Handles l t := by
        rintro (h1 | ⟨h1, _⟩) <;> rcases htr with h2 | ⟨h2, _⟩ <;> rw [h2] at h1 <;> cases h1 <;> exact hla rfl
      have hN : ¬ Notifies (typeOf N.htype k) l t := by
        rintro ⟨_, h1 | ⟨h1, _⟩⟩ <;> rcases htr with h2 | ⟨h2, _⟩ <;> rw [h2] at h1 <;> cases h1 <;> exact hla rfl
      have hoff : ∀ k' l', o ∈ reach st.h N.links k' → N.links[k']? = some l' → l'.attr ≠ a := by
        intro k' l' hk' hl'
        rw [hl_uniq k' l' hk' hl']; exact hla
      refine ⟨stay (by rw [hd]; simp [hH]) hoff, ?_, fun _ => by rw [hd]; simp [hN]⟩
      rintro ⟨_, hrp⟩
      obtain ⟨k', l', hl', hla', hk'⟩ := hrep hrp
      exact (hoff k' l' hk' hl' hla').elim

/-- A change of a final attribute in a state satisfying the invariant. -/
theorem dispatch_probe {N : Name} {st : St} (hinv : Inv N st) (o : Nat) (f : Final) :
    (dispatch st.h N o (.final f) [] st.s).1 = st.s ∧
    ((st.registered = true ∧ Reports N st.h o (.final f)) →
        (dispatch st.h N o (.final f) [] st.s).2 = [(o, .final f)]) ∧
    (¬(st.registered = true ∧ Reports N st.h o (.final f)) →
        (dispatch st.h N o (.final f) [] st.s).2 = []) := by
  have ht := hinv.tree
  obtain ⟨dnone, dfinal, dlink⟩ := dispatch_inv hinv st.h o (.final f) []
  by_cases hr' : st.registered = false
  · have hd := dnone (Or.inl hr')
    exact ⟨by rw [hd], fun ⟨h1, _⟩ => (by rw [hr'] at h1; cases h1), fun _ => by rw [hd]⟩
  have hr : st.registered = true := by simpa using hr'
  by_cases hno : ∀ k, o ∉ reach st.h N.links k
  · have hd := dnone (Or.inr hno)
    exact ⟨by rw [hd], fun ⟨_, _, h2⟩ => (hno _ h2).elim, fun _ => by rw [hd]⟩
  obtain ⟨k, hok⟩ : ∃ k, o ∈ reach st.h N.links k := by
    apply Classical.byContradiction
    intro hne
    exact hno (fun k hk => hne ⟨k, hk⟩)
  have hkle := reach_le_length hok
  rcases Nat.eq_or_lt_of_le hkle with hkeq | hklt
  · subst hkeq
    have hd := dfinal ⟨hr, hok⟩
    refine ⟨by rw [hd], ?_, ?_⟩
    · rintro ⟨_, hf, _⟩; rw [hd]; simp [hf]
    · intro hn
      have : f ≠ N.final := fun e => hn ⟨hr, e, hok⟩
      rw [hd]; simp [this]
  · obtain ⟨l, hl⟩ : ∃ l, N.links[k]? = some l := ⟨N.links[k], by simp [hklt]⟩
    have hd := dlink k l hr hok hl
    have hH : ¬ Handles l (.final f) := by rintro (h1 | ⟨h1, _⟩) <;> cases h1
    have hN : ¬ Notifies (typeOf N.htype k) l (.final f) := by
      rintro ⟨_, h1 | ⟨h1, _⟩⟩ <;> cases h1
    refine ⟨by rw [hd]; simp [hH], ?_, fun _ => by rw [hd]; simp [hN]⟩
    rintro ⟨_, _, h2⟩
    have := reach_unique_depth ht h2 hok
    omega

/-- One step of a history: the invariant is preserved and the legacy handler is
called exactly when `Reports` says so. -/
theorem step_mutate {N : Name} {st : St} (hinv : Inv N st) {op : Op} {m : Mut}
    (hm : mutate st.h op = some m) :
    Inv N (step N st op).1 ∧
    ((m.fires = true ∧ st.registered = true ∧ Reports N st.h m.o m.trait) →
        (step N st op).2.2 = [(m.o, m.trait)]) ∧
    (¬(m.fires = true ∧ st.registered = true ∧ Reports N st.h m.o m.trait) →
        (step N st op).2.2 = []) := by
  rw [step_of_mutate hm]
  rcases mutate_spec hinv.tree hm with ⟨f, ho, hh, htr, hs, hf⟩ | ⟨a, htr, hc, hquiet, hshape⟩
  · obtain ⟨p1, p2, p3⟩ := dispatch_probe hinv m.o f
    rw [if_pos hf, hh, htr, hs]
    refine ⟨?_, fun ⟨_, h2⟩ => p2 h2, fun hn => p3 (fun h2 => hn ⟨hf, h2⟩)⟩
    show Inv N { st with h := st.h, s := (dispatch st.h N m.o (.final f) [] st.s).1 }
    rw [p1]
    exact hinv
  · by_cases hf : m.fires = true
    · obtain ⟨c1, c2, c3⟩ := dispatch_change hinv htr hc hshape
      rw [if_pos hf]
      exact ⟨c1, fun ⟨_, h2⟩ => c2 h2, fun hn => c3 (fun h2 => hn ⟨hf, h2⟩)⟩
    · have hf' : m.fires = false := by simpa using hf
      rw [if_neg hf]
      refine ⟨⟨hc.tree hinv.tree, hinv.good, ?_⟩, fun ⟨h1, _⟩ => (hf h1).elim, fun _ => rfl⟩
      intro k x
      show x ∈ st.s.active k ↔ _
      rw [hinv.act]
      exact and_congr_right (fun _ => (reach_of_same_targets hinv.tree (hquiet hf') k x).symm)

/-- Registration and removal. -/
theorem step_reg {N : Name} {st : St} (hinv : Inv N st) :
    Inv N (step N st .reg).1 ∧ (step N st .reg).2.2 = [] := by
  by_cases hr : st.registered = true
  · simp [step, hr, hinv]
  · have hr' : st.registered = false := by simpa using hr
    simp only [step, hr', Bool.false_eq_true, if_false, and_true]
    unfold registerTop
    have hempty : ∀ m x, x ∉ st.s.active m := by
      intro m x hx; have := (hinv.act m x).mp hx; rw [hr'] at this; cases this.1
    obtain ⟨hg, hact⟩ := register_spec hinv.tree N N.links 0 root st.s (by simp) (by omega) hinv.good
      (fun _ x _ m => hempty m x)
    refine ⟨hinv.tree, hg, ?_⟩
    intro m x
    show x ∈ (register st.h N.htype N.final 0 N.links root st.s).active m ↔ _
    rw [hact]
    simp [hempty, reach]

theorem step_unreg {N : Name} {st : St} (hinv : Inv N st) :
    Inv N (step N st .unreg).1 ∧ (step N st .unreg).2.2 = [] := by
  by_cases hr : st.registered = true
  · simp only [step, hr, if_true, and_true]
    obtain ⟨hg, hact⟩ := unregister_spec hinv.tree N N.links 0 root st.s (by simp) (by omega) hinv.good
      (by
        intro j x hx
        rw [Nat.zero_add]
        exact (hinv.act j x).mpr ⟨hr, hx⟩)
    refine ⟨hinv.tree, hg, ?_⟩
    intro m x
    show x ∈ (unregister st.h N.htype N.final 0 N.links root st.s).active m ↔ _
    rw [hact, hinv.act]
    simp [reach]
  · have hr' : st.registered = false := by simpa using hr
    simp [step, hr', hinv]

theorem step_inv {N : Name} {st : St} (hinv : Inv N st) (op : Op) : Inv N (step N st op).1 := by
  cases hop : op with
  | reg => exact (step_reg hinv).1
  | unreg => exact (step_unreg hinv).1
  | _ =>
    all_goals
      (cases hm : mutate st.h op with
       | none => subst hop; simp [step, hm, hinv]
       | some m => subst hop; exact (step_mutate hinv hm).1)

theorem run_inv {N : Name} {st : St} (hinv : Inv N st) (ops : List Op) : Inv N (run N st ops) := by
  induction ops generalizing st with
  | nil => exact hinv
  | cons op ops ih => exact ih (step_inv hinv op)

theorem run_append (N : Name) (st : St) (a b : List Op) :
    run N st (a ++ b) = run N (run N st a) b := by
  induction a generalizing st with
  | nil => rfl
  | cons x a ih => simp [run, ih]

/-! ### glue for the property file: start states, Boolean spec ↔ `Reports`, witness data -/

/-- Start of a history: heap `h₀`, no registration, no notifier anywhere. -/
abbrev start (h₀ : Heap) : St := { h := h₀, s := LState.empty, registered := false }

theorem inv_start {N : Name} {h₀ : Heap} (ht : TreeShaped h₀) : Inv N (start h₀) :=
  ⟨ht, Good.empty N, by simp [LState.empty]⟩

theorem inv_run {N : Name} {h₀ : Heap} (ht : TreeShaped h₀) (ops : List Op) :
    Inv N (run N (start h₀) ops) := run_inv (inv_start ht) ops


theorem reportsAt_iff (N : Name) (h : Heap) (o : Nat) (a : Attr) :
    reportsAt N h o a = true ↔
      ∃ k l, N.links[k]? = some l ∧ l.attr = a ∧ l.notify = true ∧ o ∈ reach h N.links k := by
  simp only [reportsAt, List.any_eq_true, List.mem_range]
  constructor
  · rintro ⟨k, _, hk⟩
    cases hl : N.links[k]? with
    | none => simp [hl] at hk
    | some l =>
      simp only [hl, Bool.and_eq_true, decide_eq_true_eq] at hk
      exact ⟨k, l, hl, hk.1.1, hk.1.2, hk.2⟩
  · rintro ⟨k, l, hl, h1, h2, h3⟩
    obtain ⟨hlt, _⟩ := List.getElem?_eq_some_iff.mp hl
    exact ⟨k, hlt, by simp [hl, h1, h2, h3]⟩


/-- The witness: name `kids.value`, 4-argument handler, `root.kids.append(N())`. -/
def witnessName : Name := ⟨[⟨.kids, true⟩], .value, .src, false⟩
def witnessOps : List Op := [.reg]
def witnessOp : Op := .splice 0 0 0 1


theorem not_registered_calls {N : Name} {st : St} (hinv : Inv N st)
    (hr : st.registered = false) (op : Op) (hop : op ≠ .reg) :
    (step N st op).1.registered = false ∧ (step N st op).2.2 = [] := by
  cases op with
  | reg => exact (hop rfl).elim
  | unreg => simp [step, hr]
  | _ =>
    all_goals
      (rename_i op_args
       constructor
       · simp only [step]; split <;> (try split) <;> simp [hr]
       · simp only [step]; split
         · rfl
         · rename_i m hm
           have := (step_mutate hinv hm).2.2 (fun ⟨_, h2, _⟩ => by rw [hr] at h2; cases h2)
           rw [step_of_mutate hm] at this
           split <;> simp_all)


/-- `child.kids.value`, 4-argument handler; build root → 1 → {2,3}, register. -/
def exName : Name := ⟨[⟨.child, true⟩, ⟨.kids, true⟩], .value, .src, false⟩
def exOps : List Op := [.setChild 0 true, .setKids 1 2, .reg]


/-- A deferred registration made when the container already holds an object:
`kids:value`, `deferred=True`, `root.kids = [N()]` first (finding F87 before /repo 0c9dae1). -/
def lateName : Name := ⟨[⟨.kids, false⟩], .value, .src, true⟩
def lateOps : List Op := [.setKids 0 1, .reg]

/-- The decorator shape: deferred, registered first, then the list is filled, emptied, … -/
def decoOps : List Op := [.reg, .splice 0 0 0 1, .splice 0 1 1 1, .unreg]

end TraitsVerif.Model.Legacy
