/-
Lengths and membership after list operations (used by C04's invariant).
-/
import TraitsVerif.Lemmas.SeqRefine
import TraitsVerif.Model.TraitListObject
namespace TraitsVerif.Py
variable {α : Type}

/-! ### delPositions: length and membership -/

theorem delPositionsAux_congr_from (ps ps' : List Int) (i : Nat) (l : List α)
    (h : ∀ j : Nat, i ≤ j → (ps.contains (j : Int) = ps'.contains (j : Int))) :
    delPositionsAux ps i l = delPositionsAux ps' i l := by
  induction l generalizing i with
  | nil => rfl
  | cons x xs ih =>
    simp only [delPositionsAux]
    rw [h i (Nat.le_refl _), ih (i + 1) (fun j hj => h j (by omega))]

/-- Removing one more (new, in-range) position shortens the result by one. -/
theorem delPositionsAux_cons_length (ps : List Int) (p : Nat) (hp : ((p : Int) ∈ ps) = False)
    (i : Nat) (l : List α) (h1 : i ≤ p) (h2 : p < i + l.length) :
    (delPositionsAux ((p : Int) :: ps) i l).length + 1 = (delPositionsAux ps i l).length := by
  induction l generalizing i with
  | nil => simp at h2; omega
  | cons x xs ih =>
    simp only [delPositionsAux]
    by_cases hip : i = p
    · subst hip
      have hc : ps.contains (i : Int) = false := by
        simp only [List.contains_eq_mem, decide_eq_false_iff_not]; simpa using hp
      have hc' : ((i : Int) :: ps).contains (i : Int) = true := by simp
      rw [hc, hc']
      simp only [Bool.false_eq_true, if_false, if_true, List.length_cons]
      rw [delPositionsAux_congr_from ((i : Int) :: ps) ps (i + 1) xs]
      intro j hj
      have : (j : Int) ≠ (i : Int) := by omega
      simp [List.contains_cons, this]
    · have hc : (((p : Int) :: ps).contains (i : Int)) = ps.contains (i : Int) := by
        have : (i : Int) ≠ (p : Int) := by omega
        simp [List.contains_cons, this]
      rw [hc]
      have := ih (i + 1) (by omega) (by simp at h2; omega)
      split <;> simp [this]

/-- Deleting `ps` (distinct, in range) removes exactly `ps.length` items. -/
theorem delPositions_length (l : List α) (ps : List Int) (hnd : ps.Nodup)
    (hr : ∀ p ∈ ps, 0 ≤ p ∧ p < l.length) :
    (delPositions l ps).length + ps.length = l.length := by
  induction ps with
  | nil =>
    simp only [delPositions, List.length_nil, Nat.add_zero]
    rw [delPositionsAux_keep [] 0 l (by simp)]
  | cons p ps ih =>
    have hp := hr p (by simp)
    obtain ⟨hpn, hnd'⟩ := List.nodup_cons.mp hnd
    have ih' := ih hnd' (fun q hq => hr q (by simp [hq]))
    have hcast : ((p.toNat : Nat) : Int) = p := Int.toNat_of_nonneg hp.1
    have := delPositionsAux_cons_length ps p.toNat (by rw [hcast]; simpa using hpn) 0 l (by omega)
      (by omega)
    rw [hcast] at this
    simp only [delPositions, List.length_cons] at ih' ⊢
    omega

theorem delPositionsAux_mem (ps : List Int) (i : Nat) (l : List α) (x : α)
    (h : x ∈ delPositionsAux ps i l) : x ∈ l := by
  induction l generalizing i with
  | nil => simp [delPositionsAux] at h
  | cons y ys ih =>
    simp only [delPositionsAux] at h
    split at h
    · exact List.mem_cons_of_mem _ (ih _ h)
    · rcases List.mem_cons.mp h with h | h
      · simp [h]
      · exact List.mem_cons_of_mem _ (ih _ h)

theorem setPositions_mem (l : List α) (ps : List Int) (vs : List α) (x : α)
    (h : x ∈ setPositions l ps vs) : x ∈ l ∨ x ∈ vs := by
  induction ps generalizing l vs with
  | nil => left; simpa [setPositions] using h
  | cons p ps ih =>
    cases vs with
    | nil => left; simpa [setPositions] using h
    | cons v vs =>
      simp only [setPositions] at h
      rcases ih _ _ h with h | h
      · rcases List.mem_or_eq_of_mem_set h with h | h
        · left; exact h
        · right; simp [h]
      · right; exact List.mem_cons_of_mem _ h

theorem splice_mem (l : List α) (a b : Int) (vs : List α) (x : α) (h : x ∈ splice l a b vs) :
    x ∈ l ∨ x ∈ vs := by
  simp only [splice, List.mem_append] at h
  rcases h with (h | h) | h
  · left; exact List.mem_of_mem_take h
  · right; exact h
  · left; exact List.mem_of_mem_drop h

end TraitsVerif.Py

namespace TraitsVerif.Model
open TraitsVerif TraitsVerif.Py
variable {α : Type}

/-! ### validated items -/

/-- `x` is an output of the item validator: it "satisfies the inner trait after
its documented conversion". -/
def Valid (E : Env α) (x : α) : Prop := ∃ k y, E.v k y = .ok x

theorem valAll_valid {v : Callback α α} {k : Nat} {xs ys : List α} (h : valAll v k xs = .ok ys) :
    ys.length = xs.length ∧ ∀ y ∈ ys, ∃ k' x, v k' x = .ok y := by
  induction xs generalizing k ys with
  | nil => simp only [valAll, Except.ok.injEq] at h; subst h; simp
  | cons x xs ih =>
    simp only [valAll] at h
    cases hv : v k x with
    | error e => simp [hv] at h
    | ok y =>
      cases hr : valAll v (k + 1) xs with
      | error e => simp [hv, hr] at h
      | ok ys' =>
        simp only [hv, hr, Except.ok.injEq] at h; subst h
        obtain ⟨h1, h2⟩ := ih hr
        refine ⟨by simp [h1], ?_⟩
        intro z hz
        rcases List.mem_cons.mp hz with rfl | hz
        · exact ⟨k, x, hv⟩
        · exact h2 z hz

/-- The items an operation carries into the list. -/
def Op.items : Op α → List α
  | .setIdx _ x => [x]
  | .setSlice _ xs => xs
  | .append x => [x]
  | .extend xs => xs
  | .iadd xs => xs
  | .insert _ x => [x]
  | _ => []

theorem validateOp_items (E : Env α) (op op' : Op α) (h : validateOp E op = .ok op') :
    op'.items.length = op.items.length ∧ ∀ y ∈ op'.items, Valid E y := by
  cases op <;> simp only [validateOp, Except.map] at h
  case setIdx i x =>
    split at h
    · cases h
    · rename_i y hy; simp only [Except.ok.injEq] at h; subst h
      exact ⟨rfl, by simp only [Op.items, List.mem_singleton]; rintro z rfl; exact ⟨0, x, hy⟩⟩
  case append x =>
    split at h
    · cases h
    · rename_i y hy; simp only [Except.ok.injEq] at h; subst h
      exact ⟨rfl, by simp only [Op.items, List.mem_singleton]; rintro z rfl; exact ⟨0, x, hy⟩⟩
  case insert i x =>
    split at h
    · cases h
    · rename_i y hy; simp only [Except.ok.injEq] at h; subst h
      exact ⟨rfl, by simp only [Op.items, List.mem_singleton]; rintro z rfl; exact ⟨0, x, hy⟩⟩
  case setSlice s xs =>
    split at h
    · cases h
    · rename_i ys hy; simp only [Except.ok.injEq] at h; subst h
      exact valAll_valid hy
  case extend xs =>
    split at h
    · cases h
    · rename_i ys hy; simp only [Except.ok.injEq] at h; subst h
      exact valAll_valid hy
  case iadd xs =>
    split at h
    · cases h
    · rename_i ys hy; simp only [Except.ok.injEq] at h; subst h
      exact valAll_valid hy
  all_goals (simp only [Except.ok.injEq] at h; subst h; exact ⟨rfl, by simp [Op.items]⟩)

/-- Everything the builtin list holds afterwards was there before or was passed in. -/
theorem pyStep_mem (E : Env α) (hs : SortOk E) (l : List α) (op : Op α) (l' : List α)
    (r : Option α) (h : pyStep E l op = .ok (l', r)) : ∀ x ∈ l', x ∈ l ∨ x ∈ op.items := by
  intro x hx
  cases op with
  | setIdx i y =>
    simp only [pyStep, Py.setIdx, Except.map] at h
    cases hn : normIdx l.length i with
    | none => simp [hn] at h
    | some j =>
      simp only [hn, Except.ok.injEq, Prod.mk.injEq] at h
      obtain ⟨rfl, _⟩ := h
      rcases List.mem_or_eq_of_mem_set hx with h | h
      · left; exact h
      · right; simp [Op.items, h]
  | setSlice s ys =>
    simp only [pyStep, Py.setSlice, Except.map] at h
    cases hidx : s.indices l.length with
    | none => simp [hidx] at h
    | some t =>
      obtain ⟨a, b, k⟩ := t
      by_cases hk : k = 1
      · simp only [hidx, hk, if_true, Except.ok.injEq, Prod.mk.injEq] at h; obtain ⟨rfl, _⟩ := h
        exact splice_mem _ _ _ _ _ hx
      · by_cases hl : ys.length ≠ sliceLen a b k
        · simp [hidx, hk, hl] at h
        · simp only [hidx, hk, hl, if_false, Except.ok.injEq, Prod.mk.injEq] at h
          obtain ⟨rfl, _⟩ := h
          exact setPositions_mem _ _ _ _ hx
  | delIdx i =>
    simp only [pyStep, Py.delIdx, Except.map] at h
    cases hn : normIdx l.length i with
    | none => simp [hn] at h
    | some j =>
      simp only [hn, Except.ok.injEq, Prod.mk.injEq] at h
      obtain ⟨rfl, _⟩ := h
      left; exact List.mem_of_mem_eraseIdx hx
  | delSlice s =>
    simp only [pyStep, Py.delSlice, Except.map] at h
    cases hidx : s.indices l.length with
    | none => simp [hidx] at h
    | some t =>
      obtain ⟨a, b, k⟩ := t
      by_cases hk : k = 1
      · simp only [hidx, hk, if_true, Except.ok.injEq, Prod.mk.injEq] at h; obtain ⟨rfl, _⟩ := h
        rcases splice_mem _ _ _ _ _ hx with h | h
        · left; exact h
        · simp at h
      · simp only [hidx, hk, if_false, Except.ok.injEq, Prod.mk.injEq] at h; obtain ⟨rfl, _⟩ := h
        left; exact delPositionsAux_mem _ _ _ _ hx
  | append y =>
    simp only [pyStep, Except.ok.injEq, Prod.mk.injEq] at h; obtain ⟨rfl, _⟩ := h
    simpa [Op.items] using hx
  | extend ys =>
    simp only [pyStep, Except.ok.injEq, Prod.mk.injEq] at h; obtain ⟨rfl, _⟩ := h
    simpa [Op.items] using hx
  | iadd ys =>
    simp only [pyStep, Except.ok.injEq, Prod.mk.injEq] at h; obtain ⟨rfl, _⟩ := h
    simpa [Op.items] using hx
  | imul n =>
    simp only [pyStep, Except.ok.injEq, Prod.mk.injEq] at h; obtain ⟨rfl, _⟩ := h
    left
    simp only [Py.imul] at hx
    split at hx
    · simp at hx
    · obtain ⟨l'', h1, h2⟩ := List.mem_flatten.mp hx
      rw [(List.mem_replicate.mp h1).2] at h2; exact h2
  | insert i y =>
    simp only [pyStep, Except.ok.injEq, Prod.mk.injEq] at h; obtain ⟨rfl, _⟩ := h
    simp only [Py.insert, List.mem_append, List.mem_cons] at hx
    rcases hx with h | h | h
    · left; exact List.mem_of_mem_take h
    · right; simp [Op.items, h]
    · left; exact List.mem_of_mem_drop h
  | pop i =>
    simp only [pyStep, Py.pop, Except.map] at h
    cases hn : normIdx l.length i with
    | none => simp [hn] at h
    | some j =>
      cases hj : l[j]? with
      | none => simp [hn, hj] at h
      | some y =>
        simp only [hn, hj, Except.ok.injEq, Prod.mk.injEq] at h
        obtain ⟨rfl, _⟩ := h
        left; exact List.mem_of_mem_eraseIdx hx
  | remove y =>
    simp only [pyStep, Py.remove, Except.map] at h
    cases hi : Py.index E.eq l y with
    | none => simp [hi] at h
    | some j =>
      simp only [hi, Except.ok.injEq, Prod.mk.injEq] at h
      obtain ⟨rfl, _⟩ := h
      left; exact List.mem_of_mem_eraseIdx hx
  | clear =>
    simp only [pyStep, Except.ok.injEq, Prod.mk.injEq] at h; obtain ⟨rfl, _⟩ := h
    simp at hx
  | reverse =>
    simp only [pyStep, Except.ok.injEq, Prod.mk.injEq] at h; obtain ⟨rfl, _⟩ := h
    left; simpa using hx
  | sort sp =>
    simp only [pyStep, Except.ok.injEq, Prod.mk.injEq] at h; obtain ⟨rfl, _⟩ := h
    left; exact (hs sp l).mem_iff.mp hx


/-! ### lengths -/

/-- All positions a slice selects are inside the list. -/
theorem positions_in_range {l : List α} {s : Slice} {a b k : Int}
    (hidx : s.indices l.length = some (a, b, k)) :
    ∀ p ∈ positions a k (sliceLen a b k), 0 ≤ p ∧ p < l.length := by
  obtain ⟨hk0, ha, hb⟩ := indices_some hidx
  rcases Int.lt_or_gt_of_ne hk0 with hkneg | hkpos
  · have hA := adjustStart_neg l.length k s.start hkneg
    have hB := adjustStop_neg l.length k s.stop hkneg
    rw [← ha] at hA; rw [← hb] at hB
    by_cases hab : b < a
    · obtain ⟨q, hq, h1, h2⟩ := sliceLen_neg hkneg hab
      rw [hq]
      exact positions_in_range_neg (by omega) hkneg (by omega)
    · rw [sliceLen_neg_empty hkneg (by omega)]; simp [positions]
  · have hA := adjustStart_pos l.length k s.start hkpos
    have hB := adjustStop_pos l.length k s.stop hkpos
    rw [← ha] at hA; rw [← hb] at hB
    by_cases hab : a < b
    · obtain ⟨q, hq, h1, h2⟩ := sliceLen_pos hkpos hab
      rw [hq]
      exact positions_in_range_pos hA.1 hkpos (by omega)
    · rw [sliceLen_pos_empty hkpos (by omega)]; simp [positions]

theorem step_is_one_iff {n : Nat} {s : Slice} {a b k : Int} (hidx : s.indices n = some (a, b, k)) :
    (s.step = none ∨ s.step = some 1) ↔ k = 1 := by
  unfold Slice.indices at hidx
  simp only at hidx
  split at hidx
  · cases hidx
  · simp only [Option.some.injEq, Prod.mk.injEq] at hidx
    obtain ⟨_, _, h3⟩ := hidx
    cases hs : s.step with
    | none => simp [hs] at h3; simp [h3]
    | some k' => simp [hs] at h3; simp [h3]

theorem splice_length {l : List α} {s : Slice} {a b : Int} (vs : List α)
    (hidx : s.indices l.length = some (a, b, 1)) :
    ((splice l a b vs).length : Int) = (l.length : Int) - sliceLen a b 1 + vs.length := by
  obtain ⟨_, ha, hb⟩ := indices_some hidx
  have hA := adjustStart_pos l.length 1 s.start (by omega)
  have hB := adjustStop_pos l.length 1 s.stop (by omega)
  rw [← ha] at hA; rw [← hb] at hB
  have hm : a + (sliceLen a b 1 : Nat) ≤ l.length ∧
      (a.toNat + sliceLen a b 1 = (if b < a then a else b).toNat) := by
    unfold sliceLen; split <;> split <;> omega
  simp only [splice, List.length_append, List.length_take, List.length_drop]
  have : (if b < a then a else b).toNat ≤ l.length := by split <;> omega
  omega

/-- The length the builtin list has after an operation is the one the
`TraitListObject` guard predicted (`none`: the length does not change). -/
theorem pyStep_length (E : Env α) (hs : SortOk E) (l : List α) (op : Op α) (l' : List α)
    (r : Option α) (h : pyStep E l op = .ok (l', r)) :
    match guardLen l op with
    | .ok (some n) => (l'.length : Int) = n
    | .ok none => l'.length = l.length
    | .error _ => False := by
  cases op with
  | setIdx i y =>
    simp only [pyStep, Py.setIdx, Except.map] at h
    cases hn : normIdx l.length i with
    | none => simp [hn] at h
    | some j =>
      simp only [hn, Except.ok.injEq, Prod.mk.injEq] at h
      obtain ⟨rfl, _⟩ := h
      simp [guardLen]
  | setSlice s ys =>
    simp only [pyStep, Py.setSlice, Except.map] at h
    cases hidx : s.indices l.length with
    | none => simp [hidx] at h
    | some t =>
      obtain ⟨a, b, k⟩ := t
      have hsel := selected_length hidx
      by_cases hk : k = 1
      · subst hk
        simp only [hidx, if_true, Except.ok.injEq, Prod.mk.injEq] at h; obtain ⟨rfl, _⟩ := h
        have h1 := (step_is_one_iff hidx).mpr rfl
        simp only [guardLen, h1, if_true, Py.getSlice, hidx, hsel]
        exact splice_length ys hidx
      · have h1 : ¬ (s.step = none ∨ s.step = some 1) := fun hc => hk ((step_is_one_iff hidx).mp hc)
        by_cases hl : ys.length ≠ sliceLen a b k
        · simp [hidx, hk, hl] at h
        · simp only [hidx, hk, hl, if_false, Except.ok.injEq, Prod.mk.injEq] at h
          obtain ⟨rfl, _⟩ := h
          simp only [guardLen, h1, if_false, Py.getSlice, hidx, hsel, hl]
          exact setPositions_length _ _ _
  | delIdx i =>
    simp only [pyStep, Py.delIdx, Except.map] at h
    cases hn : normIdx l.length i with
    | none => simp [hn] at h
    | some j =>
      simp only [hn, Except.ok.injEq, Prod.mk.injEq] at h
      obtain ⟨rfl, _⟩ := h
      obtain ⟨h0, h1, hjn⟩ := normIdx_some hn
      have hjl : j < l.length := by omega
      simp only [guardLen, List.length_eraseIdx, hjl, if_true]
      omega
  | delSlice s =>
    simp only [pyStep, Py.delSlice, Except.map] at h
    cases hidx : s.indices l.length with
    | none => simp [hidx] at h
    | some t =>
      obtain ⟨a, b, k⟩ := t
      have hsel := selected_length hidx
      simp only [guardLen, Py.getSlice, hidx, hsel]
      by_cases hk : k = 1
      · subst hk
        simp only [hidx, if_true, Except.ok.injEq, Prod.mk.injEq] at h; obtain ⟨rfl, _⟩ := h
        have := splice_length ([] : List α) hidx
        simp only [List.length_nil] at this
        omega
      · simp only [hidx, hk, if_false, Except.ok.injEq, Prod.mk.injEq] at h; obtain ⟨rfl, _⟩ := h
        obtain ⟨hk0, _, _⟩ := indices_some hidx
        have := delPositions_length l _ (positions_nodup hk0 (sliceLen a b k)) (positions_in_range hidx)
        rw [positions_length] at this
        omega
  | append y =>
    simp only [pyStep, Except.ok.injEq, Prod.mk.injEq] at h; obtain ⟨rfl, _⟩ := h
    simp [guardLen]
  | extend ys =>
    simp only [pyStep, Except.ok.injEq, Prod.mk.injEq] at h; obtain ⟨rfl, _⟩ := h
    simp [guardLen]
  | iadd ys =>
    simp only [pyStep, Except.ok.injEq, Prod.mk.injEq] at h; obtain ⟨rfl, _⟩ := h
    simp [guardLen]
  | imul n =>
    simp only [pyStep, Except.ok.injEq, Prod.mk.injEq] at h; obtain ⟨rfl, _⟩ := h
    simp only [guardLen, Py.imul]
    split
    · rename_i hn
      have : (l.length : Int) * n ≤ 0 := by
        have h0 : (0 : Int) ≤ l.length := by omega
        nlinarith
      simp only [List.length_nil]
      omega
    · rename_i hn
      have hcast : ((n.toNat : Nat) : Int) = n := Int.toNat_of_nonneg (by omega)
      have : (0 : Int) ≤ (l.length : Int) * n := by
        have h0 : (0 : Int) ≤ l.length := by omega
        nlinarith
      simp only [List.length_flatten, List.map_replicate, List.sum_replicate_nat]
      push_cast
      rw [hcast]
      have e : n * (l.length : Int) = (l.length : Int) * n := by ring
      omega
  | insert i y =>
    simp only [pyStep, Except.ok.injEq, Prod.mk.injEq] at h; obtain ⟨rfl, _⟩ := h
    obtain ⟨h0, h1, hp⟩ := insertPos_eq l.length i
    simp only [guardLen, Py.insert, List.length_append, List.length_take, List.length_cons,
      List.length_drop]
    omega
  | pop i =>
    simp only [pyStep, Py.pop, Except.map] at h
    cases hn : normIdx l.length i with
    | none => simp [hn] at h
    | some j =>
      obtain ⟨h0, h1, hjn⟩ := normIdx_some hn
      have hjl : j < l.length := by omega
      simp only [hn, List.getElem?_eq_getElem hjl, Except.ok.injEq, Prod.mk.injEq] at h
      obtain ⟨rfl, _⟩ := h
      simp only [guardLen, List.length_eraseIdx, hjl, if_true]
      omega
  | remove y =>
    simp only [pyStep, Py.remove, Except.map] at h
    cases hi : Py.index E.eq l y with
    | none => simp [hi] at h
    | some j =>
      simp only [hi, Except.ok.injEq, Prod.mk.injEq] at h
      obtain ⟨rfl, _⟩ := h
      have hjl : j < l.length := findIdx?_lt hi
      simp only [guardLen, List.length_eraseIdx, hjl, if_true]
      omega
  | clear =>
    simp only [pyStep, Except.ok.injEq, Prod.mk.injEq] at h; obtain ⟨rfl, _⟩ := h
    simp [guardLen]
  | reverse =>
    simp only [pyStep, Except.ok.injEq, Prod.mk.injEq] at h; obtain ⟨rfl, _⟩ := h
    simp [guardLen]
  | sort sp =>
    simp only [pyStep, Except.ok.injEq, Prod.mk.injEq] at h; obtain ⟨rfl, _⟩ := h
    simp only [guardLen]
    exact (hs sp l).length_eq

/-- The guard only looks at the number of items carried, which validation preserves. -/
theorem guardLen_validated (E : Env α) (l : List α) (op op' : Op α)
    (h : validateOp E op = .ok op') : guardLen l op' = guardLen l op := by
  have hl := (validateOp_items E op op' h).1
  cases op <;> simp only [validateOp, Except.map] at h
  case setSlice s xs =>
    split at h
    · cases h
    · simp only [Except.ok.injEq] at h; subst h
      simp only [Op.items] at hl
      simp [guardLen, hl]
  case extend xs =>
    split at h
    · cases h
    · simp only [Except.ok.injEq] at h; subst h
      simp only [Op.items] at hl
      simp [guardLen, hl]
  case iadd xs =>
    split at h
    · cases h
    · simp only [Except.ok.injEq] at h; subst h
      simp only [Op.items] at hl
      simp [guardLen, hl]
  case setIdx i x =>
    split at h
    · cases h
    · simp only [Except.ok.injEq] at h; subst h; simp [guardLen]
  case append x =>
    split at h
    · cases h
    · simp only [Except.ok.injEq] at h; subst h; simp [guardLen]
  case insert i x =>
    split at h
    · cases h
    · simp only [Except.ok.injEq] at h; subst h; simp [guardLen]
  all_goals (simp only [Except.ok.injEq] at h; subst h; rfl)

end TraitsVerif.Model
