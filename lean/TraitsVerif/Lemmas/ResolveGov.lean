/-
"Every trait the lookup of (object, name) can be dispatched to satisfies P":
the invariant behind the policy theorems of C13 (strict, read-only, constant,
event, remove restores), its preservation along histories, and the outcome of
get / set / del under it.
-/
import TraitsVerif.Lemmas.ResolveInv
namespace TraitsVerif.Model.Resolve
open TraitsVerif

/-- Class level: the class-dictionary entry if there is one, else whatever an
uncached resolution (read or write) returns. -/
def ClassGov (P : Trait → Prop) (c : Cls) (name : Name) : Prop :=
  ∀ t, (c.ctraits.get name = some t ∨
        (c.ctraits.get name = none ∧ ∃ b, resolve₀ c.prefixes name b = .ok t)) → P t

def InstGov (P : Trait → Prop) (o : Obj) (name : Name) : Prop :=
  ∀ t, o.itraits.get name = some t → P t

/-- The wildcard table has an entry for '' (`update_traits_class_dict` makes sure). -/
def Total (c : Cls) : Prop := ∃ t, ([], t) ∈ c.prefixes

def ClassGovAt (P : Trait → Prop) (w : World) (oi : Nat) (name : Name) : Prop :=
  ∃ o c, w.objs[oi]? = some o ∧ w.classes[o.cls]? = some c ∧ ClassGov P c name ∧ Total c

def GovAt (P : Trait → Prop) (w : World) (oi : Nat) (name : Name) : Prop :=
  ∃ o c, w.objs[oi]? = some o ∧ w.classes[o.cls]? = some c ∧ InstGov P o name ∧ ClassGov P c name ∧ Total c

def DictAt (w : World) (oi : Nat) (name : Name) (r : Option Val) : Prop :=
  ∃ o, w.objs[oi]? = some o ∧ o.dict.get name = r

/-- A name with a class-dictionary entry in `P` (a declared class trait, say)
and no instance trait: `GovAt` holds. -/
theorem GovAt.of_class_trait {P : Trait → Prop} {w : World} {oi : Nat} {name : Name} {o : Obj} {c : Cls} {t : Trait}
    (ho : w.objs[oi]? = some o) (hc : w.classes[o.cls]? = some c) (hi : o.itraits.get name = none)
    (hct : c.ctraits.get name = some t) (hP : P t) (htot : Total c) : GovAt P w oi name := by
  refine ⟨o, c, ho, hc, ?_, ?_, htot⟩
  · intro t' ht'; rw [hi] at ht'; cases ht'
  · intro t' ht'
    rcases ht' with ht' | ⟨ht', _⟩
    · rw [hct] at ht'; cases ht'; exact hP
    · rw [hct] at ht'; cases ht'

theorem GovAt.classGovAt {P : Trait → Prop} {w : World} {oi : Nat} {name : Name} (h : GovAt P w oi name) :
    ClassGovAt P w oi name := by
  obtain ⟨o, c, ho, hc, _, hcg, ht⟩ := h
  exact ⟨o, c, ho, hc, hcg, ht⟩

theorem Dispatch.sat {P : Trait → Prop} {c : Cls} {o : Obj} {name : Name} {b : Bool} {t : Trait}
    (h : Dispatch c o name b (.ok t)) (hcp : ClsPlain c) (hop : ObjPlain o)
    (hi : InstGov P o name) (hcg : ClassGov P c name) : P t := by
  cases h with
  | inst h => exact hi t h
  | cls _ h => exact hcg t (Or.inl h)
  | pref _ hct h =>
    rw [prefixTrait_plain_eq hcp hop] at h
    exact hcg t (Or.inr ⟨hct, b, h⟩)

/-- A resolution (by any object of any class) leaves the class-level rule of
class `ci` for `name` inside `P`. -/
theorem Resolved.classGov {P : Trait → Prop} {w w' : World} {o1 : Obj} {c1 : Cls} {name1 : Name}
    (h : Resolved w o1 c1 name1 w') (hw : NoDeleg w) (ho1 : o1 ∈ w.objs) (hc1 : w.classes[o1.cls]? = some c1)
    {ci : Nat} {c : Cls} {name : Name} (hc : w.classes[ci]? = some c) (hg : ClassGov P c name) :
    ∃ c2, w'.classes[ci]? = some c2 ∧ ClassGov P c2 name ∧ c2.prefixes = c.prefixes := by
  cases h with
  | same => exact ⟨c, hc, hg, rfl⟩
  | cached b t hi hct hp =>
    by_cases hci : o1.cls = ci
    · subst hci
      rw [hc1] at hc; cases hc
      refine ⟨_, getElem?_set_self' hc1, ?_, rfl⟩
      rw [prefixTrait_plain_eq (hw.cls c1 (List.mem_of_getElem? hc1)) (hw.obj o1 ho1)] at hp
      intro t2 ht2
      by_cases hn : name1 = name
      · subst hn
        simp only [Map.get_set_same] at ht2
        rcases ht2 with ht2 | ⟨ht2, _⟩
        · cases ht2; exact hg t (Or.inr ⟨hct, b, hp⟩)
        · cases ht2
      · simp only [Map.get_set_ne _ _ hn] at ht2
        exact hg t2 ht2
    · exact ⟨c, by simp only [getElem?_set_ne' hci]; exact hc, hg, rfl⟩

/-- The class-level rule survives *every* step (whatever is added to instances). -/
theorem ClassGovAt_step (E : Env) {P : Trait → Prop} {w : World} (hw : NoDeleg w) {oi : Nat} {name : Name}
    (hg : ClassGovAt P w oi name) (op : Op) : ClassGovAt P (step E w op).1 oi name := by
  obtain ⟨o, c, ho, hc, hcg, htot⟩ := hg
  have he := step_effect E w hw.hooks op
  generalize (step E w op).1 = w1 at he
  cases he with
  | noop => exact ⟨o, c, ho, hc, hcg, htot⟩
  | mkClass bases decls bs h => exact ⟨o, c, ho, getElem?_append_some hc, hcg, htot⟩
  | new ci c' h => exact ⟨o, c, getElem?_append_some ho, hc, hcg, htot⟩
  | obj _ oi1 name1 o1 c1 w' o1' ht ho1 hc1 hres hch =>
    obtain ⟨c2, hc2, hg2, hp2⟩ := hres.classGov hw (List.mem_of_getElem? ho1) hc1 hc hcg
    have htot2 : Total c2 := by unfold Total; rw [hp2]; exact htot
    by_cases hoi : oi1 = oi
    · subst hoi
      rw [ho1] at ho; cases ho
      refine ⟨o1', c2, ?_, ?_, hg2, htot2⟩
      · simp only; rw [hres.objs]; exact getElem?_set_self' ho1
      · simp only; rw [hch.cls]; exact hc2
    · refine ⟨o, c2, ?_, hc2, hg2, htot2⟩
      simp only; rw [hres.objs, getElem?_set_ne' hoi]; exact ho
  | res _ oi1 name1 o1 c1 w' ht ho1 hc1 hres =>
    obtain ⟨c2, hc2, hg2, hp2⟩ := hres.classGov hw (List.mem_of_getElem? ho1) hc1 hc hcg
    have htot2 : Total c2 := by unfold Total; rw [hp2]; exact htot
    exact ⟨o, c2, by rw [hres.objs]; exact ho, hc2, hg2, htot2⟩

theorem ClassGovAt_run (E : Env) {P : Trait → Prop} {w : World} (hw : NoDeleg w) {oi : Nat} {name : Name}
    (hg : ClassGovAt P w oi name) {ops : List Op} (hops : ∀ op ∈ ops, op.Plain) :
    ClassGovAt P (run E w ops).1 oi name := by
  induction ops generalizing w with
  | nil => exact hg
  | cons op ops ih =>
    simp only [run]
    exact ih (NoDeleg_step E hw (hops op List.mem_cons_self)) (ClassGovAt_step E hw hg op)
      (fun op' h => hops op' (List.mem_cons_of_mem _ h))

/-- The full rule (instance and class level) survives every step that does not
`add_trait` a trait outside `P` for this very (object, name). -/
theorem GovAt_step (E : Env) {P : Trait → Prop} {w : World} (hw : NoDeleg w) {oi : Nat} {name : Name}
    (hg : GovAt P w oi name) {op : Op} (hadd : ∀ t, op = .addTrait oi name t → P t) :
    GovAt P (step E w op).1 oi name := by
  obtain ⟨o, c, ho, hc, hig, hcg, htot⟩ := hg
  have he := step_effect E w hw.hooks op
  generalize (step E w op).1 = w1 at he
  cases he with
  | noop => exact ⟨o, c, ho, hc, hig, hcg, htot⟩
  | mkClass bases decls bs h => exact ⟨o, c, ho, getElem?_append_some hc, hig, hcg, htot⟩
  | new ci c' h => exact ⟨o, c, getElem?_append_some ho, hc, hig, hcg, htot⟩
  | obj _ oi1 name1 o1 c1 w' o1' ht ho1 hc1 hres hch =>
    obtain ⟨c2, hc2, hg2, hp2⟩ := hres.classGov hw (List.mem_of_getElem? ho1) hc1 hc hcg
    have htot2 : Total c2 := by unfold Total; rw [hp2]; exact htot
    by_cases hoi : oi1 = oi
    · subst hoi
      rw [ho1] at ho; cases ho
      rw [hc1] at hc; cases hc
      refine ⟨o1', c2, ?_, ?_, ?_, hg2, htot2⟩
      · simp only; rw [hres.objs]; exact getElem?_set_self' ho1
      · simp only; rw [hch.cls]; exact hc2
      · intro t hti
        by_cases hn : name1 = name
        · subst hn
          rcases hch.itrT with h | ⟨_, h⟩ | ⟨t', ht', h⟩
          · rw [h] at hti; exact hig t hti
          · rw [h] at hti; cases hti
          · rw [ht'] at hti; cases hti
            rcases h with h | ⟨_, h | ⟨hn', b, h⟩⟩
            · exact hadd t h
            · exact hcg t (Or.inl h)
            · rw [prefixTrait_plain_eq (hw.cls _ (List.mem_of_getElem? hc1))
                (hw.obj _ (List.mem_of_getElem? ho1))] at h
              exact hcg t (Or.inr ⟨hn', b, h⟩)
        · rw [hch.itr name (Ne.symm hn)] at hti; exact hig t hti
    · refine ⟨o, c2, ?_, hc2, hig, hg2, htot2⟩
      simp only; rw [hres.objs, getElem?_set_ne' hoi]; exact ho
  | res _ oi1 name1 o1 c1 w' ht ho1 hc1 hres =>
    obtain ⟨c2, hc2, hg2, hp2⟩ := hres.classGov hw (List.mem_of_getElem? ho1) hc1 hc hcg
    have htot2 : Total c2 := by unfold Total; rw [hp2]; exact htot
    exact ⟨o, c2, by rw [hres.objs]; exact ho, hc2, hig, hg2, htot2⟩

/-- The `__dict__` entry of (object, name) keeps the value `r` along a step when
setters / getters of traits in `P` keep it and `remove_trait` is harmless. -/
theorem DictAt_step (E : Env) {P : Trait → Prop} {w : World} (hw : NoDeleg w) {oi : Nat} {name : Name}
    {r : Option Val} (hg : GovAt P w oi name) (hd : DictAt w oi name r) {op : Op}
    (hset : ∀ t d value d', P t → d.get name = r → setattrKind E t d name value = .ok d' → d'.get name = r)
    (hget : ∀ t d v d', P t → d.get name = r → d.get name = none →
      getattrKind E t d name = .ok (v, d') → d'.get name = r)
    (hrem : op = .removeTrait oi name → r = none) :
    DictAt (step E w op).1 oi name r := by
  obtain ⟨o, c, ho, hc, hig, hcg, htot⟩ := hg
  obtain ⟨o', ho', hdr⟩ := hd
  rw [ho] at ho'; cases ho'
  have he := step_effect E w hw.hooks op
  generalize (step E w op).1 = w1 at he
  cases he with
  | noop => exact ⟨o, ho, hdr⟩
  | mkClass bases decls bs h => exact ⟨o, ho, hdr⟩
  | new ci c' h => exact ⟨o, getElem?_append_some ho, hdr⟩
  | obj _ oi1 name1 o1 c1 w' o1' ht ho1 hc1 hres hch =>
    by_cases hoi : oi1 = oi
    · subst hoi
      rw [ho1] at ho; cases ho
      rw [hc1] at hc; cases hc
      refine ⟨o1', by simp only; rw [hres.objs]; exact getElem?_set_self' ho1, ?_⟩
      by_cases hn : name1 = name
      · subst hn
        have hcp := hw.cls _ (List.mem_of_getElem? hc1)
        have hop := hw.obj _ (List.mem_of_getElem? ho1)
        rcases hch.dictT with h | ⟨h1, h⟩ | ⟨t, value, hdis, h⟩ | ⟨t, v, hnone, hdis, h⟩
        · rw [h]; exact hdr
        · rw [h]; exact (hrem h1).symm
        · exact hset t _ value _ (hdis.sat hcp hop hig hcg) hdr h
        · exact hget t _ v _ (hdis.sat hcp hop hig hcg) hdr hnone h
      · rw [hch.dict name (Ne.symm hn)]; exact hdr
    · exact ⟨o, by simp only; rw [hres.objs, getElem?_set_ne' hoi]; exact ho, hdr⟩
  | res _ oi1 name1 o1 c1 w' ht ho1 hc1 hres => exact ⟨o, by rw [hres.objs]; exact ho, hdr⟩

/-! ### outcome of set / del / get on an object under `GovAt` -/

theorem resolve₀_total {c : Cls} (htot : Total c) (name : Name) : ∃ t, resolve₀ c.prefixes name true = .ok t := by
  unfold resolve₀
  split
  · split
    · exact ⟨_, rfl⟩
    · exact ⟨_, rfl⟩
  · obtain ⟨e, he⟩ := firstMatch_total htot name
    rw [he]; exact ⟨_, rfl⟩

/-- A write always finds a trait (the '' wildcard makes the search total) and the
trait it finds is in `P`. -/
theorem resolveSet_ok {P : Trait → Prop} {w : World} {oi : Nat} {o : Obj} {c : Cls} {name : Name}
    (hcp : ClsPlain c) (hop : ObjPlain o) (hig : InstGov P o name) (hcg : ClassGov P c name) (htot : Total c)
    (hh : o.hooks = []) (ho : w.objs[oi]? = some o) :
    ∃ w' t, resolveSet w oi o c name = (w', .ok t) ∧ P t ∧ Resolved w o c name w' := by
  obtain ⟨hr, hd⟩ := resolveSet_spec w c name hh ho
  cases hrs : resolveSet w oi o c name with
  | mk w' res =>
    rw [hrs] at hr hd
    cases res with
    | ok t => exact ⟨w', t, rfl, hd.sat hcp hop hig hcg, hr⟩
    | error e =>
      exfalso
      cases hd with
      | pref hi hct h =>
        rw [prefixTrait_plain_eq hcp hop] at h
        obtain ⟨t, ht⟩ := resolve₀_total htot name
        rw [ht] at h; cases h

theorem step_set_eq (E : Env) {w : World} {oi : Nat} {o : Obj} {c : Cls} (ho : w.objs[oi]? = some o)
    (hc : w.classes[o.cls]? = some c) (name : Name) (v : Val) :
    step E w (.set oi name v) = setattro E w oi o c name (some v) := by
  simp only [step]; exact withObj_eq ho hc _

theorem step_del_eq (E : Env) {w : World} {oi : Nat} {o : Obj} {c : Cls} (ho : w.objs[oi]? = some o)
    (hc : w.classes[o.cls]? = some c) (name : Name) :
    step E w (.del oi name) = setattro E w oi o c name none := by
  simp only [step]; exact withObj_eq ho hc _

theorem step_get_eq (E : Env) {w : World} {oi : Nat} {o : Obj} {c : Cls} (ho : w.objs[oi]? = some o)
    (hc : w.classes[o.cls]? = some c) (name : Name) :
    step E w (.get oi name) = getattro E w oi o c name := by
  simp only [step]; exact withObj_eq ho hc _

/-- Outcome of `setattr` / `delattr`: that of the setter of *some* trait in `P`
on the object's current `__dict__`. -/
theorem setattro_outcome (E : Env) {P : Trait → Prop} {w : World} (hw : NoDeleg w) {oi : Nat} {name : Name}
    (hg : GovAt P w oi name) (value : Option Val) :
    ∃ o c t, w.objs[oi]? = some o ∧ w.classes[o.cls]? = some c ∧ P t ∧
      (setattro E w oi o c name value).2 = (setattrKind E t o.dict name value).map (fun _ => Out.done) := by
  obtain ⟨o, c, ho, hc, hig, hcg, htot⟩ := hg
  obtain ⟨w', t, hrs, hpt, _⟩ := resolveSet_ok (w := w) (hw.cls c (List.mem_of_getElem? hc))
    (hw.obj o (List.mem_of_getElem? ho)) hig hcg htot (hw.hooks o (List.mem_of_getElem? ho)) ho
  refine ⟨o, c, t, ho, hc, hpt, ?_⟩
  unfold setattro
  rw [hrs]
  simp only
  cases setattrKind E t o.dict name value <;> rfl

/-- Outcome of `getattr` when neither `__dict__` nor the type has the name:
AttributeError from the dunder rule, or the getter of some trait in `P`. -/
theorem getattro_outcome (E : Env) {P : Trait → Prop} {w : World} (hw : NoDeleg w) {oi : Nat} {name : Name}
    (hg : GovAt P w oi name) (hd : DictAt w oi name none) (hca : E.classAttr name = none) :
    ∃ o c, w.objs[oi]? = some o ∧ w.classes[o.cls]? = some c ∧
      (((getattro E w oi o c name).2 = .error .attributeError ∧ (P anyTrait ∨ P genericTrait)) ∨
       ∃ t, P t ∧ (getattro E w oi o c name).2 = (getattrKind E t o.dict name).map (fun r => Out.val r.1)) := by
  obtain ⟨o, c, ho, hc, hig, hcg, htot⟩ := hg
  obtain ⟨o', ho', hdn⟩ := hd
  rw [ho] at ho'; cases ho'
  refine ⟨o, c, ho, hc, ?_⟩
  have hcp := hw.cls c (List.mem_of_getElem? hc)
  have hop := hw.obj o (List.mem_of_getElem? ho)
  unfold getattro
  rw [hdn]
  simp only
  cases h0 : trait0 c o name with
  | some t =>
    right
    refine ⟨t, (trait0_dispatch false h0).sat hcp hop hig hcg, ?_⟩
    simp only
    cases getattrKind E t o.dict name with
    | error e => rfl
    | ok r => obtain ⟨v, d⟩ := r; rfl
  | none =>
    simp only [hca]
    obtain ⟨hi, hct⟩ := trait0_none h0
    cases hp : prefixTrait c o name false with
    | error e =>
      rw [getPrefixTrait_error hp]
      left
      simp only
      rw [prefixTrait_plain_eq hcp hop] at hp
      unfold resolve₀ at hp
      by_cases hdu : isDunder name = true
      · simp only [hdu, ↓reduceIte] at hp
        by_cases hcl : name = classDunder
        · simp only [hcl, ↓reduceIte] at hp; cases hp
        · simp only [hcl, ↓reduceIte] at hp
          simp at hp; cases hp
          refine ⟨rfl, Or.inl (hcg anyTrait (Or.inr ⟨hct, true, ?_⟩))⟩
          unfold resolve₀
          simp [hdu, hcl]
      · simp only [hdu] at hp
        obtain ⟨e', he'⟩ := firstMatch_total htot name
        rw [he'] at hp; simp at hp
    | ok t =>
      rw [getPrefixTrait_ok hp hi (hw.hooks o (List.mem_of_getElem? ho)) ho]
      right
      have hpt : P t := by
        rw [prefixTrait_plain_eq hcp hop] at hp
        exact hcg t (Or.inr ⟨hct, false, hp⟩)
      refine ⟨t, hpt, ?_⟩
      simp only
      cases getattrKind E t o.dict name with
      | error e => rfl
      | ok r => obtain ⟨v, d⟩ := r; rfl

end TraitsVerif.Model.Resolve
