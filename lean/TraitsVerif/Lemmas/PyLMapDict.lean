/-
The hand-written model `Map.TraitDict.step` is the interpretation of the
translated source (`Generated/MapSetProg.lean` `traitDictProg`) — one lemma per
operation.  Symbolic execution of the interpreter by `simp`, after the case
splits the model itself makes; the `for key, value in items:` loop of `update` /
`__ior__` by induction on the list of pairs (`loop_spec`).
-/
import TraitsVerif.Generated.MapSetProg
import TraitsVerif.Lemmas.MapStep
set_option linter.unusedSimpArgs false
set_option linter.unusedVariables false
namespace TraitsVerif.Lemmas.PyLMD
open TraitsVerif TraitsVerif.Py TraitsVerif.Model.Map TraitsVerif.Model.PyLM TraitsVerif.Model.PyLM.D
open TraitsVerif.Py.Dict (get? contains set erase update ofPairs Op Ret)
variable {K V : Type} [DecidableEq K]

local notation "runTDM" => runTraitDictM Generated.traitDictProg

macro "pylm_exec" "[" ts:Lean.Parser.Tactic.simpLemma,* "]" : tactic =>
  `(tactic| simp [runTraitDictM, Generated.traitDictProg, lookupFn, bindArgs, evalDefault, exec, eval, evalAll,
      getVar, setVar, truthy, builtinSup, Dict.step, summarize, summaryOfStep, valOfRet, TraitDict.step,
      storeValidated, Dict.contains_eq, $ts,*])

theorem td_setitem (kv : Callback K K) (vv : Callback V V) (d : Dict K V) (k : K) (v : V) :
    runTDM kv vv "__setitem__" [.key k, .val v] d = summaryOfStep d (TraitDict.step kv vv d (.setitem k v)) := by
  cases hk : kv 0 k with
  | error e => pylm_exec [hk]
  | ok k' =>
    cases hv : vv 0 v with
    | error e => pylm_exec [hk, hv]
    | ok v' => cases hg : get? d k' <;> pylm_exec [hk, hv, hg]

theorem td_delitem (kv : Callback K K) (vv : Callback V V) (d : Dict K V) (k : K) :
    runTDM kv vv "__delitem__" [.key k] d = summaryOfStep d (TraitDict.step kv vv d (.delitem k)) := by
  cases hg : get? d k <;> pylm_exec [hg]

theorem td_clear (kv : Callback K K) (vv : Callback V V) (d : Dict K V) :
    runTDM kv vv "clear" [] d = summaryOfStep d (TraitDict.step kv vv d .clear) := by
  cases d <;> pylm_exec []

theorem td_setdefault (kv : Callback K K) (vv : Callback V V) (d : Dict K V) (k : K) (v : V) :
    runTDM kv vv "setdefault" [.key k, .val v] d = summaryOfStep d (TraitDict.step kv vv d (.setdefault k v)) := by
  cases hg0 : get? d k with
  | some x => pylm_exec [hg0]
  | none =>
    cases hk : kv 0 k with
    | error e => pylm_exec [hg0, hk]
    | ok k' =>
      cases hv : vv 0 v with
      | error e => pylm_exec [hg0, hk, hv]
      | ok v' => cases hg : get? d k' <;> pylm_exec [hg0, hk, hv, hg]

theorem td_pop (kv : Callback K K) (vv : Callback V V) (d : Dict K V) (k : K) :
    runTDM kv vv "pop" [.key k] d = summaryOfStep d (TraitDict.step kv vv d (.pop k)) := by
  cases hg : get? d k <;> pylm_exec [hg]

theorem td_popDefault (kv : Callback K K) (vv : Callback V V) (d : Dict K V) (k : K) (dflt : V) :
    runTDM kv vv "pop" [.key k, .val dflt] d = summaryOfStep d (TraitDict.step kv vv d (.popDefault k dflt)) := by
  cases hg : get? d k <;> pylm_exec [hg]

theorem td_popitem (kv : Callback K K) (vv : Callback V V) (d : Dict K V) :
    runTDM kv vv "popitem" [] d = summaryOfStep d (TraitDict.step kv vv d .popitem) := by
  cases hg : d.getLast? with
  | none => pylm_exec [hg]
  | some p => obtain ⟨k, x⟩ := p; pylm_exec [hg, ofPairs, update, Dict.set]

/-! ### The `for key, value in items:` loop of `update` / `__ior__` -/

/-- The frame during the loop: slots 0-4 = other, validated_dict, added, changed,
items; 5-10 = key, value and the temporaries of the body (whatever they hold);
`tail` = the slots after them (`retval` in `__ior__`). -/
def lframe (o it : Val K V) (acc : UpdAcc K V) (j5 j6 j7 j8 j9 j10 : Option (Val K V)) (tail : Frame K V) :
    Frame K V :=
  some o :: some (.dict acc.validated) :: some (.dict acc.added) :: some (.dict acc.changed) :: some it ::
    j5 :: j6 :: j7 :: j8 :: j9 :: j10 :: tail

def lstate (d : Dict K V) (ev : List (Triple K V)) (n : Nat) (fr : Frame K V) : St K V :=
  { self := d, vars := fr, kcount := n, vcount := n, events := ev }

/-- One iteration of the model's `updLoop`. -/
def accStep (d : Dict K V) (acc : UpdAcc K V) (k' : K) (v' : V) : UpdAcc K V :=
  match get? d k' with
  | some old => { acc with changed := Dict.set acc.changed k' old, validated := Dict.set acc.validated k' v' }
  | none => { acc with added := Dict.set acc.added k' v', validated := Dict.set acc.validated k' v' }

theorem updLoop_cons (d : Dict K V) (k : K) (v : V) (ps : List (K × V)) (acc : UpdAcc K V) :
    updLoop d ((k, v) :: ps) acc = updLoop d ps (accStep d acc k v) := by
  simp only [updLoop, accStep]; cases get? d k <;> rfl

/-- What one run of the loop body does to a loop state. -/
def BodySpec (kv : Callback K K) (vv : Callback V V) (d : Dict K V) (ev : List (Triple K V)) (o it : Val K V)
    (tail : Frame K V) (F : St K V → St K V × Flow K V) : Prop :=
  ∀ (acc : UpdAcc K V) (n : Nat) (j7 j8 j9 j10 : Option (Val K V)) (k : K) (v : V),
    let st := lstate d ev n (lframe o it acc (some (.key k)) (some (.val v)) j7 j8 j9 j10 tail)
    (∀ e, kv n k = .error e → (F st).2 = .raised e ∧ (F st).1.self = d ∧ (F st).1.events = ev) ∧
    (∀ k' e, kv n k = .ok k' → vv n v = .error e →
      (F st).2 = .raised e ∧ (F st).1.self = d ∧ (F st).1.events = ev) ∧
    (∀ k' v', kv n k = .ok k' → vv n v = .ok v' →
      F st = (lstate d ev (n + 1) (lframe o it (accStep d acc k' v') (some (.key k)) (some (.val v))
        (some (.key k')) (some (.key k')) (some (.val v')) (some (.val v')) tail), .next))

/-- **The loop is the model's fold**: `valPairs` decides whether it raises, and
`updLoop` is what it leaves in `validated_dict`, `added`, `changed`. -/
theorem loop_spec (kv : Callback K K) (vv : Callback V V) (d : Dict K V) (ev : List (Triple K V)) (o it : Val K V)
    (tail : Frame K V) (F : St K V → St K V × Flow K V) (hF : BodySpec kv vv d ev o it tail F)
    (ps : List (K × V)) :
    ∀ (acc : UpdAcc K V) (n : Nat) (j5 j6 j7 j8 j9 j10 : Option (Val K V)),
      let st := lstate d ev n (lframe o it acc j5 j6 j7 j8 j9 j10 tail)
      (∀ e, valPairs kv vv n ps = .error e →
        ∃ st', forLoop 5 6 F ps st = (st', .raised e) ∧ st'.self = d ∧ st'.events = ev) ∧
      (∀ ps', valPairs kv vv n ps = .ok ps' → ∃ j5' j6' j7' j8' j9' j10',
        forLoop 5 6 F ps st = (lstate d ev (n + ps.length) (lframe o it (updLoop d ps' acc)
          j5' j6' j7' j8' j9' j10' tail), .next)) := by
  induction ps with
  | nil =>
    intro acc n j5 j6 j7 j8 j9 j10
    refine ⟨?_, ?_⟩
    · intro e h; simp [valPairs] at h
    · intro ps' h
      simp only [valPairs, Except.ok.injEq] at h; subst h
      exact ⟨j5, j6, j7, j8, j9, j10, by simp [forLoop, updLoop]⟩
  | cons p ps ih =>
    obtain ⟨k, v⟩ := p
    intro acc n j5 j6 j7 j8 j9 j10
    have hbind : ({ lstate d ev n (lframe o it acc j5 j6 j7 j8 j9 j10 tail) with
        vars := setVar (setVar (lstate d ev n (lframe o it acc j5 j6 j7 j8 j9 j10 tail)).vars 5 (.key k)) 6 (.val v) }
        : St K V) = lstate d ev n (lframe o it acc (some (.key k)) (some (.val v)) j7 j8 j9 j10 tail) := by
      simp [lstate, lframe, setVar]
    obtain ⟨h1, h2, h3⟩ := hF acc n j7 j8 j9 j10 k v
    simp only [forLoop, hbind]
    refine ⟨?_, ?_⟩
    · intro e h
      simp only [valPairs] at h
      cases hk : kv n k with
      | error e' =>
        simp only [hk, Except.error.injEq] at h; subst h
        obtain ⟨hs, hd, he⟩ := h1 e' hk
        refine ⟨(F _).1, ?_, hd, he⟩
        rw [show F _ = ((F _).1, (F _).2) from rfl, hs]
      | ok k' =>
        cases hv : vv n v with
        | error e' =>
          simp only [hk, hv, Except.error.injEq] at h; subst h
          obtain ⟨hs, hd, he⟩ := h2 k' e' hk hv
          refine ⟨(F _).1, ?_, hd, he⟩
          rw [show F _ = ((F _).1, (F _).2) from rfl, hs]
        | ok v' =>
          simp only [hk, hv] at h
          cases hr : valPairs kv vv (n + 1) ps with
          | ok r => simp [hr] at h
          | error e' =>
            simp only [hr, Except.error.injEq] at h; subst h
            have hs := h3 k' v' hk hv
            obtain ⟨st', hl, hd, he⟩ := (ih (accStep d acc k' v') (n + 1) (some (.key k)) (some (.val v))
              (some (.key k')) (some (.key k')) (some (.val v')) (some (.val v'))).1 e' hr
            exact ⟨st', by simp [hs, hl], hd, he⟩
    · intro ps' h
      simp only [valPairs] at h
      cases hk : kv n k with
      | error e' => simp [hk] at h
      | ok k' =>
        cases hv : vv n v with
        | error e' => simp [hk, hv] at h
        | ok v' =>
          simp only [hk, hv] at h
          cases hr : valPairs kv vv (n + 1) ps with
          | error e' => simp [hr] at h
          | ok r =>
            simp only [hr, Except.ok.injEq] at h; subst h
            have hs := h3 k' v' hk hv
            obtain ⟨a5, a6, a7, a8, a9, a10, hl⟩ := (ih (accStep d acc k' v') (n + 1) (some (.key k)) (some (.val v))
              (some (.key k')) (some (.key k')) (some (.val v')) (some (.val v'))).2 r hr
            refine ⟨a5, a6, a7, a8, a9, a10, ?_⟩
            rw [show n + 1 + ps.length = n + (ps.length + 1) by omega] at hl
            simp only [hs, hl, updLoop_cons, List.length_cons]

/-- The translated loop body meets `BodySpec` (symbolic execution of one iteration). -/
macro "body_spec" d:term : tactic =>
  `(tactic| (intro acc n j7 j8 j9 j10 k v
             refine ⟨?_, ?_, ?_⟩
             · intro e hk
               simp [lstate, lframe, exec, eval, getVar, setVar, hk]
             · intro k' e hk hv
               simp [lstate, lframe, exec, eval, getVar, setVar, hk, hv]
             · intro k' v' hk hv
               cases hg : get? $d k' <;>
                 simp [lstate, lframe, exec, eval, getVar, setVar, truthy, accStep, hk, hv, hg, Dict.contains_eq]))

theorem td_update (kv : Callback K K) (vv : Callback V V) (d : Dict K V) (ps : List (K × V)) :
    runTDM kv vv "update" [.pairs ps] d = summaryOfStep d (TraitDict.step kv vv d (.update ps)) := by
  simp [runTraitDictM, Generated.traitDictProg, lookupFn, bindArgs, evalDefault]
  generalize hB : Stmt.seq (Stmt.validate Which.key 7 (Expr.var 5)) _ = B
  simp [exec, eval, evalAll, getVar, setVar, truthy]
  have hF : BodySpec kv vv d [] (.pairs ps) (.pairs ps) []
      (fun s => exec { kv := kv, vv := vv, sup := builtinSup } B s) := by
    subst hB; body_spec d
  have hl := loop_spec kv vv d [] (.pairs ps) (.pairs ps) [] _ hF ps {} 0 none none none none none none
  simp only [lstate, lframe] at hl
  cases hvp : valPairs kv vv 0 ps with
  | error e =>
    obtain ⟨st', hs, hd, he⟩ := hl.1 e hvp
    simp [hs, summarize, hd, he, summaryOfStep, TraitDict.step, updateLike, hvp]
  | ok ps' =>
    obtain ⟨j5, j6, j7, j8, j9, j10, hs⟩ := hl.2 ps' hvp
    cases ha : (updLoop d ps' {}).added <;> cases hc : (updLoop d ps' {}).changed <;>
      simp [hs, summarize, summaryOfStep, TraitDict.step, updateLike, hvp, builtinSup, Dict.step, ha, hc]

theorem td_ior (kv : Callback K K) (vv : Callback V V) (d : Dict K V) (ps : List (K × V)) :
    runTDM kv vv "__ior__" [.pairs ps] d = summaryOfStep d (TraitDict.step kv vv d (.ior ps)) := by
  simp [runTraitDictM, Generated.traitDictProg, lookupFn, bindArgs, evalDefault]
  generalize hB : Stmt.seq (Stmt.validate Which.key 7 (Expr.var 5)) _ = B
  simp [exec, eval, evalAll, getVar, setVar, truthy]
  have hF : BodySpec kv vv d [] (.pairs ps) (.pairs ps) [none]
      (fun s => exec { kv := kv, vv := vv, sup := builtinSup } B s) := by
    subst hB; body_spec d
  have hl := loop_spec kv vv d [] (.pairs ps) (.pairs ps) [none] _ hF ps {} 0 none none none none none none
  simp only [lstate, lframe] at hl
  cases hvp : valPairs kv vv 0 ps with
  | error e =>
    obtain ⟨st', hs, hd, he⟩ := hl.1 e hvp
    simp [hs, summarize, hd, he, summaryOfStep, TraitDict.step, updateLike, hvp]
  | ok ps' =>
    obtain ⟨j5, j6, j7, j8, j9, j10, hs⟩ := hl.2 ps' hvp
    cases ha : (updLoop d ps' {}).added <;> cases hc : (updLoop d ps' {}).changed <;>
      simp [hs, summarize, summaryOfStep, TraitDict.step, updateLike, hvp, builtinSup, Dict.step, ha, hc,
        valOfRet, setVar, getVar]

/-- A mapping argument (`other.items()` is taken) behaves like the iterable of its items. -/
theorem td_update_mapping (kv : Callback K K) (vv : Callback V V) (d m : Dict K V) :
    runTDM kv vv "update" [.dict m] d = runTDM kv vv "update" [.pairs m] d := by
  simp [runTraitDictM, Generated.traitDictProg, lookupFn, bindArgs, evalDefault]
  generalize hB : Stmt.seq (Stmt.validate Which.key 7 (Expr.var 5)) _ = B
  simp [exec, eval, evalAll, getVar, setVar, truthy]
  have hF1 : BodySpec kv vv d [] (.dict m) (.pairs m) []
      (fun s => exec { kv := kv, vv := vv, sup := builtinSup } B s) := by
    subst hB; body_spec d
  have hF2 : BodySpec kv vv d [] (.pairs m) (.pairs m) []
      (fun s => exec { kv := kv, vv := vv, sup := builtinSup } B s) := by
    subst hB; body_spec d
  have hl1 := loop_spec kv vv d [] (.dict m) (.pairs m) [] _ hF1 m {} 0 none none none none none none
  have hl2 := loop_spec kv vv d [] (.pairs m) (.pairs m) [] _ hF2 m {} 0 none none none none none none
  simp only [lstate, lframe] at hl1 hl2
  cases hvp : valPairs kv vv 0 m with
  | error e =>
    obtain ⟨s1, hs1, hd1, he1⟩ := hl1.1 e hvp
    obtain ⟨s2, hs2, hd2, he2⟩ := hl2.1 e hvp
    simp [hs1, hs2, summarize, hd1, he1, hd2, he2]
  | ok ps' =>
    obtain ⟨a5, a6, a7, a8, a9, a10, hs1⟩ := hl1.2 ps' hvp
    obtain ⟨b5, b6, b7, b8, b9, b10, hs2⟩ := hl2.2 ps' hvp
    cases ha : (updLoop d ps' {}).added <;> cases hc : (updLoop d ps' {}).changed <;>
      simp [hs1, hs2, summarize, builtinSup, Dict.step, ha, hc, getVar]

theorem td_ior_mapping (kv : Callback K K) (vv : Callback V V) (d m : Dict K V) :
    runTDM kv vv "__ior__" [.dict m] d = runTDM kv vv "__ior__" [.pairs m] d := by
  simp [runTraitDictM, Generated.traitDictProg, lookupFn, bindArgs, evalDefault]
  generalize hB : Stmt.seq (Stmt.validate Which.key 7 (Expr.var 5)) _ = B
  simp [exec, eval, evalAll, getVar, setVar, truthy]
  have hF1 : BodySpec kv vv d [] (.dict m) (.pairs m) [none]
      (fun s => exec { kv := kv, vv := vv, sup := builtinSup } B s) := by
    subst hB; body_spec d
  have hF2 : BodySpec kv vv d [] (.pairs m) (.pairs m) [none]
      (fun s => exec { kv := kv, vv := vv, sup := builtinSup } B s) := by
    subst hB; body_spec d
  have hl1 := loop_spec kv vv d [] (.dict m) (.pairs m) [none] _ hF1 m {} 0 none none none none none none
  have hl2 := loop_spec kv vv d [] (.pairs m) (.pairs m) [none] _ hF2 m {} 0 none none none none none none
  simp only [lstate, lframe] at hl1 hl2
  cases hvp : valPairs kv vv 0 m with
  | error e =>
    obtain ⟨s1, hs1, hd1, he1⟩ := hl1.1 e hvp
    obtain ⟨s2, hs2, hd2, he2⟩ := hl2.1 e hvp
    simp [hs1, hs2, summarize, hd1, he1, hd2, he2]
  | ok ps' =>
    obtain ⟨a5, a6, a7, a8, a9, a10, hs1⟩ := hl1.2 ps' hvp
    obtain ⟨b5, b6, b7, b8, b9, b10, hs2⟩ := hl2.2 ps' hvp
    cases ha : (updLoop d ps' {}).added <;> cases hc : (updLoop d ps' {}).changed <;>
      simp [hs1, hs2, summarize, builtinSup, Dict.step, ha, hc, getVar, setVar, valOfRet]

/-- **`Map.TraitDict.step` is the interpretation of the translated source**, for
every validator pair, dict and operation. -/
theorem td_step_is_source (kv : Callback K K) (vv : Callback V V) (d : Dict K V) (op : Op K V) :
    runTraitDictOp Generated.traitDictProg kv vv d op = summaryOfStep d (TraitDict.step kv vv d op) := by
  cases op with
  | setitem k v => exact td_setitem kv vv d k v
  | delitem k => exact td_delitem kv vv d k
  | update ps => exact td_update kv vv d ps
  | ior ps => exact td_ior kv vv d ps
  | setdefault k v => exact td_setdefault kv vv d k v
  | pop k => exact td_pop kv vv d k
  | popDefault k dflt => exact td_popDefault kv vv d k dflt
  | popitem => exact td_popitem kv vv d
  | clear => exact td_clear kv vv d

end TraitsVerif.Lemmas.PyLMD
