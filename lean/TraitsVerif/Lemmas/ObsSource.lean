/-
Cluster `obs`: the hand-written registration model (Model/Register.lean) IS the
interpretation (Model/ObsL.lean) of the program translated from the source text of
traits/observation/_observe.py and `apply_observers` (Generated/ObsProg.lean).
-/
import TraitsVerif.Lemmas.ObsAtomic
import TraitsVerif.Generated.ObsProg
namespace TraitsVerif.Model.ObsL
open TraitsVerif TraitsVerif.Model.Obs TraitsVerif.Generated

def flowOf : Option Exc → Flow
  | none => .next
  | some e => .raised e

/-- a model result as the global state of the interpreter (one undo log in the store) -/
def toG (t : Tr) : G × Flow := ((t.1, [t.2.1]), flowOf t.2.2)

/-- the interpreter's state after a statement agrees with a model result -/
def Rel (r : Sto × Flow) (t : Tr) : Prop := r.1.H = t.1 ∧ r.1.logs = [t.2.1] ∧ r.2 = flowOf t.2.2

/-! ### generic loops on the model side -/

def foldT {α} (F : α → Hooks → List Item → Tr) : List α → Hooks → List Item → Tr
  | [], H, log => (H, log, none)
  | a :: as, H, log =>
    let r := F a H log
    match r.2.2 with
    | some _ => r
    | none => foldT F as r.1 r.2.1

theorem foldW_eq_foldT (f : W → Hooks → List Item → Tr) (ys : List W) (H : Hooks) (log : List Item) :
    foldW f ys H log = foldT f ys H log := by
  induction ys generalizing H log with
  | nil => rfl
  | cons y ys ih =>
    simp only [foldW, foldT, ih]
    cases (f y H log).2.2 <;> rfl

theorem foldT_append {α} (F : α → Hooks → List Item → Tr) (a b : List α) (H : Hooks) (log : List Item) :
    foldT F (a ++ b) H log =
      (match (foldT F a H log).2.2 with
       | some _ => foldT F a H log
       | none => foldT F b (foldT F a H log).1 (foldT F a H log).2.1) := by
  induction a generalizing H log with
  | nil => simp [foldT]
  | cons x a ih =>
    simp only [List.cons_append, foldT]
    cases hx : (F x H log).2.2 with
    | some e => simp [hx]
    | none => simp only [ih]

theorem foldT_map {α β} (F : β → Hooks → List Item → Tr) (g : α → β) (as : List α) (H : Hooks) (log : List Item) :
    foldT F (as.map g) H log = foldT (fun a => F (g a)) as H log := by
  induction as generalizing H log with
  | nil => rfl
  | cons a as ih => simp only [List.map_cons, foldT, ih]

theorem foldT_map' {α β} (F : β → Hooks → List Item → Tr) (g : α → β) (as : List α) :
    foldT F (as.map g) = foldT (fun a => F (g a)) as := by
  funext H log; exact foldT_map F g as H log

theorem foldT_flatMap {α β} (F : β → Hooks → List Item → Tr) (g : α → List β) (as : List α) (H : Hooks)
    (log : List Item) :
    foldT F (as.flatMap g) H log = foldT (fun a => foldT F (g a)) as H log := by
  induction as generalizing H log with
  | nil => rfl
  | cons a as ih =>
    simp only [List.flatMap_cons, foldT_append, foldT]
    cases hx : (foldT F (g a) H log).2.2 with
    | some e => simp
    | none => simp only [ih]

theorem foldT_congr {α} (F F' : α → Hooks → List Item → Tr) (as : List α) (hF : ∀ a ∈ as, ∀ H log, F a H log = F' a H log)
    (H : Hooks) (log : List Item) : foldT F as H log = foldT F' as H log := by
  induction as generalizing H log with
  | nil => rfl
  | cons a as ih =>
    simp only [foldT, hF a (List.mem_cons_self ..)]
    cases (F' a H log).2.2 with
    | some e => rfl
    | none => exact ih (fun b hb => hF b (List.mem_cons_of_mem _ hb)) _ _

/-- one `add_to` / `remove_from` followed by the `append` to the undo log -/
def step1 (rm : Bool) (it : Item) (H : Hooks) (log : List Item) : Tr :=
  if rm then
    match removeItem it H with
    | .error e => (H, log, some e)
    | .ok H' => (H', it :: log, none)
  else (addItem it H, it :: log, none)

theorem applyOwn_eq_foldT (rm : Bool) (its : List Item) (H : Hooks) (log : List Item) :
    applyOwn rm its H log = foldT (step1 rm) its H log := by
  induction its generalizing H log with
  | nil => rfl
  | cons it its ih =>
    cases rm with
    | true =>
      simp only [applyOwn, foldT, step1, if_true]
      cases removeItem it H with
      | error e => rfl
      | ok H' => simp only [ih]
    | false =>
      simp only [applyOwn, foldT, step1, Bool.false_eq_true, if_false, ih]

/-! ### the generic `for` loop of the interpreter -/

theorem forLoop_rel {α} (inj : α → PV) (i : Nat) (f : Sto → Sto × Flow) (F : α → Hooks → List Item → Tr)
    (I : Vars → Prop) (as : List α)
    (hf : ∀ a ∈ as, ∀ (st : Sto) (log : List Item), I st.vars → st.logs = [log] →
        Rel (f { st with vars := setVar st.vars i (inj a) }) (F a st.H log) ∧
        I (f { st with vars := setVar st.vars i (inj a) }).1.vars) :
    ∀ (st : Sto) (log : List Item), I st.vars → st.logs = [log] →
      Rel (forLoop i f (as.map inj) st) (foldT F as st.H log) ∧ I (forLoop i f (as.map inj) st).1.vars := by
  induction as with
  | nil =>
    intro st log hI hl
    exact ⟨⟨rfl, hl, rfl⟩, hI⟩
  | cons a as ih =>
    intro st log hI hl
    obtain ⟨⟨h1, h2, h3⟩, h4⟩ := hf a (List.mem_cons_self ..) st log hI hl
    simp only [List.map_cons, forLoop, foldT]
    generalize hr : f { st with vars := setVar st.vars i (inj a) } = r at h1 h2 h3 h4
    obtain ⟨st', fl⟩ := r
    simp only at h1 h2 h3 h4
    cases hx : (F a st.H log).2.2 with
    | some e =>
      rw [hx] at h3
      simp only [flowOf] at h3
      subst h3
      exact ⟨⟨h1, h2, by simp [hx, flowOf]⟩, h4⟩
    | none =>
      rw [hx] at h3
      simp only [flowOf] at h3
      subst h3
      simp only
      have := ih (fun b hb => hf b (List.mem_cons_of_mem _ hb)) st' _ h4 h2
      rw [h1] at this
      exact this


/-! ### the methods of `_AddOrRemoveNotifier`, one by one -/

abbrev P : Prog := observeProg

/-- the instance built by `add_or_remove_notifiers(…, _processed=<log 0>)` -/
def mkFr (x : W) (gv : GV) (k : HKey) (rm ow : Bool) : Frame := ⟨x, gv, k.handler, some k.target, rm, ow, 0⟩

/-- `extra = false`: the graph rooted at a `_RestrictedNamedTraitObserver` -/
def gvOf (extra : Bool) (g : Graph) : GV := if extra then .plain g else .restricted g

theorem endCall_of_rel {r : Sto × Flow} {t : Tr} (hr : Rel r t) : endCall r = toG t := by
  obtain ⟨h1, h2, h3⟩ := hr
  unfold endCall toG
  rw [h1, h2, h3]
  cases t.2.2 <;> rfl

theorem body_rel (h : Heap) (Q : Prog) (call : Callee → G → G × Flow) (fr : Frame) (hp : fr.processed = 0)
    (iN iO : Nat) (hne : iN ≠ iO) (e : Ex) (q : NKey) (o : Observable)
    (st : Sto) (log : List Item) (hl : st.logs = [log]) (hO : st.vars iO = .observable o)
    (he : eval (some fr) st.vars 1 e = some (.notifier q)) :
    Rel (exec h Q call (some fr)
      (.seq (.assign iN e) (.seq (.ifS (.selfF .remove) (.removeFrom (.var iN) (.var iO)) (.addTo (.var iN) (.var iO)))
        (.append (.selfF .processed) (.tuple2 (.var iN) (.var iO))))) st)
      (step1 fr.remove (o, q) st.H log) ∧
    (exec h Q call (some fr)
      (.seq (.assign iN e) (.seq (.ifS (.selfF .remove) (.removeFrom (.var iN) (.var iO)) (.addTo (.var iN) (.var iO)))
        (.append (.selfF .processed) (.tuple2 (.var iN) (.var iO))))) st).1.vars iO = .observable o := by
  have hne' : ¬ iO = iN := fun h => hne h.symm
  cases hrm : fr.remove with
  | true =>
    cases hri : removeItem (o, q) st.H with
    | error ex =>
      simp [exec, eval, hl, he, commit, setVar, hne', hO, Frame.get, hrm, hri, step1, Rel, flowOf]
    | ok H' =>
      simp [exec, eval, hl, he, commit, setVar, hne', hO, Frame.get, hrm, hri, step1, Rel, flowOf, hp]
  | false =>
    simp [exec, eval, hl, he, commit, setVar, hne', hO, Frame.get, hrm, step1, Rel, flowOf, hp]


theorem gvOf_notify (extra : Bool) (g : Graph) : (gvOf extra g).notify = g.ob.notify := by
  cases extra <;> rfl
theorem gvOf_iterObservables (h : Heap) (extra : Bool) (g : Graph) (x : W) :
    (gvOf extra g).iterObservables h x = observables h g.ob x := by
  cases extra <;> rfl
theorem gvOf_iterObjects (h : Heap) (extra : Bool) (g : Graph) (x : W) :
    (gvOf extra g).iterObjects h x = objects h g.ob x := by
  cases extra <;> rfl
theorem gvOf_children (extra : Bool) (g : Graph) : (gvOf extra g).children = g.children.map .plain := by
  cases extra <;> rfl
theorem gvOf_getNotifier (extra : Bool) (g : Graph) (n : Nat) (t : Id) :
    (gvOf extra g).getNotifier n (some t) = some (.user ⟨n, t⟩) := by
  cases extra <;> rfl
theorem gvOf_getMaintainer (extra : Bool) (g c : Graph) (n : Nat) (t : Id) :
    (gvOf extra g).getMaintainer (.plain c) n (some t) = some (.maint g.ob.mkind c ⟨n, t⟩) := by
  cases extra <;> rfl

section eqns
variable (h : Heap) (Q : Prog) (call : Callee → G → G × Flow) (self : Option Frame) (st : Sto)

theorem exec_skip : exec h Q call self .skip st = (st, .next) := rfl
theorem exec_ret : exec h Q call self .ret st = (st, .returned) := rfl
theorem exec_seq (a b : St) : exec h Q call self (.seq a b) st =
    (match exec h Q call self a st with
     | (st', .next) => exec h Q call self b st'
     | r => r) := rfl
theorem exec_ifS (c : Ex) (t e : St) : exec h Q call self (.ifS c t e) st =
    (match eval self st.vars st.logs.length c with
     | some (.bool true) => exec h Q call self t st
     | some (.bool false) => exec h Q call self e st
     | _ => (st, .stuck)) := rfl
theorem exec_forObservables (i : Nat) (g o : Ex) (body : St) : exec h Q call self (.forObservables i g o body) st =
    (match eval self st.vars st.logs.length g, eval self st.vars st.logs.length o with
     | some (.graph gv), some (.obj x) =>
       (match gv.iterObservables h x with
        | .error e => (st, .raised e)
        | .ok os => forLoop i (fun s => exec h Q call self body s) (os.map .observable) st)
     | _, _ => (st, .stuck)) := rfl
theorem exec_forObjects (i : Nat) (g o : Ex) (body : St) : exec h Q call self (.forObjects i g o body) st =
    (match eval self st.vars st.logs.length g, eval self st.vars st.logs.length o with
     | some (.graph gv), some (.obj x) =>
       (match gv.iterObjects h x with
        | .error e => (st, .raised e)
        | .ok ys => forLoop i (fun s => exec h Q call self body s) (ys.map .obj) st)
     | _, _ => (st, .stuck)) := rfl
theorem exec_forExtraGraphs (i : Nat) (g a : Ex) (body : St) : exec h Q call self (.forExtraGraphs i g a body) st =
    (match eval self st.vars st.logs.length g, eval self st.vars st.logs.length a with
     | some (.graph gv), some (.graph _) =>
       forLoop i (fun s => exec h Q call self body s) (gv.iterExtraGraphs.map .graph) st
     | _, _ => (st, .stuck)) := rfl
theorem exec_forChildren (i : Nat) (g : Ex) (body : St) : exec h Q call self (.forChildren i g body) st =
    (match eval self st.vars st.logs.length g with
     | some (.graph gv) => forLoop i (fun s => exec h Q call self body s) (gv.children.map .graph) st
     | _ => (st, .stuck)) := rfl
theorem exec_forIn (i : Nat) (e : Ex) (body : St) : exec h Q call self (.forIn i e body) st =
    (match eval self st.vars st.logs.length e with
     | some (.graphs gs) => forLoop i (fun s => exec h Q call self body s) (gs.map .graph) st
     | some (.meths ms) => forLoop i (fun s => exec h Q call self body s) (ms.map .meth) st
     | some (.ids l) => forLoop i (fun s => exec h Q call self body s) (l.map (fun y => .obj (some y))) st
     | _ => (st, .stuck)) := rfl
theorem exec_tryS (body handler orelse : St) : exec h Q call self (.tryS body handler orelse) st =
    (match exec h Q call self body st with
     | (st', .next) => exec h Q call self orelse st'
     | (st', .raised e) => exec h Q call self handler { st' with exc := some e }
     | r => r) := rfl
theorem exec_whilePop (l : Ex) (i j : Nat) (body : St) : exec h Q call self (.whilePop l i j body) st =
    (match eval self st.vars st.logs.length l with
     | some (.log p) => popLoop p i j (fun s => exec h Q call self body s) (st.logs.getD p []).length st
     | _ => (st, .stuck)) := rfl
theorem exec_callFn (name : String) (args : List (Option Ex)) : exec h Q call self (.callFn name args) st =
    (match evalAllO self st.vars st.logs.length args with
     | some vs => viaCallT call (.fn name vs) st
     | none => (st, .stuck)) := rfl
theorem exec_callVar (i : Nat) : exec h Q call self (.callVar i) st =
    (match st.vars i, self with
     | .meth m, some fr => viaCall call (.meth m fr) st
     | .inst fr, _ => viaCall call (.meth "__call__" fr) st
     | _, _ => (st, .stuck)) := rfl
theorem exec_assign (i : Nat) (e : Ex) : exec h Q call self (.assign i e) st =
    (match eval self st.vars st.logs.length e with
     | some v => ({ st with vars := setVar st.vars i v, logs := commit v st.logs }, .next)
     | none => (st, .stuck)) := rfl
theorem exec_construct (dst : Nat) (args : List (Option Ex)) : exec h Q call self (.construct dst args) st =
    (match (evalAllO self st.vars st.logs.length args).bind (bindArgs Q.initDefaults) with
     | some vs =>
       if vs.length = Q.initParams then
         (match mkFrame Q.init vs st.logs.length with
          | some fr => ({ st with vars := setVar st.vars dst (.inst fr), logs := commit (.log fr.processed) st.logs }, .next)
          | none => (st, .stuck))
       else (st, .stuck)
     | none => (st, .stuck)) := rfl
theorem exec_clear (l : Ex) : exec h Q call self (.clear l) st =
    (match eval self st.vars st.logs.length l with
     | some (.log p) => if p < st.logs.length then ({ st with logs := st.logs.set p [] }, .next) else (st, .stuck)
     | _ => (st, .stuck)) := rfl
theorem exec_reraise : exec h Q call self .reraise st =
    (match st.exc with
     | some e => (st, .raised e)
     | none => (st, .stuck)) := rfl
end eqns

theorem run_meth (h : Heap) (Q : Prog) (n : Nat) (name : String) (fr : Frame) (g : G) (body : St)
    (hb : Q.methods.lookup name = some body) :
    run h Q (n + 1) (.meth name fr) g =
      endCall (exec h Q (run h Q n) (some fr) body ⟨g.1, g.2, fun _ => .unbound, none⟩) := by
  simp only [run, hb]

theorem run_fn (h : Heap) (Q : Prog) (n : Nat) (name : String) (args : List (Option PV)) (g : G) (f : Func)
    (vs : List PV) (hb : Q.fns.lookup name = some f) (hbind : bindArgs f.defaults args = some vs)
    (hn : vs.length = f.nparams) :
    run h Q (n + 1) (.fn name args) g =
      endCall (exec h Q (run h Q n) none f.body ⟨g.1, g.2, ofArgs vs, none⟩) := by
  simp only [run, hb, hbind, hn, if_true]

/-- `_add_or_remove_notifiers` is `notifStep`. -/
theorem run_notifiers (h : Heap) (n : Nat) (k : HKey) (rm ow extra : Bool) (g : Graph) (x : W) (H : Hooks)
    (log : List Item) :
    run h P (n + 1) (.meth "_add_or_remove_notifiers" (mkFr x (gvOf extra g) k rm ow)) (H, [log]) =
      toG (notifStep h k rm g.ob x H log) := by
  rw [run_meth h P n _ _ _ _ (by rfl)]
  unfold notifStep
  cases hn : g.ob.notify with
  | false =>
    simp [exec, eval, mkFr, Frame.get, gvOf_notify, hn, endCall, toG, flowOf]
  | true =>
    cases ho : observables h g.ob x with
    | error e =>
      simp [exec, eval, mkFr, Frame.get, gvOf_notify, hn, gvOf_iterObservables, ho, endCall, toG, flowOf]
    | ok os =>
      rw [exec_seq, exec_ifS]
      simp only [eval, mkFr, Frame.get, gvOf_notify, hn, Option.map, Bool.not_true, exec_skip]
      rw [exec_forObservables]
      simp only [eval, Frame.get, Option.map, gvOf_iterObservables, ho]
      apply endCall_of_rel
      rw [applyOwn_eq_foldT, foldT_map]
      refine (forLoop_rel PV.observable 0 _ (fun o => step1 rm (o, NKey.user k)) (fun _ => True) os ?_ _ log trivial rfl).1
      intro o _ st log' _ hl
      refine ⟨(body_rel h _ _ (mkFr x (gvOf extra g) k rm ow) rfl 1 0 (by decide) _ (.user k) o
        (st := { st with vars := setVar st.vars 0 (.observable o) }) log' hl rfl ?_).1, trivial⟩
      simp [eval, mkFr, Frame.get, gvOf_getNotifier]


/-- `_add_or_remove_maintainers`, for any root node -/
theorem run_maintainers_gen (h : Heap) (n : Nat) (fr : Frame) (hp : fr.processed = 0) (mk : MKind) (k : HKey)
    (cs : List Graph) (hchild : fr.graph.children = cs.map .plain)
    (hget : ∀ c, fr.graph.getMaintainer (.plain c) fr.handler fr.target = some (.maint mk c k))
    (H : Hooks) (log : List Item) :
    run h P (n + 1) (.meth "_add_or_remove_maintainers" fr) (H, [log]) =
      toG (match fr.graph.iterObservables h fr.object with
        | .error e => (H, log, some e)
        | .ok os => applyOwn fr.remove (os.flatMap (fun o => cs.map (fun c => (o, NKey.maint mk c k)))) H log) := by
  rw [run_meth h P n _ _ _ _ (by rfl)]
  rw [exec_forObservables]
  simp only [eval, Frame.get, Option.map]
  cases ho : fr.graph.iterObservables h fr.object with
  | error e => simp [endCall, toG, flowOf]
  | ok os =>
    dsimp only
    apply endCall_of_rel
    rw [applyOwn_eq_foldT, foldT_flatMap]
    simp only [foldT_map']
    refine (forLoop_rel PV.observable 0 _ (fun o => foldT (fun c => step1 fr.remove (o, NKey.maint mk c k)) cs)
      (fun _ => True) os ?_ _ log trivial rfl).1
    intro o _ st log' _ hl
    refine ⟨?_, trivial⟩
    rw [exec_forChildren]
    simp only [eval, Frame.get, Option.map, hchild, List.map_map]
    refine (forLoop_rel (PV.graph ∘ GV.plain) 1 _ (fun c => step1 fr.remove (o, NKey.maint mk c k))
      (fun vars => vars 0 = .observable o) cs ?_
      { st with vars := setVar st.vars 0 (.observable o) } log' rfl hl).1
    intro c _ st' log'' hI hl'
    refine body_rel h _ _ fr hp 2 0 (by decide) _ (.maint mk c k) o
      (st := { st' with vars := setVar st'.vars 1 ((PV.graph ∘ GV.plain) c) }) log'' hl' ?_ ?_
    · simp [setVar, hI]
    · simp [eval, setVar, Frame.get, hget]

/-- `_add_or_remove_maintainers` is `maintStep`. -/
theorem run_maintainers (h : Heap) (n : Nat) (k : HKey) (rm ow extra : Bool) (g : Graph) (x : W) (H : Hooks)
    (log : List Item) :
    run h P (n + 1) (.meth "_add_or_remove_maintainers" (mkFr x (gvOf extra g) k rm ow)) (H, [log]) =
      toG (maintStep h k rm g.ob g.children x H log) := by
  rw [run_maintainers_gen h n _ rfl g.ob.mkind k g.children (gvOf_children extra g)
    (fun c => gvOf_getMaintainer extra g c k.handler k.target)]
  simp only [mkFr, gvOf_iterObservables, maintStep]
  cases observables h g.ob x <;> rfl

/-- on the extra graph `_add_or_remove_maintainers` is `extraStepW`. -/
theorem run_maintainers_added (h : Heap) (n : Nat) (k : HKey) (rm ow : Bool) (g : Graph) (x : W) (H : Hooks)
    (log : List Item) :
    run h P (n + 1) (.meth "_add_or_remove_maintainers" (mkFr x (.added g) k rm ow)) (H, [log]) =
      toG (extraStepW h k rm g x H log) := by
  rw [run_maintainers_gen h n _ rfl .added k [g] rfl (fun c => rfl)]
  simp only [mkFr, GV.iterObservables, extraStepW]
  cases extraObservables h g.ob x with
  | error e => rfl
  | ok os =>
    have : List.flatMap (fun o => [(o, NKey.maint MKind.added g k)]) os =
        List.map (fun o => (o, NKey.maint MKind.added g k)) os := by
      induction os with
      | nil => rfl
      | cons o os ih => simp [List.flatMap_cons, ih]
    simp [this]


/-! ### the recursive steps -/

theorem forLoop_single (i : Nat) (f : Sto → Sto × Flow) (v : PV) (st : Sto) :
    forLoop i f [v] st = f { st with vars := setVar st.vars i v } := by
  simp only [forLoop]
  generalize f { st with vars := setVar st.vars i v } = r
  obtain ⟨st', fl⟩ := r
  cases fl <;> rfl

/-- the arguments of a nested `add_or_remove_notifiers(…, _processed=self._processed)` -/
def arnVals (x : W) (gv : GV) (k : HKey) (rm : Bool) : List PV :=
  [.obj x, .graph gv, .handler k.handler, .obj (some k.target), .disp, .bool rm, .log 0]

def arnArgs (x : W) (gv : GV) (k : HKey) (rm : Bool) : List (Option PV) :=
  [some (.obj x), some (.graph gv), some (.handler k.handler), some (.obj (some k.target)), some .disp,
    some (.bool rm), some (.log 0)]

theorem viaCall_rel (call : Callee → G → G × Flow) (c : Callee) (st : Sto) (log : List Item) (t : Tr)
    (hl : st.logs = [log]) (hc : call c (st.H, [log]) = toG t) :
    Rel (viaCall call c st) t ∧ (viaCall call c st).1.vars = st.vars := by
  unfold viaCall
  rw [hl, hc]
  unfold toG Rel
  cases t.2.2 <;> simp [flowOf]

theorem viaCall_exc (call : Callee → G → G × Flow) (c : Callee) (st : Sto) : (viaCall call c st).1.exc = st.exc := by
  unfold viaCall
  generalize call c (st.H, st.logs) = r
  obtain ⟨g, fl⟩ := r
  cases fl <;> rfl

/-- the same for a function call as a statement: one log before, one log after — nothing to drop -/
theorem viaCallT_rel (call : Callee → G → G × Flow) (c : Callee) (st : Sto) (log : List Item) (t : Tr)
    (hl : st.logs = [log]) (hc : call c (st.H, [log]) = toG t) :
    Rel (viaCallT call c st) t ∧ (viaCallT call c st).1.vars = st.vars := by
  obtain ⟨⟨h1, h2, h3⟩, h4⟩ := viaCall_rel call c st log t hl hc
  unfold viaCallT
  refine ⟨⟨h1, ?_, h3⟩, h4⟩
  simp only [h2, hl, List.length_cons, List.length_nil, List.take_succ_cons, List.take_zero]

theorem viaCallT_exc (call : Callee → G → G × Flow) (c : Callee) (st : Sto) : (viaCallT call c st).1.exc = st.exc := by
  unfold viaCallT
  exact viaCall_exc call c st

theorem walkCs_eq_foldT (h : Heap) (k : HKey) (rm : Bool) (ob : Observer) (x : W) (cs : List Graph) (H : Hooks)
    (log : List Item) :
    walkCs h k rm ob x cs H log =
      foldT (fun c H log => match objects h ob x with
        | .error e => (H, log, some e)
        | .ok ys => foldT (walk h k rm true c) ys H log) cs H log := by
  induction cs generalizing H log with
  | nil => simp [walkCs, foldT]
  | cons c cs ih =>
    simp only [walkCs, foldT, ih]
    cases objects h ob x with
    | error e => rfl
    | ok ys =>
      simp only [foldW_eq_foldT]
      cases (foldT (walk h k rm true c) ys H log).2.2 <;> rfl

/-- `_add_or_remove_children_notifiers` is `walkCs`, given that the nested calls are `walk`. -/
theorem run_children (h : Heap) (n : Nat) (k : HKey) (rm ow extra : Bool) (g : Graph) (x : W)
    (ih : ∀ c ∈ g.children, ∀ (y : W) (H : Hooks) (log : List Item),
      run h P n (.fn "add_or_remove_notifiers" (arnArgs y (.plain c) k rm)) (H, [log]) =
        toG (walk h k rm true c y H log))
    (H : Hooks) (log : List Item) :
    run h P (n + 1) (.meth "_add_or_remove_children_notifiers" (mkFr x (gvOf extra g) k rm ow)) (H, [log]) =
      toG (walkCs h k rm g.ob x g.children H log) := by
  rw [run_meth h P n _ _ _ _ (by rfl)]
  rw [exec_forChildren]
  simp only [eval, mkFr, Frame.get, Option.map, gvOf_children, List.map_map]
  apply endCall_of_rel
  rw [walkCs_eq_foldT]
  refine (forLoop_rel (PV.graph ∘ GV.plain) 0 _ _ (fun _ => True) g.children ?_ _ log trivial rfl).1
  intro c hc st log' _ hl
  refine ⟨?_, trivial⟩
  rw [exec_forObjects]
  simp only [eval, Frame.get, Option.map, gvOf_iterObjects]
  cases objects h g.ob x with
  | error e => exact ⟨rfl, hl, rfl⟩
  | ok ys =>
    dsimp only
    refine (forLoop_rel PV.obj 1 _ (walk h k rm true c) (fun vars => vars 0 = .graph (.plain c)) ys ?_
      { st with vars := setVar st.vars 0 ((PV.graph ∘ GV.plain) c) } log' rfl hl).1
    intro y _ st' log'' hI hl'
    rw [exec_callFn]
    have hv : setVar st'.vars 1 (PV.obj y) 0 = .graph (.plain c) := by simp [setVar, hI]
    simp only [evalAllO, eval, Frame.get, Option.map, setVar, hI, if_true, reduceIte, Nat.reduceEqDiff]
    have := viaCallT_rel (run h P n) (.fn "add_or_remove_notifiers" (arnArgs y (.plain c) k rm))
      { st' with vars := setVar st'.vars 1 (PV.obj y) } log'' _ hl' (ih c hc y st'.H log'')
    simp only [arnArgs] at this
    exact ⟨this.1, by rw [this.2]; exact hv⟩

theorem extraStepW_noExtra (h : Heap) (k : HKey) (rm : Bool) (g : Graph) (x : W) (H : Hooks) (log : List Item)
    (hx : hasExtra g.ob = false) : extraStepW h k rm g x H log = (H, log, none) := by
  unfold extraStepW
  cases hg : g.ob <;> simp [hg, hasExtra] at hx <;> simp [extraObservables, applyOwn]

/-- `_add_or_remove_extra_graphs` is `extraStepW`, given that the nested call on the extra graph is. -/
theorem run_extra (h : Heap) (n : Nat) (k : HKey) (rm ow extra : Bool) (g : Graph) (x : W)
    (ih : ∀ (H : Hooks) (log : List Item),
      run h P n (.fn "add_or_remove_notifiers" (arnArgs x (.added g) k rm)) (H, [log]) =
        toG (extraStepW h k rm g x H log))
    (H : Hooks) (log : List Item) :
    run h P (n + 1) (.meth "_add_or_remove_extra_graphs" (mkFr x (gvOf extra g) k rm ow)) (H, [log]) =
      toG (if extra then extraStepW h k rm g x H log else (H, log, none)) := by
  rw [run_meth h P n _ _ _ _ (by rfl)]
  rw [exec_forExtraGraphs]
  simp only [eval, mkFr, Frame.get, Option.map]
  apply endCall_of_rel
  cases extra with
  | false => exact ⟨rfl, rfl, rfl⟩
  | true =>
    simp only [gvOf, if_true, GV.iterExtraGraphs]
    cases hx : hasExtra g.ob with
    | false =>
      rw [extraStepW_noExtra h k rm g x H log hx]
      exact ⟨rfl, rfl, rfl⟩
    | true =>
      simp only [if_true, List.map_cons, List.map_nil, forLoop_single]
      rw [exec_callFn]
      simp only [evalAllO, eval, Frame.get, Option.map, setVar, if_true]
      have := (viaCallT_rel (run h P n) (.fn "add_or_remove_notifiers" (arnArgs x (.added g) k rm))
        ⟨H, [log], setVar (fun _ => PV.unbound) 0 (PV.graph (.added g)), none⟩ log _ rfl (ih H log)).1
      simp only [arnArgs] at this
      exact this


/-! ### `__call__`, `add_or_remove_notifiers`, `undo_processed` -/

/-- `for step in steps: step()` -/
theorem steps_rel (h : Heap) (Q : Prog) (call : Callee → G → G × Flow) (fr : Frame)
    (F : String → Hooks → List Item → Tr) (ms : List String)
    (hF : ∀ m ∈ ms, ∀ H log, call (.meth m fr) (H, [log]) = toG (F m H log))
    (i : Nat) (st : Sto) (log : List Item) (hl : st.logs = [log]) :
    Rel (forLoop i (fun s => exec h Q call (some fr) (.callVar i) s) (ms.map .meth) st) (foldT F ms st.H log) := by
  refine (forLoop_rel PV.meth i _ F (fun _ => True) ms ?_ st log trivial hl).1
  intro m hm st' log' _ hl'
  refine ⟨?_, trivial⟩
  rw [exec_callVar]
  simp only [setVar, if_true]
  exact (viaCall_rel call (.meth m fr) { st' with vars := setVar st'.vars i (PV.meth m) } log' _ hl' (hF m hm _ _)).1

theorem endCall_ne_returned (r : Sto × Flow) : (endCall r).2 ≠ .returned := by
  obtain ⟨st, fl⟩ := r
  cases fl <;> simp [endCall]

theorem run_ne_returned (h : Heap) (Q : Prog) (n : Nat) (c : Callee) (g : G) : (run h Q n c g).2 ≠ .returned := by
  cases n with
  | zero => simp [run]
  | succ n =>
    cases c with
    | fn name args =>
      simp only [run]
      split
      · split
        · split
          · exact endCall_ne_returned _
          · simp
        · simp
      · simp
    | meth name fr =>
      simp only [run]
      split
      · exact endCall_ne_returned _
      · simp

/-- a call in tail position -/
theorem endCall_viaCall (h : Heap) (Q : Prog) (n : Nat) (c : Callee) (st : Sto) :
    endCall (viaCall (run h Q n) c st) = run h Q n c (st.H, st.logs) := by
  have := run_ne_returned h Q n c (st.H, st.logs)
  unfold viaCall endCall
  generalize run h Q n c (st.H, st.logs) = r at this
  obtain ⟨g, fl⟩ := r
  cases fl <;> simp_all

/-- the order of the steps -/
def stepNames (rm : Bool) : List String :=
  if rm then ["_add_or_remove_extra_graphs", "_add_or_remove_children_notifiers", "_add_or_remove_maintainers",
    "_add_or_remove_notifiers"]
  else ["_add_or_remove_notifiers", "_add_or_remove_maintainers", "_add_or_remove_children_notifiers",
    "_add_or_remove_extra_graphs"]

theorem flowOf_ne_returned (o : Option Exc) : Flow.returned ≠ flowOf o := by cases o <;> simp [flowOf]
theorem flowOf_ne_stuck (o : Option Exc) : Flow.stuck ≠ flowOf o := by cases o <;> simp [flowOf]

/-- `__call__` of an instance that does not own the undo log: the steps, in order. -/
theorem run_call_shared (h : Heap) (n : Nat) (fr : Frame) (how : fr.owns = false)
    (F : String → Hooks → List Item → Tr)
    (hF : ∀ m ∈ stepNames fr.remove, ∀ H log, run h P n (.meth m fr) (H, [log]) = toG (F m H log))
    (H : Hooks) (log : List Item) :
    run h P (n + 1) (.meth "__call__" fr) (H, [log]) = toG (foldT F (stepNames fr.remove) H log) := by
  rw [run_meth h P n _ _ _ _ (by rfl)]
  cases hrm : fr.remove with
  | true =>
    rw [hrm] at hF
    simp only [exec_seq, exec_assign, exec_ifS, eval, Frame.get, Option.map, hrm, how, commit, setVar, if_true,
      Bool.not_false, List.reverse_cons, List.reverse_nil, List.nil_append, List.cons_append, exec_forIn, exec_ret]
    generalize hst0 : Sto.mk H [log] _ none = st0
    have := steps_rel h P (run h P n) fr F (stepNames true) hF 1 st0 log (by rw [← hst0])
    have hH : st0.H = H := by rw [← hst0]
    rw [hH] at this
    simp only [stepNames, if_true] at this ⊢
    generalize forLoop _ _ _ _ = r at this ⊢
    obtain ⟨st', fl⟩ := r
    obtain ⟨h1, h2, h3⟩ := this
    simp only at h1 h2 h3
    cases fl with
    | next => simp only [endCall, toG]; rw [← h1, ← h2, ← h3]
    | raised e => simp only [endCall, toG]; rw [← h1, ← h2, ← h3]
    | returned => exact absurd h3 (flowOf_ne_returned _)
    | stuck => exact absurd h3 (flowOf_ne_stuck _)
  | false =>
    rw [hrm] at hF
    simp only [exec_seq, exec_assign, exec_ifS, exec_skip, eval, Frame.get, Option.map, hrm, how, commit, setVar, if_true,
      Bool.not_false, exec_forIn, exec_ret]
    generalize hst0 : Sto.mk H [log] _ none = st0
    have := steps_rel h P (run h P n) fr F (stepNames false) hF 1 st0 log (by rw [← hst0])
    have hH : st0.H = H := by rw [← hst0]
    rw [hH] at this
    simp only [stepNames, Bool.false_eq_true, if_false] at this ⊢
    generalize forLoop _ _ _ _ = r at this ⊢
    obtain ⟨st', fl⟩ := r
    obtain ⟨h1, h2, h3⟩ := this
    simp only at h1 h2 h3
    cases fl with
    | next => simp only [endCall, toG]; rw [← h1, ← h2, ← h3]
    | raised e => simp only [endCall, toG]; rw [← h1, ← h2, ← h3]
    | returned => exact absurd h3 (flowOf_ne_returned _)
    | stuck => exact absurd h3 (flowOf_ne_stuck _)


theorem mkFrame_shared (x : W) (gv : GV) (k : HKey) (rm : Bool) :
    mkFrame P.init (arnVals x gv k rm) 1 = some (mkFr x gv k rm false) := rfl

/-- a nested `add_or_remove_notifiers(…, _processed=<the log>)` builds the instance and calls it -/
theorem run_arn_shared (h : Heap) (n : Nat) (x : W) (gv : GV) (k : HKey) (rm : Bool) (H : Hooks) (log : List Item) :
    run h P (n + 1) (.fn "add_or_remove_notifiers" (arnArgs x gv k rm)) (H, [log]) =
      run h P n (.meth "__call__" (mkFr x gv k rm false)) (H, [log]) := by
  rw [run_fn h P n _ _ _ _ (arnVals x gv k rm) (by rfl) (by rfl) (by rfl)]
  dsimp only
  rw [exec_seq, exec_construct]
  have hinit : P.initParams = (arnVals x gv k rm).length := rfl
  simp only [evalAllO, eval, ofArgs, arnVals, List.getD_eq_getElem?_getD, List.getElem?_cons_succ,
    List.getElem?_cons_zero, Option.getD_some, List.length_cons, List.length_nil, Option.map, Option.bind]
  have hbd : bindArgs P.initDefaults (arnArgs x gv k rm) = some (arnVals x gv k rm) := rfl
  have := mkFrame_shared x gv k rm
  simp only [arnArgs, arnVals] at this hinit hbd
  simp only [hbd]
  simp only [hinit, this, List.length_cons, List.length_nil, if_true]
  simp [commit, setVar, exec_callVar, mkFr, endCall_viaCall]

/-- the model's walk as the sequence of its four steps -/
def stepF (h : Heap) (k : HKey) (rm extra : Bool) (g : Graph) (x : W) (m : String) (H : Hooks) (log : List Item) : Tr :=
  if m = "_add_or_remove_notifiers" then notifStep h k rm g.ob x H log
  else if m = "_add_or_remove_maintainers" then maintStep h k rm g.ob g.children x H log
  else if m = "_add_or_remove_children_notifiers" then walkCs h k rm g.ob x g.children H log
  else if extra then extraStepW h k rm g x H log else (H, log, none)

theorem walk_eq_steps (h : Heap) (k : HKey) (rm extra : Bool) (g : Graph) (x : W) (H : Hooks) (log : List Item) :
    walk h k rm extra g x H log = foldT (stepF h k rm extra g x) (stepNames rm) H log := by
  obtain ⟨ob, cs⟩ := g
  cases rm with
  | true =>
    rw [walk_rm_unfold]
    simp only [stepNames, if_true, foldT, stepF, Graph.ob, Graph.children, String.reduceEq, if_false]
    cases extra with
    | true =>
      simp only [if_true]
      cases h1 : (extraStepW h k true (.node ob cs) x H log).2.2 with
      | some e => rfl
      | none =>
        simp only
        cases h2 : (walkCs h k true ob x cs (extraStepW h k true (.node ob cs) x H log).1
          (extraStepW h k true (.node ob cs) x H log).2.1).2.2 with
        | some e => rfl
        | none =>
          simp only
          cases h3 : (maintStep h k true ob cs x _ _).2.2 with
          | some e => rfl
          | none =>
            simp only
            cases h4 : (notifStep h k true ob x _ _).2.2 with
            | some e => rfl
            | none => simp only; rw [← h4]
    | false =>
      simp only [Bool.false_eq_true, if_false]
      cases h2 : (walkCs h k true ob x cs H log).2.2 with
      | some e => rfl
      | none =>
        simp only
        cases h3 : (maintStep h k true ob cs x _ _).2.2 with
        | some e => rfl
        | none =>
          simp only
          cases h4 : (notifStep h k true ob x _ _).2.2 with
          | some e => rfl
          | none => simp only; rw [← h4]
  | false =>
    rw [walk_add_unfold]
    simp only [stepNames, Bool.false_eq_true, if_false, foldT, stepF, Graph.ob, Graph.children, String.reduceEq, if_true]
    cases h1 : (notifStep h k false ob x H log).2.2 with
    | some e => rfl
    | none =>
      simp only
      cases h2 : (maintStep h k false ob cs x _ _).2.2 with
      | some e => rfl
      | none =>
        simp only
        cases h3 : (walkCs h k false ob x cs _ _).2.2 with
        | some e => rfl
        | none =>
          simp only
          cases extra with
          | true =>
            simp only [if_true]
            cases h4 : (extraStepW h k false (.node ob cs) x _ _).2.2 with
            | some e => rfl
            | none => simp only; rw [← h4]
          | false =>
            simp only [Bool.false_eq_true, if_false]
            rw [← h3]


theorem mem_stepNames (rm : Bool) (m : String) (hm : m ∈ stepNames rm) :
    m = "_add_or_remove_notifiers" ∨ m = "_add_or_remove_maintainers" ∨
      m = "_add_or_remove_children_notifiers" ∨ m = "_add_or_remove_extra_graphs" := by
  cases rm <;> simp [stepNames] at hm <;> rcases hm with rfl | rfl | rfl | rfl <;> simp

/-! ### the extra graph -/

theorem run_notifiers_added (h : Heap) (n : Nat) (k : HKey) (rm ow : Bool) (g : Graph) (x : W) (H : Hooks)
    (log : List Item) :
    run h P (n + 1) (.meth "_add_or_remove_notifiers" (mkFr x (.added g) k rm ow)) (H, [log]) =
      toG (H, log, none) := by
  rw [run_meth h P n _ _ _ _ (by rfl)]
  rw [exec_seq, exec_ifS]
  simp [eval, mkFr, Frame.get, GV.notify, exec_ret, endCall, toG, flowOf]

theorem run_children_added (h : Heap) (n : Nat) (k : HKey) (rm ow : Bool) (g : Graph) (x : W) (H : Hooks)
    (log : List Item) :
    run h P (n + 1) (.meth "_add_or_remove_children_notifiers" (mkFr x (.added g) k rm ow)) (H, [log]) =
      toG (H, log, none) := by
  rw [run_meth h P n _ _ _ _ (by rfl)]
  rw [exec_forChildren]
  simp only [eval, mkFr, Frame.get, Option.map, GV.children, List.map_cons, List.map_nil, forLoop_single]
  rw [exec_forObjects]
  simp [eval, Frame.get, GV.iterObjects, forLoop, endCall, toG, flowOf]

theorem run_extra_added (h : Heap) (n : Nat) (k : HKey) (rm ow : Bool) (g : Graph) (x : W) (H : Hooks)
    (log : List Item) :
    run h P (n + 1) (.meth "_add_or_remove_extra_graphs" (mkFr x (.added g) k rm ow)) (H, [log]) =
      toG (H, log, none) := by
  rw [run_meth h P n _ _ _ _ (by rfl)]
  rw [exec_forExtraGraphs]
  simp [eval, mkFr, Frame.get, GV.iterExtraGraphs, forLoop, endCall, toG, flowOf]

def stepA (h : Heap) (k : HKey) (rm : Bool) (g : Graph) (x : W) (m : String) (H : Hooks) (log : List Item) : Tr :=
  if m = "_add_or_remove_maintainers" then extraStepW h k rm g x H log else (H, log, none)

/-- walking the extra graph is `extraStepW` -/
theorem run_arn_added (h : Heap) (n : Nat) (k : HKey) (rm : Bool) (g : Graph) (x : W) (H : Hooks) (log : List Item) :
    run h P (n + 3) (.fn "add_or_remove_notifiers" (arnArgs x (.added g) k rm)) (H, [log]) =
      toG (extraStepW h k rm g x H log) := by
  rw [run_arn_shared, run_call_shared h (n + 1) _ rfl (stepA h k rm g x)]
  · have hfin : ∀ (t : Tr), (match t.2.2 with
        | some _ => t
        | none => (t.1, t.2.1, none)) = t := by
      intro t
      obtain ⟨a, b, c⟩ := t
      cases c <;> rfl
    cases rm with
    | true => simp [mkFr, stepNames, foldT, stepA, hfin]
    | false => simp [mkFr, stepNames, foldT, stepA, hfin]
  · intro m hm H' log'
    rcases mem_stepNames _ _ hm with rfl | rfl | rfl | rfl
    · simpa [stepA] using run_notifiers_added h n k rm false g x H' log'
    · simpa [stepA] using run_maintainers_added h n k rm false g x H' log'
    · simpa [stepA] using run_children_added h n k rm false g x H' log'
    · simpa [stepA] using run_extra_added h n k rm false g x H' log'

/-! ### the walk -/

mutual
/-- fuel sufficient for `add_or_remove_notifiers` on a graph: three calls per level
(`add_or_remove_notifiers`, `__call__`, the step) -/
def need : Graph → Nat
  | .node _ cs => 3 + needL cs
def needL : List Graph → Nat
  | [] => 3
  | c :: cs => max (need c) (needL cs)
end

theorem needL_ge (cs : List Graph) : 3 ≤ needL cs := by
  induction cs with
  | nil => simp [needL]
  | cons c cs ih => simp only [needL]; omega

theorem need_le_needL (cs : List Graph) (c : Graph) (hc : c ∈ cs) : need c ≤ needL cs := by
  induction cs with
  | nil => cases hc
  | cons d cs ih =>
    simp only [needL]
    cases hc with
    | head => omega
    | tail _ h => have := ih h; omega

/-- SOURCE TIE.  `walk` is the interpretation of `add_or_remove_notifiers(object=x, graph=g, …,
_processed=<log>)` as translated from the source, for every heap, graph, handler, hooks and log. -/
theorem run_arn_walk (h : Heap) (k : HKey) : ∀ g : Graph, ∀ (rm extra : Bool) (x : W) (H : Hooks) (log : List Item)
    (n : Nat), need g ≤ n →
    run h P n (.fn "add_or_remove_notifiers" (arnArgs x (gvOf extra g) k rm)) (H, [log]) =
      toG (walk h k rm extra g x H log) := by
  apply Graph.ind (P := fun g => ∀ (rm extra : Bool) (x : W) (H : Hooks) (log : List Item) (n : Nat), need g ≤ n →
    run h P n (.fn "add_or_remove_notifiers" (arnArgs x (gvOf extra g) k rm)) (H, [log]) =
      toG (walk h k rm extra g x H log))
  intro ob cs ih rm extra x H log n hn
  have h3 := needL_ge cs
  simp only [need] at hn
  obtain ⟨m, rfl⟩ : ∃ m, n = m + 3 := ⟨n - 3, by omega⟩
  rw [run_arn_shared, run_call_shared h (m + 1) _ rfl (stepF h k rm extra (.node ob cs) x), walk_eq_steps]
  · rfl
  · intro nm hm H' log'
    rcases mem_stepNames _ _ hm with rfl | rfl | rfl | rfl
    · simpa [stepF] using run_notifiers h m k rm false extra (.node ob cs) x H' log'
    · simpa [stepF] using run_maintainers h m k rm false extra (.node ob cs) x H' log'
    · have := run_children h m k rm false extra (.node ob cs) x (fun c hc y H'' log'' => by
        have := ih c hc rm true y H'' log'' m (by have := need_le_needL cs c hc; omega)
        simpa [gvOf] using this) H' log'
      simpa [stepF] using this
    · obtain ⟨m', rfl⟩ : ∃ m', m = m' + 3 := ⟨m - 3, by omega⟩
      have := run_extra h (m' + 3) k rm false extra (.node ob cs) x (fun H'' log'' =>
        run_arn_added h m' k rm (.node ob cs) x H'' log'') H' log'
      simpa [stepF] using this


/-! ### the owner of the undo log -/

/-- `undo_processed` exactly as the source runs it: `remove_from` may raise, and then the
loop stops there (result: hooks, what is left of the log, the exception). -/
def undoS (rm : Bool) : List Item → Hooks → Tr
  | [], H => (H, [], none)
  | it :: its, H =>
    if rm then undoS rm its (addItem it H)
    else match removeItem it H with
      | .ok H' => undoS rm its H'
      | .error e => (H, its, some e)

theorem undo_body (h : Heap) (Q : Prog) (call : Callee → G → G × Flow) (self : Option Frame) (r i j : Nat)
    (rm : Bool) (q : NKey) (o : Observable) (st : Sto) (hr : st.vars r = .bool rm) (hi : st.vars i = .notifier q)
    (hj : st.vars j = .observable o) :
    exec h Q call self (.ifS (.var r) (.addTo (.var i) (.var j)) (.removeFrom (.var i) (.var j))) st =
      (if rm then ({ st with H := addItem (o, q) st.H }, .next)
       else match removeItem (o, q) st.H with
         | .ok H' => ({ st with H := H' }, .next)
         | .error e => (st, .raised e)) := by
  cases rm <;> simp [exec, eval, hr, hi, hj]
  cases removeItem (o, q) st.H <;> rfl

theorem popLoop_undo (h : Heap) (Q : Prog) (call : Callee → G → G × Flow) (self : Option Frame) (r i j : Nat)
    (hri : r ≠ i) (hrj : r ≠ j) (hij : i ≠ j) (rm : Bool) :
    ∀ (log : List Item) (st : Sto), st.logs = [log] → st.vars r = .bool rm →
      Rel (popLoop 0 i j (fun s => exec h Q call self
        (.ifS (.var r) (.addTo (.var i) (.var j)) (.removeFrom (.var i) (.var j))) s) log.length st)
        (undoS rm log st.H) := by
  intro log
  induction log with
  | nil =>
    intro st hl _
    simp [popLoop, hl, undoS, Rel, flowOf]
  | cons it its ih =>
    intro st hl hr
    simp only [List.length_cons, popLoop, hl, List.getElem?_cons_zero, List.set_cons_zero]
    rw [undo_body h Q call self r i j rm it.2 it.1 _ (by simp [setVar, hri, hrj, hr]) (by simp [setVar, hij])
      (by simp [setVar])]
    cases rm with
    | true =>
      simp only [if_true, undoS]
      exact ih ⟨addItem (it.1, it.2) st.H, [its], _, st.exc⟩ rfl (by simp [setVar, hri, hrj, hr])
    | false =>
      simp only [Bool.false_eq_true, if_false, undoS]
      cases removeItem (it.1, it.2) st.H with
      | error e => exact ⟨rfl, rfl, rfl⟩
      | ok H' => exact ih ⟨H', [its], _, st.exc⟩ rfl (by simp [setVar, hri, hrj, hr])

/-- `undo_processed(processed, remove)` -/
theorem run_undo (h : Heap) (n : Nat) (rm : Bool) (H : Hooks) (log : List Item) :
    run h P (n + 1) (.fn "undo_processed" [some (.log 0), some (.bool rm)]) (H, [log]) = toG (undoS rm log H) := by
  rw [run_fn h P n _ _ _ _ [.log 0, .bool rm] (by rfl) (by rfl) (by rfl)]
  simp only [P, observeProg]
  rw [exec_whilePop]
  simp only [eval, ofArgs, List.getD_eq_getElem?_getD, List.getElem?_cons_zero, Option.getD_some]
  apply endCall_of_rel
  exact popLoop_undo h _ _ none 1 2 3 (by decide) (by decide) (by decide) rm log _ rfl (by cases rm <;> rfl)

/-- what the owner does with the result of the steps: clear the log, or undo and re-raise -/
def finishS (rm : Bool) (t : Tr) : Tr :=
  match t.2.2 with
  | none => (t.1, [], none)
  | some e =>
    match (undoS rm t.2.1 t.1).2.2 with
    | none => ((undoS rm t.2.1 t.1).1, (undoS rm t.2.1 t.1).2.1, some e)
    | some e' => ((undoS rm t.2.1 t.1).1, (undoS rm t.2.1 t.1).2.1, some e')


/-- the tail of `__call__` for the owner of the log: `try: steps except Exception: undo; raise else: clear` -/
theorem call_tail_owner (h : Heap) (n : Nat) (fr : Frame) (how : fr.owns = true) (hp : fr.processed = 0)
    (F : String → Hooks → List Item → Tr) (ms : List String)
    (hF : ∀ m ∈ ms, ∀ H log, run h P (n + 1) (.meth m fr) (H, [log]) = toG (F m H log))
    (st0 : Sto) (log : List Item) (hl : st0.logs = [log]) (hv : st0.vars 0 = .meths ms) :
    endCall (exec h P (run h P (n + 1)) (some fr)
      (.seq (.ifS (.not (.selfF .ownsProcessed)) (.seq (.forIn 1 (.var 0) (.callVar 1)) .ret) .skip)
        (.tryS (.forIn 1 (.var 0) (.callVar 1))
          (.seq (.callFn "undo_processed" [(some (.selfF .processed)), (some (.selfF .remove))]) .reraise)
          (.clear (.selfF .processed)))) st0) =
      toG (finishS fr.remove (foldT F ms st0.H log)) := by
  rw [exec_seq, exec_ifS]
  simp only [eval, Frame.get, Option.map, how, Bool.not_true, exec_skip]
  rw [exec_tryS, exec_forIn]
  simp only [eval, hv]
  have := steps_rel h P (run h P (n + 1)) fr F ms hF 1 st0 log hl
  generalize forLoop _ _ _ _ = r at this
  obtain ⟨st', fl⟩ := r
  obtain ⟨h1, h2, h3⟩ := this
  simp only at h1 h2 h3
  cases fl with
  | returned => exact absurd h3 (flowOf_ne_returned _)
  | stuck => exact absurd h3 (flowOf_ne_stuck _)
  | next =>
    have hx : (foldT F ms st0.H log).2.2 = none := by
      cases hx : (foldT F ms st0.H log).2.2 with
      | none => rfl
      | some e => rw [hx] at h3; simp [flowOf] at h3
    simp only [exec_clear, eval, Frame.get, Option.map, hp, h2, List.length_cons, List.length_nil, Nat.lt_add_one, if_true,
      List.set_cons_zero, endCall, toG, finishS, hx, flowOf, h1]
  | raised e =>
    have hx : (foldT F ms st0.H log).2.2 = some e := by
      cases hx : (foldT F ms st0.H log).2.2 with
      | none => rw [hx] at h3; simp [flowOf] at h3
      | some e' => rw [hx] at h3; simp only [flowOf, Flow.raised.injEq] at h3; rw [h3]
    simp only
    rw [exec_seq, exec_callFn]
    simp only [evalAllO, eval, Frame.get, Option.map, hp]
    have hu := viaCallT_rel (run h P (n + 1)) (.fn "undo_processed" [some (.log 0), some (.bool fr.remove)])
      { st' with exc := some e } _ _ h2 (run_undo h n fr.remove st'.H _)
    have hexc := viaCallT_exc (run h P (n + 1)) (.fn "undo_processed" [some (.log 0), some (.bool fr.remove)])
      { st' with exc := some e }
    generalize viaCallT _ _ _ = r at hu hexc
    obtain ⟨st'', fl'⟩ := r
    obtain ⟨⟨u1, u2, u3⟩, u4⟩ := hu
    simp only at hexc
    simp only at u1 u2 u3
    rw [h1] at u1 u2 u3
    cases hu : (undoS fr.remove (foldT F ms st0.H log).2.1 (foldT F ms st0.H log).1).2.2 with
    | none =>
      rw [hu] at u3
      simp only [flowOf] at u3
      subst u3
      simp only [exec_reraise, hexc, endCall, toG, finishS, hx, hu, flowOf, u1, u2]
    | some e' =>
      rw [hu] at u3
      simp only [flowOf] at u3
      subst u3
      simp only [endCall, toG, finishS, hx, hu, flowOf, u1, u2]


/-- `__call__` of the instance that owns the undo log -/
theorem run_call_owner (h : Heap) (n : Nat) (fr : Frame) (how : fr.owns = true) (hp : fr.processed = 0)
    (F : String → Hooks → List Item → Tr)
    (hF : ∀ m ∈ stepNames fr.remove, ∀ H log, run h P (n + 1) (.meth m fr) (H, [log]) = toG (F m H log))
    (H : Hooks) (log : List Item) :
    run h P (n + 2) (.meth "__call__" fr) (H, [log]) = toG (finishS fr.remove (foldT F (stepNames fr.remove) H log)) := by
  rw [run_meth h P (n + 1) _ _ _ _ (by rfl)]
  cases hrm : fr.remove with
  | true =>
    rw [hrm] at hF
    rw [exec_seq, exec_assign]
    simp only [eval, Option.map, commit]
    rw [exec_seq, exec_ifS]
    simp only [eval, Frame.get, Option.map, hrm, exec_assign, setVar, if_true, commit, List.reverse_cons,
      List.reverse_nil, List.nil_append, List.cons_append]
    have := call_tail_owner h n fr how hp F (stepNames true) hF
      ⟨H, [log], setVar (setVar (fun _ => PV.unbound) 0 (.meths (stepNames false))) 0 (.meths (stepNames true)), none⟩
      log rfl (by simp [setVar])
    rw [hrm] at this
    exact this
  | false =>
    rw [hrm] at hF
    rw [exec_seq, exec_assign]
    simp only [eval, Option.map, commit]
    rw [exec_seq, exec_ifS]
    simp only [eval, Frame.get, Option.map, hrm, exec_skip]
    have := call_tail_owner h n fr how hp F (stepNames false) hF
      ⟨H, [log], setVar (fun _ => PV.unbound) 0 (.meths (stepNames false)), none⟩ log rfl (by simp [setVar])
    rw [hrm] at this
    exact this

/-- the arguments of an outermost `add_or_remove_notifiers(…)` (`_processed` left at its default `None`) -/
def ownVals (x : W) (gv : GV) (k : HKey) (rm : Bool) : List PV :=
  [.obj x, .graph gv, .handler k.handler, .obj (some k.target), .disp, .bool rm, .none]

/-- `_processed` is OMITTED: the interpreter takes the default written in the signature -/
def ownArgs (x : W) (gv : GV) (k : HKey) (rm : Bool) : List (Option PV) :=
  [some (.obj x), some (.graph gv), some (.handler k.handler), some (.obj (some k.target)), some .disp,
    some (.bool rm), none]

theorem mkFrame_owner (x : W) (gv : GV) (k : HKey) (rm : Bool) :
    mkFrame P.init (ownVals x gv k rm) 0 = some (mkFr x gv k rm true) := rfl

theorem run_arn_owner (h : Heap) (n : Nat) (x : W) (gv : GV) (k : HKey) (rm : Bool) (H : Hooks) :
    run h P (n + 1) (.fn "add_or_remove_notifiers" (ownArgs x gv k rm)) (H, []) =
      run h P n (.meth "__call__" (mkFr x gv k rm true)) (H, [[]]) := by
  rw [run_fn h P n _ _ _ _ (ownVals x gv k rm) (by rfl) (by rfl) (by rfl)]
  dsimp only
  rw [exec_seq, exec_construct]
  have hinit : P.initParams = (ownVals x gv k rm).length := rfl
  simp only [evalAllO, eval, ofArgs, ownVals, List.getD_eq_getElem?_getD, List.getElem?_cons_succ,
    List.getElem?_cons_zero, Option.getD_some, List.length_cons, List.length_nil, Option.map, Option.bind]
  have hbd : bindArgs P.initDefaults [some (.obj x), some (.graph gv), some (.handler k.handler),
      some (.obj (some k.target)), some .disp, some (.bool rm), some .none] = some (ownVals x gv k rm) := rfl
  have := mkFrame_owner x gv k rm
  simp only [ownVals] at this hinit hbd
  simp only [hbd]
  simp only [hinit, this, List.length_cons, List.length_nil, if_true]
  simp [commit, setVar, exec_callVar, mkFr, endCall_viaCall]

/-- the four steps on a compiled / restricted graph, whoever owns the log -/
theorem steps_ok (h : Heap) (k : HKey) (rm ow extra : Bool) (g : Graph) (x : W) (m : Nat) (hm : need g ≤ m + 3) :
    ∀ nm ∈ stepNames rm, ∀ (H : Hooks) (log : List Item),
      run h P (m + 1) (.meth nm (mkFr x (gvOf extra g) k rm ow)) (H, [log]) = toG (stepF h k rm extra g x nm H log) := by
  obtain ⟨ob, cs⟩ := g
  have h3 := needL_ge cs
  simp only [need] at hm
  intro nm hnm H' log'
  rcases mem_stepNames _ _ hnm with rfl | rfl | rfl | rfl
  · simpa [stepF] using run_notifiers h m k rm ow extra (.node ob cs) x H' log'
  · simpa [stepF] using run_maintainers h m k rm ow extra (.node ob cs) x H' log'
  · have := run_children h m k rm ow extra (.node ob cs) x (fun c hc y H'' log'' => by
      have := run_arn_walk h k c rm true y H'' log'' m (by have := need_le_needL cs c hc; omega)
      simpa [gvOf] using this) H' log'
    simpa [stepF] using this
  · obtain ⟨m', rfl⟩ : ∃ m', m = m' + 3 := ⟨m - 3, by omega⟩
    have := run_extra h (m' + 3) k rm ow extra (.node ob cs) x (fun H'' log'' =>
      run_arn_added h m' k rm (.node ob cs) x H'' log'') H' log'
    simpa [stepF] using this

/-- SOURCE TIE.  An outermost `add_or_remove_notifiers(object=x, graph=g, …)` as translated from the source:
the walk, then `finishS` (clear the log, or `undo_processed` and re-raise). -/
theorem run_arn_outer (h : Heap) (k : HKey) (g : Graph) (rm extra : Bool) (x : W) (H : Hooks) (n : Nat)
    (hn : need g ≤ n) :
    run h P n (.fn "add_or_remove_notifiers" (ownArgs x (gvOf extra g) k rm)) (H, []) =
      toG (finishS rm (walk h k rm extra g x H [])) := by
  have : 6 ≤ need g := by
    obtain ⟨ob, cs⟩ := g
    have := needL_ge cs
    simp only [need]; omega
  obtain ⟨m, rfl⟩ : ∃ m, n = m + 3 := ⟨n - 3, by omega⟩
  rw [run_arn_owner, run_call_owner h m _ rfl rfl (stepF h k rm extra g x) (steps_ok h k rm true extra g x m hn),
    walk_eq_steps]
  rfl

/-! ### the source's roll-back is the model's, on what a walk leaves behind -/

theorem undoS_rm (log : List Item) (H : Hooks) : undoS true log H = (undo true log H, [], none) := by
  induction log generalizing H with
  | nil => rfl
  | cons it its ih => simp only [undoS, undo, if_true, ih]

theorem undoS_add (log : List Item) (H : Hooks) (hw : WF H) (hle : ∀ o q, cntItems log o q ≤ cnt H o q) :
    undoS false log H = (undo false log H, [], none) := by
  induction log generalizing H with
  | nil => rfl
  | cons it its ih =>
    have hpos : 0 < cnt H it.1 it.2 := by
      have := hle it.1 it.2
      rw [cntItems_cons, wt_self] at this
      omega
    obtain ⟨H1, h1⟩ := removeItem_ok it H hw hpos
    have hc1 := cnt_removeItem h1
    have hle1 : ∀ o q, cntItems its o q ≤ cnt H1 o q := by
      intro o q
      have := hle o q
      rw [cntItems_cons] at this
      have := hc1 o q
      omega
    simp only [undoS, undo, h1, Bool.false_eq_true, if_false]
    exact ih H1 (WF_removeItem hw h1) hle1

/-- after a walk from an empty log the source's `finishS` is the model's `finish` -/
theorem finishS_eq_finish (rm : Bool) (H : Hooks) (r : Tr) (hd : Did rm H [] r) :
    finishS rm r = ((finish rm r).H, [], (finish rm r).err) := by
  obtain ⟨new, hlog, hc, hw⟩ := hd
  rw [List.append_nil] at hlog
  unfold finishS finish
  cases hr : r.2.2 with
  | none => rfl
  | some e =>
    simp only [hlog]
    cases rm with
    | true => simp only [undoS_rm]
    | false =>
      rw [undoS_add new r.1 hw (fun o q => by have := (hc o q).2 rfl; omega)]


/-! ### `apply_observers` -/

/-- `except Exception: undo_processed(…); raise` -/
def undoRaise (rm : Bool) (e : Exc) (t : Tr) : Tr :=
  match (undoS rm t.2.1 t.1).2.2 with
  | none => ((undoS rm t.2.1 t.1).1, (undoS rm t.2.1 t.1).2.1, some e)
  | some e' => ((undoS rm t.2.1 t.1).1, (undoS rm t.2.1 t.1).2.1, some e')

theorem undo_reraise (h : Heap) (n : Nat) (self : Option Frame) (args : List (Option Ex)) (st' : Sto) (e : Exc)
    (rm : Bool) (log : List Item) (hl : st'.logs = [log])
    (hev : evalAllO self st'.vars 1 args = some [some (.log 0), some (.bool rm)]) :
    endCall (exec h P (run h P (n + 1)) self (.seq (.callFn "undo_processed" args) .reraise)
      { st' with exc := some e }) = toG (undoRaise rm e (st'.H, log, none)) := by
  rw [exec_seq, exec_callFn]
  have hlen : st'.logs.length = 1 := by rw [hl]; rfl
  simp only [hlen, hev]
  have hu := viaCallT_rel (run h P (n + 1)) (.fn "undo_processed" [some (.log 0), some (.bool rm)])
    { st' with exc := some e } _ _ hl (run_undo h n rm st'.H _)
  have hexc := viaCallT_exc (run h P (n + 1)) (.fn "undo_processed" [some (.log 0), some (.bool rm)]) { st' with exc := some e }
  generalize viaCallT _ _ _ = r at hu hexc
  obtain ⟨st'', fl'⟩ := r
  obtain ⟨⟨u1, u2, u3⟩, _⟩ := hu
  simp only at u1 u2 u3 hexc
  unfold undoRaise
  cases hu : (undoS rm log st'.H).2.2 with
  | none =>
    rw [hu] at u3
    simp only [flowOf] at u3
    subst u3
    simp only [exec_reraise, hexc, endCall, toG, flowOf, u1, u2]
  | some e' =>
    rw [hu] at u3
    simp only [flowOf] at u3
    subst u3
    simp only [endCall, toG, flowOf, u1, u2]

theorem applyObserversW_eq_foldT (h : Heap) (k : HKey) (rm : Bool) (x : W) (gs : List Graph) (H : Hooks)
    (log : List Item) :
    applyObserversW h k rm x gs H log = foldT (fun g => walk h k rm true g x) gs H log := by
  induction gs generalizing H log with
  | nil => rfl
  | cons g gs ih =>
    simp only [applyObserversW, foldT, ih]
    cases (walk h k rm true g x H log).2.2 <;> rfl

/-- what `apply_observers` does with the result of its loop (the log is not cleared on success) -/
def finishA (rm : Bool) (t : Tr) : Tr :=
  match t.2.2 with
  | none => t
  | some e => undoRaise rm e t

/-- the parameter defaults of the translated `apply_observers` -/
def applyDefaults : List (Option Ex) := ((P.fns.lookup "apply_observers").map (·.defaults)).getD []

/-- SOURCE TIE.  `apply_observers(object, graphs, handler, dispatcher=…, remove=…)` as translated from
observe.py is the model's loop over the graphs with one shared log, then `finishA`. -/
theorem run_apply_observers (h : Heap) (hd : Nat) (root : Id) (rm : Bool) (gs : List Graph) (H : Hooks) (n : Nat)
    (hn : needL gs ≤ n) (args : List (Option PV))
    (hargs : bindArgs applyDefaults args =
      some [.obj (some root), .graphs (gs.map .plain), .handler hd, .disp, .bool rm]) :
    run h P (n + 1) (.fn "apply_observers" args) (H, []) =
      toG (finishA rm (applyObserversW h ⟨hd, root⟩ rm (some root) gs H [])) := by
  have h3 := needL_ge gs
  obtain ⟨n', rfl⟩ : ∃ n', n = n' + 1 := ⟨n - 1, by omega⟩
  rw [run_fn h P (n' + 1) _ _ _ _ _ (by rfl) (show _ from hargs) (by rfl)]
  dsimp only
  rw [exec_seq, exec_assign]
  simp only [eval, commit, List.length_nil, if_true, List.nil_append]
  rw [exec_tryS, exec_forIn]
  have hv1 : setVar (ofArgs [PV.obj (some root), PV.graphs (gs.map .plain), PV.handler hd, PV.disp, PV.bool rm]) 5
      (PV.log 0) 1 = PV.graphs (gs.map .plain) := by simp [setVar, ofArgs]
  simp only [eval, hv1, List.map_map]
  have hloop := forLoop_rel (PV.graph ∘ GV.plain) 6
    (fun s => exec h P (run h P (n' + 1)) none (.callFn "add_or_remove_notifiers"
      [(some (.var 0)), (some (.var 6)), (some (.var 2)), (some (.var 0)), (some (.var 3)), (some (.var 4)), (some (.var 5))]) s)
    (fun g => walk h ⟨hd, root⟩ rm true g (some root))
    (fun vars => vars 0 = .obj (some root) ∧ vars 2 = .handler hd ∧ vars 3 = .disp ∧ vars 4 = .bool rm ∧
      vars 5 = .log 0) gs ?_
    ⟨H, [[]], setVar (ofArgs [PV.obj (some root), PV.graphs (gs.map .plain), PV.handler hd, PV.disp, PV.bool rm]) 5
      (PV.log 0), none⟩ [] (by simp [setVar, ofArgs]) rfl
  · obtain ⟨hrel, hI⟩ := hloop
    rw [← applyObserversW_eq_foldT] at hrel
    generalize forLoop _ _ _ _ = r at hrel hI
    obtain ⟨st', fl⟩ := r
    obtain ⟨h1, h2, h3'⟩ := hrel
    simp only at h1 h2 h3' hI
    cases fl with
    | returned => exact absurd h3' (flowOf_ne_returned _)
    | stuck => exact absurd h3' (flowOf_ne_stuck _)
    | next =>
      have hx : (applyObserversW h ⟨hd, root⟩ rm (some root) gs H []).2.2 = none := by
        cases hx : (applyObserversW h ⟨hd, root⟩ rm (some root) gs H []).2.2 with
        | none => rfl
        | some e => rw [hx] at h3'; simp [flowOf] at h3'
      simp only [exec_skip, endCall, toG, finishA, hx, flowOf, h1, h2]
    | raised e =>
      have hx : (applyObserversW h ⟨hd, root⟩ rm (some root) gs H []).2.2 = some e := by
        cases hx : (applyObserversW h ⟨hd, root⟩ rm (some root) gs H []).2.2 with
        | none => rw [hx] at h3'; simp [flowOf] at h3'
        | some e' => rw [hx] at h3'; simp only [flowOf, Flow.raised.injEq] at h3'; rw [h3']
      simp only
      rw [undo_reraise h n' none _ st' e rm _ h2 (by simp [evalAllO, eval, hI])]
      simp only [finishA, hx, undoRaise, h1]
  · intro g hg st log hI hl
    rw [exec_callFn]
    obtain ⟨v0, v2, v3, v4, v5⟩ := hI
    have hI' : ∀ j, j ≠ 6 → setVar st.vars 6 ((PV.graph ∘ GV.plain) g) j = st.vars j := by
      intro j hj; simp [setVar, hj]
    have hself : setVar st.vars 6 ((PV.graph ∘ GV.plain) g) 6 = PV.graph (GV.plain g) := by simp [setVar]
    simp only [evalAllO, eval, hI' 0 (by decide), hI' 2 (by decide), hI' 3 (by decide), hI' 4 (by decide),
      hI' 5 (by decide), v0, v2, v3, v4, v5, hself]
    have := viaCallT_rel (run h P (n' + 1)) (.fn "add_or_remove_notifiers" (arnArgs (some root) (.plain g) ⟨hd, root⟩ rm))
      { st with vars := setVar st.vars 6 ((PV.graph ∘ GV.plain) g) } log _ hl
      (by
        have := run_arn_walk h ⟨hd, root⟩ g rm true (some root) st.H log (n' + 1)
          (by have := need_le_needL gs g hg; omega)
        simpa [gvOf] using this)
    simp only [arnArgs] at this
    refine ⟨this.1, ?_⟩
    rw [this.2]
    exact ⟨by rw [hI' 0 (by decide)]; exact v0, by rw [hI' 2 (by decide)]; exact v2, by rw [hI' 3 (by decide)]; exact v3,
      by rw [hI' 4 (by decide)]; exact v4, by rw [hI' 5 (by decide)]; exact v5⟩


/-- after the loop of `apply_observers` from an empty log, `finishA` is the model's `finish` (up to
the log, which the source does not clear on success) -/
theorem finishA_eq_finish (rm : Bool) (H : Hooks) (r : Tr) (hd : Did rm H [] r) :
    (finishA rm r).1 = (finish rm r).H ∧ (finishA rm r).2.2 = (finish rm r).err := by
  obtain ⟨new, hlog, hc, hw⟩ := hd
  rw [List.append_nil] at hlog
  unfold finishA finish undoRaise
  cases hr : r.2.2 with
  | none => exact ⟨rfl, hr⟩
  | some e =>
    simp only [hlog]
    cases rm with
    | true => simp [undoS_rm]
    | false =>
      rw [undoS_add new r.1 hw (fun o q => by have := (hc o q).2 rfl; omega)]
      simp

end TraitsVerif.Model.ObsL
